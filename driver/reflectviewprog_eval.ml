(* Evaluator of the "reflectviewprog" engine (translator tie for the generated list / map wrapper types, Model/ReflectViewProg.v).
     REFLECTVIEWPROG sid idx f kind         = list|map                 model: the kind of canon_view sch idx f ("none" if the field has no wrapper)
     REFLECTVIEWPROG sid idx f meth k       = printed statement        model: print (k-th statement of the canonical method), "-" if none
     REFLECTVIEWPROG sid idx f meth len     = number of them           model: their number in the canonical method
     @REFLECTVIEWDEF sid idx f meth text    = ok                       context line: parse and remember the TRANSLATED method; ok iff printing it gives the text back
     REFLECTVIEWPROG sid idx f meth eqb     = same                     model: the remembered method prints as the canonical one
     REFLECTVIEWPROG sid idx f all eqb      = same                     model: lprogs_eqb / mprogs_eqb <the remembered methods> (canon_view sch idx f)
     REFLECTVIEWRUN  sid idx VAL ops        = out|root;…               model: the history (grammar and rendering of HISTV lines, driver/reflect_eval.ml) with
                                                                        the List / Map operations INTERPRETED from the remembered (translated) methods of the
                                                                        wrapper type that made the view (the field of the get / mut / newf that returned it);
                                                                        `mrstop r k` runs the translated Range with a callback that answers false at its k-th call
   Text form (the Go printer in harness/cmd/runner/reflectviewprog.go writes the same); m is a decimal message index:
     method  (body stmt...)
     stmt    nilret0 nilret nilretfalse nilretinvalid validguard (key U X) (val U X) retlen retnotnil (new m) retnew (zero z) varbytes (retzero W) panic
             (retidx W) storeidx appendval appendnew zeroloop slice
             (rangeloop C W) lookupok retok delete lookup ifnotokretinvalid (retlooked W) storekey ifokretmsg storekeynew
     U       Bool Enum Int Uint Float String Bytes Message          X  none i32 u32 f32 enum (msg m)
     W       (of C) enumnum enummeth msg                            C, z as in driver/reflectprog_eval.ml
   The statements of Model/ReflectViewProg.v are evaluated on every step of every HIST / HISTV / REFLECTRUN / REFLECTVIEWRUN history
   (hook Reflect_eval.extra_step_laws): view_prog_law on the list / map operations, the liveness invariant of views on all. *)
open Model
open Util
open Sexp

let table : (string * string * string * string, vstmt list) Hashtbl.t = Hashtbl.create 4096

let ns = Reflectprog_eval.ns
let zero_s = Reflectprog_eval.zero_s
let ctor_s = Reflectprog_eval.ctor_s
let zero_p = Reflectprog_eval.zero_p
let ctor_p = Reflectprog_eval.ctor_p
let nat_p = Reflectprog_eval.nat_p
let bad what = failwith ("reflectviewprog: cannot parse " ^ what)

(* ---- printer ---- *)
let unwrap_s = function
  | VUBool -> "Bool" | VUEnum -> "Enum" | VUInt -> "Int" | VUUint -> "Uint" | VUFloat -> "Float" | VUString -> "String"
  | VUBytes -> "Bytes" | VUMessage -> "Message"
let cast_s = function
  | VXNone -> "none" | VXI32 -> "i32" | VXU32 -> "u32" | VXF32 -> "f32" | VXEnum -> "enum" | VXMsg m -> "(msg " ^ ns m ^ ")"
let wrap_s = function
  | VWOf c -> "(of " ^ ctor_s c ^ ")" | VWEnumNum -> "enumnum" | VWEnumMeth -> "enummeth" | VWMsg -> "msg"
let stmt_s = function
  | VSNilRet0 -> "nilret0" | VSNilRet -> "nilret" | VSNilRetFalse -> "nilretfalse" | VSNilRetInvalid -> "nilretinvalid"
  | VSValidGuard -> "validguard"
  | VSKey (u, c) -> "(key " ^ unwrap_s u ^ " " ^ cast_s c ^ ")"
  | VSVal (u, c) -> "(val " ^ unwrap_s u ^ " " ^ cast_s c ^ ")"
  | VSRetLen -> "retlen" | VSRetNotNil -> "retnotnil"
  | VSNew m -> "(new " ^ ns m ^ ")" | VSRetNew -> "retnew"
  | VSZero z -> "(zero " ^ zero_s z ^ ")" | VSVarBytes -> "varbytes"
  | VSRetZero w -> "(retzero " ^ wrap_s w ^ ")"
  | VSPanic -> "panic"
  | VSRetIdx w -> "(retidx " ^ wrap_s w ^ ")"
  | VSStoreIdx -> "storeidx" | VSAppendVal -> "appendval" | VSAppendNew -> "appendnew" | VSZeroLoop -> "zeroloop" | VSSlice -> "slice"
  | VSRangeLoop (c, w) -> "(rangeloop " ^ ctor_s c ^ " " ^ wrap_s w ^ ")"
  | VSLookupOk -> "lookupok" | VSRetOk -> "retok" | VSDelete -> "delete" | VSLookup -> "lookup"
  | VSIfNotOkRetInvalid -> "ifnotokretinvalid"
  | VSRetLooked w -> "(retlooked " ^ wrap_s w ^ ")"
  | VSStoreKey -> "storekey" | VSIfOkRetMsg -> "ifokretmsg" | VSStoreKeyNew -> "storekeynew"
let body_s (b : vstmt list) : string = "(body" ^ String.concat "" (List.map (fun s -> " " ^ stmt_s s) b) ^ ")"

(* ---- parser ---- *)
let unwrap_p = function
  | A "Bool" -> VUBool | A "Enum" -> VUEnum | A "Int" -> VUInt | A "Uint" -> VUUint | A "Float" -> VUFloat | A "String" -> VUString
  | A "Bytes" -> VUBytes | A "Message" -> VUMessage | _ -> bad "accessor"
let cast_p = function
  | A "none" -> VXNone | A "i32" -> VXI32 | A "u32" -> VXU32 | A "f32" -> VXF32 | A "enum" -> VXEnum
  | L [ A "msg"; m ] -> VXMsg (nat_p m) | _ -> bad "cast"
let wrap_p = function
  | L [ A "of"; c ] -> VWOf (ctor_p c) | A "enumnum" -> VWEnumNum | A "enummeth" -> VWEnumMeth | A "msg" -> VWMsg | _ -> bad "Value construction"
let stmt_p = function
  | A "nilret0" -> VSNilRet0 | A "nilret" -> VSNilRet | A "nilretfalse" -> VSNilRetFalse | A "nilretinvalid" -> VSNilRetInvalid
  | A "validguard" -> VSValidGuard
  | L [ A "key"; u; c ] -> VSKey (unwrap_p u, cast_p c)
  | L [ A "val"; u; c ] -> VSVal (unwrap_p u, cast_p c)
  | A "retlen" -> VSRetLen | A "retnotnil" -> VSRetNotNil
  | L [ A "new"; m ] -> VSNew (nat_p m) | A "retnew" -> VSRetNew
  | L [ A "zero"; z ] -> VSZero (zero_p z) | A "varbytes" -> VSVarBytes
  | L [ A "retzero"; w ] -> VSRetZero (wrap_p w)
  | A "panic" -> VSPanic
  | L [ A "retidx"; w ] -> VSRetIdx (wrap_p w)
  | A "storeidx" -> VSStoreIdx | A "appendval" -> VSAppendVal | A "appendnew" -> VSAppendNew | A "zeroloop" -> VSZeroLoop | A "slice" -> VSSlice
  | L [ A "rangeloop"; c; w ] -> VSRangeLoop (ctor_p c, wrap_p w)
  | A "lookupok" -> VSLookupOk | A "retok" -> VSRetOk | A "delete" -> VSDelete | A "lookup" -> VSLookup
  | A "ifnotokretinvalid" -> VSIfNotOkRetInvalid
  | L [ A "retlooked"; w ] -> VSRetLooked (wrap_p w)
  | A "storekey" -> VSStoreKey | A "ifokretmsg" -> VSIfOkRetMsg | A "storekeynew" -> VSStoreKeyNew
  | _ -> bad "statement"
let body_p (text : string) : vstmt list =
  match parse text with [ L (A "body" :: ss) ] -> List.map stmt_p ss | _ -> bad "method"

let list_methods = [ "Len"; "Get"; "Set"; "Append"; "AppendMutable"; "Truncate"; "NewElement"; "IsValid" ]
let map_methods = [ "Len"; "Range"; "Has"; "Clear"; "Get"; "Set"; "Mutable"; "NewValue"; "IsValid" ]

let method_of (v : vprogs) (name : string) : vstmt list =
  match v, name with
  | VPList p, "Len" -> p.vl_len | VPList p, "Get" -> p.vl_get | VPList p, "Set" -> p.vl_set | VPList p, "Append" -> p.vl_append
  | VPList p, "AppendMutable" -> p.vl_appendmut | VPList p, "Truncate" -> p.vl_truncate | VPList p, "NewElement" -> p.vl_newelem
  | VPList p, "IsValid" -> p.vl_isvalid
  | VPMap p, "Len" -> p.vm_len | VPMap p, "Range" -> p.vm_range | VPMap p, "Has" -> p.vm_has | VPMap p, "Clear" -> p.vm_clear
  | VPMap p, "Get" -> p.vm_get | VPMap p, "Set" -> p.vm_set | VPMap p, "Mutable" -> p.vm_mutable | VPMap p, "NewValue" -> p.vm_newvalue
  | VPMap p, "IsValid" -> p.vm_isvalid
  | _ -> bad ("method name " ^ name)

let canon sid mid f : vprogs option = canon_view (Ctx.schema sid) (nat_of_int (int_of_string mid)) (nat_of_int (int_of_string f))

(* the remembered methods of a wrapper, if all are there; [like]: which kind *)
let progs_of (sid : string) (mid : string) (f : string) (like : vprogs) : vprogs option =
  let get n = Hashtbl.find_opt table (sid, mid, f, n) in
  match like with
  | VPList _ ->
    (match List.map get list_methods with
     | [ Some a; Some b; Some c; Some d; Some e; Some g; Some h; Some i ] ->
       Some (VPList { vl_len = a; vl_get = b; vl_set = c; vl_append = d; vl_appendmut = e; vl_truncate = g; vl_newelem = h; vl_isvalid = i })
     | _ -> None)
  | VPMap _ ->
    (match List.map get map_methods with
     | [ Some a; Some b; Some c; Some d; Some e; Some g; Some h; Some i; Some j ] ->
       Some (VPMap { vm_len = a; vm_range = b; vm_has = c; vm_clear = d; vm_get = e; vm_set = g; vm_mutable = h; vm_newvalue = i; vm_isvalid = j })
     | _ -> None)

exception Stuck

let is_view_op = function
  | OLLen _ | OLGet _ | OLSet _ | OLAppend _ | OLAppendMutable _ | OLTruncate _ | OLNewElement _
  | OMLen _ | OMHas _ | OMGet _ | OMSet _ | OMClear _ | OMMutable _ | OMNewValue _ | OMRange _ -> true
  | OIsValid (PList _) | OIsValid (PMap _) -> true
  | _ -> false

(* a history with the list / map operations interpreted from the translated methods of the wrapper that made the receiver *)
let run_translated sid sch (h0 : heap) (outs0 : pval list) (root : nat option) (ops : string) : string =
  let n = ref (List.length outs0) in
  let origin : (int, string * string) Hashtbl.t = Hashtbl.create 16 in      (* result index -> (message type, field) of the view *)
  let stepf (s : string) sch h o =
    let me = !n in
    incr n;
    let ws = Reflect_eval.words s in
    (match ws, o with
     | [ ("get" | "mut" | "newf"); _; f ], (OGet (PMsg (mid, _), _) | OMutable (PMsg (mid, _), _) | ONewField (PMsg (mid, _), _)) ->
       Hashtbl.replace origin me (ns mid, f)
     | _ -> ());
    if not (is_view_op o) then step sch h o
    else begin
      let r = match ws with _ :: r :: _ -> int_of_string (String.sub r 1 (String.length r - 1)) | _ -> failwith "receiver" in
      match Hashtbl.find_opt origin r with
      | None -> step sch h o                           (* not a view (a receiver of the wrong kind) *)
      | Some (mid, f) ->
        (match canon sid mid f with
         | None -> step sch h o
         | Some like ->
           (match progs_of sid mid f like, ws, o with
            | None, _, _ -> raise Stuck                (* not all methods of the wrapper were translated *)
            | Some (VPMap ps), [ "mrstop"; _; k ], OMRange v ->
              let k = int_of_string k and calls = ref 0 in
              (match run_maprange sch (fun _ _ -> incr calls; !calls < k) ps h v with Some res -> res | None -> raise Stuck)
            | Some (VPList ps), _, _ ->
              (match vp_step sch (fun _ -> Some ps) (fun _ _ -> None) h o with Some res -> res | None -> raise Stuck)
            | Some (VPMap ps), _, _ ->
              (match vp_step sch (fun _ -> None) (fun _ _ -> Some ps) h o with Some res -> res | None -> raise Stuck)))
    end
  in
  try Reflect_eval.run_hist_gen stepf true sch h0 outs0 root ops with Stuck -> "stuck"

(* the statements of Model/ReflectViewProg.v on one step *)
let view_laws sch (h : heap) (o : op) (outs : pval array) (n : int) : unit =
  if is_view_op o then Driver.law "C08.view_prog_correct" (view_prog_law sch h o);
  (match o with
   | OMRange v ->
     (* the callback stops at its 1st, 2nd, … call *)
     List.iter (fun k -> Driver.law "C08.map_range_stop_prog" (map_range_stop_law sch h v (nat_of_int k))) [ 1; 2; 3 ]
   | _ -> ());
  Driver.law "C08.vp_result_live" (vp_result_live_law sch h o);
  for i = 0 to n - 1 do
    match outs.(i) with
    | (PList _ | PMap _) as v -> Driver.law "C08.vp_view_live_kept" (vp_view_live_kept_law sch h o v)
    | _ -> ()
  done

let () = Reflect_eval.extra_step_laws := !Reflect_eval.extra_step_laws @ [ view_laws ]

let reflectviewprog_eval (fn : string) (args : string list) : string =
  match fn, args with
  | "REFLECTVIEWPROG", [ sid; mid; f; "kind" ] ->
    (match canon sid mid f with Some (VPList _) -> "list" | Some (VPMap _) -> "map" | None -> "none")
  | "REFLECTVIEWPROG", [ sid; mid; f; "all"; "eqb" ] ->
    (match canon sid mid f with
     | None -> "no-canonical-wrapper"
     | Some c ->
       (match progs_of sid mid f c with
        | None -> "not-all-translated"
        | Some ps ->
          let same = vprogs_eqb ps c in
          let names = (match c with VPList _ -> list_methods | VPMap _ -> map_methods) in
          (* the model's decidable equality and the comparison of the printed texts are the same judgement *)
          Driver.law "reflectviewprog.vprogs_eqb_is_text_equality"
            (same = List.for_all (fun n -> body_s (method_of ps n) = body_s (method_of c n)) names);
          if same then "same" else "different"))
  | "REFLECTVIEWPROG", [ sid; mid; f; name; k ] ->
    (match canon sid mid f with
     | None -> "no-canonical-wrapper"
     | Some c ->
       let cm = (try method_of c name with Failure _ -> []) in
       if k = "len" then string_of_int (List.length cm)
       else if k = "eqb" then
         (match Hashtbl.find_opt table (sid, mid, f, name) with
          | Some m -> if body_s m = body_s cm then "same" else "different"
          | None -> "no-translated-method")
       else (match List.nth_opt cm (int_of_string k) with Some s -> stmt_s s | None -> "-"))
  | "REFLECTVIEWDEF", [ sid; mid; f; name; text ] ->
    let m = body_p text in
    Hashtbl.replace table (sid, mid, f, name) m;
    if body_s m <> text then "reprinted:" ^ body_s m else "ok"
  | "REFLECTVIEWRUN", [ sid; mid; v; ops ] ->
    let sch = Ctx.schema sid and m = nat_of_int (int_of_string mid) in
    let h, p = load sch (nat_of_int 64) [] m (Sexp.val_of_string v) in
    run_translated sid sch h [ PMsg (m, p) ] p ops
  | _ -> raise Not_found

let () = Driver.register reflectviewprog_eval
