(* Evaluator for the generator engines (gen, desc): identifier allocation, field renaming, feature selection and
   message index, as predicted by Model/GenNames.v and Model/GenOrder.v. *)
open Model
open Util

let name_of_string (s : string) : byte list = List.init (String.length s) (fun i -> byte_of_int (Char.code s.[i]))
let string_of_name (l : byte list) : string = String.concat "" (List.map (fun b -> String.make 1 (Char.chr (int_of_byte b))) l)

(* arguments that may be empty or contain anything but tabs travel in brackets *)
let unbr (s : string) : string =
  let n = String.length s in
  if n >= 2 && s.[0] = '[' && s.[n - 1] = ']' then String.sub s 1 (n - 2) else failwith ("expected [..]: " ^ s)

let law name b = if not b then failwith ("law " ^ name ^ " fails")

(* forest syntax: (name child...)(name ...) ; names contain no parentheses or blanks *)
let parse_forest (s : string) : mtree list =
  let pos = ref 0 and n = String.length s in
  let rec forest () =
    let acc = ref [] in
    while !pos < n && s.[!pos] = '(' do acc := tree () :: !acc done;
    List.rev !acc
  and tree () =
    incr pos;
    let st = !pos in
    while !pos < n && s.[!pos] <> ' ' && s.[!pos] <> ')' && s.[!pos] <> '(' do incr pos done;
    let name = String.sub s st (!pos - st) in
    if !pos < n && s.[!pos] = ' ' then incr pos;
    let ch = forest () in
    if !pos < n && s.[!pos] = ')' then incr pos else failwith "forest: ) expected";
    MT (name_of_string name, ch)
  in
  if s = "()" then [] else forest ()

let path_of_string (s : string) : byte list list = List.map name_of_string (String.split_on_char '.' s)

let rec last = function [] -> failwith "empty path" | [ x ] -> x | _ :: t -> last t

let outcome_string (feats : string) (n3 : int) (names : bool) : string =
  match gen_outcome (name_of_string feats) with
  | UnknownFeature -> "unknown-feature"
  | Skipped -> "0:"
  | Generated fs ->
    if n3 = 0 then "0:"
    else Printf.sprintf "%d:%s" n3 (if names then String.concat "," (List.map string_of_name fs) else "")

let kind_of_string = function
  | "double" -> KDouble | "float" -> KFloat | "int32" -> KInt32 | "int64" -> KInt64 | "uint32" -> KUint32 | "uint64" -> KUint64
  | "sint32" -> KSint32 | "sint64" -> KSint64 | "fixed32" -> KFixed32 | "fixed64" -> KFixed64 | "sfixed32" -> KSfixed32
  | "sfixed64" -> KSfixed64 | "bool" -> KBool | "string" -> KString | "bytes" -> KBytes | "enum" -> KEnum
  | s -> failwith ("kind " ^ s)

let fspec_of_string (s : string) =
  match String.split_on_char ':' s with
  | [ k; sh; one ] ->
    let fk = (match k with "msg" -> FMsg | "group" -> FGroup | _ -> FK (kind_of_string k)) in
    let shape =
      if sh = "s" then SSingular else if sh = "o" then SOptional else if sh = "p" then SPacked else if sh = "u" then SUnpacked
      else if String.length sh > 2 && String.sub sh 0 2 = "m." then SMap (kind_of_string (String.sub sh 2 (String.length sh - 2)))
      else failwith ("shape " ^ sh) in
    let o = if one = "-" then None else Some (n_of_int (int_of_string one)) in
    law "valid_combo" (valid_combo fk shape (o <> None));
    ((fk, shape), o)
  | _ -> failwith ("field spec " ^ s)

(* descriptor model of Model/GenDeps.v from the runner's rendering (see depSpec in geneng.go) *)
let dfile_of_string (s : string) : dfile =
  let open Sexp in
  let atom = function A a -> a | L _ -> failwith "dep spec: atom expected" in
  let tref a = if a = "-" then None else Some (name_of_string a) in
  let enums = function L (A "E" :: es) -> List.map (fun e -> name_of_string (atom e)) es | _ -> failwith "dep spec: (E ..)" in
  let exts = function
    | L (A "X" :: xs) ->
      List.map (function L [ A "x"; A e; A t ] -> { x_extendee = name_of_string e; x_type = tref t } | _ -> failwith "dep spec: (x ..)") xs
    | _ -> failwith "dep spec: (X ..)" in
  let rec msg = function
    | L [ A "M"; A full; e; x; L (A "R" :: rs); L (A "N" :: ns) ] ->
      DM (name_of_string full, enums e, exts x, List.map (fun r -> tref (atom r)) rs, List.map msg ns)
    | _ -> failwith "dep spec: (M ..)" in
  match parse s with
  | [ L [ A "F"; e; x; L (A "MS" :: ms); L (A "SV" :: svs) ] ] ->
    { df_enums = enums e; df_exts = exts x; df_msgs = List.map msg ms;
      df_services = List.map (function
          | L (A "S" :: mes) -> List.map (function L [ A "m"; A i; A o ] -> { me_in = name_of_string i; me_out = name_of_string o } | _ -> failwith "dep spec: (m ..)") mes
          | _ -> failwith "dep spec: (S ..)") svs }
  | _ -> failwith "dep spec: (F ..)"

let gen_eval (fn : string) (args : string list) : string =
  match fn, args with
  | "GENID", [ "md"; g ] -> let g = name_of_string (unbr g) in law "go_ok" (go_ok g); string_of_name (md_ident g)
  | "GENID", [ "fast"; g ] -> string_of_name (fast_ident (name_of_string (unbr g)))
  | "GENID", [ "msgtype"; g ] -> string_of_name (msgtype_var (name_of_string (unbr g)))
  | "GENID", [ "fd"; g; f ] -> string_of_name (fd_ident (name_of_string (unbr g)) (name_of_string (unbr f)))
  | "GENID", [ "list"; g; num ] ->
    let n = n_of_int (int_of_string num) in
    law "undec_dec" (undec (dec n) = n);
    string_of_name (list_ident (name_of_string (unbr g)) n)
  | "GENID", [ "map"; g; num ] -> string_of_name (map_ident (name_of_string (unbr g)) (n_of_int (int_of_string num)))
  | "GENFIELD", [ g ] ->
    let r = rewrite_field (name_of_string (unbr g)) in
    law "no_field_method_clash" (not (is_reserved r));
    string_of_name r
  | "GENONEOF", [ g ] ->
    let r = rewrite_field (name_of_string (unbr g)) in
    law "no_member_method_clash" (not (is_reserved r));
    string_of_name r
  | "GENFEAT", [ feats; n3; flag ] -> outcome_string (unbr feats) (int_of_string n3) (flag = "msg")
  | "GENSAME", [ a; b ] ->
    (* same feature list in the same order => same bytes *)
    if gen_outcome (name_of_string (unbr a)) = gen_outcome (name_of_string (unbr b)) then "true" else "unrelated"
  | "GENMSGIDX", [ forest; p ] ->
    let tops = parse_forest forest and p = path_of_string (unbr p) in
    let flat = flatten_gen tops in
    law "full_names_unique" (nodup_paths flat);
    law "flatten_gen_eq_spec" (flat = flatten_spec tops);
    law "scan_is_position" (msg_index tops p = index_of flat p);
    law "scan_order_independent" (scan (List.rev (indexed flat)) p = msg_index tops p);
    (match lookup_path tops p with
     | Some m -> law "descriptor_path" (mt_name m = last p)
     | None -> law "descriptor_path_found" false);
    (match msg_index tops p with Some i -> string_of_int (int_of_n i) | None -> "panic")
  | "GENSIZEBR", [ spec ] ->
    let spec = unbr spec in
    let fields = if spec = "" then [] else List.map fspec_of_string (String.split_on_char ' ' spec) in
    (match size_method_opens fields with Some n -> string_of_int (int_of_n n) | None -> "panic")
  | "GENBR", [ t; spec ] ->
    let spec = unbr spec in
    let fields = if spec = "" then [] else List.map fspec_of_string (String.split_on_char ' ' spec) in
    let t = (match t with
        | "has" -> THas | "clear" -> TClear | "get" -> TGet | "set" -> TSet | "mutable" -> TMutable | "newfield" -> TNewField
        | "range" -> TRange | "whichoneof" -> TWhichOneof | "marshal" -> TMarshal | "unmarshal" -> TUnmarshal
        | s -> failwith ("template " ^ s)) in
    List.iter (fun ((fk, sh), o) ->
        match field_toks t fk sh (o <> None) with
        | Some l -> law "templates_total2" (balanced l)
        | None -> law "templates_total2_defined" false) fields;
    (match method_opens t fields with Some n -> string_of_int (int_of_n n) | None -> "panic")
  | "GENDEPIDX", [ spec ] ->
    let f = dfile_of_string spec in
    let t = gen_tables f in
    let declared = all_enums f @ List.map dm_full (all_messages f) in
    law "declared_names_unique" (List.length (List.sort_uniq compare declared) = List.length declared);
    (* the statement of dep_indexes_resolve, evaluated on the case *)
    List.iteri (fun k r ->
        let o = int_of_n (List.nth (offsets f) k) in
        List.iteri (fun i n ->
            let p = List.nth t.depIdxs (o + i) in
            law "dep_indexes_resolve" (p = pos t.goTypes n && List.nth t.goTypes (int_of_n p) = n)) r)
      (sublists f);
    String.concat "," (List.map string_of_name t.goTypes) ^ "|" ^ String.concat "," (List.map (fun i -> string_of_int (int_of_n i)) t.depIdxs)
  | _ -> raise Not_found

let () = Driver.register gen_eval
