(* Evaluator of the "gofun" engine (translator tie for the hand-written runtime/runtime.go and support/timepb/cmp.go, Model/GoFun.v).
     GOFUN     file decls          = names of the translated declarations      model: canon_decls file
     GOFUN     file decl           = printed declaration                        model: print (canonical declaration of that name), "-" if there is none
     @GOFUNDEF file decl text      = ok                                         context line: parse and remember the TRANSLATED declaration;
                                                                                ok iff printing the parsed declaration gives the text back
     GOFUN     file decl eqb       = same                                       model: fundecl_eqb / global_eqb <translated> <canonical>
     GOFUNRUN  file func arg...    = ok (rets) (slices) | panic                 model: run_fun <translated program of the file> func args, what a caller observes
   Text form of programs (the Go printer in harness/cmd/runner/gofun.go writes the same):
     decl   (func f (params (x T)...) (results (x T)...) (body s...)) | (global x e)            an unnamed result is named _
     T      int int8 ... uint64 bool []byte error | *Q | Q                                      Q = T or pkg.T
     s      (var x T) | (:= x e) | (= l e) | (<op>= l e) | (++ l) | (-- l) | (if e (then s...) (else s...))
          | (for (init s...) (cond [e]) (post s...) (do s...)) | (switch e (case (e...) s...)... [(default s...)])
          | break | continue | (return e...) | (panic e) | (expr e)
     l      x | (index x e) | (. x f)
     e      <decimal> | (str "...") | true | false | nil | x | (q pkg name) | (. e f) | (neg e) | (not e) | (compl e) | (<op> e e)
          | (conv T e) | (len e) | (index e e) | (call f e...) | (pcall pkg f e...) | (mcall e m e...) | (deref e) | (addr e) | (lit Q (f e)...)
   Values:  <type>:<hex> | true | false | b:<hex or -> | nilptr | (ptr (f v)...) | (rec (f v)...) | nilerr | (err "...") | opaque:<tag> *)
open Model
open Util

(* ---- names ---- *)
let nm (s : string) : gname = List.init (String.length s) (fun i -> byte_of_int (Char.code s.[i]))
let str_of (g : gname) : string = String.init (List.length g) (let a = Array.of_list g in fun i -> Char.chr (int_of_byte a.(i)))
let bad what = failwith ("gofun: cannot parse " ^ what)

(* ---- s-expressions with quoted strings ---- *)
type sx = A of string | Q of string | L of sx list

let parse_sx (s : string) : sx list =
  let n = String.length s in
  let pos = ref 0 in
  let rec skip () = if !pos < n && (s.[!pos] = ' ' || s.[!pos] = '\t') then (incr pos; skip ()) in
  let rec items () =
    skip ();
    if !pos >= n || s.[!pos] = ')' then []
    else begin
      let x = item () in
      x :: items ()
    end
  and item () =
    if s.[!pos] = '(' then begin
      incr pos;
      let l = items () in
      if !pos < n && s.[!pos] = ')' then incr pos else bad "missing )";
      L l
    end else if s.[!pos] = '"' then begin
      incr pos;
      let b = Buffer.create 32 in
      while !pos < n && s.[!pos] <> '"' do
        if s.[!pos] = '\\' && !pos + 1 < n then incr pos;
        Buffer.add_char b s.[!pos];
        incr pos
      done;
      if !pos < n then incr pos else bad "unterminated string";
      Q (Buffer.contents b)
    end else begin
      let st = !pos in
      while !pos < n && s.[!pos] <> ' ' && s.[!pos] <> ')' && s.[!pos] <> '(' do incr pos done;
      A (String.sub s st (!pos - st))
    end
  in
  items ()

let quote (s : string) : string =
  let b = Buffer.create (String.length s + 2) in
  Buffer.add_char b '"';
  String.iter (fun c ->
      if c = '"' || c = '\\' then Buffer.add_char b '\\';
      Buffer.add_char b (if Char.code c < 0x20 || Char.code c > 0x7e then '?' else c)) s;
  Buffer.add_char b '"';
  Buffer.contents b

(* ---- numbers ---- *)
let is_num s = s <> "" && String.for_all (fun c -> c >= '0' && c <= '9') s
let z_of_dec (s : string) : z =
  let ten = z_of_int 10 in
  let acc = ref Z0 in
  String.iter (fun c -> acc := Z.add (Z.mul !acc ten) (z_of_int (Char.code c - 48))) s;
  !acc
let dec_of_z (x : z) : string = str_of (dec_string x)

(* ---- types ---- *)
let itys = [ "int", TInt; "int8", TInt8; "int16", TInt16; "int32", TInt32; "int64", TInt64;
             "uint", TUint; "uint8", TUint8; "uint16", TUint16; "uint32", TUint32; "uint64", TUint64 ]
let ity_s t = fst (List.find (fun (_, u) -> u = t) itys)
let ity_p s = match List.assoc_opt s itys with Some t -> t | None -> bad ("integer type " ^ s)
let ty_s = function
  | GoInt t -> ity_s t
  | GoBool -> "bool"
  | GoBytes -> "[]byte"
  | GoError -> "error"
  | GoNamed q -> str_of q
  | GoPtr q -> "*" ^ str_of q
let ty_p s =
  match List.assoc_opt s itys with
  | Some t -> GoInt t
  | None ->
    if s = "bool" then GoBool else if s = "[]byte" then GoBytes else if s = "error" then GoError
    else if String.length s > 1 && s.[0] = '*' then GoPtr (nm (String.sub s 1 (String.length s - 1)))
    else if s = "" then bad "type" else GoNamed (nm s)

(* ---- operators ---- *)
let binops = [ "+", BAdd; "-", BSub; "*", BMul; "/", BDiv; "%", BRem; "<<", BShl; ">>", BShr; "&", BAnd; "|", BOr; "^", BXor; "&^", BAndNot;
               "==", BEq; "!=", BNe; "<", BLt; "<=", BLe; ">", BGt; ">=", BGe; "&&", BLAnd; "||", BLOr ]
let binop_s o = fst (List.find (fun (_, p) -> p = o) binops)
let unops = [ "neg", UNeg; "not", UNot; "compl", UCompl ]
let unop_s o = fst (List.find (fun (_, p) -> p = o) unops)
let is_arith = function BAdd | BSub | BMul | BDiv | BRem | BShl | BShr | BAnd | BOr | BXor | BAndNot -> true | _ -> false

(* ---- printer ---- *)
let sp l = String.concat "" (List.map (fun x -> " " ^ x) l)
let rec expr_s = function
  | ExConst z -> dec_of_z z
  | ExStr s -> "(str " ^ quote (str_of s) ^ ")"
  | ExTrue -> "true" | ExFalse -> "false" | ExNil -> "nil"
  | ExVar x -> str_of x
  | ExQual (p, n) -> "(q " ^ str_of p ^ " " ^ str_of n ^ ")"
  | ExSel (e, f) -> "(. " ^ expr_s e ^ " " ^ str_of f ^ ")"
  | ExUn (o, e) -> "(" ^ unop_s o ^ " " ^ expr_s e ^ ")"
  | ExBin (o, a, b) -> "(" ^ binop_s o ^ " " ^ expr_s a ^ " " ^ expr_s b ^ ")"
  | ExConv (t, e) -> "(conv " ^ ity_s t ^ " " ^ expr_s e ^ ")"
  | ExLen e -> "(len " ^ expr_s e ^ ")"
  | ExIndex (s, i) -> "(index " ^ expr_s s ^ " " ^ expr_s i ^ ")"
  | ExCall (f, l) -> "(call " ^ str_of f ^ sp (List.map expr_s l) ^ ")"
  | ExPkgCall (p, f, l) -> "(pcall " ^ str_of p ^ " " ^ str_of f ^ sp (List.map expr_s l) ^ ")"
  | ExMethod (r, m, l) -> "(mcall " ^ expr_s r ^ " " ^ str_of m ^ sp (List.map expr_s l) ^ ")"
  | ExDeref e -> "(deref " ^ expr_s e ^ ")"
  | ExAddr e -> "(addr " ^ expr_s e ^ ")"
  | ExLit (t, fs) -> "(lit " ^ str_of t ^ sp (List.map (fun (k, e) -> "(" ^ str_of k ^ " " ^ expr_s e ^ ")") fs) ^ ")"
let lval_s = function
  | LvVar x -> str_of x
  | LvIndex (x, i) -> "(index " ^ str_of x ^ " " ^ expr_s i ^ ")"
  | LvField (x, f) -> "(. " ^ str_of x ^ " " ^ str_of f ^ ")"
let rec stmt_s = function
  | StVar (x, t) -> "(var " ^ str_of x ^ " " ^ ty_s t ^ ")"
  | StDefine (x, e) -> "(:= " ^ str_of x ^ " " ^ expr_s e ^ ")"
  | StAssign (l, e) -> "(= " ^ lval_s l ^ " " ^ expr_s e ^ ")"
  | StOpAssign (o, l, e) -> "(" ^ binop_s o ^ "= " ^ lval_s l ^ " " ^ expr_s e ^ ")"
  | StInc l -> "(++ " ^ lval_s l ^ ")"
  | StDec l -> "(-- " ^ lval_s l ^ ")"
  | StIf (c, a, b) -> "(if " ^ expr_s c ^ " (then" ^ body_s a ^ ") (else" ^ body_s b ^ "))"
  | StFor (i, c, p, b) ->
    "(for (init" ^ body_s i ^ ") (cond" ^ (match c with Some e -> " " ^ expr_s e | None -> "") ^ ") (post" ^ body_s p ^ ") (do" ^ body_s b ^ "))"
  | StSwitch (e, cs, d) ->
    "(switch " ^ expr_s e
    ^ String.concat "" (List.map (fun (ks, b) -> " (case (" ^ String.concat " " (List.map expr_s ks) ^ ")" ^ body_s b ^ ")") cs)
    ^ (match d with Some b -> " (default" ^ body_s b ^ ")" | None -> "") ^ ")"
  | StBreak -> "break"
  | StContinue -> "continue"
  | StReturn l -> "(return" ^ sp (List.map expr_s l) ^ ")"
  | StPanic e -> "(panic " ^ expr_s e ^ ")"
  | StExpr e -> "(expr " ^ expr_s e ^ ")"
and body_s b = sp (List.map stmt_s b)
let sig_s l = sp (List.map (fun (x, t) -> "(" ^ (if x = [] then "_" else str_of x) ^ " " ^ ty_s t ^ ")") l)
let fun_s (f : fundecl) =
  "(func " ^ str_of f.fn_name ^ " (params" ^ sig_s f.fn_params ^ ") (results" ^ sig_s f.fn_results ^ ") (body" ^ body_s f.fn_body ^ "))"
let global_s ((x, e) : gname * gexpr) = "(global " ^ str_of x ^ " " ^ expr_s e ^ ")"

(* ---- parser ---- *)
let rec expr_p = function
  | A "true" -> ExTrue | A "false" -> ExFalse | A "nil" -> ExNil
  | A s when is_num s -> ExConst (z_of_dec s)
  | A s -> ExVar (nm s)
  | L [ A "str"; Q s ] -> ExStr (nm s)
  | L [ A "q"; A p; A n ] -> ExQual (nm p, nm n)
  | L [ A "."; e; A f ] -> ExSel (expr_p e, nm f)
  | L [ A "conv"; A t; e ] -> ExConv (ity_p t, expr_p e)
  | L [ A "len"; e ] -> ExLen (expr_p e)
  | L [ A "index"; s; i ] -> ExIndex (expr_p s, expr_p i)
  | L (A "call" :: A f :: l) -> ExCall (nm f, List.map expr_p l)
  | L (A "pcall" :: A p :: A f :: l) -> ExPkgCall (nm p, nm f, List.map expr_p l)
  | L (A "mcall" :: r :: A m :: l) -> ExMethod (expr_p r, nm m, List.map expr_p l)
  | L [ A "deref"; e ] -> ExDeref (expr_p e)
  | L [ A "addr"; e ] -> ExAddr (expr_p e)
  | L (A "lit" :: A t :: fs) -> ExLit (nm t, List.map (function L [ A k; e ] -> (nm k, expr_p e) | _ -> bad "literal field") fs)
  | L [ A o; e ] when List.mem_assoc o unops -> ExUn (List.assoc o unops, expr_p e)
  | L [ A o; a; b ] when List.mem_assoc o binops -> ExBin (List.assoc o binops, expr_p a, expr_p b)
  | _ -> bad "expression"
let lval_p = function
  | A x -> LvVar (nm x)
  | L [ A "index"; A x; i ] -> LvIndex (nm x, expr_p i)
  | L [ A "."; A x; A f ] -> LvField (nm x, nm f)
  | _ -> bad "assignment target"
let rec stmt_p = function
  | A "break" -> StBreak
  | A "continue" -> StContinue
  | L [ A "var"; A x; A t ] -> StVar (nm x, ty_p t)
  | L [ A ":="; A x; e ] -> StDefine (nm x, expr_p e)
  | L [ A "="; l; e ] -> StAssign (lval_p l, expr_p e)
  | L [ A "++"; l ] -> StInc (lval_p l)
  | L [ A "--"; l ] -> StDec (lval_p l)
  | L [ A "if"; c; L (A "then" :: a); L (A "else" :: b) ] -> StIf (expr_p c, List.map stmt_p a, List.map stmt_p b)
  | L [ A "for"; L (A "init" :: i); L (A "cond" :: c); L (A "post" :: p); L (A "do" :: b) ] ->
    StFor (List.map stmt_p i, (match c with [] -> None | [ e ] -> Some (expr_p e) | _ -> bad "loop condition"), List.map stmt_p p, List.map stmt_p b)
  | L (A "switch" :: e :: cs) ->
    let cases = List.filter_map (function L (A "case" :: L ks :: b) -> Some (List.map expr_p ks, List.map stmt_p b) | L (A "default" :: _) -> None | _ -> bad "case clause") cs in
    let dflt = List.filter_map (function L (A "default" :: b) -> Some (List.map stmt_p b) | _ -> None) cs in
    (* the printer puts the default clause last: anything else does not reprint to the same text and is reported *)
    StSwitch (expr_p e, cases, (match dflt with [] -> None | [ d ] -> Some d | _ -> bad "two default clauses"))
  | L (A "return" :: l) -> StReturn (List.map expr_p l)
  | L [ A "panic"; e ] -> StPanic (expr_p e)
  | L [ A "expr"; e ] -> StExpr (expr_p e)
  | L [ A o; l; e ] when String.length o > 1 && o.[String.length o - 1] = '='
                         && (match List.assoc_opt (String.sub o 0 (String.length o - 1)) binops with Some p -> is_arith p | None -> false) ->
    StOpAssign (List.assoc (String.sub o 0 (String.length o - 1)) binops, lval_p l, expr_p e)
  | _ -> bad "statement"
let sig_p l = List.map (function L [ A x; A t ] -> ((if x = "_" then [] else nm x), ty_p t) | _ -> bad "parameter") l

type decl = Fun of fundecl | Glob of (gname * gexpr)
let decl_p (s : string) : decl =
  match parse_sx s with
  | [ L [ A "func"; A f; L (A "params" :: ps); L (A "results" :: rs); L (A "body" :: b) ] ] ->
    Fun { fn_name = nm f; fn_params = sig_p ps; fn_results = sig_p rs; fn_body = List.map stmt_p b }
  | [ L [ A "global"; A x; e ] ] -> Glob (nm x, expr_p e)
  | _ -> bad "declaration"
let decl_s = function Fun f -> fun_s f | Glob g -> global_s g

(* ---- values ---- *)
let rec val_s = function
  | GvConst z -> "const:" ^ hex_of_z z
  | GvInt (t, z) -> ity_s t ^ ":" ^ hex_of_z z
  | GvBool b -> if b then "true" else "false"
  | GvNil -> "nil"
  | GvBytes l -> "b:" ^ hex_of_bytes l
  | GvRec fs -> "(rec" ^ fields_s fs ^ ")"
  | GvPtr None -> "nilptr"
  | GvPtr (Some fs) -> "(ptr" ^ fields_s fs ^ ")"
  | GvErr None -> "nilerr"
  | GvErr (Some m) -> "(err " ^ quote (str_of m) ^ ")"
  | GvTime z -> "(time " ^ hex_of_z z ^ ")"
  | GvOpaque t -> "opaque:" ^ str_of t
and fields_s fs = sp (List.map (fun (k, v) -> "(" ^ str_of k ^ " " ^ val_s v ^ ")") fs)
let rec val_p = function
  | A "true" -> GvBool true | A "false" -> GvBool false
  | A "nilptr" -> GvPtr None | A "nilerr" -> GvErr None | A "nil" -> GvNil
  | A s ->
    (match String.index_opt s ':' with
     | None -> bad ("value " ^ s)
     | Some i ->
       let k = String.sub s 0 i and r = String.sub s (i + 1) (String.length s - i - 1) in
       if k = "b" then GvBytes (bytes_of_hex r) else if k = "opaque" then GvOpaque (nm r) else if k = "const" then GvConst (z_of_hex r)
       else GvInt (ity_p k, z_of_hex r))
  | L (A "ptr" :: fs) -> GvPtr (Some (fields_p fs))
  | L (A "rec" :: fs) -> GvRec (fields_p fs)
  | L [ A "err"; Q m ] -> GvErr (Some (nm m))
  | _ -> bad "value"
and fields_p fs = List.map (function L [ A k; v ] -> (nm k, val_p v) | _ -> bad "field") fs
let val_of_string s = match parse_sx s with [ x ] -> val_p x | _ -> bad "value: one expression expected"

let res_s (r : gres) : string =
  match observable r with
  | GOk (rets, slices) -> "ok (" ^ String.concat " " (List.map val_s rets) ^ ") (" ^ String.concat " " (List.map val_s slices) ^ ")"
  | GPanic -> "panic" | GFuel -> "outoffuel" | GStuck -> "stuck"

(* ---- the translated declarations of a file, in source order ---- *)
let defs : (string, (string * decl) list ref) Hashtbl.t = Hashtbl.create 4
let defs_of file = match Hashtbl.find_opt defs file with Some r -> r | None -> let r = ref [] in Hashtbl.replace defs file r; r
let program_of file : program =
  let l = List.rev !(defs_of file) in
  { pg_globals = List.filter_map (function _, Glob g -> Some g | _ -> None) l;
    pg_funs = List.filter_map (function _, Fun f -> Some f | _ -> None) l }

let canon_decl (file : string) (name : string) : decl option =
  match canon_program (nm file) with
  | None -> None
  | Some p ->
    if not (List.mem (nm name) (canon_decls (nm file))) then None
    else
      match String.index_opt name ':' with
      | Some i -> (match find_global p.pg_globals (nm (String.sub name (i + 1) (String.length name - i - 1))) with Some g -> Some (Glob g) | None -> None)
      | None -> (match find_fun p.pg_funs (nm name) with Some f -> Some (Fun f) | None -> None)

let decl_eqb a b =
  match a, b with
  | Fun f, Fun g -> fundecl_eqb f g
  | Glob x, Glob y -> global_eqb x y
  | _, _ -> false

(* ---- the target statements of Model/GoFun.v on one case ---- *)
let ts_of = function
  | GvPtr (Some [ (_, GvInt (TInt64, s)); (_, GvInt (TInt32, n)) ]) -> Some { secs = s; nanos = n }
  | _ -> None
let n_of_z (x : z) : n = match x with Zpos p -> Npos p | _ -> N0
let field name = function GvRec fs -> (match go_get (nm name) fs with Some (GvInt (_, z)) -> Some z | _ -> None) | _ -> None

let run_laws (fn : string) (args : gvalue list) : unit =
  let law = Driver.law in
  match fn, args with
  | "Sov", [ GvInt (TUint64, x) ] -> law "C15.gofun_sov" (sov_prog_law (n_of_z x))
  | "Soz", [ GvInt (TUint64, x) ] -> law "C15.gofun_soz" (soz_prog_law (n_of_z x))
  | "EncodeVarint", [ GvBytes b; GvInt (TInt, off); GvInt (TUint64, v) ] -> law "C15.gofun_encodevarint" (encodevarint_prog_law b off (n_of_z v))
  | "Skip", [ GvBytes b ] -> law "C15.gofun_skip" (skip_prog_law b)
  | ("SizeInputToOptions" | "MarshalInputToOptions" | "UnmarshalInputToOptions"), [ r ] ->
    (match field "Flags" r with
     | Some fl -> law "gofun_options" (options_prog_law fl (match field "Depth" r with Some d -> d | None -> Z0))
     | None -> ())
  | "Compare", [ a; b ] ->
    (match ts_of a, ts_of b with
     | Some t1, Some t2 ->
       law "C17.gofun_compare" (compare_prog_law t1 t2);
       law "C17.gofun_overflowpanic" (overflowpanic_prog_law t1 t2 true && overflowpanic_prog_law t1 t2 false)
     | _ -> ())
  | "DurationIsNegative", [ d ] -> (match ts_of d with Some d -> law "C17.gofun_durationisnegative" (durationisnegative_prog_law d) | None -> ())
  | "Add", [ t; d ] -> (match ts_of t, ts_of d with Some t, Some d -> law "C17.gofun_add" (add_prog_law t d) | _ -> ())
  | "AddStd", [ t; GvInt (TInt64, d) ] -> (match ts_of t with Some t -> law "C17.gofun_addstd" (addstd_prog_law t d) | None -> ())
  | _ -> ()

let max_bytes args = List.fold_left (fun m v -> match v with GvBytes l -> max m (List.length l) | _ -> m) 0 args

(* the files of Model/GoFun.v; generator/helpers.go (Model/GoFunGen.v) is evaluated by gofungen_eval.ml *)
let owns file = canon_program (nm file) <> None

let gofun_eval (fn : string) (args : string list) : string =
  match fn, args with
  | "GOFUN", file :: _ when not (owns file) -> raise Not_found
  | "GOFUNDEF", file :: _ when not (owns file) -> raise Not_found
  | "GOFUNRUN", file :: _ when not (owns file) -> raise Not_found
  | "GOFUN", [ file; "decls" ] -> String.concat " " (List.map str_of (canon_decls (nm file)))
  | "GOFUN", [ file; name ] -> (match canon_decl file name with Some d -> decl_s d | None -> "-")
  | "GOFUN", [ file; name; "eqb" ] ->
    (match List.assoc_opt name !(defs_of file), canon_decl file name with
     | None, _ -> "no-translated-declaration"
     | _, None -> "no-canonical-declaration"
     | Some d, Some c -> if decl_eqb d c then "same" else "different")
  | "GOFUNDEF", [ file; name; text ] ->
    let d = decl_p text in
    let r = defs_of file in
    r := (name, d) :: List.remove_assoc name !r;
    (* the model's decidable equality and the comparison of the printed texts are the same judgement *)
    (match canon_decl file name with
     | Some c -> Driver.law "gofun.eqb_is_text_equality" (decl_eqb d c = (text = decl_s c))
     | None -> ());
    if decl_s d <> text then "reprinted:" ^ decl_s d else "ok"
  | "GOFUNRUN", file :: f :: vals ->
    let vs = List.map val_of_string vals in
    run_laws f vs;
    res_s (run_fun (program_of file) (nat_of_int (64 + (2 * max_bytes vs))) (nat_of_int 8) (nm f) vs)
  | _ -> raise Not_found

let () = Driver.register gofun_eval
