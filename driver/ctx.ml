(* Context shared between lines of a case file (schemas defined by SCHEMA directives). *)
let handle_directive (_fn : string) (_args : string list) (_obs : string) : bool = false
