(* Context shared between lines of a case file (schemas defined by SCHEMA directives). *)
let schemas : (string, Model.schema) Hashtbl.t = Hashtbl.create 16

let handle_directive (fn : string) (args : string list) (obs : string) : bool =
  match fn, args with
  | "SCHEMA", [ sid ] ->
    let sch = Sexp.schema_of_sexp obs in
    if not (Model.wf sch) then Printf.printf "MISMATCH\tschema %s printed by the runner is not wf (Model/WF.v)\n" sid;
    Hashtbl.replace schemas sid sch; true
  | _ -> false

let schema sid = try Hashtbl.find schemas sid with Not_found -> failwith ("unknown schema " ^ sid)
