(* Context shared between lines of a case file (schemas defined by SCHEMA directives). *)
let schemas : (string, Model.schema) Hashtbl.t = Hashtbl.create 16

let handle_directive (fn : string) (args : string list) (obs : string) : bool =
  match fn, args with
  | "SCHEMA", [ sid ] -> Hashtbl.replace schemas sid (Sexp.schema_of_sexp obs); true
  | _ -> false

let schema sid = try Hashtbl.find schemas sid with Not_found -> failwith ("unknown schema " ^ sid)
