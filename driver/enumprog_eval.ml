(* Evaluator of the "enumprog" engine (translator tie for the generated enum types and the per-file type tables, Model/EnumProg.v).
     @ENUMFILE  set file spec          = ok                     context line: the declaration tree of the file (remembered; file-level laws)
     ENUMPROG   set file var info full = (enum …) | none        model: canon_enum (spec, var, [info]) full, printed
     ENUMMSG    set file var full      = (msg VAR s r) | none   model: canon_msg
     ENUMTABLES set file               = E M                    model: enum_table_len, msg_table_len
   Text form (the Go printer in harness/cmd/runner/enumprog.go writes the same):
     (enum T (consts (c NAME NUM)…) (names (n NUM NAME)…) (values (v NAME NUM)…) (methods M…))
     M = (Enum T) (String T) (Descriptor T VAR N) (Type T VAR N) (Number T) (EnumDescriptor T VAR i…)
   The statements of Properties/C19.v (enum_law_holds, enum_string_own, eprog_eqb_correct) are evaluated as laws on every case. *)
open Model
open Util
open Sexp
let law = Driver.law

let bad what = failwith ("enumprog: cannot parse " ^ what)
let nm_of (s : string) : byte list = List.init (String.length s) (fun i -> byte_of_int (Char.code s.[i]))
let nm_s (l : byte list) : string = String.concat "" (List.map (fun b -> String.make 1 (Char.chr (int_of_byte b))) l)
let z_s (x : z) : string =
  let h = hex_of_z x in
  if String.length h > 0 && h.[0] = '-' then string_of_int (- (int_of_string ("0x" ^ String.sub h 1 (String.length h - 1))))
  else string_of_int (int_of_string ("0x" ^ h))

(* the declaration tree: depSpec's format (geneng.go); extensions, fields and services are not needed here but parsed if present *)
let dfile_of_string (s : string) : dfile =
  let atom = function A a -> a | L _ -> bad "spec: atom expected" in
  let tref a = if a = "-" then None else Some (nm_of a) in
  let enums = function L (A "E" :: es) -> List.map (fun e -> nm_of (atom e)) es | _ -> bad "spec: (E ..)" in
  let exts = function
    | L (A "X" :: xs) ->
      List.map (function L [ A "x"; A e; A t ] -> { x_extendee = nm_of e; x_type = tref t } | _ -> bad "spec: (x ..)") xs
    | _ -> bad "spec: (X ..)" in
  let rec msg = function
    | L [ A "M"; A full; e; x; L (A "R" :: rs); L (A "N" :: ns) ] ->
      DM (nm_of full, enums e, exts x, List.map (fun r -> tref (atom r)) rs, List.map msg ns)
    | _ -> bad "spec: (M ..)" in
  match parse s with
  | [ L [ A "F"; e; x; L (A "MS" :: ms); L (A "SV" :: svs) ] ] ->
    { df_enums = enums e; df_exts = exts x; df_msgs = List.map msg ms;
      df_services = List.map (function
          | L (A "S" :: mes) -> List.map (function L [ A "m"; A i; A o ] -> { me_in = nm_of i; me_out = nm_of o } | _ -> bad "spec: (m ..)") mes
          | _ -> bad "spec: (S ..)") svs }
  | _ -> bad "spec: (F ..)"

let info_of_string (s : string) : einfo =
  match parse s with
  | [ L (A "info" :: A full :: A go :: vals) ] ->
    { ei_full = nm_of full; ei_go = nm_of go;
      ei_values = List.map (function
          | L [ A "val"; A n; A g; A num ] -> { ev_name = nm_of n; ev_go = nm_of g; ev_num = z_of_int (int_of_string num) }
          | _ -> bad "info: (val ..)") vals }
  | _ -> bad "info"

let meth_s = function
  | EMEnum t -> "(Enum " ^ nm_s t ^ ")"
  | EMString t -> "(String " ^ nm_s t ^ ")"
  | EMDescriptor (t, v, n) -> "(Descriptor " ^ nm_s t ^ " " ^ nm_s v ^ " " ^ dec_of_n n ^ ")"
  | EMType (t, v, n) -> "(Type " ^ nm_s t ^ " " ^ nm_s v ^ " " ^ dec_of_n n ^ ")"
  | EMNumber t -> "(Number " ^ nm_s t ^ ")"
  | EMRawDesc (t, v, p) -> "(EnumDescriptor " ^ nm_s t ^ " " ^ nm_s v ^ String.concat "" (List.map (fun i -> " " ^ dec_of_n i) p) ^ ")"
let prog_s (p : eprog) : string =
  "(enum " ^ nm_s p.ep_type
  ^ " (consts" ^ String.concat "" (List.map (fun (n, x) -> " (c " ^ nm_s n ^ " " ^ z_s x ^ ")") p.ep_consts) ^ ")"
  ^ " (names" ^ String.concat "" (List.map (fun (x, n) -> " (n " ^ z_s x ^ " " ^ nm_s n ^ ")") p.ep_name_map) ^ ")"
  ^ " (values" ^ String.concat "" (List.map (fun (n, x) -> " (v " ^ nm_s n ^ " " ^ z_s x ^ ")") p.ep_value_map) ^ ")"
  ^ " (methods" ^ String.concat "" (List.map (fun m -> " " ^ meth_s m) p.ep_methods) ^ "))"

let nodup (l : 'a list) : bool = List.length (List.sort_uniq compare l) = List.length l

let file_tbl : (string * string, dfile) Hashtbl.t = Hashtbl.create 64
let file_of set file = try Hashtbl.find file_tbl (set, file) with Not_found -> failwith ("enumprog: no @ENUMFILE line for " ^ set ^ " " ^ file)

let enumprog_eval (fn : string) (args : string list) : string =
  match fn, args with
  | "ENUMFILE", [ set; file; spec ] ->
    let d = dfile_of_string spec in
    Hashtbl.replace file_tbl (set, file) d;
    law "declared_names_unique" (nodup (edeclared d));
    law "paths_cover_enums" (List.map fst (file_epaths d) = all_enums d);
    List.iter (fun (e, p) -> law "enum_raw_path" (resolve_path d p = Some e)) (file_epaths d);
    "ok"
  | "ENUMPROG", [ set; file; var; info; full ] ->
    let d = file_of set file in
    let inf = info_of_string info in
    let f = { ef_desc = d; ef_var = nm_of var; ef_infos = [ inf ] } in
    let n = nm_of full in
    law "info_is_of_enum" (inf.ei_full = n);
    law "enum_law_holds" (enum_law f n);
    (match canon_enum f n with
     | Some p ->
       law "eprog_eqb_correct" (eprog_eqb p p);
       (* enum_string_own on every declared number and two undeclared ones *)
       List.iter (fun x ->
           law "enum_string_own" (run_string f p x = Some (by_number inf.ei_values x) && map_lookup p.ep_name_map x = by_number inf.ei_values x))
         (z_of_int 2147483647 :: z_of_int (-2147483648) :: List.map (fun v -> v.ev_num) inf.ei_values);
       prog_s p
     | None -> "none")
  | "ENUMMSG", [ set; file; var; full ] ->
    let d = file_of set file in
    let f = { ef_desc = d; ef_var = nm_of var; ef_infos = [] } in
    (match canon_msg f (nm_of full) with
     | Some (MPIdx (v, s, r) as m) ->
       law "eprog_eqb_correct" (emprog_eqb m m);
       law "message_index_bound" (int_of_n s < int_of_n (msg_table_len d));
       "(msg " ^ nm_s v ^ " " ^ dec_of_n s ^ " " ^ dec_of_n r ^ ")"
     | None -> "none")
  | "ENUMTABLES", [ set; file ] ->
    let d = file_of set file in
    dec_of_n (enum_table_len d) ^ " " ^ dec_of_n (msg_table_len d)
  | _ -> raise Not_found

let () = Driver.register enumprog_eval
