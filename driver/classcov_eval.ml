(* Class coverage of the per-run program comparisons (harness/cmd/runner/classcov.go; DESIGN.md 12.7 "Class coverage").
     CLASSCOV engine class witness = covered | MISSING
   The rule: every class of the enumeration must be covered — the model's answer is "covered" — and a class only counts as covered
   when its witness (the first fully translated type of the run that contains a field of that class) is EQUAL to the canonical
   program: that judgement is the driver's (prog_eqb … on the translated program the context lines carried), so the witness's own
   `… eqb` case is evaluated again here.  witness = "sid/mid" ("sid/mid/field" for the list / map wrapper types), "-" when the
   runner found none (observed MISSING <> covered: a broken correspondence). Stateless apart from a cache. *)

let cache : (string * string, string) Hashtbl.t = Hashtbl.create 64

let eqb_case engine parts =
  match engine, parts with
  | "sizeprog", [ sid; mid ] -> Some ("SIZEPROG", [ sid; mid; "eqb" ])
  | "marshalprog", [ sid; mid ] -> Some ("MARSHALPROG", [ sid; mid; "eqb" ])
  | "unmarshalprog", [ sid; mid ] -> Some ("UNMARSHALPROG", [ sid; mid; "eqb" ])
  | "reflectprog", [ sid; mid ] -> Some ("REFLECTPROG", [ sid; mid; "all"; "eqb" ])
  | "reflectviewprog", [ sid; mid; f ] -> Some ("REFLECTVIEWPROG", [ sid; mid; f; "all"; "eqb" ])
  | "apiprog", [ sid; mid ] -> Some ("APIPROG", [ sid; mid; "all"; "eqb" ])
  | _ -> None

let classcov_eval (fn : string) (args : string list) : string =
  match fn, args with
  | "CLASSCOV", [ engine; _cls; witness ] ->
    if witness = "-" then "covered"
    else begin
      match Hashtbl.find_opt cache (engine, witness) with
      | Some r -> r
      | None ->
        let r =
          match eqb_case engine (String.split_on_char '/' witness) with
          | None -> "bad-witness:" ^ witness
          | Some (f, a) ->
            (match (try Driver.eval f a with Failure e -> "driver-error:" ^ e) with
             | "same" -> "covered"
             | other -> "MISSING:witness " ^ witness ^ " is not the canonical program (" ^ other ^ ")")
        in
        Hashtbl.replace cache (engine, witness) r;
        r
    end
  | _ -> raise Not_found

let () = Driver.register classcov_eval
