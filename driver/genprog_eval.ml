(* Evaluator of the "genprog" engine (translator tie for the plugin's hand-written decision logic: cmd/protoc-gen-go-pulsar/main.go and
   generator/features.go; Model/GenProg.v; properties C12, C13).
     GENPROG     file imports             = imported packages, sorted            model: canon_<file>_go_imports
     GENPROG     file decls               = top-level declarations in order      model: kinds and names of canon_<file>_go
     GENPROG     file decl                = printed translation                  model: print (canonical declaration of that name), "-" if none
     @GENPROGDEF file decl text           = ok                                   context line: parse and remember the TRANSLATED declaration;
                                                                                 ok iff printing the parsed declaration gives the text back
     GENPROG     file decl eqb            = same                                 model: gpdecl_eqb <translated> <canonical>
   and, in the case files of the gen engine (after its own @GENPROGDEF lines):
     GENPROGRUN  MAIN params flag files   = what the real plugin answered        model: the interpreter on the TRANSLATED program, under three
                                                                                 (map iteration order, sort algorithm) pairs that must agree
     GENPROGRUN  REWRITE params files     = struct members in the emitted code   model: the object tree after the interpreted main
   Text form: see harness/cmd/runner/genprog.go (the Go printer writes the same). *)
open Model
open Util
open Anyprog_eval (* sx = A | Q | L, parse_sx, quote, nm, str_of, sp *)

let bad what = failwith ("genprog: cannot parse " ^ what)
let bytes_of (s : string) : byte list = List.init (String.length s) (fun i -> byte_of_int (Char.code s.[i]))
let string_of_bytes (l : byte list) : string = String.concat "" (List.map (fun b -> String.make 1 (Char.chr (int_of_byte b))) l)
let q (g : gname) = quote (str_of g)

(* ---- printer ---- *)
let rec expr_s = function
  | GpxNil -> "nil"
  | GpxVar x -> str_of x
  | GpxStr s -> "(str " ^ q s ^ ")"
  | GpxUnit -> "(unit)"
  | GpxConcat (a, b) -> "(+ " ^ expr_s a ^ " " ^ expr_s b ^ ")"
  | GpxEq (a, b) -> "(== " ^ expr_s a ^ " " ^ expr_s b ^ ")"
  | GpxNe (a, b) -> "(!= " ^ expr_s a ^ " " ^ expr_s b ^ ")"
  | GpxLt (a, b) -> "(< " ^ expr_s a ^ " " ^ expr_s b ^ ")"
  | GpxNot e -> "(not " ^ expr_s e ^ ")"
  | GpxOr (a, b) -> "(or " ^ expr_s a ^ " " ^ expr_s b ^ ")"
  | GpxSel (e, f) -> "(. " ^ expr_s e ^ " " ^ str_of f ^ ")"
  | GpxIndex (e, i) -> "(index " ^ expr_s e ^ " " ^ expr_s i ^ ")"
  | GpxIndexOk (m, k) -> "(index-ok " ^ expr_s m ^ " " ^ expr_s k ^ ")"
  | GpxMakeMap t -> "(make-map " ^ q t ^ ")"
  | GpxMapLit (t, kvs) -> "(map-lit " ^ q t ^ sp (List.map (fun (k, e) -> "(" ^ q k ^ " " ^ expr_s e ^ ")") kvs) ^ ")"
  | GpxStruct (t, es) -> "(struct " ^ str_of t ^ sp (List.map expr_s es) ^ ")"
  | GpxAppend (s, e) -> "(append " ^ expr_s s ^ " " ^ expr_s e ^ ")"
  | GpxSplit (e, s) -> "(split " ^ expr_s e ^ " " ^ q s ^ ")"
  | GpxErrorf (f, l) -> "(errorf " ^ q f ^ sp (List.map expr_s l) ^ ")"
  | GpxCall (f, l) -> "(call " ^ str_of f ^ sp (List.map expr_s l) ^ ")"
  | GpxFullName e -> "(full-name " ^ expr_s e ^ ")"
  | GpxIsMapEntry e -> "(is-map-entry " ^ expr_s e ^ ")"
  | GpxIsSynthetic e -> "(is-synthetic " ^ expr_s e ^ ")"
  | GpxExtensions e -> "(extensions " ^ expr_s e ^ ")"
  | GpxNewGenerator (a, b, c) -> "(new-generator " ^ expr_s a ^ " " ^ expr_s b ^ " " ^ expr_s c ^ ")"
  | GpxNewGeneratedFile (a, b, c) -> "(new-generated-file " ^ expr_s a ^ " " ^ expr_s b ^ " " ^ expr_s c ^ ")"
  | GpxGenerateFile (a, b, c, d) -> "(generate-file " ^ expr_s a ^ " " ^ expr_s b ^ " " ^ expr_s c ^ " " ^ expr_s d ^ ")"
  | GpxConv (t, e) -> "(conv " ^ q t ^ " " ^ expr_s e ^ ")"
  | GpxQual (p, n) -> "(qual " ^ str_of p ^ " " ^ str_of n ^ ")"
let names_s xs = "(" ^ String.concat " " (List.map str_of xs) ^ ")"
let rec stmt_s = function
  | GpsDefine (xs, e) -> "(:= " ^ names_s xs ^ " " ^ expr_s e ^ ")"
  | GpsAssign (xs, e) -> "(= " ^ names_s xs ^ " " ^ expr_s e ^ ")"
  | GpsVar (x, t) -> "(var " ^ str_of x ^ " " ^ q t ^ ")"
  | GpsTypeStruct (t, fs) -> "(type-struct " ^ str_of t ^ sp (List.map (fun (f, ty) -> "(" ^ str_of f ^ " " ^ q ty ^ ")") fs) ^ ")"
  | GpsSetIndex (m, k, v) -> "(set-index " ^ expr_s m ^ " " ^ expr_s k ^ " " ^ expr_s v ^ ")"
  | GpsSetField (e, f, v) -> "(set-field " ^ expr_s e ^ " " ^ str_of f ^ " " ^ expr_s v ^ ")"
  | GpsIf (i, c, a, b) -> "(if (init" ^ body_s i ^ ") " ^ expr_s c ^ " (then" ^ body_s a ^ ") (else" ^ body_s b ^ "))"
  | GpsRange (k, v, e, b) -> "(range " ^ str_of k ^ " " ^ str_of v ^ " " ^ expr_s e ^ " (body" ^ body_s b ^ "))"
  | GpsBreak -> "(break)"
  | GpsContinue -> "(continue)"
  | GpsReturn l -> "(return" ^ sp (List.map expr_s l) ^ ")"
  | GpsExpr e -> "(expr " ^ expr_s e ^ ")"
  | GpsSortSlice (x, i, j, e) -> "(sort-slice " ^ str_of x ^ " " ^ str_of i ^ " " ^ str_of j ^ " " ^ expr_s e ^ ")"
  | GpsLog (f, l) -> "(log " ^ q f ^ sp (List.map expr_s l) ^ ")"
  | GpsP (g, l) -> "(P " ^ expr_s g ^ sp (List.map expr_s l) ^ ")"
  | GpsSkip g -> "(skip " ^ expr_s g ^ ")"
  | GpsFlagVar (f, e, n, u) -> "(flag-var " ^ str_of f ^ " " ^ expr_s e ^ " " ^ q n ^ " " ^ q u ^ ")"
  | GpsFlagStringVar (f, x, n, d, u) -> "(flag-string-var " ^ str_of f ^ " " ^ str_of x ^ " " ^ q n ^ " " ^ q d ^ " " ^ q u ^ ")"
  | GpsRun (f, p, b) -> "(run " ^ str_of f ^ " " ^ str_of p ^ " (body" ^ body_s b ^ "))"
and body_s b = sp (List.map stmt_s b)
let decl_s = function
  | GpdFunc (f, ps, rs, b) ->
    "(func " ^ str_of f ^ " (params" ^ sp (List.map (fun (x, t) -> "(" ^ str_of x ^ " " ^ q t ^ ")") ps) ^ ") (results" ^ sp (List.map q rs)
    ^ ") (body" ^ body_s b ^ "))"
  | GpdVar (x, e) -> "(var " ^ str_of x ^ " " ^ expr_s e ^ ")"
  | GpdType (t, s) -> "(type " ^ str_of t ^ " " ^ q s ^ ")"
  | GpdMethod (r, m) -> "(method " ^ str_of r ^ " " ^ str_of m ^ ")"
let decl_key = function
  | GpdFunc (f, _, _, _) -> "func:" ^ str_of f
  | GpdVar (x, _) -> "var:" ^ str_of x
  | GpdType (t, _) -> "type:" ^ str_of t
  | GpdMethod (r, m) -> "method:" ^ str_of r ^ "." ^ str_of m

(* ---- parser ---- *)
let rec expr_p = function
  | A "nil" -> GpxNil
  | A x -> GpxVar (nm x)
  | L [ A "str"; Q s ] -> GpxStr (nm s)
  | L [ A "unit" ] -> GpxUnit
  | L [ A "+"; a; b ] -> GpxConcat (expr_p a, expr_p b)
  | L [ A "=="; a; b ] -> GpxEq (expr_p a, expr_p b)
  | L [ A "!="; a; b ] -> GpxNe (expr_p a, expr_p b)
  | L [ A "<"; a; b ] -> GpxLt (expr_p a, expr_p b)
  | L [ A "not"; e ] -> GpxNot (expr_p e)
  | L [ A "or"; a; b ] -> GpxOr (expr_p a, expr_p b)
  | L [ A "."; e; A f ] -> GpxSel (expr_p e, nm f)
  | L [ A "index"; e; i ] -> GpxIndex (expr_p e, expr_p i)
  | L [ A "index-ok"; m; k ] -> GpxIndexOk (expr_p m, expr_p k)
  | L [ A "make-map"; Q t ] -> GpxMakeMap (nm t)
  | L (A "map-lit" :: Q t :: kvs) -> GpxMapLit (nm t, List.map (function L [ Q k; e ] -> (nm k, expr_p e) | _ -> bad "map literal entry") kvs)
  | L (A "struct" :: A t :: es) -> GpxStruct (nm t, List.map expr_p es)
  | L [ A "append"; s; e ] -> GpxAppend (expr_p s, expr_p e)
  | L [ A "split"; e; Q s ] -> GpxSplit (expr_p e, nm s)
  | L (A "errorf" :: Q f :: l) -> GpxErrorf (nm f, List.map expr_p l)
  | L (A "call" :: A f :: l) -> GpxCall (nm f, List.map expr_p l)
  | L [ A "full-name"; e ] -> GpxFullName (expr_p e)
  | L [ A "is-map-entry"; e ] -> GpxIsMapEntry (expr_p e)
  | L [ A "is-synthetic"; e ] -> GpxIsSynthetic (expr_p e)
  | L [ A "extensions"; e ] -> GpxExtensions (expr_p e)
  | L [ A "new-generator"; a; b; c ] -> GpxNewGenerator (expr_p a, expr_p b, expr_p c)
  | L [ A "new-generated-file"; a; b; c ] -> GpxNewGeneratedFile (expr_p a, expr_p b, expr_p c)
  | L [ A "generate-file"; a; b; c; d ] -> GpxGenerateFile (expr_p a, expr_p b, expr_p c, expr_p d)
  | L [ A "conv"; Q t; e ] -> GpxConv (nm t, expr_p e)
  | L [ A "qual"; A p; A n ] -> GpxQual (nm p, nm n)
  | _ -> bad "expression"
let names_p l = List.map (function A x -> nm x | _ -> bad "variable list") l
let rec stmt_p = function
  | L [ A ":="; L xs; e ] -> GpsDefine (names_p xs, expr_p e)
  | L [ A "="; L xs; e ] -> GpsAssign (names_p xs, expr_p e)
  | L [ A "var"; A x; Q t ] -> GpsVar (nm x, nm t)
  | L (A "type-struct" :: A t :: fs) -> GpsTypeStruct (nm t, List.map (function L [ A f; Q ty ] -> (nm f, nm ty) | _ -> bad "struct field") fs)
  | L [ A "set-index"; m; k; v ] -> GpsSetIndex (expr_p m, expr_p k, expr_p v)
  | L [ A "set-field"; e; A f; v ] -> GpsSetField (expr_p e, nm f, expr_p v)
  | L [ A "if"; L (A "init" :: i); c; L (A "then" :: a); L (A "else" :: b) ] ->
    GpsIf (List.map stmt_p i, expr_p c, List.map stmt_p a, List.map stmt_p b)
  | L [ A "range"; A k; A v; e; L (A "body" :: b) ] -> GpsRange (nm k, nm v, expr_p e, List.map stmt_p b)
  | L [ A "break" ] -> GpsBreak
  | L [ A "continue" ] -> GpsContinue
  | L (A "return" :: l) -> GpsReturn (List.map expr_p l)
  | L [ A "expr"; e ] -> GpsExpr (expr_p e)
  | L [ A "sort-slice"; A x; A i; A j; e ] -> GpsSortSlice (nm x, nm i, nm j, expr_p e)
  | L (A "log" :: Q f :: l) -> GpsLog (nm f, List.map expr_p l)
  | L (A "P" :: g :: l) -> GpsP (expr_p g, List.map expr_p l)
  | L [ A "skip"; g ] -> GpsSkip (expr_p g)
  | L [ A "flag-var"; A f; e; Q n; Q u ] -> GpsFlagVar (nm f, expr_p e, nm n, nm u)
  | L [ A "flag-string-var"; A f; A x; Q n; Q d; Q u ] -> GpsFlagStringVar (nm f, nm x, nm n, nm d, nm u)
  | L [ A "run"; A f; A p; L (A "body" :: b) ] -> GpsRun (nm f, nm p, List.map stmt_p b)
  | _ -> bad "statement"
let decl_p (s : string) : gpdecl =
  match parse_sx s with
  | [ L [ A "func"; A f; L (A "params" :: ps); L (A "results" :: rs); L (A "body" :: b) ] ] ->
    GpdFunc (nm f, List.map (function L [ A x; Q t ] -> (nm x, nm t) | _ -> bad "parameter") ps,
             List.map (function Q t -> nm t | _ -> bad "result type") rs, List.map stmt_p b)
  | [ L [ A "var"; A x; e ] ] -> GpdVar (nm x, expr_p e)
  | [ L [ A "type"; A t; Q s ] ] -> GpdType (nm t, nm s)
  | [ L [ A "method"; A r; A m ] ] -> GpdMethod (nm r, nm m)
  | _ -> bad "declaration"

(* ---- the translated declarations, in source order (features.go, then main.go) ---- *)
let defs : ((string * string) * gpdecl) list ref = ref []
let program () : gpdecl list =
  let of_file f = List.filter_map (fun ((f', _), d) -> if f' = f then Some d else None) (List.rev !defs) in
  of_file "features" @ of_file "main"
let canon_file = function "features" -> canon_features_go | "main" -> canon_main_go | f -> failwith ("genprog: no file " ^ f)
let canon_imports = function "features" -> canon_features_go_imports | "main" -> canon_main_go_imports | f -> failwith ("genprog: no file " ^ f)
let canon_decl file key = List.find_opt (fun d -> decl_key d = key) (canon_file file)

(* ---- running ---- *)
let fuel = nat_of_int 64
let reg : (byte list * gpvalue) list = gpp_default_registry
let feat_gen = gpp_default_feat_gen
let rotate = function [] -> [] | x :: t -> t @ [ x ]
(* (map iteration order, sort algorithm): the statements hold for every pair; three of them are run *)
let combos = [ ((fun m -> m), gpp_isort); (List.rev, gpp_isort_rev); (rotate, gpp_isort) ]

let params_of (s : string) : (byte list * byte list) list =
  match parse_sx s with
  | [ L l ] -> List.map (function L [ Q k; Q v ] -> (bytes_of k, bytes_of v) | _ -> bad "parameter") l
  | _ -> bad "parameters"

(* the object tree with the labels under which the runner looked the members up in the emitted source *)
type lmsg = LM of string * string list * string list * lmsg list   (* GoIdent, field labels, oneof labels, nested *)
let rec msg_of = function
  | L [ A "M"; Q full; A me; Q goident; L (A "F" :: fs); L (A "O" :: os); L (A "N" :: ns) ] ->
    let fields = List.map (function L [ Q g; Q fu; Q lb ] -> ({ pf_go = bytes_of g; pf_full = bytes_of fu }, lb) | _ -> bad "field") fs in
    let oneofs = List.map (function L [ Q g; A syn; Q fu; Q lb ] -> ({ po_go = bytes_of g; po_syn = (syn = "syn"); po_full = bytes_of fu }, lb)
                                  | _ -> bad "oneof") os in
    let nested = List.map msg_of ns in
    (GpMsg (bytes_of full, (me = "mapentry"), List.map fst fields, List.map fst oneofs, List.map fst nested),
     LM (goident, List.map snd fields, List.map snd oneofs, List.map snd nested))
  | _ -> bad "message"
let files_of (s : string) : (pfile * (bool * lmsg list)) list =
  match parse_sx s with
  | [ L l ] ->
    List.map (function
        | L [ A "File"; A gen; A p3; A obs; Q prefix; Q imp; Q pkg; L (A "MS" :: ms) ] ->
          let msgs = List.map msg_of ms in
          ({ fi_generate = (gen = "generate"); fi_proto3 = (p3 = "proto3"); fi_prefix = bytes_of prefix; fi_import = bytes_of imp;
             fi_pkg = bytes_of pkg; fi_msgs = List.map fst msgs }, (obs = "observed", List.map snd msgs))
        | _ -> bad "file") l
  | _ -> bad "files"

let features_param params = List.fold_left (fun acc (k, v) -> if k = s_features then Some v else acc) None params

let run_main prog (perm, sorter) files params = gpp_run_main perm sorter feat_gen prog fuel reg files params
let order_of prog (perm, sorter) params : string =
  let names = gpp_feature_names (features_param params) in
  match gpp_run_find_features perm sorter feat_gen prog fuel reg names with
  | GpOk ([ GpvSlice feats; GpvErr None ], _) ->
    String.concat "," (List.map (function GpvFeat n -> string_of_bytes n | _ -> "?") feats)
  | _ -> "?"

(* Properties/C13.v main_prog_stmt / find_features_prog / generate_all_files_prog and Properties/C12.v rewrite_prog on this case: the
   canonical program computes what GenOrder.v / GenNames.v say, for each of the three (iteration order, sort) pairs *)
let laws files params =
  let feats = (match params with [] -> Some None | [ (k, v) ] when k = s_features -> Some (Some v) | _ -> None) in
  (match feats with
   | Some f ->
     List.iter (fun c ->
         match run_main canon_genprog c files params with
         | GpOk (r, _) -> Driver.law "C13.main_prog" (r = gpp_main_spec f files)
         | _ -> Driver.law "C13.main_prog_ok" false) combos
   | None -> ());
  let names = gpp_feature_names (features_param params) in
  List.iter (fun (perm, sorter) ->
      match gpp_run_find_features perm sorter feat_gen canon_genprog fuel reg names with
      | GpOk (vs, _) -> Driver.law "C13.find_features_prog" (vs = gpp_find_features_spec reg names)
      | _ -> Driver.law "C13.find_features_prog_ok" false) combos

let all_same = function [] -> true | x :: t -> List.for_all (fun y -> y = x) t

let genprog_eval (fn : string) (args : string list) : string =
  match fn, args with
  | "GENPROG", [ "types" ] -> "ok"
  | "GENPROG", [ file; "imports" ] -> String.concat " " (List.map str_of (canon_imports file))
  | "GENPROG", [ file; "decls" ] -> String.concat " " (List.map decl_key (canon_file file))
  | "GENPROG", [ file; key ] -> (match canon_decl file key with Some d -> decl_s d | None -> "-")
  | "GENPROG", [ file; key; "eqb" ] ->
    (match List.assoc_opt (file, key) !defs, canon_decl file key with
     | None, _ -> "no-translated-declaration"
     | _, None -> "no-canonical-declaration"
     | Some d, Some c -> if gpdecl_eqb d c then "same" else "different")
  | "GENPROGDEF", [ file; key; text ] ->
    let d = decl_p text in
    defs := ((file, key), d) :: List.remove_assoc (file, key) !defs;
    (* the model's decidable equality and the comparison of the printed texts are the same judgement *)
    (match canon_decl file key with
     | Some c -> Driver.law "genprog.eqb_is_text_equality" (gpdecl_eqb d c = (text = decl_s c))
     | None -> ());
    if decl_s d <> text then "reprinted:" ^ decl_s d else "ok"
  | "GENPROGRUN", [ "MAIN"; params; flag; files ] ->
    let params = params_of params and files = List.map fst (files_of files) in
    laws files params;
    let prog = program () in
    let one c =
      match run_main prog c files params with
      | GpExit -> "crash|"
      | GpPanic -> "panic"
      | GpFuel -> "fuel"
      | GpStuck -> "stuck"
      | GpOk (((Some (f, _), _), _), _) -> (if str_of f = "unknown feature: %q" then "unknown-feature" else "error") ^ "|"
      | GpOk (((None, _), outs), _) ->
        let names = List.map string_of_bytes (gpp_emitted outs) in
        if names = [] then "0:|"
        else Printf.sprintf "%d:%s|%s" (List.length names) (if flag = "msg" then order_of prog c params else "") (String.concat "," names) in
    let rs = List.map one combos in
    if all_same rs then List.hd rs else "order-dependent(" ^ String.concat " / " rs ^ ")"
  | "GENPROGRUN", [ "REWRITE"; params; files ] ->
    let params = params_of params and lfiles = files_of files in
    let files = List.map fst lfiles in
    laws files params;
    let prog = program () in
    let render (files' : pfile list) : string =
      let b = Buffer.create 256 in
      let rec walk (ms : pmsg list) (ls : lmsg list) =
        List.iter2 (fun (GpMsg (_, me, fs, os, ns)) (LM (goident, fl, ol, nl)) ->
            if not me then begin
              Buffer.add_string b (goident ^ "{");
              List.iter2 (fun f lb -> if lb <> "-" then begin
                               Driver.law "C12.no_field_method_clash" (not (is_reserved f.pf_go));
                               Buffer.add_string b (lb ^ "=" ^ string_of_bytes f.pf_go ^ ",") end) fs fl;
              List.iter2 (fun o lb -> if lb <> "-" then begin
                               Driver.law "C12.no_member_method_clash" (not (is_reserved o.po_go));
                               Buffer.add_string b (lb ^ "=" ^ string_of_bytes o.po_go ^ ",") end) os ol;
              Buffer.add_string b "}";
              walk ns nl
            end) ms ls in
      List.iter2 (fun f (_, (obs, ls)) -> if obs then walk f.fi_msgs ls) files' lfiles;
      Buffer.contents b in
    let one c =
      match run_main prog c files params with
      | GpOk (((_, files'), _), _) -> render files'
      | GpExit -> "crash" | GpPanic -> "panic" | GpFuel -> "fuel" | GpStuck -> "stuck" in
    let rs = List.map one [ List.nth combos 0; List.nth combos 1 ] in
    if all_same rs then List.hd rs else "order-dependent(" ^ String.concat " / " rs ^ ")"
  | ("GENPROG" | "GENPROGDEF" | "GENPROGRUN"), _ -> failwith "malformed GENPROG case"
  | _ -> raise Not_found

let () = Driver.register genprog_eval
