(* Evaluator of the "rapid" engine (C18): is the value drawn from rapidproto.MessageGenerator inside
   the range Model/RapidGen.v gives the generator for these options (one-sided: implementation within
   model)? Also evaluates the statements of Properties/C18.v on every value (a test of the statements). *)
open Model
open Util

let annots : (string, mannot list) Hashtbl.t = Hashtbl.create 16

let annots_of_sexp (s : string) : mannot list =
  let msg = function
    | Sexp.L (Sexp.A "R" :: Sexp.A w :: Sexp.A name :: fields) ->
      let field = function
        | Sexp.L (Sexp.A "A" :: Sexp.A ai :: nums) ->
          { a_enum = List.map (function Sexp.A n -> z_of_int (int_of_string n) | _ -> failwith "enum number") nums;
            a_iface = (if ai = "-" then None else Some (nat_of_int (int_of_string ai))) }
        | _ -> failwith "rschema field"
      in
      { a_name = bytes_of_hex name;
        a_wkt = (match w with "ts" -> WTimestamp | "dur" -> WDuration | "any" -> WAny | "fm" -> WFieldMask | "-" -> WNone | _ -> failwith "wkt");
        a_fields = List.map field fields }
    | _ -> failwith "rschema message"
  in
  List.map msg (Sexp.parse s)

(* "nel=0,dn=1,any=2:3,hints=0>5:1>2,fm=1;impl=gen;seed=17" *)
let parse_opts (s : string) : gopts =
  let main = List.hd (String.split_on_char ';' s) in
  let kv = List.map (fun x -> match String.index_opt x '=' with
      | Some i -> (String.sub x 0 i, String.sub x (i + 1) (String.length x - i - 1))
      | None -> failwith "opts") (String.split_on_char ',' main) in
  let get k = try List.assoc k kv with Not_found -> failwith ("opts: no " ^ k) in
  let ints s = if s = "-" then [] else List.map int_of_string (String.split_on_char ':' s) in
  let hints =
    if get "hints" = "-" then []
    else begin
      let ps = List.map (fun x -> match String.split_on_char '>' x with [ a; b ] -> (int_of_string a, int_of_string b) | _ -> failwith "hint")
          (String.split_on_char ':' (get "hints")) in
      let n = 1 + List.fold_left (fun m (a, _) -> max m a) 0 ps in
      List.init n (fun i -> match List.assoc_opt i ps with Some m -> Some (nat_of_int m) | None -> None)
    end in
  let fm = nat_of_int (int_of_string (get "fm")) in
  { o_no_empty = get "nel" = "1"; o_disallow_nil = get "dn" = "1";
    o_any = List.map nat_of_int (ints (get "any")); o_hints = hints; o_fmap = fmap_of_id fm }

let kind_name = function
  | KDouble -> "double" | KFloat -> "float" | KInt32 -> "int32" | KInt64 -> "int64" | KUint32 -> "uint32"
  | KUint64 -> "uint64" | KSint32 -> "sint32" | KSint64 -> "sint64" | KFixed32 -> "fixed32" | KFixed64 -> "fixed64"
  | KSfixed32 -> "sfixed32" | KSfixed64 -> "sfixed64" | KBool -> "bool" | KString -> "string" | KBytes -> "bytes" | KEnum -> "enum"

let clip s = if String.length s > 160 then String.sub s 0 160 ^ "..." else s

(* the same predicates, remembering the first one that says no *)
let instrument (why : string ref) (p : preds) : preds =
  let note s = if !why = "" then why := s in
  { p_scalar = (fun k d v -> let b = p.p_scalar k d v in
                 if not b then note ("scalar-" ^ kind_name k ^ ":" ^ clip (Sexp.string_of_val v)); b);
    p_slot = (fun r pp f fa s -> let b = p.p_slot r pp f fa s in
               if not b then note (Printf.sprintf "slot-field#%d(child-fuel=%d,passes=%s):%s" (int_of_n f.f_num) (int_of_nat r) (hex_of_n pp) (clip (Sexp.string_of_val s))); b);
    p_msg = (fun r ic ma md slots unk -> let b = p.p_msg r ic ma md slots unk in
              if not b then note (Printf.sprintf "message-%s(child-fuel=%d):%s" (String.concat "" (List.map (fun c -> String.make 1 (Char.chr (int_of_byte c))) ma.a_name))
                                    (int_of_nat r) (clip (Sexp.string_of_val (VMsg (slots, unk))))); b) }

let laws = ref 0
let law name b = incr laws; if not b then failwith ("law C18." ^ name ^ " fails")

let rapid_eval (fn : string) (args : string list) : string =
  match fn, args with
  | "RSCHEMA", [ sid; sx ] ->
    let sch = Ctx.schema sid in
    let ann = annots_of_sexp sx in
    Hashtbl.replace annots sid ann;
    if ann_ok sch ann then "ok" else "annotations-do-not-fit-schema"
  | "RAPID", [ sid; mid; opts; v ] ->
    let sch = Ctx.schema sid in
    let ann = (try Hashtbl.find annots sid with Not_found -> failwith ("no RSCHEMA for " ^ sid)) in
    let m = nat_of_int (int_of_string mid) and o = parse_opts opts and v = Sexp.val_of_string v in
    let vr = code_variant in
    let why = ref "" in
    let one = Npos XH in
    if deep sch ann (instrument why (range_preds vr o sch ann)) top_fuel one INoField m v then begin
      (* statements of Properties/C18.v on this value *)
      let d q = deep sch ann q top_fuel one INoField m v in
      law "in_range_agrees" (rapid_in_range vr o sch ann m v);
      law "gen_wt" (wt_msg sch m v);
      law "gen_utf8" (d utf8_preds);
      law "gen_timestamp_valid" (d timestamp_preds);
      law "gen_duration_valid" (d duration_preds);
      law "gen_no_empty_lists" (d (no_empty_preds vr o ann));
      if vr.v_list_clear then law "gen_no_empty_nonnil" (d (no_empty_nonnil_preds o));
      law "gen_disallow_nil" (d (disallow_nil_preds o ann));
      law "gen_no_nil_elements" (d no_nil_elem_preds);
      law "gen_field_mapper" (d (mapper_preds o));
      if o.o_any <> [] then law "gen_any_resolvable" (d (any_preds o sch ann))
      else if vr.v_any_container && vr.v_list_truncate then law "gen_any_absent" (d (no_any_field_preds ann));
      if vr.v_enum_by_number then law "gen_enum_declared" (d enum_preds);
      if vr.v_fieldmask_stored then law "gen_fieldmask_paths" (d fieldmask_preds);
      "ok"
    end
    else "out-of-range:" ^ (if !why = "" then "structure (slot/annotation alignment, undecodable Any payload, or unknown message index)" else !why)
  | _ -> raise Not_found

let () = Driver.register rapid_eval
