(* Evaluator of the third file of the "genprog" engine (task T21): generator/generator.go (NewGenerator, Generator.GenerateFile);
   Model/GenProg2.v; properties C12, C13.  Registered BEFORE genprog_eval.ml (file order) and answers only the lines of its file:
     GENPROG      generator imports | decls | <decl> | <decl> eqb        like genprog_eval.ml, against canon_generator_go
     @GENPROG2DEF generator decl text  = ok                              parse and remember the TRANSLATED declaration
     GENPROG2RUN  params files         = error | names of the response   NewGenerator + GenerateFile per file to generate, interpreted
                                                                         on the TRANSLATED generator.go (findFeatures = GenOrder's)
   Text form: see harness/cmd/runner/genprog2.go. *)
open Model
open Util
open Anyprog_eval (* sx = A | Q | L, parse_sx, quote, nm, str_of, sp *)

let bad what = failwith ("genprog2: cannot parse " ^ what)
let q (g : gname) = quote (str_of g)

let rec expr_s = function
  | G2Nil -> "nil" | G2True -> "true" | G2False -> "false"
  | G2Var x -> str_of x
  | G2Qual (p, n) -> "(qual " ^ str_of p ^ " " ^ str_of n ^ ")"
  | G2Sel (e, f) -> "(. " ^ expr_s e ^ " " ^ str_of f ^ ")"
  | G2Call (f, l) -> "(call " ^ str_of f ^ sp (List.map expr_s l) ^ ")"
  | G2Method (e, m, l) -> "(method " ^ expr_s e ^ " " ^ str_of m ^ sp (List.map expr_s l) ^ ")"
  | G2Ne (a, b) -> "(!= " ^ expr_s a ^ " " ^ expr_s b ^ ")"
  | G2Not e -> "(not " ^ expr_s e ^ ")"
  | G2Make (k, v) -> "(make " ^ q k ^ " " ^ q v ^ ")"
  | G2Lit (amp, t, ks, vs) ->
    "(lit " ^ (if amp then "amp" else "val") ^ " " ^ str_of t ^ " (" ^ String.concat " " (List.map str_of ks) ^ ")" ^ sp (List.map expr_s vs) ^ ")"
  | G2Index (m, k) -> "(index " ^ expr_s m ^ " " ^ expr_s k ^ ")"
  | G2Conv (t, e) -> "(conv " ^ q t ^ " " ^ expr_s e ^ ")"
let rec stmt_s = function
  | G2Define (xs, e) -> "(:= (" ^ String.concat " " (List.map str_of xs) ^ ") " ^ expr_s e ^ ")"
  | G2Assign (x, e) -> "(= " ^ str_of x ^ " " ^ expr_s e ^ ")"
  | G2VarDecl (x, t) -> "(var " ^ str_of x ^ " " ^ q t ^ ")"
  | G2SetIndex (m, k, v) -> "(set-index " ^ expr_s m ^ " " ^ expr_s k ^ " " ^ expr_s v ^ ")"
  | G2If (c, a, b) -> "(if " ^ expr_s c ^ " (then" ^ body_s a ^ ") (else" ^ body_s b ^ "))"
  | G2Range (k, v, e, b) -> "(range " ^ str_of k ^ " " ^ str_of v ^ " " ^ expr_s e ^ " (body" ^ body_s b ^ "))"
  | G2Return l -> "(return" ^ sp (List.map expr_s l) ^ ")"
  | G2Expr e -> "(expr " ^ expr_s e ^ ")"
and body_s b = sp (List.map stmt_s b)
let pairs_s l = sp (List.map (fun (x, t) -> "(" ^ str_of x ^ " " ^ q t ^ ")") l)
let decl_s = function
  | G2Func (r, f, ps, rs, b) ->
    "(func (recv" ^ pairs_s r ^ ") " ^ str_of f ^ " (params" ^ pairs_s ps ^ ") (results" ^ sp (List.map q rs) ^ ") (body" ^ body_s b ^ "))"
  | G2Type (t, s) -> "(type " ^ str_of t ^ " " ^ q s ^ ")"
let decl_key = function G2Func (_, f, _, _, _) -> "func:" ^ str_of f | G2Type (t, _) -> "type:" ^ str_of t

let rec expr_p = function
  | A "nil" -> G2Nil | A "true" -> G2True | A "false" -> G2False
  | A x -> G2Var (nm x)
  | L [ A "qual"; A p; A n ] -> G2Qual (nm p, nm n)
  | L [ A "."; e; A f ] -> G2Sel (expr_p e, nm f)
  | L (A "call" :: A f :: l) -> G2Call (nm f, List.map expr_p l)
  | L (A "method" :: e :: A m :: l) -> G2Method (expr_p e, nm m, List.map expr_p l)
  | L [ A "!="; a; b ] -> G2Ne (expr_p a, expr_p b)
  | L [ A "not"; e ] -> G2Not (expr_p e)
  | L [ A "make"; Q k; Q v ] -> G2Make (nm k, nm v)
  | L (A "lit" :: A amp :: A t :: L ks :: vs) when amp = "amp" || amp = "val" ->
    G2Lit ((amp = "amp"), nm t, List.map (function A k -> nm k | _ -> bad "literal key") ks, List.map expr_p vs)
  | L [ A "index"; m; k ] -> G2Index (expr_p m, expr_p k)
  | L [ A "conv"; Q t; e ] -> G2Conv (nm t, expr_p e)
  | _ -> bad "expression"
let rec stmt_p = function
  | L [ A ":="; L xs; e ] -> G2Define (List.map (function A x -> nm x | _ -> bad "variable list") xs, expr_p e)
  | L [ A "="; A x; e ] -> G2Assign (nm x, expr_p e)
  | L [ A "var"; A x; Q t ] -> G2VarDecl (nm x, nm t)
  | L [ A "set-index"; m; k; v ] -> G2SetIndex (expr_p m, expr_p k, expr_p v)
  | L [ A "if"; c; L (A "then" :: a); L (A "else" :: b) ] -> G2If (expr_p c, List.map stmt_p a, List.map stmt_p b)
  | L [ A "range"; A k; A v; e; L (A "body" :: b) ] -> G2Range (nm k, nm v, expr_p e, List.map stmt_p b)
  | L (A "return" :: l) -> G2Return (List.map expr_p l)
  | L [ A "expr"; e ] -> G2Expr (expr_p e)
  | _ -> bad "statement"
let pairs_p l = List.map (function L [ A x; Q t ] -> (nm x, nm t) | _ -> bad "parameter") l
let decl_p (s : string) : g2decl =
  match parse_sx s with
  | [ L [ A "func"; L (A "recv" :: r); A f; L (A "params" :: ps); L (A "results" :: rs); L (A "body" :: b) ] ] ->
    G2Func (pairs_p r, nm f, pairs_p ps, List.map (function Q t -> nm t | _ -> bad "result type") rs, List.map stmt_p b)
  | [ L [ A "type"; A t; Q s ] ] -> G2Type (nm t, nm s)
  | _ -> bad "declaration"

let bytes_of (s : string) : byte list = List.init (String.length s) (fun i -> byte_of_int (Char.code s.[i]))
let string_of_bytes (l : byte list) : string = String.concat "" (List.map (fun b -> String.make 1 (Char.chr (int_of_byte b))) l)
let params_of (s : string) : (byte list * byte list) list =
  match parse_sx s with
  | [ L l ] -> List.map (function L [ Q k; Q v ] -> (bytes_of k, bytes_of v) | _ -> bad "parameter") l
  | _ -> bad "parameters"
(* the files of a GENPROGRUN MAIN line (object tree without messages) *)
let files_of (s : string) : pfile list =
  match parse_sx s with
  | [ L l ] ->
    List.map (function
        | L [ A "File"; A gen; A p3; A _; Q prefix; Q imp; Q pkg; L (A "MS" :: _) ] ->
          { fi_generate = (gen = "generate"); fi_proto3 = (p3 = "proto3"); fi_prefix = bytes_of prefix; fi_import = bytes_of imp;
            fi_pkg = bytes_of pkg; fi_msgs = [] }
        | _ -> bad "file") l
  | _ -> bad "files"
let features_param params = List.fold_left (fun acc (k, v) -> if k = s_features then Some v else acc) None params

let defs : (string * g2decl) list ref = ref []
let program () : g2decl list = List.map snd (List.rev !defs)
let canon_decl key = List.find_opt (fun d -> decl_key d = key) canon_generator_go

let rec seq i n = if n = 0 then [] else i :: seq (i + 1) (n - 1)
let rec nat_of_int' n = if n = 0 then O else S (nat_of_int' (n - 1))

let genprog2_eval (fn : string) (args : string list) : string =
  match fn, args with
  | "GENPROG", [ "generator"; "imports" ] -> String.concat " " (List.map str_of canon_generator_go_imports)
  | "GENPROG", [ "generator"; "decls" ] -> String.concat " " (List.map decl_key canon_generator_go)
  | "GENPROG", [ "generator"; key ] -> (match canon_decl key with Some d -> decl_s d | None -> "-")
  | "GENPROG", [ "generator"; key; "eqb" ] ->
    (match List.assoc_opt key !defs, canon_decl key with
     | None, _ -> "no-translated-declaration"
     | _, None -> "no-canonical-declaration"
     | Some d, Some c -> if g2decl_eqb d c then "same" else "different")
  | "GENPROG2DEF", [ "generator"; key; text ] ->
    let d = decl_p text in
    defs := (key, d) :: List.remove_assoc key !defs;
    (match canon_decl key with
     | Some c -> Driver.law "genprog2.eqb_is_text_equality" (g2decl_eqb d c = (text = decl_s c))
     | None -> ());
    if decl_s d <> text then "reprinted:" ^ decl_s d else "ok"
  | "GENPROG2RUN", [ params; files ] ->
    let params = params_of params and files = files_of files in
    let names = gpp_feature_names (features_param params) in
    let todo = List.filter_map (fun (i, f) -> if f.fi_generate then Some (nat_of_int' i) else None) (List.mapi (fun i f -> (i, f)) files) in
    let fg = g2_default_feat_gen in
    (* Properties/C13.v generator_go_prog_stmt on this case: the canonical generator.go computes what GenOrder.v says *)
    let spec = g2_all_spec files find_features fg names todo in
    Driver.law "C13.generator_go_prog" (g2_run_all canon_generator_go files find_features fg names todo = spec);
    (match spec with
     | Some (Some (bs, tr)) ->
       (match find_features names with
        | Some fs ->
          Driver.law "C13.generator_go_emitted_iff" (bs = List.map (fun i -> (List.nth files (int_of_nat i)).fi_proto3 && generated fs) todo);
          Driver.law "C13.generator_go_sorted_order"
            (g2_generate_file_events tr
             = List.concat_map (fun i -> if (List.nth files (int_of_nat i)).fi_proto3 then List.map (fun n -> (n, i)) fs else []) todo)
        | None -> Driver.law "C13.generator_go_error" false)
     | Some None -> Driver.law "C13.generator_go_error" (find_features names = None)
     | None -> Driver.law "C13.generator_go_spec_defined" false);
    (match g2_run_all (program ()) files find_features fg names todo with
     | None -> "stuck"
     | Some None -> "error"
     | Some (Some (bs, _)) ->
       let emitted = List.filter_map (fun (i, b) -> if b then Some (string_of_bytes (List.nth files (int_of_nat i)).fi_prefix ^ ".pulsar.go") else None)
           (List.combine todo bs) in
       String.concat "," emitted)
  | "GENPROG", "generator" :: _ | "GENPROG2DEF", _ | "GENPROG2RUN", _ -> failwith "malformed GENPROG (generator.go) case"
  | _ -> raise Not_found

let () = Driver.register genprog2_eval
