(* Evaluator for the cases of engine "any" (property C16): runs the extracted Model/AnyUtil.v.
   The codec is abstract in the model; each case supplies what the codec did on a direct call, and the
   closures below hand exactly that to the model.  Descriptors are (full name, implementation held by the
   registry) pairs; a message value is an opaque token "impl name fingerprint". *)
open Model
open Util

let bl_of_string (s : string) : byte list = List.init (String.length s) (fun i -> byte_of_int (Char.code s.[i]))

type d = string * string

let gt : (str * d entry) list ref = ref []
let gf : (str * d entry) list ref = ref []

let parse_reg (impl : string) (s : string) : (str * d entry) list =
  if s = "-" then []
  else
    List.map
      (fun tok ->
        let i = String.rindex tok ':' in
        let n = String.sub tok 0 i in
        ( bl_of_string n,
          match tok.[i + 1] with
          | 'm' -> EMessage (n, impl)
          | 'e' -> EEnum
          | 's' -> EService
          | 'o' -> EOther
          | c -> failwith ("registry kind " ^ String.make 1 c) ))
      (String.split_on_char ' ' s)

let any_of_string (s : string) : any option =
  if s = "nil" then None
  else
    match String.split_on_char ':' s with
    | [ u; v ] -> Some { type_url = bytes_of_hex u; value = bytes_of_hex v }
    | _ -> failwith ("bad any " ^ s)

let string_of_any (a : any option) : string =
  match a with None -> "nil" | Some a -> hex_of_bytes a.type_url ^ ":" ^ hex_of_bytes a.value

let dname ((n, _) : d) : str = bl_of_string n

let files_reg (tok : string) : (str * d entry) list option =
  match tok with
  | "nil" -> None
  | "GF" | "copy" -> Some !gf
  | "empty" | "nilptr" -> Some []
  | _ -> failwith ("files resolver " ^ tok)

let types_reg (tok : string) : (str * d entry) list option =
  let pre p = String.length tok > String.length p && String.sub tok 0 (String.length p) = p in
  let rest p = String.sub tok (String.length p) (String.length tok - String.length p) in
  match tok with
  | "nil" -> None
  | "GT" -> Some !gt
  | "empty" | "nilptr" -> Some []
  | _ when pre "only-gen:" -> let n = rest "only-gen:" in Some [ (bl_of_string n, EMessage (n, "gen")) ]
  | _ when pre "only-dyn:" -> let n = rest "only-dyn:" in Some [ (bl_of_string n, EMessage (n, "dyn")) ]
  | _ -> failwith ("types resolver " ^ tok)

(* "name|gen=ok:h|dyn=err;name2|dyn=ok:h" *)
let parse_cands (s : string) : ((string * string) * string) list =
  if s = "-" then []
  else
    List.concat_map
      (fun part ->
        match String.split_on_char '|' part with
        | n :: outs ->
          List.map
            (fun o ->
              match String.index_opt o '=' with
              | Some i -> ((n, String.sub o 0 i), String.sub o (i + 1) (String.length o - i - 1))
              | None -> failwith ("bad candidate " ^ o))
            outs
        | [] -> [])
      (String.split_on_char ';' s)

let codec_outcome (s : string) (ok : string -> 'a) : 'a outcome =
  if s = "err" then Err
  else if s = "panic" then Panic
  else if String.length s >= 3 && String.sub s 0 3 = "ok:" then Ok (ok (String.sub s 3 (String.length s - 3)))
  else failwith ("bad codec outcome " ^ s)

let unmarshal_of cands (a : any option) (dyn : bool) ((n, impl) : d) (b : byte list) : string outcome =
  (match a with Some a when a.value = b -> () | _ -> failwith "the model decodes bytes that are not the Any's value");
  let which = if dyn then "dyn" else impl in
  match List.assoc_opt (n, which) cands with
  | None -> failwith ("no direct decode outcome supplied for " ^ n ^ "/" ^ which)
  | Some s -> codec_outcome s (fun h -> which ^ " " ^ n ^ " " ^ h)

let show_unpack (o : (bool * string) outcome) : string =
  match o with
  | Ok (dyn, tok) ->
    if dyn && not (String.length tok > 3 && String.sub tok 0 3 = "dyn") then failwith "files route without a dynamic message";
    "ok " ^ tok
  | Err -> "err" | Panic -> "panic" | OutOfFuel -> "outoffuel"

let show_res (o : unit outcome) : string = match o with Ok _ -> "ok" | Err -> "err" | Panic -> "panic" | OutOfFuel -> "outoffuel"

let is_message = function Some (EMessage _) -> true | _ -> false

let any_eval (fn : string) (args : string list) : string =
  match fn, args with
  | "ANY", [ "REG"; "GT"; s ] -> gt := parse_reg "gen" s; "ok"
  | "ANY", [ "REG"; "GF"; s ] -> gf := parse_reg "dyn" s; "ok"
  | "ANY", [ "UNPACK"; a; fr; tr; cands ] ->
    let a = any_of_string a and fr = files_reg fr and tr = types_reg tr and cands = parse_cands cands in
    let unm = unmarshal_of cands a in
    let r = unpack dname unm !gt !gf a fr tr in
    (* statements of Properties/C16.v evaluated on the case *)
    let codec_panics = List.exists (fun (_, s) -> s = "panic") cands in
    Driver.law "C16.unpack_total" (codec_panics || r <> Panic);
    let old = unpack_gen dname unm false !gt !gf a fr tr in
    let char_panic =
      match a with
      | None -> true
      | Some a' ->
        lookup (resolve tr !gt) (after_last_slash a'.type_url) = None
        && (match lookup (resolve fr !gf) (trim_prefix_slash a'.type_url) with Some (EMessage _) | None -> false | Some _ -> true)
    in
    Driver.law "C16.before_fix_panics" (codec_panics || (old = Panic) = char_panic);
    Driver.law "C16.fix_changes_only_panics" (old = Panic || old = r);
    show_unpack r
  | "ANY", [ "PACK"; dst; src; mo; _info ] ->
    let dst = any_of_string dst in
    let src = if src = "nil" then None else Some src in
    let marshal () (_ : string) : byte list outcome = codec_outcome mo bytes_of_hex in
    let res, dst' = marshal_from dname (fun m -> (m, "gen")) marshal dst src () in
    Driver.law "C16.pack_fail_untouched" (res = Ok () || dst' = dst);
    (match res, dst', src with
     | Ok (), Some a, Some m ->
       Driver.law "C16.pack_url" (a.type_url = bl_of_string ("/" ^ m));
       Driver.law "C16.pack_value" (Ok a.value = marshal () m)
     | _ -> ());
    show_res res ^ " " ^ string_of_any dst'
  | "ANY", [ "NEW"; src; mo; _info ] ->
    let src = if src = "nil" then None else Some src in
    let marshal () (_ : string) : byte list outcome = codec_outcome mo bytes_of_hex in
    (match new_any dname (fun m -> (m, "gen")) marshal () src with
     | Ok a -> "ok " ^ string_of_any (Some a)
     | Err -> "err" | Panic -> "panic" | OutOfFuel -> "outoffuel")
  | "ANY", _ -> failwith "malformed ANY case"
  | _ -> raise Not_found

let () = Driver.register any_eval
