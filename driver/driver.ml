(* Correspondence driver: evaluates the extracted Coq model on every case of a case file written
   by the Go runner and reports each line on which model and implementation differ.
   Line format:  FN \t arg... \t = \t observed      ('#'-lines are the runner's own records) *)
open Model
open Util

let split_tab s = String.split_on_char '\t' s

let rt_eval (fn : string) (args : string list) : string =
  match fn, args with
  | "SOV", [x] -> dec_of_n (sov (n_of_hex x))
  | "SOZ", [x] -> dec_of_n (soz (n_of_hex x))
  | "ENCV", [buf; off; v] -> (
    match encodeVarint (bytes_of_hex buf) (z_of_hex off) (n_of_hex v) with
    | Ok (b, base) -> "ok " ^ hex_of_bytes b ^ " " ^ hex_of_z base
    | Err -> "err" | Panic -> "panic" | OutOfFuel -> "outoffuel")
  | "SKIP", [b] -> (
    match skip (bytes_of_hex b) with
    | Ok n -> "ok " ^ hex_of_z n
    | Err -> "err" | Panic -> "panic" | OutOfFuel -> "outoffuel")
  | _ -> raise Not_found

let ts_out (o : ts outcome) : string =
  match o with
  | Ok r -> "ok " ^ hex_of_z r.secs ^ " " ^ hex_of_z r.nanos
  | Err -> "err" | Panic -> "panic" | OutOfFuel -> "outoffuel"

let time_eval (fn : string) (args : string list) : string =
  match fn, args with
  | "TADD", [s; n; ds; dn] ->
    ts_out (tsAdd { secs = z_of_hex s; nanos = z_of_hex n } { secs = z_of_hex ds; nanos = z_of_hex dn })
  | "TADDSTD", [s; n; d] -> ts_out (tsAddStd { secs = z_of_hex s; nanos = z_of_hex n } (z_of_hex d))
  | "TCMP", [s1; n1; s2; n2] ->
    hex_of_z (tsCompare { secs = z_of_hex s1; nanos = z_of_hex n1 } { secs = z_of_hex s2; nanos = z_of_hex n2 })
  | _ -> raise Not_found

let bytes_out (o : byte list outcome) : string =
  match o with
  | Ok b -> "ok " ^ hex_of_bytes b
  | Err -> "err" | Panic -> "panic" | OutOfFuel -> "outoffuel"

(* Statements of the theorems in Properties/C0x.v evaluated on the case (a test of the
   statements, not a proof: a failing law is reported as a mismatch of its own). *)
let laws_checked = ref 0
let dec_seen = ref 0
let unk_ok_seen = ref 0
let unk_bad_seen = ref 0
let law name b = incr laws_checked; if not b then failwith ("law " ^ name ^ " fails")
let out_map f = function Ok v -> Ok (f v) | Err -> Err | Panic -> Panic | OutOfFuel -> OutOfFuel
let enc_laws sch m v =
  if wt_msg sch m v then begin
    let e1 = emit sch true m v and e0 = emit sch false m v in
    law "C02.det_eq_ref" (ref_marshal sch m v = e1);
    law "C04.size_eq_len" (msg_size sch m v = n_of_int (List.length e1) && msg_size sch m v = n_of_int (List.length e0));
    law "C05.canon_emit" (emit sch true m (canon v) = e1);
    law "C04.size_prog_correct" (run_size sch m (canon_size sch m) v = Some (msg_size sch m v));   (* SizeProg.size_prog_correct_stmt; wf is checked at the SCHEMA line *)
    law "C02.marshal_prog_correct" (run_marshal sch true m (canon_marshal sch m) v = Some e1 && run_marshal sch false m (canon_marshal sch m) v = Some e0);   (* MarshalProg.marshal_prog_correct_stmt *)
    if unknowns_okb sch m v then incr unk_ok_seen else incr unk_bad_seen;
    (match pulsar_unmarshal sch false m VNil e0 with
     | Ok r -> law "C01.roundtrip_nondet" (r = norm sch m v); law "C06.accepted_wt" (wt_msg sch m r)
     | _ -> law "C01.roundtrip_nondet_ok" (not (unknowns_okb sch m v)));
    (match pulsar_unmarshal sch false m VNil e1 with
     | Ok r -> law "C01.roundtrip_det" (canon r = canon (norm sch m v))
     | _ -> law "C01.roundtrip_det_ok" false);
    law "C14.emit_unknown_last"
      (match v with VMsg (s, u) -> e1 = emit sch true m (VMsg (s, [])) @ u | _ -> true)
  end

(* Messages of a type protobuf-go itself decodes (m_impl = ProtobufGo: well-known types): its table decoder stores
   nil for an empty singular implicit-presence bytes payload where the generated code stores an empty slice; nil vs
   empty inside such a message is protobuf-go's representation, not this repository's, so both sides render it nil
   (the runner does the same in fromGo). *)
let rec foreign_norm sch (m : nat) (v : val0) : val0 =
  match v, get_msg sch m with
  | VMsg (slots, unk), Some md ->
    let rec go fs ss = match fs, ss with
      | f :: fs', s :: ss' ->
        let s' = match f.f_ty, f.f_shape, s with
          | TScalar KBytes, Singular, VBytes [] when md.m_impl = ProtobufGo -> VNil
          | TMsg c, Singular, _ -> foreign_norm sch c s
          | TMsg c, Member _, VSome p -> VSome (foreign_norm sch c p)
          | TMsg c, Rep _, VList l -> VList (List.map (foreign_norm sch c) l)
          | TMsg c, MapOf _, VMap kvs -> VMap (List.map (fun (k, x) -> (k, foreign_norm sch c x)) kvs)
          | _ -> s in
        s' :: go fs' ss'
      | _, ss -> ss in
    VMsg (go md.m_fields slots, unk)
  | _ -> v

(* the canonical unmarshal program of a message type, computed once per shard (a cache of a pure function) *)
let canon_unmarshal_tbl : (string * string, ustmt list) Hashtbl.t = Hashtbl.create 64
let canon_unmarshal_cached sid mid =
  match Hashtbl.find_opt canon_unmarshal_tbl (sid, mid) with
  | Some p -> p
  | None ->
    let p = canon_unmarshal (Ctx.schema sid) (nat_of_int (int_of_string mid)) in
    Hashtbl.replace canon_unmarshal_tbl (sid, mid) p;
    p

let codec_eval (fn : string) (args : string list) : string =
  match fn, args with
  | "ENC", [ sid; mid; v ] ->
    let sch = Ctx.schema sid and m = nat_of_int (int_of_string mid) and v = Sexp.val_of_string v in
    enc_laws sch m v;
    bytes_out (pulsar_marshal sch true m v) ^ " size=" ^ dec_of_n (msg_size sch m v)
  | "ENCN", [ sid; mid; v ] ->
    let sch = Ctx.schema sid and m = nat_of_int (int_of_string mid) and v = Sexp.val_of_string v in
    bytes_out (pulsar_marshal sch false m v)
  | "DEC", [ sid; mid; flags; b; init ] ->
    let sch = Ctx.schema sid and m = nat_of_int (int_of_string mid) in
    let discard = String.contains flags 'd' in
    let init = if init = "-" then VNil else Sexp.val_of_string init in
    let bs = bytes_of_hex b in
    let res = pulsar_unmarshal sch discard m init bs in
    incr dec_seen;
    (* UnmarshalProg.unmarshal_prog_correct_stmt on this case (f = length bs, depth = recursion_limit): the canonical program of the
       message type, children decoded by unmarshal_at one level down, computes what pulsar_unmarshal computes *)
    if init = VNil || wt_msg sch m init then
      law "C03.unmarshal_prog_correct" (run_unmarshal_top sch discard m (canon_unmarshal_cached sid mid) init bs = Some res);
    if init = VNil && !dec_seen mod 4 = 0 then
      law "C14.discard_strip" (pulsar_unmarshal sch true m VNil bs = out_map strip_unknown (pulsar_unmarshal sch false m VNil bs));
    (match res with Ok r when init = VNil || wt_msg sch m init -> law "C06.accepted_wt" (wt_msg sch m r) | _ -> ());
    (match res with
     | Ok v -> "ok " ^ Sexp.string_of_val (foreign_norm sch m v)
     | Err -> "err" | Panic -> "panic" | OutOfFuel -> "outoffuel")
  | "DECL", [ sid; mid; flags; limit; b ] ->
    (* decoding under an explicit RecursionLimit: the depth budget the top-level call starts with *)
    let sch = Ctx.schema sid and m = nat_of_int (int_of_string mid) in
    let discard = String.contains flags 'd' in
    let bs = bytes_of_hex b in
    let depth = z_of_hex (Printf.sprintf "%x" (int_of_string limit)) in
    let res = unmarshal_at sch discard (nat_of_int (List.length bs + 1)) depth m VNil bs in
    law "C03.unmarshal_prog_correct"
      (run_unmarshal sch discard (unmarshal_at sch discard (nat_of_int (List.length bs)) (Z.sub depth (Zpos XH))) depth m (canon_unmarshal_cached sid mid) VNil bs = Some res);
    (match res with
     | Ok v -> "ok " ^ Sexp.string_of_val (foreign_norm sch m v)
     | Err -> "err" | Panic -> "panic" | OutOfFuel -> "outoffuel")
  | _ -> raise Not_found

let evaluators : (string -> string list -> string) list ref = ref [ rt_eval; time_eval; codec_eval ]
(* further engines register their evaluator from their own file (listed in ORDER before main.ml) *)
let register (e : string -> string list -> string) = evaluators := !evaluators @ [ e ]

let eval fn args =
  let rec go = function
    | [] -> failwith ("no evaluator for " ^ fn)
    | e :: rest -> ( try e fn args with Not_found -> go rest)
  in
  go !evaluators

(* --shard i/n: evaluate only every n-th case (directives are always processed) *)
let shard = ref (0, 1)
let seen = ref 0

let run_file path =
  let ic = open_in path in
  let total = ref 0 and mism = ref 0 and lineno = ref 0 in
  (try
     while true do
       let line = input_line ic in
       incr lineno;
       if String.length line > 0 && line.[0] <> '#' then begin
         let toks = split_tab line in
         match toks with
         | fn :: rest ->
           let rec cut acc = function
             | "=" :: [ obs ] -> (List.rev acc, obs)
             | x :: tl -> cut (x :: acc) tl
             | [] -> failwith (Printf.sprintf "line %d: no '=' separator" !lineno)
           in
           let args, obs = cut [] rest in
           (* context lines (FN starting with '@') carry state for later lines: every shard evaluates them *)
           let is_ctx = String.length fn > 0 && fn.[0] = '@' in
           let fn = if is_ctx then String.sub fn 1 (String.length fn - 1) else fn in
           if Ctx.handle_directive fn args obs then ()
           else if (not is_ctx) && (incr seen; !seen mod snd !shard <> fst !shard) then ()
           else if is_ctx && fst !shard <> 0 then ignore (try eval fn args with _ -> "")
           else begin
             incr total;
             let m = try eval fn args with Failure e -> "driver-error:" ^ e | Stack_overflow -> "driver-error:stack" in
             if m <> obs then begin
               incr mism;
               if !mism <= 200 then
                 Printf.printf "MISMATCH\tline=%d\t%s\t%s\tmodel=%s\timpl=%s\n" !lineno fn (String.concat " " args) m obs
             end
           end
         | [] -> ()
       end
     done
   with End_of_file -> ());
  close_in ic;
  Printf.printf "DRIVER\tcases=%d\tmismatches=%d\tlaws=%d\tunk_ok=%d\tunk_bad=%d\n" !total !mism !laws_checked !unk_ok_seen !unk_bad_seen

