(* Evaluator of the "reflectmiscprog" engine (translator tie for the remaining methods of fastReflection_T, Model/ReflectMiscProg.v).
     REFLECTMISCPROG sid idx meth             = printed method            model: print (the canonical method of message idx)
     REFLECTMISCPROG sid idx slowProtoReflect k = (slow k')               model: print (canon_mzslow k)   (k: position of the message in its file)
     @REFLECTMISCDEF sid idx text             = ok                        context line: parse and remember the TRANSLATED methods; ok iff printing gives the text back
     REFLECTMISCPROG sid idx all eqb          = same                      model: mzprogs_eqb <remembered> (canon_mzprogs sch idx)
     REFLECTMISCPROG sid idx ProtoMethods law = true                      model: mz_methods_law <remembered ProtoMethods> idx
     REFLECTMISCRUN  sid idx VAL ops          = out|root;…                model: the history (grammar and rendering of HISTV lines, driver/reflect_eval.ml) with
                                                                          ProtoReflect / GetUnknown / SetUnknown / IsValid (ops new nil getunk setunk valid) and
                                                                          xnew r = r.New(), tnew r = r.Type().New(), tzero r = r.Type().Zero(), iface r =
                                                                          r.Interface().ProtoReflect(), desc r, tdesc r = r.Type().Descriptor(), methods r
                                                                          INTERPRETED from the remembered (translated) methods of the receiver's type
   Text form (the Go printer in harness/cmd/runner/reflectmiscprog.go writes the same); m, k are decimal indexes:
     expr    (castfast m) (castmsg m) (nilfast m) (newfast m) (md m) (type m) nenil unknown nil
     stmt    (ret expr) (ifnil expr) ifnilvoid storeunknown
     method  (body stmt...)
     ProtoMethods  (methods (locals c...) (flags f...) e e e e e)     c size|marshal|unmarshal   f det|discard   e nil|size|marshal|unmarshal
                   (entries in the order Size Marshal Unmarshal Merge CheckInitialized)
     all     (progs ProtoReflect Descriptor Type New Interface GetUnknown SetUnknown IsValid ProtoMethods Type.Zero Type.New Type.Descriptor) *)
open Model
open Util
open Sexp

let table : (string * string, mzprogs) Hashtbl.t = Hashtbl.create 512

let ns n = string_of_int (int_of_nat n)

(* ---- printer ---- *)
let expr_s = function
  | MZCastFast m -> "(castfast " ^ ns m ^ ")" | MZCastMsg m -> "(castmsg " ^ ns m ^ ")" | MZNilFast m -> "(nilfast " ^ ns m ^ ")"
  | MZNewFast m -> "(newfast " ^ ns m ^ ")" | MZMdVar m -> "(md " ^ ns m ^ ")" | MZTypeVar m -> "(type " ^ ns m ^ ")"
  | MZNeNil -> "nenil" | MZUnknown -> "unknown" | MZNil -> "nil"
let stmt_s = function
  | MZReturn e -> "(ret " ^ expr_s e ^ ")" | MZIfNilReturn e -> "(ifnil " ^ expr_s e ^ ")"
  | MZIfNilReturnVoid -> "ifnilvoid" | MZStoreUnknown -> "storeunknown"
let body_s (l : mzstmt list) = "(body" ^ String.concat "" (List.map (fun s -> " " ^ stmt_s s) l) ^ ")"
let clos_s = function MZSize -> "size" | MZMarshal -> "marshal" | MZUnmarshal -> "unmarshal"
let entry_s = function MZENil -> "nil" | MZEClos c -> clos_s c
let flag_s = function MZFDeterministic -> "det" | MZFDiscardUnknown -> "discard"
let methods_s (m : mzmethods) =
  let l = m.zm_lit in
  "(methods (locals" ^ String.concat "" (List.map (fun c -> " " ^ clos_s c) m.zm_locals) ^ ") (flags"
  ^ String.concat "" (List.map (fun f -> " " ^ flag_s f) l.zl_flags) ^ ") "
  ^ String.concat " " (List.map entry_s [ l.zl_size; l.zl_marshal; l.zl_unmarshal; l.zl_merge; l.zl_checkinit ]) ^ ")"
let slow_s (k : mzslow) = "(slow " ^ ns k ^ ")"   (* (a singleton inductive: extracted as its argument) *)

let names =
  [ "ProtoReflect"; "Descriptor"; "Type"; "New"; "Interface"; "GetUnknown"; "SetUnknown"; "IsValid"; "ProtoMethods"; "Type.Zero"; "Type.New"; "Type.Descriptor" ]
let method_s (ps : mzprogs) (name : string) : string =
  match name with
  | "ProtoReflect" -> body_s ps.z_protoreflect | "Descriptor" -> body_s ps.z_descriptor | "Type" -> body_s ps.z_type
  | "New" -> body_s ps.z_new | "Interface" -> body_s ps.z_interface | "GetUnknown" -> body_s ps.z_getunknown
  | "SetUnknown" -> body_s ps.z_setunknown | "IsValid" -> body_s ps.z_isvalid | "ProtoMethods" -> methods_s ps.z_methods
  | "Type.Zero" -> body_s ps.z_tzero | "Type.New" -> body_s ps.z_tnew | "Type.Descriptor" -> body_s ps.z_tdescriptor
  | _ -> failwith ("reflectmiscprog: method name " ^ name)
let progs_s (ps : mzprogs) = "(progs " ^ String.concat " " (List.map (method_s ps) names) ^ ")"

(* ---- parser ---- *)
let bad what = failwith ("reflectmiscprog: cannot parse " ^ what)
let is_num s = s <> "" && String.for_all (fun c -> c >= '0' && c <= '9') s
let nat_p = function A s when is_num s -> nat_of_int (int_of_string s) | _ -> bad "index"
let expr_p = function
  | L [ A "castfast"; m ] -> MZCastFast (nat_p m) | L [ A "castmsg"; m ] -> MZCastMsg (nat_p m) | L [ A "nilfast"; m ] -> MZNilFast (nat_p m)
  | L [ A "newfast"; m ] -> MZNewFast (nat_p m) | L [ A "md"; m ] -> MZMdVar (nat_p m) | L [ A "type"; m ] -> MZTypeVar (nat_p m)
  | A "nenil" -> MZNeNil | A "unknown" -> MZUnknown | A "nil" -> MZNil | _ -> bad "expression"
let stmt_p = function
  | L [ A "ret"; e ] -> MZReturn (expr_p e) | L [ A "ifnil"; e ] -> MZIfNilReturn (expr_p e)
  | A "ifnilvoid" -> MZIfNilReturnVoid | A "storeunknown" -> MZStoreUnknown | _ -> bad "statement"
let body_p = function L (A "body" :: l) -> List.map stmt_p l | _ -> bad "body"
let clos_p = function A "size" -> MZSize | A "marshal" -> MZMarshal | A "unmarshal" -> MZUnmarshal | _ -> bad "closure"
let entry_p = function A "nil" -> MZENil | c -> MZEClos (clos_p c)
let flag_p = function A "det" -> MZFDeterministic | A "discard" -> MZFDiscardUnknown | _ -> bad "flag"
let methods_p = function
  | L [ A "methods"; L (A "locals" :: cs); L (A "flags" :: fs); a; b; c; d; e ] ->
    { zm_locals = List.map clos_p cs;
      zm_lit = { zl_flags = List.map flag_p fs; zl_size = entry_p a; zl_marshal = entry_p b; zl_unmarshal = entry_p c; zl_merge = entry_p d; zl_checkinit = entry_p e } }
  | _ -> bad "ProtoMethods"
let progs_p (text : string) : mzprogs =
  match parse text with
  | [ L [ A "progs"; a; b; c; d; e; f; g; h; i; j; k; l ] ] ->
    { z_protoreflect = body_p a; z_descriptor = body_p b; z_type = body_p c; z_new = body_p d; z_interface = body_p e; z_getunknown = body_p f;
      z_setunknown = body_p g; z_isvalid = body_p h; z_methods = methods_p i; z_tzero = body_p j; z_tnew = body_p k; z_tdescriptor = body_p l }
  | _ -> bad "progs"

(* ---- differential run ---- *)
exception Stuck

let run_translated sid sch (h0 : heap) (root : nat option) (r0 : pval) (ops : string) : string =
  let lookup (mid : nat) = Hashtbl.find_opt table (sid, ns mid) in
  let opl = String.split_on_char ';' ops in
  let outs = Array.make (List.length opl + 2) PPanic in
  outs.(0) <- r0;
  let n = ref 1 in
  let h = ref h0 in
  let buf = Buffer.create 1024 in
  let unopt = function Some x -> x | None -> raise Stuck in
  let recv tok =
    let k = int_of_string (String.sub tok 1 (String.length tok - 1)) in
    if k >= !n then failwith ("forward reference " ^ tok);
    outs.(k) in
  let progs_of_recv r = match r with PMsg (mid, _) -> (match lookup mid with Some ps -> ps | None -> raise Stuck) | _ -> raise Stuck in
  List.iteri
    (fun i s ->
      (* the result as (new heap, value for later operands, printed form) *)
      let h', v, txt =
        match Reflect_eval.words s with
        | [ "xnew"; r ] -> let r = recv r in let h', v = unopt (run_mz_new sch (progs_of_recv r) !h r) in (h', v, None)
        | [ "tnew"; r ] -> let r = recv r in let h', v = unopt (run_mz_type_new sch lookup (progs_of_recv r) !h r) in (h', v, None)
        | [ "tzero"; r ] -> let r = recv r in let h', v = unopt (run_mz_type_zero sch lookup (progs_of_recv r) !h r) in (h', v, None)
        | [ "iface"; r ] -> let r = recv r in let h', v = unopt (run_mz_interface_reflect sch lookup (progs_of_recv r) !h r) in (h', v, None)
        | [ ("desc" | "tdesc") as w; r ] ->
          let r = recv r in
          let ps = progs_of_recv r in
          let res =
            match w, r with
            | "desc", PMsg (mid, p) -> run_mz_descriptor sch ps !h mid p
            | _ -> run_mz_type_descriptor sch lookup ps !h r in
          (match unopt res with
           | h', MZVDesc m -> (h', PPanic, Some ("D" ^ ns m))
           | h', MZVal PPanic -> (h', PPanic, Some "panic")
           | _ -> raise Stuck)
        | [ "methods"; r ] ->
          let r = recv r in
          let ps = progs_of_recv r in
          let x = match r with PMsg (mid, p) -> MZRFast (mid, p) | _ -> raise Stuck in
          let l = unopt (run_mz_methods ps.z_methods x) in
          let bit e = match e with MZENil -> "0" | MZEClos _ -> "1" in
          (!h, PPanic, Some ("Z" ^ string_of_int (int_of_n (mzflags_value l.zl_flags)) ^ ":" ^ String.concat "" (List.map bit [ l.zl_size; l.zl_marshal; l.zl_unmarshal; l.zl_merge; l.zl_checkinit ])))
        | _ ->
          let o = Reflect_eval.parse_op outs !n s in
          (* the statement of Properties/C09.v reflect_misc_prog_correct on this step (canonical methods) *)
          Driver.law "C09.reflect_misc_prog_correct" (reflect_misc_prog_law sch !h o);
          let h', v = unopt (rmz_step sch lookup !h o) in
          (h', v, None)
      in
      h := h';
      outs.(!n) <- v;
      incr n;
      if i > 0 then Buffer.add_char buf ';';
      Buffer.add_string buf (match txt with Some t -> t | None -> Reflect_eval.pval_tok sch h' false v);
      Buffer.add_char buf '|';
      Buffer.add_string buf (Reflect_eval.msg_val sch h' root))
    opl;
  Buffer.contents buf

let reflectmiscprog_eval (fn : string) (args : string list) : string =
  match fn, args with
  | "REFLECTMISCPROG", [ sid; mid; "all"; "eqb" ] ->
    let canon = canon_mzprogs (Ctx.schema sid) (nat_of_int (int_of_string mid)) in
    (match Hashtbl.find_opt table (sid, mid) with
     | None -> "not-all-translated"
     | Some ps ->
       let same = mzprogs_eqb ps canon in
       Driver.law "reflectmiscprog.mzprogs_eqb_is_text_equality" (same = (progs_s ps = progs_s canon));
       if same then "same" else "different")
  | "REFLECTMISCPROG", [ sid; mid; "ProtoMethods"; "law" ] ->
    (match Hashtbl.find_opt table (sid, mid) with
     | None -> "not-all-translated"
     | Some ps -> if mz_methods_law ps.z_methods (nat_of_int (int_of_string mid)) then "true" else "false")
  | "REFLECTMISCPROG", [ _sid; _mid; "slowProtoReflect"; k ] -> slow_s (canon_mzslow (nat_of_int (int_of_string k)))
  | "REFLECTMISCPROG", [ sid; mid; name ] -> method_s (canon_mzprogs (Ctx.schema sid) (nat_of_int (int_of_string mid))) name
  | "REFLECTMISCDEF", [ sid; mid; text ] ->
    let ps = progs_p text in
    Hashtbl.replace table (sid, mid) ps;
    if progs_s ps <> text then "reprinted:" ^ progs_s ps else "ok"
  | "REFLECTMISCRUN", [ sid; mid; v; ops ] ->
    let sch = Ctx.schema sid and m = nat_of_int (int_of_string mid) in
    let h, p = load sch (nat_of_int 64) [] m (Sexp.val_of_string v) in
    (try run_translated sid sch h p (PMsg (m, p)) ops with Stuck -> "stuck")
  | _ -> raise Not_found

let () = Driver.register reflectmiscprog_eval
