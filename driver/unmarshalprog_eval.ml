(* Evaluator of the "unmarshalprog" engine (translator tie for the generated Unmarshal closures, Model/UnmarshalProg.v).
     UNMARSHALPROG  sid idx len       = number of top-level statements   model: length (canon_unmarshal sch idx)
     UNMARSHALPROG  sid idx t<k>      = k-th top-level statement          model: the k-th statement of canon_unmarshal; the outer loop `for iNdEx < l {…}`
                                                                                 is printed as (for <cond> #<number of statements of its body>)
     UNMARSHALPROG  sid idx n         = number of statements of the outer loop's body
     UNMARSHALPROG  sid idx l<k>      = k-th statement of the outer loop's body; `switch fieldNum {…}` is printed as (switch fieldNum #<number of cases>)
     UNMARSHALPROG  sid idx cases     = the case numbers, in order
     UNMARSHALPROG  sid idx c<N>      = the statements of `case N:`
     UNMARSHALPROG  sid idx default   = the statements of `default:`
       ("-" where the canonical program has no such part: no outer loop, no switch, no such case)
     @UNMARSHALDEF  sid idx program   = ok              context line: parse and remember the TRANSLATED program of (sid, idx); ok iff printing the
                                                         parsed program gives the text back (printer/parser agree)
     UNMARSHALPROG  sid idx eqb       = same            model: uprog_eqb <translated program of (sid, idx)> (canon_unmarshal sch idx)
     UNMARSHALRUN   sid idx flags limit hex init = ok VAL | err | panic
                                                         model: run_unmarshal on the TRANSLATED program of (sid, idx): flags "d" = DiscardUnknown;
                                                         limit "-" = the default recursion limit (run_unmarshal_top), else input.Depth of the top-level call;
                                                         init "-" = a fresh message, else the message merged into ("stuck" when the interpreter answers None)
   Text form of programs (the Go printer in harness/cmd/runner/unmarshalprog.go writes the same):
     program  (prog stmt...)
     stmt     nilcheck | begin | (var x T) | (:= x e) | (= x e) | (++ x) | (idx= e) | (idx+= e) | (varint tg T) | (ret err) | (if c stmt...)
              | (ifelse c (then stmt...) (else stmt...)) | (for c stmt...) | (switch x (case N stmt...)... (default stmt...)) | (rangecount x e e)
              | (fset f<i> e) | (fappend f<i> e) | (oset f<j> e) | (oreuse f<j> x) | (unmarshal e e mt) | (bytesset f<i> e e) | (copy mt e e)
              | (mapstore f<i> x x) | (skip e) | (unkappend e e)
     e        <decimal> | x | iNdEx | l | (+ e e) | (- e e) | (/ e n) | (>> e n) | (& e n) | (conv T e) | (ne0 e) | (len f<i>) | (unzig32 x) | (unzig64 x)
              | (f64bits e) | (f32bits e) | (slice e e) | (le32 e) | (le64 e) | (newmsg m) | (makebytes e) | (makelist e) | makemap | emptybytes
     c        (< e e) | (<= e e) | (> e e) | (>= e e) | (== e e) | (!= e e) | (or c c) | (and c c) | (nil f<i>) | notdiscard | depth<=0
     tg       x | f<i>          mt   f<i> | (last f<i>) | x
     err      nil | recursion | eof | invalidlength | endgroup | illegaltag | (wrongwire i)
     T        u64 | u32 | i64 | i32 | int | enum | bool | f64 | f32 | string | bytes
     x        the Go name of the local: wire fieldNum wireType preIndex v v2 b msglen stringLen intStringLen postIndex byteLen packedLen elementCount
              count entryPreIndex mapmsglen postmsgIndex mapbyteLen intMapbyteLen postbytesIndex skippy mapkey mapvalue mapkeytemp mapvaluetemp
              stringLenmapkey stringLenmapvalue intStringLenmapkey intStringLenmapvalue postStringIndexmapkey postStringIndexmapvalue *)
open Model
open Util
open Sexp

let progs : (string * string, ustmt list) Hashtbl.t = Hashtbl.create 64

(* ---- printer ---- *)
let istr i = string_of_int (int_of_nat i)
let zstr (x : z) : string = match x with Z0 -> "0" | Zpos p -> dec_of_n (Npos p) | Zneg p -> "-" ^ dec_of_n (Npos p)
let gty_s = function
  | GU64 -> "u64" | GU32 -> "u32" | GI64 -> "i64" | GI32 -> "i32" | GInt -> "int" | GEnum -> "enum" | GBool -> "bool"
  | GF64 -> "f64" | GF32 -> "f32" | GString -> "string" | GBytes -> "bytes"
let kv b = if b then "mapkey" else "mapvalue"
let uvar_s = function
  | UvWire -> "wire" | UvFieldNum -> "fieldNum" | UvWireType -> "wireType" | UvPreIndex -> "preIndex" | UvV -> "v" | UvV2 -> "v2" | UvB -> "b"
  | UvMsglen -> "msglen" | UvStringLen -> "stringLen" | UvIntStringLen -> "intStringLen" | UvPostIndex -> "postIndex" | UvByteLen -> "byteLen"
  | UvPackedLen -> "packedLen" | UvElementCount -> "elementCount" | UvCount -> "count" | UvEntryPreIndex -> "entryPreIndex"
  | UvMapmsglen -> "mapmsglen" | UvPostmsgIndex -> "postmsgIndex" | UvMapbyteLen -> "mapbyteLen" | UvIntMapbyteLen -> "intMapbyteLen"
  | UvPostbytesIndex -> "postbytesIndex" | UvSkippy -> "skippy"
  | UvMap k -> kv k | UvMapTemp k -> kv k ^ "temp" | UvStringLenMap k -> "stringLen" ^ kv k | UvIntStringLenMap k -> "intStringLen" ^ kv k
  | UvPostStringIndexMap k -> "postStringIndex" ^ kv k
let all_uvars =
  [ UvWire; UvFieldNum; UvWireType; UvPreIndex; UvV; UvV2; UvB; UvMsglen; UvStringLen; UvIntStringLen; UvPostIndex; UvByteLen; UvPackedLen;
    UvElementCount; UvCount; UvEntryPreIndex; UvMapmsglen; UvPostmsgIndex; UvMapbyteLen; UvIntMapbyteLen; UvPostbytesIndex; UvSkippy ]
  @ List.concat_map (fun k -> [ UvMap k; UvMapTemp k; UvStringLenMap k; UvIntStringLenMap k; UvPostStringIndexMap k ]) [ true; false ]
let cmpop_s = function OLt -> "<" | OLe -> "<=" | OGt -> ">" | OGe -> ">=" | OEq -> "==" | ONe -> "!="
let rec uexpr_s = function
  | ENum z -> zstr z
  | EVar x -> uvar_s x
  | EIdx -> "iNdEx"
  | EL -> "l"
  | EAdd (a, b) -> "(+ " ^ uexpr_s a ^ " " ^ uexpr_s b ^ ")"
  | ESub (a, b) -> "(- " ^ uexpr_s a ^ " " ^ uexpr_s b ^ ")"
  | EDiv (a, n) -> "(/ " ^ uexpr_s a ^ " " ^ zstr n ^ ")"
  | EShr (a, n) -> "(>> " ^ uexpr_s a ^ " " ^ dec_of_n n ^ ")"
  | EAnd (a, n) -> "(& " ^ uexpr_s a ^ " " ^ zstr n ^ ")"
  | EConv (t, a) -> "(conv " ^ gty_s t ^ " " ^ uexpr_s a ^ ")"
  | ENe0 a -> "(ne0 " ^ uexpr_s a ^ ")"
  | ELenF i -> "(len f" ^ istr i ^ ")"
  | EUnzig32 x -> "(unzig32 " ^ uvar_s x ^ ")"
  | EUnzig64 x -> "(unzig64 " ^ uvar_s x ^ ")"
  | EF64bits a -> "(f64bits " ^ uexpr_s a ^ ")"
  | EF32bits a -> "(f32bits " ^ uexpr_s a ^ ")"
  | ESlice (a, b) -> "(slice " ^ uexpr_s a ^ " " ^ uexpr_s b ^ ")"
  | ELE32 a -> "(le32 " ^ uexpr_s a ^ ")"
  | ELE64 a -> "(le64 " ^ uexpr_s a ^ ")"
  | ENewMsg m -> "(newmsg " ^ istr m ^ ")"
  | EMakeBytes a -> "(makebytes " ^ uexpr_s a ^ ")"
  | EMakeList a -> "(makelist " ^ uexpr_s a ^ ")"
  | EMakeMap -> "makemap"
  | EEmptyBytes -> "emptybytes"
let rec ucond_s = function
  | CCmp (o, a, b) -> "(" ^ cmpop_s o ^ " " ^ uexpr_s a ^ " " ^ uexpr_s b ^ ")"
  | COr (c, d) -> "(or " ^ ucond_s c ^ " " ^ ucond_s d ^ ")"
  | CAnd (c, d) -> "(and " ^ ucond_s c ^ " " ^ ucond_s d ^ ")"
  | CFieldNil i -> "(nil f" ^ istr i ^ ")"
  | CNotDiscard -> "notdiscard"
  | CDepthLe0 -> "depth<=0"
let utarget_s = function TgVar x -> uvar_s x | TgField i -> "f" ^ istr i
let mtarget_s = function MtField i -> "f" ^ istr i | MtLast i -> "(last f" ^ istr i ^ ")" | MtVar x -> uvar_s x
let uerr_s = function
  | ErNil -> "nil" | ErRecursionDepth -> "recursion" | ErEOF -> "eof" | ErInvalidLength -> "invalidlength" | ErEndGroup -> "endgroup"
  | ErIllegalTag -> "illegaltag" | ErWrongWire i -> "(wrongwire " ^ istr i ^ ")"
let rec ustmt_s = function
  | UsNilCheck -> "nilcheck"
  | UsBegin -> "begin"
  | UsVar (x, t) -> "(var " ^ uvar_s x ^ " " ^ gty_s t ^ ")"
  | UsDecl (x, e) -> "(:= " ^ uvar_s x ^ " " ^ uexpr_s e ^ ")"
  | UsSet (x, e) -> "(= " ^ uvar_s x ^ " " ^ uexpr_s e ^ ")"
  | UsInc x -> "(++ " ^ uvar_s x ^ ")"
  | UsIdxSet e -> "(idx= " ^ uexpr_s e ^ ")"
  | UsIdxAdd e -> "(idx+= " ^ uexpr_s e ^ ")"
  | UsVarint (tg, t) -> "(varint " ^ utarget_s tg ^ " " ^ gty_s t ^ ")"
  | UsRet e -> "(ret " ^ uerr_s e ^ ")"
  | UsIf (c, b) -> "(if " ^ ucond_s c ^ ubody_s b ^ ")"
  | UsIfElse (c, a, b) -> "(ifelse " ^ ucond_s c ^ " (then" ^ ubody_s a ^ ") (else" ^ ubody_s b ^ "))"
  | UsFor (c, b) -> "(for " ^ ucond_s c ^ ubody_s b ^ ")"
  | UsSwitch (x, cs, d) ->
    "(switch " ^ uvar_s x ^ String.concat "" (List.map (fun (k, b) -> " (case " ^ zstr k ^ ubody_s b ^ ")") cs) ^ " (default" ^ ubody_s d ^ "))"
  | UsRangeCount (x, a, b) -> "(rangecount " ^ uvar_s x ^ " " ^ uexpr_s a ^ " " ^ uexpr_s b ^ ")"
  | UsFieldSet (i, e) -> "(fset f" ^ istr i ^ " " ^ uexpr_s e ^ ")"
  | UsFieldAppend (i, e) -> "(fappend f" ^ istr i ^ " " ^ uexpr_s e ^ ")"
  | UsOneofSet (j, e) -> "(oset f" ^ istr j ^ " " ^ uexpr_s e ^ ")"
  | UsOneofReuse (j, x) -> "(oreuse f" ^ istr j ^ " " ^ uvar_s x ^ ")"
  | UsUnmarshal (a, b, t) -> "(unmarshal " ^ uexpr_s a ^ " " ^ uexpr_s b ^ " " ^ mtarget_s t ^ ")"
  | UsBytesSet (i, a, b) -> "(bytesset f" ^ istr i ^ " " ^ uexpr_s a ^ " " ^ uexpr_s b ^ ")"
  | UsCopy (t, a, b) -> "(copy " ^ mtarget_s t ^ " " ^ uexpr_s a ^ " " ^ uexpr_s b ^ ")"
  | UsMapStore (i, k, v) -> "(mapstore f" ^ istr i ^ " " ^ uvar_s k ^ " " ^ uvar_s v ^ ")"
  | UsSkip e -> "(skip " ^ uexpr_s e ^ ")"
  | UsUnkAppend (a, b) -> "(unkappend " ^ uexpr_s a ^ " " ^ uexpr_s b ^ ")"
and ubody_s b = String.concat "" (List.map (fun s -> " " ^ ustmt_s s) b)
let uprog_s p = "(prog" ^ ubody_s p ^ ")"
(* a block as a line of its own: its statements separated by blanks *)
let block_s b = String.concat " " (List.map ustmt_s b)

(* ---- parser ---- *)
let bad what = failwith ("unmarshalprog: cannot parse " ^ what)
let is_num s = s <> "" && String.for_all (fun c -> c >= '0' && c <= '9') s
let nat_s s = if is_num s then nat_of_int (int_of_string s) else bad ("index " ^ s)
let n_s s = if is_num s then n_of_int (int_of_string s) else bad ("number " ^ s)
let z_s s =
  if is_num s then z_of_int (int_of_string s)
  else if String.length s > 1 && s.[0] = '-' && is_num (String.sub s 1 (String.length s - 1)) then z_of_int (int_of_string s)
  else bad ("integer " ^ s)
let gty_p = function
  | "u64" -> GU64 | "u32" -> GU32 | "i64" -> GI64 | "i32" -> GI32 | "int" -> GInt | "enum" -> GEnum | "bool" -> GBool
  | "f64" -> GF64 | "f32" -> GF32 | "string" -> GString | "bytes" -> GBytes | s -> bad ("type " ^ s)
let uvar_tbl : (string, uvar) Hashtbl.t = Hashtbl.create 64
let () = List.iter (fun x -> Hashtbl.replace uvar_tbl (uvar_s x) x) all_uvars
let is_uvar s = Hashtbl.mem uvar_tbl s
let uvar_p s = match Hashtbl.find_opt uvar_tbl s with Some x -> x | None -> bad ("variable " ^ s)
let field_p = function
  | A s when String.length s > 1 && s.[0] = 'f' && is_num (String.sub s 1 (String.length s - 1)) -> nat_s (String.sub s 1 (String.length s - 1))
  | _ -> bad "field reference"
let is_field = function A s -> String.length s > 1 && s.[0] = 'f' && is_num (String.sub s 1 (String.length s - 1)) | L _ -> false
let cmpop_p = function "<" -> Some OLt | "<=" -> Some OLe | ">" -> Some OGt | ">=" -> Some OGe | "==" -> Some OEq | "!=" -> Some ONe | _ -> None
let rec uexpr_p = function
  | A "iNdEx" -> EIdx
  | A "l" -> EL
  | A "makemap" -> EMakeMap
  | A "emptybytes" -> EEmptyBytes
  | A s when is_num s || (String.length s > 1 && s.[0] = '-') -> ENum (z_s s)
  | A s -> EVar (uvar_p s)
  | L [ A "+"; a; b ] -> EAdd (uexpr_p a, uexpr_p b)
  | L [ A "-"; a; b ] -> ESub (uexpr_p a, uexpr_p b)
  | L [ A "/"; a; A n ] -> EDiv (uexpr_p a, z_s n)
  | L [ A ">>"; a; A n ] -> EShr (uexpr_p a, n_s n)
  | L [ A "&"; a; A n ] -> EAnd (uexpr_p a, z_s n)
  | L [ A "conv"; A t; a ] -> EConv (gty_p t, uexpr_p a)
  | L [ A "ne0"; a ] -> ENe0 (uexpr_p a)
  | L [ A "len"; f ] -> ELenF (field_p f)
  | L [ A "unzig32"; A x ] -> EUnzig32 (uvar_p x)
  | L [ A "unzig64"; A x ] -> EUnzig64 (uvar_p x)
  | L [ A "f64bits"; a ] -> EF64bits (uexpr_p a)
  | L [ A "f32bits"; a ] -> EF32bits (uexpr_p a)
  | L [ A "slice"; a; b ] -> ESlice (uexpr_p a, uexpr_p b)
  | L [ A "le32"; a ] -> ELE32 (uexpr_p a)
  | L [ A "le64"; a ] -> ELE64 (uexpr_p a)
  | L [ A "newmsg"; A m ] -> ENewMsg (nat_s m)
  | L [ A "makebytes"; a ] -> EMakeBytes (uexpr_p a)
  | L [ A "makelist"; a ] -> EMakeList (uexpr_p a)
  | _ -> bad "expression"
let rec ucond_p = function
  | A "notdiscard" -> CNotDiscard
  | A "depth<=0" -> CDepthLe0
  | L [ A "or"; c; d ] -> COr (ucond_p c, ucond_p d)
  | L [ A "and"; c; d ] -> CAnd (ucond_p c, ucond_p d)
  | L [ A "nil"; f ] -> CFieldNil (field_p f)
  | L [ A o; a; b ] -> (match cmpop_p o with Some o -> CCmp (o, uexpr_p a, uexpr_p b) | None -> bad "condition")
  | _ -> bad "condition"
let utarget_p = function x when is_field x -> TgField (field_p x) | A s -> TgVar (uvar_p s) | L _ -> bad "target"
let mtarget_p = function
  | L [ A "last"; f ] -> MtLast (field_p f)
  | x when is_field x -> MtField (field_p x)
  | A s -> MtVar (uvar_p s)
  | L _ -> bad "message target"
let uerr_p = function
  | A "nil" -> ErNil | A "recursion" -> ErRecursionDepth | A "eof" -> ErEOF | A "invalidlength" -> ErInvalidLength
  | A "endgroup" -> ErEndGroup | A "illegaltag" -> ErIllegalTag | L [ A "wrongwire"; A i ] -> ErWrongWire (nat_s i) | _ -> bad "error"
let rec ustmt_p = function
  | A "nilcheck" -> UsNilCheck
  | A "begin" -> UsBegin
  | L [ A "var"; A x; A t ] -> UsVar (uvar_p x, gty_p t)
  | L [ A ":="; A x; e ] -> UsDecl (uvar_p x, uexpr_p e)
  | L [ A "="; A x; e ] -> UsSet (uvar_p x, uexpr_p e)
  | L [ A "++"; A x ] -> UsInc (uvar_p x)
  | L [ A "idx="; e ] -> UsIdxSet (uexpr_p e)
  | L [ A "idx+="; e ] -> UsIdxAdd (uexpr_p e)
  | L [ A "varint"; tg; A t ] -> UsVarint (utarget_p tg, gty_p t)
  | L [ A "ret"; e ] -> UsRet (uerr_p e)
  | L (A "if" :: c :: b) -> UsIf (ucond_p c, List.map ustmt_p b)
  | L [ A "ifelse"; c; L (A "then" :: a); L (A "else" :: b) ] -> UsIfElse (ucond_p c, List.map ustmt_p a, List.map ustmt_p b)
  | L (A "for" :: c :: b) -> UsFor (ucond_p c, List.map ustmt_p b)
  | L (A "switch" :: A x :: cs) ->
    let rec go acc = function
      | [ L (A "default" :: d) ] -> UsSwitch (uvar_p x, List.rev acc, List.map ustmt_p d)
      | L (A "case" :: A k :: b) :: tl -> go ((z_s k, List.map ustmt_p b) :: acc) tl
      | _ -> bad "switch"
    in
    go [] cs
  | L [ A "rangecount"; A x; a; b ] -> UsRangeCount (uvar_p x, uexpr_p a, uexpr_p b)
  | L [ A "fset"; f; e ] -> UsFieldSet (field_p f, uexpr_p e)
  | L [ A "fappend"; f; e ] -> UsFieldAppend (field_p f, uexpr_p e)
  | L [ A "oset"; f; e ] -> UsOneofSet (field_p f, uexpr_p e)
  | L [ A "oreuse"; f; A x ] -> UsOneofReuse (field_p f, uvar_p x)
  | L [ A "unmarshal"; a; b; t ] -> UsUnmarshal (uexpr_p a, uexpr_p b, mtarget_p t)
  | L [ A "bytesset"; f; a; b ] -> UsBytesSet (field_p f, uexpr_p a, uexpr_p b)
  | L [ A "copy"; t; a; b ] -> UsCopy (mtarget_p t, uexpr_p a, uexpr_p b)
  | L [ A "mapstore"; f; A k; A v ] -> UsMapStore (field_p f, uvar_p k, uvar_p v)
  | L [ A "skip"; e ] -> UsSkip (uexpr_p e)
  | L [ A "unkappend"; a; b ] -> UsUnkAppend (uexpr_p a, uexpr_p b)
  | _ -> bad "statement"
let uprog_p (s : string) : ustmt list =
  match parse s with [ L (A "prog" :: b) ] -> List.map ustmt_p b | _ -> bad "program"

(* ---- the parts of a program the UNMARSHALPROG lines show ---- *)
let outer_loop (p : ustmt list) = List.find_map (function UsFor (_, b) -> Some b | _ -> None) p
let the_switch (p : ustmt list) =
  match outer_loop p with
  | Some b -> List.find_map (function UsSwitch (x, cs, d) -> Some (x, cs, d) | _ -> None) b
  | None -> None
let top_s = function UsFor (c, b) -> "(for " ^ ucond_s c ^ " #" ^ string_of_int (List.length b) ^ ")" | s -> ustmt_s s
let loop_s = function UsSwitch (x, cs, _) -> "(switch " ^ uvar_s x ^ " #" ^ string_of_int (List.length cs) ^ ")" | s -> ustmt_s s
let part (canon : ustmt list) (k : string) : string =
  let rest () = String.sub k 1 (String.length k - 1) in
  if k = "len" then string_of_int (List.length canon)
  else if k = "n" then (match outer_loop canon with Some b -> string_of_int (List.length b) | None -> "-")
  else if k = "cases" then (match the_switch canon with Some (_, cs, _) -> String.concat " " (List.map (fun (n, _) -> zstr n) cs) | None -> "-")
  else if k = "default" then (match the_switch canon with Some (_, _, d) -> block_s d | None -> "-")
  else if k.[0] = 't' then (match List.nth_opt canon (int_of_string (rest ())) with Some s -> top_s s | None -> "-")
  else if k.[0] = 'l' then
    (match outer_loop canon with
     | Some b -> (match List.nth_opt b (int_of_string (rest ())) with Some s -> loop_s s | None -> "-")
     | None -> "-")
  else if k.[0] = 'c' then
    (match the_switch canon with
     | Some (_, cs, _) -> (match List.find_opt (fun (n, _) -> zstr n = rest ()) cs with Some (_, b) -> block_s b | None -> "-")
     | None -> "-")
  else failwith ("unmarshalprog: part " ^ k)

let canon_of = Driver.canon_unmarshal_cached

let out_s sch m (o : val0 outcome option) : string =
  match o with
  | None -> "stuck"
  | Some (Ok v) -> "ok " ^ Sexp.string_of_val (Driver.foreign_norm sch m v)
  | Some Err -> "err"
  | Some Panic -> "panic"
  | Some OutOfFuel -> "outoffuel"

let unmarshalprog_eval (fn : string) (args : string list) : string =
  match fn, args with
  | "UNMARSHALPROG", [ sid; mid; k ] ->
    let canon = canon_of sid mid in
    if k = "eqb" then
      (match Hashtbl.find_opt progs (sid, mid) with
       | Some p -> if uprog_eqb p canon then "same" else "different"
       | None -> "no-translated-program")
    else part canon k
  | "UNMARSHALDEF", [ sid; mid; text ] ->
    let p = uprog_p text in
    Hashtbl.replace progs (sid, mid) p;
    let canon = canon_of sid mid in
    (* the model's decidable equality and the comparison of the printed texts are the same judgement *)
    Driver.law "unmarshalprog.uprog_eqb_is_text_equality" (uprog_eqb p canon = (text = uprog_s canon));
    if uprog_s p <> text then "reprinted:" ^ uprog_s p else "ok"
  | "UNMARSHALRUN", [ sid; mid; flags; limit; b; init ] ->
    let sch = Ctx.schema sid and m = nat_of_int (int_of_string mid) in
    let discard = String.contains flags 'd' in
    let init = if init = "-" then VNil else Sexp.val_of_string init in
    let bs = bytes_of_hex b in
    let fuel = nat_of_int (List.length bs) in
    let depth = if limit = "-" then recursion_limit else z_of_int (int_of_string limit) in
    (* the statement unmarshal_prog_correct_stmt (UnmarshalProg.v) on this case *)
    Driver.law "C03.unmarshal_prog_correct" (unmarshal_prog_law sch discard fuel depth m init bs);
    (match Hashtbl.find_opt progs (sid, mid) with
     | None -> "no-translated-program"
     | Some p -> out_s sch m (run_unmarshal sch discard (unmarshal_at sch discard fuel (Z.sub depth (Zpos XH))) depth m p init bs))
  | _ -> raise Not_found

let () = Driver.register unmarshalprog_eval
