(* Evaluator of the "anyprog" engine (translator tie for the hand-written anyutil/any.go, Model/AnyProg.v; property C16).
     ANYPROG     imports                  = imported packages, sorted            model: canon_anyprog_imports
     ANYPROG     decls                    = top-level declarations in order      model: the names of canon_anyprog
     ANYPROG     func                     = printed translation                  model: print (canonical function of that name), "-" if none
     @ANYPROGDEF func text                = ok                                   context line: parse and remember the TRANSLATED function;
                                                                                 ok iff printing the parsed function gives the text back
     ANYPROG     func eqb                 = same                                 model: apfun_eqb <translated> <canonical>
     ANYPROGRUN  PACK|NEW|UNPACK args...  = what the running code did            model: the interpreter on the TRANSLATED functions; the
                                                                                 oracles are answered from the case, as in any_eval.ml
   Text form (the Go printer in harness/cmd/runner/anyprog.go writes the same):
     (func F (params (x T)...) (results T...) (body s...))
     s ::= (:= (x...) e) | (= (x...) e) | (set x TypeUrl|Value e) | (if (init s...) e (then s...) (else s...)) | (return e...)
     e ::= nil | x | (str "...") | (+ e e) | (. e TypeUrl|Value) | (== e e) | (!= e e) | (not e) | (new-any) | (no-opts) | (global-types)
         | (global-files) | (not-found) | (trim-prefix e "p") | (full-name-of e) | (to-full-name e) | (new-error "m") | (errorf "f" e...)
         | (marshal e e) | (call f e...) | (find-message-by-url e e) | (find-descriptor-by-name e e) | (is-message-desc e)
         | (assert-message-desc e) | (new-message-type e) | (typ-new e) | (unmarshal-to e e) *)
open Model
open Util

let nm (s : string) : gname = List.init (String.length s) (fun i -> byte_of_int (Char.code s.[i]))
let str_of (g : gname) : string = String.init (List.length g) (let a = Array.of_list g in fun i -> Char.chr (int_of_byte a.(i)))
let bad what = failwith ("anyprog: cannot parse " ^ what)

(* ---- s-expressions with quoted strings (backslash escapes: quote, backslash, xHH) ---- *)
type sx = A of string | Q of string | L of sx list

let hexv c = match c with '0' .. '9' -> Char.code c - 48 | 'a' .. 'f' -> Char.code c - 87 | 'A' .. 'F' -> Char.code c - 55 | _ -> bad "hex escape"

let parse_sx (s : string) : sx list =
  let n = String.length s in
  let pos = ref 0 in
  let rec skip () = if !pos < n && s.[!pos] = ' ' then (incr pos; skip ()) in
  let rec items () =
    skip ();
    if !pos >= n || s.[!pos] = ')' then []
    else begin
      let x = item () in
      x :: items ()
    end
  and item () =
    if s.[!pos] = '(' then begin
      incr pos;
      let l = items () in
      if !pos < n && s.[!pos] = ')' then incr pos else bad "missing )";
      L l
    end else if s.[!pos] = '"' then begin
      incr pos;
      let b = Buffer.create 32 in
      while !pos < n && s.[!pos] <> '"' do
        if s.[!pos] = '\\' && !pos + 1 < n then begin
          incr pos;
          if s.[!pos] = 'x' && !pos + 2 < n then begin
            Buffer.add_char b (Char.chr ((16 * hexv s.[!pos + 1]) + hexv s.[!pos + 2]));
            pos := !pos + 2
          end else Buffer.add_char b s.[!pos]
        end else Buffer.add_char b s.[!pos];
        incr pos
      done;
      if !pos < n then incr pos else bad "unterminated string";
      Q (Buffer.contents b)
    end else begin
      let st = !pos in
      while !pos < n && s.[!pos] <> ' ' && s.[!pos] <> ')' && s.[!pos] <> '(' do incr pos done;
      A (String.sub s st (!pos - st))
    end
  in
  let l = items () in
  if !pos < n then bad "unbalanced )";
  l

let quote (s : string) : string =
  let b = Buffer.create (String.length s + 2) in
  Buffer.add_char b '"';
  String.iter (fun c ->
      if c = '"' || c = '\\' then (Buffer.add_char b '\\'; Buffer.add_char b c)
      else if Char.code c < 0x20 || Char.code c > 0x7e then Buffer.add_string b (Printf.sprintf "\\x%02x" (Char.code c))
      else Buffer.add_char b c) s;
  Buffer.add_char b '"';
  Buffer.contents b

(* ---- printer ---- *)
let sp l = String.concat "" (List.map (fun x -> " " ^ x) l)
let field_s = function ApTypeUrl -> "TypeUrl" | ApValue -> "Value"
let rec expr_s = function
  | AxNil -> "nil"
  | AxVar x -> str_of x
  | AxStr s -> "(str " ^ quote (str_of s) ^ ")"
  | AxConcat (a, b) -> "(+ " ^ expr_s a ^ " " ^ expr_s b ^ ")"
  | AxField (e, f) -> "(. " ^ expr_s e ^ " " ^ field_s f ^ ")"
  | AxEq (a, b) -> "(== " ^ expr_s a ^ " " ^ expr_s b ^ ")"
  | AxNe (a, b) -> "(!= " ^ expr_s a ^ " " ^ expr_s b ^ ")"
  | AxNot e -> "(not " ^ expr_s e ^ ")"
  | AxNewAny -> "(new-any)"
  | AxNoOpts -> "(no-opts)"
  | AxGlobalTypes -> "(global-types)"
  | AxGlobalFiles -> "(global-files)"
  | AxNotFound -> "(not-found)"
  | AxTrimPrefix (e, p) -> "(trim-prefix " ^ expr_s e ^ " " ^ quote (str_of p) ^ ")"
  | AxFullNameOf e -> "(full-name-of " ^ expr_s e ^ ")"
  | AxToFullName e -> "(to-full-name " ^ expr_s e ^ ")"
  | AxNewError m -> "(new-error " ^ quote (str_of m) ^ ")"
  | AxErrorf (f, l) -> "(errorf " ^ quote (str_of f) ^ sp (List.map expr_s l) ^ ")"
  | AxMarshal (o, s) -> "(marshal " ^ expr_s o ^ " " ^ expr_s s ^ ")"
  | AxCall (f, l) -> "(call " ^ str_of f ^ sp (List.map expr_s l) ^ ")"
  | AxFindMessageByURL (r, u) -> "(find-message-by-url " ^ expr_s r ^ " " ^ expr_s u ^ ")"
  | AxFindDescriptorByName (r, n) -> "(find-descriptor-by-name " ^ expr_s r ^ " " ^ expr_s n ^ ")"
  | AxIsMessageDesc e -> "(is-message-desc " ^ expr_s e ^ ")"
  | AxAssertMessageDesc e -> "(assert-message-desc " ^ expr_s e ^ ")"
  | AxNewMessageType e -> "(new-message-type " ^ expr_s e ^ ")"
  | AxTypNew e -> "(typ-new " ^ expr_s e ^ ")"
  | AxUnmarshalTo (a, m) -> "(unmarshal-to " ^ expr_s a ^ " " ^ expr_s m ^ ")"
let names_s xs = "(" ^ String.concat " " (List.map str_of xs) ^ ")"
let rec stmt_s = function
  | AstDefine (xs, e) -> "(:= " ^ names_s xs ^ " " ^ expr_s e ^ ")"
  | AstAssign (xs, e) -> "(= " ^ names_s xs ^ " " ^ expr_s e ^ ")"
  | AstSetField (x, f, e) -> "(set " ^ str_of x ^ " " ^ field_s f ^ " " ^ expr_s e ^ ")"
  | AstIf (i, c, a, b) -> "(if (init" ^ body_s i ^ ") " ^ expr_s c ^ " (then" ^ body_s a ^ ") (else" ^ body_s b ^ "))"
  | AstReturn l -> "(return" ^ sp (List.map expr_s l) ^ ")"
and body_s b = sp (List.map stmt_s b)
let fun_s (f : apfun) =
  "(func " ^ str_of f.af_name ^ " (params" ^ sp (List.map (fun (x, t) -> "(" ^ str_of x ^ " " ^ str_of t ^ ")") f.af_params)
  ^ ") (results" ^ sp (List.map str_of f.af_results) ^ ") (body" ^ body_s f.af_body ^ "))"

(* ---- parser ---- *)
let field_p = function A "TypeUrl" -> ApTypeUrl | A "Value" -> ApValue | _ -> bad "field"
let rec expr_p = function
  | A "nil" -> AxNil
  | A x -> AxVar (nm x)
  | L [ A "str"; Q s ] -> AxStr (nm s)
  | L [ A "+"; a; b ] -> AxConcat (expr_p a, expr_p b)
  | L [ A "."; e; f ] -> AxField (expr_p e, field_p f)
  | L [ A "=="; a; b ] -> AxEq (expr_p a, expr_p b)
  | L [ A "!="; a; b ] -> AxNe (expr_p a, expr_p b)
  | L [ A "not"; e ] -> AxNot (expr_p e)
  | L [ A "new-any" ] -> AxNewAny
  | L [ A "no-opts" ] -> AxNoOpts
  | L [ A "global-types" ] -> AxGlobalTypes
  | L [ A "global-files" ] -> AxGlobalFiles
  | L [ A "not-found" ] -> AxNotFound
  | L [ A "trim-prefix"; e; Q p ] -> AxTrimPrefix (expr_p e, nm p)
  | L [ A "full-name-of"; e ] -> AxFullNameOf (expr_p e)
  | L [ A "to-full-name"; e ] -> AxToFullName (expr_p e)
  | L [ A "new-error"; Q m ] -> AxNewError (nm m)
  | L (A "errorf" :: Q f :: l) -> AxErrorf (nm f, List.map expr_p l)
  | L [ A "marshal"; o; s ] -> AxMarshal (expr_p o, expr_p s)
  | L (A "call" :: A f :: l) -> AxCall (nm f, List.map expr_p l)
  | L [ A "find-message-by-url"; r; u ] -> AxFindMessageByURL (expr_p r, expr_p u)
  | L [ A "find-descriptor-by-name"; r; n ] -> AxFindDescriptorByName (expr_p r, expr_p n)
  | L [ A "is-message-desc"; e ] -> AxIsMessageDesc (expr_p e)
  | L [ A "assert-message-desc"; e ] -> AxAssertMessageDesc (expr_p e)
  | L [ A "new-message-type"; e ] -> AxNewMessageType (expr_p e)
  | L [ A "typ-new"; e ] -> AxTypNew (expr_p e)
  | L [ A "unmarshal-to"; a; m ] -> AxUnmarshalTo (expr_p a, expr_p m)
  | _ -> bad "expression"
let names_p l = List.map (function A x -> nm x | _ -> bad "variable list") l
let rec stmt_p = function
  | L [ A ":="; L xs; e ] -> AstDefine (names_p xs, expr_p e)
  | L [ A "="; L xs; e ] -> AstAssign (names_p xs, expr_p e)
  | L [ A "set"; A x; f; e ] -> AstSetField (nm x, field_p f, expr_p e)
  | L [ A "if"; L (A "init" :: i); c; L (A "then" :: a); L (A "else" :: b) ] ->
    AstIf (List.map stmt_p i, expr_p c, List.map stmt_p a, List.map stmt_p b)
  | L (A "return" :: l) -> AstReturn (List.map expr_p l)
  | _ -> bad "statement"
let fun_p (s : string) : apfun =
  match parse_sx s with
  | [ L [ A "func"; A f; L (A "params" :: ps); L (A "results" :: rs); L (A "body" :: b) ] ] ->
    { af_name = nm f;
      af_params = List.map (function L [ A x; A t ] -> (nm x, nm t) | _ -> bad "parameter") ps;
      af_results = List.map (function A t -> nm t | _ -> bad "result type") rs;
      af_body = List.map stmt_p b }
  | _ -> bad "function"

(* ---- the translated functions, in source order ---- *)
let defs : (string * apfun) list ref = ref []
let program () : apfun list = List.rev_map snd !defs
let canon_fun (name : string) : apfun option = ap_find canon_anyprog (nm name)

(* ---- running: the oracles of a case, exactly as any_eval.ml hands them to AnyUtil.v ---- *)
let out_s show = function Ok x -> show x | Err -> "err" | Panic -> "panic" | OutOfFuel -> "outoffuel"
let depth = nat_of_int 4

let anyprog_eval (fn : string) (args : string list) : string =
  match fn, args with
  | "ANYPROG", [ "imports" ] -> String.concat " " (List.map str_of canon_anyprog_imports)
  | "ANYPROG", [ "decls" ] -> String.concat " " (List.map (fun f -> str_of f.af_name) canon_anyprog)
  | "ANYPROG", [ name ] -> (match canon_fun name with Some f -> fun_s f | None -> "-")
  | "ANYPROG", [ name; "eqb" ] ->
    (match List.assoc_opt name !defs, canon_fun name with
     | None, _ -> "no-translated-function"
     | _, None -> "no-canonical-function"
     | Some f, Some c -> if apfun_eqb f c then "same" else "different")
  | "ANYPROGDEF", [ name; text ] ->
    let f = fun_p text in
    defs := (name, f) :: List.remove_assoc name !defs;
    (* the model's decidable equality and the comparison of the printed texts are the same judgement *)
    (match canon_fun name with
     | Some c -> Driver.law "anyprog.eqb_is_text_equality" (apfun_eqb f c = (text = fun_s c))
     | None -> ());
    if fun_s f <> text then "reprinted:" ^ fun_s f else "ok"
  | "ANYPROGRUN", [ "UNPACK"; a; fr; tr; cands ] ->
    let open Any_eval in
    let a = any_of_string a and fr = files_reg fr and tr = types_reg tr and cands = parse_cands cands in
    let unm = unmarshal_of cands a in
    let marshal () (_ : string) : byte list outcome = failwith "Unpack marshals" in
    let run p = ap_unpack_full dname (fun (m : string) -> (m, "gen")) marshal unm () !gt !gf p depth a fr tr in
    (* Properties/C16.v unpack_prog_correct on this case: the canonical program is the model, and leaves the argument alone *)
    Driver.law "C16.unpack_prog_correct" (run canon_anyprog = Some (unpack dname unm !gt !gf a fr tr, a));
    (match run (program ()) with
     | None -> "stuck"
     | Some (r, a') -> if a' <> a then "argument-modified" else show_unpack r)
  | "ANYPROGRUN", [ "PACK"; dst; src; mo; _info ] ->
    let open Any_eval in
    let dst = any_of_string dst in
    let src = if src = "nil" then None else Some src in
    let marshal () (_ : string) : byte list outcome = codec_outcome mo bytes_of_hex in
    let unm _ _ _ : string outcome = failwith "MarshalFrom unmarshals" in
    let descr_of (m : string) = (m, "gen") in
    let run p = ap_marshal_from dname descr_of marshal unm () !gt !gf p depth dst src () in
    Driver.law "C16.marshal_from_prog_correct" (run canon_anyprog = Some (marshal_from dname descr_of marshal dst src ()));
    (match run (program ()) with
     | None -> "stuck"
     | Some (res, dst') -> show_res res ^ " " ^ string_of_any dst')
  | "ANYPROGRUN", [ "NEW"; src; mo; _info ] ->
    let open Any_eval in
    let src = if src = "nil" then None else Some src in
    let marshal () (_ : string) : byte list outcome = codec_outcome mo bytes_of_hex in
    let unm _ _ _ : string outcome = failwith "New unmarshals" in
    let descr_of (m : string) = (m, "gen") in
    let run p = ap_new dname descr_of marshal unm () !gt !gf p depth src in
    Driver.law "C16.new_prog_correct" (run canon_anyprog = Some (new_any dname descr_of marshal () src));
    (match run (program ()) with
     | None -> "stuck"
     | Some r -> out_s (fun a -> "ok " ^ string_of_any (Some a)) r)
  | ("ANYPROG" | "ANYPROGDEF" | "ANYPROGRUN"), _ -> failwith "malformed ANYPROG case"
  | _ -> raise Not_found

let () = Driver.register anyprog_eval
