(* Evaluator for the reflect engine's case lines (C08 / C09):
     HIST  <sid> <msg#> <op>;<op>;...            = <out>;<out>;...
     HISTV <sid> <msg#> <VAL> <op>;<op>;...      = <out>;<out>;...      (the root r0 is the loaded VAL)
   Folds Reflect.step over the operations, keeping the list of results (operands r<k> are earlier
   results), and renders every result plus the root object after every step in the grammar of
   harness/cmd/runner/reflecteng_sess.go (raw rendering). *)
open Model
open Util

let words s = List.filter (fun x -> x <> "") (String.split_on_char ' ' s)
let nat_of_string s = nat_of_int (int_of_string s)
let scalar_of_tok (s : string) : val0 = Sexp.val_of_string s

(* a scalar read through a protoreflect.Value: nil and empty bytes are the same *)
let scalar_tok (v : val0) : string = match v with VNil -> "b-" | _ -> Sexp.string_of_val v

let z_of_dec (s : string) : z = z_of_int (int_of_string s)

let fuel_of (h : heap) : nat = nat_of_int (List.length h + 2)

let msg_val sch h (p : nat option) : string = Sexp.string_of_val (render sch (fuel_of h) h p)

let elem_tok sch h (e : elem) : string =
  match e with
  | EScalar v -> scalar_tok v
  | EPtr None -> "n"
  | EPtr (Some q) -> msg_val sch h (Some q)

let key_cmp (k1, _) (k2, _) = if Sexp.key_lt k1 k2 then -1 else if Sexp.key_lt k2 k1 then 1 else 0

let rec pval_tok sch (h : heap) (elem : bool) (v : pval) : string =
  match v with
  | PScalar s -> scalar_tok s
  | PMsg (_, None) -> if elem then "n" else "M0"
  | PMsg (_, Some id) -> if elem then msg_val sch h (Some id) else "M1:" ^ msg_val sch h (Some id)
  | PList (_, r) -> (
    match r, read_list h r with
    | RNil, _ -> "L0:()"
    | _, Some l -> "L1:(" ^ String.concat " " (List.map (elem_tok sch h) (olist l)) ^ ")"
    | _, None -> "L?dangling")
  | PMap (_, _, r) -> (
    match r, read_map h r with
    | RNil, _ -> "P0:()"
    | _, Some m ->
      let kvs = List.stable_sort key_cmp (olist m) in
      "P1:(" ^ String.concat " " (List.map (fun (k, e) -> Sexp.string_of_val k ^ " " ^ elem_tok sch h e) kvs) ^ ")"
    | _, None -> "P?dangling")
  | PField None -> "F-"
  | PField (Some f) -> "F" ^ string_of_int (int_of_nat f)
  | PUnit -> "u"
  | PBool true -> "t"
  | PBool false -> "f"
  | PBytes l -> "y" ^ hex_of_bytes l
  | PRange l ->
    "R(" ^ String.concat " " (List.map (fun (i, x) -> string_of_int (int_of_nat i) ^ ":" ^ pval_tok sch h false x) l) ^ ")"
  | PMapRange l ->
    let kvs = List.stable_sort key_cmp l in
    "Q(" ^ String.concat " " (List.map (fun (k, x) -> Sexp.string_of_val k ^ " " ^ pval_tok sch h true x) kvs) ^ ")"
  | PInvalid -> "inv"
  | PPanic -> "panic"

let parse_op (outs : pval array) (n : int) (s : string) : op =
  let res tok =
    if String.length tok < 2 || tok.[0] <> 'r' then failwith ("operand " ^ tok);
    let k = int_of_string (String.sub tok 1 (String.length tok - 1)) in
    if k >= n then failwith ("forward reference " ^ tok);
    outs.(k)
  in
  let arg tok = if String.length tok >= 2 && tok.[0] = 'r' && tok.[1] >= '0' && tok.[1] <= '9' then res tok else PScalar (scalar_of_tok tok) in
  match words s with
  | [ "new"; m ] -> ONew (nat_of_string m)
  | [ "nil"; m ] | [ "zero"; m ] -> ONil (nat_of_string m)
  | [ "has"; r; f ] -> OHas (res r, nat_of_string f)
  | [ "get"; r; f ] -> OGet (res r, nat_of_string f)
  | [ "set"; r; f; a ] -> OSet (res r, nat_of_string f, arg a)
  | [ "clear"; r; f ] -> OClear (res r, nat_of_string f)
  | [ "mut"; r; f ] -> OMutable (res r, nat_of_string f)
  | [ "newf"; r; f ] -> ONewField (res r, nat_of_string f)
  | [ "which"; r; j ] -> OWhichOneof (res r, nat_of_string j)
  | [ "range"; r ] | [ "rstop"; r; _ ] -> ORange (res r)
  | [ "getunk"; r ] -> OGetUnknown (res r)
  | [ "setunk"; r; b ] -> OSetUnknown (res r, bytes_of_hex b)
  | [ "valid"; r ] | [ "lvalid"; r ] | [ "mvalid"; r ] -> OIsValid (res r)
  | [ "llen"; r ] -> OLLen (res r)
  | [ "lget"; r; i ] -> OLGet (res r, z_of_dec i)
  | [ "lset"; r; i; a ] -> OLSet (res r, z_of_dec i, arg a)
  | [ "lapp"; r; a ] -> OLAppend (res r, arg a)
  | [ "lappm"; r ] -> OLAppendMutable (res r)
  | [ "ltrunc"; r; n ] -> OLTruncate (res r, z_of_dec n)
  | [ "lnew"; r ] -> OLNewElement (res r)
  | [ "mlen"; r ] -> OMLen (res r)
  | [ "mhas"; r; k ] -> OMHas (res r, scalar_of_tok k)
  | [ "mget"; r; k ] -> OMGet (res r, scalar_of_tok k)
  | [ "mset"; r; k; a ] -> OMSet (res r, scalar_of_tok k, arg a)
  | [ "mclear"; r; k ] -> OMClear (res r, scalar_of_tok k)
  | [ "mmut"; r; k ] -> OMMutable (res r, scalar_of_tok k)
  | [ "mnewv"; r ] -> OMNewValue (res r)
  | [ "mrange"; r ] | [ "mrstop"; r; _ ] -> OMRange (res r)
  | _ -> failwith ("op " ^ s)

let hist_steps = ref 0

(* Statement of Properties/C08.v step_refines evaluated on every step of every history (a test of the statement, not a
   proof): on a tidy heap and a well-scoped operation the reference model, run on the abstraction of the heap, returns
   the abstraction of the result and of the new heap; tidiness is preserved. *)
let refine_checked = ref 0
let refine_law sch (h : heap) (o : op) (h' : heap) (r : pval) : unit =
  if tidyb sch h && well_scopedb sch h o then begin
    incr refine_checked;
    let a', r' = ref_step sch (abs sch h) o in
    if r' <> abs_out r then failwith "law C08.step_refines fails (result)";
    if a' <> abs sch h' then failwith "law C08.step_refines fails (state)";
    if not (tidyb sch h') then failwith "law C08.tidy_preserved fails"
  end

(* further statements evaluated on every step when [laws] is on, registered by evaluators linked after this one
   (reflectviewprog_eval.ml: the statements of Model/ReflectViewProg.v); arguments: schema, heap before the step, operation,
   the results so far and their number *)
let extra_step_laws : (schema -> heap -> op -> pval array -> int -> unit) list ref = ref []

(* [stepf]: how one operation (given also as its text) is executed (Reflect.step; the reflectprog evaluator passes the interpreter of the translated methods);
   [laws]: evaluate the statements about Reflect.step on every step *)
let run_hist_gen (stepf : string -> schema -> heap -> op -> heap * pval) (laws : bool) sch (h0 : heap) (outs0 : pval list) (root : nat option) (ops : string) : string =
  let opl = String.split_on_char ';' ops in
  let outs = Array.make (List.length opl + List.length outs0 + 1) PPanic in
  List.iteri (fun i v -> outs.(i) <- v) outs0;
  let n = ref (List.length outs0) in
  let h = ref h0 in
  let root = ref root in
  let buf = Buffer.create 1024 in
  List.iteri
    (fun i s ->
      let o = parse_op outs !n s in
      let h', r = stepf s sch !h o in
      if laws then begin
      (let hm, rm = step sch !h o in refine_law sch !h o hm rm);   (* (about Reflect.step, whatever stepf is) *)
      (* the statements of Model/ReflectProg.v on this step: the canonical method bodies (what the eight templates emit for the
         schema), interpreted, are Reflect.step; the heap invariant they assume is kept *)
      Driver.law "C08.reflect_prog_correct" (reflect_prog_law sch !h o);
      Driver.law "C08.rp_heap_ok_kept" (rp_heap_okb sch !h && rp_heap_ok_kept_law sch !h o);
      (match words s, o with
       | [ "rstop"; _; k ], ORange (PMsg (m, p)) -> Driver.law "C08.range_stop_prog" (range_stop_law sch !h m p (nat_of_int (int_of_string k)))
       | _ -> ());
      List.iter (fun f -> f sch !h o outs !n) !extra_step_laws
      end;
      (* rstop / mrstop: a Range whose callback returns false at once makes exactly one callback when anything is populated *)
      let stop = (match words s with [ ("rstop" | "mrstop"); _; n ] -> Some (int_of_string n) | _ -> None) in
      let capped k len = PScalar (VInt (z_of_dec (string_of_int (min k len)))) in
      let r = match stop, r with
          | Some k, PRange l -> capped k (List.length l)
          | Some k, PMapRange l -> capped k (List.length l)
          | _, other -> other in
      h := h';
      outs.(!n) <- r;
      (if !n = 0 then match r with PMsg (_, p) -> root := p | _ -> ());
      incr n;
      incr hist_steps;
      if i > 0 then Buffer.add_char buf ';';
      Buffer.add_string buf (pval_tok sch h' false r);
      Buffer.add_char buf '|';
      Buffer.add_string buf (msg_val sch h' !root))
    opl;
  Buffer.contents buf

let run_hist = run_hist_gen (fun _ -> step) true

(* ---- HISTREF: the reference model against the common answer of dynamicpb and the struct-based reflection ----------
     HISTREF <sid> <msg#> <op>;<op>;... <k>   = <norm>;<norm>;...      (k: index of the step the two implementations
   disagree on, rendered "?", -1 if none). Normalised rendering of reflecteng_sess.go (render raw=false + " | " + state). *)
let afuel (a : aheap) : nat = nat_of_int (List.length a + 2)
let amsg_val sch a m (p : nat option) : string = Sexp.string_of_val (arender sch (afuel a) a m p)
let aelem_tok sch a (t : ftype) (e : aelem) : string =
  match e, t with
  | AEScalar v, _ -> Sexp.string_of_val v
  | AEMsg q, TMsg m -> amsg_val sch a m (Some q)
  | AEMsg _, _ -> "?elem"
let rec aout_tok sch (a : aheap) (elem : bool) (v : aout) : string =
  match v with
  | AOScalar s -> Sexp.string_of_val s
  | AOMsg (m, p) -> if elem then amsg_val sch a m p else (match p with None -> "M0:" | Some _ -> "M1:") ^ amsg_val sch a m p
  | AOList (t, r) -> (
    match r, aread_list sch a r with
    | RNil, _ -> "L0:()"
    | _, Some l -> "L1:(" ^ String.concat " " (List.map (aelem_tok sch a t) l) ^ ")"
    | _, None -> "L?dangling")
  | AOMap (_, t, r) -> (
    match r, aread_map sch a r with
    | RNil, _ -> "P0:()"
    | _, Some m ->
      let kvs = List.stable_sort key_cmp m in
      "P1:(" ^ String.concat " " (List.map (fun (k, e) -> Sexp.string_of_val k ^ " " ^ aelem_tok sch a t e) kvs) ^ ")"
    | _, None -> "P?dangling")
  | AOField None -> "F-"
  | AOField (Some f) -> "F" ^ string_of_int (int_of_nat f)
  | AOUnit -> "u"
  | AOBool true -> "t"
  | AOBool false -> "f"
  | AOBytes l -> "y" ^ hex_of_bytes l
  | AORange l ->
    "R(" ^ String.concat " " (List.map (fun (i, x) -> string_of_int (int_of_nat i) ^ ":" ^ aout_tok sch a false x) l) ^ ")"
  | AOMapRange l ->
    let kvs = List.stable_sort key_cmp l in
    "Q(" ^ String.concat " " (List.map (fun (k, x) -> Sexp.string_of_val k ^ " " ^ aout_tok sch a true x) kvs) ^ ")"
  | AOInvalid -> "inv"
  | AOPanic -> "panic"

let run_ref sch (ops : string) (q : int) : string =
  let opl = String.split_on_char ';' ops in
  let outs = Array.make (List.length opl + 1) PPanic in
  let n = ref 0 in
  let a = ref [] in
  let root = ref (O, None) in
  let buf = Buffer.create 1024 in
  List.iteri
    (fun i s ->
      let o = parse_op outs !n s in
      let a', r = ref_step sch !a o in
      let stop = (match words s with [ ("rstop" | "mrstop"); _; n ] -> Some (int_of_string n) | _ -> None) in
      let capped k len = AOScalar (VInt (z_of_dec (string_of_int (min k len)))) in
      let r = match stop, r with
          | Some k, AORange l -> capped k (List.length l)
          | Some k, AOMapRange l -> capped k (List.length l)
          | _, other -> other in
      a := a';
      outs.(!n) <- to_operand r;
      (if !n = 0 then match r with AOMsg (m, p) -> root := (m, p) | _ -> ());
      incr n;
      if i > 0 then Buffer.add_char buf ';';
      if i = q then Buffer.add_char buf '?'
      else begin
        Buffer.add_string buf (aout_tok sch a' false r);
        Buffer.add_string buf " | ";
        Buffer.add_string buf (amsg_val sch a' (fst !root) (snd !root))
      end)
    opl;
  Buffer.contents buf

let reflect_eval (fn : string) (args : string list) : string =
  match fn, args with
  | "HIST", [ sid; _mid; ops ] -> run_hist (Ctx.schema sid) [] [] None ops
  | "HISTV", [ sid; mid; v; ops ] ->
    let sch = Ctx.schema sid and m = nat_of_string mid in
    let h, p = load sch (nat_of_int 64) [] m (Sexp.val_of_string v) in
    run_hist sch h [ PMsg (m, p) ] p ops
  | "HISTREF", [ sid; _mid; ops; q ] -> run_ref (Ctx.schema sid) ops (int_of_string q)
  | _ -> raise Not_found

let () = Driver.register reflect_eval

let () = at_exit (fun () -> if Sys.getenv_opt "REFLECT_DEBUG" <> None then Printf.eprintf "reflect_eval: steps=%d refine_law_checked=%d\n" !hist_steps !refine_checked)
