(* Evaluator of the "marshalprog" engine (translator tie for the generated Marshal closures, Model/MarshalProg.v).
     MARSHALPROG  sid idx k         = printed statement      model: print (k-th top-level statement of canon_marshal sch idx), "-" if there is none
     MARSHALPROG  sid idx len       = number of statements   model: length (canon_marshal sch idx)
     @MARSHALDEF  sid idx program   = ok                     context line: parse and remember the TRANSLATED program of (sid, idx);
                                                              ok iff printing the parsed program gives the text back (printer/parser agree)
     MARSHALPROG  sid idx eqb       = same                   model: mprog_eqb <translated program of (sid, idx)> (canon_marshal sch idx)
     MARSHALRUN   sid idx d|n VAL   = ok <hex> | err | panic  model: run_marshal_closure sch det idx <translated program of (sid, idx)> VAL
                                                              ("stuck" when the interpreter answers None)
   Text form of programs (the Go printer in harness/cmd/runner/marshalprog.go writes the same):
     program  (prog stmt...)
     stmt     dec | (sub e) | (byte n) | (copy r) | (put32 e) | (put64 e) | (varint e) | (:= x e) | (marshal r) | basei | varpk | (pk+= e)
              | declj | (putvarintj x shift|inc) | (if c stmt...) | (ifelse c (then stmt...) (else stmt...)) | (forrev i stmt...)
              | (for x r stmt...) | (map i lt|bool stmt...) | (switch o (case j stmt...)...)
     e        <decimal> | (len r) | ("*" e e) without the quotes | (u64 r) | (u32 r) | (bits64 r) | (bits32 r) | (zig32 r n) | (zig64 r n)
              | pk | base | (loc x) | (sov e) | (soz e)
     c        (len> r) | (notnil r) | (nz r) | (true r) | (nzs r) | unk
     r        f<i> (x.F) | i<i> (x.F[iNdEx]) | num | num1 | k | v | enc (encoded) | unkf (x.unknownFields)
     x        num | num1 | k | v | f (f<N>) | x (x<N>) *)
open Model
open Util
open Sexp

let progs : (string * string, mstmt list) Hashtbl.t = Hashtbl.create 64

(* ---- printer ---- *)
let istr i = string_of_int (int_of_nat i)
let mvar_s = function MvNum -> "num" | MvNum1 -> "num1" | MvK -> "k" | MvV -> "v" | MvF -> "f" | MvX -> "x"
let mref_s = function
  | MrF i -> "f" ^ istr i
  | MrIdx i -> "i" ^ istr i
  | MrV x -> mvar_s x
  | MrEnc -> "enc"
  | MrUnk -> "unkf"
let rec mexpr_s = function
  | MeNum z -> dec_of_n z
  | MeLen r -> "(len " ^ mref_s r ^ ")"
  | MeMul (a, b) -> "(* " ^ mexpr_s a ^ " " ^ mexpr_s b ^ ")"
  | MeC64 r -> "(u64 " ^ mref_s r ^ ")"
  | MeC32 r -> "(u32 " ^ mref_s r ^ ")"
  | MeBits64 r -> "(bits64 " ^ mref_s r ^ ")"
  | MeBits32 r -> "(bits32 " ^ mref_s r ^ ")"
  | MeZig (w32, r, sh) -> "(zig" ^ (if w32 then "32 " else "64 ") ^ mref_s r ^ " " ^ dec_of_n sh ^ ")"
  | MePk -> "pk"
  | MeBase -> "base"
  | MeLoc x -> "(loc " ^ mvar_s x ^ ")"
  | MeSov e -> "(sov " ^ mexpr_s e ^ ")"
  | MeSoz e -> "(soz " ^ mexpr_s e ^ ")"
let mcond_s = function
  | McLenPos r -> "(len> " ^ mref_s r ^ ")"
  | McNotNil r -> "(notnil " ^ mref_s r ^ ")"
  | McNonZero r -> "(nz " ^ mref_s r ^ ")"
  | McTrue r -> "(true " ^ mref_s r ^ ")"
  | McNonZeroOrSign r -> "(nzs " ^ mref_s r ^ ")"
  | McUnkNotNil -> "unk"
let rec mstmt_s = function
  | MsDec -> "dec"
  | MsSub e -> "(sub " ^ mexpr_s e ^ ")"
  | MsByte b -> "(byte " ^ dec_of_n b ^ ")"
  | MsCopy r -> "(copy " ^ mref_s r ^ ")"
  | MsPut32 e -> "(put32 " ^ mexpr_s e ^ ")"
  | MsPut64 e -> "(put64 " ^ mexpr_s e ^ ")"
  | MsVarint e -> "(varint " ^ mexpr_s e ^ ")"
  | MsDecl (x, e) -> "(:= " ^ mvar_s x ^ " " ^ mexpr_s e ^ ")"
  | MsMarshal r -> "(marshal " ^ mref_s r ^ ")"
  | MsBaseI -> "basei"
  | MsVarPk -> "varpk"
  | MsAddPk e -> "(pk+= " ^ mexpr_s e ^ ")"
  | MsDeclJ -> "declj"
  | MsPutVarintJ (x, inc) -> "(putvarintj " ^ mvar_s x ^ (if inc then " inc)" else " shift)")
  | MsIf (c, b) -> "(if " ^ mcond_s c ^ mbody_s b ^ ")"
  | MsIfElse (c, a, b) -> "(ifelse " ^ mcond_s c ^ " (then" ^ mbody_s a ^ ") (else" ^ mbody_s b ^ "))"
  | MsForRev (i, b) -> "(forrev " ^ istr i ^ mbody_s b ^ ")"
  | MsFor (x, r, b) -> "(for " ^ mvar_s x ^ " " ^ mref_s r ^ mbody_s b ^ ")"
  | MsMapFn (i, c, b) -> "(map " ^ istr i ^ (match c with MkLt -> " lt" | MkBool -> " bool") ^ mbody_s b ^ ")"
  | MsSwitch (o, cs) ->
    "(switch " ^ istr o ^ String.concat "" (List.map (fun (j, b) -> " (case " ^ istr j ^ mbody_s b ^ ")") cs) ^ ")"
and mbody_s b = String.concat "" (List.map (fun s -> " " ^ mstmt_s s) b)
let mprog_s p = "(prog" ^ mbody_s p ^ ")"

(* ---- parser ---- *)
let bad what = failwith ("marshalprog: cannot parse " ^ what)
let is_num s = s <> "" && String.for_all (fun c -> c >= '0' && c <= '9') s
let nat_s s = if is_num s then nat_of_int (int_of_string s) else bad ("index " ^ s)
let n_s s = if is_num s then n_of_int (int_of_string s) else bad ("number " ^ s)
let mvar_p = function
  | "num" -> MvNum | "num1" -> MvNum1 | "k" -> MvK | "v" -> MvV | "f" -> MvF | "x" -> MvX | s -> bad ("variable " ^ s)
let mref_p = function
  | A "enc" -> MrEnc
  | A "unkf" -> MrUnk
  | A s when String.length s > 1 && s.[0] = 'f' && is_num (String.sub s 1 (String.length s - 1)) -> MrF (nat_s (String.sub s 1 (String.length s - 1)))
  | A s when String.length s > 1 && s.[0] = 'i' && is_num (String.sub s 1 (String.length s - 1)) -> MrIdx (nat_s (String.sub s 1 (String.length s - 1)))
  | A s -> MrV (mvar_p s)
  | L _ -> bad "reference"
let rec mexpr_p = function
  | A "pk" -> MePk
  | A "base" -> MeBase
  | A s when is_num s -> MeNum (n_s s)
  | L [ A "len"; r ] -> MeLen (mref_p r)
  | L [ A "*"; a; b ] -> MeMul (mexpr_p a, mexpr_p b)
  | L [ A "u64"; r ] -> MeC64 (mref_p r)
  | L [ A "u32"; r ] -> MeC32 (mref_p r)
  | L [ A "bits64"; r ] -> MeBits64 (mref_p r)
  | L [ A "bits32"; r ] -> MeBits32 (mref_p r)
  | L [ A "zig32"; r; A n ] -> MeZig (true, mref_p r, n_s n)
  | L [ A "zig64"; r; A n ] -> MeZig (false, mref_p r, n_s n)
  | L [ A "loc"; A x ] -> MeLoc (mvar_p x)
  | L [ A "sov"; e ] -> MeSov (mexpr_p e)
  | L [ A "soz"; e ] -> MeSoz (mexpr_p e)
  | _ -> bad "expression"
let mcond_p = function
  | A "unk" -> McUnkNotNil
  | L [ A "len>"; r ] -> McLenPos (mref_p r)
  | L [ A "notnil"; r ] -> McNotNil (mref_p r)
  | L [ A "nz"; r ] -> McNonZero (mref_p r)
  | L [ A "true"; r ] -> McTrue (mref_p r)
  | L [ A "nzs"; r ] -> McNonZeroOrSign (mref_p r)
  | _ -> bad "condition"
let rec mstmt_p = function
  | A "dec" -> MsDec
  | A "basei" -> MsBaseI
  | A "varpk" -> MsVarPk
  | A "declj" -> MsDeclJ
  | L [ A "sub"; e ] -> MsSub (mexpr_p e)
  | L [ A "byte"; A n ] -> MsByte (n_s n)
  | L [ A "copy"; r ] -> MsCopy (mref_p r)
  | L [ A "put32"; e ] -> MsPut32 (mexpr_p e)
  | L [ A "put64"; e ] -> MsPut64 (mexpr_p e)
  | L [ A "varint"; e ] -> MsVarint (mexpr_p e)
  | L [ A ":="; A x; e ] -> MsDecl (mvar_p x, mexpr_p e)
  | L [ A "marshal"; r ] -> MsMarshal (mref_p r)
  | L [ A "pk+="; e ] -> MsAddPk (mexpr_p e)
  | L [ A "putvarintj"; A x; A "shift" ] -> MsPutVarintJ (mvar_p x, false)
  | L [ A "putvarintj"; A x; A "inc" ] -> MsPutVarintJ (mvar_p x, true)
  | L (A "if" :: c :: b) -> MsIf (mcond_p c, List.map mstmt_p b)
  | L [ A "ifelse"; c; L (A "then" :: a); L (A "else" :: b) ] -> MsIfElse (mcond_p c, List.map mstmt_p a, List.map mstmt_p b)
  | L (A "forrev" :: A i :: b) -> MsForRev (nat_s i, List.map mstmt_p b)
  | L (A "for" :: A x :: r :: b) -> MsFor (mvar_p x, mref_p r, List.map mstmt_p b)
  | L (A "map" :: A i :: A "lt" :: b) -> MsMapFn (nat_s i, MkLt, List.map mstmt_p b)
  | L (A "map" :: A i :: A "bool" :: b) -> MsMapFn (nat_s i, MkBool, List.map mstmt_p b)
  | L (A "switch" :: A o :: cs) ->
    MsSwitch (nat_s o, List.map (function L (A "case" :: A j :: b) -> (nat_s j, List.map mstmt_p b) | _ -> bad "case clause") cs)
  | _ -> bad "statement"
let mprog_p (s : string) : mstmt list =
  match parse s with [ L (A "prog" :: b) ] -> List.map mstmt_p b | _ -> bad "program"

let marshalprog_eval (fn : string) (args : string list) : string =
  match fn, args with
  | "MARSHALPROG", [ sid; mid; k ] ->
    let canon = canon_marshal (Ctx.schema sid) (nat_of_int (int_of_string mid)) in
    if k = "len" then string_of_int (List.length canon)
    else if k = "eqb" then
      (match Hashtbl.find_opt progs (sid, mid) with
       | Some p -> if mprog_eqb p canon then "same" else "different"
       | None -> "no-translated-program")
    else (match List.nth_opt canon (int_of_string k) with Some s -> mstmt_s s | None -> "-")
  | "MARSHALDEF", [ sid; mid; text ] ->
    let p = mprog_p text in
    Hashtbl.replace progs (sid, mid) p;
    let canon = canon_marshal (Ctx.schema sid) (nat_of_int (int_of_string mid)) in
    (* the model's decidable equality and the comparison of the printed texts are the same judgement *)
    Driver.law "marshalprog.mprog_eqb_is_text_equality" (mprog_eqb p canon = (text = mprog_s canon));
    if mprog_s p <> text then "reprinted:" ^ mprog_s p else "ok"
  | "MARSHALRUN", [ sid; mid; d; v ] ->
    let sch = Ctx.schema sid and m = nat_of_int (int_of_string mid) and v = val_of_string v and det = (d = "d") in
    (* the statement marshal_prog_correct_stmt (MarshalProg.v) on this case, in both modes *)
    Driver.law "C02.marshal_prog_correct" (marshal_prog_law sch true m v && marshal_prog_law sch false m v);
    (match Hashtbl.find_opt progs (sid, mid) with
     | None -> "no-translated-program"
     | Some p -> (match run_marshal_closure sch det m p v with Some o -> Driver.bytes_out o | None -> "stuck"))
  | _ -> raise Not_found

let () = Driver.register marshalprog_eval
