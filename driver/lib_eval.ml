(* Evaluator for the "lib" engine (C10): LIBEQ sid mid VAL1 VAL2 = t|f — what proto.Equal answers on
   two generated messages, predicted by Model/LibSpec.v [equal_msg] (the reference's notion of
   message equality written on values). Also tests, on every case, that RefSpec's denotation is a
   refinement of it: canon (norm v1) = canon (norm v2) implies equal, and Equal is symmetric and
   reflexive in the model. *)
open Model
open Util

let lib_eval (fn : string) (args : string list) : string =
  match fn, args with
  | "LIBEQ", [ sid; mid; v1; v2 ] ->
    let sch = Ctx.schema sid and m = nat_of_int (int_of_string mid) in
    let v1 = Sexp.val_of_string v1 and v2 = Sexp.val_of_string v2 in
    let e = equal_msg sch m v1 v2 in
    Driver.law "C10.equal_symmetric" (equal_msg sch m v2 v1 = e);
    Driver.law "C10.equal_reflexive" (equal_msg sch m v1 v1 && equal_msg sch m v2 v2);
    if canon (norm sch m v1) = canon (norm sch m v2) then Driver.law "C10.same_denotation_equal" e;
    if e then "t" else "f"
  | _ -> raise Not_found

let () = Driver.register lib_eval
