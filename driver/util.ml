(* Conversions between the case-file text format and the extracted Coq datatypes. Part of the
   trusted harness (DESIGN §8). Numbers travel as hexadecimal with an optional leading '-'. *)
open Model

let byte_of_int (i : int) : byte = (Obj.magic (i land 255) : byte)
let int_of_byte (b : byte) : int = (Obj.magic b : int)

let hexval c =
  match c with
  | '0' .. '9' -> Char.code c - 48
  | 'a' .. 'f' -> Char.code c - 87
  | 'A' .. 'F' -> Char.code c - 55
  | _ -> failwith ("bad hex digit " ^ String.make 1 c)

(* positive from a big-endian bit list (MSB first, first bit = 1) *)
let n_of_hex (s : string) : n =
  let acc = ref N0 in
  String.iter
    (fun c ->
      let d = hexval c in
      for k = 3 downto 0 do
        let bit = (d lsr k) land 1 in
        acc :=
          (match !acc with
          | N0 -> if bit = 1 then Npos XH else N0
          | Npos p -> Npos (if bit = 1 then XI p else XO p))
      done)
    s;
  !acc

let z_of_hex (s : string) : z =
  if String.length s > 0 && s.[0] = '-' then
    match n_of_hex (String.sub s 1 (String.length s - 1)) with N0 -> Z0 | Npos p -> Zneg p
  else match n_of_hex s with N0 -> Z0 | Npos p -> Zpos p

let hex_of_pos (p : positive) : string =
  (* collect bits LSB first *)
  let rec bits p acc = match p with XH -> 1 :: acc | XO q -> bits q (0 :: acc) | XI q -> bits q (1 :: acc) in
  (* bits returns MSB-first? we cons LSB first onto acc while descending towards MSB, so reverse *)
  let lsb_first = List.rev (bits p []) in
  let arr = Array.of_list lsb_first in
  let nb = Array.length arr in
  let nd = (nb + 3) / 4 in
  let buf = Bytes.make nd '0' in
  for d = 0 to nd - 1 do
    let v = ref 0 in
    for k = 0 to 3 do
      let i = (4 * d) + k in
      if i < nb && arr.(i) = 1 then v := !v lor (1 lsl k)
    done;
    Bytes.set buf (nd - 1 - d) "0123456789abcdef".[!v]
  done;
  Bytes.to_string buf

let hex_of_n (x : n) : string = match x with N0 -> "0" | Npos p -> hex_of_pos p
let hex_of_z (x : z) : string =
  match x with Z0 -> "0" | Zpos p -> hex_of_pos p | Zneg p -> "-" ^ hex_of_pos p

let rec int_of_nat (x : nat) : int = match x with O -> 0 | S y -> 1 + int_of_nat y
let int_of_nat x = let rec go x acc = match x with O -> acc | S y -> go y (acc + 1) in go x 0
let rec nat_of_int (i : int) : nat = if i <= 0 then O else S (nat_of_int (i - 1))
let nat_of_int i = let rec go i acc = if i <= 0 then acc else go (i - 1) (S acc) in go i O

let n_of_int (i : int) : n = n_of_hex (Printf.sprintf "%x" i)
let z_of_int (i : int) : z = if i < 0 then z_of_hex (Printf.sprintf "-%x" (-i)) else z_of_hex (Printf.sprintf "%x" i)
let int_of_n (x : n) : int = int_of_string ("0x" ^ hex_of_n x)
let dec_of_n (x : n) : string = string_of_int (int_of_n x)

let bytes_of_hex (s : string) : byte list =
  if s = "-" then []
  else begin
    let n = String.length s / 2 in
    let rec go i acc = if i < 0 then acc else go (i - 1) (byte_of_int ((hexval s.[2 * i] * 16) + hexval s.[(2 * i) + 1]) :: acc) in
    go (n - 1) []
  end

let hex_of_bytes (l : byte list) : string =
  match l with
  | [] -> "-"
  | _ ->
    let b = Buffer.create 64 in
    List.iter (fun x -> Buffer.add_string b (Printf.sprintf "%02x" (int_of_byte x))) l;
    Buffer.contents b

(* self check of the Obj.magic representation of the 256-constructor byte type *)
let () =
  for i = 0 to 255 do
    if int_of_n (b2n (byte_of_int i)) <> i then failwith "byte representation self-check failed"
  done
