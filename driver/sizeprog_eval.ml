(* Evaluator of the "sizeprog" engine (translator tie for the generated Size closures, Model/SizeProg.v).
     SIZEPROG  sid idx k         = printed statement      model: print (k-th top-level statement of canon_size sch idx), "-" if there is none
     SIZEPROG  sid idx len       = number of statements   model: length (canon_size sch idx)      (a difference in either is the finding;
                                                           the translated program is reported statement by statement to keep the report readable)
     @SIZEDEF  sid idx program   = ok                     context line: parse and remember the TRANSLATED program of (sid, idx);
                                                           ok iff printing the parsed program gives the text back (printer/parser agree)
     SIZEPROG  sid idx eqb       = same                   model: prog_eqb <translated program of (sid, idx)> (canon_size sch idx)
     SIZERUN   sid idx VAL       = proto.Size              model: run_size sch idx <translated program of (sid, idx)> VAL
   Text form of programs (the Go printer in harness/cmd/runner/sizeprog.go writes the same):
     program  (prog stmt...)
     stmt     (= v e) | (:= v e) | (+= v e) | (if c stmt...) | (for x r stmt...) | (map i stmt...) | (switch o (case j stmt...)...)
     e        <decimal> | n | l | m | (len r) | lenunk | (u64 r) | (sov e) | (soz e) | (size r) | (+ e e) | ("*" e e) without the quotes
     c        (len> r) | (notnil r) | (nz r) | (true r) | (nzs r) | (pos v) | unk
     r        f<i> | e | s | b | k | v          v (integer variable)   n | l | m (= mapEntrySize) *)
open Model
open Util
open Sexp

let progs : (string * string, stmt list) Hashtbl.t = Hashtbl.create 64

(* ---- printer ---- *)
let lvar_s = function VE -> "e" | VS -> "s" | VB -> "b" | VK -> "k" | VV -> "v"
let ivar_s = function IN -> "n" | IL -> "l" | IEntry -> "m"
let ref_s = function RF i -> "f" ^ string_of_int (int_of_nat i) | RV x -> lvar_s x
let rec expr_s = function
  | XNum z -> dec_of_n z
  | XInt v -> ivar_s v
  | XLen r -> "(len " ^ ref_s r ^ ")"
  | XLenUnk -> "lenunk"
  | XCast r -> "(u64 " ^ ref_s r ^ ")"
  | XSov e -> "(sov " ^ expr_s e ^ ")"
  | XSoz e -> "(soz " ^ expr_s e ^ ")"
  | XSize r -> "(size " ^ ref_s r ^ ")"
  | XAdd (a, b) -> "(+ " ^ expr_s a ^ " " ^ expr_s b ^ ")"
  | XMul (a, b) -> "(* " ^ expr_s a ^ " " ^ expr_s b ^ ")"
let cond_s = function
  | CLenPos r -> "(len> " ^ ref_s r ^ ")"
  | CNotNil r -> "(notnil " ^ ref_s r ^ ")"
  | CNonZero r -> "(nz " ^ ref_s r ^ ")"
  | CTrue r -> "(true " ^ ref_s r ^ ")"
  | CNonZeroOrSign r -> "(nzs " ^ ref_s r ^ ")"
  | CIntPos v -> "(pos " ^ ivar_s v ^ ")"
  | CUnkNotNil -> "unk"
let rec stmt_s = function
  | SSet (v, e) -> "(= " ^ ivar_s v ^ " " ^ expr_s e ^ ")"
  | SDecl (v, e) -> "(:= " ^ ivar_s v ^ " " ^ expr_s e ^ ")"
  | SAdd (v, e) -> "(+= " ^ ivar_s v ^ " " ^ expr_s e ^ ")"
  | SIf (c, b) -> "(if " ^ cond_s c ^ body_s b ^ ")"
  | SFor (x, r, b) -> "(for " ^ lvar_s x ^ " " ^ ref_s r ^ body_s b ^ ")"
  | SMapFn (i, b) -> "(map " ^ string_of_int (int_of_nat i) ^ body_s b ^ ")"
  | SSwitch (o, cs) ->
    "(switch " ^ string_of_int (int_of_nat o)
    ^ String.concat "" (List.map (fun (j, b) -> " (case " ^ string_of_int (int_of_nat j) ^ body_s b ^ ")") cs) ^ ")"
and body_s b = String.concat "" (List.map (fun s -> " " ^ stmt_s s) b)
let prog_s p = "(prog" ^ body_s p ^ ")"

(* ---- parser ---- *)
let bad what = failwith ("sizeprog: cannot parse " ^ what)
let is_num s = s <> "" && String.for_all (fun c -> c >= '0' && c <= '9') s
let nat_s s = if is_num s then nat_of_int (int_of_string s) else bad ("index " ^ s)
let lvar_p = function "e" -> VE | "s" -> VS | "b" -> VB | "k" -> VK | "v" -> VV | s -> bad ("variable " ^ s)
let ivar_p = function "n" -> IN | "l" -> IL | "m" -> IEntry | s -> bad ("integer variable " ^ s)
let ref_p = function
  | A s when String.length s > 1 && s.[0] = 'f' -> RF (nat_s (String.sub s 1 (String.length s - 1)))
  | A s -> RV (lvar_p s)
  | L _ -> bad "reference"
let rec expr_p = function
  | A "lenunk" -> XLenUnk
  | A s when is_num s -> XNum (n_of_int (int_of_string s))
  | A s -> XInt (ivar_p s)
  | L [ A "len"; r ] -> XLen (ref_p r)
  | L [ A "u64"; r ] -> XCast (ref_p r)
  | L [ A "sov"; e ] -> XSov (expr_p e)
  | L [ A "soz"; e ] -> XSoz (expr_p e)
  | L [ A "size"; r ] -> XSize (ref_p r)
  | L [ A "+"; a; b ] -> XAdd (expr_p a, expr_p b)
  | L [ A "*"; a; b ] -> XMul (expr_p a, expr_p b)
  | _ -> bad "expression"
let cond_p = function
  | A "unk" -> CUnkNotNil
  | L [ A "len>"; r ] -> CLenPos (ref_p r)
  | L [ A "notnil"; r ] -> CNotNil (ref_p r)
  | L [ A "nz"; r ] -> CNonZero (ref_p r)
  | L [ A "true"; r ] -> CTrue (ref_p r)
  | L [ A "nzs"; r ] -> CNonZeroOrSign (ref_p r)
  | L [ A "pos"; A v ] -> CIntPos (ivar_p v)
  | _ -> bad "condition"
let rec stmt_p = function
  | L [ A "="; A v; e ] -> SSet (ivar_p v, expr_p e)
  | L [ A ":="; A v; e ] -> SDecl (ivar_p v, expr_p e)
  | L [ A "+="; A v; e ] -> SAdd (ivar_p v, expr_p e)
  | L (A "if" :: c :: b) -> SIf (cond_p c, List.map stmt_p b)
  | L (A "for" :: A x :: r :: b) -> SFor (lvar_p x, ref_p r, List.map stmt_p b)
  | L (A "map" :: A i :: b) -> SMapFn (nat_s i, List.map stmt_p b)
  | L (A "switch" :: A o :: cs) ->
    SSwitch (nat_s o, List.map (function L (A "case" :: A j :: b) -> (nat_s j, List.map stmt_p b) | _ -> bad "case clause") cs)
  | _ -> bad "statement"
let prog_p (s : string) : stmt list =
  match parse s with [ L (A "prog" :: b) ] -> List.map stmt_p b | _ -> bad "program"

let sizeprog_eval (fn : string) (args : string list) : string =
  match fn, args with
  | "SIZEPROG", [ sid; mid; k ] ->
    let canon = canon_size (Ctx.schema sid) (nat_of_int (int_of_string mid)) in
    if k = "len" then string_of_int (List.length canon)
    else if k = "eqb" then
      (match Hashtbl.find_opt progs (sid, mid) with
       | Some p -> if prog_eqb p canon then "same" else "different"
       | None -> "no-translated-program")
    else (match List.nth_opt canon (int_of_string k) with Some s -> stmt_s s | None -> "-")
  | "SIZEDEF", [ sid; mid; text ] ->
    let p = prog_p text in
    Hashtbl.replace progs (sid, mid) p;
    let canon = canon_size (Ctx.schema sid) (nat_of_int (int_of_string mid)) in
    (* the model's decidable equality and the comparison of the printed texts are the same judgement *)
    Driver.law "sizeprog.prog_eqb_is_text_equality" (prog_eqb p canon = (text = prog_s canon));
    if prog_s p <> text then "reprinted:" ^ prog_s p else "ok"
  | "SIZERUN", [ sid; mid; v ] ->
    let sch = Ctx.schema sid and m = nat_of_int (int_of_string mid) and v = val_of_string v in
    (* the statement of size_prog_correct (SizeProg.size_prog_correct_stmt) on this case *)
    Driver.law "C04.size_prog_correct" (size_prog_law sch m v);
    (match Hashtbl.find_opt progs (sid, mid) with
     | None -> "no-translated-program"
     | Some p -> (match run_size sch m p v with Some n -> dec_of_n n | None -> "stuck"))
  | _ -> raise Not_found

let () = Driver.register sizeprog_eval
