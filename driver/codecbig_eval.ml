(* ENCB lines (codec engine, width-boundary sweep): values whose lists hold thousands of elements. The decoder model appends
   one element at a time, as the generated code does, which makes it quadratic in the list length; such values are therefore
   run through the marshal and size models and the encode-side laws only (the round trip of these values is judged on the
   implementation by the property's own predicate; the decoder model sees the same boundaries with wider elements). *)
open Model
open Util

let codecbig_eval (fn : string) (args : string list) : string =
  match fn, args with
  | "ENCB", [ sid; mid; v ] ->
    let sch = Ctx.schema sid and m = nat_of_int (int_of_string mid) and v = Sexp.val_of_string v in
    if wt_msg sch m v then begin
      let e1 = emit sch true m v in
      Driver.law "C02.det_eq_ref" (ref_marshal sch m v = e1);
      Driver.law "C04.size_eq_len" (msg_size sch m v = n_of_int (List.length e1))
    end;
    Driver.bytes_out (pulsar_marshal sch true m v) ^ " size=" ^ dec_of_n (msg_size sch m v)
  | _ -> raise Not_found

let () = Driver.register codecbig_eval
