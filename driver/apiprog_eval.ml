(* Evaluator of the "apiprog" engine (translator tie for the plain Go API of generated messages, Model/ApiProg.v).
     @APINAMES sid idx names          = ok        context line: parse and remember the naming context; ok iff printing it gives the text back
     APINAMES  sid idx check          = ok        model: api_names_okb sch idx names
     APIPROG   sid idx structname     = T         model: the canonical struct's name
     APIPROG   sid idx field k        = (f …)     model: the k-th Go field of canon_api_struct ("-" if none)
     APIPROG   sid idx fields len     = n         model: their number
     APIPROG   sid idx oneofdecl o    = (oneofdecl …)   model: the o-th oneof declaration of the canonical struct
     APIPROG   sid idx getter i       = (get …) | (mget …)   model: the canonical getter of field i
     APIPROG   sid idx ogetter o      = (oget …)  model: the canonical getter of oneof o
     APIPROG   sid idx reset          = (reset …) model: the canonical Reset
     @APIDEF   sid idx prog           = ok        context line: parse and remember the TRANSLATED declarations; ok iff they print back
     APIPROG   sid idx all eqb        = same      model: aprog_eqb <remembered> (canon_prog sch idx names)  (+ the struct-layout law)
     APIRUN    sid idx VAL|nil        = g…|o…|r   model: every getter / oneof getter / Reset of the remembered (translated) declarations
                                                   INTERPRETED on the heap loaded from VAL (receiver: the root; nil: the nil pointer)
   Text form (the Go printer in harness/cmd/runner/apiprog.go writes the same); i, j, o, m are decimal indexes, names are tokens (~ = empty):
     type    bool int32 uint32 int64 uint64 float32 float64 string bytes state sizecache unknown (enum N) (msg m) (slice T) (map K V) (iface N)
     ptag    (pt <varint|zigzag32|zigzag64|fixed32|fixed64|bytes> NUM <opt|rep|req> NAME [packed] [(json J)] [proto3] [(enum E)] [oneof])
     tags    notag (field PT JSON) (mapfield PT JSON PTK PTV) (oneof N) (wrapper PT)
     field   (f NAME TYPE TAGS)         wrapper (w NAME FIELD)        oneofdecl (oneofdecl IFACE (wrappers W…) (impls N…))
     zero    false num str nil (const E n) (conv E n)
     getter  (get i TYPE ZERO) (oget o IFACE) (mget o j TYPE ZERO)       reset (reset m VAR N|none)
     prog    (prog (struct NAME (fields F…) (oneofs OD…)) (getters G…) (ogetters G…) RESET)
     names   (names GO VAR (path P…) (tree T…) (fields (fn proto json go wrap enum enumtag local|foreign first)…) (oneofs (on proto go iface)…))
             with T = (NAME T…) *)
open Model
open Util
open Sexp

let names_tbl : (string * string, amnames) Hashtbl.t = Hashtbl.create 256
let prog_tbl : (string * string, aprog) Hashtbl.t = Hashtbl.create 256

let bad what = failwith ("apiprog: cannot parse " ^ what)
let ns n = string_of_int (int_of_nat n)
let nm_of (s : string) : byte list = if s = "~" then [] else List.init (String.length s) (fun i -> byte_of_int (Char.code s.[i]))
let nm_s (l : byte list) : string = if l = [] then "~" else String.concat "" (List.map (fun b -> String.make 1 (Char.chr (int_of_byte b))) l)
let z_s (x : z) : string = let h = hex_of_z x in if String.length h > 0 && h.[0] = '-' then string_of_int (- (int_of_string ("0x" ^ String.sub h 1 (String.length h - 1)))) else string_of_int (int_of_string ("0x" ^ h))
let nat_p = function A s -> nat_of_int (int_of_string s) | _ -> bad "index"

(* ---- printer ---- *)
let rec type_s = function
  | ATBool -> "bool" | ATInt32 -> "int32" | ATUint32 -> "uint32" | ATInt64 -> "int64" | ATUint64 -> "uint64" | ATFloat32 -> "float32"
  | ATFloat64 -> "float64" | ATString -> "string" | ATBytes -> "bytes" | ATState -> "state" | ATSizeCache -> "sizecache" | ATUnknown -> "unknown"
  | ATEnum e -> "(enum " ^ nm_s e ^ ")"
  | ATMsg m -> "(msg " ^ ns m ^ ")"
  | ATSlice t -> "(slice " ^ type_s t ^ ")"
  | ATMap (k, v) -> "(map " ^ type_s k ^ " " ^ type_s v ^ ")"
  | ATIface n -> "(iface " ^ nm_s n ^ ")"
let wire_s = function
  | AWVarint -> "varint" | AWZigzag32 -> "zigzag32" | AWZigzag64 -> "zigzag64" | AWFixed32 -> "fixed32" | AWFixed64 -> "fixed64" | AWBytes -> "bytes"
let label_s = function ALOpt -> "opt" | ALRep -> "rep" | ALReq -> "req"
let ptag_s (p : aptag) : string =
  "(pt " ^ wire_s p.pt_wire ^ " " ^ dec_of_n p.pt_num ^ " " ^ label_s p.pt_label ^ " " ^ nm_s p.pt_name
  ^ (if p.pt_packed then " packed" else "")
  ^ (match p.pt_json with Some j -> " (json " ^ nm_s j ^ ")" | None -> "")
  ^ (if p.pt_proto3 then " proto3" else "")
  ^ (match p.pt_enum with Some e -> " (enum " ^ nm_s e ^ ")" | None -> "")
  ^ (if p.pt_oneof then " oneof" else "") ^ ")"
let tags_s = function
  | TGNone -> "notag"
  | TGField (p, j) -> "(field " ^ ptag_s p ^ " " ^ nm_s j ^ ")"
  | TGMapField (p, j, k, v) -> "(mapfield " ^ ptag_s p ^ " " ^ nm_s j ^ " " ^ ptag_s k ^ " " ^ ptag_s v ^ ")"
  | TGOneof n -> "(oneof " ^ nm_s n ^ ")"
  | TGWrapper p -> "(wrapper " ^ ptag_s p ^ ")"
let gofield_s (f : agofield) : string = "(f " ^ nm_s f.gf_name ^ " " ^ type_s f.gf_type ^ " " ^ tags_s f.gf_tags ^ ")"
let cat l = String.concat "" (List.map (fun s -> " " ^ s) l)
let oneofdecl_s (d : aoneofdecl) : string =
  "(oneofdecl " ^ nm_s d.ao_iface ^ " (wrappers" ^ cat (List.map (fun w -> "(w " ^ nm_s w.aw_name ^ " " ^ gofield_s w.aw_field ^ ")") d.ao_wrappers)
  ^ ") (impls" ^ cat (List.map nm_s d.ao_impls) ^ "))"
let zero_s = function
  | AZFalse -> "false" | AZNum -> "num" | AZStr -> "str" | AZNil -> "nil"
  | AZEnumConst (e, n) -> "(const " ^ nm_s e ^ " " ^ z_s n ^ ")"
  | AZEnumConv (e, n) -> "(conv " ^ nm_s e ^ " " ^ z_s n ^ ")"
let getter_s = function
  | AGField (i, t, z) -> "(get " ^ ns i ^ " " ^ type_s t ^ " " ^ zero_s z ^ ")"
  | AGOneof (o, n) -> "(oget " ^ ns o ^ " " ^ nm_s n ^ ")"
  | AGMember (o, j, t, z) -> "(mget " ^ ns o ^ " " ^ ns j ^ " " ^ type_s t ^ " " ^ zero_s z ^ ")"
let reset_s = function
  | ARReset (m, v, i) -> "(reset " ^ ns m ^ " " ^ nm_s v ^ " " ^ (match i with Some n -> dec_of_n n | None -> "none") ^ ")"
let prog_s (p : aprog) : string =
  "(prog (struct " ^ nm_s p.ap_struct.as_name ^ " (fields" ^ cat (List.map gofield_s p.ap_struct.as_fields) ^ ") (oneofs"
  ^ cat (List.map oneofdecl_s p.ap_struct.as_oneofs) ^ ")) (getters" ^ cat (List.map getter_s p.ap_getters) ^ ") (ogetters"
  ^ cat (List.map getter_s p.ap_ogetters) ^ ") " ^ reset_s p.ap_reset ^ ")"

(* ---- parser ---- *)
let name_p = function A s -> nm_of s | _ -> bad "name"
let rec type_p = function
  | A "bool" -> ATBool | A "int32" -> ATInt32 | A "uint32" -> ATUint32 | A "int64" -> ATInt64 | A "uint64" -> ATUint64
  | A "float32" -> ATFloat32 | A "float64" -> ATFloat64 | A "string" -> ATString | A "bytes" -> ATBytes
  | A "state" -> ATState | A "sizecache" -> ATSizeCache | A "unknown" -> ATUnknown
  | L [ A "enum"; n ] -> ATEnum (name_p n)
  | L [ A "msg"; m ] -> ATMsg (nat_p m)
  | L [ A "slice"; t ] -> ATSlice (type_p t)
  | L [ A "map"; k; v ] -> ATMap (type_p k, type_p v)
  | L [ A "iface"; n ] -> ATIface (name_p n)
  | _ -> bad "type"
let wire_p = function
  | A "varint" -> AWVarint | A "zigzag32" -> AWZigzag32 | A "zigzag64" -> AWZigzag64 | A "fixed32" -> AWFixed32 | A "fixed64" -> AWFixed64
  | A "bytes" -> AWBytes | _ -> bad "wire word"
let label_p = function A "opt" -> ALOpt | A "rep" -> ALRep | A "req" -> ALReq | _ -> bad "label"
let ptag_p = function
  | L (A "pt" :: w :: A num :: l :: n :: items) ->
    let packed, items = (match items with A "packed" :: r -> (true, r) | r -> (false, r)) in
    let json, items = (match items with L [ A "json"; j ] :: r -> (Some (name_p j), r) | r -> (None, r)) in
    let p3, items = (match items with A "proto3" :: r -> (true, r) | r -> (false, r)) in
    let en, items = (match items with L [ A "enum"; e ] :: r -> (Some (name_p e), r) | r -> (None, r)) in
    let one, items = (match items with A "oneof" :: r -> (true, r) | r -> (false, r)) in
    if items <> [] then bad "protobuf tag items";
    { pt_wire = wire_p w; pt_num = n_of_int (int_of_string num); pt_label = label_p l; pt_packed = packed; pt_name = name_p n;
      pt_json = json; pt_proto3 = p3; pt_enum = en; pt_oneof = one }
  | _ -> bad "protobuf tag"
let tags_p = function
  | A "notag" -> TGNone
  | L [ A "field"; p; j ] -> TGField (ptag_p p, name_p j)
  | L [ A "mapfield"; p; j; k; v ] -> TGMapField (ptag_p p, name_p j, ptag_p k, ptag_p v)
  | L [ A "oneof"; n ] -> TGOneof (name_p n)
  | L [ A "wrapper"; p ] -> TGWrapper (ptag_p p)
  | _ -> bad "tags"
let gofield_p = function
  | L [ A "f"; n; t; g ] -> { gf_name = name_p n; gf_type = type_p t; gf_tags = tags_p g }
  | _ -> bad "Go field"
let oneofdecl_p = function
  | L [ A "oneofdecl"; i; L (A "wrappers" :: ws); L (A "impls" :: is) ] ->
    { ao_iface = name_p i;
      ao_wrappers = List.map (function L [ A "w"; n; f ] -> { aw_name = name_p n; aw_field = gofield_p f } | _ -> bad "wrapper") ws;
      ao_impls = List.map name_p is }
  | _ -> bad "oneof declaration"
let zint_p = function A s -> z_of_int (int_of_string s) | _ -> bad "integer"
let zero_p = function
  | A "false" -> AZFalse | A "num" -> AZNum | A "str" -> AZStr | A "nil" -> AZNil
  | L [ A "const"; e; n ] -> AZEnumConst (name_p e, zint_p n)
  | L [ A "conv"; e; n ] -> AZEnumConv (name_p e, zint_p n)
  | _ -> bad "zero value"
let getter_p = function
  | L [ A "get"; i; t; z ] -> AGField (nat_p i, type_p t, zero_p z)
  | L [ A "oget"; o; n ] -> AGOneof (nat_p o, name_p n)
  | L [ A "mget"; o; j; t; z ] -> AGMember (nat_p o, nat_p j, type_p t, zero_p z)
  | _ -> bad "getter"
let reset_p = function
  | L [ A "reset"; m; v; A "none" ] -> ARReset (nat_p m, name_p v, None)
  | L [ A "reset"; m; v; A n ] -> ARReset (nat_p m, name_p v, Some (n_of_int (int_of_string n)))
  | _ -> bad "reset"
let prog_p (text : string) : aprog =
  match parse text with
  | [ L [ A "prog"; L [ A "struct"; n; L (A "fields" :: fs); L (A "oneofs" :: os) ]; L (A "getters" :: gs); L (A "ogetters" :: ogs); r ] ] ->
    { ap_struct = { as_name = name_p n; as_fields = List.map gofield_p fs; as_oneofs = List.map oneofdecl_p os };
      ap_getters = List.map getter_p gs; ap_ogetters = List.map getter_p ogs; ap_reset = reset_p r }
  | _ -> bad "prog"

let rec tree_p = function L (A n :: ch) -> MT (nm_of n, List.map tree_p ch) | _ -> bad "message tree"
let rec tree_s = function MT (n, ch) -> "(" ^ nm_s n ^ cat (List.map tree_s ch) ^ ")"
let names_p (text : string) : amnames =
  match parse text with
  | [ L [ A "names"; g; v; L (A "path" :: ps); L (A "tree" :: ts); L (A "fields" :: fs); L (A "oneofs" :: os) ] ] ->
    { mn_go = name_p g; mn_var = name_p v; mn_path = List.map name_p ps; mn_tops = List.map tree_p ts;
      mn_fields = List.map (function
          | L [ A "fn"; p; j; g; w; e; et; A loc; A first ] ->
            { fn_proto = name_p p; fn_json = name_p j; fn_go = name_p g; fn_wrap = name_p w; fn_enum = name_p e; fn_enum_tag = name_p et;
              fn_enum_local = (match loc with "local" -> true | "foreign" -> false | _ -> bad "local|foreign"); fn_enum_first = z_of_int (int_of_string first) }
          | _ -> bad "field names") fs;
      mn_oneofs = List.map (function L [ A "on"; p; g; i ] -> { on_proto = name_p p; on_go = name_p g; on_iface = name_p i } | _ -> bad "oneof names") os }
  | _ -> bad "names"
let names_s (n : amnames) : string =
  "(names " ^ nm_s n.mn_go ^ " " ^ nm_s n.mn_var ^ " (path" ^ cat (List.map nm_s n.mn_path) ^ ") (tree" ^ cat (List.map tree_s n.mn_tops) ^ ") (fields"
  ^ cat (List.map (fun f -> "(fn " ^ nm_s f.fn_proto ^ " " ^ nm_s f.fn_json ^ " " ^ nm_s f.fn_go ^ " " ^ nm_s f.fn_wrap ^ " " ^ nm_s f.fn_enum ^ " "
                             ^ nm_s f.fn_enum_tag ^ " " ^ (if f.fn_enum_local then "local" else "foreign") ^ " " ^ z_s f.fn_enum_first ^ ")") n.mn_fields)
  ^ ") (oneofs" ^ cat (List.map (fun o -> "(on " ^ nm_s o.on_proto ^ " " ^ nm_s o.on_go ^ " " ^ nm_s o.on_iface ^ ")") n.mn_oneofs) ^ "))"

(* ---- rendering of what a getter returned: the runner prints the same for the running code ---- *)
let fuel = nat_of_int 64
let elem_val sch (h : heap) (e : elem) : val0 = match e with EScalar v -> v | EPtr q -> render sch fuel h q
let apival_s sch (h : heap) (v : apival) : string =
  match v with
  | AVScalar x -> string_of_val x
  | AVMsg (_, p) -> string_of_val (render sch fuel h p)
  | AVList (_, None) | AVMap (_, _, None) -> "n"
  | AVList (_, Some l) -> string_of_val (VList (List.map (elem_val sch h) l))
  | AVMap (_, _, Some m) -> string_of_val (VMap (List.map (fun (k, e) -> (k, elem_val sch h e)) m))
  | AVOneof None -> "nil"
  | AVOneof (Some (j, e)) -> "(w " ^ ns j ^ " " ^ string_of_val (elem_val sch h e) ^ ")"
  | AVUnit -> "unit"
  | AVPanic -> "panic"

let law = Driver.law
let ctx sid mid = (Ctx.schema sid, nat_of_int (int_of_string mid))
let names_of sid mid = try Hashtbl.find names_tbl (sid, mid) with Not_found -> failwith "no naming context for this message"
let canon_tbl : (string * string, aprog) Hashtbl.t = Hashtbl.create 256
let canon_of sid mid =
  match Hashtbl.find_opt canon_tbl (sid, mid) with
  | Some p -> p
  | None -> let sch, m = ctx sid mid in let p = canon_prog sch m (names_of sid mid) in Hashtbl.replace canon_tbl (sid, mid) p; p
let nth_s f l k = match List.nth_opt l (int_of_string k) with Some x -> f x | None -> "-"

let apiprog_eval (fn : string) (args : string list) : string =
  match fn, args with
  | "APINAMES", [ sid; mid; "check" ] ->
    let sch, m = ctx sid mid in
    if api_names_okb sch m (names_of sid mid) then "ok" else "names-not-ok"
  | "APINAMES", [ sid; mid; text ] ->
    let n = names_p text in
    Hashtbl.replace names_tbl (sid, mid) n;
    if names_s n <> text then "reprinted:" ^ names_s n else "ok"
  | "APIPROG", [ sid; mid; "structname" ] -> nm_s (canon_of sid mid).ap_struct.as_name
  | "APIPROG", [ sid; mid; "fields"; "len" ] -> string_of_int (List.length (canon_of sid mid).ap_struct.as_fields)
  | "APIPROG", [ sid; mid; "field"; k ] -> nth_s gofield_s (canon_of sid mid).ap_struct.as_fields k
  | "APIPROG", [ sid; mid; "oneofdecl"; o ] -> nth_s oneofdecl_s (canon_of sid mid).ap_struct.as_oneofs o
  | "APIPROG", [ sid; mid; "getter"; i ] -> nth_s getter_s (canon_of sid mid).ap_getters i
  | "APIPROG", [ sid; mid; "ogetter"; o ] -> nth_s getter_s (canon_of sid mid).ap_ogetters o
  | "APIPROG", [ sid; mid; "reset" ] -> reset_s (canon_of sid mid).ap_reset
  | "APIDEF", [ sid; mid; text ] ->
    let p = prog_p text in
    Hashtbl.replace prog_tbl (sid, mid) p;
    if prog_s p <> text then "reprinted:" ^ prog_s p else "ok"
  | "APIPROG", [ sid; mid; "all"; "eqb" ] ->
    let sch, m = ctx sid mid in
    let canon = canon_of sid mid in
    (match Hashtbl.find_opt prog_tbl (sid, mid) with
     | None -> "no-translated-declarations"
     | Some p ->
       let same = aprog_eqb p canon in
       (* the model's decidable equality and the comparison of the printed texts are the same judgement *)
       law "apiprog.aprog_eqb_is_text_equality" (same = (prog_s p = prog_s canon));
       (* struct_layout_field / _oneof / _count statements on this message type *)
       law "C19.struct_layout" (api_layout_law sch m (names_of sid mid));
       if same then "same" else "different")
  | "APIRUN", [ sid; mid; v ] ->
    let sch, m = ctx sid mid in
    let nm = names_of sid mid in
    let prog = (match Hashtbl.find_opt prog_tbl (sid, mid) with Some p -> p | None -> failwith "no translated declarations for this message") in
    let h, p = if v = "nil" then ([], None) else load sch fuel [] m (Sexp.val_of_string v) in
    let nf = List.length (rp_fields sch m) and no = int_of_nat (rp_noneofs sch m) in
    let res r = match r with Some gv -> apival_s sch h gv | None -> "stuck" in
    let gs = List.init nf (fun f ->
        (* getter_api_stmt / getter_nil_api_stmt on this heap, receiver and field (canonical getters) *)
        law "C19.getter_api_correct" (api_getter_law sch m nm h p (nat_of_int f));
        res (run_getter sch prog h m p (nat_of_int f))) in
    let os = List.init no (fun o ->
        law "C19.ogetter_api_correct" (api_ogetter_law sch m nm h p (nat_of_int o));
        res (run_ogetter sch prog h m p (nat_of_int o))) in
    (* reset_api_stmt, reset_nil, reset_keeps_ok, reset_empties *)
    law "C19.reset_api_correct" (api_reset_law sch m nm h p);
    let r = (match run_reset sch prog.ap_reset h m p with
        | Some (h', AVUnit) -> string_of_val (render sch fuel h' p)
        | Some (_, AVPanic) -> "panic"
        | Some _ -> "?"
        | None -> "stuck") in
    String.concat ";" gs ^ "|" ^ String.concat ";" os ^ "|" ^ r
  | _ -> raise Not_found

let () = Driver.register apiprog_eval
