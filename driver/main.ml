(* entry point: every evaluator module listed before this one in ORDER has registered itself *)
open Driver
let () =
  let files = ref [] in
  let i = ref 1 in
  while !i < Array.length Sys.argv do
    (if Sys.argv.(!i) = "--shard" && !i + 1 < Array.length Sys.argv then begin
       (match String.split_on_char '/' Sys.argv.(!i + 1) with
        | [ a; b ] -> shard := (int_of_string a, int_of_string b)
        | _ -> prerr_endline "bad --shard"; exit 2);
       incr i
     end else files := Sys.argv.(!i) :: !files);
    incr i
  done;
  if !files = [] then (prerr_endline "usage: driver [--shard i/n] <casefile>..."; exit 2);
  List.iter run_file (List.rev !files)
