(* entry point: every evaluator module listed before this one in ORDER has registered itself *)
open Driver
let () =
  if Array.length Sys.argv < 2 then (prerr_endline "usage: driver <casefile>..."; exit 2);
  for i = 1 to Array.length Sys.argv - 1 do run_file Sys.argv.(i) done
