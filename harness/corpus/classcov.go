package corpus

import (
	"fmt"

	"google.golang.org/protobuf/types/descriptorpb"
)

// ClassCov ("vc"): the field and message classes of the templates' classification (harness/cmd/runner/classcov.go, task T19) that no
// other fixed set contains — so that the per-run comparison of the generated code with the canonical programs sees EVERY class:
//   Mk<key>   every map<key kind, value kind> combination missing from vm (12 key kinds x 16 scalar kinds + message in all)
//   Tw        key constants of 1..5 bytes for every shape (singular, oneof member, repeated packed, repeated unpacked, map)
//   Xp        message and enum types of ANOTHER Go package (vm) in every position: singular, oneof member, repeated (packed and
//             unpacked enums), map value; a nested message / enum of the other package
//   Oa        oneofs declared back to back, a oneof with a single member, a oneof first and a oneof last
// The file lives in its own Go package and imports vm/matrix.proto.
func ClassCov() Set {
	pkg := "vc"
	mx := Matrix()
	// the map classes vm already has (read from its descriptor: map entries are nested types with map_entry set)
	have := map[[2]T]bool{}
	var walk func(m *descriptorpb.DescriptorProto)
	walk = func(m *descriptorpb.DescriptorProto) {
		for _, n := range m.NestedType {
			if n.GetOptions().GetMapEntry() && len(n.Field) == 2 {
				have[[2]T{n.Field[0].GetType(), n.Field[1].GetType()}] = true
			}
			walk(n)
		}
	}
	for _, m := range mx.Files[0].MessageType {
		walk(m)
	}
	var msgs []M
	msgs = append(msgs, M{Name: "Cl", Fields: []F{{Name: "a", Num: 1, Kind: Int32}, {Name: "s", Num: 2, Kind: String}}})
	typeName := func(k T) string {
		switch k {
		case Enum:
			return ".vc.Ce"
		case Message:
			return ".vc.Cl"
		}
		return ""
	}
	vals := append(append([]T{}, ScalarKinds...), Message)
	for _, kk := range KeyKinds {
		m := M{Name: "Mk" + camel(KindName(kk))}
		for _, vk := range vals {
			if have[[2]T{kk, vk}] {
				continue
			}
			m.Fields = append(m.Fields, F{Name: fmt.Sprintf("m_%s_%s", KindName(kk), KindName(vk)), Num: int32(len(m.Fields) + 1), Kind: vk, TypeName: typeName(vk), Map: true, KeyKind: kk})
		}
		if len(m.Fields) > 0 {
			msgs = append(msgs, m)
		}
	}
	// Tw: shape x key width. Field numbers at the low end of every width: 1.., 16.., 2048.., 262144.., 33554432..
	base := []int32{1, 16, 2048, 262144, 33554432}
	tw := M{Name: "Tw"}
	sing := []T{Int32, String, Double, Fixed32, Bool}
	memb := []T{Uint64, Bytes, Float, Sfixed64, Message}
	pack := []T{Sint32, Fixed64, Bool, Enum, Double}
	unpk := []T{String, Int64, Message, Sfixed32, Uint32}
	mkey := []T{String, Int32, Bool, Fixed64, Sint64}
	mval := []T{Int32, String, Message, Bytes, Double}
	for w := 0; w < 5; w++ {
		tw.Fields = append(tw.Fields, F{Name: fmt.Sprintf("s%d", w+1), Num: base[w], Kind: sing[w]})
	}
	for w := 0; w < 5; w++ {
		tw.Fields = append(tw.Fields, F{Name: fmt.Sprintf("o%d", w+1), Num: base[w] + 1, Kind: memb[w], TypeName: typeName(memb[w]), Oneof: "tw"})
	}
	for w := 0; w < 5; w++ {
		tw.Fields = append(tw.Fields, F{Name: fmt.Sprintf("p%d", w+1), Num: base[w] + 2, Kind: pack[w], TypeName: typeName(pack[w]), Rep: true})
	}
	for w := 0; w < 5; w++ {
		k := unpk[w]
		tw.Fields = append(tw.Fields, F{Name: fmt.Sprintf("u%d", w+1), Num: base[w] + 3, Kind: k, TypeName: typeName(k), Rep: true, Unpacked: k != String && k != Message})
	}
	for w := 0; w < 5; w++ {
		tw.Fields = append(tw.Fields, F{Name: fmt.Sprintf("m%d", w+1), Num: base[w] + 4, Kind: mval[w], TypeName: typeName(mval[w]), Map: true, KeyKind: mkey[w]})
	}
	msgs = append(msgs, tw)
	// Xp: types of the other Go package
	msgs = append(msgs, M{Name: "Xp", Fields: []F{
		{Name: "x_msg", Num: 1, Kind: Message, TypeName: ".vm.Leaf"},
		{Name: "x_en", Num: 2, Kind: Enum, TypeName: ".vm.En"},
		{Name: "xr_msg", Num: 3, Kind: Message, TypeName: ".vm.Leaf", Rep: true},
		{Name: "xr_en", Num: 4, Kind: Enum, TypeName: ".vm.En", Rep: true},
		{Name: "xu_en", Num: 5, Kind: Enum, TypeName: ".vm.En", Rep: true, Unpacked: true},
		{Name: "xm_msg", Num: 6, Kind: Message, TypeName: ".vm.Leaf", Map: true, KeyKind: String},
		{Name: "xm_en", Num: 7, Kind: Enum, TypeName: ".vm.En", Map: true, KeyKind: Int32},
		{Name: "xo_msg", Num: 8, Kind: Message, TypeName: ".vm.Leaf", Oneof: "xo"},
		{Name: "xo_en", Num: 9, Kind: Enum, TypeName: ".vm.En", Oneof: "xo"},
		{Name: "xo_s", Num: 10, Kind: String, Oneof: "xo"},
		{Name: "xn_en", Num: 11, Kind: Enum, TypeName: ".vm.Eo.Top"},
		{Name: "xn_msg", Num: 12, Kind: Message, TypeName: ".vm.Rd.In"},
	}})
	// Oa: adjacent oneofs, single-member oneofs, a oneof first and a oneof last
	msgs = append(msgs, M{Name: "Oa", Fields: []F{
		{Name: "a1", Num: 1, Kind: Int32, Oneof: "a"},
		{Name: "b1", Num: 2, Kind: String, Oneof: "b"},
		{Name: "b2", Num: 3, Kind: Message, TypeName: ".vc.Cl", Oneof: "b"},
		{Name: "p", Num: 4, Kind: Int64},
		{Name: "c1", Num: 5, Kind: Bool, Oneof: "c"},
	}})
	f := File{Path: "vc/classcov.proto", Package: pkg, GoPackage: GenBase + "vc", Msgs: msgs, Deps: []string{"vm/matrix.proto"},
		Enums: []E{{Name: "Ce", Values: []EV{{"CE_ZERO", 0}, {"CE_ONE", 1}, {"CE_NEG", -2}}}}}
	return Set{Name: "vc", Files: []*descriptorpb.FileDescriptorProto{mx.Files[0], f.Build()}, Generate: []string{"vc/classcov.proto"}, Param: "features=protoc+fast"}
}
