package corpus

// Random valid proto3 schema sets: 1-3 files in 1-2 Go packages, nested declarations, every kind and shape, oneofs, maps,
// enums, cross-file references, unpopular-but-legal names. Patterns of the known findings (a oneof named like a
// protoreflect.Message method, A{B_c} next to A.B{c}, `type` next to `type_`) are not generated here: they have their own
// named adversarial schemas, so that every failure of a random schema is a new finding.

import (
	"fmt"
	"sort"

	"google.golang.org/protobuf/proto"
	"google.golang.org/protobuf/types/descriptorpb"
)

// Rng is the same splitmix64 stream as the runner's (every random choice derives from VERIF_SEED)
type Rng struct{ s uint64 }

func (r *Rng) U64() uint64 {
	r.s += 0x9e3779b97f4a7c15
	z := r.s
	z = (z ^ (z >> 30)) * 0xbf58476d1ce4e5b9
	z = (z ^ (z >> 27)) * 0x94d049bb133111eb
	return z ^ (z >> 31)
}
func (r *Rng) Intn(n int) int {
	if n <= 0 {
		return 0
	}
	return int(r.U64() % uint64(n))
}
func NewRng(seed uint64, stream string) *Rng {
	h := seed*0x9e3779b97f4a7c15 + 0x1234567
	for _, c := range []byte(stream) {
		h = (h ^ uint64(c)) * 0x100000001b3
	}
	return &Rng{s: h}
}

var rndFieldNames = append(append(append([]string{"a", "b", "value", "key", "id", "name", "data", "count", "items", "flag", "ratio", "amount", "owner", "addr", "height", "hash", "foo_bar", "foo_bar_baz", "f1", "f_2", "camelCase", "UPPER"},
	ReflectMethodFieldNames...), GoKeywords...), "x", "l", "n", "i", "m", "options", "input", "dAtA2", "iNdEx", "size", "marshal", "unmarshal", "err", "ok", "len", "string", "int", "nil", "true", "false", "fd", "md", "wire", "list", "keys", "sort", "fmt", "math", "runtime", "proto", "state", "size_cache", "unknown_fields", "reset", "proto_message")

type rsGen struct {
	r     *Rng
	pkg   string
	enums []string // fully-qualified enum names available so far (this and earlier files of the set)
	msgs  []string // fully-qualified message names available so far
}

func (g *rsGen) kind() T {
	return ScalarKinds[g.r.Intn(len(ScalarKinds))]
}

func (g *rsGen) fields(self string, n int) []F {
	var fs []F
	used := map[string]bool{}
	usedNum := map[int32]bool{}
	oneofs := []string{"choice", "sum", "kind_of", "alt"}
	var curOneof string
	oneofLeft := 0
	nOneof := 0
	for i := 0; i < n; i++ {
		name := rndFieldNames[g.r.Intn(len(rndFieldNames))]
		for used[name] || used[name+"_"] {
			name = fmt.Sprintf("%s%d", name, g.r.Intn(100))
		}
		used[name] = true
		var num int32
		for num == 0 || usedNum[num] || (num >= 19000 && num <= 19999) {
			switch g.r.Intn(6) {
			case 0:
				num = int32(1 + g.r.Intn(15))
			case 1:
				num = int32(16 + g.r.Intn(2032))
			case 2:
				num = TagNums[g.r.Intn(len(TagNums))]
			default:
				num = int32(1 + g.r.Intn(60))
			}
		}
		usedNum[num] = true
		f := F{Name: name, Num: num, Kind: g.kind()}
		if g.r.Intn(4) == 0 && len(g.msgs) > 0 {
			f.Kind = Message
			f.TypeName = g.msgs[g.r.Intn(len(g.msgs))]
			if g.r.Intn(3) == 0 && self != "" {
				f.TypeName = self
			}
		}
		if f.Kind == Enum {
			if len(g.enums) == 0 {
				f.Kind = Int32
			} else {
				f.TypeName = g.enums[g.r.Intn(len(g.enums))]
			}
		}
		if oneofLeft > 0 {
			f.Oneof = curOneof
			oneofLeft--
		} else {
			switch g.r.Intn(7) {
			case 0, 1:
				f.Rep = true
				if f.Kind != String && f.Kind != Bytes && f.Kind != Message && g.r.Intn(3) == 0 {
					f.Unpacked = true
				}
			case 2:
				f.Map = true
				f.KeyKind = KeyKinds[g.r.Intn(len(KeyKinds))]
			case 3:
				if nOneof < len(oneofs) && !used[oneofs[nOneof]] {
					curOneof = oneofs[nOneof]
					nOneof++
					f.Oneof = curOneof
					oneofLeft = g.r.Intn(4)
				}
			}
		}
		fs = append(fs, f)
	}
	return fs
}

func (g *rsGen) enum(name string, tag string) E {
	e := E{Name: name}
	n := 1 + g.r.Intn(5)
	nums := map[int32]bool{0: true}
	e.Values = append(e.Values, EV{Name: tag + "_ZERO", Num: 0})
	for i := 1; i < n; i++ {
		v := int32(g.r.Intn(2000)) - 1000
		if g.r.Intn(8) == 0 {
			v = []int32{2147483647, -2147483648}[g.r.Intn(2)]
		}
		if nums[v] {
			e.Alias = true
		}
		nums[v] = true
		e.Values = append(e.Values, EV{Name: fmt.Sprintf("%s_V%d", tag, i), Num: v})
	}
	return e
}

func (g *rsGen) message(name, scope string, depth int, tag string) M {
	full := scope + "." + name
	m := M{Name: name}
	// nested declarations first so that fields can refer to them
	if depth < 3 {
		for i, n := 0, g.r.Intn(3); i < n; i++ {
			if g.r.Intn(3) == 0 {
				en := fmt.Sprintf("E%d", i)
				m.Enums = append(m.Enums, g.enum(en, fmt.Sprintf("%s_%s_E%d", tag, name, i)))
				g.enums = append(g.enums, full+"."+en)
			} else {
				nn := fmt.Sprintf("N%d", i)
				m.Nested = append(m.Nested, g.message(nn, full, depth+1, tag+"_"+name))
			}
		}
	}
	nf := g.r.Intn(9)
	if g.r.Intn(10) == 0 {
		nf = 0
	}
	m.Fields = g.fields(full, nf)
	g.msgs = append(g.msgs, full)
	return m
}

// RandomSet builds the i-th random schema set of a seed. base is the Go import path prefix of the emitted packages
// (GenCheckBase for the generator checks, GenBase for sets linked into the runner); onePkg forces a single Go package.
func RandomSet(seed uint64, i int, prefix, base string, onePkg bool) Set {
	r := NewRng(seed, fmt.Sprintf("gen/random/%d", i))
	name := fmt.Sprintf("%s_s%d_%d", prefix, seed, i)
	nFiles := 1 + r.Intn(3)
	g := &rsGen{r: r}
	var fds []*descriptorpb.FileDescriptorProto
	var gen []string
	samePkg := r.Intn(2) == 0 || onePkg
	for k := 0; k < nFiles; k++ {
		pkg := fmt.Sprintf("rnd.%s.p%d", name, k)
		if samePkg {
			pkg = "rnd." + name // one proto package, one Go package: declaration names carry the file index
		}
		gopkg := fmt.Sprintf("%s%s/p%d", base, name, k)
		if samePkg {
			gopkg = base + name
		}
		f := File{Path: fmt.Sprintf("rnd/%s_%d.proto", name, k), Package: pkg, GoPackage: gopkg}
		for j := 0; j < k; j++ {
			f.Deps = append(f.Deps, fds[j].GetName())
		}
		scope := "." + pkg
		tag := fmt.Sprintf("F%d", k)
		for e, n := 0, r.Intn(3); e < n; e++ {
			en := fmt.Sprintf("Enum%d_%d", k, e)
			f.Enums = append(f.Enums, g.enum(en, fmt.Sprintf("%s_ENUM%d", tag, e)))
			g.enums = append(g.enums, scope+"."+en)
		}
		for m, n := 0, 1+r.Intn(5); m < n; m++ {
			f.Msgs = append(f.Msgs, g.message(fmt.Sprintf("Msg%d_%d", k, m), scope, 0, tag))
		}
		fds = append(fds, f.Build())
		gen = append(gen, f.Path)
	}
	return Set{Name: name, Files: fds, Generate: gen, Param: "features=protoc+fast"}
}

// ReversePaths returns a copy of the set in which the paths of the requested files are exchanged end for end in sorted order
// (the first in lexical order gets the last one's path, ...): contents, packages and the import graph stay what they were, but a
// file that sorted after the files it imports now sorts before them. Go initialises the files of a package in file-name order,
// so this is the other half of the input space for sets generated into one Go package.
func ReversePaths(s Set) Set {
	names := append([]string{}, s.Generate...)
	sort.Strings(names)
	to := map[string]string{}
	for i, n := range names {
		to[n] = names[len(names)-1-i]
	}
	ren := func(n string) string {
		if m, ok := to[n]; ok {
			return m
		}
		return n
	}
	out := Set{Name: s.Name, Param: s.Param, Note: s.Note}
	for _, f := range s.Files {
		c := proto.Clone(f).(*descriptorpb.FileDescriptorProto)
		c.Name = proto.String(ren(f.GetName()))
		for i, d := range c.Dependency {
			c.Dependency[i] = ren(d)
		}
		out.Files = append(out.Files, c)
	}
	for _, g := range s.Generate {
		out.Generate = append(out.Generate, ren(g))
	}
	return out
}
