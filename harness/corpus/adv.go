package corpus

// Adversarial-but-legal proto3 schemas for the generator properties (C12/C13). Every schema lives in its
// own request (own proto package, own Go package) so one failing output does not hide the others.
// The stable name of a schema is the known-findings key "gen/<name>".

import (
	"fmt"
	"strings"

	"google.golang.org/protobuf/proto"
	"google.golang.org/protobuf/types/descriptorpb"

	_ "google.golang.org/protobuf/types/known/emptypb"
)

// GenCheckBase is the module path of the scratch Go module the emitted packages are compiled in.
const GenCheckBase = "gencheck.local/"

// Expectations of a generator request.
const (
	ExpFiles   = "files"   // in the supported subset: must generate, parse, compile, initialise and pass the smoke test
	ExpNoFiles = "nofiles" // nothing to generate (proto2 / nothing requested): empty response without error
	ExpFilesNoCompile = "files-nocompile" // must generate, parse and be gofmt-stable; not compiled (an imported package is deliberately not generated)
	ExpNoCrash = "nocrash" // outside the supported subset (proto3 optional ...): any well-formed answer, no crash
)

type AdvSet struct {
	Set
	Expect string
	// Params overrides the parameter strings tried (default: the standard list of the engine)
	Why string
}

var GoKeywords = []string{"break", "default", "func", "interface", "select", "case", "defer", "go", "map", "struct", "chan", "else", "goto",
	"package", "switch", "const", "fallthrough", "if", "range", "type", "continue", "for", "import", "return", "var"}

// the 16 methods of protoreflect.Message, as proto field names
var ReflectMethodFieldNames = []string{"descriptor", "type", "new", "interface", "range", "has", "clear", "get", "set", "mutable", "new_field",
	"which_oneof", "get_unknown", "set_unknown", "is_valid", "proto_methods"}

// identifiers the generated method bodies use as locals / parameters / struct members
var GeneratedLocals = []string{"x", "l", "n", "i", "m", "b", "v", "k", "e", "f", "fd", "value", "options", "input", "output", "dAtA", "iNdEx", "wire", "size",
	"marshal", "unmarshal", "err", "ok", "len", "cap", "nil", "true", "false", "string", "int", "iota", "append", "copy", "make", "new_", "panic",
	"preIndex", "postIndex", "msglen", "byteLen", "stringLen", "intStringLen", "entryPreIndex", "mapkey", "mapvalue", "mapmsglen", "packedLen", "elementCount",
	"unknown_fields", "size_cache", "state", "fieldNum", "wireType", "skippy", "list", "cv", "clv", "cmv", "concreteValue",
	"keys", "sort", "fmt", "math", "io", "runtime", "protoreflect", "protoiface", "protoimpl", "proto", "descriptor_", "sync", "reflect", "binary", "bits", "mapsize",
	"baseI", "total", "pksize", "j", "varint", "key", "val", "keyA", "keyB", "MaRsHaLmAp", "SiZeMaP", "sovA", "sozA", "encodeVarint", "skip"}

func advFile(name string, msgs []M, enums []E) *descriptorpb.FileDescriptorProto {
	f := File{Path: "adv/" + name + ".proto", Package: "adv." + name, GoPackage: GenCheckBase + name, Msgs: msgs, Enums: enums}
	return f.Build()
}

func adv(name, why string, msgs []M, enums []E) AdvSet {
	fd := advFile(name, msgs, enums)
	return AdvSet{Set: Set{Name: name, Files: []*descriptorpb.FileDescriptorProto{fd}, Generate: []string{fd.GetName()}, Param: "features=protoc+fast"}, Expect: ExpFiles, Why: why}
}

func advFD(name, why, expect string, gen []string, fds ...*descriptorpb.FileDescriptorProto) AdvSet {
	return AdvSet{Set: Set{Name: name, Files: fds, Generate: gen, Param: "features=protoc+fast"}, Expect: expect, Why: why}
}

// shapesOf: the same field name in every shape (singular scalar, message, repeated, map, oneof member)
func fieldsNamed(names []string, shape string, pkg string) []F {
	var fs []F
	for i, n := range names {
		f := F{Name: n, Num: int32(i + 1), Kind: []T{String, Int64, Bytes, Bool, Double, Sint32, Fixed64, Uint32}[i%8]}
		switch shape {
		case "rep":
			f.Rep = true
		case "map":
			f.Map, f.KeyKind = true, []T{String, Int32, Uint64, Bool, Sfixed32}[i%5]
		case "msg":
			f.Kind, f.TypeName = Message, "."+pkg+".Leaf"
		case "repmsg":
			f.Kind, f.TypeName, f.Rep = Message, "."+pkg+".Leaf", true
		case "oneof":
			f.Oneof = "choice"
		}
		fs = append(fs, f)
	}
	return fs
}

func leaf() M {
	return M{Name: "Leaf", Fields: []F{{Name: "s", Num: 1, Kind: String}, {Name: "n", Num: 2, Kind: Int64}}}
}

func namedIn(name, why string, names []string) AdvSet {
	pkg := "adv." + name
	return adv(name, why, []M{
		{Name: "Sing", Fields: fieldsNamed(names, "sing", pkg)},
		{Name: "Rep", Fields: fieldsNamed(names, "rep", pkg)},
		{Name: "Map", Fields: fieldsNamed(names, "map", pkg)},
		{Name: "Msg", Fields: fieldsNamed(names, "msg", pkg)},
		{Name: "RepMsg", Fields: fieldsNamed(names, "repmsg", pkg)},
		{Name: "One", Fields: fieldsNamed(names, "oneof", pkg)},
		leaf(),
	}, nil)
}

func allKindFields(prefix string, start int32, pkg string, mod func(*F)) []F {
	var fs []F
	n := start
	for _, k := range ScalarKinds {
		f := F{Name: prefix + KindName(k), Num: n, Kind: k}
		if k == Enum {
			f.TypeName = "." + pkg + ".En"
		}
		if mod != nil {
			mod(&f)
		}
		fs = append(fs, f)
		n++
	}
	f := F{Name: prefix + "msg", Num: n, Kind: Message, TypeName: "." + pkg + ".Leaf"}
	if mod != nil {
		mod(&f)
	}
	return append(fs, f)
}

// markOptional turns the named plain fields into proto3 `optional` fields (synthetic oneofs after the real ones)
func markOptional(md *descriptorpb.DescriptorProto) {
	for _, f := range md.Field {
		if f.OneofIndex != nil || f.GetLabel() == descriptorpb.FieldDescriptorProto_LABEL_REPEATED {
			continue
		}
		f.Proto3Optional = proto.Bool(true)
		f.OneofIndex = proto.Int32(int32(len(md.OneofDecl)))
		md.OneofDecl = append(md.OneofDecl, &descriptorpb.OneofDescriptorProto{Name: proto.String("_" + f.GetName())})
	}
}

func svc(name string, methods ...[3]string) *descriptorpb.ServiceDescriptorProto {
	s := &descriptorpb.ServiceDescriptorProto{Name: proto.String(name)}
	for _, m := range methods {
		md := &descriptorpb.MethodDescriptorProto{Name: proto.String(m[0]), InputType: proto.String(m[1]), OutputType: proto.String(m[2])}
		if strings.HasPrefix(m[0], "Stream") {
			md.ClientStreaming, md.ServerStreaming = proto.Bool(true), proto.Bool(true)
		}
		s.Method = append(s.Method, md)
	}
	return s
}

// Adversarial returns the fixed list of adversarial requests.
func Adversarial() []AdvSet {
	var out []AdvSet
	add := func(a AdvSet) { out = append(out, a) }

	// ---- names ---------------------------------------------------------------------------------
	add(namedIn("adv_field_reflect_methods", "fields named like the 16 protoreflect.Message methods (rewriteMessageField)", ReflectMethodFieldNames))
	add(namedIn("adv_field_go_keywords", "fields named like Go keywords", GoKeywords))
	add(namedIn("adv_field_generated_locals", "fields named like locals, parameters and imports of the generated code", GeneratedLocals))
	add(namedIn("adv_field_generated_idents", "fields named like derived identifiers", []string{"md_A", "fd_A_b", "fd_Sing_md_A", "fastReflection_A", "fastReflection_Sing", "_Rep_1_list", "_Map_1_map",
		"file_adv_adv_field_generated_idents_proto_init", "File_adv_adv_field_generated_idents_proto", "slowProtoReflect", "proto_reflect_", "reset_", "string_", "proto_message_", "messageType", "fastReflection_Sing_messageType"}))
	add(namedIn("adv_field_underscores_case", "unusual but legal field spellings", []string{"_lead", "trail_", "dbl__under", "Upper", "ALLCAPS", "mixedCase", "f1", "f_2", "_x3", "a_b_c_d", "x_", "get_foo", "foo", "get_get_foo", "GetBar", "bar"}))
	add(adv("adv_fd_ident_collision", "D9: fd_<Msg>_<field> is ambiguous: A{B_c} next to A.B{c}", []M{{Name: "A",
		Fields: []F{{Name: "B_c", Num: 1, Kind: String}, {Name: "b", Num: 2, Kind: Message, TypeName: ".adv.adv_fd_ident_collision.A.B"}},
		Nested: []M{{Name: "B", Fields: []F{{Name: "c", Num: 1, Kind: Int32}}}}}}, nil))
	add(adv("adv_md_ident_nested_vs_flat", "md_<GoName>: nested A.B_C next to A.B.C would collide already in protoc-gen-go; here the names differ only through camel-casing", []M{
		{Name: "A", Fields: []F{{Name: "x", Num: 1, Kind: Int32}}, Nested: []M{{Name: "B", Fields: []F{{Name: "x", Num: 1, Kind: Int32}}, Nested: []M{{Name: "C", Fields: []F{{Name: "x", Num: 1, Kind: Int32}}}}}}},
		{Name: "AB", Fields: []F{{Name: "x", Num: 1, Kind: Int32}}},
		{Name: "a_bc", Fields: []F{{Name: "x", Num: 1, Kind: Int32}, {Name: "ys", Num: 2, Kind: Int32, Rep: true}}},
		{Name: "A_1", Fields: []F{{Name: "ys", Num: 2, Kind: Int32, Rep: true}, {Name: "zs", Num: 12, Kind: Int32, Rep: true}, {Name: "m", Num: 3, Kind: Int32, Map: true, KeyKind: String}}},
		{Name: "A_", Fields: []F{{Name: "ys", Num: 12, Kind: Int32, Rep: true}, {Name: "zs", Num: 1, Kind: Int32, Rep: true}}},
	}, nil))
	for _, n := range ReflectMethodFieldNames {
		add(adv("adv_oneof_named_"+n, "D8 (fixed): a oneof named like a protoreflect.Message method; the member is renamed like fields are", []M{{Name: "A", Fields: []F{
			{Name: "a", Num: 1, Kind: String, Oneof: n}, {Name: "b", Num: 2, Kind: Int32, Oneof: n}, {Name: "c", Num: 3, Kind: Bool}}}}, nil))
	}
	add(adv("adv_oneof_named_keywords", "oneofs named like Go keywords and generated locals", []M{{Name: "A", Fields: []F{
		{Name: "a", Num: 1, Kind: String, Oneof: "func"}, {Name: "b", Num: 2, Kind: Int32, Oneof: "func"},
		{Name: "c", Num: 3, Kind: String, Oneof: "x"}, {Name: "d", Num: 4, Kind: Int32, Oneof: "x"},
		{Name: "e", Num: 5, Kind: String, Oneof: "options"}, {Name: "f", Num: 6, Kind: Int32, Oneof: "options"},
		{Name: "g", Num: 7, Kind: String, Oneof: "sum"}, {Name: "h", Num: 8, Kind: Message, TypeName: ".adv.adv_oneof_named_keywords.A", Oneof: "sum"}}}}, nil))
	add(adv("adv_rewrite_makes_getter_clash", "field `has` becomes Has_ with getter GetHas_; a field `get_has_` has the Go name GetHas_", []M{{Name: "A", Fields: []F{
		{Name: "has", Num: 1, Kind: String}, {Name: "get_has_", Num: 2, Kind: String}}}}, nil))
	add(adv("adv_rewrite_makes_oneof_member_clash", "a oneof named `type` next to a field `type_`: renaming the oneof to Type_ (as fields are) would duplicate the member", []M{{Name: "A", Fields: []F{
		{Name: "a", Num: 1, Kind: String, Oneof: "type"}, {Name: "b", Num: 2, Kind: Int32, Oneof: "type"}, {Name: "type_", Num: 3, Kind: String}}}}, nil))
	add(adv("adv_rewrite_makes_oneof_getter_clash", "a oneof named `has` next to a field `get_has_`: renaming the oneof to Has_ gives it the getter GetHas_ next to member GetHas_", []M{{Name: "A", Fields: []F{
		{Name: "a", Num: 1, Kind: String, Oneof: "has"}, {Name: "b", Num: 2, Kind: Int32, Oneof: "has"}, {Name: "get_has_", Num: 3, Kind: String}}}}, nil))
	add(adv("adv_oneof_member_vs_nested_name", "oneof wrapper type A_B next to nested message A.B (protogen appends _)", []M{{Name: "A",
		Fields: []F{{Name: "b", Num: 1, Kind: String, Oneof: "o"}, {Name: "c", Num: 2, Kind: Message, TypeName: ".adv.adv_oneof_member_vs_nested_name.A.B", Oneof: "o"}},
		Nested: []M{{Name: "B", Fields: []F{{Name: "x", Num: 1, Kind: Int32}}}}}}, nil))
	add(adv("adv_messages_named_like_builtins", "messages and enums named like Go builtins and generated identifiers", []M{
		{Name: "string", Fields: []F{{Name: "error", Num: 1, Kind: Message, TypeName: ".adv.adv_messages_named_like_builtins.error"}}},
		{Name: "error", Fields: []F{{Name: "int", Num: 1, Kind: Message, TypeName: ".adv.adv_messages_named_like_builtins.int"}}},
		{Name: "int", Fields: []F{{Name: "v", Num: 1, Kind: Int32}}},
		{Name: "bool"}, {Name: "byte"}, {Name: "len"}, {Name: "nil"}, {Name: "true"}, {Name: "init"}, {Name: "main"}, {Name: "any"}, {Name: "uint64"}, {Name: "func"},
		{Name: "fastReflection_A"}, {Name: "md_A"}, {Name: "Message"}, {Name: "ProtoReflect"}, {Name: "Descriptor"}, {Name: "Type", Nested: []M{{Name: "Type", Nested: []M{{Name: "Type"}}}}},
		{Name: "List", Fields: []F{{Name: "list", Num: 1, Kind: Int32, Rep: true}}}, {Name: "Map", Fields: []F{{Name: "map", Num: 1, Kind: Int32, Map: true, KeyKind: Int32}}},
	}, []E{{Name: "float64", Values: []EV{{"float64_ZERO", 0}, {"nil_", 1}}}}))
	add(adv("adv_nested_messages_named_like_methods", "nested messages / enums named like the reflection methods", []M{{Name: "A",
		Fields: []F{{Name: "d", Num: 1, Kind: Message, TypeName: ".adv.adv_nested_messages_named_like_methods.A.Descriptor"}, {Name: "t", Num: 2, Kind: Enum, TypeName: ".adv.adv_nested_messages_named_like_methods.A.Type"}},
		Nested: []M{{Name: "Descriptor", Fields: []F{{Name: "x", Num: 1, Kind: Int32}}}, {Name: "Get"}, {Name: "Range"}, {Name: "ProtoMethods"}},
		Enums:  []E{{Name: "Type", Values: []EV{{"TYPE_UNSPECIFIED", 0}, {"Has", 1}}}}}}, nil))
	{
		long := strings.Repeat("very_long_name_", 14) + "end"
		add(adv("adv_long_names", "200-character identifiers", []M{{Name: "M" + long, Fields: []F{{Name: long, Num: 1, Kind: String}, {Name: "r_" + long, Num: 2, Kind: Int32, Rep: true}, {Name: "o_" + long, Num: 3, Kind: Int32, Oneof: "oneof_" + long}}}}, nil))
	}

	// ---- kinds x shapes -----------------------------------------------------------------------------
	{
		pkg := "adv.adv_oneof_every_kind"
		add(adv("adv_oneof_every_kind", "every kind (sint32/sint64/bool/bytes/enum/message included) as member of a oneof; two oneofs interleaved with plain fields", []M{
			{Name: "A", Fields: append(append(allKindFields("a_", 1, pkg, func(f *F) { f.Oneof = "first" }), F{Name: "plain", Num: 100, Kind: String}),
				allKindFields("b_", 200, pkg, func(f *F) { f.Oneof = "second" })...)}, leaf()}, []E{enumEn()}))
	}
	{
		pkg := "adv.adv_proto3_optional"
		fd := advFile("adv_proto3_optional", []M{{Name: "A", Fields: append(allKindFields("o_", 1, pkg, nil), F{Name: "real_a", Num: 50, Kind: Int32, Oneof: "real"}, F{Name: "real_b", Num: 51, Kind: String, Oneof: "real"})}, leaf()}, []E{enumEn()})
		markOptional(fd.MessageType[0])
		add(advFD("adv_proto3_optional", "proto3 `optional` fields (synthetic oneofs) of every kind: outside the supported subset, must not crash", ExpNoCrash, []string{fd.GetName()}, fd))
	}
	{
		pkg := "adv.adv_unpacked"
		add(adv("adv_unpacked", "[packed=false] on every packable kind next to the default packing", []M{{Name: "A", Fields: append(
			allKindFieldsFilter("u_", 1, pkg, func(f *F) { f.Rep, f.Unpacked = true, true }), allKindFields("p_", 100, pkg, func(f *F) { f.Rep = true })...)}, leaf()}, []E{enumEn()}))
	}
	for gi, keys := range [][]T{KeyKinds[0:4], KeyKinds[4:8], KeyKinds[8:12]} {
		name := fmt.Sprintf("adv_maps_all_%d", gi)
		pkg := "adv." + name
		m := M{Name: "A"}
		num := int32(1)
		for _, kk := range keys {
			for _, f := range allKindFields("m_"+KindName(kk)+"_", 0, pkg, nil) {
				f.Num, f.Map, f.KeyKind = num, true, kk
				num++
				m.Fields = append(m.Fields, f)
			}
		}
		add(adv(name, "maps: key kinds "+KindName(keys[0])+".."+KindName(keys[3])+" x every value kind", []M{m, leaf()}, []E{enumEn()}))
	}
	add(adv("adv_empty_messages", "field-less messages, nested", []M{{Name: "E0"}, {Name: "E1", Nested: []M{{Name: "In", Nested: []M{{Name: "Deep"}}}}},
		{Name: "Holder", Fields: []F{{Name: "e", Num: 1, Kind: Message, TypeName: ".adv.adv_empty_messages.E0"}, {Name: "es", Num: 2, Kind: Message, TypeName: ".adv.adv_empty_messages.E1.In.Deep", Rep: true},
			{Name: "em", Num: 3, Kind: Message, TypeName: ".adv.adv_empty_messages.E1.In", Map: true, KeyKind: String}, {Name: "eo", Num: 4, Kind: Message, TypeName: ".adv.adv_empty_messages.E0", Oneof: "o"}}}}, nil))
	{
		// deep nesting of declarations, fields at every level referring up and down; enums at several levels
		pkg := ".adv.adv_deep_nesting"
		var mk func(d int, path string) M
		mk = func(d int, path string) M {
			name := fmt.Sprintf("L%d", d)
			full := path + "." + name
			m := M{Name: name, Fields: []F{{Name: "v", Num: 1, Kind: Int32}, {Name: "up", Num: 2, Kind: Message, TypeName: pkg + ".L0"}, {Name: "self", Num: 3, Kind: Message, TypeName: full, Rep: true},
				{Name: "mp", Num: 5, Kind: Message, TypeName: full, Map: true, KeyKind: Int32}},
				Enums: []E{{Name: "K", Values: []EV{{fmt.Sprintf("K%d_ZERO", d), 0}, {fmt.Sprintf("K%d_ONE", d), 1}}}}}
			m.Fields = append(m.Fields, F{Name: "k", Num: 6, Kind: Enum, TypeName: full + ".K"})
			if d < 9 {
				ch := mk(d+1, full)
				m.Nested = append(m.Nested, ch, M{Name: fmt.Sprintf("Sib%d", d), Fields: []F{{Name: "s", Num: 1, Kind: String}}})
				m.Fields = append(m.Fields, F{Name: "down", Num: 4, Kind: Message, TypeName: full + "." + ch.Name, Oneof: "o"}, F{Name: "sib", Num: 7, Kind: Message, TypeName: fmt.Sprintf("%s.Sib%d", full, d), Oneof: "o"})
			}
			return m
		}
		add(adv("adv_deep_nesting", "10 levels of nested declarations with siblings, maps and enums at every level (message index / md_ lookup chain)", []M{mk(0, pkg), {Name: "After", Fields: []F{{Name: "deep", Num: 1, Kind: Message, TypeName: pkg + ".L0.L1.L2.L3.L4.L5.L6.L7.L8.L9"}}}}, nil))
	}
	add(adv("adv_self_recursive", "a message containing itself in every shape", []M{{Name: "R", Fields: []F{
		{Name: "one", Num: 1, Kind: Message, TypeName: ".adv.adv_self_recursive.R"}, {Name: "many", Num: 2, Kind: Message, TypeName: ".adv.adv_self_recursive.R", Rep: true},
		{Name: "by", Num: 3, Kind: Message, TypeName: ".adv.adv_self_recursive.R", Map: true, KeyKind: Uint64}, {Name: "alt", Num: 4, Kind: Message, TypeName: ".adv.adv_self_recursive.R", Oneof: "o"},
		{Name: "alt2", Num: 5, Kind: Message, TypeName: ".adv.adv_self_recursive.R", Oneof: "o"}}}}, nil))
	add(adv("adv_max_field_numbers", "field numbers at the limits (536870911; around the reserved 19000-19999 range)", []M{{Name: "A", Fields: []F{
		{Name: "max", Num: 536870911, Kind: String}, {Name: "maxm1", Num: 536870910, Kind: Int32, Rep: true}, {Name: "b18999", Num: 18999, Kind: Int32}, {Name: "b20000", Num: 20000, Kind: Int32, Map: true, KeyKind: String},
		{Name: "omax", Num: 536870909, Kind: Sint64, Oneof: "o"}, {Name: "o1", Num: 1, Kind: Message, TypeName: ".adv.adv_max_field_numbers.A", Oneof: "o"}}}}, nil))
	add(adv("adv_field_order", "fields declared in descending / mixed number order with interleaved oneofs", []M{{Name: "A", Fields: []F{
		{Name: "f9", Num: 9, Kind: String}, {Name: "o8", Num: 8, Kind: Int32, Oneof: "p"}, {Name: "o2", Num: 2, Kind: String, Oneof: "p"}, {Name: "f7", Num: 7, Kind: Int32, Rep: true},
		{Name: "q6", Num: 6, Kind: Bytes, Oneof: "q"}, {Name: "q1", Num: 1, Kind: Bool, Oneof: "q"}, {Name: "f3", Num: 3, Kind: Int32, Map: true, KeyKind: String}, {Name: "f5", Num: 5, Kind: Double}, {Name: "f4", Num: 4, Kind: Float}}}}, nil))
	add(adv("adv_many_fields", "a message with 300 fields", []M{func() M {
		m := M{Name: "Big"}
		for i := 1; i <= 300; i++ {
			m.Fields = append(m.Fields, F{Name: fmt.Sprintf("f%d", i), Num: int32(i * 7), Kind: ScalarKinds[i%15]})
		}
		return m
	}()}, nil))
	add(adv("adv_enums", "negative, sparse, aliased enum numbers; enums used in every shape; nested enum named like its field", []M{{Name: "A", Fields: []F{
		{Name: "e", Num: 1, Kind: Enum, TypeName: ".adv.adv_enums.En"}, {Name: "es", Num: 2, Kind: Enum, TypeName: ".adv.adv_enums.A.Kind", Rep: true}, {Name: "eu", Num: 3, Kind: Enum, TypeName: ".adv.adv_enums.A.Kind", Rep: true, Unpacked: true},
		{Name: "em", Num: 4, Kind: Enum, TypeName: ".adv.adv_enums.En", Map: true, KeyKind: Int32}, {Name: "eo", Num: 5, Kind: Enum, TypeName: ".adv.adv_enums.A.Kind", Oneof: "o"}, {Name: "kind", Num: 6, Kind: Enum, TypeName: ".adv.adv_enums.A.Kind"}},
		Enums: []E{{Name: "Kind", Values: []EV{{"KIND_ZERO", 0}, {"KIND_A", 5}, {"KIND_A2", 5}, {"KIND_NEG", -7}}, Alias: true}}}}, []E{enumEn()}))
	add(adv("adv_enum_only", "a file with enums only", nil, []E{enumEn(), {Name: "Other", Values: []EV{{"OTHER_ZERO", 0}}}}))

	// ---- descriptor features ---------------------------------------------------------------------------------
	{
		fd := advFile("adv_json_names", []M{{Name: "A", Fields: []F{{Name: "foo_bar", Num: 1, Kind: String}, {Name: "baz", Num: 2, Kind: Int32, Rep: true}, {Name: "q", Num: 3, Kind: Int32, Oneof: "o"}}}}, nil)
		fd.MessageType[0].Field[0].JsonName = proto.String("FOO-bar!")
		fd.MessageType[0].Field[1].JsonName = proto.String("@type")
		fd.MessageType[0].Field[2].JsonName = proto.String("")
		fd.MessageType[0].Field[2].JsonName = nil
		add(advFD("adv_json_names", "custom json_name values (also absent)", ExpFiles, []string{fd.GetName()}, fd))
	}
	{
		fd := advFile("adv_reserved", []M{{Name: "A", Fields: []F{{Name: "a", Num: 1, Kind: String}, {Name: "z", Num: 100, Kind: String}}}}, []E{{Name: "R", Values: []EV{{"R_ZERO", 0}, {"R_TEN", 10}}}})
		fd.MessageType[0].ReservedRange = []*descriptorpb.DescriptorProto_ReservedRange{{Start: proto.Int32(2), End: proto.Int32(10)}, {Start: proto.Int32(50), End: proto.Int32(51)}, {Start: proto.Int32(1000), End: proto.Int32(536870912)}}
		fd.MessageType[0].ReservedName = []string{"old", "type", "descriptor"}
		fd.EnumType[0].ReservedRange = []*descriptorpb.EnumDescriptorProto_EnumReservedRange{{Start: proto.Int32(1), End: proto.Int32(9)}, {Start: proto.Int32(-5), End: proto.Int32(-1)}}
		fd.EnumType[0].ReservedName = []string{"R_OLD"}
		add(advFD("adv_reserved", "reserved ranges and names in messages and enums", ExpFiles, []string{fd.GetName()}, fd))
	}
	{
		fd := advFile("adv_deprecated_and_comments", []M{{Name: "A", Fields: []F{{Name: "a", Num: 1, Kind: String}, {Name: "b", Num: 2, Kind: Int32, Oneof: "o"}}, Nested: []M{{Name: "N"}}}}, []E{{Name: "D", Values: []EV{{"D_ZERO", 0}, {"D_ONE", 1}}}})
		fd.Options.Deprecated = proto.Bool(true)
		fd.MessageType[0].Options = &descriptorpb.MessageOptions{Deprecated: proto.Bool(true)}
		fd.MessageType[0].Field[0].Options = &descriptorpb.FieldOptions{Deprecated: proto.Bool(true)}
		fd.EnumType[0].Options = &descriptorpb.EnumOptions{Deprecated: proto.Bool(true)}
		fd.EnumType[0].Value[1].Options = &descriptorpb.EnumValueOptions{Deprecated: proto.Bool(true)}
		nasty := " ends a comment */ and starts /* one\n second line with \"quotes\", `ticks`, \\ and a tab\t\n\n //go:generate echo pwned\n"
		loc := func(path []int32, lead, trail string, det ...string) *descriptorpb.SourceCodeInfo_Location {
			return &descriptorpb.SourceCodeInfo_Location{Path: path, Span: []int32{1, 0, 2, 0}, LeadingComments: proto.String(lead), TrailingComments: proto.String(trail), LeadingDetachedComments: det}
		}
		fd.SourceCodeInfo = &descriptorpb.SourceCodeInfo{Location: []*descriptorpb.SourceCodeInfo_Location{
			loc([]int32{12}, nasty, nasty, nasty), loc([]int32{2}, nasty, nasty, nasty), loc([]int32{8}, nasty, ""), loc([]int32{4, 0}, nasty, nasty, nasty, nasty), loc([]int32{4, 0, 2, 0}, nasty, nasty), loc([]int32{4, 0, 2, 1}, nasty, nasty),
			loc([]int32{4, 0, 8, 0}, nasty, nasty), loc([]int32{4, 0, 3, 0}, nasty, nasty), loc([]int32{5, 0}, nasty, nasty), loc([]int32{5, 0, 2, 0}, nasty, nasty), loc([]int32{5, 0, 2, 1}, nasty, nasty)}}
		add(advFD("adv_deprecated_and_comments", "deprecated options everywhere; source comments containing */, //go: directives, quotes, tabs", ExpFiles, []string{fd.GetName()}, fd))
	}
	{
		// custom options: extensions of descriptor options defined in a proto3 file, used in the same file; cosmos_proto options
		fd := advFile("adv_custom_options", []M{{Name: "A", Fields: []F{{Name: "addr", Num: 1, Kind: String}, {Name: "n", Num: 2, Kind: Int32}}}, {Name: "OptPayload", Fields: []F{{Name: "s", Num: 1, Kind: String}}}}, nil)
		fd.Dependency = []string{"google/protobuf/descriptor.proto", "cosmos_proto/cosmos.proto"}
		ext := func(name string, num int32, extendee string, t T, tn string) *descriptorpb.FieldDescriptorProto {
			f := &descriptorpb.FieldDescriptorProto{Name: proto.String(name), JsonName: proto.String(jsonName(name)), Number: proto.Int32(num), Label: descriptorpb.FieldDescriptorProto_LABEL_OPTIONAL.Enum(), Type: t.Enum(), Extendee: proto.String(extendee)}
			if tn != "" {
				f.TypeName = proto.String(tn)
			}
			return f
		}
		fd.Extension = []*descriptorpb.FieldDescriptorProto{
			ext("my_field_opt", 50001, ".google.protobuf.FieldOptions", String, ""),
			ext("my_msg_opt", 50002, ".google.protobuf.MessageOptions", Message, ".adv.adv_custom_options.OptPayload"),
			ext("my_file_opt", 50003, ".google.protobuf.FileOptions", Int64, ""),
		}
		fd.Extension[0].Proto3Optional = proto.Bool(true)
		fd.Extension[2].Proto3Optional = proto.Bool(true)
		// option values as unknown fields of the options messages (what protoc hands to plugins that do not link the extension)
		fd.MessageType[0].Field[0].Options = &descriptorpb.FieldOptions{}
		fd.MessageType[0].Field[0].Options.ProtoReflect().SetUnknown(appendStrOpt(appendStrOpt(nil, 93002, "cosmos.AddressString"), 50001, "hello"))
		fd.MessageType[0].Options = &descriptorpb.MessageOptions{}
		fd.MessageType[0].Options.ProtoReflect().SetUnknown(appendStrOpt(appendStrOpt(nil, 93001, "cosmos.Iface"), 50002, "\x0a\x01z"))
		fd.Options.ProtoReflect().SetUnknown([]byte{0x98, 0xb5, 0x18, 0x2a}) // 50003: varint 42
		add(AdvSet{Set: Set{Name: "adv_custom_options", Files: []*descriptorpb.FileDescriptorProto{Registered("google/protobuf/descriptor.proto"), Registered("cosmos_proto/cosmos.proto"), fd},
			Generate: []string{fd.GetName()}, Param: "features=protoc+fast,Mcosmos_proto/cosmos.proto=github.com/cosmos/cosmos-proto;cosmos_proto"}, Expect: ExpFiles,
			Why: "custom options (extensions declared in a proto3 file, cosmos_proto options) carried as unknown fields of the options messages"})
	}
	{
		// an extension (custom option) declared INSIDE a proto3 message: legal, protoc-gen-go nests it as E_A_NestedOpt
		fd := advFile("adv_nested_extension_decl", []M{{Name: "A", Fields: []F{{Name: "s", Num: 1, Kind: String}}}}, nil)
		fd.Dependency = []string{"google/protobuf/descriptor.proto"}
		fd.MessageType[0].Extension = []*descriptorpb.FieldDescriptorProto{{Name: proto.String("nested_opt"), JsonName: proto.String("nestedOpt"), Number: proto.Int32(50101),
			Label: descriptorpb.FieldDescriptorProto_LABEL_OPTIONAL.Enum(), Type: String.Enum(), Extendee: proto.String(".google.protobuf.FieldOptions"), Proto3Optional: proto.Bool(true)}}
		add(AdvSet{Set: Set{Name: "adv_nested_extension_decl", Files: []*descriptorpb.FileDescriptorProto{Registered("google/protobuf/descriptor.proto"), fd}, Generate: []string{fd.GetName()}, Param: "features=protoc+fast"},
			Expect: ExpFiles, Why: "a custom option declared inside a message (message.Extensions is non-empty: the unmarshal template has an extension-range branch)"})
	}
	{
		fd := advFile("adv_services_only", nil, nil)
		fd.Dependency = []string{"google/protobuf/empty.proto"}
		fd.Service = []*descriptorpb.ServiceDescriptorProto{svc("Query", [3]string{"Ping", ".google.protobuf.Empty", ".google.protobuf.Empty"}, [3]string{"StreamAll", ".google.protobuf.Empty", ".google.protobuf.Empty"}),
			svc("Type", [3]string{"Descriptor", ".google.protobuf.Empty", ".google.protobuf.Empty"})}
		add(advFD("adv_services_only", "a file with services only", ExpFiles, []string{fd.GetName()}, Registered("google/protobuf/empty.proto"), fd))
	}
	{
		fd := advFile("adv_services_and_messages", []M{{Name: "Req", Fields: []F{{Name: "q", Num: 1, Kind: String}}}, {Name: "Resp", Fields: []F{{Name: "a", Num: 1, Kind: String}}, Nested: []M{{Name: "Inner"}}}}, nil)
		p := ".adv.adv_services_and_messages."
		fd.Service = []*descriptorpb.ServiceDescriptorProto{svc("S", [3]string{"Do", p + "Req", p + "Resp"}, [3]string{"StreamDo", p + "Resp.Inner", p + "Req"})}
		add(advFD("adv_services_and_messages", "services next to messages (dependency index sub-lists 3 and 4)", ExpFiles, []string{fd.GetName()}, fd))
	}
	{
		f := File{Path: "adv/adv_no_proto_package.proto", Package: "", GoPackage: GenCheckBase + "adv_no_proto_package", Msgs: []M{{Name: "NoPkgMsg", Fields: []F{{Name: "inner", Num: 1, Kind: Message, TypeName: ".NoPkgMsg.NoPkgIn"}, {Name: "e", Num: 2, Kind: Enum, TypeName: ".NoPkgEnum"}},
			Nested: []M{{Name: "NoPkgIn", Fields: []F{{Name: "v", Num: 1, Kind: Int32, Rep: true}}}}}}, Enums: []E{{Name: "NoPkgEnum", Values: []EV{{"NO_PKG_ZERO", 0}}}}}
		fd := f.Build()
		add(advFD("adv_no_proto_package", "a file without a proto package", ExpFiles, []string{fd.GetName()}, fd))
	}
	for _, pn := range []string{"runtime", "fmt", "protoreflect", "protoiface", "protoimpl", "proto", "math", "io", "sort", "sync", "reflect", "binary"} {
		name := "adv_gopkg_" + pn
		f := File{Path: "adv/" + name + ".proto", Package: "adv." + name, GoPackage: GenCheckBase + name + ";" + pn, Msgs: []M{{Name: "A", Fields: []F{
			{Name: "s", Num: 1, Kind: String}, {Name: "d", Num: 2, Kind: Double, Rep: true}, {Name: "m", Num: 3, Kind: Float, Map: true, KeyKind: String}, {Name: "o", Num: 4, Kind: Sint64, Oneof: "c"}, {Name: "me", Num: 5, Kind: Message, TypeName: ".adv." + name + ".A"},
			{Name: "mb", Num: 6, Kind: Bytes, Map: true, KeyKind: Bool}}}}}
		fd := f.Build()
		add(advFD(name, "Go package named like a package the generated code imports ("+pn+")", ExpFiles, []string{fd.GetName()}, fd))
	}

	// ---- several files / packages ------------------------------------------------------------------------------
	{
		// cross-package graph: lib (own Go package) used by app in every shape; go_package of lib given by M mapping only
		lib := File{Path: "adv/xpkg_lib.proto", Package: "adv.xpkg.lib", GoPackage: GenCheckBase + "adv_cross_package/lib", Msgs: []M{{Name: "Item", Fields: []F{{Name: "id", Num: 1, Kind: String}}, Nested: []M{{Name: "Part", Fields: []F{{Name: "w", Num: 1, Kind: Double}}}}}},
			Enums: []E{{Name: "Color", Values: []EV{{"COLOR_ZERO", 0}, {"COLOR_RED", 1}}}}}.Build()
		lib.Options = nil
		app := File{Path: "adv/xpkg_app.proto", Package: "adv.xpkg.app", GoPackage: GenCheckBase + "adv_cross_package/app", Deps: []string{"adv/xpkg_lib.proto"}, Msgs: []M{{Name: "Box", Fields: []F{
			{Name: "item", Num: 1, Kind: Message, TypeName: ".adv.xpkg.lib.Item"}, {Name: "items", Num: 2, Kind: Message, TypeName: ".adv.xpkg.lib.Item", Rep: true},
			{Name: "parts", Num: 3, Kind: Message, TypeName: ".adv.xpkg.lib.Item.Part", Map: true, KeyKind: String}, {Name: "c", Num: 4, Kind: Enum, TypeName: ".adv.xpkg.lib.Color"},
			{Name: "cs", Num: 5, Kind: Enum, TypeName: ".adv.xpkg.lib.Color", Rep: true}, {Name: "cm", Num: 6, Kind: Enum, TypeName: ".adv.xpkg.lib.Color", Map: true, KeyKind: Int32},
			{Name: "oi", Num: 7, Kind: Message, TypeName: ".adv.xpkg.lib.Item", Oneof: "o"}, {Name: "oc", Num: 8, Kind: Enum, TypeName: ".adv.xpkg.lib.Color", Oneof: "o"},
			// a local message with the same short name as the imported one
			{Name: "local_item", Num: 9, Kind: Message, TypeName: ".adv.xpkg.app.Item"}}}, {Name: "Item", Fields: []F{{Name: "lib", Num: 1, Kind: Message, TypeName: ".adv.xpkg.lib.Item"}}}}}.Build()
		add(AdvSet{Set: Set{Name: "adv_cross_package", Files: []*descriptorpb.FileDescriptorProto{lib, app}, Generate: []string{"adv/xpkg_lib.proto", "adv/xpkg_app.proto"},
			Param: "features=protoc+fast,Madv/xpkg_lib.proto=" + GenCheckBase + "adv_cross_package/lib"}, Expect: ExpFiles, Why: "imports across Go packages in every shape; go_package supplied by an M mapping; same short message name in both packages"})
	}
	{
		// two files of the same Go package referring to each other's messages in one direction, plus a third file generated alone later
		a := File{Path: "adv/samepkg_a.proto", Package: "adv.samepkg", GoPackage: GenCheckBase + "adv_same_package", Msgs: []M{{Name: "A", Fields: []F{{Name: "b", Num: 1, Kind: Message, TypeName: ".adv.samepkg.B"}, {Name: "bs", Num: 2, Kind: Message, TypeName: ".adv.samepkg.B", Map: true, KeyKind: String}}}}}.Build()
		a.Dependency = []string{"adv/samepkg_b.proto"}
		b := File{Path: "adv/samepkg_b.proto", Package: "adv.samepkg", GoPackage: GenCheckBase + "adv_same_package", Msgs: []M{{Name: "B", Fields: []F{{Name: "v", Num: 1, Kind: Sint32, Rep: true}}}}, Enums: []E{{Name: "BE", Values: []EV{{"BE_ZERO", 0}}}}}.Build()
		add(advFD("adv_same_package", "two files generated into one Go package", ExpFiles, []string{"adv/samepkg_a.proto", "adv/samepkg_b.proto"}, b, a))
	}
	{
		// four files of ONE Go package in a chain, every file's name sorting BEFORE the names of the files it imports (Go runs the
		// init functions of a package in file-name order): alpha -> beta, gamma; beta -> gamma; and one that sorts after: omega -> alpha.
		// Alpha uses beta's and gamma's messages and enums (top-level and nested) in every shape. Generated by one request, and
		// file by file (per-file invocation mode of the gen engine), the assembled package must initialise and resolve every type.
		gp := GenCheckBase + "adv_same_package_shapes"
		pkg := ".adv.samepkgshapes"
		gamma := File{Path: "adv/samepkg_shapes_gamma.proto", Package: pkg[1:], GoPackage: gp, Msgs: []M{{Name: "Gamma", Fields: []F{{Name: "g", Num: 1, Kind: String}, {Name: "k", Num: 2, Kind: Enum, TypeName: pkg + ".Gamma.GKind"}},
			Nested: []M{{Name: "GIn", Fields: []F{{Name: "n", Num: 1, Kind: Sint64}}}}, Enums: []E{{Name: "GKind", Values: []EV{{"GKIND_ZERO", 0}, {"GKIND_ONE", 1}, {"GKIND_NEG", -3}}}}}},
			Enums: []E{{Name: "GammaEnum", Values: []EV{{"GAMMA_ZERO", 0}, {"GAMMA_TWO", 2}}}}}.Build()
		beta := File{Path: "adv/samepkg_shapes_beta.proto", Package: pkg[1:], GoPackage: gp, Deps: []string{gamma.GetName()}, Msgs: []M{{Name: "Beta", Fields: []F{{Name: "v", Num: 1, Kind: Sint32, Rep: true}, {Name: "s", Num: 2, Kind: String},
			{Name: "g", Num: 3, Kind: Message, TypeName: pkg + ".Gamma"}, {Name: "ge", Num: 4, Kind: Enum, TypeName: pkg + ".GammaEnum"}},
			Nested: []M{{Name: "Inner", Fields: []F{{Name: "x", Num: 1, Kind: Fixed32}}}}, Enums: []E{{Name: "Kind", Values: []EV{{"KIND_ZERO", 0}, {"KIND_ONE", 1}, {"KIND_BIG", 2147483647}}}}}},
			Enums: []E{{Name: "BetaEnum", Values: []EV{{"BETA_ZERO", 0}, {"BETA_ONE", 1}, {"BETA_NEG", -1}}}}}.Build()
		var fs, oneofMembers []F // protoc wants the members of a oneof declared consecutively
		n := int32(1)
		for _, t := range []struct {
			tag  string
			kind T
			name string
		}{{"b", Message, pkg + ".Beta"}, {"bi", Message, pkg + ".Beta.Inner"}, {"g", Message, pkg + ".Gamma"}, {"gi", Message, pkg + ".Gamma.GIn"},
			{"be", Enum, pkg + ".BetaEnum"}, {"bk", Enum, pkg + ".Beta.Kind"}, {"ge", Enum, pkg + ".GammaEnum"}, {"gk", Enum, pkg + ".Gamma.GKind"}} {
			fs = append(fs, F{Name: "s_" + t.tag, Num: n, Kind: t.kind, TypeName: t.name}, F{Name: "r_" + t.tag, Num: n + 1, Kind: t.kind, TypeName: t.name, Rep: true},
				F{Name: "m_" + t.tag, Num: n + 2, Kind: t.kind, TypeName: t.name, Map: true, KeyKind: []T{String, Int32, Uint64, Bool}[int(n)%4]})
			oneofMembers = append(oneofMembers, F{Name: "o_" + t.tag, Num: n + 3, Kind: t.kind, TypeName: t.name, Oneof: "pick"})
			if t.kind == Enum {
				fs = append(fs, F{Name: "u_" + t.tag, Num: n + 4, Kind: t.kind, TypeName: t.name, Rep: true, Unpacked: true})
			}
			n += 5
		}
		fs = append(fs, oneofMembers...)
		alpha := File{Path: "adv/samepkg_shapes_alpha.proto", Package: pkg[1:], GoPackage: gp, Deps: []string{beta.GetName(), gamma.GetName()}, Msgs: []M{{Name: "Alpha", Fields: fs,
			Nested: []M{{Name: "Sub", Fields: []F{{Name: "b", Num: 1, Kind: Message, TypeName: pkg + ".Beta"}, {Name: "k", Num: 2, Kind: Enum, TypeName: pkg + ".Beta.Kind"}}}}}}}.Build()
		omega := File{Path: "adv/samepkg_shapes_omega.proto", Package: pkg[1:], GoPackage: gp, Deps: []string{alpha.GetName()}, Msgs: []M{{Name: "Omega", Fields: []F{{Name: "a", Num: 1, Kind: Message, TypeName: pkg + ".Alpha"},
			{Name: "subs", Num: 2, Kind: Message, TypeName: pkg + ".Alpha.Sub", Rep: true}}}}}.Build()
		add(advFD("adv_same_package_shapes", "four files of one Go package, importers' names sorting before (and one after) their imports; imported messages / enums in every shape", ExpFiles,
			[]string{gamma.GetName(), beta.GetName(), alpha.GetName(), omega.GetName()}, gamma, beta, alpha, omega))
	}
	{
		// a file whose message has a field the plugin renames (`type` -> Type_) generated together with an unrelated file,
		// in another Go package, that has a field literally named `type_` (and other already-suffixed names): whatever the
		// plugin remembers about renames must not leak from one file into another
		first := File{Path: "adv/rename_first.proto", Package: "adv.renameleak.first", GoPackage: GenCheckBase + "adv_rename_leak/first", Msgs: []M{
			{Name: "First", Fields: []F{{Name: "type", Num: 1, Kind: String}, {Name: "has", Num: 2, Kind: Bool}, {Name: "range", Num: 3, Kind: Int32, Rep: true}}}}}.Build()
		second := File{Path: "adv/rename_second.proto", Package: "adv.renameleak.second", GoPackage: GenCheckBase + "adv_rename_leak/second", Deps: []string{"adv/rename_first.proto"}, Msgs: []M{
			{Name: "Second", Fields: []F{{Name: "type_", Num: 1, Kind: String}, {Name: "has_", Num: 2, Kind: Bool}, {Name: "f", Num: 3, Kind: Message, TypeName: ".adv.renameleak.first.First"},
				{Name: "range_", Num: 4, Kind: Message, TypeName: ".adv.renameleak.first.First", Map: true, KeyKind: String}}}}}.Build()
		add(advFD("adv_rename_leak", "a renamed reserved field name in one file, the already-suffixed name in a co-generated file of another package", ExpFiles, []string{"adv/rename_first.proto", "adv/rename_second.proto"}, first, second))
	}
	{
		// two unrelated files in different Go packages that declare a message with the SAME Go name at different positions
		// of their flattened message lists (anything the generator remembers per message name across files shows here:
		// generated together the second file must be byte-identical to generated alone)
		bank := File{Path: "adv/samename_bank.proto", Package: "adv.samename.bank", GoPackage: GenCheckBase + "adv_same_name_other_pkg/bank", Msgs: []M{
			{Name: "Balance", Fields: []F{{Name: "amount", Num: 1, Kind: Uint64}}},
			{Name: "Supply", Fields: []F{{Name: "b", Num: 1, Kind: Message, TypeName: ".adv.samename.bank.Balance", Rep: true}}},
			{Name: "Params", Fields: []F{{Name: "enabled", Num: 1, Kind: Bool}, {Name: "by_denom", Num: 2, Kind: Message, TypeName: ".adv.samename.bank.Balance", Map: true, KeyKind: String}}}}}.Build()
		gov := File{Path: "adv/samename_gov.proto", Package: "adv.samename.gov", GoPackage: GenCheckBase + "adv_same_name_other_pkg/gov", Msgs: []M{
			{Name: "Params", Fields: []F{{Name: "quorum", Num: 1, Kind: String}, {Name: "tally", Num: 2, Kind: Message, TypeName: ".adv.samename.gov.Tally"}}},
			{Name: "Tally", Fields: []F{{Name: "yes", Num: 1, Kind: Sint64}}, Nested: []M{{Name: "Params", Fields: []F{{Name: "x", Num: 1, Kind: Int32}}}}}}}.Build()
		add(advFD("adv_same_name_other_pkg", "same message Go name in two unrelated files / Go packages, at different flattened positions", ExpFiles, []string{"adv/samename_bank.proto", "adv/samename_gov.proto"}, bank, gov))
	}
	for _, variant := range []string{"same_gopkg", "other_gopkg"} {
		name := "adv_import_public_" + variant
		base := File{Path: "adv/" + name + "_base.proto", Package: "adv." + name + ".base", GoPackage: GenCheckBase + name + "/base", Msgs: []M{{Name: "Base", Fields: []F{{Name: "v", Num: 1, Kind: Int32}}}}, Enums: []E{{Name: "BaseEnum", Values: []EV{{"BASE_ZERO", 0}}}}}
		mid := File{Path: "adv/" + name + "_mid.proto", Package: "adv." + name + ".mid", GoPackage: GenCheckBase + name + "/mid", Deps: []string{base.Path}, Public: []int32{0}, Msgs: []M{{Name: "Mid", Fields: []F{{Name: "b", Num: 1, Kind: Message, TypeName: ".adv." + name + ".base.Base"}}}}}
		if variant == "same_gopkg" {
			base.GoPackage = GenCheckBase + name
			mid.GoPackage = GenCheckBase + name
		}
		top := File{Path: "adv/" + name + "_top.proto", Package: "adv." + name + ".top", GoPackage: GenCheckBase + name + "/top", Deps: []string{mid.Path}, Msgs: []M{{Name: "Top", Fields: []F{{Name: "b", Num: 1, Kind: Message, TypeName: ".adv." + name + ".base.Base"}, {Name: "m", Num: 2, Kind: Message, TypeName: ".adv." + name + ".mid.Mid"}}}}}
		why := "D9b: `import public` of a file in another Go package (forwarding declarations)"
		if variant == "same_gopkg" {
			why = "`import public` of a file of the same Go package"
		}
		add(advFD(name, why, ExpFiles, []string{base.Path, mid.Path, top.Path}, base.Build(), mid.Build(), top.Build()))
	}
	{
		// well-known types in every position incl. Struct/Value/ListValue/Empty
		wk := []string{"any", "timestamp", "duration", "wrappers", "field_mask", "struct", "empty"}
		var deps []string
		var files []*descriptorpb.FileDescriptorProto
		for _, w := range wk {
			deps = append(deps, "google/protobuf/"+w+".proto")
			files = append(files, Registered("google/protobuf/"+w+".proto"))
		}
		types := []string{"Any", "Timestamp", "Duration", "FieldMask", "Struct", "Value", "ListValue", "Empty", "DoubleValue", "FloatValue", "Int64Value", "UInt64Value", "Int32Value", "UInt32Value", "BoolValue", "StringValue", "BytesValue"}
		m := M{Name: "W"}
		n := int32(1)
		for _, t := range types {
			tn := ".google.protobuf." + t
			lc := strings.ToLower(t)
			m.Fields = append(m.Fields, F{Name: "s_" + lc, Num: n, Kind: Message, TypeName: tn}, F{Name: "r_" + lc, Num: n + 1, Kind: Message, TypeName: tn, Rep: true},
				F{Name: "m_" + lc, Num: n + 2, Kind: Message, TypeName: tn, Map: true, KeyKind: String})
			n += 3
		}
		for _, t := range types {
			m.Fields = append(m.Fields, F{Name: "o_" + strings.ToLower(t), Num: n, Kind: Message, TypeName: ".google.protobuf." + t, Oneof: "o"})
			n++
		}
		f := File{Path: "adv/adv_wkt_all.proto", Package: "adv.adv_wkt_all", GoPackage: GenCheckBase + "adv_wkt_all", Deps: deps, Msgs: []M{m}}
		add(advFD("adv_wkt_all", "every well-known type as singular / repeated / map value / oneof member", ExpFiles, []string{f.Path}, append(files, f.Build())...))
	}

	// ---- requests with nothing (or not everything) to generate -----------------------------------------------------
	{
		p2 := File{Path: "adv/adv_proto2_requested.proto", Package: "adv.adv_proto2_requested", GoPackage: GenCheckBase + "adv_proto2_requested", Proto2: true, Msgs: []M{{Name: "P2", Fields: []F{{Name: "a", Num: 1, Kind: String}, {Name: "r", Num: 2, Kind: Int32, Rep: true}}}}}.Build()
		p2.MessageType[0].Field[0].Label = descriptorpb.FieldDescriptorProto_LABEL_REQUIRED.Enum()
		p2.MessageType[0].Field[0].DefaultValue = proto.String("dflt")
		p2.MessageType[0].ExtensionRange = []*descriptorpb.DescriptorProto_ExtensionRange{{Start: proto.Int32(100), End: proto.Int32(200)}}
		add(advFD("adv_proto2_requested", "a proto2 file in file_to_generate: no output, no crash", ExpNoFiles, []string{p2.GetName()}, p2))
		p2b := proto.Clone(p2).(*descriptorpb.FileDescriptorProto)
		p2b.Name = proto.String("adv/adv_proto2_mixed_p2.proto")
		p2b.Package = proto.String("adv.adv_proto2_mixed.p2")
		p2b.Options.GoPackage = proto.String(GenCheckBase + "adv_proto2_mixed/p2")
		p3 := File{Path: "adv/adv_proto2_mixed_p3.proto", Package: "adv.adv_proto2_mixed.p3", GoPackage: GenCheckBase + "adv_proto2_mixed/p3", Msgs: []M{{Name: "P3", Fields: []F{{Name: "x", Num: 1, Kind: Int32}}}}}.Build()
		add(advFD("adv_proto2_mixed", "a proto2 and a proto3 file requested together: only the proto3 file is generated", ExpFiles, []string{p2b.GetName(), p3.GetName()}, p2b, p3))
	}
	{
		a := File{Path: "adv/adv_not_requested_a.proto", Package: "adv.adv_not_requested.a", GoPackage: GenCheckBase + "adv_not_requested/a", Msgs: []M{{Name: "A", Fields: []F{{Name: "type", Num: 1, Kind: String}}}}}.Build()
		b := File{Path: "adv/adv_not_requested_b.proto", Package: "adv.adv_not_requested.b", GoPackage: GenCheckBase + "adv_not_requested/b", Deps: []string{a.GetName()}, Msgs: []M{{Name: "B", Fields: []F{{Name: "a", Num: 1, Kind: Message, TypeName: ".adv.adv_not_requested.a.A"}}}}}.Build()
		add(advFD("adv_nothing_requested", "empty file_to_generate", ExpNoFiles, nil, a, b))
		add(advFD("adv_dependency_not_requested", "only the importing file is requested; the imported one (with a renamed field) is not", ExpFilesNoCompile, []string{b.GetName()}, a, b))
	}
	return out
}

// allKindFieldsFilter: like allKindFields but only the kinds that may be [packed=false] (no string/bytes/message)
func allKindFieldsFilter(prefix string, start int32, pkg string, mod func(*F)) []F {
	var out []F
	for _, f := range allKindFields(prefix, start, pkg, mod) {
		if f.Kind == String || f.Kind == Bytes || f.Kind == Message {
			continue
		}
		out = append(out, f)
	}
	return out
}

func appendVarint(b []byte, v uint64) []byte {
	for v >= 0x80 {
		b = append(b, byte(v)|0x80)
		v >>= 7
	}
	return append(b, byte(v))
}

// appendStrOpt appends a length-delimited record (string / message option value)
func appendStrOpt(b []byte, num int32, s string) []byte {
	b = appendVarint(b, uint64(num)<<3|2)
	b = appendVarint(b, uint64(len(s)))
	return append(b, s...)
}
