package corpus

import (
	"os"
	"fmt"
	"strings"

	"google.golang.org/protobuf/proto"
	"google.golang.org/protobuf/types/descriptorpb"

	_ "github.com/cosmos/cosmos-proto" // cosmos_proto/cosmos.proto
	_ "github.com/cosmos/cosmos-proto/internal/testprotos/test3"
	_ "github.com/cosmos/cosmos-proto/testpb"
	_ "google.golang.org/protobuf/types/known/anypb"
	_ "google.golang.org/protobuf/types/known/durationpb"
	_ "google.golang.org/protobuf/types/known/fieldmaskpb"
	_ "google.golang.org/protobuf/types/known/structpb"
	_ "google.golang.org/protobuf/types/known/timestamppb"
	_ "google.golang.org/protobuf/types/known/wrapperspb"
)

const GenBase = "github.com/cosmos/cosmos-proto/verifh/gen/"

var TagNums = []int32{1, 15, 16, 2047, 2048, 262143, 262144, 33554431, 33554432, 268435455, 268435456, 536870911}

func sc(kind T, pkg string) (T, string) {
	if kind == Enum {
		return kind, "." + pkg + ".En"
	}
	return kind, ""
}

func enumEn() E {
	return E{Name: "En", Values: []EV{{"EN_ZERO", 0}, {"EN_ONE", 1}, {"EN_NEG", -1}, {"EN_SPARSE", 1000}, {"EN_MAX", 2147483647}, {"EN_MIN", -2147483648}}}
}

// Matrix: kind x shape x tag width, interleaved oneofs, maps, recursion.
func Matrix() Set {
	pkg := "vm"
	var msgs []M
	// Sc: every scalar kind singular + singular message
	scm := M{Name: "Sc"}
	for i, k := range ScalarKinds {
		kk, tn := sc(k, pkg)
		scm.Fields = append(scm.Fields, F{Name: "f_" + KindName(k), Num: int32(i + 1), Kind: kk, TypeName: tn})
	}
	scm.Fields = append(scm.Fields, F{Name: "f_msg", Num: 17, Kind: Message, TypeName: ".vm.Leaf"}, F{Name: "f_self", Num: 18, Kind: Message, TypeName: ".vm.Sc"})
	msgs = append(msgs, scm)
	// Leaf: tiny message used everywhere
	msgs = append(msgs, M{Name: "Leaf", Fields: []F{{Name: "s", Num: 1, Kind: String}, {Name: "n", Num: 2, Kind: Int64}, {Name: "m", Num: 3, Kind: Int32, Map: true, KeyKind: String}, {Name: "b", Num: 4, Kind: Bytes}}})
	// Rp: repeated (packed by default) of every kind, declared in DESCENDING number order to
	// exercise the marshal-order sort; Ru: same with [packed=false]
	rp := M{Name: "Rp"}
	ru := M{Name: "Ru"}
	for i := len(ScalarKinds) - 1; i >= 0; i-- {
		k := ScalarKinds[i]
		kk, tn := sc(k, pkg)
		rp.Fields = append(rp.Fields, F{Name: "r_" + KindName(k), Num: int32(i + 1), Kind: kk, TypeName: tn, Rep: true})
		if k != String && k != Bytes {
			ru.Fields = append(ru.Fields, F{Name: "u_" + KindName(k), Num: int32(100 + i), Kind: kk, TypeName: tn, Rep: true, Unpacked: true})
		}
	}
	rp.Fields = append(rp.Fields, F{Name: "r_msg", Num: 17, Kind: Message, TypeName: ".vm.Leaf", Rep: true}, F{Name: "r_self", Num: 18, Kind: Message, TypeName: ".vm.Rp", Rep: true})
	msgs = append(msgs, rp, ru)
	// Oo: three interleaved oneofs whose members are numbered below/between/above plain fields.
	// (sint32/sint64 members live in a separate set: see OneofSint)
	oo := M{Name: "Oo"}
	groups := map[string][]F{}
	n := int32(1)
	for i, k := range ScalarKinds {
		if k == Sint32 || k == Sint64 {
			continue
		}
		kk, tn := sc(k, pkg)
		grp := []string{"first", "second", "third"}[i%3]
		num := n
		switch i % 3 {
		case 0:
			num = n // below 10
		case 1:
			num = 10 + n // between 10 and 30
		case 2:
			num = 40 + n // above
		}
		n++
		groups[grp] = append(groups[grp], F{Name: "o_" + KindName(k), Num: num, Kind: kk, TypeName: tn, Oneof: grp})
	}
	groups["second"] = append(groups["second"], F{Name: "o_msg", Num: 60, Kind: Message, TypeName: ".vm.Leaf", Oneof: "second"})
	groups["first"] = append(groups["first"], F{Name: "o_self", Num: 9, Kind: Message, TypeName: ".vm.Oo", Oneof: "first"})
	// declaration order: third's members first, then plain fields, interleaved with the other groups
	oo.Fields = append(oo.Fields, groups["third"]...)
	oo.Fields = append(oo.Fields, F{Name: "p30", Num: 30, Kind: Int64, Rep: true}, F{Name: "p10", Num: 10, Kind: Int32})
	oo.Fields = append(oo.Fields, groups["first"]...)
	oo.Fields = append(oo.Fields, F{Name: "p70", Num: 70, Kind: Bool})
	oo.Fields = append(oo.Fields, groups["second"]...)
	oo.Fields = append(oo.Fields, F{Name: "p20", Num: 20, Kind: String})
	msgs = append(msgs, oo)
	// Mp: every key kind x a rotating choice of value kinds, plus every value kind under string/int32 keys
	mp := M{Name: "Mp"}
	num := int32(1)
	vals := append(append([]T{}, ScalarKinds...), Message)
	for i, kk := range KeyKinds {
		for j := 0; j < 3; j++ {
			vk := vals[(i*3+j*7)%len(vals)]
			f := F{Name: fmt.Sprintf("m_%s_%s", KindName(kk), KindName(vk)), Num: num, Kind: vk, Map: true, KeyKind: kk}
			if vk == Enum {
				f.TypeName = ".vm.En"
			}
			if vk == Message {
				f.TypeName = ".vm.Leaf"
			}
			dup := false
			for _, e := range mp.Fields {
				dup = dup || e.Name == f.Name
			}
			if !dup {
				mp.Fields = append(mp.Fields, f)
				num++
			}
		}
	}
	for _, vk := range vals {
		for _, kk := range []T{String, Int32} {
			f := F{Name: fmt.Sprintf("m_%s_%s", KindName(kk), KindName(vk)), Num: num, Kind: vk, Map: true, KeyKind: kk}
			if vk == Enum {
				f.TypeName = ".vm.En"
			}
			if vk == Message {
				f.TypeName = ".vm.Mp"
			}
			dup := false
			for _, e := range mp.Fields {
				dup = dup || e.Name == f.Name
			}
			if !dup {
				mp.Fields = append(mp.Fields, f)
				num++
			}
		}
	}
	msgs = append(msgs, mp)
	// Tg: tag widths 1..5 bytes over kinds and shapes
	tg := M{Name: "Tg"}
	shapes := []string{"s", "r", "u", "o", "m", "msg"}
	for i, tn := range TagNums {
		k := ScalarKinds[(i*5)%len(ScalarKinds)]
		if k == Sint32 || k == Sint64 {
			k = Uint32
		}
		kk, tname := sc(k, pkg)
		f := F{Name: fmt.Sprintf("t%d", tn), Num: tn, Kind: kk, TypeName: tname}
		switch shapes[i%len(shapes)] {
		case "r":
			f.Rep = true
		case "u":
			f.Rep = true
			if k == String || k == Bytes {
				f.Kind, f.TypeName = Int32, ""
			}
			f.Unpacked = true
		case "o":
			f.Oneof = "tagone"
		case "m":
			f.Map, f.KeyKind = true, String
		case "msg":
			f.Kind, f.TypeName = Message, ".vm.Leaf"
		}
		tg.Fields = append(tg.Fields, f)
	}
	tg.Fields = append(tg.Fields, F{Name: "t_o2", Num: 300000000, Kind: String, Oneof: "tagone"})
	{ // oneof members must be declared consecutively: move them to the end, keeping relative order
		var plain, members []F
		for _, f := range tg.Fields {
			if f.Oneof != "" {
				members = append(members, f)
			} else {
				plain = append(plain, f)
			}
		}
		tg.Fields = append(plain[:len(plain)/2:len(plain)/2], append(members, plain[len(plain)/2:]...)...)
	}
	msgs = append(msgs, tg)
	// Rc / Rd: mutual recursion with containers at every level
	msgs = append(msgs, M{Name: "Rc", Fields: []F{
		{Name: "child", Num: 1, Kind: Message, TypeName: ".vm.Rc"},
		{Name: "kids", Num: 2, Kind: Message, TypeName: ".vm.Rc", Rep: true},
		{Name: "by_name", Num: 3, Kind: Message, TypeName: ".vm.Rd", Map: true, KeyKind: String},
		{Name: "o_rc", Num: 4, Kind: Message, TypeName: ".vm.Rc", Oneof: "alt"},
		{Name: "o_x", Num: 5, Kind: Int32, Oneof: "alt"},
		{Name: "o_rd", Num: 6, Kind: Message, TypeName: ".vm.Rd", Oneof: "alt"},
		{Name: "tagm", Num: 7, Kind: Int64, Map: true, KeyKind: Int32},
		{Name: "name", Num: 8, Kind: String},
	}})
	// enums nested in messages at different depths, in an earlier and in a later top-level message (the file's enum table is in
	// depth-first declaration order; every enum-typed field and every enum's own descriptor must point at the right entry)
	msgs = append(msgs, M{Name: "Eo", Fields: []F{
		{Name: "deep", Num: 1, Kind: Enum, TypeName: ".vm.Eo.Mid.Inner.Deep"}, {Name: "mids", Num: 2, Kind: Enum, TypeName: ".vm.Eo.Mid.Level", Rep: true},
		{Name: "flag", Num: 3, Kind: Enum, TypeName: ".vm.El.Flag"}, {Name: "top", Num: 4, Kind: Enum, TypeName: ".vm.Eo.Top", Map: true, KeyKind: String}},
		Enums: []E{{Name: "Top", Values: []EV{{"TOP_ZERO", 0}, {"TOP_ONE", 1}}}},
		Nested: []M{{Name: "Mid", Enums: []E{{Name: "Level", Values: []EV{{"LEVEL_ZERO", 0}, {"LEVEL_LOW", -3}, {"LEVEL_HIGH", 300}}}},
			Nested: []M{{Name: "Inner", Fields: []F{{Name: "d", Num: 1, Kind: Enum, TypeName: ".vm.Eo.Mid.Inner.Deep", Oneof: "k"}, {Name: "l", Num: 2, Kind: Enum, TypeName: ".vm.Eo.Mid.Level", Oneof: "k"}},
				Enums: []E{{Name: "Deep", Values: []EV{{"DEEP_ZERO", 0}, {"DEEP_ONE", 1}, {"DEEP_TWO", 2}}}}}}}}})
	msgs = append(msgs, M{Name: "El", Fields: []F{{Name: "f", Num: 1, Kind: Enum, TypeName: ".vm.El.Flag"}, {Name: "deep", Num: 2, Kind: Enum, TypeName: ".vm.Eo.Mid.Inner.Deep"}},
		Enums: []E{{Name: "Flag", Values: []EV{{"FLAG_ZERO", 0}, {"FLAG_SET", 5}}}}})
	// Rm: recursion through a map value (map-entry subfields that overrun their entry re-read the same bytes at every level)
	msgs = append(msgs, M{Name: "Rm", Fields: []F{
		{Name: "m", Num: 1, Kind: Message, TypeName: ".vm.Rm", Map: true, KeyKind: Int32},
		{Name: "s", Num: 2, Kind: Bytes, Map: true, KeyKind: String},
		{Name: "x", Num: 3, Kind: Int32},
	}})
	msgs = append(msgs, M{Name: "Rd", Fields: []F{
		{Name: "rc", Num: 1, Kind: Message, TypeName: ".vm.Rc"},
		{Name: "vals", Num: 2, Kind: Sint64, Rep: true},
		{Name: "m", Num: 3, Kind: Bytes, Map: true, KeyKind: Bool},
		{Name: "nested", Num: 4, Kind: Message, TypeName: ".vm.Rd.In"},
		{Name: "e", Num: 5, Kind: Enum, TypeName: ".vm.Rd.In.Deep"},
	}, Nested: []M{{Name: "In", Fields: []F{{Name: "x", Num: 1, Kind: Fixed32}, {Name: "back", Num: 2, Kind: Message, TypeName: ".vm.Rd"}},
		Enums: []E{{Name: "Deep", Values: []EV{{"DEEP_A", 0}, {"DEEP_B", 7}, {"DEEP_B2", 7}}, Alias: true}}}}})
	f := File{Path: "vm/matrix.proto", Package: pkg, GoPackage: GenBase + "vm", Msgs: msgs, Enums: []E{enumEn()}}
	fd := f.Build()
	// a service whose methods have pairwise different input and output types (dependency-index sub-lists of the file descriptor)
	fd.Service = []*descriptorpb.ServiceDescriptorProto{svc("MatrixService",
		[3]string{"Get", ".vm.Rc", ".vm.Rd"}, [3]string{"Put", ".vm.Rd", ".vm.Rm"}, [3]string{"Deep", ".vm.Rd.In", ".vm.Leaf"})}
	return Set{Name: "vm", Files: []*descriptorpb.FileDescriptorProto{fd}, Generate: []string{"vm/matrix.proto"}, Param: "features=protoc+fast"}
}

// OneofSint: sint32/sint64 members of a oneof (kept apart: the size template had a brace bug for them)
func OneofSint() Set {
	m := M{Name: "Oz", Fields: []F{
		{Name: "a", Num: 1, Kind: Int32},
		{Name: "z32", Num: 2, Kind: Sint32, Oneof: "zz"},
		{Name: "z64", Num: 3, Kind: Sint64, Oneof: "zz"},
		{Name: "s", Num: 4, Kind: String, Oneof: "zz"},
		{Name: "b", Num: 5, Kind: Bool},
	}}
	f := File{Path: "vmz/oz.proto", Package: "vmz", GoPackage: GenBase + "vmz", Msgs: []M{m}}
	return Set{Name: "vmz", Files: []*descriptorpb.FileDescriptorProto{f.Build()}, Generate: []string{"vmz/oz.proto"}, Param: "features=protoc+fast", Note: "oneof-sint"}
}

// Wkt: well-known types (decoded/encoded by protobuf-go) in every position, across Go packages
func Wkt() Set {
	m := M{Name: "Wk", Fields: []F{
		{Name: "any", Num: 1, Kind: Message, TypeName: ".google.protobuf.Any"},
		{Name: "ts", Num: 2, Kind: Message, TypeName: ".google.protobuf.Timestamp"},
		{Name: "dur", Num: 3, Kind: Message, TypeName: ".google.protobuf.Duration"},
		{Name: "anys", Num: 4, Kind: Message, TypeName: ".google.protobuf.Any", Rep: true},
		{Name: "tsm", Num: 5, Kind: Message, TypeName: ".google.protobuf.Timestamp", Map: true, KeyKind: Int64},
		{Name: "o_dur", Num: 6, Kind: Message, TypeName: ".google.protobuf.Duration", Oneof: "w"},
		{Name: "o_sv", Num: 7, Kind: Message, TypeName: ".google.protobuf.StringValue", Oneof: "w"},
		{Name: "fm", Num: 8, Kind: Message, TypeName: ".google.protobuf.FieldMask"},
		{Name: "bv", Num: 9, Kind: Message, TypeName: ".google.protobuf.BytesValue"},
		{Name: "i64", Num: 10, Kind: Message, TypeName: ".google.protobuf.Int64Value", Rep: true},
		{Name: "leaf", Num: 11, Kind: Message, TypeName: ".vm.Leaf"},
		{Name: "x", Num: 12, Kind: Uint32},
	}}
	f := File{Path: "vw/wk.proto", Package: "vw", GoPackage: GenBase + "vw", Msgs: []M{m},
		Deps: []string{"google/protobuf/any.proto", "google/protobuf/timestamp.proto", "google/protobuf/duration.proto", "google/protobuf/wrappers.proto", "google/protobuf/field_mask.proto", "vm/matrix.proto"}}
	mx := Matrix()
	files := []*descriptorpb.FileDescriptorProto{
		Registered("google/protobuf/any.proto"), Registered("google/protobuf/timestamp.proto"), Registered("google/protobuf/duration.proto"),
		Registered("google/protobuf/wrappers.proto"), Registered("google/protobuf/field_mask.proto"), mx.Files[0], f.Build()}
	return Set{Name: "vw", Files: files, Generate: []string{"vw/wk.proto"}, Param: "features=protoc+fast"}
}

// Proto2Sub ("vq"): proto3 messages holding messages of an IMPORTED PROTO2 type that has required fields
// (google.protobuf.UninterpretedOption: its NamePart declares `required string name_part` and `required bool is_extension`;
// the other fields are proto2 optional scalars with explicit presence) in every position: singular, repeated, map value, oneof
// member, directly (NamePart) and transitively through other generated messages. A generated message of this set is initialised
// iff every NamePart below it has both fields set: whatever the generated ProtoMethods say about it must agree with the
// library's walk over a reference message. The codec / reflection models have no shape for explicit-presence scalars, so only
// the engines that compare implementations load this set (runner: modelFreeSets).
func Proto2Sub() Set {
	uo, np := ".google.protobuf.UninterpretedOption", ".google.protobuf.UninterpretedOption.NamePart"
	q := M{Name: "Q", Fields: []F{
		{Name: "opt", Num: 1, Kind: Message, TypeName: uo},
		{Name: "opts", Num: 2, Kind: Message, TypeName: uo, Rep: true},
		{Name: "optm", Num: 3, Kind: Message, TypeName: uo, Map: true, KeyKind: String},
		{Name: "o_opt", Num: 4, Kind: Message, TypeName: uo, Oneof: "alt"},
		{Name: "o_part", Num: 5, Kind: Message, TypeName: np, Oneof: "alt"},
		{Name: "o_x", Num: 6, Kind: Int32, Oneof: "alt"},
		{Name: "part", Num: 7, Kind: Message, TypeName: np},
		{Name: "child", Num: 8, Kind: Message, TypeName: ".vq.Q"},
		{Name: "holders", Num: 9, Kind: Message, TypeName: ".vq.Holder", Rep: true},
		{Name: "x", Num: 10, Kind: Int32},
		{Name: "s", Num: 11, Kind: String},
	}}
	// Holder: reaches the proto2 type only through another generated message / a map of generated messages
	h := M{Name: "Holder", Fields: []F{
		{Name: "q", Num: 1, Kind: Message, TypeName: ".vq.Q"},
		{Name: "by_id", Num: 2, Kind: Message, TypeName: ".vq.Q", Map: true, KeyKind: Int32},
		{Name: "parts", Num: 3, Kind: Message, TypeName: np, Rep: true},
		{Name: "n", Num: 4, Kind: Int64},
	}}
	// Plain: no proto2 type below it (always initialised)
	pl := M{Name: "Plain", Fields: []F{{Name: "a", Num: 1, Kind: Int32}, {Name: "b", Num: 2, Kind: Bytes}}}
	f := File{Path: "vq/q.proto", Package: "vq", GoPackage: GenBase + "vq", Msgs: []M{q, h, pl}, Deps: []string{"google/protobuf/descriptor.proto"}}
	return Set{Name: "vq", Files: []*descriptorpb.FileDescriptorProto{Registered("google/protobuf/descriptor.proto"), f.Build()}, Generate: []string{"vq/q.proto"}, Param: "features=protoc+fast"}
}

// Renamed copies of the checked-in schemas, regenerated by the working-tree generator.
func renameTypes(fd *descriptorpb.FileDescriptorProto, oldPkg, newPkg string, rename map[string]string) {
	fix := func(tn *string) {
		if tn == nil {
			return
		}
		old := *tn
		if oldPkg == "" {
			if strings.HasPrefix(old, ".google.") || strings.HasPrefix(old, ".cosmos_proto.") {
				return
			}
			*tn = "." + newPkg + old
		} else if strings.HasPrefix(old, "."+oldPkg+".") {
			*tn = "." + newPkg + old[len(oldPkg)+1:]
		}
	}
	var walk func(m *descriptorpb.DescriptorProto)
	walk = func(m *descriptorpb.DescriptorProto) {
		for _, f := range m.Field {
			fix(f.TypeName)
		}
		for _, n := range m.NestedType {
			walk(n)
		}
	}
	for _, m := range fd.MessageType {
		walk(m)
	}
	for _, s := range fd.Service {
		for _, me := range s.Method {
			fix(me.InputType)
			fix(me.OutputType)
		}
	}
	for i, d := range fd.Dependency {
		if n, ok := rename[d]; ok {
			fd.Dependency[i] = n
		}
	}
	fd.Name = proto.String(rename[fd.GetName()])
	fd.Package = proto.String(newPkg)
	fd.SourceCodeInfo = nil
}

func CheckedInTestpb() Set {
	rename := map[string]string{"1.proto": "vtestpb/1.proto", "2.proto": "vtestpb/2.proto", "3.proto": "vtestpb/3.proto"}
	var files []*descriptorpb.FileDescriptorProto
	files = append(files, Registered("google/protobuf/descriptor.proto"), Registered("cosmos_proto/cosmos.proto"))
	var gen []string
	for _, p := range []string{"2.proto", "1.proto", "3.proto"} {
		fd := Registered(p)
		renameTypes(fd, "", "vtestpb", rename)
		fd.Options.GoPackage = proto.String(GenBase + "vtestpb")
		files = append(files, fd)
		gen = append(gen, fd.GetName())
	}
	return Set{Name: "vtestpb", Files: files, Generate: gen, Param: "features=protoc+fast,Mcosmos_proto/cosmos.proto=github.com/cosmos/cosmos-proto;cosmos_proto"}
}

func CheckedInTest3() Set {
	base := "internal/testprotos/test3/"
	rename := map[string]string{base + "test.proto": "vtest3/test.proto", base + "test_import.proto": "vtest3/test_import.proto", base + "test_nesting.proto": "vtest3/test_nesting.proto"}
	var files []*descriptorpb.FileDescriptorProto
	var gen []string
	for _, p := range []string{"test_import.proto", "test.proto", "test_nesting.proto"} {
		fd := Registered(base + p)
		renameTypes(fd, "goproto.proto.test3", "vtest3", rename)
		fd.Options.GoPackage = proto.String(GenBase + "vtest3")
		files = append(files, fd)
		gen = append(gen, fd.GetName())
	}
	return Set{Name: "vtest3", Files: files, Generate: gen, Param: "features=protoc+fast"}
}

// All sets whose generated packages are linked into the runner (when they generate and compile).
func Linked() []Set {
	sets := []Set{Matrix(), OneofSint(), Wkt(), CheckedInTestpb(), CheckedInTest3(), Proto2Sub(), ClassCov()}
	// + random schema sets of the run's seed (VERIF_LINKED_RANDOM = "<seed>:<count>"), so that the codec, decode and
	// reflection engines also run on schemas nobody wrote by hand
	var seed uint64
	var n int
	if _, err := fmt.Sscanf(os.Getenv("VERIF_LINKED_RANDOM"), "%d:%d", &seed, &n); err == nil {
		for i := 0; i < n; i++ {
			sets = append(sets, RandomSet(seed, i, "vr", GenBase, true))
		}
	}
	return sets
}
