// Package corpus builds the schema corpus (FileDescriptorProtos) without protoc.
package corpus

import (
	"fmt"
	"strings"

	"google.golang.org/protobuf/proto"
	"google.golang.org/protobuf/reflect/protodesc"
	"google.golang.org/protobuf/reflect/protoreflect"
	"google.golang.org/protobuf/reflect/protoregistry"
	"google.golang.org/protobuf/types/descriptorpb"
)

type T = descriptorpb.FieldDescriptorProto_Type

const (
	Double   = descriptorpb.FieldDescriptorProto_TYPE_DOUBLE
	Float    = descriptorpb.FieldDescriptorProto_TYPE_FLOAT
	Int64    = descriptorpb.FieldDescriptorProto_TYPE_INT64
	Uint64   = descriptorpb.FieldDescriptorProto_TYPE_UINT64
	Int32    = descriptorpb.FieldDescriptorProto_TYPE_INT32
	Fixed64  = descriptorpb.FieldDescriptorProto_TYPE_FIXED64
	Fixed32  = descriptorpb.FieldDescriptorProto_TYPE_FIXED32
	Bool     = descriptorpb.FieldDescriptorProto_TYPE_BOOL
	String   = descriptorpb.FieldDescriptorProto_TYPE_STRING
	Message  = descriptorpb.FieldDescriptorProto_TYPE_MESSAGE
	Bytes    = descriptorpb.FieldDescriptorProto_TYPE_BYTES
	Uint32   = descriptorpb.FieldDescriptorProto_TYPE_UINT32
	Enum     = descriptorpb.FieldDescriptorProto_TYPE_ENUM
	Sfixed32 = descriptorpb.FieldDescriptorProto_TYPE_SFIXED32
	Sfixed64 = descriptorpb.FieldDescriptorProto_TYPE_SFIXED64
	Sint32   = descriptorpb.FieldDescriptorProto_TYPE_SINT32
	Sint64   = descriptorpb.FieldDescriptorProto_TYPE_SINT64
)

var ScalarKinds = []T{Double, Float, Int32, Int64, Uint32, Uint64, Sint32, Sint64, Fixed32, Fixed64, Sfixed32, Sfixed64, Bool, String, Bytes, Enum}
var KeyKinds = []T{Int32, Int64, Uint32, Uint64, Sint32, Sint64, Fixed32, Fixed64, Sfixed32, Sfixed64, Bool, String}

func KindName(t T) string { return strings.ToLower(strings.TrimPrefix(t.String(), "TYPE_")) }

// F describes one field. TypeName is a fully-qualified name (leading dot) for Message/Enum kinds.
type F struct {
	Name     string
	Num      int32
	Kind     T
	TypeName string
	Rep      bool
	Unpacked bool // [packed=false]
	Oneof    string
	// map<KeyKind, Kind/TypeName>
	Map     bool
	KeyKind T
}

type M struct {
	Name   string
	Fields []F
	Nested []M
	Enums  []E
}
type E struct {
	Name   string
	Values []EV
	Alias  bool
}
type EV struct {
	Name string
	Num  int32
}

func camel(s string) string {
	var b strings.Builder
	up := true
	for _, c := range s {
		if c == '_' {
			up = true
			continue
		}
		if up && c >= 'a' && c <= 'z' {
			c -= 32
		}
		up = false
		b.WriteRune(c)
	}
	return b.String()
}

func buildEnum(e E) *descriptorpb.EnumDescriptorProto {
	ed := &descriptorpb.EnumDescriptorProto{Name: proto.String(e.Name)}
	for _, v := range e.Values {
		ed.Value = append(ed.Value, &descriptorpb.EnumValueDescriptorProto{Name: proto.String(v.Name), Number: proto.Int32(v.Num)})
	}
	if e.Alias {
		ed.Options = &descriptorpb.EnumOptions{AllowAlias: proto.Bool(true)}
	}
	return ed
}

func buildMsg(m M, scope string) *descriptorpb.DescriptorProto {
	md := &descriptorpb.DescriptorProto{Name: proto.String(m.Name)}
	full := scope + "." + m.Name
	oneofIdx := map[string]int32{}
	for _, f := range m.Fields {
		fd := &descriptorpb.FieldDescriptorProto{
			Name:     proto.String(f.Name),
			JsonName: proto.String(jsonName(f.Name)),
			Number:   proto.Int32(f.Num),
			Label:    descriptorpb.FieldDescriptorProto_LABEL_OPTIONAL.Enum(),
			Type:     f.Kind.Enum(),
		}
		if f.Kind == Message || f.Kind == Enum {
			fd.TypeName = proto.String(f.TypeName)
		}
		if f.Rep {
			fd.Label = descriptorpb.FieldDescriptorProto_LABEL_REPEATED.Enum()
			if f.Unpacked {
				fd.Options = &descriptorpb.FieldOptions{Packed: proto.Bool(false)}
			}
		}
		if f.Oneof != "" {
			idx, ok := oneofIdx[f.Oneof]
			if !ok {
				idx = int32(len(md.OneofDecl))
				oneofIdx[f.Oneof] = idx
				md.OneofDecl = append(md.OneofDecl, &descriptorpb.OneofDescriptorProto{Name: proto.String(f.Oneof)})
			}
			fd.OneofIndex = proto.Int32(idx)
		}
		if f.Map {
			entry := camel(f.Name) + "Entry"
			val := &descriptorpb.FieldDescriptorProto{Name: proto.String("value"), JsonName: proto.String("value"), Number: proto.Int32(2),
				Label: descriptorpb.FieldDescriptorProto_LABEL_OPTIONAL.Enum(), Type: f.Kind.Enum()}
			if f.Kind == Message || f.Kind == Enum {
				val.TypeName = proto.String(f.TypeName)
			}
			md.NestedType = append(md.NestedType, &descriptorpb.DescriptorProto{
				Name: proto.String(entry),
				Field: []*descriptorpb.FieldDescriptorProto{
					{Name: proto.String("key"), JsonName: proto.String("key"), Number: proto.Int32(1), Label: descriptorpb.FieldDescriptorProto_LABEL_OPTIONAL.Enum(), Type: f.KeyKind.Enum()},
					val,
				},
				Options: &descriptorpb.MessageOptions{MapEntry: proto.Bool(true)},
			})
			fd.Label = descriptorpb.FieldDescriptorProto_LABEL_REPEATED.Enum()
			fd.Type = Message.Enum()
			fd.TypeName = proto.String(full + "." + entry)
		}
		md.Field = append(md.Field, fd)
	}
	for _, n := range m.Nested {
		md.NestedType = append(md.NestedType, buildMsg(n, full))
	}
	for _, e := range m.Enums {
		md.EnumType = append(md.EnumType, buildEnum(e))
	}
	return md
}

func jsonName(s string) string {
	c := camel(s)
	if c == "" {
		return c
	}
	return strings.ToLower(c[:1]) + c[1:]
}

// File assembles a proto3 file.
type File struct {
	Path      string
	Package   string
	GoPackage string
	Deps      []string
	Public    []int32
	Msgs      []M
	Enums     []E
	Proto2    bool
}

func (f File) Build() *descriptorpb.FileDescriptorProto {
	fd := &descriptorpb.FileDescriptorProto{
		Name:       proto.String(f.Path),
		Package:    proto.String(f.Package),
		Dependency: f.Deps,
		Syntax:     proto.String("proto3"),
		Options:    &descriptorpb.FileOptions{GoPackage: proto.String(f.GoPackage)},
	}
	if f.Proto2 {
		fd.Syntax = proto.String("proto2")
	}
	if f.Package == "" {
		fd.Package = nil
	}
	fd.PublicDependency = f.Public
	scope := ""
	if f.Package != "" {
		scope = "." + f.Package
	}
	for _, m := range f.Msgs {
		fd.MessageType = append(fd.MessageType, buildMsg(m, scope))
	}
	for _, e := range f.Enums {
		fd.EnumType = append(fd.EnumType, buildEnum(e))
	}
	return fd
}

// Set is what one plugin invocation receives.
type Set struct {
	Name     string // Go package directory name under harness/gen
	Files    []*descriptorpb.FileDescriptorProto
	Generate []string
	Param    string
	// ExpectFail: generator or compiler is known to fail on it (a C12 known finding key)
	Note string
}

// Validate runs protobuf-go's descriptor validation (stands in for protoc) over the set.
func (s Set) Validate() error {
	reg := new(protoregistry.Files)
	for _, f := range s.Files {
		fd, err := protodesc.NewFile(f, resolver{reg})
		if err != nil {
			return fmt.Errorf("%s: %w", f.GetName(), err)
		}
		if err := reg.RegisterFile(fd); err != nil {
			return err
		}
	}
	return nil
}

type resolver struct{ local *protoregistry.Files }

func (r resolver) FindFileByPath(p string) (protoreflect.FileDescriptor, error) {
	if fd, err := r.local.FindFileByPath(p); err == nil {
		return fd, nil
	}
	return protoregistry.GlobalFiles.FindFileByPath(p)
}
func (r resolver) FindDescriptorByName(n protoreflect.FullName) (protoreflect.Descriptor, error) {
	if d, err := r.local.FindDescriptorByName(n); err == nil {
		return d, nil
	}
	return protoregistry.GlobalFiles.FindDescriptorByName(n)
}

// Registered returns the FileDescriptorProto of a file linked into this binary.
func Registered(path string) *descriptorpb.FileDescriptorProto {
	fd, err := protoregistry.GlobalFiles.FindFileByPath(path)
	if err != nil {
		panic(err)
	}
	return protodesc.ToFileDescriptorProto(fd)
}
