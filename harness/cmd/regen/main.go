// Command regen runs a protoc-gen-go-pulsar binary on the descriptors of the six checked-in
// generated files and writes what it emits into a directory (used to carry template fixes over to
// the checked-in files by diff/patch, since protoc is not available; and by the C13/C19 checks to
// compare checked-in code with what the working-tree generator emits).
package main

import (
	"bytes"
	"fmt"
	"os"
	"os/exec"
	"path/filepath"

	"github.com/cosmos/cosmos-proto/verifh/corpus"
	"google.golang.org/protobuf/proto"
	"google.golang.org/protobuf/types/descriptorpb"
	"google.golang.org/protobuf/types/pluginpb"
)

func main() {
	plugin, outDir := os.Args[1], os.Args[2]
	reqs := []*pluginpb.CodeGeneratorRequest{
		{
			FileToGenerate: []string{"1.proto", "2.proto", "3.proto"},
			Parameter:      proto.String("features=protoc+fast,Mcosmos_proto/cosmos.proto=github.com/cosmos/cosmos-proto;cosmos_proto"),
			ProtoFile: []*descriptorpb.FileDescriptorProto{corpus.Registered("google/protobuf/descriptor.proto"), corpus.Registered("cosmos_proto/cosmos.proto"),
				corpus.Registered("2.proto"), corpus.Registered("1.proto"), corpus.Registered("3.proto")},
		},
		{
			FileToGenerate: []string{"internal/testprotos/test3/test_import.proto", "internal/testprotos/test3/test.proto", "internal/testprotos/test3/test_nesting.proto"},
			Parameter:      proto.String("features=protoc+fast"),
			ProtoFile: []*descriptorpb.FileDescriptorProto{corpus.Registered("internal/testprotos/test3/test_import.proto"),
				corpus.Registered("internal/testprotos/test3/test.proto"), corpus.Registered("internal/testprotos/test3/test_nesting.proto")},
		},
	}
	for _, req := range reqs {
		in, _ := proto.Marshal(req)
		cmd := exec.Command(plugin)
		cmd.Stdin = bytes.NewReader(in)
		var out, errb bytes.Buffer
		cmd.Stdout, cmd.Stderr = &out, &errb
		if err := cmd.Run(); err != nil {
			fmt.Println("plugin failed:", err, errb.String())
			os.Exit(1)
		}
		resp := &pluginpb.CodeGeneratorResponse{}
		if err := proto.Unmarshal(out.Bytes(), resp); err != nil || resp.Error != nil {
			fmt.Println("bad response:", err, resp.GetError())
			os.Exit(1)
		}
		for _, f := range resp.File {
			dst := filepath.Join(outDir, f.GetName())
			os.MkdirAll(filepath.Dir(dst), 0o755)
			os.WriteFile(dst, []byte(f.GetContent()), 0o644)
			fmt.Println("wrote", dst)
		}
	}
}
