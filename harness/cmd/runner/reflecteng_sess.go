package main

// reflect engine, part 2: rendering of results, the three-way session, liveness bookkeeping.

import (
	"fmt"
	"os"
	"reflect"
	"sort"
	"strconv"
	"strings"

	"google.golang.org/protobuf/proto"
	"google.golang.org/protobuf/reflect/protoreflect"
)

// ---- rendering ----------------------------------------------------------------------------------------
// raw = false: normalised (nil = empty, messages read through the implementation's own reflection):
//              what D, S and F can be compared on.
// raw = true : F only, for the model: messages as struct values through package reflect (nil kept).
func (s *rsession) msgLeaf(m protoreflect.Message, raw bool, elem bool) string {
	cmi := s.si.byName[m.Descriptor().FullName()]
	if cmi == nil {
		return "?" + string(m.Descriptor().FullName())
	}
	if raw {
		if !m.IsValid() {
			if elem {
				return "n"
			}
			return "M0"
		}
		v := s.si.fromGo(cmi, reflect.ValueOf(m.Interface())).String()
		if elem {
			return v
		}
		return "M1:" + v
	}
	v := s.si.fromPR(cmi, m).String()
	if elem {
		return v
	}
	if !m.IsValid() {
		return "M0:" + v
	}
	return "M1:" + v
}

func scalarTok(fd protoreflect.FieldDescriptor, pv protoreflect.Value) string {
	return scalarFromPR(fd, pv).String()
}

func (s *rsession) render(x *rimpl, o *outv, raw bool) (str string) {
	defer func() {
		if e := recover(); e != nil {
			str = fmt.Sprintf("render-panic(%v)", e)
		}
	}()
	var sb strings.Builder
	s.renderTo(&sb, x, o, raw, false)
	return sb.String()
}

func (s *rsession) renderTo(sb *strings.Builder, x *rimpl, o *outv, raw, elem bool) {
	switch o.k {
	case 'u', 't', 'f':
		sb.WriteByte(o.k)
	case '!':
		sb.WriteString("panic")
	case '#':
		sb.WriteString("i" + strconv.FormatInt(int64(o.fidx), 16))
	case 'i':
		sb.WriteString("inv")
	case 's':
		sb.WriteString(scalarTok(o.fd, o.pv))
	case 'y':
		sb.WriteString("y" + hx(o.unk))
	case 'F':
		if o.fidx < 0 {
			sb.WriteString("F-")
		} else {
			sb.WriteString("F" + strconv.Itoa(o.fidx))
		}
	case 'M':
		sb.WriteString(s.msgLeaf(o.m, raw, elem))
	case 'L':
		if o.l.IsValid() {
			sb.WriteString("L1:(")
		} else {
			sb.WriteString("L0:(")
		}
		for i := 0; i < o.l.Len(); i++ {
			if i > 0 {
				sb.WriteByte(' ')
			}
			s.renderTo(sb, x, x.elemOut(o.fd, o.l.Get(i)), raw, true)
		}
		sb.WriteByte(')')
	case 'P':
		if o.mp.IsValid() {
			sb.WriteString("P1:(")
		} else {
			sb.WriteString("P0:(")
		}
		var ents []outEnt
		o.mp.Range(func(k protoreflect.MapKey, v protoreflect.Value) bool {
			ents = append(ents, outEnt{key: scalarFromPR(o.fd.MapKey(), k.Value()), v: x.elemOut(o.fd.MapValue(), v)})
			return true
		})
		s.renderEnts(sb, x, ents, raw)
		sb.WriteByte(')')
	case 'Q':
		sb.WriteString("Q(")
		s.renderEnts(sb, x, o.ents, raw)
		sb.WriteByte(')')
	case 'R':
		ents := append([]outEnt{}, o.ents...)
		sort.SliceStable(ents, func(i, j int) bool { return ents[i].idx < ents[j].idx })
		sb.WriteString("R(")
		for i, e := range ents {
			if i > 0 {
				sb.WriteByte(' ')
			}
			sb.WriteString(strconv.Itoa(e.idx) + ":")
			s.renderTo(sb, x, e.v, raw, false)
		}
		sb.WriteByte(')')
	}
}

func (s *rsession) renderEnts(sb *strings.Builder, x *rimpl, ents []outEnt, raw bool) {
	sort.SliceStable(ents, func(i, j int) bool { return keyLess(ents[i].key, ents[j].key) })
	for i, e := range ents {
		if i > 0 {
			sb.WriteByte(' ')
		}
		sb.WriteString(e.key.String())
		sb.WriteByte(' ')
		s.renderTo(sb, x, e.v, raw, true)
	}
}

// ---- session --------------------------------------------------------------------------------------------
func newSession(o *out, si *schemaInfo, mi *msgInfo, class string) *rsession {
	s := &rsession{o: o, si: si, mi: mi, class: class, F: newImplF(), D: newImplD(), S: newImplS()}
	s.impls = []*rimpl{s.F, s.D, s.S}
	s.do(&rop{code: "new", r: mi.idx, a: -1})
	return s
}

// newSessionV starts from a given value of the root (HISTV lines): F and S hold structs built through
// package reflect, D the normalised value (it cannot hold nil elements: reads of those differ between the
// references and drop out as unspecified).
func newSessionV(o *out, si *schemaInfo, mi *msgInfo, class string, v *V) *rsession {
	s := &rsession{o: o, si: si, mi: mi, class: class, F: newImplF(), D: newImplD(), S: newImplS(), initV: v}
	s.impls = []*rimpl{s.F, s.D, s.S}
	s.rootF = si.toGo(mi, v)
	s.rootS = si.toGo(mi, v)
	s.rootD = si.toDyn(mi, v)
	s.F.res = []interface{}{s.rootF.Interface().(proto.Message).ProtoReflect()}
	s.S.res = []interface{}{slowOf(s.rootS.Interface().(proto.Message).ProtoReflect())}
	s.D.res = []interface{}{s.rootD}
	s.hs = []hinfo{{kind: hMsg, mi: mi, valid: true, live: true, fresh: false, root: 0}}
	return s
}

func (s *rsession) state(x *rimpl) (str string) {
	defer func() {
		if e := recover(); e != nil {
			str = fmt.Sprintf("state-panic(%v)", e)
		}
	}()
	switch x {
	case s.F:
		return s.si.normV(s.mi, s.si.fromGo(s.mi, s.rootF)).String()
	case s.S:
		return s.si.normV(s.mi, s.si.fromGo(s.mi, s.rootS)).String()
	}
	return s.si.fromPR(s.mi, s.rootD).String()
}

func (s *rsession) replay(upto int) string {
	pre := "HIST"
	iv := ""
	if s.initV != nil {
		pre = "HISTV"
		iv = " initial value " + s.initV.String()
	}
	return fmt.Sprintf("%s schema %s message %s (#%d)%s ops [%s]", pre, s.si.id, s.mi.md.FullName(), s.mi.idx, iv, strings.Join(s.ops[:upto+1], "; "))
}

func hasPrefix(p, pre []string) bool {
	if len(p) < len(pre) {
		return false
	}
	for i := range pre {
		if p[i] != pre[i] {
			return false
		}
	}
	return true
}

func (s *rsession) kill(root int, pre []string) {
	for i := range s.hs {
		h := &s.hs[i]
		if h.kind != hNone && h.live && h.valid && h.root == root && hasPrefix(h.path, pre) {
			h.live = false
		}
	}
}
func (s *rsession) killRoot(root int) { s.kill(root, nil) }

func sub(p []string, seg string) []string {
	return append(append([]string{}, p...), seg)
}

// members of the oneof that field f belongs to (nil when f is not a member)
func oneofMembers(mi *msgInfo, f int) []int {
	oi := mi.fields[f].oneofIdx
	if oi < 0 {
		return nil
	}
	var out []int
	for i, fi := range mi.fields {
		if fi.oneofIdx == oi {
			out = append(out, i)
		}
	}
	return out
}

// bookkeeping after a step whose reference outcome is out (nil-safe for panics)
func (s *rsession) track(op *rop, out *outv) {
	nh := hinfo{}
	idx := len(s.hs)
	if op.code == "new" {
		s.hs = append(s.hs, hinfo{kind: hMsg, mi: s.si.msgs[op.r], valid: true, live: true, fresh: idx != 0, root: idx})
		return
	}
	if op.code == "nil" || op.code == "zero" {
		s.hs = append(s.hs, hinfo{kind: hMsg, mi: s.si.msgs[op.r], valid: false, live: true, root: -1})
		return
	}
	recv := s.hs[op.r]
	panicked := out.k == '!'
	childMsg := func(fd protoreflect.FieldDescriptor) *msgInfo { return s.si.byName[fd.Message().FullName()] }
	if !panicked {
		switch op.code {
		case "get", "mut":
			fd := recv.mi.fields[op.f].fd
			seg := "f" + strconv.Itoa(op.f)
			switch out.k {
			case 'M':
				nh = hinfo{kind: hMsg, mi: childMsg(fd), valid: out.m.IsValid(), live: true, root: recv.root, path: sub(recv.path, seg)}
			case 'L':
				nh = hinfo{kind: hList, mi: recv.mi, fidx: op.f, valid: out.l.IsValid(), live: true, root: recv.root, path: sub(recv.path, seg)}
			case 'P':
				nh = hinfo{kind: hMap, mi: recv.mi, fidx: op.f, valid: out.mp.IsValid(), live: true, root: recv.root, path: sub(recv.path, seg)}
			}
			if !recv.valid {
				nh.valid = false
			}
		case "newf":
			fd := recv.mi.fields[op.f].fd
			switch out.k {
			case 'M':
				nh = hinfo{kind: hMsg, mi: childMsg(fd), valid: true, live: true, fresh: true, root: idx}
			case 'L':
				nh = hinfo{kind: hList, mi: recv.mi, fidx: op.f, valid: true, live: true, fresh: true, root: idx}
			case 'P':
				nh = hinfo{kind: hMap, mi: recv.mi, fidx: op.f, valid: true, live: true, fresh: true, root: idx}
			}
		case "lget":
			if out.k == 'M' {
				nh = hinfo{kind: hMsg, mi: childMsg(recv.fd()), valid: out.m.IsValid(), live: true, root: recv.root, path: sub(recv.path, "i"+strconv.FormatInt(op.n, 10))}
			}
		case "lappm":
			if out.k == 'M' {
				ref := s.D
				if s.softRef {
					ref = s.S
				}
				n := ref.res[op.r].(protoreflect.List).Len() - 1
				nh = hinfo{kind: hMsg, mi: childMsg(recv.fd()), valid: true, live: true, root: recv.root, path: sub(recv.path, "i"+strconv.Itoa(n))}
			}
		case "lnew":
			if out.k == 'M' {
				nh = hinfo{kind: hMsg, mi: childMsg(recv.fd()), valid: true, live: true, fresh: true, root: idx}
			}
		case "mnewv":
			if out.k == 'M' {
				nh = hinfo{kind: hMsg, mi: childMsg(recv.fd().MapValue()), valid: true, live: true, fresh: true, root: idx}
			}
		case "mget", "mmut":
			if out.k == 'M' {
				nh = hinfo{kind: hMsg, mi: childMsg(recv.fd().MapValue()), valid: out.m.IsValid(), live: true, root: recv.root, path: sub(recv.path, "k"+op.key.String())}
			}
		}
		// what dies
		killArg := func() {
			if op.a >= 0 && s.hs[op.a].valid {
				if s.hs[op.a].fresh {
					s.killRoot(s.hs[op.a].root)
				} else {
					s.kill(s.hs[op.a].root, s.hs[op.a].path)
				}
			}
		}
		switch op.code {
		case "set", "clear":
			if mem := oneofMembers(recv.mi, op.f); mem != nil {
				for _, f := range mem {
					s.kill(recv.root, sub(recv.path, "f"+strconv.Itoa(f)))
				}
			} else {
				s.kill(recv.root, sub(recv.path, "f"+strconv.Itoa(op.f)))
			}
			killArg()
		case "mut":
			for _, f := range oneofMembers(recv.mi, op.f) {
				if f != op.f {
					s.kill(recv.root, sub(recv.path, "f"+strconv.Itoa(f)))
				}
			}
		case "lset":
			s.kill(recv.root, sub(recv.path, "i"+strconv.FormatInt(op.n, 10)))
			killArg()
		case "lapp":
			killArg()
		case "ltrunc":
			for i := range s.hs {
				h := &s.hs[i]
				if h.kind != hNone && h.live && h.valid && h.root == recv.root && len(h.path) > len(recv.path) && hasPrefix(h.path, recv.path) {
					seg := h.path[len(recv.path)]
					if n, err := strconv.ParseInt(seg[1:], 10, 64); err == nil && seg[0] == 'i' && n >= op.n {
						h.live = false
					}
				}
			}
		case "mset":
			s.kill(recv.root, sub(recv.path, "k"+op.key.String()))
			killArg()
		case "mclear":
			s.kill(recv.root, sub(recv.path, "k"+op.key.String()))
		case "reset", "merge":
			for i := range s.hs {
				h := &s.hs[i]
				if i != op.r && h.kind != hNone && h.live && h.valid && h.root == recv.root && hasPrefix(h.path, recv.path) {
					h.live = false
				}
			}
		}
	}
	if nh.kind != hNone && !nh.valid {
		nh.root, nh.path, nh.fresh = -1, nil, false
	}
	s.hs = append(s.hs, nh)
}

// do executes one operation on the three implementations, compares, records. It returns false when the
// history ends here (a property failure, or a step the two references disagree on).
func (s *rsession) do(op *rop) bool {
	if s.stopped {
		return false
	}
	idx := len(s.ops)
	s.ops = append(s.ops, op.tok())
	var outs [3]*outv
	var norm [3]string
	if s.noModel && op.code == "merge" && s.mergeUnsafe(op) {
		s.ops = s.ops[:idx]
		s.o.count("alias_merge_of_related_messages_skipped")
		return true
	}
	for i, x := range s.impls {
		h, o := s.apply(x, op)
		x.res = append(x.res, h)
		outs[i] = o
	}
	if s.noModel && op.a >= 0 && s.anyCycle() {
		// a message was stored below itself: not a message any more (no implementation can print, compare or marshal it)
		s.o.count("alias_cycle_ends_history")
		s.ops = s.ops[:idx]
		for _, x := range s.impls {
			x.res = x.res[:len(x.res)-1]
		}
		s.stopped = true
		return false
	}
	for i, x := range s.impls {
		h, o := x.res[len(x.res)-1], outs[i]
		if op.code == "new" && len(x.res) == 1 {
			switch x {
			case s.F:
				s.rootF = reflect.ValueOf(h.(protoreflect.Message).Interface())
			case s.S:
				s.rootS = reflect.ValueOf(h.(protoreflect.Message).Interface())
			default:
				s.rootD = h.(protoreflect.Message)
			}
		}
		norm[i] = s.render(x, o, false) + " | " + s.state(x)
	}
	s.raw = append(s.raw, s.render(s.F, outs[0], true)+"|"+s.si.fromGo(s.mi, s.rootF).String())
	s.lastOut = outs[1]
	recvInvalid := op.code != "new" && op.code != "nil" && op.code != "zero" && !s.hs[op.r].valid
	cls := op.code
	if recvInvalid {
		cls += "@invalid"
	}
	s.o.count("op_" + cls + "_" + string(outs[0].k))
	key := "reflect/" + s.si.id + "." + string(s.mi.md.Name()) + "/" + op.code
	if op.code == "mut" && s.hs[op.r].valid && outs[0].k == 'M' && !outs[0].m.IsValid() {
		key = "reflect/mutable-oneof-wrapper-nil" // Mutable returns a read-only message (fixed in /repo 79d5d55: wrapper holding nil)
	}

	// C09 on the way: reads of invalid (nil / read-only empty) receivers never panic, stores panic
	if recvInvalid {
		switch {
		case op.code == "lget": // every index is out of range on an empty list: all implementations panic
		case !isWriteOp(op.code):
			s.o.withKey(key).prop("C09", outs[0].k != '!', fmt.Sprintf("a read of an invalid (nil, read-only) value panics: %s; step %d: %v", s.replay(idx), idx, s.F.pan))
		case op.code != "clear" && op.code != "mclear":
			s.o.withKey(key).prop("C09", outs[0].k == '!', fmt.Sprintf("a store into an invalid (nil, read-only) value does not panic: %s; step %d returns %s", s.replay(idx), idx, norm[0]))
		}
	}
	pid := s.propID
	if pid == "" {
		pid = "C08"
	}
	if s.softRef {
		// only S holds the same value (nil elements): F against S, counted
		s.track(op, pickRef(outs[2], outs[1]))
		if norm[0] != norm[2] {
			s.o.count("nil_element_F_differs_from_S_" + cls)
		}
		return true
	}
	if !s.refDone && s.initV == nil && !s.softRef {
		if norm[1] == norm[2] {
			s.ref = append(s.ref, norm[1])
		} else {
			s.ref = append(s.ref, "?")
			s.refQ = idx
			s.refDone = true
		}
	}
	if norm[1] != norm[2] {
		s.o.count("unspecified_" + cls)
		if os.Getenv("REFLECT_DEBUG") != "" {
			fmt.Fprintf(os.Stderr, "UNSPEC %s\n   F=%s\n   D=%s\n   S=%s\n", s.replay(idx), norm[0], norm[1], norm[2])
		}
		s.track(op, pickRef(outs[1], outs[2]))
		if s.noStop {
			return true
		}
		s.stopped = true
		return false
	}
	s.track(op, outs[1])
	ok := norm[0] == norm[1]
	if ok {
		s.o.withKey(key).prop(pid, true, "")
	} else {
		s.o.withKey(key).prop(pid, false, fmt.Sprintf("%s; step %d: generated code gives %s ; both references give %s (panic value: %v)", s.replay(idx), idx, norm[0], norm[1], s.F.pan))
	}
	if ok && s.mi.pulsar {
		// the reflection view of F's own struct agrees with the struct state
		view := s.si.fromPR(s.mi, s.F.res[0].(protoreflect.Message)).String()
		st := s.state(s.F)
		if view == st {
			s.o.withKey(key).prop(pid, true, "")
		} else {
			s.o.withKey(key).prop(pid, false, fmt.Sprintf("%s; after step %d the struct fields hold %s but Range/Has/Get show %s", s.replay(idx), idx, st, view))
		}
	}
	if !ok {
		s.stopped = true
		return false
	}
	// every handle obtained so far reads the same as through the references (reflecteng_alias.go)
	// (after every step that writes or hands out a handle, and once more when the history is complete: finish)
	s.swept = false
	if s.propID == "" && (isWriteOp(op.code) || s.F.res[len(s.F.res)-1] != nil) && !s.sweepViews(idx, pid) {
		s.stopped = true
		return false
	}
	return true
}

// getters: the plain Go getters of the root struct show the state the reference holds (scalars: the value;
// messages: nil exactly when unpopulated). Only when the history did not end on a disagreement.
func (s *rsession) getters() {
	if s.stopped || s.softRef || !s.mi.pulsar || !s.rootF.IsValid() {
		return
	}
	defer func() {
		if e := recover(); e != nil {
			s.o.withKey("reflect/"+s.si.id+"."+string(s.mi.md.Name())+"/getter").prop("C08", false, fmt.Sprintf("%s: a Go getter panics: %v", s.replay(len(s.ops)-1), e))
		}
	}()
	for _, fi := range s.mi.fields {
		fd := fi.fd
		if fd.IsList() || fd.IsMap() {
			continue
		}
		name := s.mi.goType.Field(fi.sf).Name
		if fi.oneofIdx >= 0 {
			if fi.wrapper == nil {
				continue
			}
			name = fi.wrapper.Elem().Field(0).Name
		}
		m := s.rootF.MethodByName("Get" + name)
		if !m.IsValid() {
			s.o.count("getter_missing")
			continue
		}
		got := m.Call(nil)[0]
		var g, want string
		if isMsgKind(fd) {
			g = fmt.Sprint(!got.IsNil())
			want = fmt.Sprint(s.rootD.Has(fd))
			if fi.oneofIdx >= 0 && s.rootD.Has(fd) {
				continue // a wrapper may hold nil where the reference holds an empty message
			}
		} else {
			v := scalarFromGo(fd, got)
			if fd.Kind() == protoreflect.FloatKind {
				v = vBits(float32Bits(got))
			}
			if v.K == 'n' {
				v = vBytes(nil)
			}
			g = v.String()
			want = scalarFromPR(fd, s.rootD.Get(fd)).String()
		}
		s.o.withKey("reflect/"+s.si.id+"."+string(s.mi.md.Name())+"/getter").prop("C08", g == want,
			fmt.Sprintf("%s: afterwards the Go getter Get%s() shows %s, the reference holds %s", s.replay(len(s.ops)-1), name, g, want))
	}
}

// finish writes the case line for the model
func (s *rsession) finish() {
	if len(s.ops) == 0 {
		return
	}
	if s.propID == "" && !s.softRef && !s.stopped && !s.swept && len(s.hs) > 0 {
		s.sweepViews(len(s.ops)-1, "C08")
	}
	s.getters()
	if s.noModel {
		s.o.count("hist_" + s.class)
		s.o.count(fmt.Sprintf("histlen_%02d", (len(s.ops)+4)/5*5))
		return
	}
	if len(s.ref) > 0 {
		q := -1
		if s.refDone {
			q = s.refQ
		}
		s.o.kase("HISTREF", []string{s.si.id, strconv.Itoa(s.mi.idx), strings.Join(s.ops[:len(s.ref)], ";"), strconv.Itoa(q)}, strings.Join(s.ref, ";"))
	}
	if s.initV != nil {
		s.o.kase("HISTV", []string{s.si.id, strconv.Itoa(s.mi.idx), s.initV.String(), strings.Join(s.ops, ";")}, strings.Join(s.raw, ";"))
	} else {
		s.o.kase("HIST", []string{s.si.id, strconv.Itoa(s.mi.idx), strings.Join(s.ops, ";")}, strings.Join(s.raw, ";"))
	}
	s.o.count("hist_" + s.class)
	s.o.count(fmt.Sprintf("histlen_%02d", (len(s.ops)+4)/5*5))
	n := len(s.ops)
	if n > 3 {
		n = 3
	}
	s.o.nontrivial(s.si.id + "/" + strconv.Itoa(s.mi.idx) + "/" + strings.Join(s.ops[len(s.ops)-n:], ";"))
}

func pickRef(a, b *outv) *outv {
	if a.k == '!' && b.k != '!' {
		return b
	}
	return a
}
