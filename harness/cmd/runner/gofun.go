package main

// Engine "gofun" — translator tie for the HAND-WRITTEN helpers runtime/runtime.go and support/timepb/cmp.go (coq/Model/GoFun.v).
//
// On every run the two files (under VERIF_REPO, default /repo) are parsed with go/parser and every top-level declaration —
// function, package-level const, package-level var — is turned, purely syntactically, into the first-order imperative language
// of Model/GoFun.v. The driver compares each with the canonical declaration of the model (a Coq constant: the source
// transcribed once), and runs the Coq interpreter on the TRANSLATED functions for the inputs of the engines "rt" and "time"
// (their generators are re-used: the engines are run against a scratch sink and the arguments of their case lines are replayed).
//
// Case lines (evaluated by driver/gofun_eval.ml, which also documents the text form of programs and values):
//	GOFUN     <file> decls            = the names of the translated declarations, in source order
//	GOFUN     <file> <decl>           = s-expression of the translated declaration | untranslatable:<file>:<line>:<col>:<why>
//	@GOFUNDEF <file> <decl> <sexp>    = ok       context line: the translated declaration, remembered by every driver shard
//	GOFUN     <file> <decl> eqb       = same     (model: fundecl_eqb / expr_eqb of the translated and the canonical declaration)
//	GOFUNRUN  <file> <func> <arg>...  = ok (<returned values>) (<final contents of the []byte parameters>) | panic
//	                                             (model: run_fun <translated program of the file> … on the same arguments)
//
// Third file (task T15, gofungen.go, Model/GoFunGen.v): generator/helpers.go — KeySize in the same language, and one more
// declaration form, `var m = map[K]V{pkg.A: pkg.B, …}` ((mapvar m K V (k v)…)), for ProtoWireType's `return wireTypes[k]`;
// GOFUNCONST / GOFUNTYPE lines hold the model's tables of named constants and named types against the real declarations.
//
// What the translator does NOT do: no type checking, no constant folding, no renaming, no reordering. Any construct outside the
// subset makes the declaration "untranslatable" (the observed value of its GOFUN line, hence a mismatch).
// What it trusts: go/parser for lexing, operator precedence and associativity (parentheses are dropped: the tree is kept), the
// resolution of identifiers to declarations that go/parser performs (ast.Ident.Obj) to tell a local from a package name or a
// predeclared identifier: `pkg.Name` is a qualified identifier iff pkg is an import of the file and not a local; int, uint64, byte,
// len, panic, true, false, nil mean the predeclared ones iff not redeclared; byte is printed as uint8. Integer literals are
// printed by value (0x7F and 127 are the same constant). The argument of panic(…) is kept as syntax only.

import (
	"bufio"
	"bytes"
	"fmt"
	"go/ast"
	"go/parser"
	"go/token"
	"math"
	"math/big"
	"os"
	"path/filepath"
	"strconv"
	"strings"
	"time"

	"github.com/cosmos/cosmos-proto/runtime"
	"github.com/cosmos/cosmos-proto/support/timepb"
	"google.golang.org/protobuf/proto"
	"google.golang.org/protobuf/reflect/protoregistry"
	"google.golang.org/protobuf/runtime/protoiface"
	durpb "google.golang.org/protobuf/types/known/durationpb"
	tspb "google.golang.org/protobuf/types/known/timestamppb"
)

func init() { engines["gofun"] = engineGoFun }

// a piece of translated syntax: its s-expression and the same thing as a Coq term of Model/GoFun.v
type gfn struct{ sx, coq string }

type gfErr struct {
	pos token.Pos
	why string
}

func gfFail(pos token.Pos, format string, a ...any) { panic(gfErr{pos, fmt.Sprintf(format, a...)}) }

type gfFile struct {
	fset    *token.FileSet
	path    string
	rel     string // path relative to the repository root: the <file> of the case lines
	file    *ast.File
	imports map[string]bool // local names of the imported packages
	maps    bool            // the file's language has package-level constant maps (generator/helpers.go: Model/GoFunGen.v)
}

var gfIntTypes = map[string]string{
	"int": "TInt", "int8": "TInt8", "int16": "TInt16", "int32": "TInt32", "int64": "TInt64",
	"uint": "TUint", "uint8": "TUint8", "uint16": "TUint16", "uint32": "TUint32", "uint64": "TUint64", "byte": "TUint8",
}
var gfIntNames = map[string]string{
	"TInt": "int", "TInt8": "int8", "TInt16": "int16", "TInt32": "int32", "TInt64": "int64",
	"TUint": "uint", "TUint8": "uint8", "TUint16": "uint16", "TUint32": "uint32", "TUint64": "uint64",
}
var gfBuiltins = map[string]bool{"append": true, "cap": true, "clear": true, "close": true, "complex": true, "copy": true, "delete": true,
	"imag": true, "make": true, "max": true, "min": true, "new": true, "print": true, "println": true, "real": true, "recover": true}

func gfCoqStr(s string) string { return `"` + strings.ReplaceAll(s, `"`, `""`) + `"` }
func gfSxStr(pos token.Pos, s string) string {
	var b strings.Builder
	b.WriteByte('"')
	for _, c := range []byte(s) {
		if c < 0x20 || c > 0x7e {
			gfFail(pos, "string literal with a character outside printable ASCII")
		}
		if c == '"' || c == '\\' {
			b.WriteByte('\\')
		}
		b.WriteByte(c)
	}
	b.WriteByte('"')
	return b.String()
}
func gfIdent(pos token.Pos, s string) string {
	if s == "_" || s == "" {
		gfFail(pos, "blank identifier")
	}
	for _, c := range []byte(s) {
		if !(c == '_' || c >= '0' && c <= '9' || c >= 'a' && c <= 'z' || c >= 'A' && c <= 'Z') {
			gfFail(pos, "identifier %q outside ASCII", s)
		}
	}
	return s
}
func gfList(xs []gfn) (sx, coq string) {
	var a, b []string
	for _, x := range xs {
		a = append(a, x.sx)
		b = append(b, x.coq)
	}
	sx = strings.Join(a, " ")
	if sx != "" {
		sx = " " + sx
	}
	return sx, "[" + strings.Join(b, "; ") + "]"
}

// predeclared(id, name): the identifier is `name` and go/parser did not resolve it to a declaration of the file
func gfPredeclared(id *ast.Ident, name string) bool { return id.Name == name && id.Obj == nil }

func (f *gfFile) isPkg(e ast.Expr) (string, bool) {
	id, ok := e.(*ast.Ident)
	if ok && id.Obj == nil && f.imports[id.Name] {
		return id.Name, true
	}
	return "", false
}

// ---- types
func (f *gfFile) qualName(e ast.Expr) (string, bool) {
	switch t := e.(type) {
	case *ast.Ident:
		return gfIdent(t.Pos(), t.Name), true
	case *ast.SelectorExpr:
		if p, ok := f.isPkg(t.X); ok {
			return p + "." + gfIdent(t.Sel.Pos(), t.Sel.Name), true
		}
	}
	return "", false
}
func (f *gfFile) typ(e ast.Expr) gfn {
	switch t := e.(type) {
	case *ast.Ident:
		if c, ok := gfIntTypes[t.Name]; ok && t.Obj == nil {
			return gfn{gfIntNames[c], "GoInt " + c}
		}
		if gfPredeclared(t, "bool") {
			return gfn{"bool", "GoBool"}
		}
		if gfPredeclared(t, "error") {
			return gfn{"error", "GoError"}
		}
		if t.Obj == nil && (t.Name == "string" || t.Name == "float32" || t.Name == "float64" || t.Name == "any" || t.Name == "uintptr" || t.Name == "rune" || t.Name == "complex64" || t.Name == "complex128") {
			gfFail(t.Pos(), "type %s", t.Name)
		}
		return gfn{gfIdent(t.Pos(), t.Name), "GoNamed " + gfCoqStr(t.Name)}
	case *ast.SelectorExpr:
		if q, ok := f.qualName(t); ok {
			return gfn{q, "GoNamed " + gfCoqStr(q)}
		}
	case *ast.StarExpr:
		if q, ok := f.qualName(t.X); ok {
			if _, isInt := gfIntTypes[q]; !isInt {
				return gfn{"*" + q, "GoPtr " + gfCoqStr(q)}
			}
		}
	case *ast.ArrayType:
		if id, ok := t.Elt.(*ast.Ident); ok && t.Len == nil && id.Obj == nil && (id.Name == "byte" || id.Name == "uint8") {
			return gfn{"[]byte", "GoBytes"}
		}
	}
	gfFail(e.Pos(), "type outside the subset")
	return gfn{}
}

// ---- expressions
var gfBinops = map[token.Token][2]string{
	token.ADD: {"+", "BAdd"}, token.SUB: {"-", "BSub"}, token.MUL: {"*", "BMul"}, token.QUO: {"/", "BDiv"}, token.REM: {"%", "BRem"},
	token.SHL: {"<<", "BShl"}, token.SHR: {">>", "BShr"}, token.AND: {"&", "BAnd"}, token.OR: {"|", "BOr"}, token.XOR: {"^", "BXor"},
	token.AND_NOT: {"&^", "BAndNot"}, token.EQL: {"==", "BEq"}, token.NEQ: {"!=", "BNe"}, token.LSS: {"<", "BLt"}, token.LEQ: {"<=", "BLe"},
	token.GTR: {">", "BGt"}, token.GEQ: {">=", "BGe"}, token.LAND: {"&&", "BLAnd"}, token.LOR: {"||", "BLOr"},
}
var gfAssignOps = map[token.Token]token.Token{
	token.ADD_ASSIGN: token.ADD, token.SUB_ASSIGN: token.SUB, token.MUL_ASSIGN: token.MUL, token.QUO_ASSIGN: token.QUO, token.REM_ASSIGN: token.REM,
	token.SHL_ASSIGN: token.SHL, token.SHR_ASSIGN: token.SHR, token.AND_ASSIGN: token.AND, token.OR_ASSIGN: token.OR, token.XOR_ASSIGN: token.XOR,
	token.AND_NOT_ASSIGN: token.AND_NOT,
}

func (f *gfFile) exprs(es []ast.Expr) []gfn {
	var out []gfn
	for _, e := range es {
		out = append(out, f.expr(e))
	}
	return out
}

func (f *gfFile) expr(e ast.Expr) gfn {
	switch x := e.(type) {
	case *ast.ParenExpr:
		return f.expr(x.X)
	case *ast.BasicLit:
		switch x.Kind {
		case token.INT:
			z, ok := new(big.Int).SetString(strings.ReplaceAll(x.Value, "_", ""), 0)
			if !ok || z.Sign() < 0 {
				gfFail(x.Pos(), "integer literal %s", x.Value)
			}
			return gfn{z.String(), "ExConst " + z.String()}
		case token.STRING:
			s, err := strconv.Unquote(x.Value)
			if err != nil {
				gfFail(x.Pos(), "string literal %s", x.Value)
			}
			return gfn{"(str " + gfSxStr(x.Pos(), s) + ")", "ExStr " + gfCoqStr(s)}
		}
		gfFail(x.Pos(), "literal %s outside the subset", x.Value)
	case *ast.Ident:
		switch {
		case gfPredeclared(x, "true"):
			return gfn{"true", "ExTrue"}
		case gfPredeclared(x, "false"):
			return gfn{"false", "ExFalse"}
		case gfPredeclared(x, "nil"):
			return gfn{"nil", "ExNil"}
		case x.Name == "true" || x.Name == "false" || x.Name == "nil" || x.Name == "break" || x.Name == "continue":
			gfFail(x.Pos(), "redeclared predeclared identifier %s", x.Name)
		case x.Obj == nil && f.imports[x.Name]:
			gfFail(x.Pos(), "package name %s used as a value", x.Name)
		case x.Obj == nil && x.Name == "iota":
			gfFail(x.Pos(), "iota")
		}
		n := gfIdent(x.Pos(), x.Name)
		if n[0] >= '0' && n[0] <= '9' {
			gfFail(x.Pos(), "identifier")
		}
		return gfn{n, "ExVar " + gfCoqStr(n)}
	case *ast.SelectorExpr:
		sel := gfIdent(x.Sel.Pos(), x.Sel.Name)
		if p, ok := f.isPkg(x.X); ok {
			return gfn{"(q " + p + " " + sel + ")", "ExQual " + gfCoqStr(p) + " " + gfCoqStr(sel)}
		}
		b := f.expr(x.X)
		return gfn{"(. " + b.sx + " " + sel + ")", "ExSel (" + b.coq + ") " + gfCoqStr(sel)}
	case *ast.StarExpr:
		b := f.expr(x.X)
		return gfn{"(deref " + b.sx + ")", "ExDeref (" + b.coq + ")"}
	case *ast.UnaryExpr:
		switch x.Op {
		case token.SUB, token.NOT, token.XOR:
			b := f.expr(x.X)
			n := map[token.Token][2]string{token.SUB: {"neg", "UNeg"}, token.NOT: {"not", "UNot"}, token.XOR: {"compl", "UCompl"}}[x.Op]
			return gfn{"(" + n[0] + " " + b.sx + ")", "ExUn " + n[1] + " (" + b.coq + ")"}
		case token.AND:
			id, ok := x.X.(*ast.Ident)
			if !ok || id.Obj == nil {
				gfFail(x.Pos(), "& of something other than a local variable")
			}
			b := f.expr(id)
			return gfn{"(addr " + b.sx + ")", "ExAddr (" + b.coq + ")"}
		}
		gfFail(x.Pos(), "unary operator %s", x.Op)
	case *ast.BinaryExpr:
		op, ok := gfBinops[x.Op]
		if !ok {
			gfFail(x.OpPos, "binary operator %s", x.Op)
		}
		a, b := f.expr(x.X), f.expr(x.Y)
		return gfn{"(" + op[0] + " " + a.sx + " " + b.sx + ")", "ExBin " + op[1] + " (" + a.coq + ") (" + b.coq + ")"}
	case *ast.IndexExpr:
		a, b := f.expr(x.X), f.expr(x.Index)
		return gfn{"(index " + a.sx + " " + b.sx + ")", "ExIndex (" + a.coq + ") (" + b.coq + ")"}
	case *ast.CallExpr:
		if x.Ellipsis != token.NoPos {
			gfFail(x.Ellipsis, "variadic call")
		}
		switch fn := x.Fun.(type) {
		case *ast.Ident:
			if c, ok := gfIntTypes[fn.Name]; ok && fn.Obj == nil {
				if len(x.Args) != 1 {
					gfFail(x.Pos(), "conversion with %d operands", len(x.Args))
				}
				a := f.expr(x.Args[0])
				return gfn{"(conv " + gfIntNames[c] + " " + a.sx + ")", "ExConv " + c + " (" + a.coq + ")"}
			}
			if gfPredeclared(fn, "len") {
				if len(x.Args) != 1 {
					gfFail(x.Pos(), "len with %d operands", len(x.Args))
				}
				a := f.expr(x.Args[0])
				return gfn{"(len " + a.sx + ")", "ExLen (" + a.coq + ")"}
			}
			if fn.Obj == nil && (gfBuiltins[fn.Name] || fn.Name == "panic") {
				gfFail(x.Pos(), "builtin %s in an expression", fn.Name)
			}
			if fn.Obj != nil && fn.Obj.Kind != ast.Fun {
				gfFail(x.Pos(), "call of %s, which is not a function declaration of the file", fn.Name)
			}
			if fn.Obj == nil && (fn.Name == "bool" || fn.Name == "string" || fn.Name == "float64" || fn.Name == "float32" || fn.Name == "error" || fn.Name == "uintptr" || fn.Name == "rune") {
				gfFail(x.Pos(), "conversion to %s", fn.Name)
			}
			sx, coq := gfList(f.exprs(x.Args))
			n := gfIdent(fn.Pos(), fn.Name)
			return gfn{"(call " + n + sx + ")", "ExCall " + gfCoqStr(n) + " " + coq}
		case *ast.SelectorExpr:
			m := gfIdent(fn.Sel.Pos(), fn.Sel.Name)
			sx, coq := gfList(f.exprs(x.Args))
			if p, ok := f.isPkg(fn.X); ok {
				return gfn{"(pcall " + p + " " + m + sx + ")", "ExPkgCall " + gfCoqStr(p) + " " + gfCoqStr(m) + " " + coq}
			}
			r := f.expr(fn.X)
			return gfn{"(mcall " + r.sx + " " + m + sx + ")", "ExMethod (" + r.coq + ") " + gfCoqStr(m) + " " + coq}
		}
		gfFail(x.Pos(), "call of a computed function or a conversion to a composite type")
	case *ast.CompositeLit:
		q, ok := "", false
		if x.Type != nil {
			q, ok = f.qualName(x.Type)
		}
		if !ok {
			gfFail(x.Pos(), "composite literal of a type outside the subset")
		}
		var sx, coq []string
		for _, el := range x.Elts {
			kv, ok := el.(*ast.KeyValueExpr)
			if !ok {
				gfFail(el.Pos(), "unkeyed composite literal element")
			}
			k, ok := kv.Key.(*ast.Ident)
			if !ok {
				gfFail(kv.Key.Pos(), "composite literal key")
			}
			v := f.expr(kv.Value)
			kn := gfIdent(k.Pos(), k.Name)
			sx = append(sx, " ("+kn+" "+v.sx+")")
			coq = append(coq, "("+gfCoqStr(kn)+", "+v.coq+")")
		}
		return gfn{"(lit " + q + strings.Join(sx, "") + ")", "ExLit " + gfCoqStr(q) + " [" + strings.Join(coq, "; ") + "]"}
	}
	gfFail(e.Pos(), "expression form %T outside the subset", e)
	return gfn{}
}

// ---- statements
func (f *gfFile) lval(e ast.Expr) gfn {
	switch x := e.(type) {
	case *ast.Ident:
		if x.Obj == nil {
			gfFail(x.Pos(), "assignment to %s, which is not a local", x.Name)
		}
		n := gfIdent(x.Pos(), x.Name)
		return gfn{n, "LvVar " + gfCoqStr(n)}
	case *ast.IndexExpr:
		if id, ok := x.X.(*ast.Ident); ok && id.Obj != nil {
			i := f.expr(x.Index)
			n := gfIdent(id.Pos(), id.Name)
			return gfn{"(index " + n + " " + i.sx + ")", "LvIndex " + gfCoqStr(n) + " (" + i.coq + ")"}
		}
	case *ast.SelectorExpr:
		if id, ok := x.X.(*ast.Ident); ok && id.Obj != nil {
			n, s := gfIdent(id.Pos(), id.Name), gfIdent(x.Sel.Pos(), x.Sel.Name)
			return gfn{"(. " + n + " " + s + ")", "LvField " + gfCoqStr(n) + " " + gfCoqStr(s)}
		}
	}
	gfFail(e.Pos(), "assignment target outside the subset")
	return gfn{}
}

func (f *gfFile) block(ss []ast.Stmt) []gfn {
	var out []gfn
	for _, s := range ss {
		if _, ok := s.(*ast.EmptyStmt); ok {
			continue
		}
		out = append(out, f.stmt(s))
	}
	return out
}

func (f *gfFile) simple(s ast.Stmt) []gfn {
	if s == nil {
		return nil
	}
	return []gfn{f.stmt(s)}
}

// the argument of panic: a string literal or fmt.Sprint of string literals and identifiers (kept as syntax, not evaluated)
func (f *gfFile) panicArg(e ast.Expr) gfn {
	if l, ok := e.(*ast.BasicLit); ok && l.Kind == token.STRING {
		return f.expr(l)
	}
	if c, ok := e.(*ast.CallExpr); ok {
		if s, ok := c.Fun.(*ast.SelectorExpr); ok {
			if p, ok := f.isPkg(s.X); ok && p == "fmt" && s.Sel.Name == "Sprint" {
				for _, a := range c.Args {
					switch y := a.(type) {
					case *ast.BasicLit:
						if y.Kind != token.STRING {
							gfFail(a.Pos(), "panic argument")
						}
					case *ast.Ident:
					default:
						gfFail(a.Pos(), "panic argument outside the subset (string literals and identifiers)")
					}
				}
				return f.expr(c)
			}
		}
	}
	gfFail(e.Pos(), "panic argument outside the subset (a string literal or fmt.Sprint of literals and identifiers)")
	return gfn{}
}

func (f *gfFile) stmt(s ast.Stmt) gfn {
	switch x := s.(type) {
	case *ast.DeclStmt:
		gd, ok := x.Decl.(*ast.GenDecl)
		if ok && gd.Tok == token.VAR && len(gd.Specs) == 1 {
			vs := gd.Specs[0].(*ast.ValueSpec)
			if len(vs.Names) == 1 && vs.Type != nil && len(vs.Values) == 0 {
				t := f.typ(vs.Type)
				n := gfIdent(vs.Names[0].Pos(), vs.Names[0].Name)
				return gfn{"(var " + n + " " + t.sx + ")", "StVar " + gfCoqStr(n) + " (" + t.coq + ")"}
			}
		}
		gfFail(x.Pos(), "declaration other than `var x T`")
	case *ast.AssignStmt:
		if len(x.Lhs) != 1 || len(x.Rhs) != 1 {
			gfFail(x.Pos(), "assignment with several operands")
		}
		switch {
		case x.Tok == token.DEFINE:
			id, ok := x.Lhs[0].(*ast.Ident)
			if !ok {
				gfFail(x.Pos(), "short variable declaration target")
			}
			e := f.expr(x.Rhs[0])
			n := gfIdent(id.Pos(), id.Name)
			return gfn{"(:= " + n + " " + e.sx + ")", "StDefine " + gfCoqStr(n) + " (" + e.coq + ")"}
		case x.Tok == token.ASSIGN:
			l, e := f.lval(x.Lhs[0]), f.expr(x.Rhs[0])
			return gfn{"(= " + l.sx + " " + e.sx + ")", "StAssign (" + l.coq + ") (" + e.coq + ")"}
		default:
			bt, ok := gfAssignOps[x.Tok]
			if !ok {
				gfFail(x.TokPos, "assignment operator %s", x.Tok)
			}
			op := gfBinops[bt]
			l, e := f.lval(x.Lhs[0]), f.expr(x.Rhs[0])
			return gfn{"(" + op[0] + "= " + l.sx + " " + e.sx + ")", "StOpAssign " + op[1] + " (" + l.coq + ") (" + e.coq + ")"}
		}
	case *ast.IncDecStmt:
		l := f.lval(x.X)
		if x.Tok == token.INC {
			return gfn{"(++ " + l.sx + ")", "StInc (" + l.coq + ")"}
		}
		return gfn{"(-- " + l.sx + ")", "StDec (" + l.coq + ")"}
	case *ast.IfStmt:
		if x.Init != nil {
			gfFail(x.Init.Pos(), "if with an init statement")
		}
		c := f.expr(x.Cond)
		asx, acoq := gfList(f.block(x.Body.List))
		var els []gfn
		switch e := x.Else.(type) {
		case nil:
		case *ast.BlockStmt:
			els = f.block(e.List)
		case *ast.IfStmt:
			els = []gfn{f.stmt(e)}
		default:
			gfFail(x.Else.Pos(), "else branch")
		}
		bsx, bcoq := gfList(els)
		return gfn{"(if " + c.sx + " (then" + asx + ") (else" + bsx + "))", "StIf (" + c.coq + ") " + acoq + " " + bcoq}
	case *ast.ForStmt:
		isx, icoq := gfList(f.simple(x.Init))
		psx, pcoq := gfList(f.simple(x.Post))
		csx, ccoq := "", "None"
		if x.Cond != nil {
			c := f.expr(x.Cond)
			csx, ccoq = " "+c.sx, "(Some ("+c.coq+"))"
		}
		bsx, bcoq := gfList(f.block(x.Body.List))
		return gfn{"(for (init" + isx + ") (cond" + csx + ") (post" + psx + ") (do" + bsx + "))", "StFor " + icoq + " " + ccoq + " " + pcoq + " " + bcoq}
	case *ast.SwitchStmt:
		if x.Init != nil || x.Tag == nil {
			gfFail(x.Pos(), "switch with an init statement or without a tag")
		}
		tag := f.expr(x.Tag)
		var csx, ccoq []string
		dsx, dcoq := "", "None"
		for _, cl := range x.Body.List {
			cc := cl.(*ast.CaseClause)
			for _, b := range cc.Body {
				if br, ok := b.(*ast.BranchStmt); ok && br.Tok == token.FALLTHROUGH {
					gfFail(br.Pos(), "fallthrough")
				}
			}
			bsx, bcoq := gfList(f.block(cc.Body))
			if cc.List == nil {
				dsx, dcoq = " (default"+bsx+")", "(Some "+bcoq+")"
				continue
			}
			ksx, kcoq := gfList(f.exprs(cc.List))
			csx = append(csx, " (case ("+strings.TrimPrefix(ksx, " ")+")"+bsx+")")
			ccoq = append(ccoq, "("+kcoq+", "+bcoq+")")
		}
		return gfn{"(switch " + tag.sx + strings.Join(csx, "") + dsx + ")", "StSwitch (" + tag.coq + ") [" + strings.Join(ccoq, "; ") + "] " + dcoq}
	case *ast.BranchStmt:
		if x.Label == nil && x.Tok == token.BREAK {
			return gfn{"break", "StBreak"}
		}
		if x.Label == nil && x.Tok == token.CONTINUE {
			return gfn{"continue", "StContinue"}
		}
		gfFail(x.Pos(), "%s (labels, goto and fallthrough are outside the subset)", x.Tok)
	case *ast.ReturnStmt:
		sx, coq := gfList(f.exprs(x.Results))
		return gfn{"(return" + sx + ")", "StReturn " + coq}
	case *ast.ExprStmt:
		c, ok := x.X.(*ast.CallExpr)
		if !ok {
			gfFail(x.Pos(), "expression statement that is not a call")
		}
		if id, ok := c.Fun.(*ast.Ident); ok && gfPredeclared(id, "panic") {
			if len(c.Args) != 1 {
				gfFail(c.Pos(), "panic with %d operands", len(c.Args))
			}
			a := f.panicArg(c.Args[0])
			return gfn{"(panic " + a.sx + ")", "StPanic (" + a.coq + ")"}
		}
		e := f.expr(c)
		return gfn{"(expr " + e.sx + ")", "StExpr (" + e.coq + ")"}
	}
	gfFail(s.Pos(), "statement form %T outside the subset", s)
	return gfn{}
}

// `&x` is a snapshot in the model: refuse a function that takes &x inside a loop or writes to x (or a part of it) afterwards
func gfCheckAddr(body *ast.BlockStmt) {
	type use struct {
		pos    token.Pos
		inLoop bool
	}
	addrs := map[*ast.Object][]use{} // keyed by the declaration go/parser resolved the identifier to
	writes := map[*ast.Object][]token.Pos{}
	base := func(e ast.Expr) *ast.Object {
		for {
			switch x := e.(type) {
			case *ast.Ident:
				return x.Obj
			case *ast.IndexExpr:
				e = x.X
			case *ast.SelectorExpr:
				e = x.X
			case *ast.ParenExpr:
				e = x.X
			case *ast.StarExpr:
				e = x.X
			default:
				return nil
			}
		}
	}
	var walk func(n ast.Node, loop bool)
	walk = func(n ast.Node, loop bool) {
		ast.Inspect(n, func(m ast.Node) bool {
			switch x := m.(type) {
			case *ast.ForStmt:
				if m != n {
					walk(x, true)
					return false
				}
				loop = true
			case *ast.RangeStmt:
				loop = true
			case *ast.UnaryExpr:
				if id, ok := x.X.(*ast.Ident); ok && x.Op == token.AND {
					addrs[id.Obj] = append(addrs[id.Obj], use{x.Pos(), loop})
				}
			case *ast.AssignStmt:
				for _, l := range x.Lhs {
					writes[base(l)] = append(writes[base(l)], x.Pos())
				}
			case *ast.IncDecStmt:
				writes[base(x.X)] = append(writes[base(x.X)], x.Pos())
			}
			return true
		})
	}
	walk(body, false)
	for obj, us := range addrs {
		name := "?"
		if obj != nil {
			name = obj.Name
		}
		for _, u := range us {
			if u.inLoop {
				gfFail(u.pos, "&%s inside a loop (a pointer is a snapshot in the model)", name)
			}
			for _, w := range writes[obj] {
				if w > u.pos {
					gfFail(w, "%s is written after &%s was taken (a pointer is a snapshot in the model)", name, name)
				}
			}
		}
	}
}

func (f *gfFile) fields(fl *ast.FieldList, results bool) (string, string) {
	var sx, coq []string
	if fl != nil {
		for _, fd := range fl.List {
			t := f.typ(fd.Type)
			if len(fd.Names) == 0 {
				if !results {
					gfFail(fd.Pos(), "unnamed parameter")
				}
				sx = append(sx, " (_ "+t.sx+")")
				coq = append(coq, `("", `+t.coq+")")
				continue
			}
			for _, n := range fd.Names {
				nm := gfIdent(n.Pos(), n.Name)
				sx = append(sx, " ("+nm+" "+t.sx+")")
				coq = append(coq, "("+gfCoqStr(nm)+", "+t.coq+")")
			}
		}
	}
	return strings.Join(sx, ""), "[" + strings.Join(coq, "; ") + "]"
}

type gfDecl struct {
	name string // Sov | const:second | var:ErrIntOverflow
	node gfn
	fail string
	fn   bool
	mapv bool // a package-level constant map (gofungen.go)
}

func (f *gfFile) where(p token.Pos) string {
	pos := f.fset.Position(p)
	return fmt.Sprintf("%s:%d:%d", f.rel, pos.Line, pos.Column)
}

func (f *gfFile) try(name string, fn bool, tr func() gfn) (d gfDecl) {
	d = gfDecl{name: name, fn: fn}
	defer func() {
		if r := recover(); r != nil {
			e, ok := r.(gfErr)
			if !ok {
				panic(r)
			}
			d.fail = "untranslatable:" + f.where(e.pos) + ":" + e.why
		}
	}()
	d.node = tr()
	return d
}

func (f *gfFile) decls() []gfDecl {
	var out []gfDecl
	for _, d := range f.file.Decls {
		switch x := d.(type) {
		case *ast.FuncDecl:
			name := x.Name.Name
			if x.Recv != nil && len(x.Recv.List) == 1 {
				name = "method:" + name
			}
			out = append(out, f.try(name, true, func() gfn {
				if x.Recv != nil {
					gfFail(x.Pos(), "method declaration")
				}
				if x.Type.TypeParams != nil {
					gfFail(x.Pos(), "type parameters")
				}
				if x.Body == nil {
					gfFail(x.Pos(), "function without a body")
				}
				n := gfIdent(x.Name.Pos(), x.Name.Name)
				psx, pcoq := f.fields(x.Type.Params, false)
				rsx, rcoq := f.fields(x.Type.Results, true)
				gfCheckAddr(x.Body)
				bsx, bcoq := gfList(f.block(x.Body.List))
				return gfn{"(func " + n + " (params" + psx + ") (results" + rsx + ") (body" + bsx + "))",
					"{| fn_name := " + gfCoqStr(n) + "; fn_params := " + pcoq + "; fn_results := " + rcoq + ";\n     fn_body := " + bcoq + " |}"}
			}))
		case *ast.GenDecl:
			switch x.Tok {
			case token.IMPORT:
			case token.CONST, token.VAR:
				for _, sp := range x.Specs {
					vs := sp.(*ast.ValueSpec)
					for i, n := range vs.Names {
						i, n := i, n
						if f.maps && x.Tok == token.VAR && vs.Type == nil && len(vs.Values) == len(vs.Names) && gfIsMapLit(vs.Values[i]) {
							d := f.try("var:"+n.Name, false, func() gfn { return f.mapDecl(n, vs.Values[i].(*ast.CompositeLit)) })
							d.mapv = true
							out = append(out, d)
							continue
						}
						out = append(out, f.try(strings.ToLower(x.Tok.String())+":"+n.Name, false, func() gfn {
							if vs.Type != nil || len(vs.Values) != len(vs.Names) {
								gfFail(vs.Pos(), "package-level declaration other than `name = expression`")
							}
							nm := gfIdent(n.Pos(), n.Name)
							e := f.expr(vs.Values[i])
							return gfn{"(global " + nm + " " + e.sx + ")", "(" + gfCoqStr(nm) + ", " + e.coq + ")"}
						}))
					}
				}
			default:
				for _, sp := range x.Specs {
					name := "type:?"
					if ts, ok := sp.(*ast.TypeSpec); ok {
						name = "type:" + ts.Name.Name
					}
					pos := sp.Pos()
					out = append(out, f.try(name, false, func() gfn { gfFail(pos, "type declaration"); return gfn{} }))
				}
			}
		}
	}
	return out
}

func gfRepo() string {
	repo := os.Getenv("VERIF_REPO")
	if repo == "" {
		repo = "/repo"
	}
	return repo
}

func gfLoad(rel string) (*gfFile, error) {
	f := &gfFile{fset: token.NewFileSet(), rel: rel, path: filepath.Join(gfRepo(), filepath.FromSlash(rel)), imports: map[string]bool{}, maps: rel == gfGen}
	src, err := os.ReadFile(f.path)
	if err != nil {
		return nil, err
	}
	f.file, err = parser.ParseFile(f.fset, f.path, src, 0) // identifiers are resolved to their declarations (ast.Object)
	if err != nil {
		return nil, err
	}
	for _, im := range f.file.Imports {
		ip, _ := strconv.Unquote(im.Path.Value)
		name := filepath.Base(ip)
		if im.Name != nil {
			name = im.Name.Name
		}
		f.imports[name] = true
	}
	return f, nil
}

var gfFiles = []string{"runtime/runtime.go", "support/timepb/cmp.go", "generator/helpers.go"}

// ---- values of GOFUNRUN lines -----------------------------------------------------------------------------------------
func gfI(t string, x int64) string  { return t + ":" + i64s(x) }
func gfU(t string, x uint64) string { return t + ":" + u64s(x) }
func gfB(b []byte) string           { return "b:" + hx(b) }
func gfTS(s int64, n int32) string {
	return "(ptr (Seconds " + gfI("int64", s) + ") (Nanos " + gfI("int32", int64(n)) + "))"
}
func gfErrV(err error) string {
	if err == nil {
		return "nilerr"
	}
	var b strings.Builder
	b.WriteByte('"')
	for _, c := range []byte(err.Error()) {
		if c == '"' || c == '\\' {
			b.WriteByte('\\')
		}
		if c < 0x20 || c > 0x7e {
			c = '?'
		}
		b.WriteByte(c)
	}
	b.WriteByte('"')
	return "(err " + b.String() + ")"
}

func gfCatch(f func() string) (obs string) {
	defer func() {
		if r := recover(); r != nil {
			obs = "panic"
		}
	}()
	return f()
}

func gfHex64(s string) uint64 { v, _ := strconv.ParseUint(s, 16, 64); return v }
func gfHexI64(s string) int64 {
	if strings.HasPrefix(s, "-") {
		return int64(-gfHex64(s[1:]))
	}
	return int64(gfHex64(s))
}

type gfRunner struct {
	o     *out
	limit map[string]int // per (function, class) budget of the quick tier
}

func (g *gfRunner) run(file, fn string, args []string, f func() string) {
	obs := gfCatch(f)
	g.o.kase("GOFUNRUN", append([]string{file, fn}, args...), obs)
	cl := obs
	if i := strings.IndexByte(cl, ' '); i > 0 {
		cl = cl[:i]
	}
	g.o.count("run_" + fn + "_" + cl)
	k := strings.Join(args, " ")
	if len(k) > 40 {
		k = k[:40]
	}
	g.o.nontrivial("run/" + fn + "/" + cl + "/" + k)
}

const gfRT, gfTP, gfGen = "runtime/runtime.go", "support/timepb/cmp.go", "generator/helpers.go"

func (g *gfRunner) sov(x uint64) {
	g.run(gfRT, "Sov", []string{gfU("uint64", x)}, func() string { return "ok (" + gfI("int", int64(runtime.Sov(x))) + ") ()" })
}
func (g *gfRunner) soz(x uint64) {
	g.run(gfRT, "Soz", []string{gfU("uint64", x)}, func() string { return "ok (" + gfI("int", int64(runtime.Soz(x))) + ") ()" })
}
func (g *gfRunner) encv(buf []byte, off int, v uint64) {
	args := []string{gfB(buf), gfI("int", int64(off)), gfU("uint64", v)}
	g.run(gfRT, "EncodeVarint", args, func() string {
		b := append([]byte(nil), buf...)
		base := runtime.EncodeVarint(b, off, v)
		return "ok (" + gfI("int", int64(base)) + ") (" + gfB(b) + ")"
	})
}
func (g *gfRunner) skip(b []byte) {
	g.run(gfRT, "Skip", []string{gfB(b)}, func() string {
		var n int
		var err error
		g.o.guard("C15", "skip-hang", "Skip("+hx(b)+") does not terminate", func() { n, err = runtime.Skip(append([]byte(nil), b...)) })
		return "ok (" + gfI("int", int64(n)) + " " + gfErrV(err) + ") (" + gfB(b) + ")"
	})
}
func gfTSOut(r *tspb.Timestamp) string {
	if r == nil {
		return "ok (nilptr) ()"
	}
	return "ok (" + gfTS(r.Seconds, r.Nanos) + ") ()"
}
func gfPtrTS(t *tspb.Timestamp) string {
	if t == nil {
		return "nilptr"
	}
	return gfTS(t.Seconds, t.Nanos)
}
func gfPtrD(d *durpb.Duration) string {
	if d == nil {
		return "nilptr"
	}
	return gfTS(d.Seconds, d.Nanos)
}
func (g *gfRunner) add(t *tspb.Timestamp, d *durpb.Duration) {
	g.run(gfTP, "Add", []string{gfPtrTS(t), gfPtrD(d)}, func() string { return gfTSOut(timepb.Add(t, d)) })
}
func (g *gfRunner) addStd(t *tspb.Timestamp, d int64) {
	g.run(gfTP, "AddStd", []string{gfPtrTS(t), gfI("int64", d)}, func() string { return gfTSOut(timepb.AddStd(t, time.Duration(d))) })
}
func (g *gfRunner) cmp(a, b *tspb.Timestamp) {
	g.run(gfTP, "Compare", []string{gfPtrTS(a), gfPtrTS(b)}, func() string { return "ok (" + gfI("int", int64(timepb.Compare(a, b))) + ") ()" })
}
func gfBool(b bool) string {
	if b {
		return "true"
	}
	return "false"
}

// the lines a scratch run of another engine wrote
func gfCapture(eng func(config, *out), c config) [][]string {
	var buf bytes.Buffer
	o2 := &out{w: bufio.NewWriterSize(&buf, 1<<20), hist: map[string]int{}, distinct: map[string]struct{}{}}
	eng(c, o2)
	o2.w.Flush()
	var out [][]string
	for _, line := range strings.Split(buf.String(), "\n") {
		if line == "" || line[0] == '#' {
			continue
		}
		out = append(out, strings.Split(line, "\t"))
	}
	return out
}

type gfOpaqueResolver struct{ *protoregistry.Types }

func engineGoFun(c config, o *out) {
	coq := len(c.extra) > 0 && c.extra[0] == "coq"
	// extra argument "runtime" / "timepb" / "generator": only that file (C15 is about runtime.go, C17 about timepb/cmp.go, C02 and
	// C12 use generator/helpers.go); none: all
	doRT, doTP, doGen := true, true, true
	if len(c.extra) > 0 {
		switch c.extra[0] {
		case "runtime":
			doTP, doGen = false, false
		case "timepb":
			doRT, doGen = false, false
		case "generator":
			doRT, doTP = false, false
		}
	}
	for _, rel := range gfFiles {
		if (rel == gfRT && !doRT) || (rel == gfTP && !doTP) || (rel == gfGen && !doGen) {
			continue
		}
		f, err := gfLoad(rel)
		if err != nil {
			o.kase("GOFUN", []string{rel, "decls"}, "unreadable:"+strings.NewReplacer("\t", " ", "\n", " ").Replace(err.Error()))
			continue
		}
		ds := f.decls()
		var names []string
		for _, d := range ds {
			names = append(names, d.name)
		}
		o.kase("GOFUN", []string{rel, "decls"}, strings.Join(names, " "))
		for _, d := range ds {
			if d.fail != "" {
				o.kase("GOFUN", []string{rel, d.name}, d.fail)
				o.count("untranslatable")
				continue
			}
			o.kase("GOFUN", []string{rel, d.name}, d.node.sx)
			o.kase("@GOFUNDEF", []string{rel, d.name, d.node.sx}, "ok")
			o.kase("GOFUN", []string{rel, d.name, "eqb"}, "same")
			o.count("translated")
			o.nontrivial("decl/" + d.node.sx)
			for _, form := range []string{"(:=", "(=", "(if", "(for", "(switch", "(case", "(return", "(panic", "(call", "(pcall", "(mcall", "(conv", "(index", "(lit", "(mapvar"} {
				o.hist["form_"+form[1:]] += strings.Count(d.node.sx, form+" ")
			}
			if coq {
				cn := "canon_" + strings.NewReplacer(":", "_").Replace(d.name)
				if d.mapv {
					fmt.Printf("Definition %s : gmapdecl :=\n  %s.\n", cn, d.node.coq)
				} else if d.fn {
					fmt.Printf("Definition %s : fundecl :=\n  %s.\n", cn, d.node.coq)
				} else {
					fmt.Printf("Definition %s : gname * gexpr :=\n  %s.\n", cn, d.node.coq)
				}
			}
		}
	}
	if coq {
		return
	}

	// ---- differential runs: the interpreter on the translated functions against the running code, on the inputs of rt / time
	g := &gfRunner{o: o}
	if doRT {
		gfRunRuntime(g, c)
	}
	if doTP {
		gfRunTimepb(g, c)
	}
	if doGen {
		gfRunGenerator(g, c)
	}
}

func gfRunRuntime(g *gfRunner, c config) {
	for _, t := range gfCapture(engineRT, c) {
		switch t[0] {
		case "SOV":
			g.sov(gfHex64(t[1]))
		case "SOZ":
			g.soz(gfHex64(t[1]))
		case "ENCV":
			g.encv(unhx(t[1]), int(gfHexI64(t[2])), gfHex64(t[3]))
		case "SKIP":
			g.skip(unhx(t[1]))
		}
	}
	// EncodeVarint at the ends of the int range: `offset -= Sov(v)` wraps there
	for _, v := range []uint64{0, 127, 128, 300, 1 << 63, math.MaxUint64} {
		for _, bl := range []int{0, 1, 3, 12} {
			for _, off := range []int{math.MinInt64, math.MinInt64 + 1, math.MinInt64 + 9, math.MinInt64 + 10, math.MinInt64 + 11, -11, -10, math.MaxInt64 - 1, math.MaxInt64} {
				buf := make([]byte, bl)
				for i := range buf {
					buf[i] = byte(0xc0 + i)
				}
				g.encv(buf, off, v)
			}
		}
	}
	// the option builders: every flag combination at the depth boundaries
	res := gfOpaqueResolver{protoregistry.GlobalTypes}
	for _, fl := range []uint8{0, 1, 2, 3, 4, 0x80, 0xfe, 0xff} {
		fl := fl
		in := []string{"(rec (NoUnkeyedLiterals opaque:nul) (Flags " + gfU("uint8", uint64(fl)) + "))"}
		mo := func(m proto.MarshalOptions) string {
			return "ok ((rec (NoUnkeyedLiterals opaque:nul) (AllowPartial " + gfBool(m.AllowPartial) + ") (Deterministic " + gfBool(m.Deterministic) + ") (UseCachedSize " + gfBool(m.UseCachedSize) + "))) ()"
		}
		g.run(gfRT, "SizeInputToOptions", in, func() string { return mo(runtime.SizeInputToOptions(protoiface.SizeInput{Flags: fl})) })
		g.run(gfRT, "MarshalInputToOptions", in, func() string { return mo(runtime.MarshalInputToOptions(protoiface.MarshalInput{Flags: fl})) })
		for _, depth := range []int{math.MinInt64, math.MinInt64 + 1, -1, 0, 1, 2, 3, 100, 10000, math.MaxInt64} {
			depth := depth
			in := []string{"(rec (NoUnkeyedLiterals opaque:nul) (Flags " + gfU("uint8", uint64(fl)) + ") (Resolver opaque:res) (Depth " + gfI("int", int64(depth)) + "))"}
			g.run(gfRT, "UnmarshalInputToOptions", in, func() string {
				u := runtime.UnmarshalInputToOptions(protoiface.UnmarshalInput{Flags: fl, Depth: depth, Resolver: res})
				r := "opaque:other"
				if u.Resolver == res {
					r = "opaque:res"
				}
				return "ok ((rec (RecursionLimit " + gfI("int", int64(u.RecursionLimit)) + ") (NoUnkeyedLiterals opaque:nul) (Merge " + gfBool(u.Merge) + ") (AllowPartial " + gfBool(u.AllowPartial) +
					") (DiscardUnknown " + gfBool(u.DiscardUnknown) + ") (Resolver " + r + "))) ()"
			})
		}
	}
}

func gfRunTimepb(g *gfRunner, c config) {
	for _, t := range gfCapture(engineTime, c) {
		switch t[0] {
		case "TADD":
			g.add(&tspb.Timestamp{Seconds: gfHexI64(t[1]), Nanos: int32(gfHexI64(t[2]))}, &durpb.Duration{Seconds: gfHexI64(t[3]), Nanos: int32(gfHexI64(t[4]))})
		case "TADDSTD":
			g.addStd(&tspb.Timestamp{Seconds: gfHexI64(t[1]), Nanos: int32(gfHexI64(t[2]))}, gfHexI64(t[3]))
		case "TCMP":
			g.cmp(&tspb.Timestamp{Seconds: gfHexI64(t[1]), Nanos: int32(gfHexI64(t[2]))}, &tspb.Timestamp{Seconds: gfHexI64(t[3]), Nanos: int32(gfHexI64(t[4]))})
		}
	}
	// what rt / time do not exercise: nil operands, non-normalised nanos, the small functions, the option builders
	ts := &tspb.Timestamp{Seconds: 10, Nanos: 500}
	g.cmp(nil, ts)
	g.cmp(ts, nil)
	g.cmp(nil, nil)
	g.add(nil, &durpb.Duration{Seconds: 1})
	g.add(nil, nil)
	g.add(ts, nil)
	g.addStd(nil, 5)
	g.addStd(nil, 0)
	for _, t := range []*tspb.Timestamp{nil, ts, {}} {
		t := t
		g.run(gfTP, "IsZero", []string{gfPtrTS(t)}, func() string { return "ok (" + gfBool(timepb.IsZero(t)) + ") ()" })
	}
	i32 := []int32{math.MinInt32, math.MinInt32 + 1, -1000000000, -999999999, -1, 0, 1, 999999999, 1000000000, math.MaxInt32 - 1, math.MaxInt32}
	i64 := []int64{math.MinInt64, math.MinInt64 + 1, -1, 0, 1, math.MaxInt64 - 1, math.MaxInt64}
	for _, s := range i64 {
		for _, n := range i32 {
			d := &durpb.Duration{Seconds: s, Nanos: n}
			g.run(gfTP, "DurationIsNegative", []string{gfPtrD(d)}, func() string { return "ok (" + gfBool(timepb.DurationIsNegative(d)) + ") ()" })
			for _, ds := range []int64{math.MinInt64, -1, 0, 1, math.MaxInt64} {
				for _, dn := range []int32{math.MinInt32, -999999999, -1, 0, 1, 999999999, math.MaxInt32} {
					g.add(&tspb.Timestamp{Seconds: s, Nanos: n}, &durpb.Duration{Seconds: ds, Nanos: dn})
				}
			}
			g.cmp(&tspb.Timestamp{Seconds: s, Nanos: n}, &tspb.Timestamp{Seconds: s, Nanos: 0})
			g.cmp(&tspb.Timestamp{Seconds: 0, Nanos: 5}, &tspb.Timestamp{Seconds: s, Nanos: n})
		}
	}
	g.run(gfTP, "DurationIsNegative", []string{"nilptr"}, func() string { return "ok (" + gfBool(timepb.DurationIsNegative(nil)) + ") ()" })
	// AddStd on valid timestamps with every boundary duration
	for _, s := range []int64{minTS, -1, 0, 1, 1700000000, maxTS} {
		for _, n := range []int32{0, 1, 999999999} {
			for _, d := range []int64{math.MinInt64, math.MinInt64 + 1, -1000000001, -1000000000, -999999999, -1, 0, 1, 999999999, 1000000000, 1000000001, math.MaxInt64 - 1, math.MaxInt64} {
				g.addStd(&tspb.Timestamp{Seconds: s, Nanos: n}, d)
			}
		}
	}
}
