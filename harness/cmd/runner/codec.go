package main

import (
	"bytes"
	"fmt"
	"reflect"
	"strings"
	"unicode/utf8"

	"google.golang.org/protobuf/encoding/protowire"
	"google.golang.org/protobuf/proto"
	"google.golang.org/protobuf/reflect/protoreflect"
	"google.golang.org/protobuf/reflect/protoregistry"
	"google.golang.org/protobuf/runtime/protoiface"

	_ "github.com/cosmos/cosmos-proto/internal/testprotos/test3"
	_ "github.com/cosmos/cosmos-proto/testpb"
)

func init() { engines["codec"] = engineCodec }

var setFiles = map[string][]string{
	"vm":      {"vm/matrix.proto"},
	"vmz":     {"vmz/oz.proto"},
	"vw":      {"vw/wk.proto"},
	"vtestpb": {"vtestpb/1.proto", "vtestpb/2.proto", "vtestpb/3.proto"},
	"vtest3":  {"vtest3/test.proto", "vtest3/test_import.proto", "vtest3/test_nesting.proto"},
	"testpb":  {"1.proto", "2.proto", "3.proto"},
	"test3":   {"internal/testprotos/test3/test.proto", "internal/testprotos/test3/test_import.proto", "internal/testprotos/test3/test_nesting.proto"},
}

func allMessages(fd protoreflect.FileDescriptor) []protoreflect.MessageDescriptor {
	var out []protoreflect.MessageDescriptor
	var walk func(ms protoreflect.MessageDescriptors)
	walk = func(ms protoreflect.MessageDescriptors) {
		for i := 0; i < ms.Len(); i++ {
			m := ms.Get(i)
			if m.IsMapEntry() {
				continue
			}
			out = append(out, m)
			walk(m.Messages())
		}
	}
	walk(fd.Messages())
	return out
}

// loadSchemas returns one schemaInfo per linked set (checked-in packages included).
func loadSchemas() []*schemaInfo { return loadSchemasOpt(false, false) }

// progOnlySets: linked sets that exist for the class coverage of the translator ties (classcov.go, corpus.ClassCov: every map key x
// value combination, every key width per shape, types of another Go package in every position). Only the six *prog engines load
// them (loadSchemasProg): their value-level engines would pay for 183 more fields on every run without seeing a new code path of
// the runtime — the classes differ in what the TEMPLATES print, which is what the program comparison looks at.
var progOnlySets = map[string]bool{"vc": true}

func loadSchemasProg() []*schemaInfo { return loadSchemasOpt(false, true) }
func loadSchemasSel(withModelFree bool) []*schemaInfo { return loadSchemasOpt(withModelFree, false) }

// modelFreeSets: linked sets the codec / reflection models have no shapes for (vq: messages of an imported proto2 type with
// explicit-presence scalars and required fields). Only engines that compare implementations with each other, without the
// extracted model (lib), load them: loadSchemasSel(true).
var modelFreeSets = map[string]bool{"vq": true}

func loadSchemasOpt(withModelFree, withProgOnly bool) []*schemaInfo {
	names := append([]string{"testpb", "test3"}, linkedSets...)
	var out []*schemaInfo
	for _, n := range names {
		if modelFreeSets[n] && !withModelFree || progOnlySets[n] && !withProgOnly {
			continue
		}
		var roots []protoreflect.MessageDescriptor
		files := setFiles[n]
		if files == nil {
			files = linkedFiles[n]
		}
		for _, p := range files {
			fd, err := protoregistry.GlobalFiles.FindFileByPath(p)
			if err != nil {
				panic(err)
			}
			roots = append(roots, allMessages(fd)...)
		}
		si := newSchema(n, roots)
		out = append(out, si)
	}
	return out
}

func (si *schemaInfo) roots() []*msgInfo {
	var out []*msgInfo
	for _, mi := range si.msgs {
		if mi.pulsar {
			out = append(out, mi)
		}
	}
	return out
}

type mres struct {
	b   []byte
	err error
	pan interface{}
}

func (m mres) String() string {
	switch {
	case m.pan != nil:
		return "panic"
	case m.err != nil:
		return "err"
	}
	return "ok " + hx(m.b)
}

func catchMarshal(o proto.MarshalOptions, m proto.Message) (r mres) {
	defer func() {
		if e := recover(); e != nil {
			r.pan = e
		}
	}()
	b, err := o.Marshal(m)
	return mres{b: b, err: err}
}
func catchUnmarshal(o proto.UnmarshalOptions, b []byte, m proto.Message) (err error, pan interface{}) {
	defer func() {
		if e := recover(); e != nil {
			pan = e
		}
	}()
	return o.Unmarshal(b, m), nil
}
func catchSize(o proto.MarshalOptions, m proto.Message) (n int, pan interface{}) {
	defer func() {
		if e := recover(); e != nil {
			pan = e
		}
	}()
	return o.Size(m), nil
}

func allValidUTF8(v *V) bool {
	// conservative: every byte string in the value (bytes fields included) — only used to decide
	// whether the reference encoder may be consulted
	if v == nil {
		return true
	}
	if v.K == 'b' && !utf8.Valid(v.B) {
		return false
	}
	for _, e := range v.L {
		if !allValidUTF8(e) {
			return false
		}
	}
	return v.P == nil || allValidUTF8(v.P)
}

func stringsValid(si *schemaInfo, mi *msgInfo, v *V) bool {
	ok := true
	var elem func(fd protoreflect.FieldDescriptor, e *V)
	elem = func(fd protoreflect.FieldDescriptor, e *V) {
		if e == nil || e.K == 'n' {
			return
		}
		if fd.Kind() == protoreflect.StringKind && !utf8.Valid(e.B) {
			ok = false
		}
		if fd.Kind() == protoreflect.MessageKind && e.K == 'm' {
			ok = ok && stringsValid(si, si.byName[fd.Message().FullName()], e)
		}
	}
	for i, fi := range mi.fields {
		sv := v.L[i]
		switch {
		case fi.fd.IsMap():
			for j := 0; j+1 < len(sv.L); j += 2 {
				elem(fi.fd.MapKey(), sv.L[j])
				elem(fi.fd.MapValue(), sv.L[j+1])
			}
		case fi.fd.IsList():
			for _, e := range sv.L {
				elem(fi.fd, e)
			}
		case sv.K == 's':
			elem(fi.fd, sv.P)
		default:
			elem(fi.fd, sv)
		}
	}
	return ok
}

// reverseMaps returns a copy whose map entries are listed in reverse order and whose nil/empty
// containers are swapped: an equal message built through a different history
func altHistory(v *V, r *rng) *V {
	if v == nil {
		return nil
	}
	c := *v
	c.L = nil
	switch v.K {
	case 'p':
		for j := len(v.L) - 2; j >= 0; j -= 2 {
			c.L = append(c.L, v.L[j], altHistory(v.L[j+1], r))
		}
		return &c
	case 'l', 'm':
		for _, e := range v.L {
			c.L = append(c.L, altHistory(e, r))
		}
		return &c
	case 's':
		c.P = altHistory(v.P, r)
		return &c
	}
	return &c
}

type codecCtx struct {
	o      *out
	si     *schemaInfo
	r      *rng
	cfg    config
	snapc  *concCtx // deep struct snapshots (pointer / nil / slice-header granularity), shared with the conc engine
	bigSeq int      // running number of the candidates at the 2->3 byte length-prefix boundary (quick: every 29th is run)
}

func (c *codecCtx) one(mi *msgInfo, v *V, class string) {
	o, si := c.o, c.si
	val := v.String()
	args := []string{si.id, fmt.Sprint(mi.idx), val}
	p := si.toGo(mi, v).Interface().(proto.Message)
	before := si.fromGo(mi, reflect.ValueOf(p)).String()
	o.prop("C07", before == val, "building the struct and reading it back differ (harness self-check): "+val+" vs "+before)
	c.readonly(mi, v)

	det := catchMarshal(proto.MarshalOptions{Deterministic: true}, p)
	nondet := catchMarshal(proto.MarshalOptions{}, p)
	sz, szPan := catchSize(proto.MarshalOptions{}, p)
	szDet, szDetPan := catchSize(proto.MarshalOptions{Deterministic: true}, p)
	sizeObs := fmt.Sprint(sz)
	if szPan != nil || szDetPan != nil {
		sizeObs = "panic"
	}
	// lists of thousands of elements: the decoder model is quadratic in the list length (it appends element by element, as
	// the code does): marshal and size models only (ENCB), no decode lines; every predicate below is evaluated all the same
	huge := maxListLen(v) > hugeList
	if huge {
		o.kase("ENCB", args, det.String()+" size="+sizeObs)
	} else {
		o.kase("ENC", args, det.String()+" size="+sizeObs)
	}
	if maxMapLen(v) <= 1 {
		o.kase("ENCN", args, nondet.String())
	}
	o.count("enc_" + class + "_" + strings.Fields(det.String())[0])
	o.nontrivial(si.id + "/" + fmt.Sprint(mi.idx) + "/" + class + "/" + shapeKey(v))
	id := si.id + "." + string(mi.md.Name())
	key := "codec/" + id
	valid := stringsValid(si, mi, v)

	// C07: read-only calls leave the struct unchanged, nil-vs-empty included
	after := si.fromGo(mi, reflect.ValueOf(p)).String()
	o.withKey(key).prop("C07", after == val, "Size/Marshal changed the message struct of "+id+": before "+val+" after "+after)

	// C01 / C04: never fails or panics for valid strings
	if valid {
		o.withKey(key).prop("C01", det.err == nil && det.pan == nil && nondet.err == nil && nondet.pan == nil, fmt.Sprintf("Marshal of %s %s fails: det=%v/%v nondet=%v/%v", id, val, det.err, det.pan, nondet.err, nondet.pan))
	}
	o.withKey(key).prop("C04", szPan == nil && szDetPan == nil && det.pan == nil && nondet.pan == nil, fmt.Sprintf("Size/Marshal of %s %s panics: %v %v %v %v", id, val, szPan, szDetPan, det.pan, nondet.pan))
	if det.err != nil || det.pan != nil || nondet.err != nil || nondet.pan != nil {
		return
	}
	// C04: the three sizes
	o.withKey(key).prop("C04", sz == len(det.b) && sz == len(nondet.b) && szDet == sz, fmt.Sprintf("%s %s: Size=%d SizeDet=%d len(det)=%d len(nondet)=%d", id, val, sz, szDet, len(det.b), len(nondet.b)))
	// C04: MarshalAppend on prefixes with/without spare capacity; sentinel beyond len must survive
	for _, pre := range [][]byte{nil, {}, {1, 2, 3}, make([]byte, 3, 3+len(det.b)+5), make([]byte, 2, 2+len(det.b)/2)} {
		for i := range pre {
			pre[i] = byte(0xC0 + i)
		}
		full := pre[:cap(pre)]
		for i := len(pre); i < len(full); i++ {
			full[i] = 0xEE
		}
		orig := append([]byte{}, pre...)
		outb, err := proto.MarshalOptions{Deterministic: true}.MarshalAppend(pre, p)
		ok := err == nil && len(outb) == len(orig)+len(det.b) && bytes.Equal(outb[:len(orig)], orig) && bytes.Equal(outb[len(orig):], det.b) && bytes.Equal(pre, orig)
		o.withKey(key).prop("C04", ok, fmt.Sprintf("MarshalAppend(prefix %s cap %d, %s %s) = %s, want prefix ++ %s", hx(orig), cap(pre), id, val, hx(outb), hx(det.b)))
		// direct ProtoMethods path with a non-nil empty buffer
		if m := p.ProtoReflect().ProtoMethods(); m != nil && len(orig) == 3 {
			mo, err := m.Marshal(protoiface.MarshalInput{Message: p.ProtoReflect(), Buf: append([]byte{}, orig...), Flags: protoiface.MarshalDeterministic})
			o.withKey(key).prop("C04", err == nil && bytes.Equal(mo.Buf, append(append([]byte{}, orig...), det.b...)), "ProtoMethods.Marshal with Buf prefix: "+hx(mo.Buf))
			// C05: the deterministic flag alone (a caller that did not size the message first) must give the deterministic bytes,
			// on every repetition
			sameDirect := err == nil && bytes.Equal(mo.Buf[minInt(len(orig), len(mo.Buf)):], det.b)
			for k := 0; k < 3 && sameDirect; k++ {
				m2, err2 := m.Marshal(protoiface.MarshalInput{Message: p.ProtoReflect(), Flags: protoiface.MarshalDeterministic})
				sameDirect = err2 == nil && bytes.Equal(m2.Buf, det.b)
			}
			o.withKey(key).prop("C05", sameDirect, fmt.Sprintf("%s %s: ProtoMethods().Marshal with Flags=MarshalDeterministic (without UseCachedSize) does not give the deterministic bytes %s", id, val, hx(det.b)))
		}
	}
	// C02 / C04: the reference on the same value (dynamicpb stores float32 as float64, which quiets
	// signalling NaNs: such values cannot be held by the reference and are not compared)
	if valid && !hasF32SNaN(si, mi, v) {
		d := si.toDyn(mi, v)
		ref := catchMarshal(proto.MarshalOptions{Deterministic: true}, d)
		if ref.err == nil && ref.pan == nil {
			o.withKey(key).prop("C02", bytes.Equal(ref.b, det.b), fmt.Sprintf("%s %s: deterministic bytes %s, reference %s", id, val, hx(det.b), hx(ref.b)))
			o.withKey(key).prop("C04", proto.Size(d) == sz, fmt.Sprintf("%s %s: Size=%d reference size=%d", id, val, sz, proto.Size(d)))
			// C02: the generated Marshal method called directly (the entry point the proto package itself uses) with every flag
			// combination that asks for deterministic output: the flag alone, and together with UseCachedSize after a Size call
			// (what proto.MarshalOptions.Marshal does). Each must give the reference's deterministic bytes.
			if m := p.ProtoReflect().ProtoMethods(); m != nil && m.Marshal != nil {
				for _, fc := range []struct {
					name      string
					flags     protoiface.MarshalInputFlags
					sizeFirst bool
				}{
					{"Flags=MarshalDeterministic", protoiface.MarshalDeterministic, false},
					{"Flags=MarshalDeterministic|MarshalUseCachedSize after a Size call", protoiface.MarshalDeterministic | protoiface.MarshalUseCachedSize, true},
					{"Flags=MarshalDeterministic after a Size call", protoiface.MarshalDeterministic, true},
				} {
					var got mres
					func() {
						defer func() {
							if e := recover(); e != nil {
								got.pan = e
							}
						}()
						if fc.sizeFirst && m.Size != nil {
							m.Size(protoiface.SizeInput{Message: p.ProtoReflect(), Flags: protoiface.MarshalDeterministic})
						}
						mo, err := m.Marshal(protoiface.MarshalInput{Message: p.ProtoReflect(), Flags: fc.flags})
						got = mres{b: mo.Buf, err: err}
					}()
					o.withKey(key).prop("C02", got.err == nil && got.pan == nil && bytes.Equal(got.b, ref.b),
						fmt.Sprintf("%s %s: ProtoReflect().ProtoMethods().Marshal with %s gives %s (err %v, panic %v), the reference's deterministic encoding is %s", id, val, fc.name, hx(got.b), got.err, got.pan, hx(ref.b)))
				}
				o.count("c02_direct_method_calls")
			}
		} else {
			o.count("ref_marshal_rejects")
		}
	}
	// C05: repeated deterministic marshalling and an equal message with another history
	same := true
	for k := 0; k < 4 && same; k++ {
		again := catchMarshal(proto.MarshalOptions{Deterministic: true}, p)
		same = same && bytes.Equal(again.b, det.b)
	}
	p2 := si.toGo(mi, altHistory(v, c.r)).Interface().(proto.Message)
	alt := catchMarshal(proto.MarshalOptions{Deterministic: true}, p2)
	o.withKey(key).prop("C05", same && bytes.Equal(alt.b, det.b), fmt.Sprintf("%s %s: deterministic bytes differ between repetitions / construction histories: %s vs %s", id, val, hx(det.b), hx(alt.b)))

	// C01 (+C14 unknown bytes): decode both encodings into fresh messages
	want := si.normV(mi, v).String()
	for i, enc := range [][]byte{det.b, nondet.b} {
		name := []string{"det", "nondet"}[i]
		q := reflect.New(mi.goType).Interface().(proto.Message)
		err, pan := catchUnmarshal(proto.UnmarshalOptions{}, enc, q)
		if err != nil || pan != nil {
			o.withKey(key).prop("C01", false, fmt.Sprintf("%s %s: decoding its own %s encoding %s fails: %v %v", id, val, name, hx(enc), err, pan))
			continue
		}
		got := si.normV(mi, si.fromGo(mi, reflect.ValueOf(q))).String()
		o.withKey(key).prop("C01", got == want, fmt.Sprintf("%s: round trip (%s) of %s gives %s (bytes %s)", id, name, want, got, hx(enc)))
	}
	// C07: the output shares no memory with the message: scribble on it and marshal again
	// (compared with a COPY taken before: if the result aliases the message, the second result aliases the same memory)
	orig := append([]byte{}, det.b...)
	scr := det.b
	for i := range scr {
		scr[i] ^= 0xFF
	}
	again := catchMarshal(proto.MarshalOptions{Deterministic: true}, p)
	againCopy := append([]byte{}, again.b...)
	afterScribble := si.fromGo(mi, reflect.ValueOf(p)).String()
	for i := range scr {
		scr[i] ^= 0xFF
	}
	o.withKey("marshal-alias/"+id).prop("C07", bytes.Equal(againCopy, orig) && afterScribble == val,
		fmt.Sprintf("%s: overwriting Marshal's result changed the message (the result shares memory with it): %s marshals to %s, after overwriting that buffer the struct reads %s and marshals to %s", id, val, hx(orig), afterScribble, hx(againCopy)))
	// the same for the non-deterministic result and for MarshalAppend with an empty prefix
	for _, mk := range []func() mres{
		func() mres { return catchMarshal(proto.MarshalOptions{}, p) },
		func() mres {
			b, err := proto.MarshalOptions{Deterministic: true}.MarshalAppend([]byte{}, p)
			return mres{b: b, err: err}
		},
	} {
		r1 := mk()
		if r1.err != nil || r1.pan != nil {
			continue
		}
		for i := range r1.b {
			r1.b[i] ^= 0xFF
		}
		after := si.fromGo(mi, reflect.ValueOf(p)).String()
		for i := range r1.b {
			r1.b[i] ^= 0xFF
		}
		o.withKey("marshal-alias/"+id).prop("C07", after == val, fmt.Sprintf("%s: overwriting a marshalled result changed the message: %s now reads %s", id, val, after))
	}

	// model correspondence for decode on the canonical encoding
	if !huge {
		c.decCase(mi, det.b, false, false, nil)
	}
}

const hugeList = 600

func maxListLen(v *V) int {
	m := 0
	if v == nil {
		return 0
	}
	if v.K == 'l' {
		m = len(v.L)
	}
	for _, e := range v.L {
		if k := maxListLen(e); k > m {
			m = k
		}
	}
	if v.P != nil {
		if k := maxListLen(v.P); k > m {
			m = k
		}
	}
	return m
}

func shapeKey(v *V) string {
	// which slots are populated, and with what constructor: a cheap distinctness key
	var sb strings.Builder
	for _, e := range v.L {
		sb.WriteByte(e.K)
		if e.K == 'l' || e.K == 'p' {
			sb.WriteString(fmt.Sprint(len(e.L)))
		}
		if e.K == 'i' || e.K == 'x' || e.K == 'b' {
			s := e.String()
			if len(s) > 6 {
				s = s[:6]
			}
			sb.WriteString(s)
		}
	}
	return sb.String()
}

// decCase: unmarshal bytes into a fresh (or given) message; observed outcome for the model
func (c *codecCtx) decCase(mi *msgInfo, b []byte, merge, discard bool, init *V) (res string, q proto.Message) {
	si, o := c.si, c.o
	if init != nil {
		q = si.toGo(mi, init).Interface().(proto.Message)
	} else {
		q = reflect.New(mi.goType).Interface().(proto.Message)
	}
	in := append([]byte{}, b...)
	var err error
	var pan interface{}
	o.guard("C06", "hang/"+si.id, fmt.Sprintf("Unmarshal of %s into %s.%s does not return", hx(b), si.id, mi.md.Name()), func() {
		err, pan = catchUnmarshal(proto.UnmarshalOptions{Merge: merge, DiscardUnknown: discard}, in, q)
	})
	switch {
	case pan != nil:
		res = "panic"
	case err != nil:
		res = "err"
	default:
		res = "ok " + si.foreignNorm(mi, si.fromGo(mi, reflect.ValueOf(q))).String()
	}
	flags := ""
	if merge {
		flags += "m"
	}
	if discard {
		flags += "d"
	}
	if flags == "" {
		flags = "-"
	}
	iv := "-"
	if init != nil {
		iv = init.String()
	}
	o.kase("DEC", []string{si.id, fmt.Sprint(mi.idx), flags, hx(b), iv}, res)
	o.prop("C07", bytes.Equal(in, b), "Unmarshal modified its input "+hx(b))
	if pan == nil && err == nil {
		// C07: the message must not alias the input: overwrite the whole input, read the struct again
		for i := range in {
			in[i] ^= 0xFF
		}
		after := "ok " + si.foreignNorm(mi, si.fromGo(mi, reflect.ValueOf(q))).String()
		o.withKey("alias/"+si.id+"."+string(mi.md.Name())).prop("C07", after == res, fmt.Sprintf("the message decoded from %s into %s.%s shares memory with the input buffer: after overwriting the input it reads %s, before %s", hx(b), si.id, mi.md.Name(), after, res))
		for i := range in {
			in[i] ^= 0xFF
		}
	}
	return res, q
}

// nilMessage: Size / Marshal / MarshalAppend / ProtoMethods().Marshal with a prefix on (*T)(nil): no bytes, prefix kept
func (c *codecCtx) nilMessage(mi *msgInfo) {
	o, si := c.o, c.si
	id := si.id + "." + string(mi.md.Name())
	key := "codec-nil/" + id
	nilMsg := reflect.Zero(reflect.PointerTo(mi.goType)).Interface().(proto.Message)
	var pan interface{}
	func() {
		defer func() { pan = recover() }()
		o.withKey(key).prop("C09", proto.Size(nilMsg) == 0, id+": Size of the typed nil message is not 0")
		b, err := proto.Marshal(nilMsg)
		o.withKey(key).prop("C09", err == nil && len(b) == 0, fmt.Sprintf("%s: Marshal of the typed nil message gives %s %v", id, hx(b), err))
		for _, pre := range [][]byte{nil, {}, []byte("already-framed"), append(make([]byte, 0, 64), 0x18, 0x07)} {
			orig := append([]byte{}, pre...)
			for _, det := range []bool{false, true} {
				out, err := proto.MarshalOptions{Deterministic: det}.MarshalAppend(pre, nilMsg)
				o.withKey(key).prop("C09", err == nil && bytes.Equal(out, orig), fmt.Sprintf("%s: MarshalAppend(%s, typed nil) = %s %v, want the prefix unchanged", id, hx(orig), hx(out), err))
				o.withKey(key).prop("C04", err == nil && bytes.Equal(out, orig), fmt.Sprintf("%s: MarshalAppend(%s, typed nil) = %s %v, want the prefix unchanged", id, hx(orig), hx(out), err))
			}
			if m := nilMsg.ProtoReflect().ProtoMethods(); m != nil && m.Marshal != nil {
				mo, err := m.Marshal(protoiface.MarshalInput{Message: nilMsg.ProtoReflect(), Buf: append([]byte{}, orig...)})
				o.withKey(key).prop("C09", err == nil && bytes.Equal(mo.Buf, orig), fmt.Sprintf("%s: ProtoMethods().Marshal with Buf %s on the typed nil message returns %s", id, hx(orig), hx(mo.Buf)))
			}
		}
	}()
	o.withKey(key).prop("C09", pan == nil, fmt.Sprintf("%s: a read-only codec call on the typed nil message panics: %v", id, pan))
	o.count("nil_message")
}

func engineCodec(cfg config, o *out) {
	schemas := loadSchemas()
	o.hist["programs"] = len(schemas)
	for _, si := range schemas {
		o.raw("SCHEMA\t" + si.id + "\t=\t" + si.sexp())
		c := &codecCtx{o: o, si: si, r: newRng(cfg.seed, "codec/"+si.id), cfg: cfg, snapc: &concCtx{pulsar: map[reflect.Type]bool{}}}
		for _, m := range si.msgs {
			c.snapc.pulsar[m.goType] = m.pulsar
		}
		g := &vgen{r: c.r, si: si, nilElems: true}
		for _, mi := range si.roots() {
			// empty message
			c.one(mi, si.emptyV(mi), "empty")
			// messages that hold nothing but unknown fields (one and several records)
			for k := 1; k <= 2; k++ {
				v := si.emptyV(mi)
				for j := 0; j < k; j++ {
					v.Unk = append(v.Unk, genUnknownFor(c.r, mi)...)
				}
				c.one(mi, v, "unknown-only")
			}
			// the typed nil message is an empty read-only message for every read-only codec call, append mode included
			c.nilMessage(mi)
			// one-hot: each field alone, each boundary value
			for i, fi := range mi.fields {
				fd := fi.fd
				nb := 1
				if !fd.IsMap() && !fd.IsList() && fd.Kind() != protoreflect.MessageKind {
					nb = g.boundaryCount(fd)
				} else {
					nb = 4
				}
				if !cfg.thorough() && nb > 8 && (si.id == "vtest3" || si.id == "vtestpb") {
					nb = 6 // the renamed copies repeat the checked-in schemas: fewer one-hots in quick
				}
				for b := 0; b < nb; b++ {
					v := si.emptyV(mi)
					switch {
					case fi.oneofIdx >= 0:
						if fd.Kind() == protoreflect.MessageKind {
							v.L[i] = &V{K: 's', P: g.elem(fd, 2)}
						} else {
							v.L[i] = &V{K: 's', P: g.scalarAt(fd, b)}
						}
					case fd.IsMap() || fd.IsList() || fd.Kind() == protoreflect.MessageKind:
						v.L[i] = g.field(fi, 2)
					default:
						v.L[i] = g.scalarAt(fd, b)
					}
					c.one(mi, v, "onehot")
				}
			}
			// random full messages, with unknown fields on some
			n := 30
			if cfg.thorough() {
				n = 600
			}
			for k := 0; k < n; k++ {
				g.badUTF8 = k%7 == 6
				g.big = cfg.thorough()
				g.unkDeep = k%4 == 1 // unknown records at every nesting level (a child of a type without fields carries only those)
				v := g.msg(mi, 3, 2+c.r.intn(7))
				g.unkDeep = false
				if k%3 == 0 {
					for j := c.r.intn(3); j >= 0; j-- {
						v.Unk = append(v.Unk, genUnknownFor(c.r, mi)...)
					}
				}
				c.one(mi, v, "random")
			}
		}
		// deterministic sweeps (after the random stream, which they do not disturb): states only hand-written code produces,
		// and payload lengths / element counts at the boundaries where a length prefix grows by a byte
		for _, mi := range si.roots() {
			for _, v := range c.handBuilt(mi, g) {
				c.one(mi, v, "handbuilt")
			}
			c.widthSweep(mi, g)
		}
	}
}

// an unknown record whose number is not in the schema of mi
func genUnknownFor(r *rng, mi *msgInfo) []byte {
	for {
		b := genRecord(r, 2)
		num, _, n := protowireConsumeTag(b)
		if n > 0 && mi.md.Fields().ByNumber(num) == nil {
			return b
		}
	}
}

// hasF32SNaN: does the value hold a float32 signalling NaN anywhere
func hasF32SNaN(si *schemaInfo, mi *msgInfo, v *V) bool {
	found := false
	var elem func(fd protoreflect.FieldDescriptor, e *V)
	elem = func(fd protoreflect.FieldDescriptor, e *V) {
		if e == nil || e.K == 'n' {
			return
		}
		if fd.Kind() == protoreflect.FloatKind && e.K == 'x' {
			u := uint32(e.U)
			if u&0x7f800000 == 0x7f800000 && u&0x007fffff != 0 && u&0x00400000 == 0 {
				found = true
			}
		}
		if fd.Kind() == protoreflect.MessageKind && e.K == 'm' {
			found = found || hasF32SNaN(si, si.byName[fd.Message().FullName()], e)
		}
	}
	for i, fi := range mi.fields {
		sv := v.L[i]
		switch {
		case fi.fd.IsMap():
			for j := 0; j+1 < len(sv.L); j += 2 {
				elem(fi.fd.MapValue(), sv.L[j+1])
			}
		case fi.fd.IsList():
			for _, e := range sv.L {
				elem(fi.fd, e)
			}
		case sv.K == 's':
			elem(fi.fd, sv.P)
		default:
			elem(fi.fd, sv)
		}
	}
	return found
}

// ---- C07: read-only calls leave the Go struct unchanged ---------------------------------------------------------
// The struct is snapshotted (every field, unexported ones included; pointers, nil-ness, slice headers and map identities are
// part of the snapshot) before and after EACH read-only call; the message is built through package reflect and may be in a
// state only hand-written code produces (oneof wrapper holding a nil message, nil list elements / map values, empty non-nil
// containers). A second, separately built message of the same value is the other operand of Equal.

func walkPR(m protoreflect.Message, depth int) {
	if depth > 12 {
		return
	}
	m.Range(func(fd protoreflect.FieldDescriptor, val protoreflect.Value) bool {
		switch {
		case fd.IsMap():
			val.Map().Range(func(_ protoreflect.MapKey, v protoreflect.Value) bool {
				if fd.MapValue().Message() != nil {
					walkPR(v.Message(), depth+1)
				}
				return true
			})
		case fd.IsList():
			l := val.List()
			for i := 0; i < l.Len(); i++ {
				if e := l.Get(i); fd.Message() != nil {
					walkPR(e.Message(), depth+1)
				}
			}
		case fd.Message() != nil:
			walkPR(val.Message(), depth+1)
		}
		return true
	})
	m.GetUnknown()
}

// touchValue uses a value handed out by Get through its read-only methods
func touchValue(fd protoreflect.FieldDescriptor, val protoreflect.Value) {
	switch {
	case fd.IsMap():
		mp := val.Map()
		mp.IsValid()
		mp.Len()
		mp.Range(func(k protoreflect.MapKey, v protoreflect.Value) bool {
			mp.Has(k)
			if g := mp.Get(k); fd.MapValue().Message() != nil {
				g.Message().IsValid()
				v.Message().IsValid()
			}
			return true
		})
	case fd.IsList():
		l := val.List()
		l.IsValid()
		for i := 0; i < l.Len(); i++ {
			if e := l.Get(i); fd.Message() != nil {
				e.Message().IsValid()
			}
		}
	case fd.Message() != nil:
		val.Message().IsValid()
		val.Message().Descriptor()
	default:
		val.Interface()
	}
}

type roCall struct {
	name string
	f    func()
}

func (c *codecCtx) readonlyCalls(mi *msgInfo, v *V, p, clone proto.Message, valid bool) []roCall {
	si := c.si
	fields := mi.md.Fields()
	oneofs := mi.md.Oneofs()
	methods := p.ProtoReflect().ProtoMethods()
	calls := []roCall{
		{"Size", func() { proto.Size(p) }},
		{"Size-deterministic", func() { proto.MarshalOptions{Deterministic: true}.Size(p) }},
		{"Marshal", func() { proto.Marshal(p) }},
		{"Marshal-deterministic", func() { proto.MarshalOptions{Deterministic: true}.Marshal(p) }},
		{"MarshalAppend", func() { proto.MarshalOptions{}.MarshalAppend(make([]byte, 3, 64), p) }},
		{"MarshalAppend-deterministic", func() { proto.MarshalOptions{Deterministic: true}.MarshalAppend([]byte{}, p) }},
		{"Equal(x,clone)", func() { proto.Equal(p, clone) }},
		{"Equal(clone,x)", func() { proto.Equal(clone, p) }},
		{"Equal(x,x)", func() { proto.Equal(p, p) }},
		{"Range", func() {
			p.ProtoReflect().Range(func(protoreflect.FieldDescriptor, protoreflect.Value) bool { return true })
		}},
		{"Range-stopped-early", func() {
			p.ProtoReflect().Range(func(protoreflect.FieldDescriptor, protoreflect.Value) bool { return false })
		}},
		{"Range-nested", func() { walkPR(p.ProtoReflect(), 0) }},
		{"Has", func() {
			r := p.ProtoReflect()
			for i := 0; i < fields.Len(); i++ {
				r.Has(fields.Get(i))
			}
		}},
		{"WhichOneof", func() {
			r := p.ProtoReflect()
			for i := 0; i < oneofs.Len(); i++ {
				r.WhichOneof(oneofs.Get(i))
			}
		}},
		{"Get", func() {
			r := p.ProtoReflect()
			for i := 0; i < fields.Len(); i++ {
				r.Get(fields.Get(i))
			}
		}},
		{"Get-and-read", func() {
			r := p.ProtoReflect()
			for i := 0; i < fields.Len(); i++ {
				touchValue(fields.Get(i), r.Get(fields.Get(i)))
			}
		}},
		{"Get-nested", func() { si.fromPR(mi, p.ProtoReflect()) }},
		{"String", func() {
			if s, ok := p.(fmt.Stringer); ok {
				_ = s.String()
			}
		}},
		{"Clone", func() { proto.Clone(p) }},
		{"Merge-from", func() { proto.Merge(reflect.New(mi.goType).Interface().(proto.Message), p) }},
		{"meta", func() {
			r := p.ProtoReflect()
			r.IsValid()
			r.Descriptor()
			r.Type()
			r.GetUnknown()
			r.Interface()
			proto.CheckInitialized(p)
		}},
	}
	if methods != nil && methods.Size != nil && methods.Marshal != nil {
		for _, fl := range []protoiface.MarshalInputFlags{0, protoiface.MarshalDeterministic, protoiface.MarshalDeterministic | protoiface.MarshalUseCachedSize, protoiface.MarshalUseCachedSize} {
			fl := fl
			calls = append(calls, roCall{fmt.Sprintf("ProtoMethods.Size+Marshal(flags=%d)", fl), func() {
				methods.Size(protoiface.SizeInput{Message: p.ProtoReflect(), Flags: fl &^ protoiface.MarshalUseCachedSize})
				methods.Marshal(protoiface.MarshalInput{Message: p.ProtoReflect(), Flags: fl})
			}})
		}
	}
	if valid && !hasF32SNaN(si, mi, v) {
		// the reference message holding the same value as the other operand: Equal(ref, x) ranges over ref and Gets from x
		d := si.toDyn(mi, v)
		calls = append(calls,
			roCall{"Equal(reference,x)", func() { proto.Equal(d, p) }},
			roCall{"Equal(x,reference)", func() { proto.Equal(p, d) }})
	}
	return calls
}

func (c *codecCtx) readonly(mi *msgInfo, v *V) {
	o, si := c.o, c.si
	id := si.id + "." + string(mi.md.Name())
	valid := stringsValid(si, mi, v)
	build := func() (p, clone proto.Message) {
		return si.toGo(mi, v).Interface().(proto.Message), si.toGo(mi, v).Interface().(proto.Message)
	}
	run := func(call roCall) {
		defer func() {
			if recover() != nil {
				o.count("readonly_call_panics") // not this property's business (C04 / C09 judge panics); the struct is compared all the same
			}
		}()
		call.f()
	}
	// first pass: the whole call sequence between two snapshots
	p, clone := build()
	before, beforeClone := c.snapc.snapshot(p), c.snapc.snapshot(clone)
	calls := c.readonlyCalls(mi, v, p, clone, valid)
	for _, call := range calls {
		run(call)
	}
	o.count("readonly_call_sequences")
	if c.snapc.snapshot(p) == before && c.snapc.snapshot(clone) == beforeClone {
		o.propOK += len(calls) // every call of the sequence left both structs as they were
		return
	}
	// something changed: every call on its own, each on freshly built messages (a call that completes a nil into an empty
	// value hides the same defect in the calls after it), to name the calls
	val := v.String()
	if len(val) > 2000 {
		val = val[:2000] + "..."
	}
	named := false
	for j := range calls {
		p, clone := build()
		before, beforeClone := c.snapc.snapshot(p), c.snapc.snapshot(clone)
		call := c.readonlyCalls(mi, v, p, clone, valid)[j]
		run(call)
		after, afterClone := c.snapc.snapshot(p), c.snapc.snapshot(clone)
		what := ""
		switch {
		case after != before:
			what = fmt.Sprintf("the read-only call %s changed the Go struct of the %s it was made on: %s; value %s", call.name, id, snapDiff(before, after), val)
		case afterClone != beforeClone:
			what = fmt.Sprintf("the read-only call %s changed the Go struct of its other operand (a separately built %s of the same value): %s; value %s", call.name, id, snapDiff(beforeClone, afterClone), val)
		}
		o.withKey("readonly/"+id+"/"+call.name).prop("C07", what == "", what)
		named = named || what != ""
	}
	if !named {
		o.withKey("readonly/"+id+"/sequence").prop("C07", false, "the sequence of read-only calls changed the Go struct of a "+id+", no single call on a fresh message of the same value does; value "+val)
	}
}

// ---- hand-built states: what Unmarshal / Set / Mutable never produce but a Go program can write down -----------------
func (c *codecCtx) handBuilt(mi *msgInfo, g *vgen) []*V {
	si := c.si
	var out []*V
	all1, all2 := si.emptyV(mi), si.emptyV(mi)
	set := func(i int, states ...*V) {
		for _, st := range states {
			v := si.emptyV(mi)
			v.L[i] = st
			out = append(out, v)
		}
		if len(states) > 0 {
			all1.L[i] = states[0]
			all2.L[i] = states[len(states)-1]
		}
	}
	oneofDone1 := map[int]bool{}
	for i, fi := range mi.fields {
		fd := fi.fd
		isMsg := fd.Kind() == protoreflect.MessageKind
		var empty *V
		if isMsg && !fd.IsMap() {
			empty = si.emptyV(si.byName[fd.Message().FullName()])
		}
		switch {
		case fd.IsMap():
			vfd := fd.MapValue()
			k0, k1 := smallKey(fd.MapKey(), 0), smallKey(fd.MapKey(), 1)
			switch vfd.Kind() {
			case protoreflect.MessageKind:
				e := si.emptyV(si.byName[vfd.Message().FullName()])
				m2 := &V{K: 'p', L: []*V{k0, vNil, k1, e}}
				sortMap(m2)
				set(i, &V{K: 'p'}, &V{K: 'p', L: []*V{k0, vNil}}, m2)
			case protoreflect.BytesKind:
				m2 := &V{K: 'p', L: []*V{k0, vNil, k1, vBytes(nil)}}
				sortMap(m2)
				set(i, &V{K: 'p'}, m2)
			default:
				set(i, &V{K: 'p'})
			}
		case fd.IsList():
			switch {
			case isMsg:
				set(i, &V{K: 'l'}, &V{K: 'l', L: []*V{vNil}}, &V{K: 'l', L: []*V{vNil, empty, vNil}})
			case fd.Kind() == protoreflect.BytesKind:
				set(i, &V{K: 'l'}, &V{K: 'l', L: []*V{vNil, vBytes(nil), vNil}})
			default:
				set(i, &V{K: 'l'})
			}
		case fi.oneofIdx >= 0:
			var states []*V
			switch {
			case isMsg:
				states = []*V{{K: 's', P: vNil}, {K: 's', P: empty}}
				c.o.count("handbuilt_oneof_wrapper_holding_nil_message")
			case fd.Kind() == protoreflect.BytesKind:
				states = []*V{{K: 's', P: vNil}, {K: 's', P: vBytes(nil)}}
			default:
				continue
			}
			for _, st := range states {
				v := si.emptyV(mi)
				v.L[i] = st
				out = append(out, v)
			}
			// the combined values: the first message-kind member of each oneof in one, the last in the other
			if isMsg {
				if !oneofDone1[fi.oneofIdx] {
					oneofDone1[fi.oneofIdx] = true
					all1.L[i] = states[0]
				}
				for j, fj := range mi.fields {
					if fj.oneofIdx == fi.oneofIdx {
						all2.L[j] = vNil
					}
				}
				all2.L[i] = states[0]
			}
		case isMsg:
			set(i, empty)
		case fd.Kind() == protoreflect.BytesKind && !fd.HasPresence():
			set(i, vBytes(nil))
		}
	}
	// a oneof left without a message-kind member in the combined values keeps whatever all1 holds (nothing): fine
	out = append(out, all1, all2)
	return out
}

// ---- width boundaries --------------------------------------------------------------------------------------------
// big: is the next candidate at the 2->3 byte boundary (16383 / 16384 / 16385) run? thorough: all; quick: every 29th
func (c *codecCtx) big() bool {
	c.bigSeq++
	return c.cfg.thorough() || c.bigSeq%29 == 1
}

func (c *codecCtx) widthSweep(mi *msgInfo, g *vgen) {
	si := c.si
	run := func(i int, st *V, class string) {
		if st == nil {
			c.o.count("width_not_constructible")
			return
		}
		v := si.emptyV(mi)
		v.L[i] = st
		c.one(mi, v, class)
	}
	renamedCopy := si.id == "vtest3" || si.id == "vtestpb"
	// self-checks of the builders against protobuf-go's own size arithmetic: a value that misses its target length is counted
	// (width_inexact must stay 0), it is still a legitimate value and is run
	msgOfSize := func(cmi *msgInfo, T int) *V {
		ch := g.msgOfSize(cmi, T)
		if ch != nil && proto.Size(si.toDyn(cmi, ch)) != T {
			c.o.count("width_inexact")
		}
		return ch
	}
	listOfPayload := func(fd protoreflect.FieldDescriptor, w, T int) *V {
		lv := listOfPayload(fd, w, T)
		if lv != nil {
			n := 0
			for _, e := range lv.L {
				n += scalarWireLen(fd, e)
			}
			if n != T {
				c.o.count("width_inexact")
			}
		}
		return lv
	}
	for i, fi := range mi.fields {
		fd := fi.fd
		wrap := func(e *V) *V { // the state of field i holding element e once
			switch {
			case fd.IsList():
				return &V{K: 'l', L: []*V{e}}
			case fi.oneofIdx >= 0:
				return &V{K: 's', P: e}
			}
			return e
		}
		switch {
		case fd.IsMap():
			kfd, vfd := fd.MapKey(), fd.MapValue()
			k0 := smallKey(kfd, 0)
			entry := func(k, val *V) *V {
				if k == nil || val == nil {
					return nil
				}
				return &V{K: 'p', L: []*V{k, val}}
			}
			// many entries (sorting; one length prefix per entry)
			if kfd.Kind() != protoreflect.BoolKind {
				for _, n := range []int{128, 131} {
					mv := &V{K: 'p'}
					for j := 0; j < n; j++ {
						val := g.smallValue(vfd, j)
						if vfd.Kind() == protoreflect.MessageKind && j%5 == 4 {
							val = vNil
						}
						mv.L = append(mv.L, smallKey(kfd, j), val)
					}
					sortMap(mv)
					run(i, mv, "width-map-entries")
					if !c.cfg.thorough() {
						break
					}
				}
			}
			for _, T := range []int{127, 128, 16383, 16384} {
				bigT := T > 1000
				if bigT && !c.big() {
					continue
				}
				cls := "width-map"
				if bigT {
					cls = "width-map-big"
				}
				if kfd.Kind() == protoreflect.StringKind {
					run(i, entry(padBytes(kfd, T), g.smallValue(vfd, 0)), cls) // key payload T
					if L := payloadFor(T-keyRecLenOfSmall(vfd, g), 1); L >= 0 {
						run(i, entry(padBytes(kfd, L), g.smallValue(vfd, 0)), cls) // entry T (small value)
					}
				}
				switch vfd.Kind() {
				case protoreflect.StringKind, protoreflect.BytesKind:
					run(i, entry(k0, padBytes(vfd, T)), cls) // value payload T
					if L := payloadFor(T-keyRecLen(kfd, k0), 1); L >= 0 {
						run(i, entry(k0, padBytes(vfd, L)), cls) // entry T
					}
				case protoreflect.MessageKind:
					cmi := si.byName[vfd.Message().FullName()]
					run(i, entry(k0, msgOfSize(cmi, T)), cls) // value message T
					if L := payloadFor(T-keyRecLen(kfd, k0), 1); L >= 0 {
						run(i, entry(k0, msgOfSize(cmi, L)), cls) // entry T
					}
				}
			}
		case fd.Kind() == protoreflect.MessageKind:
			cmi := si.byName[fd.Message().FullName()]
			for _, T := range []int{127, 128, 16383, 16384} {
				if T > 1000 && !c.big() {
					continue
				}
				cls := "width-child"
				if T > 1000 {
					cls = "width-child-big"
				}
				ch := msgOfSize(cmi, T)
				if ch == nil {
					c.o.count("width_not_constructible")
					continue
				}
				run(i, wrap(ch), cls)
				if fd.IsList() && T == 128 {
					run(i, &V{K: 'l', L: []*V{msgOfSize(cmi, 127), ch, si.emptyV(cmi), ch}}, cls)
				}
			}
			if fd.IsList() {
				lv := &V{K: 'l'}
				for j := 0; j < 130; j++ {
					lv.L = append(lv.L, si.emptyV(cmi))
				}
				run(i, lv, "width-count")
			}
		case fd.Kind() == protoreflect.StringKind || fd.Kind() == protoreflect.BytesKind:
			for _, T := range []int{127, 128, 129, 16383, 16384} {
				if T > 1000 && !c.big() {
					continue
				}
				cls := "width-str"
				if T > 1000 {
					cls = "width-str-big"
				}
				run(i, wrap(padBytes(fd, T)), cls)
				if fd.IsList() && T == 128 {
					run(i, &V{K: 'l', L: []*V{padBytes(fd, 127), padBytes(fd, 128), padBytes(fd, 0), padBytes(fd, 1), padBytes(fd, 129)}}, cls)
				}
			}
			if fd.IsList() {
				lv := &V{K: 'l'}
				for j := 0; j < 130; j++ {
					lv.L = append(lv.L, g.smallValue(fd, j))
				}
				run(i, lv, "width-count")
			}
		case fd.IsList():
			// repeated scalar, packed or not: element counts and packed payload lengths around the prefix-width boundaries,
			// for every element width of the kind
			cls := "width-unpacked"
			if fd.IsPacked() {
				cls = "width-packed"
			}
			ws := elemWidths(fd)
			for _, n := range []int{127, 128, 129} {
				run(i, listOfCount(fd, ws[0], n), cls) // narrowest elements: count n (1-byte elements: payload n too)
			}
			quick := !c.cfg.thorough()
			for k, w := range ws {
				widest := k == len(ws)-1
				if w == 1 {
					continue
				}
				if fw := fixedWidth(fd); fw > 0 {
					ns := []int{128/fw - 1, 128 / fw, 128/fw + 1} // payload 124/128/132, 120/128/136
					if quick {
						ns = ns[:2]
					}
					for _, n := range ns {
						run(i, listOfCount(fd, fw, n), cls)
					}
					continue
				}
				// quick: the widest elements (payload 127, 128) and the 2-byte ones (payload 128; not in the renamed copies)
				if quick && !widest && (renamedCopy || w != 2) {
					continue
				}
				Ts := []int{127, 128, 129}
				if quick && widest {
					Ts = Ts[:2]
				} else if quick {
					Ts = Ts[1:2]
				}
				for _, T := range Ts {
					run(i, listOfPayload(fd, w, T), cls) // payload exactly T, made of w-byte elements (+ 1-byte fillers)
				}
				if widest && !quick {
					run(i, listOfCount(fd, w, 128), cls) // 128 widest elements
				}
			}
			for k, w := range ws {
				var cands []*V
				if fw := fixedWidth(fd); fw > 0 {
					for _, n := range []int{16384/fw - 1, 16384 / fw, 16384/fw + 1, 16383, 16384, 16385} {
						cands = append(cands, listOfCount(fd, fw, n))
					}
				} else if w == 1 {
					for _, n := range []int{16383, 16384, 16385} {
						cands = append(cands, listOfCount(fd, 1, n))
					}
				} else if k == 1 || k == len(ws)-1 {
					for _, T := range []int{16383, 16384} {
						cands = append(cands, listOfPayload(fd, w, T))
					}
				}
				for _, cand := range cands {
					if c.big() {
						run(i, cand, cls+"-big")
					}
				}
			}
		}
	}
}

// keyRecLenOfSmall: bytes of the value record of a map entry holding smallValue(vfd, 0) (tag of field 2 included)
func keyRecLenOfSmall(vfd protoreflect.FieldDescriptor, g *vgen) int {
	val := g.smallValue(vfd, 0)
	switch vfd.Kind() {
	case protoreflect.MessageKind:
		return 2 // tag, zero length
	case protoreflect.StringKind, protoreflect.BytesKind:
		return 1 + protowire.SizeVarint(uint64(len(val.B))) + len(val.B)
	}
	return 1 + scalarWireLen(vfd, val)
}
