package main

import (
	"bytes"
	"fmt"
	"reflect"
	"strings"
	"unicode/utf8"

	"google.golang.org/protobuf/proto"
	"google.golang.org/protobuf/reflect/protoreflect"
	"google.golang.org/protobuf/reflect/protoregistry"
	"google.golang.org/protobuf/runtime/protoiface"

	_ "github.com/cosmos/cosmos-proto/internal/testprotos/test3"
	_ "github.com/cosmos/cosmos-proto/testpb"
)

func init() { engines["codec"] = engineCodec }

var setFiles = map[string][]string{
	"vm":      {"vm/matrix.proto"},
	"vmz":     {"vmz/oz.proto"},
	"vw":      {"vw/wk.proto"},
	"vtestpb": {"vtestpb/1.proto", "vtestpb/2.proto", "vtestpb/3.proto"},
	"vtest3":  {"vtest3/test.proto", "vtest3/test_import.proto", "vtest3/test_nesting.proto"},
	"testpb":  {"1.proto", "2.proto", "3.proto"},
	"test3":   {"internal/testprotos/test3/test.proto", "internal/testprotos/test3/test_import.proto", "internal/testprotos/test3/test_nesting.proto"},
}

func allMessages(fd protoreflect.FileDescriptor) []protoreflect.MessageDescriptor {
	var out []protoreflect.MessageDescriptor
	var walk func(ms protoreflect.MessageDescriptors)
	walk = func(ms protoreflect.MessageDescriptors) {
		for i := 0; i < ms.Len(); i++ {
			m := ms.Get(i)
			if m.IsMapEntry() {
				continue
			}
			out = append(out, m)
			walk(m.Messages())
		}
	}
	walk(fd.Messages())
	return out
}

// loadSchemas returns one schemaInfo per linked set (checked-in packages included).
func loadSchemas() []*schemaInfo { return loadSchemasSel(false) }

// modelFreeSets: linked sets the codec / reflection models have no shapes for (vq: messages of an imported proto2 type with
// explicit-presence scalars and required fields). Only engines that compare implementations with each other, without the
// extracted model (lib), load them: loadSchemasSel(true).
var modelFreeSets = map[string]bool{"vq": true}

func loadSchemasSel(withModelFree bool) []*schemaInfo {
	names := append([]string{"testpb", "test3"}, linkedSets...)
	var out []*schemaInfo
	for _, n := range names {
		if modelFreeSets[n] && !withModelFree {
			continue
		}
		var roots []protoreflect.MessageDescriptor
		files := setFiles[n]
		if files == nil {
			files = linkedFiles[n]
		}
		for _, p := range files {
			fd, err := protoregistry.GlobalFiles.FindFileByPath(p)
			if err != nil {
				panic(err)
			}
			roots = append(roots, allMessages(fd)...)
		}
		si := newSchema(n, roots)
		out = append(out, si)
	}
	return out
}

func (si *schemaInfo) roots() []*msgInfo {
	var out []*msgInfo
	for _, mi := range si.msgs {
		if mi.pulsar {
			out = append(out, mi)
		}
	}
	return out
}

type mres struct {
	b   []byte
	err error
	pan interface{}
}

func (m mres) String() string {
	switch {
	case m.pan != nil:
		return "panic"
	case m.err != nil:
		return "err"
	}
	return "ok " + hx(m.b)
}

func catchMarshal(o proto.MarshalOptions, m proto.Message) (r mres) {
	defer func() {
		if e := recover(); e != nil {
			r.pan = e
		}
	}()
	b, err := o.Marshal(m)
	return mres{b: b, err: err}
}
func catchUnmarshal(o proto.UnmarshalOptions, b []byte, m proto.Message) (err error, pan interface{}) {
	defer func() {
		if e := recover(); e != nil {
			pan = e
		}
	}()
	return o.Unmarshal(b, m), nil
}
func catchSize(o proto.MarshalOptions, m proto.Message) (n int, pan interface{}) {
	defer func() {
		if e := recover(); e != nil {
			pan = e
		}
	}()
	return o.Size(m), nil
}

func allValidUTF8(v *V) bool {
	// conservative: every byte string in the value (bytes fields included) — only used to decide
	// whether the reference encoder may be consulted
	if v == nil {
		return true
	}
	if v.K == 'b' && !utf8.Valid(v.B) {
		return false
	}
	for _, e := range v.L {
		if !allValidUTF8(e) {
			return false
		}
	}
	return v.P == nil || allValidUTF8(v.P)
}

func stringsValid(si *schemaInfo, mi *msgInfo, v *V) bool {
	ok := true
	var elem func(fd protoreflect.FieldDescriptor, e *V)
	elem = func(fd protoreflect.FieldDescriptor, e *V) {
		if e == nil || e.K == 'n' {
			return
		}
		if fd.Kind() == protoreflect.StringKind && !utf8.Valid(e.B) {
			ok = false
		}
		if fd.Kind() == protoreflect.MessageKind && e.K == 'm' {
			ok = ok && stringsValid(si, si.byName[fd.Message().FullName()], e)
		}
	}
	for i, fi := range mi.fields {
		sv := v.L[i]
		switch {
		case fi.fd.IsMap():
			for j := 0; j+1 < len(sv.L); j += 2 {
				elem(fi.fd.MapKey(), sv.L[j])
				elem(fi.fd.MapValue(), sv.L[j+1])
			}
		case fi.fd.IsList():
			for _, e := range sv.L {
				elem(fi.fd, e)
			}
		case sv.K == 's':
			elem(fi.fd, sv.P)
		default:
			elem(fi.fd, sv)
		}
	}
	return ok
}

// reverseMaps returns a copy whose map entries are listed in reverse order and whose nil/empty
// containers are swapped: an equal message built through a different history
func altHistory(v *V, r *rng) *V {
	if v == nil {
		return nil
	}
	c := *v
	c.L = nil
	switch v.K {
	case 'p':
		for j := len(v.L) - 2; j >= 0; j -= 2 {
			c.L = append(c.L, v.L[j], altHistory(v.L[j+1], r))
		}
		return &c
	case 'l', 'm':
		for _, e := range v.L {
			c.L = append(c.L, altHistory(e, r))
		}
		return &c
	case 's':
		c.P = altHistory(v.P, r)
		return &c
	}
	return &c
}

type codecCtx struct {
	o   *out
	si  *schemaInfo
	r   *rng
	cfg config
}

func (c *codecCtx) one(mi *msgInfo, v *V, class string) {
	o, si := c.o, c.si
	val := v.String()
	args := []string{si.id, fmt.Sprint(mi.idx), val}
	p := si.toGo(mi, v).Interface().(proto.Message)
	before := si.fromGo(mi, reflect.ValueOf(p)).String()
	o.prop("C07", before == val, "building the struct and reading it back differ (harness self-check): "+val+" vs "+before)

	det := catchMarshal(proto.MarshalOptions{Deterministic: true}, p)
	nondet := catchMarshal(proto.MarshalOptions{}, p)
	sz, szPan := catchSize(proto.MarshalOptions{}, p)
	szDet, szDetPan := catchSize(proto.MarshalOptions{Deterministic: true}, p)
	sizeObs := fmt.Sprint(sz)
	if szPan != nil || szDetPan != nil {
		sizeObs = "panic"
	}
	o.kase("ENC", args, det.String()+" size="+sizeObs)
	if maxMapLen(v) <= 1 {
		o.kase("ENCN", args, nondet.String())
	}
	o.count("enc_" + class + "_" + strings.Fields(det.String())[0])
	o.nontrivial(si.id + "/" + fmt.Sprint(mi.idx) + "/" + class + "/" + shapeKey(v))
	id := si.id + "." + string(mi.md.Name())
	key := "codec/" + id
	valid := stringsValid(si, mi, v)

	// C07: read-only calls leave the struct unchanged, nil-vs-empty included
	after := si.fromGo(mi, reflect.ValueOf(p)).String()
	o.withKey(key).prop("C07", after == val, "Size/Marshal changed the message struct of "+id+": before "+val+" after "+after)

	// C01 / C04: never fails or panics for valid strings
	if valid {
		o.withKey(key).prop("C01", det.err == nil && det.pan == nil && nondet.err == nil && nondet.pan == nil, fmt.Sprintf("Marshal of %s %s fails: det=%v/%v nondet=%v/%v", id, val, det.err, det.pan, nondet.err, nondet.pan))
	}
	o.withKey(key).prop("C04", szPan == nil && szDetPan == nil && det.pan == nil && nondet.pan == nil, fmt.Sprintf("Size/Marshal of %s %s panics: %v %v %v %v", id, val, szPan, szDetPan, det.pan, nondet.pan))
	if det.err != nil || det.pan != nil || nondet.err != nil || nondet.pan != nil {
		return
	}
	// C04: the three sizes
	o.withKey(key).prop("C04", sz == len(det.b) && sz == len(nondet.b) && szDet == sz, fmt.Sprintf("%s %s: Size=%d SizeDet=%d len(det)=%d len(nondet)=%d", id, val, sz, szDet, len(det.b), len(nondet.b)))
	// C04: MarshalAppend on prefixes with/without spare capacity; sentinel beyond len must survive
	for _, pre := range [][]byte{nil, {}, {1, 2, 3}, make([]byte, 3, 3+len(det.b)+5), make([]byte, 2, 2+len(det.b)/2)} {
		for i := range pre {
			pre[i] = byte(0xC0 + i)
		}
		full := pre[:cap(pre)]
		for i := len(pre); i < len(full); i++ {
			full[i] = 0xEE
		}
		orig := append([]byte{}, pre...)
		outb, err := proto.MarshalOptions{Deterministic: true}.MarshalAppend(pre, p)
		ok := err == nil && len(outb) == len(orig)+len(det.b) && bytes.Equal(outb[:len(orig)], orig) && bytes.Equal(outb[len(orig):], det.b) && bytes.Equal(pre, orig)
		o.withKey(key).prop("C04", ok, fmt.Sprintf("MarshalAppend(prefix %s cap %d, %s %s) = %s, want prefix ++ %s", hx(orig), cap(pre), id, val, hx(outb), hx(det.b)))
		// direct ProtoMethods path with a non-nil empty buffer
		if m := p.ProtoReflect().ProtoMethods(); m != nil && len(orig) == 3 {
			mo, err := m.Marshal(protoiface.MarshalInput{Message: p.ProtoReflect(), Buf: append([]byte{}, orig...), Flags: protoiface.MarshalDeterministic})
			o.withKey(key).prop("C04", err == nil && bytes.Equal(mo.Buf, append(append([]byte{}, orig...), det.b...)), "ProtoMethods.Marshal with Buf prefix: "+hx(mo.Buf))
			// C05: the deterministic flag alone (a caller that did not size the message first) must give the deterministic bytes,
			// on every repetition
			sameDirect := err == nil && bytes.Equal(mo.Buf[minInt(len(orig), len(mo.Buf)):], det.b)
			for k := 0; k < 3 && sameDirect; k++ {
				m2, err2 := m.Marshal(protoiface.MarshalInput{Message: p.ProtoReflect(), Flags: protoiface.MarshalDeterministic})
				sameDirect = err2 == nil && bytes.Equal(m2.Buf, det.b)
			}
			o.withKey(key).prop("C05", sameDirect, fmt.Sprintf("%s %s: ProtoMethods().Marshal with Flags=MarshalDeterministic (without UseCachedSize) does not give the deterministic bytes %s", id, val, hx(det.b)))
		}
	}
	// C02 / C04: the reference on the same value (dynamicpb stores float32 as float64, which quiets
	// signalling NaNs: such values cannot be held by the reference and are not compared)
	if valid && !hasF32SNaN(si, mi, v) {
		d := si.toDyn(mi, v)
		ref := catchMarshal(proto.MarshalOptions{Deterministic: true}, d)
		if ref.err == nil && ref.pan == nil {
			o.withKey(key).prop("C02", bytes.Equal(ref.b, det.b), fmt.Sprintf("%s %s: deterministic bytes %s, reference %s", id, val, hx(det.b), hx(ref.b)))
			o.withKey(key).prop("C04", proto.Size(d) == sz, fmt.Sprintf("%s %s: Size=%d reference size=%d", id, val, sz, proto.Size(d)))
		} else {
			o.count("ref_marshal_rejects")
		}
	}
	// C05: repeated deterministic marshalling and an equal message with another history
	same := true
	for k := 0; k < 4 && same; k++ {
		again := catchMarshal(proto.MarshalOptions{Deterministic: true}, p)
		same = same && bytes.Equal(again.b, det.b)
	}
	p2 := si.toGo(mi, altHistory(v, c.r)).Interface().(proto.Message)
	alt := catchMarshal(proto.MarshalOptions{Deterministic: true}, p2)
	o.withKey(key).prop("C05", same && bytes.Equal(alt.b, det.b), fmt.Sprintf("%s %s: deterministic bytes differ between repetitions / construction histories: %s vs %s", id, val, hx(det.b), hx(alt.b)))

	// C01 (+C14 unknown bytes): decode both encodings into fresh messages
	want := si.normV(mi, v).String()
	for i, enc := range [][]byte{det.b, nondet.b} {
		name := []string{"det", "nondet"}[i]
		q := reflect.New(mi.goType).Interface().(proto.Message)
		err, pan := catchUnmarshal(proto.UnmarshalOptions{}, enc, q)
		if err != nil || pan != nil {
			o.withKey(key).prop("C01", false, fmt.Sprintf("%s %s: decoding its own %s encoding %s fails: %v %v", id, val, name, hx(enc), err, pan))
			continue
		}
		got := si.normV(mi, si.fromGo(mi, reflect.ValueOf(q))).String()
		o.withKey(key).prop("C01", got == want, fmt.Sprintf("%s: round trip (%s) of %s gives %s (bytes %s)", id, name, want, got, hx(enc)))
	}
	// C07: the output shares no memory with the message: scribble on it and marshal again
	// (compared with a COPY taken before: if the result aliases the message, the second result aliases the same memory)
	orig := append([]byte{}, det.b...)
	scr := det.b
	for i := range scr {
		scr[i] ^= 0xFF
	}
	again := catchMarshal(proto.MarshalOptions{Deterministic: true}, p)
	againCopy := append([]byte{}, again.b...)
	afterScribble := si.fromGo(mi, reflect.ValueOf(p)).String()
	for i := range scr {
		scr[i] ^= 0xFF
	}
	o.withKey("marshal-alias/"+id).prop("C07", bytes.Equal(againCopy, orig) && afterScribble == val,
		fmt.Sprintf("%s: overwriting Marshal's result changed the message (the result shares memory with it): %s marshals to %s, after overwriting that buffer the struct reads %s and marshals to %s", id, val, hx(orig), afterScribble, hx(againCopy)))
	// the same for the non-deterministic result and for MarshalAppend with an empty prefix
	for _, mk := range []func() mres{
		func() mres { return catchMarshal(proto.MarshalOptions{}, p) },
		func() mres {
			b, err := proto.MarshalOptions{Deterministic: true}.MarshalAppend([]byte{}, p)
			return mres{b: b, err: err}
		},
	} {
		r1 := mk()
		if r1.err != nil || r1.pan != nil {
			continue
		}
		for i := range r1.b {
			r1.b[i] ^= 0xFF
		}
		after := si.fromGo(mi, reflect.ValueOf(p)).String()
		for i := range r1.b {
			r1.b[i] ^= 0xFF
		}
		o.withKey("marshal-alias/"+id).prop("C07", after == val, fmt.Sprintf("%s: overwriting a marshalled result changed the message: %s now reads %s", id, val, after))
	}

	// model correspondence for decode on the canonical encoding
	c.decCase(mi, det.b, false, false, nil)
}

func shapeKey(v *V) string {
	// which slots are populated, and with what constructor: a cheap distinctness key
	var sb strings.Builder
	for _, e := range v.L {
		sb.WriteByte(e.K)
		if e.K == 'l' || e.K == 'p' {
			sb.WriteString(fmt.Sprint(len(e.L)))
		}
		if e.K == 'i' || e.K == 'x' || e.K == 'b' {
			s := e.String()
			if len(s) > 6 {
				s = s[:6]
			}
			sb.WriteString(s)
		}
	}
	return sb.String()
}

// decCase: unmarshal bytes into a fresh (or given) message; observed outcome for the model
func (c *codecCtx) decCase(mi *msgInfo, b []byte, merge, discard bool, init *V) (res string, q proto.Message) {
	si, o := c.si, c.o
	if init != nil {
		q = si.toGo(mi, init).Interface().(proto.Message)
	} else {
		q = reflect.New(mi.goType).Interface().(proto.Message)
	}
	in := append([]byte{}, b...)
	var err error
	var pan interface{}
	o.guard("C06", "hang/"+si.id, fmt.Sprintf("Unmarshal of %s into %s.%s does not return", hx(b), si.id, mi.md.Name()), func() {
		err, pan = catchUnmarshal(proto.UnmarshalOptions{Merge: merge, DiscardUnknown: discard}, in, q)
	})
	switch {
	case pan != nil:
		res = "panic"
	case err != nil:
		res = "err"
	default:
		res = "ok " + si.foreignNorm(mi, si.fromGo(mi, reflect.ValueOf(q))).String()
	}
	flags := ""
	if merge {
		flags += "m"
	}
	if discard {
		flags += "d"
	}
	if flags == "" {
		flags = "-"
	}
	iv := "-"
	if init != nil {
		iv = init.String()
	}
	o.kase("DEC", []string{si.id, fmt.Sprint(mi.idx), flags, hx(b), iv}, res)
	o.prop("C07", bytes.Equal(in, b), "Unmarshal modified its input "+hx(b))
	if pan == nil && err == nil {
		// C07: the message must not alias the input: overwrite the whole input, read the struct again
		for i := range in {
			in[i] ^= 0xFF
		}
		after := "ok " + si.foreignNorm(mi, si.fromGo(mi, reflect.ValueOf(q))).String()
		o.withKey("alias/"+si.id+"."+string(mi.md.Name())).prop("C07", after == res, fmt.Sprintf("the message decoded from %s into %s.%s shares memory with the input buffer: after overwriting the input it reads %s, before %s", hx(b), si.id, mi.md.Name(), after, res))
		for i := range in {
			in[i] ^= 0xFF
		}
	}
	return res, q
}

// nilMessage: Size / Marshal / MarshalAppend / ProtoMethods().Marshal with a prefix on (*T)(nil): no bytes, prefix kept
func (c *codecCtx) nilMessage(mi *msgInfo) {
	o, si := c.o, c.si
	id := si.id + "." + string(mi.md.Name())
	key := "codec-nil/" + id
	nilMsg := reflect.Zero(reflect.PointerTo(mi.goType)).Interface().(proto.Message)
	var pan interface{}
	func() {
		defer func() { pan = recover() }()
		o.withKey(key).prop("C09", proto.Size(nilMsg) == 0, id+": Size of the typed nil message is not 0")
		b, err := proto.Marshal(nilMsg)
		o.withKey(key).prop("C09", err == nil && len(b) == 0, fmt.Sprintf("%s: Marshal of the typed nil message gives %s %v", id, hx(b), err))
		for _, pre := range [][]byte{nil, {}, []byte("already-framed"), append(make([]byte, 0, 64), 0x18, 0x07)} {
			orig := append([]byte{}, pre...)
			for _, det := range []bool{false, true} {
				out, err := proto.MarshalOptions{Deterministic: det}.MarshalAppend(pre, nilMsg)
				o.withKey(key).prop("C09", err == nil && bytes.Equal(out, orig), fmt.Sprintf("%s: MarshalAppend(%s, typed nil) = %s %v, want the prefix unchanged", id, hx(orig), hx(out), err))
				o.withKey(key).prop("C04", err == nil && bytes.Equal(out, orig), fmt.Sprintf("%s: MarshalAppend(%s, typed nil) = %s %v, want the prefix unchanged", id, hx(orig), hx(out), err))
			}
			if m := nilMsg.ProtoReflect().ProtoMethods(); m != nil && m.Marshal != nil {
				mo, err := m.Marshal(protoiface.MarshalInput{Message: nilMsg.ProtoReflect(), Buf: append([]byte{}, orig...)})
				o.withKey(key).prop("C09", err == nil && bytes.Equal(mo.Buf, orig), fmt.Sprintf("%s: ProtoMethods().Marshal with Buf %s on the typed nil message returns %s", id, hx(orig), hx(mo.Buf)))
			}
		}
	}()
	o.withKey(key).prop("C09", pan == nil, fmt.Sprintf("%s: a read-only codec call on the typed nil message panics: %v", id, pan))
	o.count("nil_message")
}

func engineCodec(cfg config, o *out) {
	schemas := loadSchemas()
	o.hist["programs"] = len(schemas)
	for _, si := range schemas {
		o.raw("SCHEMA\t" + si.id + "\t=\t" + si.sexp())
		c := &codecCtx{o: o, si: si, r: newRng(cfg.seed, "codec/"+si.id), cfg: cfg}
		g := &vgen{r: c.r, si: si, nilElems: true}
		for _, mi := range si.roots() {
			// empty message
			c.one(mi, si.emptyV(mi), "empty")
			// messages that hold nothing but unknown fields (one and several records)
			for k := 1; k <= 2; k++ {
				v := si.emptyV(mi)
				for j := 0; j < k; j++ {
					v.Unk = append(v.Unk, genUnknownFor(c.r, mi)...)
				}
				c.one(mi, v, "unknown-only")
			}
			// the typed nil message is an empty read-only message for every read-only codec call, append mode included
			c.nilMessage(mi)
			// one-hot: each field alone, each boundary value
			for i, fi := range mi.fields {
				fd := fi.fd
				nb := 1
				if !fd.IsMap() && !fd.IsList() && fd.Kind() != protoreflect.MessageKind {
					nb = g.boundaryCount(fd)
				} else {
					nb = 4
				}
				if !cfg.thorough() && nb > 8 && (si.id == "vtest3" || si.id == "vtestpb") {
					nb = 6 // the renamed copies repeat the checked-in schemas: fewer one-hots in quick
				}
				for b := 0; b < nb; b++ {
					v := si.emptyV(mi)
					switch {
					case fi.oneofIdx >= 0:
						if fd.Kind() == protoreflect.MessageKind {
							v.L[i] = &V{K: 's', P: g.elem(fd, 2)}
						} else {
							v.L[i] = &V{K: 's', P: g.scalarAt(fd, b)}
						}
					case fd.IsMap() || fd.IsList() || fd.Kind() == protoreflect.MessageKind:
						v.L[i] = g.field(fi, 2)
					default:
						v.L[i] = g.scalarAt(fd, b)
					}
					c.one(mi, v, "onehot")
				}
			}
			// random full messages, with unknown fields on some
			n := 30
			if cfg.thorough() {
				n = 600
			}
			for k := 0; k < n; k++ {
				g.badUTF8 = k%7 == 6
				g.big = cfg.thorough()
				g.unkDeep = k%4 == 1 // unknown records at every nesting level (a child of a type without fields carries only those)
				v := g.msg(mi, 3, 2+c.r.intn(7))
				g.unkDeep = false
				if k%3 == 0 {
					for j := c.r.intn(3); j >= 0; j-- {
						v.Unk = append(v.Unk, genUnknownFor(c.r, mi)...)
					}
				}
				c.one(mi, v, "random")
			}
		}
	}
}

// an unknown record whose number is not in the schema of mi
func genUnknownFor(r *rng, mi *msgInfo) []byte {
	for {
		b := genRecord(r, 2)
		num, _, n := protowireConsumeTag(b)
		if n > 0 && mi.md.Fields().ByNumber(num) == nil {
			return b
		}
	}
}

// hasF32SNaN: does the value hold a float32 signalling NaN anywhere
func hasF32SNaN(si *schemaInfo, mi *msgInfo, v *V) bool {
	found := false
	var elem func(fd protoreflect.FieldDescriptor, e *V)
	elem = func(fd protoreflect.FieldDescriptor, e *V) {
		if e == nil || e.K == 'n' {
			return
		}
		if fd.Kind() == protoreflect.FloatKind && e.K == 'x' {
			u := uint32(e.U)
			if u&0x7f800000 == 0x7f800000 && u&0x007fffff != 0 && u&0x00400000 == 0 {
				found = true
			}
		}
		if fd.Kind() == protoreflect.MessageKind && e.K == 'm' {
			found = found || hasF32SNaN(si, si.byName[fd.Message().FullName()], e)
		}
	}
	for i, fi := range mi.fields {
		sv := v.L[i]
		switch {
		case fi.fd.IsMap():
			for j := 0; j+1 < len(sv.L); j += 2 {
				elem(fi.fd.MapValue(), sv.L[j+1])
			}
		case fi.fd.IsList():
			for _, e := range sv.L {
				elem(fi.fd, e)
			}
		case sv.K == 's':
			elem(fi.fd, sv.P)
		default:
			elem(fi.fd, sv)
		}
	}
	return found
}
