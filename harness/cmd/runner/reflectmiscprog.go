package main

// Engine "reflectmiscprog" — translator tie for the REMAINING methods the fast-reflection templates print for every message type
// (features/fastreflection/proto_message.go, type.go; coq/Model/ReflectMiscProg.v), task T18.
//
// On every run, for every generated message type T of every loaded schema set, the Go SOURCE of
//     func (x *T) ProtoReflect / slowProtoReflect
//     func (x *fastReflection_T) Descriptor / Type / New / Interface / GetUnknown / SetUnknown / IsValid / ProtoMethods
//     func (x fastReflection_T_messageType) Zero / New / Descriptor
// (checked-in *.pulsar.go under VERIF_REPO, freshly generated ones under harness/gen/<set>/) is parsed with go/parser. The signature of
// every method is checked literally and its body is translated, statement by statement and token for token, into the syntax of
// Model/ReflectMiscProg.v: a statement must be one of `return E`, `if x == nil { return E }`, `if x == nil { return }`,
// `x.unknownFields = fields`, an expression one of `( *fastReflection_M)(x)`, `( *M)(x)`, `( *fastReflection_M)(nil)`,
// `new(fastReflection_M)`, a variable assigned ONCE in init() to the descriptor of a message of its file (-> that message), a variable
// declared ONCE as `var V fastReflection_M_messageType` (-> M), `x != nil`, `x.unknownFields`, `nil`. ProtoMethods must be exactly
// the closures `size := func(input protoiface.SizeInput) protoiface.SizeOutput {…}`, `marshal := …`, `unmarshal := …` (their bodies are
// the business of sizeprog / marshalprog / unmarshalprog) followed by `return &protoiface.Methods{…}` with the seven keyed entries
// in the template's order. Anything else makes the method "untranslatable". The driver compares the translation with canon_mzprogs
// and runs the Coq interpreter on the TRANSLATED methods against the running code.
//
// Case lines (evaluated by driver/reflectmiscprog_eval.ml, which also documents the text form):
//	REFLECTMISCPROG <set> <idx> <method>          = (body stmt…) | (methods …) | untranslatable:<file>:<line>:<col>:<why>   (model: the canonical method)
//	REFLECTMISCPROG <set> <idx> slowProtoReflect <k> = (slow k')   k: position of the message in its file's message list, computed from the descriptor
//	@REFLECTMISCDEF <set> <idx> <text>            = ok      context line: all translated methods of the type, remembered by every driver shard
//	REFLECTMISCPROG <set> <idx> all eqb           = same    (model: mzprogs_eqb <translated> (canon_mzprogs sch idx))
//	REFLECTMISCPROG <set> <idx> ProtoMethods law  = true    (model: mz_methods_law on the TRANSLATED ProtoMethods: the table of the nil and of a real receiver)
//	REFLECTMISCRUN  <set> <idx> <VAL> <ops>       = <out>|<root>;…   one history on a struct built from VAL: ops of HISTV lines (new nil zero getunk setunk
//	                                                valid) + xnew r (r.New()), tnew r (r.Type().New()), tzero r (r.Type().Zero()), iface r
//	                                                (r.Interface().ProtoReflect()), desc r, tdesc r (r.Type().Descriptor()), methods r; model: the same
//	                                                history with these methods INTERPRETED from the translated text

import (
	"fmt"
	"go/ast"
	"go/parser"
	"go/token"
	"os"
	"path/filepath"
	"reflect"
	"sort"
	"strconv"
	"strings"

	"google.golang.org/protobuf/proto"
	"google.golang.org/protobuf/reflect/protoreflect"
	"google.golang.org/protobuf/runtime/protoiface"
)

func init() { engines["reflectmiscprog"] = engineReflectMiscProg }

const zpProtoifacePath = "google.golang.org/protobuf/runtime/protoiface"
const zpProtoimplPath = "google.golang.org/protobuf/runtime/protoimpl"

// the methods, in the order of the text form; receiver: "msg" = *T, "fast" = *fastReflection_T, "type" = fastReflection_T_messageType
var zpMethods = []struct{ name, recv, decl, sig string }{
	{"ProtoReflect", "msg", "ProtoReflect", "ProtoReflect() PR.Message"},
	{"Descriptor", "fast", "Descriptor", "Descriptor() PR.MessageDescriptor"},
	{"Type", "fast", "Type", "Type() PR.MessageType"},
	{"New", "fast", "New", "New() PR.Message"},
	{"Interface", "fast", "Interface", "Interface() PR.ProtoMessage"},
	{"GetUnknown", "fast", "GetUnknown", "GetUnknown() PR.RawFields"},
	{"SetUnknown", "fast", "SetUnknown", "SetUnknown(fields PR.RawFields)"},
	{"IsValid", "fast", "IsValid", "IsValid() bool"},
	{"ProtoMethods", "fast", "ProtoMethods", "ProtoMethods() *PI.Methods"},
	{"Type.Zero", "type", "Zero", "Zero() PR.Message"},
	{"Type.New", "type", "New", "New() PR.Message"},
	{"Type.Descriptor", "type", "Descriptor", "Descriptor() PR.MessageDescriptor"},
}

// ---- package source ---------------------------------------------------------------------------------------------------
type zpPkg struct {
	rp      *rpPkg                       // fset, init() assignments (fdVars / mdChain / mdCount)
	funcs   map[string][]*spMethod       // "<receiver text>.<name>" -> declarations ("*B.ProtoReflect", "fastReflection_B_messageType.Zero")
	varType map[string][]string          // package-level `var V T` without value: V -> type names (one per declaration)
	defined map[string]int               // every package-level identifier -> number of declarations
	err     error
}

var zpPkgs = map[string]*zpPkg{}

func zpPkgOf(mi *msgInfo) *zpPkg {
	pp := mi.goType.PkgPath()
	if p, ok := zpPkgs[pp]; ok {
		return p
	}
	var p *zpPkg
	if dir := spDir(pp); dir != "" {
		p = zpLoad(dir)
	} else {
		p = &zpPkg{err: fmt.Errorf("no source directory known for package %s", pp)}
	}
	zpPkgs[pp] = p
	return p
}

func zpLoad(dir string) *zpPkg {
	rp := &rpPkg{fset: token.NewFileSet(), methods: map[string]map[string][]*spMethod{}, fdVars: map[string]*rpFdVar{}, mdChain: map[string][]string{}, mdCount: map[string]int{}}
	p := &zpPkg{rp: rp, funcs: map[string][]*spMethod{}, varType: map[string][]string{}, defined: map[string]int{}}
	all, _ := filepath.Glob(filepath.Join(dir, "*.go"))
	sort.Strings(all)
	found := false
	for _, path := range all {
		if strings.HasSuffix(path, "_test.go") {
			continue
		}
		src, err := os.ReadFile(path)
		if err != nil {
			p.err = err
			return p
		}
		af, err := parser.ParseFile(rp.fset, path, src, 0)
		if err != nil {
			p.err = err
			return p
		}
		for _, name := range rpPredeclared {
			if af.Scope.Lookup(name) != nil {
				p.err = fmt.Errorf("%s declares %s at package level", filepath.Base(path), name)
				return p
			}
		}
		f := &spFile{path: path, src: src, file: af, imports: map[string]string{}}
		for _, im := range af.Imports {
			ip, _ := strconv.Unquote(im.Path.Value)
			name := filepath.Base(ip)
			if im.Name != nil {
				name = im.Name.Name
			}
			f.imports[ip] = name
		}
		pulsar := strings.HasSuffix(path, ".pulsar.go")
		found = found || pulsar
		for _, d := range af.Decls {
			switch d := d.(type) {
			case *ast.GenDecl:
				for _, sp := range d.Specs {
					switch sp := sp.(type) {
					case *ast.ValueSpec:
						for _, n := range sp.Names {
							p.defined[n.Name]++
							if d.Tok == token.VAR && len(sp.Values) == 0 {
								if id, ok := sp.Type.(*ast.Ident); ok {
									p.varType[n.Name] = append(p.varType[n.Name], id.Name)
									continue
								}
							}
							if n.Name != "_" {
								p.varType[n.Name] = append(p.varType[n.Name], "?")
							}
						}
					case *ast.TypeSpec:
						p.defined[sp.Name.Name]++
					}
				}
			case *ast.FuncDecl:
				if d.Recv == nil {
					p.defined[d.Name.Name]++
					if d.Name.Name == "init" && pulsar {
						rp.scanInit(d)
					}
					continue
				}
				if len(d.Recv.List) != 1 || d.Body == nil {
					continue
				}
				rt := string(src[rp.fset.Position(d.Recv.List[0].Type.Pos()).Offset:rp.fset.Position(d.Recv.List[0].Type.End()).Offset])
				key := strings.ReplaceAll(rt, " ", "") + "." + d.Name.Name
				p.funcs[key] = append(p.funcs[key], &spMethod{f: f, decl: d})
			}
		}
	}
	if !found {
		p.err = fmt.Errorf("no *.pulsar.go in %s", dir)
	}
	return p
}

// ---- the translator of one message type ----------------------------------------------------------------------------------
type zpTr struct {
	pkg    *zpPkg
	si     *schemaInfo
	mi     *msgInfo
	tname  string
	byGo   map[string]int    // Go type name of a message of this package -> message index
	byPath map[string]int    // "<file path>|A.B" (names from the file down) -> message index
	f      *spFile
	at     ast.Node
	pr, pi string
}

func (t *zpTr) fail(why string, a ...interface{}) { panic(spErr{t.at.Pos(), fmt.Sprintf(why, a...)}) }
func (t *zpTr) text(n ast.Node) []byte {
	return t.f.src[t.pkg.rp.fset.Position(n.Pos()).Offset:t.pkg.rp.fset.Position(n.End()).Offset]
}
func (t *zpTr) pat(text string) []string {
	text = strings.ReplaceAll(text, "PR.", t.pr+".")
	pi := t.pi
	if pi == "" {
		pi = "no_protoiface_import"
	}
	text = strings.ReplaceAll(text, "PI.", pi+".")
	return rpPat(text)
}
func (t *zpTr) match(pattern string, src []string) rpBind {
	b := rpBind{}
	if rpMatch(t.pat(pattern), src, b) {
		return b
	}
	return nil
}

func zpMsgPath(md protoreflect.MessageDescriptor) string {
	var path []string
	for d := protoreflect.Descriptor(md); d != nil; d = d.Parent() {
		if _, isFile := d.(protoreflect.FileDescriptor); isFile {
			break
		}
		path = append([]string{string(d.Name())}, path...)
	}
	return strings.Join(path, ".")
}

// position of the message in the message list of its file (protoc-gen-go's file_…_msgTypes; features/fastreflection/copied/file_info.go):
// the top-level messages first, then, walking the messages depth first (parents before children), the children of each (map entries counted)
func zpFileIndex(md protoreflect.MessageDescriptor) int {
	n, res := 0, -1
	add := func(ms protoreflect.MessageDescriptors) {
		for i := 0; i < ms.Len(); i++ {
			if ms.Get(i).FullName() == md.FullName() {
				res = n
			}
			n++
		}
	}
	var walk func(ms protoreflect.MessageDescriptors)
	walk = func(ms protoreflect.MessageDescriptors) {
		for i := 0; i < ms.Len(); i++ {
			add(ms.Get(i).Messages())
			walk(ms.Get(i).Messages())
		}
	}
	add(md.ParentFile().Messages())
	walk(md.ParentFile().Messages())
	return res
}

func (t *zpTr) fastType(name string) int {
	if !strings.HasPrefix(name, "fastReflection_") {
		t.fail("%s is not a fastReflection_ type", name)
	}
	m, ok := t.byGo[strings.TrimPrefix(name, "fastReflection_")]
	if !ok || t.pkg.defined[name] != 1 {
		t.fail("%s is not the fast-reflection type of a message of this package", name)
	}
	return m
}
func (t *zpTr) msgType(name string) int {
	m, ok := t.byGo[name]
	if !ok || t.pkg.defined[name] != 1 {
		t.fail("%s is not the Go type of a message of this package", name)
	}
	return m
}

func (t *zpTr) expr(e ast.Expr) string {
	t.at = e
	src := spToks(t.text(e))
	if b := t.match("(*HOLE_T)(x)", src); b != nil {
		n := one(b, "HOLE_T")
		if strings.HasPrefix(n, "fastReflection_") {
			return fmt.Sprintf("(castfast %d)", t.fastType(n))
		}
		return fmt.Sprintf("(castmsg %d)", t.msgType(n))
	}
	if b := t.match("(*HOLE_T)(nil)", src); b != nil {
		return fmt.Sprintf("(nilfast %d)", t.fastType(one(b, "HOLE_T")))
	}
	if b := t.match("new(HOLE_T)", src); b != nil {
		return fmt.Sprintf("(newfast %d)", t.fastType(one(b, "HOLE_T")))
	}
	if t.match("x != nil", src) != nil {
		return "nenil"
	}
	if t.match("x.unknownFields", src) != nil {
		return "unknown"
	}
	if id, ok := e.(*ast.Ident); ok {
		if id.Name == "nil" {
			return "nil"
		}
		// a descriptor variable: declared once, assigned once, in init(), to <File var>.Messages().ByName(a)[.Messages().ByName(b)…]
		if chain, ok := t.pkg.rp.mdChain[id.Name]; ok {
			if t.pkg.rp.mdCount[id.Name] != 1 || t.pkg.defined[id.Name] != 1 {
				t.fail("the variable %s is not declared once and assigned once in init()", id.Name)
			}
			m, ok := t.byPath[strings.Join(chain, ".")]
			if !ok {
				t.fail("%s is assigned the descriptor of %s, which is not a message of the file", id.Name, strings.Join(chain, "."))
			}
			return fmt.Sprintf("(md %d)", m)
		}
		// a message type variable: `var V fastReflection_M_messageType`, the empty struct type of M
		if ty := t.pkg.varType[id.Name]; len(ty) == 1 && t.pkg.defined[id.Name] == 1 && strings.HasSuffix(ty[0], "_messageType") && t.pkg.rp.mdCount[id.Name] == 0 {
			if t.pkg.defined[ty[0]] != 1 {
				t.fail("the type %s of %s is not declared once", ty[0], id.Name)
			}
			return fmt.Sprintf("(type %d)", t.fastType(strings.TrimSuffix(ty[0], "_messageType")))
		}
		t.fail("the variable %s is neither a descriptor variable nor a message type variable", id.Name)
	}
	t.fail("expression `%s` is not one of the template's", string(t.text(e)))
	return ""
}

func (t *zpTr) stmt(s ast.Stmt) string {
	t.at = s
	switch s := s.(type) {
	case *ast.ReturnStmt:
		if len(s.Results) != 1 {
			t.fail("return with %d results", len(s.Results))
		}
		return "(ret " + t.expr(s.Results[0]) + ")"
	case *ast.IfStmt:
		if s.Init != nil || s.Else != nil || t.match("x == nil", spToks(t.text(s.Cond))) == nil || len(s.Body.List) != 1 {
			t.fail("if statement is not `if x == nil { return … }`")
		}
		r, ok := s.Body.List[0].(*ast.ReturnStmt)
		if !ok || len(r.Results) > 1 {
			t.fail("if statement is not `if x == nil { return … }`")
		}
		if len(r.Results) == 0 {
			return "ifnilvoid"
		}
		return "(ifnil " + t.expr(r.Results[0]) + ")"
	case *ast.AssignStmt:
		if t.match("x.unknownFields = fields", spToks(t.text(s))) == nil {
			t.fail("assignment is not `x.unknownFields = fields`")
		}
		return "storeunknown"
	}
	t.fail("statement `%s` is not one of the template's", string(t.text(s)))
	return ""
}

var zpClosSig = map[string]string{
	"size":      "func(input PI.SizeInput) PI.SizeOutput",
	"marshal":   "func(input PI.MarshalInput) (PI.MarshalOutput, error)",
	"unmarshal": "func(input PI.UnmarshalInput) (PI.UnmarshalOutput, error)",
}
var zpLitKeys = []string{"NoUnkeyedLiterals", "Flags", "Size", "Marshal", "Unmarshal", "Merge", "CheckInitialized"}

func (t *zpTr) protoMethods(body []ast.Stmt) string {
	if len(body) == 0 {
		t.fail("empty body")
	}
	var locals []string
	for _, s := range body[:len(body)-1] {
		t.at = s
		as, ok := s.(*ast.AssignStmt)
		if !ok || as.Tok != token.DEFINE || len(as.Lhs) != 1 || len(as.Rhs) != 1 {
			t.fail("statement in front of the Methods literal is not `name := func…`")
		}
		id, ok1 := as.Lhs[0].(*ast.Ident)
		fl, ok2 := as.Rhs[0].(*ast.FuncLit)
		if !ok1 || !ok2 || zpClosSig[id.Name] == "" {
			t.fail("statement in front of the Methods literal is not the definition of the closure size / marshal / unmarshal")
		}
		if t.match(zpClosSig[id.Name], spToks(t.text(fl.Type))) == nil {
			t.fail("the closure %s does not have the type `%s`", id.Name, zpClosSig[id.Name])
		}
		locals = append(locals, id.Name)
	}
	t.at = body[len(body)-1]
	r, ok := body[len(body)-1].(*ast.ReturnStmt)
	if !ok || len(r.Results) != 1 {
		t.fail("ProtoMethods does not end in `return &protoiface.Methods{…}`")
	}
	u, ok := r.Results[0].(*ast.UnaryExpr)
	if !ok || u.Op != token.AND {
		t.fail("ProtoMethods does not end in `return &protoiface.Methods{…}`")
	}
	cl, ok := u.X.(*ast.CompositeLit)
	if !ok || cl.Type == nil || t.match("PI.Methods", spToks(t.text(cl.Type))) == nil {
		t.fail("ProtoMethods does not end in `return &protoiface.Methods{…}`")
	}
	if len(cl.Elts) != len(zpLitKeys) {
		t.fail("the Methods literal has %d entries, %d expected", len(cl.Elts), len(zpLitKeys))
	}
	var ents []string
	flags := ""
	for k, e := range cl.Elts {
		t.at = e
		kv, ok := e.(*ast.KeyValueExpr)
		if !ok {
			t.fail("unkeyed entry in the Methods literal")
		}
		key, ok := kv.Key.(*ast.Ident)
		if !ok || key.Name != zpLitKeys[k] {
			t.fail("entry %d of the Methods literal is not %s", k, zpLitKeys[k])
		}
		switch key.Name {
		case "NoUnkeyedLiterals":
			if t.match("struct{}{}", spToks(t.text(kv.Value))) == nil {
				t.fail("NoUnkeyedLiterals is not struct{}{}")
			}
		case "Flags":
			var fs []string
			var walk func(e ast.Expr)
			walk = func(e ast.Expr) {
				if be, ok := e.(*ast.BinaryExpr); ok && be.Op == token.OR {
					walk(be.X)
					walk(be.Y)
					return
				}
				switch {
				case t.match("PI.SupportMarshalDeterministic", spToks(t.text(e))) != nil:
					fs = append(fs, "det")
				case t.match("PI.SupportUnmarshalDiscardUnknown", spToks(t.text(e))) != nil:
					fs = append(fs, "discard")
				default:
					t.at = e
					t.fail("flag `%s` is not a protoiface.Support… constant", string(t.text(e)))
				}
			}
			walk(kv.Value)
			flags = "(flags " + strings.Join(fs, " ") + ")"
		default:
			id, ok := kv.Value.(*ast.Ident)
			if !ok || (id.Name != "nil" && zpClosSig[id.Name] == "") {
				t.fail("entry %s is neither nil nor one of the closures", key.Name)
			}
			ents = append(ents, id.Name)
		}
	}
	return "(methods (locals" + pre(locals) + ") " + flags + pre(ents) + ")"
}

func pre(l []string) string {
	s := ""
	for _, x := range l {
		s += " " + x
	}
	return s
}

// translate one method; key: the declaration looked up
func (t *zpTr) method(k int) (res string) {
	m := zpMethods[k]
	recvType := map[string]string{"msg": "*" + t.tname, "fast": "*fastReflection_" + t.tname, "type": "fastReflection_" + t.tname + "_messageType"}[m.recv]
	ds := t.pkg.funcs[recvType+"."+m.decl]
	if len(ds) != 1 {
		return fmt.Sprintf("untranslatable:-:%d declarations of (%s).%s", len(ds), recvType, m.decl)
	}
	d := ds[0]
	t.f = d.f
	t.pr, t.pi = d.f.imports[rpProtoreflectPath], d.f.imports[zpProtoifacePath]
	t.at = d.decl
	defer func() {
		if e := recover(); e != nil {
			se, ok := e.(spErr)
			if !ok {
				panic(e)
			}
			p := t.pkg.rp.fset.Position(se.pos)
			res = fmt.Sprintf("untranslatable:%s:%d:%d:%s", filepath.Base(p.Filename), p.Line, p.Column, se.why)
		}
	}()
	if t.pr == "" {
		t.fail("the file does not import protoreflect")
	}
	head := t.f.src[t.pkg.rp.fset.Position(d.decl.Pos()).Offset:t.pkg.rp.fset.Position(d.decl.Body.Lbrace).Offset]
	if t.match("func (x "+recvType+") "+m.sig, spToks(head)) == nil {
		t.fail("the signature of %s is not the template's", m.name)
	}
	if m.name == "ProtoMethods" {
		return t.protoMethods(d.decl.Body.List)
	}
	out := "(body"
	for _, s := range d.decl.Body.List {
		out += " " + t.stmt(s)
	}
	return out + ")"
}

// slowProtoReflect: the fixed frame, with the index into the file's msgTypes
func (t *zpTr) slow() (res string) {
	ds := t.pkg.funcs["*"+t.tname+".slowProtoReflect"]
	if len(ds) != 1 {
		return fmt.Sprintf("untranslatable:-:%d declarations of (*%s).slowProtoReflect", len(ds), t.tname)
	}
	d := ds[0]
	t.f = d.f
	t.pr = d.f.imports[rpProtoreflectPath]
	t.at = d.decl
	defer func() {
		if e := recover(); e != nil {
			se, ok := e.(spErr)
			if !ok {
				panic(e)
			}
			p := t.pkg.rp.fset.Position(se.pos)
			res = fmt.Sprintf("untranslatable:%s:%d:%d:%s", filepath.Base(p.Filename), p.Line, p.Column, se.why)
		}
	}()
	impl := d.f.imports[zpProtoimplPath]
	if t.pr == "" || impl == "" {
		t.fail("the file does not import protoreflect and protoimpl")
	}
	pat := "func (x *" + t.tname + ") slowProtoReflect() PR.Message {\n" +
		"mi := &HOLE_TYPES[HOLE_K]\n" +
		"if IMPL.UnsafeEnabled && x != nil {\n" +
		"ms := IMPL.X.MessageStateOf(IMPL.Pointer(x))\n" +
		"if ms.LoadMessageInfo() == nil { ms.StoreMessageInfo(mi) }\n" +
		"return ms\n}\n" +
		"return mi.MessageOf(x)\n}"
	b := t.match(strings.ReplaceAll(pat, "IMPL.", impl+"."), spToks(t.text(d.decl)))
	if b == nil {
		t.fail("slowProtoReflect is not the template's frame")
	}
	k, err := strconv.Atoi(one(b, "HOLE_K"))
	if err != nil || k < 0 {
		t.fail("the index into %s is not a literal", one(b, "HOLE_TYPES"))
	}
	if !strings.HasPrefix(one(b, "HOLE_TYPES"), "file_") || !strings.HasSuffix(one(b, "HOLE_TYPES"), "_msgTypes") {
		t.fail("%s is not the file's msgTypes variable", one(b, "HOLE_TYPES"))
	}
	return fmt.Sprintf("(slow %d)", k)
}

func zpTranslator(si *schemaInfo, mi *msgInfo) (*zpTr, string) {
	pkg := zpPkgOf(mi)
	if pkg.err != nil {
		return nil, "untranslatable:-:" + pkg.err.Error()
	}
	t := &zpTr{pkg: pkg, si: si, mi: mi, tname: mi.goType.Name(), byGo: map[string]int{}, byPath: map[string]int{}}
	for _, o := range si.msgs {
		if o.goType != nil && o.goType.PkgPath() == mi.goType.PkgPath() {
			t.byGo[o.goType.Name()] = o.idx
			// (descriptor variables select by name from the file variable: the messages of the same FILE as this one)
			if o.md.ParentFile().Path() == mi.md.ParentFile().Path() {
				t.byPath[zpMsgPath(o.md)] = o.idx
			}
		}
	}
	return t, ""
}

// ---- differential run ----------------------------------------------------------------------------------------------------------
type zpRunner struct {
	o  *out
	si *schemaInfo
}

// the struct behind a message handle of the generated type, read through package reflect (not through Interface())
func (zr *zpRunner) leaf(mi *msgInfo, m protoreflect.Message) (s string) {
	defer func() {
		if e := recover(); e != nil {
			s = fmt.Sprintf("render-panic(%v)", e)
		}
	}()
	rv := reflect.ValueOf(m)
	if rv.Kind() != reflect.Ptr || !rv.Type().Elem().ConvertibleTo(mi.goType) {
		return "?" + rv.Type().String()
	}
	p := rv.Convert(reflect.PtrTo(mi.goType))
	if p.IsNil() {
		return "M0"
	}
	return "M1:" + zr.si.fromGo(mi, p).String()
}

func (zr *zpRunner) apply(mi *msgInfo, hs []protoreflect.Message, w []string) (h protoreflect.Message, out string) {
	defer func() {
		if e := recover(); e != nil {
			h, out = nil, "panic"
		}
	}()
	msg := func(m protoreflect.Message) (protoreflect.Message, string) { return m, zr.leaf(mi, m) }
	desc := func(d protoreflect.MessageDescriptor) string {
		if o := zr.si.byName[d.FullName()]; o != nil && d == o.md {
			return "D" + strconv.Itoa(o.idx)
		}
		return "D?" + string(d.FullName())
	}
	switch w[0] {
	case "new":
		return msg(reflect.New(mi.goType).Interface().(proto.Message).ProtoReflect())
	case "nil":
		return msg(reflect.Zero(reflect.PtrTo(mi.goType)).Interface().(proto.Message).ProtoReflect())
	}
	k, _ := strconv.Atoi(w[1][1:])
	r := hs[k]
	if r == nil {
		panic("harness: receiver is not a message")
	}
	switch w[0] {
	case "getunk":
		return nil, "y" + hx(r.GetUnknown())
	case "setunk":
		var b []byte
		if w[2] != "-" {
			b = unhx(w[2])
		}
		r.SetUnknown(b)
		return nil, "u"
	case "valid":
		if r.IsValid() {
			return nil, "t"
		}
		return nil, "f"
	case "xnew":
		return msg(r.New())
	case "tnew":
		return msg(r.Type().New())
	case "tzero":
		return msg(r.Type().Zero())
	case "iface":
		return msg(r.Interface().ProtoReflect())
	case "desc":
		return nil, desc(r.Descriptor())
	case "tdesc":
		return nil, desc(r.Type().Descriptor())
	case "methods":
		pm := r.ProtoMethods()
		if pm == nil {
			return nil, "Znil"
		}
		bit := func(b bool) string {
			if b {
				return "1"
			}
			return "0"
		}
		return nil, "Z" + strconv.FormatUint(uint64(pm.Flags), 10) + ":" + bit(pm.Size != nil) + bit(pm.Marshal != nil) + bit(pm.Unmarshal != nil) + bit(pm.Merge != nil) + bit(pm.CheckInitialized != nil)
	}
	panic("harness: op " + w[0])
}

var _ = protoiface.SupportMarshalDeterministic

func (zr *zpRunner) run(mi *msgInfo, v *V, class string, ops []string) {
	root := zr.si.toGo(mi, v)
	hs := []protoreflect.Message{root.Interface().(proto.Message).ProtoReflect()}
	var raws []string
	for _, op := range ops {
		w := strings.Split(op, " ")
		h, out := zr.apply(mi, hs, w)
		hs = append(hs, h)
		raws = append(raws, out+"|"+zr.si.fromGo(mi, root).String())
		res := out
		if i := strings.IndexAny(out, ":"); i > 0 {
			res = out[:i]
		}
		if strings.HasPrefix(res, "D") && !strings.HasPrefix(res, "D?") {
			res = "D" // (the descriptor of a message of the set)
		}
		zr.o.count("miscop_" + w[0] + "_" + res)
	}
	zr.o.kase("REFLECTMISCRUN", []string{zr.si.id, strconv.Itoa(mi.idx), v.String(), strings.Join(ops, ";")}, strings.Join(raws, ";"))
	zr.o.count("miscrun_" + class)
	zr.o.nontrivial(zr.si.id + "/" + strconv.Itoa(mi.idx) + "/" + class)
}

// every method on receiver r<k>; results are appended from index base on
func zpOpsOn(k int, base int, unk, unk2 []byte) []string {
	r := "r" + strconv.Itoa(k)
	at := func(i int) string { return "r" + strconv.Itoa(base+i) }
	return []string{
		"valid " + r, "getunk " + r, "setunk " + r + " " + hx(unk), "getunk " + r, "setunk " + r + " -", "getunk " + r, // 0..5
		"xnew " + r, "valid " + at(6), "getunk " + at(6), "setunk " + at(6) + " " + hx(unk2), "getunk " + at(6), "getunk " + r, // 6..11
		"tnew " + r, "valid " + at(12), "setunk " + at(12) + " " + hx(unk), "getunk " + at(12), // 12..15
		"tzero " + r, "valid " + at(16), "getunk " + at(16), "setunk " + at(16) + " " + hx(unk), "xnew " + at(16), "tnew " + at(16), "tzero " + at(16), "iface " + at(16), "valid " + at(23), // 16..24
		"iface " + r, "valid " + at(25), "setunk " + at(25) + " " + hx(unk2), "getunk " + r, "getunk " + at(25), // 25..29: the same object
		"desc " + r, "tdesc " + r, "methods " + r, "desc " + at(16), "tdesc " + at(16), "methods " + at(16),
	}
}

func (zr *zpRunner) runs(cfg config, mi *msgInfo, r *rng) {
	vg := &vgen{r: r, si: zr.si, nilElems: true}
	unk := unkFor(mi)
	unk2 := append(append([]byte{}, unk...), unk...)
	vals := []*V{zr.si.emptyV(mi)}
	nvals := 1
	if cfg.thorough() {
		nvals = 6
	}
	for k := 0; k < nvals; k++ {
		v := vg.msg(mi, 2, 2+r.intn(7))
		fixLits(zr.si, mi, v)
		vals = append(vals, v)
	}
	for vi, v := range vals {
		class := "populated"
		if vi == 0 {
			class = "empty"
		}
		zr.run(mi, v, class, zpOpsOn(0, 1, unk, unk2))
	}
	// the typed nil pointer, and a struct from new(T)
	zr.run(mi, zr.si.emptyV(mi), "nil_receiver", append([]string{"nil " + strconv.Itoa(mi.idx)}, zpOpsOn(1, 2, unk, unk2)...))
	zr.run(mi, zr.si.emptyV(mi), "new_receiver", append([]string{"new " + strconv.Itoa(mi.idx)}, zpOpsOn(1, 2, unk, unk2)...))
}

func engineReflectMiscProg(cfg config, o *out) {
	schemas := loadSchemas()
	for _, si := range schemas {
		o.raw("SCHEMA\t" + si.id + "\t=\t" + si.sexp())
		r := newRng(cfg.seed, "reflectmiscprog/"+si.id)
		full := map[int]bool{}
		for _, mi := range si.roots() {
			args := []string{si.id, fmt.Sprint(mi.idx)}
			t, failure := zpTranslator(si, mi)
			all := true
			var texts []string
			for k, m := range zpMethods {
				text := failure
				if failure == "" {
					text = t.method(k)
				}
				o.kase("REFLECTMISCPROG", append(append([]string{}, args...), m.name), text)
				if strings.HasPrefix(text, "untranslatable:") {
					o.count("untranslatable")
					o.count("untranslatable_" + m.name)
					all = false
					continue
				}
				o.count("translated")
				o.count("translated_" + m.name)
				o.nontrivial("miscprog/" + m.name + "/" + text)
				texts = append(texts, text)
			}
			slow := failure
			if failure == "" {
				slow = t.slow()
			}
			o.kase("REFLECTMISCPROG", append(append([]string{}, args...), "slowProtoReflect", strconv.Itoa(zpFileIndex(mi.md))), slow)
			if strings.HasPrefix(slow, "untranslatable:") {
				o.count("untranslatable")
				o.count("untranslatable_slowProtoReflect")
			} else {
				o.count("translated")
				o.count("translated_slowProtoReflect")
			}
			if all {
				o.kase("@REFLECTMISCDEF", append(append([]string{}, args...), "(progs "+strings.Join(texts, " ")+")"), "ok")
				o.kase("REFLECTMISCPROG", append(append([]string{}, args...), "all", "eqb"), "same")
				o.kase("REFLECTMISCPROG", append(append([]string{}, args...), "ProtoMethods", "law"), "true")
				o.count("types_fully_translated")
				full[mi.idx] = true
			}
		}
		zr := &zpRunner{o: o, si: si}
		for _, mi := range si.roots() {
			// (the interpreter runs on the translated text: a type with an untranslatable method is already a mismatch above)
			if !full[mi.idx] {
				o.count("miscrun_skipped_not_translated")
				continue
			}
			zr.runs(cfg, mi, r)
		}
	}
}
