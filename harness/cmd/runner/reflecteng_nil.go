package main

// Engine "reflectnil" (C09): every read accessor x every field x every way a nil or read-only empty
// message / list / map arises, as scripted histories through the same three-way session as engine
// "reflect" (so that the Coq model is validated on them too), plus the generic library calls
// (proto.Size / Marshal / Equal / Clone / Merge, prototext, protojson) on the enclosing messages.

import (
	"bytes"
	"fmt"
	"math"
	"reflect"

	"google.golang.org/protobuf/encoding/protojson"
	"google.golang.org/protobuf/encoding/prototext"
	"google.golang.org/protobuf/encoding/protowire"
	"google.golang.org/protobuf/proto"
	"google.golang.org/protobuf/reflect/protoreflect"
	"google.golang.org/protobuf/types/dynamicpb"
)

type nilgen struct {
	g  *rgen
	o  *out
	si *schemaInfo
}

// HISTV: result 0 is the loaded value, not a step
func (s *rsession) stepOf(k int) int { return k - (len(s.hs) - len(s.raw)) }

func rawTok(s *rsession, k int) string {
	r := s.raw[s.stepOf(k)]
	for i := 0; i < len(r); i++ {
		if r[i] == '|' {
			return r[:i]
		}
	}
	return r
}

// same: the read at step a (on the nil value) must equal the read at step b (on an empty message)
func (c *script) same(a, b int, what string) {
	s := c.s
	ta, tb := rawTok(s, a), rawTok(s, b)
	s.o.withKey("nil/"+s.si.id+"."+string(s.mi.md.Name())+"/"+what).prop("C09", ta == tb,
		fmt.Sprintf("%s: %s on the nil / read-only value gives %s, on an empty message of the type %s (steps %d and %d)", s.replay(len(s.ops)-1), what, ta, tb, a, b))
}

// noPanic / panics: the absolute part of the property, independent of any reference
func (c *script) noPanic(k int, what string) {
	s := c.s
	s.o.withKey("nil/"+s.si.id+"."+string(s.mi.md.Name())+"/"+what).prop("C09", rawTok(s, k) != "panic",
		fmt.Sprintf("%s: %s on a nil / read-only value panics (step %d)", s.replay(s.stepOf(k)), what, k))
}
func (c *script) panics(k int, what string) {
	s := c.s
	s.o.withKey("nil/"+s.si.id+"."+string(s.mi.md.Name())+"/"+what).prop("C09", rawTok(s, k) == "panic",
		fmt.Sprintf("%s: %s into a nil / read-only value does not panic: it returns %s (step %d)", s.replay(s.stepOf(k)), what, rawTok(s, k), k))
}

// a valid argument for Set of field x of type cm (a literal, or a fresh composite produced by NewField on
// the empty message e)
func (c *script) setValid(n, e int, cm *msgInfo, x int) int {
	fd := cm.fields[x].fd
	if fd.IsList() || fd.IsMap() || isMsgKind(fd) {
		a := c.newf(e, x)
		if fd.IsList() {
			if isMsgKind(fd) {
				c.simple("lappm", a)
			} else {
				c.lappL(a, c.g.nz(fd))
			}
		} else if fd.IsMap() {
			if isMsgKind(fd.MapValue()) {
				c.mkey("mmut", a, c.g.nz(fd.MapKey()))
			} else {
				c.msetL(a, c.g.nz(fd.MapKey()), c.g.nz(fd.MapValue()))
			}
		}
		return c.setH(n, x, a)
	}
	return c.setL(n, x, c.g.nz(fd))
}

// readBattery: every read accessor x every field on message handle n (nil / read-only / empty), each
// compared with the same read on the empty message e of the same type; depth > 0: follow the message
// fields (Get of Get of Get)
func (c *script) readBattery(n, e int, cm *msgInfo, depth int, maxFields int) {
	if !cm.pulsar {
		c.noPanic(c.valid(n), "IsValid")
		return
	}
	c.noPanic(c.valid(n), "IsValid")
	fields := selectFields(cm, maxFields)
	for _, x := range fields {
		fd := cm.fields[x].fd
		a, b := c.has(n, x), c.has(e, x)
		c.noPanic(a, "Has")
		c.same(a, b, "Has")
		s := c.s
		s.o.withKey("nil/Has").prop("C09", rawTok(s, a) == "f", fmt.Sprintf("%s: Has on a nil / read-only value is not false (step %d)", s.replay(s.stepOf(a)), a))
		a, b = c.get(n, x), c.get(e, x)
		c.noPanic(a, "Get")
		c.same(a, b, "Get")
		switch {
		case fd.IsList():
			c.noPanic(c.simple("llen", a), "List.Len")
			c.noPanic(c.simple("lvalid", a), "List.IsValid")
			c.noPanic(c.simple("lnew", a), "List.NewElement")
		case fd.IsMap():
			k := c.g.nz(fd.MapKey())
			c.noPanic(c.simple("mlen", a), "Map.Len")
			c.noPanic(c.simple("mvalid", a), "Map.IsValid")
			c.noPanic(c.mkey("mhas", a, k), "Map.Has")
			c.noPanic(c.mkey("mget", a, k), "Map.Get")
			c.noPanic(c.simple("mrange", a), "Map.Range")
			c.noPanic(c.simple("mnewv", a), "Map.NewValue")
		case isMsgKind(fd):
			c.noPanic(c.valid(a), "IsValid")
			if depth > 0 {
				ccm := c.s.si.byName[fd.Message().FullName()]
				if ccm.pulsar {
					c.readBattery(a, b, ccm, depth-1, 6)
				}
			}
		}
	}
	for j := 0; j < nOneofs(cm); j++ {
		a, b := c.which(n, j), c.which(e, j)
		c.noPanic(a, "WhichOneof")
		c.same(a, b, "WhichOneof")
	}
	a, b := c.rng(n), c.rng(e)
	c.noPanic(a, "Range")
	c.same(a, b, "Range")
	a, b = c.simple("getunk", n), c.simple("getunk", e)
	c.noPanic(a, "GetUnknown")
	c.same(a, b, "GetUnknown")
}

// writeBattery: every store into the invalid message n must panic and change nothing
func (c *script) writeBattery(n, e int, cm *msgInfo, maxFields int) {
	if !cm.pulsar {
		return
	}
	for _, x := range selectFields(cm, maxFields) {
		fd := cm.fields[x].fd
		c.panics(c.setValid(n, e, cm, x), "Set")
		c.clear(n, x) // F panics too (recorded for the model); clearing stores nothing, so it is not demanded
		if fd.IsList() || fd.IsMap() || isMsgKind(fd) {
			c.panics(c.mut(n, x), "Mutable")
		} else {
			c.mut(n, x)
		}
		c.noPanic(c.newf(n, x), "NewField")
		// stores through the invalid views
		switch {
		case fd.IsList():
			v := c.get(n, x)
			if isMsgKind(fd) {
				c.panics(c.simple("lappm", v), "List.AppendMutable")
				ne := c.simple("lnew", v)
				c.panics(c.lappH(v, ne), "List.Append")
			} else {
				c.panics(c.lappL(v, c.g.nz(fd)), "List.Append")
				c.panics(c.lsetL(v, 0, c.g.nz(fd)), "List.Set")
			}
			c.panics(c.lidx("ltrunc", v, 0), "List.Truncate")
		case fd.IsMap():
			v := c.get(n, x)
			k := c.g.nz(fd.MapKey())
			if isMsgKind(fd.MapValue()) {
				c.panics(c.mkey("mmut", v, k), "Map.Mutable")
				nv := c.simple("mnewv", v)
				c.panics(c.msetH(v, k, nv), "Map.Set")
			} else {
				c.panics(c.msetL(v, k, c.g.nz(fd.MapValue())), "Map.Set")
			}
			c.noPanic(c.mkey("mclear", v, k), "Map.Clear")
		}
	}
	c.panics(c.setunk(n, unkFor(cm)), "SetUnknown")
	c.noPanic(c.rng(n), "Range")
}

func (ng *nilgen) session(mi *msgInfo, class string, init *V, soft bool, body func(c *script)) {
	var s *rsession
	if init != nil {
		s = newSessionV(ng.o, ng.si, mi, class, init)
	} else {
		s = &rsession{o: ng.o, si: ng.si, mi: mi, class: class, F: newImplF(), D: newImplD(), S: newImplS()}
		s.impls = []*rimpl{s.F, s.D, s.S}
	}
	s.propID, s.noStop, s.softRef = "C09", true, soft
	if init == nil {
		s.do(&rop{code: "new", r: mi.idx, a: -1})
	}
	c := &script{s: s, g: ng.g}
	func() {
		defer func() {
			if e := recover(); e != nil && e != errStop {
				panic(e)
			}
		}()
		body(c)
	}()
	s.finish()
}

func (c *script) newMsg(mi *msgInfo) int {
	return c.must(c.op(&rop{code: "new", r: mi.idx, a: -1}))
}

// ---- library calls on a message value -----------------------------------------------------------------
func catchStr(f func() string) (s string, pan interface{}) {
	defer func() {
		if e := recover(); e != nil {
			pan = e
		}
	}()
	return f(), nil
}

func (ng *nilgen) library(mi *msgInfo, v *V, what string) {
	si := ng.si
	p := si.toGo(mi, v).Interface().(proto.Message)
	d := si.toDyn(mi, v)
	key := "nil/" + si.id + "." + string(mi.md.Name()) + "/library"
	ng.libraryOn(key, what+" "+v.String(), p, d)
}

func (ng *nilgen) libraryOn(key, what string, p proto.Message, d proto.Message) {
	o := ng.o
	chk := func(name string, f, ref func() string) {
		got, pan := catchStr(f)
		o.withKey(key).prop("C09", pan == nil, fmt.Sprintf("%s panics on %s: %v", name, what, pan))
		if pan != nil || ref == nil {
			return
		}
		want, rp := catchStr(ref)
		if rp != nil {
			o.count("library_reference_panics_" + name)
			return
		}
		o.withKey(key).prop("C09", got == want, fmt.Sprintf("%s on %s gives %s, the reference (dynamicpb holding the same value) %s", name, what, got, want))
	}
	chk("proto.Size", func() string { return fmt.Sprint(proto.Size(p)) }, func() string { return fmt.Sprint(proto.Size(d)) })
	mar := func(m proto.Message) func() string {
		return func() string {
			b, err := proto.MarshalOptions{Deterministic: true}.Marshal(m)
			return fmt.Sprintf("%s err=%v", hx(b), err != nil)
		}
	}
	chk("proto.Marshal", mar(p), mar(d))
	chk("proto.Equal(x, x)", func() string { return fmt.Sprint(proto.Equal(p, p)) }, func() string { return "true" })
	chk("proto.Equal(x, reference)", func() string { return fmt.Sprint(proto.Equal(p, d)) }, func() string { return fmt.Sprint(proto.Equal(d, d)) })
	chk("proto.Clone", func() string {
		c := proto.Clone(p)
		return fmt.Sprintf("%v %s", proto.Equal(c, p), mar(c)())
	}, func() string {
		c := proto.Clone(d)
		return fmt.Sprintf("%v %s", proto.Equal(c, d), mar(c)())
	})
	chk("proto.Merge(new, x)", func() string {
		dst := p.ProtoReflect().New().Interface()
		proto.Merge(dst, p)
		return mar(dst)()
	}, func() string {
		dst := d.ProtoReflect().New().Interface()
		proto.Merge(dst, d)
		return mar(dst)()
	})
	chk("prototext.Format", func() string { return prototext.MarshalOptions{}.Format(p) }, func() string { return prototext.MarshalOptions{}.Format(d) })
	js := func(m proto.Message) func() string {
		return func() string {
			b, err := protojson.Marshal(m)
			return fmt.Sprintf("%s err=%v", b, err != nil)
		}
	}
	chk("protojson.Marshal", js(p), js(d))
}

// bytes of a map entry holding only the key
func entryKeyOnly(num protoreflect.FieldNumber, kfd protoreflect.FieldDescriptor, k *V) []byte {
	var e []byte
	switch kfd.Kind() {
	case protoreflect.StringKind:
		e = protowire.AppendTag(e, 1, protowire.BytesType)
		e = protowire.AppendBytes(e, k.B)
	case protoreflect.BoolKind:
		e = protowire.AppendTag(e, 1, protowire.VarintType)
		if k.K == 't' {
			e = protowire.AppendVarint(e, 1)
		} else {
			e = protowire.AppendVarint(e, 0)
		}
	case protoreflect.Int32Kind, protoreflect.Int64Kind:
		e = protowire.AppendTag(e, 1, protowire.VarintType)
		e = protowire.AppendVarint(e, uint64(k.I))
	case protoreflect.Uint32Kind, protoreflect.Uint64Kind:
		e = protowire.AppendTag(e, 1, protowire.VarintType)
		e = protowire.AppendVarint(e, k.U)
	case protoreflect.Sint32Kind, protoreflect.Sint64Kind:
		e = protowire.AppendTag(e, 1, protowire.VarintType)
		e = protowire.AppendVarint(e, protowire.EncodeZigZag(k.I))
	case protoreflect.Fixed32Kind:
		e = protowire.AppendTag(e, 1, protowire.Fixed32Type)
		e = protowire.AppendFixed32(e, uint32(k.U))
	case protoreflect.Sfixed32Kind:
		e = protowire.AppendTag(e, 1, protowire.Fixed32Type)
		e = protowire.AppendFixed32(e, uint32(int32(k.I)))
	case protoreflect.Fixed64Kind:
		e = protowire.AppendTag(e, 1, protowire.Fixed64Type)
		e = protowire.AppendFixed64(e, k.U)
	case protoreflect.Sfixed64Kind:
		e = protowire.AppendTag(e, 1, protowire.Fixed64Type)
		e = protowire.AppendFixed64(e, uint64(k.I))
	}
	var b []byte
	b = protowire.AppendTag(b, num, protowire.BytesType)
	return protowire.AppendBytes(b, e)
}

func engineReflectNil(cfg config, o *out) {
	schemas := loadSchemas()
	o.hist["programs"] = len(schemas)
	_ = math.MaxInt32
	for _, si := range schemas {
		o.raw("SCHEMA\t" + si.id + "\t=\t" + si.sexp())
		r := newRng(cfg.seed, "reflectnil/"+si.id)
		g := &rgen{r: r, vg: &vgen{r: r, si: si}}
		ng := &nilgen{g: g, o: o, si: si}
		maxF := 1000
		for _, mi := range si.roots() {
			mi := mi
			// (a) typed nil pointer, (b) the zero value of the message type: the full battery, access chains
			// of length 3
			for _, code := range []string{"nil", "zero"} {
				code := code
				ng.session(mi, "nil_"+code, nil, false, func(c *script) {
					n := c.must(c.op(&rop{code: code, r: mi.idx, a: -1}))
					o.nontrivial("nil/" + si.id + "/" + string(mi.md.Name()) + "/" + code)
					c.readBattery(n, 0, mi, 2, maxF)
					c.writeBattery(n, 0, mi, maxF)
					c.readBattery(n, 0, mi, 0, maxF) // still empty afterwards
				})
			}
			// library calls on the nil pointer itself and on the empty message
			np := reflect.Zero(reflect.PtrTo(mi.goType)).Interface().(proto.Message)
			ng.libraryOn("nil/"+si.id+"."+string(mi.md.Name())+"/library", "the nil pointer (*"+string(mi.md.Name())+")(nil)", np, dynamicpb.NewMessageType(mi.md).Zero().Interface())
			ng.libraryOn("nil/"+si.id+"."+string(mi.md.Name())+"/library", "Type().Zero() of "+string(mi.md.Name()), np.ProtoReflect().Type().Zero().Interface(), dynamicpb.NewMessageType(mi.md).Zero().Interface())
			ng.library(mi, si.emptyV(mi), "the empty message")

			for f, fi := range mi.fields {
				f, fi := f, fi
				fd := fi.fd
				var cm *msgInfo
				vfd := fd
				if fd.IsMap() {
					vfd = fd.MapValue()
				}
				if isMsgKind(vfd) {
					cm = si.byName[vfd.Message().FullName()]
				}
				tag := si.id + "/" + string(mi.md.Name()) + "/" + string(fd.Name())
				switch {
				case fd.IsList():
					// invalid views of a nil and of an empty non-nil slice
					for _, iv := range []*V{nil, {K: 'l'}} {
						var init *V
						cls := "nil_list_view"
						if iv != nil {
							init = si.emptyV(mi)
							init.L[f] = iv
							cls = "empty_list_view"
						}
						ng.session(mi, cls, init, false, func(c *script) {
							o.nontrivial("nil/" + tag + "/" + cls)
							v := c.get(0, f)
							c.noPanic(c.simple("llen", v), "List.Len")
							c.noPanic(c.simple("lvalid", v), "List.IsValid")
							c.noPanic(c.simple("lnew", v), "List.NewElement")
							if cm != nil {
								c.panics(c.simple("lappm", v), "List.AppendMutable")
								ne := c.simple("lnew", v)
								c.panics(c.lappH(v, ne), "List.Append")
							} else {
								c.panics(c.lappL(v, g.nz(fd)), "List.Append")
								c.panics(c.lsetL(v, 0, g.nz(fd)), "List.Set")
							}
							c.panics(c.lidx("ltrunc", v, 0), "List.Truncate")
							c.has(0, f)
							c.rng(0)
						})
					}
					if cm != nil {
						// nil list elements
						for _, elems := range [][]*V{{vNil}, {si.emptyV(cm), vNil}} {
							init := si.emptyV(mi)
							init.L[f] = &V{K: 'l', L: elems}
							ng.library(mi, init, "a message with a nil list element")
							ng.session(mi, "nil_list_element", init, true, func(c *script) {
								o.nontrivial("nil/" + tag + "/nil_list_element")
								l := c.get(0, f)
								c.simple("llen", l)
								n := c.lidx("lget", l, int64(len(elems)-1))
								e := c.newMsg(cm)
								c.readBattery(n, e, cm, 1, maxF)
								c.writeBattery(n, e, cm, 12)
								c.rng(0)
								c.has(0, f)
							})
						}
					}
				case fd.IsMap():
					for _, iv := range []*V{nil, {K: 'p'}} {
						var init *V
						cls := "nil_map_view"
						if iv != nil {
							init = si.emptyV(mi)
							init.L[f] = iv
							cls = "empty_map_view"
						}
						ng.session(mi, cls, init, false, func(c *script) {
							o.nontrivial("nil/" + tag + "/" + cls)
							v := c.get(0, f)
							k := g.nz(fd.MapKey())
							c.noPanic(c.simple("mlen", v), "Map.Len")
							c.noPanic(c.simple("mvalid", v), "Map.IsValid")
							c.noPanic(c.mkey("mhas", v, k), "Map.Has")
							c.noPanic(c.mkey("mget", v, k), "Map.Get")
							c.noPanic(c.simple("mrange", v), "Map.Range")
							c.noPanic(c.simple("mnewv", v), "Map.NewValue")
							c.noPanic(c.mkey("mclear", v, k), "Map.Clear")
							if cm != nil {
								c.panics(c.mkey("mmut", v, k), "Map.Mutable")
								nv := c.simple("mnewv", v)
								c.panics(c.msetH(v, k, nv), "Map.Set")
							} else {
								c.panics(c.msetL(v, k, g.nz(fd.MapValue())), "Map.Set")
							}
							c.has(0, f)
							c.rng(0)
						})
					}
					if cm != nil {
						k := g.nz(fd.MapKey())
						// nil map value
						init := si.emptyV(mi)
						init.L[f] = &V{K: 'p', L: []*V{k, vNil}}
						ng.library(mi, init, "a message with a nil map value")
						ng.session(mi, "nil_map_value", init, true, func(c *script) {
							o.nontrivial("nil/" + tag + "/nil_map_value")
							m := c.get(0, f)
							c.simple("mlen", m)
							c.simple("mrange", m)
							n := c.mkey("mget", m, k)
							e := c.newMsg(cm)
							c.readBattery(n, e, cm, 1, maxF)
							c.writeBattery(n, e, cm, 12)
							c.rng(0)
						})
						// a map entry without value, decoded
						b := entryKeyOnly(fd.Number(), fd.MapKey(), k)
						q := reflect.New(mi.goType).Interface().(proto.Message)
						err, pan := catchUnmarshal(proto.UnmarshalOptions{}, b, q)
						o.withKey("nil/"+tag+"/decoded_entry").prop("C09", pan == nil, fmt.Sprintf("Unmarshal of a map entry without value (%s) into %s panics: %v", hx(b), mi.md.FullName(), pan))
						if err == nil && pan == nil {
							dv := si.fromGo(mi, reflect.ValueOf(q))
							ng.libraryOn("nil/"+tag+"/library", "the message decoded from "+hx(b), q, si.toDyn(mi, dv))
							ng.session(mi, "decoded_map_entry_without_value", dv, true, func(c *script) {
								o.nontrivial("nil/" + tag + "/decoded_entry")
								m := c.get(0, f)
								n := c.mkey("mget", m, k)
								e := c.newMsg(cm)
								c.readBattery(n, e, cm, 0, maxF)
								c.rng(0)
							})
						}
					}
				case cm != nil:
					// Get of an unset message field / unset oneof member
					ng.session(mi, "unset_message_field", nil, false, func(c *script) {
						o.nontrivial("nil/" + tag + "/unset")
						n := c.get(0, f)
						e := c.newMsg(cm)
						c.readBattery(n, e, cm, 2, maxF)
						c.writeBattery(n, e, cm, maxF)
						c.has(0, f)
						c.rng(0)
					})
					if fi.oneofIdx >= 0 {
						// the oneof holds ANOTHER member
						for _, b := range oneofMembers(mi, f) {
							if b == f {
								continue
							}
							b := b
							ng.session(mi, "oneof_other_member", nil, false, func(c *script) {
								o.nontrivial("nil/" + tag + "/other_member")
								bfd := mi.fields[b].fd
								if isMsgKind(bfd) {
									c.mut(0, b)
								} else {
									c.setL(0, b, g.lit(bfd, r.intn(2)))
								}
								n := c.get(0, f)
								e := c.newMsg(cm)
								c.readBattery(n, e, cm, 1, 12)
								c.writeBattery(n, e, cm, 6)
								c.which(0, fi.oneofIdx)
								c.has(0, f)
								c.rng(0)
							})
							break
						}
						// the wrapper of this member holds a nil message
						init := si.emptyV(mi)
						init.L[f] = &V{K: 's', P: vNil}
						ng.library(mi, init, "a message whose oneof wrapper holds a nil message")
						ng.session(mi, "oneof_wrapper_nil", init, true, func(c *script) {
							o.nontrivial("nil/" + tag + "/wrapper_nil")
							c.has(0, f)
							c.which(0, fi.oneofIdx)
							n := c.get(0, f)
							e := c.newMsg(cm)
							c.readBattery(n, e, cm, 1, maxF)
							c.writeBattery(n, e, cm, 12)
							c.rng(0)
						})
					}
				}
			}
		}
	}
	_ = bytes.Equal
}
