package main

// Engine "reflect" (C08) and "reflectnil" (C09): operation histories over the protoreflect API applied,
// step by step, to three implementations holding "the same" message:
//   F  the generated type through its fast reflection (the code under test),
//   D  a dynamicpb.Message on the same descriptor,
//   S  a second struct of the same generated Go type driven through protobuf-go's struct-based
//      reflection (MessageInfo.MessageOf; every nested message it hands out is re-wrapped the same way,
//      because the converters of protobuf-go call the generated ProtoReflect method).
// D and S are two independent references: a step on which they disagree is unspecified behaviour (counted,
// not compared, and the history ends there); where they agree their answer is the oracle for F.
// Every history is also written as a HIST / HISTV case line with F's outputs rendered RAW (nil distinguished
// from empty) for the Coq model (Model/Reflect.v, driver/reflect_eval.ml).

import (
	"reflect"
	"strconv"

	"google.golang.org/protobuf/proto"
	"google.golang.org/protobuf/reflect/protoreflect"
	"google.golang.org/protobuf/reflect/protoregistry"
	"google.golang.org/protobuf/runtime/protoimpl"
	"google.golang.org/protobuf/types/dynamicpb"
)

func init() {
	engines["reflect"] = engineReflect
	engines["reflectnil"] = engineReflectNil
}

// ---- handles (generator-side bookkeeping: kinds, liveness, canonical names) -------------------------
type hkind byte

const (
	hNone hkind = iota
	hMsg
	hList
	hMap
)

type hinfo struct {
	kind  hkind
	mi    *msgInfo // hMsg: the message type; hList/hMap: the type declaring the field
	fidx  int      // hList/hMap: field index in mi
	valid bool     // false: an invalid (nil-backed, read-only) value: an immutable constant, never dies
	live  bool
	fresh bool // an unattached allocation (message / list variable / map variable): usable once as an argument
	root  int  // result index of the allocation this handle lives in
	path  []string
}

func (h *hinfo) fd() protoreflect.FieldDescriptor { return h.mi.fields[h.fidx].fd }

// ---- operations ---------------------------------------------------------------------------------------
type rop struct {
	code string
	r    int   // receiver (result index); message index for "new"
	f    int   // field index / oneof index
	n    int64 // list index / truncate length
	key  *V    // map key
	lit  *V    // scalar literal argument
	a    int   // handle argument (result index), -1: none
	unk  []byte
}

func (op *rop) argTok() string {
	if op.a >= 0 {
		return "r" + strconv.Itoa(op.a)
	}
	return op.lit.String()
}

func (op *rop) tok() string {
	r := "r" + strconv.Itoa(op.r)
	switch op.code {
	case "new", "nil", "zero":
		return op.code + " " + strconv.Itoa(op.r)
	case "has", "get", "clear", "mut", "newf", "which":
		return op.code + " " + r + " " + strconv.Itoa(op.f)
	case "set":
		return "set " + r + " " + strconv.Itoa(op.f) + " " + op.argTok()
	case "setunk":
		return "setunk " + r + " " + hx(op.unk)
	case "lget", "ltrunc", "rstop", "mrstop":
		return op.code + " " + r + " " + strconv.FormatInt(op.n, 10)
	case "lset":
		return "lset " + r + " " + strconv.FormatInt(op.n, 10) + " " + op.argTok()
	case "lapp":
		return "lapp " + r + " " + op.argTok()
	case "mhas", "mget", "mclear", "mmut":
		return op.code + " " + r + " " + op.key.String()
	case "mset":
		return "mset " + r + " " + op.key.String() + " " + op.argTok()
	case "merge":
		return "merge " + r + " " + op.argTok()
	}
	return op.code + " " + r // range getunk valid llen lappm lnew lvalid mlen mnewv mrange mvalid
}

func isWriteOp(code string) bool {
	switch code {
	case "set", "clear", "mut", "setunk", "lset", "lapp", "lappm", "ltrunc", "mset", "mclear", "mmut", "reset", "merge":
		return true
	}
	return false
}

// ---- results ---------------------------------------------------------------------------------------------
type outEnt struct {
	idx int
	key *V
	v   *outv
}
type outv struct {
	k    byte // # length, u unit, t/f bool, ! panic, s scalar, i invalid Value, y bytes, F field, M message, L list, P map, R range, Q map range
	fd   protoreflect.FieldDescriptor
	pv   protoreflect.Value
	m    protoreflect.Message
	l    protoreflect.List
	mp   protoreflect.Map
	unk  []byte
	fidx int
	ents []outEnt
}

type rimpl struct {
	name string
	res  []interface{}
	wrap func(m protoreflect.Message) protoreflect.Message
	mk   func(mi *msgInfo) protoreflect.Message
	null func(mi *msgInfo, viaType bool) protoreflect.Message // typed nil pointer / MessageType.Zero()
	pan  interface{}
}

func msgInfoOf(mi *msgInfo) *protoimpl.MessageInfo {
	mt, err := protoregistry.GlobalTypes.FindMessageByName(mi.md.FullName())
	if err != nil {
		panic(err)
	}
	return mt.(*protoimpl.MessageInfo)
}

func slowOf(m protoreflect.Message) protoreflect.Message {
	mt, err := protoregistry.GlobalTypes.FindMessageByName(m.Descriptor().FullName())
	if err != nil {
		panic(err)
	}
	return mt.(*protoimpl.MessageInfo).MessageOf(m.Interface())
}

func newImplF() *rimpl {
	return &rimpl{name: "F", wrap: func(m protoreflect.Message) protoreflect.Message { return m },
		mk: func(mi *msgInfo) protoreflect.Message {
			return reflect.New(mi.goType).Interface().(proto.Message).ProtoReflect()
		},
		null: func(mi *msgInfo, viaType bool) protoreflect.Message {
			if viaType {
				return reflect.New(mi.goType).Interface().(proto.Message).ProtoReflect().Type().Zero()
			}
			return reflect.Zero(reflect.PtrTo(mi.goType)).Interface().(proto.Message).ProtoReflect()
		}}
}
func newImplD() *rimpl {
	return &rimpl{name: "D", wrap: func(m protoreflect.Message) protoreflect.Message { return m },
		mk:   func(mi *msgInfo) protoreflect.Message { return dynamicpb.NewMessage(mi.md) },
		null: func(mi *msgInfo, viaType bool) protoreflect.Message { return dynamicpb.NewMessageType(mi.md).Zero() }}
}
func newImplS() *rimpl {
	return &rimpl{name: "S", wrap: slowOf,
		mk: func(mi *msgInfo) protoreflect.Message {
			return slowOf(reflect.New(mi.goType).Interface().(proto.Message).ProtoReflect())
		},
		null: func(mi *msgInfo, viaType bool) protoreflect.Message {
			if viaType {
				return msgInfoOf(mi).Zero()
			}
			return msgInfoOf(mi).MessageOf(reflect.Zero(reflect.PtrTo(mi.goType)).Interface())
		}}
}

func litToPR(fd protoreflect.FieldDescriptor, v *V) protoreflect.Value {
	if fd.Kind() == protoreflect.BytesKind && v.K == 'n' {
		return protoreflect.ValueOfBytes(nil)
	}
	return scalarToPR(fd, v)
}

func (x *rimpl) elemOut(fd protoreflect.FieldDescriptor, pv protoreflect.Value) *outv {
	if !pv.IsValid() {
		return &outv{k: 'i'}
	}
	if fd.Kind() == protoreflect.MessageKind || fd.Kind() == protoreflect.GroupKind {
		return &outv{k: 'M', m: x.wrap(pv.Message())}
	}
	return &outv{k: 's', fd: fd, pv: pv}
}
func (x *rimpl) valOut(fd protoreflect.FieldDescriptor, pv protoreflect.Value) *outv {
	if !pv.IsValid() {
		return &outv{k: 'i'}
	}
	switch {
	case fd.IsMap():
		return &outv{k: 'P', fd: fd, mp: pv.Map()}
	case fd.IsList():
		return &outv{k: 'L', fd: fd, l: pv.List()}
	}
	return x.elemOut(fd, pv)
}

var (
	outUnit  = &outv{k: 'u'}
	outPanic = &outv{k: '!'}
)

func outBool(b bool) *outv {
	if b {
		return &outv{k: 't'}
	}
	return &outv{k: 'f'}
}

type rsession struct {
	o       *out
	si      *schemaInfo
	mi      *msgInfo
	F, D, S *rimpl
	impls   []*rimpl
	hs      []hinfo
	ops     []string
	codes   []string
	raw     []string
	rootF   reflect.Value // *T
	rootS   reflect.Value
	rootD   protoreflect.Message
	initV   *V // HISTV: the initial value of the root
	stopped bool
	class   string
	lastOut *outv // D's result of the last step
	ref     []string // per step: the common answer of D and S (normalised), "?" where they disagree (then it ends)
	refQ    int
	refDone bool
	propID  string // the property a difference between F and the references is reported under
	noStop  bool   // nil mode: a step the references disagree on does not end the history
	softRef bool   // nil elements: only S can hold the same value; differences are counted, not reported
	viewDiv []bool // per handle: the two references have disagreed on what is read through it: unspecified from then on
	swept   bool   // the handles were re-read after the last step
	noModel bool   // aliasing histories: implementation-side comparison only, no case line for the model
}

func fieldIndexOf(mi *msgInfo, fd protoreflect.FieldDescriptor) int {
	for i, fi := range mi.fields {
		if fi.fd.Number() == fd.Number() {
			return i
		}
	}
	return -1
}

// argument value for implementation x
func (s *rsession) argOf(x *rimpl, op *rop, fd protoreflect.FieldDescriptor) protoreflect.Value {
	if op.a < 0 {
		return litToPR(fd, op.lit)
	}
	switch h := x.res[op.a].(type) {
	case protoreflect.Message:
		return protoreflect.ValueOfMessage(h)
	case protoreflect.List:
		return protoreflect.ValueOfList(h)
	case protoreflect.Map:
		return protoreflect.ValueOfMap(h)
	}
	panic("harness: argument is not a handle")
}

// apply runs one operation on one implementation; a Go panic is an outcome.
func (s *rsession) apply(x *rimpl, op *rop) (h interface{}, out *outv) {
	defer func() {
		if e := recover(); e != nil {
			x.pan = e
			h, out = nil, outPanic
		}
	}()
	x.pan = nil
	if op.code == "new" {
		m := x.mk(s.si.msgs[op.r])
		return m, &outv{k: 'M', m: m}
	}
	if op.code == "nil" || op.code == "zero" {
		m := x.null(s.si.msgs[op.r], op.code == "zero")
		return m, &outv{k: 'M', m: m}
	}
	hi := &s.hs[op.r]
	switch hi.kind {
	case hMsg:
		m := x.res[op.r].(protoreflect.Message)
		switch op.code {
		case "rstop":
			// Range must return as soon as the callback returns false: count the callbacks made
			// (the callback returns false at its op.n-th call: exactly min(op.n, populated fields) callbacks must be made)
			n := 0
			m.Range(func(fd protoreflect.FieldDescriptor, v protoreflect.Value) bool {
				n++
				return int64(n) < op.n
			})
			return nil, &outv{k: '#', fidx: n}
		case "range":
			o := &outv{k: 'R'}
			m.Range(func(fd protoreflect.FieldDescriptor, v protoreflect.Value) bool {
				o.ents = append(o.ents, outEnt{idx: fieldIndexOf(hi.mi, fd), v: x.valOut(fd, v)})
				return true
			})
			return nil, o
		case "getunk":
			return nil, &outv{k: 'y', unk: append([]byte{}, m.GetUnknown()...)}
		case "setunk":
			var b []byte
			if op.unk != nil {
				b = append([]byte{}, op.unk...)
			}
			m.SetUnknown(b)
			return nil, outUnit
		case "valid":
			return nil, outBool(m.IsValid())
		case "reset", "merge":
			return nil, s.applyLib(x, op)
		case "which":
			od := realOneofs(hi.mi.md)[op.f]
			fd := m.WhichOneof(od)
			if fd == nil {
				return nil, &outv{k: 'F', fidx: -1}
			}
			return nil, &outv{k: 'F', fidx: fieldIndexOf(hi.mi, fd)}
		}
		fd := hi.mi.fields[op.f].fd
		switch op.code {
		case "has":
			return nil, outBool(m.Has(fd))
		case "get":
			o := x.valOut(fd, m.Get(fd))
			return o.handle(), o
		case "set":
			m.Set(fd, s.argOf(x, op, fd))
			return nil, outUnit
		case "clear":
			m.Clear(fd)
			return nil, outUnit
		case "mut":
			o := x.valOut(fd, m.Mutable(fd))
			return o.handle(), o
		case "newf":
			o := x.valOut(fd, m.NewField(fd))
			return o.handle(), o
		}
	case hList:
		l := x.res[op.r].(protoreflect.List)
		fd := hi.fd()
		switch op.code {
		case "llen":
			return nil, &outv{k: '#', fidx: l.Len()}
		case "lget":
			o := x.elemOut(fd, l.Get(int(op.n)))
			return o.handle(), o
		case "lset":
			l.Set(int(op.n), s.argOf(x, op, fd))
			return nil, outUnit
		case "lapp":
			l.Append(s.argOf(x, op, fd))
			return nil, outUnit
		case "lappm":
			o := x.elemOut(fd, l.AppendMutable())
			return o.handle(), o
		case "ltrunc":
			l.Truncate(int(op.n))
			return nil, outUnit
		case "lnew":
			o := x.elemOut(fd, l.NewElement())
			return o.handle(), o
		case "lvalid":
			return nil, outBool(l.IsValid())
		}
	case hMap:
		mp := x.res[op.r].(protoreflect.Map)
		fd := hi.fd()
		var k protoreflect.MapKey
		if op.key != nil {
			k = litToPR(fd.MapKey(), op.key).MapKey()
		}
		switch op.code {
		case "mlen":
			return nil, &outv{k: '#', fidx: mp.Len()}
		case "mhas":
			return nil, outBool(mp.Has(k))
		case "mget":
			o := x.elemOut(fd.MapValue(), mp.Get(k))
			return o.handle(), o
		case "mset":
			mp.Set(k, s.argOf(x, op, fd.MapValue()))
			return nil, outUnit
		case "mclear":
			mp.Clear(k)
			return nil, outUnit
		case "mmut":
			o := x.elemOut(fd.MapValue(), mp.Mutable(k))
			return o.handle(), o
		case "mnewv":
			o := x.elemOut(fd.MapValue(), mp.NewValue())
			return o.handle(), o
		case "mrstop":
			n := 0
			mp.Range(func(k protoreflect.MapKey, v protoreflect.Value) bool {
				n++
				return int64(n) < op.n
			})
			return nil, &outv{k: '#', fidx: n}
		case "mrange":
			o := &outv{k: 'Q', fd: fd}
			mp.Range(func(k protoreflect.MapKey, v protoreflect.Value) bool {
				o.ents = append(o.ents, outEnt{key: scalarFromPR(fd.MapKey(), k.Value()), v: x.elemOut(fd.MapValue(), v)})
				return true
			})
			return nil, o
		case "mvalid":
			return nil, outBool(mp.IsValid())
		}
	}
	panic("harness: operation " + op.tok() + " does not fit its receiver")
}

func (o *outv) handle() interface{} {
	switch o.k {
	case 'M':
		return o.m
	case 'L':
		return o.l
	case 'P':
		return o.mp
	}
	return nil
}

func realOneofs(md protoreflect.MessageDescriptor) []protoreflect.OneofDescriptor {
	var out []protoreflect.OneofDescriptor
	for i := 0; i < md.Oneofs().Len(); i++ {
		if od := md.Oneofs().Get(i); !od.IsSynthetic() {
			out = append(out, od)
		}
	}
	return out
}
