// Engine "enumprog" (translator tie, Model/EnumProg.v): for every enum type of every generated package linked into the runner the
// Go source of what genEnum prints (type declaration, const block, E_name / E_value maps, Enum, String, Descriptor, Type, Number,
// EnumDescriptor) is parsed with go/parser, translated form by form and compared with canon_enum (descriptor + Go names computed by
// protogen's rule); per message the index of `mi := &file_X_msgTypes[N]` in slowProtoReflect and Reset, per file the lengths of the
// enumTypes / msgTypes tables.
//
//	@ENUMFILE  set file spec          = ok
//	ENUMPROG   set file var info full = (enum T (consts (c NAME NUM)…) (names (n NUM NAME)…) (values (v NAME NUM)…) (methods M…))
//	ENUMMSG    set file var full      = (msg VAR slow reset)
//	ENUMTABLES set file               = E M
//
// spec is depSpec's rendering of the declaration tree (geneng.go), info = (info FULL GO (val NAME GO NUM)…).
package main

import (
	"fmt"
	"go/ast"
	"go/parser"
	"go/scanner"
	"go/token"
	"os"
	"path/filepath"
	"reflect"
	"regexp"
	"sort"
	"strconv"
	"strings"

	"google.golang.org/protobuf/reflect/protoreflect"
	"google.golang.org/protobuf/reflect/protoregistry"
	"google.golang.org/protobuf/types/descriptorpb"
)

func init() { engines["enumprog"] = engineEnumProg }

type epPkg struct {
	fset   *token.FileSet
	src    map[*ast.File][]byte
	types  map[string][]*ast.TypeSpec
	consts []*ast.GenDecl
	vars   map[string][]*ast.ValueSpec
	meths  map[string]map[string][]*ast.FuncDecl
	fileOf map[ast.Node]*ast.File
	err    error
}

var epPkgs = map[string]*epPkg{}

func epLoad(dir string) *epPkg {
	if p, ok := epPkgs[dir]; ok {
		return p
	}
	p := &epPkg{fset: token.NewFileSet(), src: map[*ast.File][]byte{}, types: map[string][]*ast.TypeSpec{}, vars: map[string][]*ast.ValueSpec{},
		meths: map[string]map[string][]*ast.FuncDecl{}, fileOf: map[ast.Node]*ast.File{}}
	epPkgs[dir] = p
	all, _ := filepath.Glob(filepath.Join(dir, "*.go"))
	sort.Strings(all)
	for _, path := range all {
		if strings.HasSuffix(path, "_test.go") {
			continue
		}
		src, err := os.ReadFile(path)
		if err != nil {
			p.err = err
			return p
		}
		af, err := parser.ParseFile(p.fset, path, src, 0)
		if err != nil {
			p.err = err
			return p
		}
		p.src[af] = src
		for _, d := range af.Decls {
			switch d := d.(type) {
			case *ast.GenDecl:
				if d.Tok == token.CONST {
					p.consts = append(p.consts, d)
					p.fileOf[d] = af
				}
				for _, s := range d.Specs {
					switch s := s.(type) {
					case *ast.TypeSpec:
						p.types[s.Name.Name] = append(p.types[s.Name.Name], s)
					case *ast.ValueSpec:
						if d.Tok == token.VAR {
							for _, n := range s.Names {
								p.vars[n.Name] = append(p.vars[n.Name], s)
							}
						}
					}
				}
			case *ast.FuncDecl:
				if d.Recv == nil || len(d.Recv.List) != 1 {
					continue
				}
				var rt ast.Expr = d.Recv.List[0].Type
				if st, ok := rt.(*ast.StarExpr); ok {
					rt = st.X
				}
				id, ok := rt.(*ast.Ident)
				if !ok {
					continue
				}
				if p.meths[id.Name] == nil {
					p.meths[id.Name] = map[string][]*ast.FuncDecl{}
				}
				p.meths[id.Name][d.Name.Name] = append(p.meths[id.Name][d.Name.Name], d)
				p.fileOf[d] = af
			}
		}
	}
	return p
}

// the tokens of a declaration, separated by single blanks (automatic semicolons included as ";")
func (p *epPkg) toks(n ast.Node) string {
	af := p.fileOf[n]
	if af == nil {
		return ""
	}
	src := p.src[af]
	tf := p.fset.File(n.Pos())
	text := src[tf.Offset(n.Pos()):tf.Offset(n.End())]
	var s scanner.Scanner
	fs := token.NewFileSet()
	s.Init(fs.AddFile("", fs.Base(), len(text)), text, nil, 0)
	var out []string
	for {
		_, tok, lit := s.Scan()
		if tok == token.EOF {
			break
		}
		switch {
		case tok == token.SEMICOLON:
			out = append(out, ";")
		case lit != "":
			out = append(out, lit)
		default:
			out = append(out, tok.String())
		}
	}
	for len(out) > 0 && out[len(out)-1] == ";" {
		out = out[:len(out)-1]
	}
	return strings.Join(out, " ")
}

type epFail struct{ why string }

func epBad(f string, a ...interface{}) { panic(epFail{fmt.Sprintf(f, a...)}) }

func epInt(e ast.Expr) string {
	neg := false
	if u, ok := e.(*ast.UnaryExpr); ok && u.Op == token.SUB {
		neg = true
		e = u.X
	}
	b, ok := e.(*ast.BasicLit)
	if !ok || b.Kind != token.INT {
		epBad("integer literal expected")
	}
	v, err := strconv.ParseInt(b.Value, 10, 64)
	if err != nil || b.Value != strconv.FormatInt(v, 10) {
		epBad("decimal literal expected: %s", b.Value)
	}
	if neg {
		v = -v
	}
	return strconv.FormatInt(v, 10)
}

func epStr(e ast.Expr) string {
	b, ok := e.(*ast.BasicLit)
	if !ok || b.Kind != token.STRING {
		epBad("string literal expected")
	}
	s, err := strconv.Unquote(b.Value)
	if err != nil || !epTokOK(s) {
		epBad("plain name expected: %s", b.Value)
	}
	return s
}

func epTokOK(s string) bool {
	if s == "" {
		return false
	}
	for _, c := range s {
		if !(c == '_' || c >= '0' && c <= '9' || c >= 'a' && c <= 'z' || c >= 'A' && c <= 'Z') {
			return false
		}
	}
	return true
}

func epIsIdent(e ast.Expr, name string) bool {
	id, ok := e.(*ast.Ident)
	return ok && id.Name == name
}

// map[K]V{ k: v, … } of the single var NAME
func (p *epPkg) mapLit(name, k, v string) []ast.Expr {
	specs := p.vars[name]
	if len(specs) != 1 {
		epBad("%d declarations of var %s", len(specs), name)
	}
	s := specs[0]
	if len(s.Names) != 1 || len(s.Values) != 1 || s.Type != nil {
		epBad("var %s: not `name = value`", name)
	}
	cl, ok := s.Values[0].(*ast.CompositeLit)
	if !ok {
		epBad("var %s: composite literal expected", name)
	}
	mt, ok := cl.Type.(*ast.MapType)
	if !ok || !epIsIdent(mt.Key, k) || !epIsIdent(mt.Value, v) {
		epBad("var %s: map[%s]%s expected", name, k, v)
	}
	return cl.Elts
}

var epIdent = `[A-Za-z_][A-Za-z0-9_]*`

func epMatch(pattern, text, what string) []string {
	m := regexp.MustCompile("^" + pattern + "$").FindStringSubmatch(text)
	if m == nil {
		epBad("%s: not the printed form: %s", what, text)
	}
	return m
}

func epPath(s string) string {
	var out []string
	for _, x := range strings.Split(s, ",") {
		x = strings.TrimSpace(x)
		if _, err := strconv.ParseUint(x, 10, 31); err != nil {
			epBad("EnumDescriptor: index expected: %q", x)
		}
		out = append(out, x)
	}
	return strings.Join(out, " ")
}

// translateEnum: the declarations of Go type T as the text of an eprog
func (p *epPkg) translateEnum(T string) string {
	ts := p.types[T]
	if len(ts) != 1 {
		epBad("%d declarations of type %s", len(ts), T)
	}
	if !epIsIdent(ts[0].Type, "int32") || ts[0].Assign.IsValid() {
		epBad("type %s: not `type %s int32`", T, T)
	}
	var sb strings.Builder
	sb.WriteString("(enum " + T + " (consts")
	// the const block: the one block whose constants are typed T
	var block *ast.GenDecl
	for _, d := range p.consts {
		for _, s := range d.Specs {
			if vs := s.(*ast.ValueSpec); vs.Type != nil && epIsIdent(vs.Type, T) {
				if block != nil && block != d {
					epBad("constants of type %s in two blocks", T)
				}
				block = d
			}
		}
	}
	if block != nil {
		if !block.Lparen.IsValid() {
			epBad("constants of %s: not a const ( … ) block", T)
		}
		for _, s := range block.Specs {
			vs := s.(*ast.ValueSpec)
			if vs.Type == nil || !epIsIdent(vs.Type, T) || len(vs.Names) != 1 || len(vs.Values) != 1 {
				epBad("const block of %s: not `NAME %s = number`", T, T)
			}
			sb.WriteString(" (c " + vs.Names[0].Name + " " + epInt(vs.Values[0]) + ")")
		}
	}
	sb.WriteString(") (names")
	for _, e := range p.mapLit(T+"_name", "int32", "string") {
		kv, ok := e.(*ast.KeyValueExpr)
		if !ok {
			epBad("%s_name: key: value expected", T)
		}
		sb.WriteString(" (n " + epInt(kv.Key) + " " + epStr(kv.Value) + ")")
	}
	sb.WriteString(") (values")
	for _, e := range p.mapLit(T+"_value", "string", "int32") {
		kv, ok := e.(*ast.KeyValueExpr)
		if !ok {
			epBad("%s_value: key: value expected", T)
		}
		sb.WriteString(" (v " + epStr(kv.Key) + " " + epInt(kv.Value) + ")")
	}
	sb.WriteString(") (methods")
	ms := p.meths[T]
	var names []string
	for n := range ms {
		names = append(names, n)
	}
	sort.Strings(names)
	if strings.Join(names, " ") != "Descriptor Enum EnumDescriptor Number String Type" {
		epBad("methods of %s: %s", T, strings.Join(names, " "))
	}
	one := func(n string) string {
		if len(ms[n]) != 1 {
			epBad("%d declarations of (%s).%s", len(ms[n]), T, n)
		}
		return p.toks(ms[n][0])
	}
	q := regexp.QuoteMeta
	epMatch(q("func ( x "+T+" ) Enum ( ) * "+T+" { p := new ( "+T+" ) ; * p = x ; return p ; }"), one("Enum"), "Enum")
	sb.WriteString(" (Enum " + T + ")")
	epMatch(q("func ( x "+T+" ) String ( ) string { return protoimpl . X . EnumStringOf ( x . Descriptor ( ) , protoreflect . EnumNumber ( x ) ) ; }"), one("String"), "String")
	sb.WriteString(" (String " + T + ")")
	m := epMatch(q("func ( "+T+" ) Descriptor ( ) protoreflect . EnumDescriptor { return ")+"("+epIdent+")_enumTypes"+q(" [ ")+`(\d+)`+q(" ] . Descriptor ( ) ; }"), one("Descriptor"), "Descriptor")
	sb.WriteString(" (Descriptor " + T + " " + m[1] + " " + epDec(m[2]) + ")")
	m = epMatch(q("func ( "+T+" ) Type ( ) protoreflect . EnumType { return & ")+"("+epIdent+")_enumTypes"+q(" [ ")+`(\d+)`+q(" ] ; }"), one("Type"), "Type")
	sb.WriteString(" (Type " + T + " " + m[1] + " " + epDec(m[2]) + ")")
	epMatch(q("func ( x "+T+" ) Number ( ) protoreflect . EnumNumber { return protoreflect . EnumNumber ( x ) ; }"), one("Number"), "Number")
	sb.WriteString(" (Number " + T + ")")
	m = epMatch(q("func ( "+T+" ) EnumDescriptor ( ) ( [ ] byte , [ ] int ) { return ")+"("+epIdent+")_rawDescGZIP"+q(" ( ) , [ ] int { ")+`([0-9 ,]+)`+q(" } ; }"), one("EnumDescriptor"), "EnumDescriptor")
	sb.WriteString(" (EnumDescriptor " + T + " " + m[1] + " " + epPath(m[2]) + ")")
	sb.WriteString("))")
	return sb.String()
}

func epDec(s string) string {
	v, err := strconv.ParseUint(s, 10, 31)
	if err != nil || strconv.FormatUint(v, 10) != s {
		epBad("decimal index expected: %s", s)
	}
	return s
}

var reEpMi = regexp.MustCompile(`mi := & (` + epIdent + `)_msgTypes \[ (\d+) \]`)

// translateMsg: variable and index of `mi := &VAR_msgTypes[N]` in slowProtoReflect and Reset of Go type T
func (p *epPkg) translateMsg(T string) string {
	idx := func(n string) (string, string) {
		ds := p.meths[T][n]
		if len(ds) != 1 {
			epBad("%d declarations of (*%s).%s", len(ds), T, n)
		}
		all := reEpMi.FindAllStringSubmatch(p.toks(ds[0]), -1)
		if len(all) != 1 {
			epBad("(*%s).%s: %d statements `mi := &…_msgTypes[N]`", T, n, len(all))
		}
		return all[0][1], epDec(all[0][2])
	}
	v1, s := idx("slowProtoReflect")
	v2, r := idx("Reset")
	if v1 != v2 {
		epBad("%s: two type tables: %s, %s", T, v1, v2)
	}
	return "(msg " + v1 + " " + s + " " + r + ")"
}

var reEpTable = regexp.MustCompile(`(?m)^var (file_\S+)_(enumTypes|msgTypes) = make\(\[\]protoimpl\.(EnumInfo|MessageInfo), (\d+)\)$`)

func (p *epPkg) tables(prefix string) string {
	e, m := "0", "0"
	for _, src := range p.src {
		for _, x := range reEpTable.FindAllStringSubmatch(string(src), -1) {
			if x[1] != prefix {
				continue
			}
			switch {
			case x[2] == "enumTypes" && x[3] == "EnumInfo":
				e = x[4]
			case x[2] == "msgTypes" && x[3] == "MessageInfo":
				m = x[4]
			}
		}
	}
	return e + " " + m
}

func epCatch(f func() string) (res string, ok bool) {
	defer func() {
		if r := recover(); r != nil {
			if e, is := r.(epFail); is {
				res, ok = "untranslatable:"+strings.ReplaceAll(e.why, "\t", " "), false
				return
			}
			panic(r)
		}
	}()
	return f(), true
}

// the declaration tree in depSpec's format, from the registered descriptor (extensions, fields and services do not matter here)
func epSpec(fd protoreflect.FileDescriptor) string {
	var sb strings.Builder
	enums := func(es protoreflect.EnumDescriptors) {
		sb.WriteString("(E")
		for i := 0; i < es.Len(); i++ {
			sb.WriteString(" " + string(es.Get(i).FullName()))
		}
		sb.WriteString(")")
	}
	var msgs func(ms protoreflect.MessageDescriptors)
	msgs = func(ms protoreflect.MessageDescriptors) {
		for i := 0; i < ms.Len(); i++ {
			m := ms.Get(i)
			sb.WriteString("(M " + string(m.FullName()) + " ")
			enums(m.Enums())
			sb.WriteString("(X)(R)(N")
			msgs(m.Messages())
			sb.WriteString("))")
		}
	}
	sb.WriteString("(F ")
	enums(fd.Enums())
	sb.WriteString("(X)(MS")
	msgs(fd.Messages())
	sb.WriteString(")(SV))")
	return sb.String()
}

func epInfo(ed protoreflect.EnumDescriptor) string {
	var sb strings.Builder
	// protogen: the constants of an enum nested in a message are prefixed with the message's Go name
	prefix := expectGoName(ed)
	if md, ok := ed.Parent().(protoreflect.MessageDescriptor); ok {
		prefix = expectGoName(md)
	}
	sb.WriteString("(info " + string(ed.FullName()) + " " + expectGoName(ed))
	for i := 0; i < ed.Values().Len(); i++ {
		v := ed.Values().Get(i)
		fmt.Fprintf(&sb, " (val %s %s %d)", v.Name(), prefix+"_"+string(v.Name()), v.Number())
	}
	sb.WriteString(")")
	return sb.String()
}

func epDirOf(fd protoreflect.FileDescriptor) string {
	var walk func(ms protoreflect.MessageDescriptors) string
	walk = func(ms protoreflect.MessageDescriptors) string {
		for i := 0; i < ms.Len(); i++ {
			if ms.Get(i).IsMapEntry() {
				continue
			}
			if mt, err := protoregistry.GlobalTypes.FindMessageByName(ms.Get(i).FullName()); err == nil {
				if t := reflect.TypeOf(mt.Zero().Interface()); t != nil && t.Kind() == reflect.Ptr {
					return t.Elem().PkgPath()
				}
			}
		}
		return ""
	}
	pp := walk(fd.Messages())
	if pp == "" {
		if opts, ok := fd.Options().(*descriptorpb.FileOptions); ok && opts != nil {
			pp = strings.SplitN(opts.GetGoPackage(), ";", 2)[0]
		}
	}
	return spDir(pp)
}

func engineEnumProg(cfg config, o *out) {
	for _, set := range append([]string{"testpb", "test3"}, linkedSets...) {
		if modelFreeSets[set] {
			continue
		}
		files := setFiles[set]
		if files == nil {
			files = linkedFiles[set]
		}
		for _, path := range files {
			fd, err := protoregistry.GlobalFiles.FindFileByPath(path)
			if err != nil {
				panic(err)
			}
			if fd.Syntax() != protoreflect.Proto3 {
				continue
			}
			spec := epSpec(fd)
			prefix := "file_" + apGoSanitized(fd.Path())
			arg := func(more ...string) []string { return append([]string{set, path}, more...) }
			o.kase("@ENUMFILE", arg(spec), "ok")
			dir := epDirOf(fd)
			if dir == "" {
				o.kase("ENUMTABLES", arg(), "untranslatable:no source directory known")
				o.count("untranslatable")
				continue
			}
			p := epLoad(dir)
			if p.err != nil {
				o.kase("ENUMTABLES", arg(), "untranslatable:"+p.err.Error())
				o.count("untranslatable")
				continue
			}
			o.count("file")
			o.kase("ENUMTABLES", arg(), p.tables(prefix))
			var enums func(es protoreflect.EnumDescriptors, depth int)
			enums = func(es protoreflect.EnumDescriptors, depth int) {
				for i := 0; i < es.Len(); i++ {
					ed := es.Get(i)
					s, ok := epCatch(func() string { return p.translateEnum(expectGoName(ed)) })
					o.kase("ENUMPROG", arg(prefix, epInfo(ed), string(ed.FullName())), s)
					if ok {
						o.count("translated_enum")
						o.count(fmt.Sprintf("enum/depth=%d", depth))
						o.nontrivial("enumprog/" + s)
					} else {
						o.count("untranslatable")
					}
					aliases := map[protoreflect.EnumNumber]bool{}
					for j := 0; j < ed.Values().Len(); j++ {
						n := ed.Values().Get(j).Number()
						if aliases[n] {
							o.count("enum/with-alias")
							break
						}
						aliases[n] = true
					}
				}
			}
			var msgs func(ms protoreflect.MessageDescriptors, depth int)
			msgs = func(ms protoreflect.MessageDescriptors, depth int) {
				for i := 0; i < ms.Len(); i++ {
					md := ms.Get(i)
					if !md.IsMapEntry() {
						s, ok := epCatch(func() string { return p.translateMsg(expectGoName(md)) })
						o.kase("ENUMMSG", arg(prefix, string(md.FullName())), s)
						if ok {
							o.count("translated_msgidx")
							o.nontrivial("enumprog/msg/" + s)
						} else {
							o.count("untranslatable")
						}
					}
					enums(md.Enums(), depth+1)
					msgs(md.Messages(), depth+1)
				}
			}
			enums(fd.Enums(), 0)
			msgs(fd.Messages(), 0)
		}
	}
}
