package main

// C12, per-file invocation mode. C12 quantifies over plugin requests, not only over schemas: protoc and buf are commonly run once
// per .proto file (file_to_generate = [that file], every file of the import closure in proto_file), and the Go package is then
// ASSEMBLED from the answers of several plugin processes. Whatever one file's output relies on being emitted "by the same
// invocation" (init ordering between files of one Go package, shared helpers, forwarding declarations) only shows in that shape.
//
// For every multi-file set that the all-files request handled well: one request per requested proto3 file; every answer is one
// well-formed file (parse, gofmt); the package assembled from the answers compiles, links, initialises, and passes the same smoke
// program as the all-files package (registered descriptors = request; dependencies of every field resolved to the registered
// declaration, no placeholders; round trips against dynamicpb; clone; getters). The assembled packages live in a module and a
// program of their own (same import paths and proto names as the all-files packages: they cannot be linked together).
//
// Sets whose files share a Go package are the interesting ones (counted perfile/same-go-package); both name orders occur: the
// importing file's name sorting before (adv_same_package*, checked-in copy of test3, random sets with reversed paths) and after
// (random sets as generated) the imported file's, since Go initialises the files of a package in file-name order.
// Byte-identity of a per-file answer with the all-files answer is C13's predicate (subset independence), not C12's: only counted.

import (
	"fmt"
	"go/format"
	"go/parser"
	"go/token"
	"path/filepath"
	"strings"

	"github.com/cosmos/cosmos-proto/verifh/corpus"
	"google.golang.org/protobuf/types/descriptorpb"
)

// goImportPathOf: the go_package import path of a file ("" if it has none: given by an M mapping of the request)
func goImportPathOf(f *descriptorpb.FileDescriptorProto) string {
	return strings.Split(f.GetOptions().GetGoPackage(), ";")[0]
}

// perFileReq derives the request family of the per-file mode from an all-files request:
//   - sets generated into the runner's own module (corpus class, import paths under corpus.GenBase) are relocated into the scratch
//     module with M mappings (a configuration of the property's quantifier), package by package;
//   - random sets get their file paths reversed on a coin flip, so that importers sort before their imports as often as after.
func (g *genCtx) perFileReq(r *genReq) *genReq {
	pr := &genReq{name: r.name + "/perfile", class: r.class, files: r.files, generate: r.generate, param: r.param, expect: r.expect}
	if r.class == "random" && newRng(g.cfg.seed, "c12/perfile/"+r.name).bool() {
		rs := corpus.ReversePaths(corpus.Set{Name: r.name, Files: r.files, Generate: r.generate, Param: r.param})
		pr.files, pr.generate = rs.Files, rs.Generate
		pr.name = r.name + "/perfile-reversed-paths"
	}
	for _, f := range pr.files {
		if ip := goImportPathOf(f); strings.HasPrefix(ip, corpus.GenBase) {
			pr.param += ",M" + f.GetName() + "=" + corpus.GenCheckBase + "pf_" + strings.TrimPrefix(ip, corpus.GenBase)
		}
	}
	return pr
}

// sameGoPackage: do at least two requested files share a Go import path, one importing the other (directly)?
func sameGoPackageImport(r *genReq) (shares bool, importerFirst bool) {
	byName := map[string]*descriptorpb.FileDescriptorProto{}
	for _, f := range r.files {
		byName[f.GetName()] = f
	}
	req := map[string]bool{}
	for _, n := range requestedProto3(r) {
		req[n] = true
	}
	for n := range req {
		f := byName[n]
		for _, d := range f.GetDependency() {
			df := byName[d]
			if df == nil || !req[d] || goImportPathOf(df) != goImportPathOf(f) || goImportPathOf(f) == "" {
				continue
			}
			shares = true
			if filepath.Base(n) < filepath.Base(d) {
				importerFirst = true
			}
		}
	}
	return
}

func (g *genCtx) perFile(states []*c12State) {
	o := g.o
	var cands []*c12State
	for _, st := range states {
		r := st.req
		if !st.genOK || st.failed || st.skipped != "" || r.expect != corpus.ExpFiles || r.proto3Requested(r.generate) < 2 {
			continue // what the all-files request does not serve is reported there (known findings keep their keys)
		}
		cands = append(cands, st)
	}
	if len(cands) == 0 {
		return
	}
	type one struct {
		st   *c12State // the all-files state
		pst  *c12State // the assembled per-file state
		file string
		res  *runRes
	}
	var jobs []*one
	psts := make([]*c12State, len(cands))
	for i, st := range cands {
		pr := g.perFileReq(st.req)
		psts[i] = &c12State{req: pr, files: map[string]string{}, genOK: true}
		for _, f := range requestedProto3(pr) {
			jobs = append(jobs, &one{st: st, pst: psts[i], file: f})
		}
		shares, first := sameGoPackageImport(pr)
		o.count("perfile/sets")
		if shares {
			o.count("perfile/same-go-package")
			if first {
				o.count("perfile/same-go-package/importer-sorts-first")
			}
		}
	}
	parallel(len(jobs), 8, func(k int) {
		j := jobs[k]
		j.res = runPlugin(g.plugin, j.pst.req.request(j.pst.req.param, []string{j.file}), nil, "")
	})
	allFiles := map[*c12State]map[string]string{} // all-files content by base name of the emitted file
	for _, st := range cands {
		m := map[string]string{}
		for _, f := range st.res.resp.File {
			m[filepath.Base(f.GetName())] = f.GetContent()
		}
		allFiles[st] = m
	}
	for _, j := range jobs {
		pst, pr := j.pst, j.pst.req
		o.count("perfile/requests")
		bad := func(what string) {
			pst.failed, pst.genOK = true, false
			g.fail("C12", pr, fmt.Sprintf("file_to_generate = [%s] alone (all %d files in proto_file): %s; the request for %v is served", j.file, len(pr.files), what, pr.generate))
		}
		if crashed, why := j.res.crashed(); crashed {
			bad("plugin crashed (" + why + ")")
			continue
		}
		if j.res.resp.Error != nil {
			bad("answered with an error: " + firstLines(j.res.resp.GetError(), 3))
			continue
		}
		if len(j.res.resp.File) != 1 {
			bad(fmt.Sprintf("%d files emitted for one requested proto3 file", len(j.res.resp.File)))
			continue
		}
		f := j.res.resp.File[0]
		name, content := f.GetName(), f.GetContent()
		if f.InsertionPoint != nil || !strings.HasSuffix(name, ".pulsar.go") || !strings.HasPrefix(name, corpus.GenCheckBase) || strings.Contains(name, "..") {
			bad("unexpected output file " + name)
			continue
		}
		if _, err := parser.ParseFile(token.NewFileSet(), name, content, parser.ParseComments); err != nil {
			bad("emitted file does not parse: " + firstLines(err.Error(), 2))
			continue
		}
		if fm, err := format.Source([]byte(content)); err != nil || string(fm) != content {
			bad("emitted file " + name + " is not gofmt-stable")
			continue
		}
		g.pass("C12")
		rel := strings.TrimPrefix(name, corpus.GenCheckBase)
		if _, dup := pst.files[rel]; dup {
			bad("two files of the set are emitted as " + rel)
			continue
		}
		pst.files[rel] = content
		// C13's predicate, for the histogram only (relocated / renamed sets have nothing to compare with)
		if all, ok := allFiles[j.st][filepath.Base(name)]; ok && pr.files[0] == j.st.req.files[0] && pr.param == j.st.req.param {
			if all == content {
				o.count("perfile/same-bytes-as-all-files-request")
			} else {
				o.count("perfile/differs-from-all-files-request")
			}
		}
	}
	var live []*c12State
	for _, pst := range psts {
		if pst.genOK && len(pst.files) > 0 {
			live = append(live, pst)
		}
	}
	g.compileAndSmokeIn(live, "pf")
	for _, pst := range live {
		if pst.failed {
			o.count("perfile/failed")
		} else if pst.skipped != "" {
			o.count("perfile/" + pst.skipped)
		} else {
			o.count("perfile/ok")
			o.nontrivial("perfile/" + pst.req.name)
		}
	}
}
