package main

import (
	"fmt"
	"math"
	"math/bits"

	"github.com/cosmos/cosmos-proto/runtime"
	"google.golang.org/protobuf/encoding/protowire"
)

func init() { engines["rt"] = engineRT }

func catchInt(f func() int) (n int, panicked bool) {
	defer func() {
		if r := recover(); r != nil {
			panicked = true
		}
	}()
	return f(), false
}

func boundary64() []uint64 {
	var v []uint64
	for k := 0; k < 64; k++ {
		p := uint64(1) << uint(k)
		v = append(v, p-1, p, p+1)
	}
	v = append(v, math.MaxUint64, math.MaxUint64-1, math.MaxUint32, math.MaxInt64, 1<<63)
	for k := 1; k <= 9; k++ { // 7k-bit boundaries
		p := uint64(1) << uint(7*k)
		v = append(v, p-2, p-1, p, p+1)
	}
	return v
}

func rtSov(o *out, x uint64) {
	n := runtime.Sov(x)
	o.kase("SOV", []string{u64s(x)}, fmt.Sprint(n))
	o.prop("C15", n == protowire.SizeVarint(x), fmt.Sprintf("Sov(%#x)=%d protowire.SizeVarint=%d", x, n, protowire.SizeVarint(x)))
	o.count(fmt.Sprintf("sov_len%d", n))
	o.nontrivial(fmt.Sprintf("sov/%d/%d", bits.Len64(x), x&1))
}
func rtSoz(o *out, x uint64) {
	n := runtime.Soz(x)
	o.kase("SOZ", []string{u64s(x)}, fmt.Sprint(n))
	want := protowire.SizeVarint(protowire.EncodeZigZag(int64(x)))
	o.prop("C15", n == want, fmt.Sprintf("Soz(%#x)=%d protowire zig-zag size=%d", x, n, want))
	// the int32-through-uint64 call pattern of the templates: Soz(uint64(int32 value))
	o.count(fmt.Sprintf("soz_len%d", n))
	o.nontrivial(fmt.Sprintf("soz/%d/%d", bits.Len64(x), x&1))
}

// EncodeVarint on a sentinel-filled buffer at every interesting offset.
func rtEncv(o *out, buflen int, off int, v uint64, sentinel byte) {
	buf := make([]byte, buflen)
	for i := range buf {
		buf[i] = sentinel + byte(i*7)
	}
	orig := append([]byte(nil), buf...)
	base, panicked := catchInt(func() int { return runtime.EncodeVarint(buf, off, v) })
	args := []string{hx(orig), i64s(int64(off)), u64s(v)}
	if panicked {
		o.kase("ENCV", args, "panic")
		// property: a panic is only acceptable when the space is missing
		need := protowire.SizeVarint(v)
		o.prop("C15", off-need < 0 || off > buflen, fmt.Sprintf("EncodeVarint(len=%d, off=%d, v=%#x) panicked although %d bytes fit", buflen, off, v, need))
		o.count("encv_panic")
		o.nontrivial(fmt.Sprintf("encv/panic/%d/%d", need, off-need < 0))
		return
	}
	o.kase("ENCV", args, fmt.Sprintf("ok %s %s", hx(buf), i64s(int64(base))))
	want := protowire.AppendVarint(nil, v)
	ok := base == off-len(want) && base >= 0 && off <= buflen
	if ok {
		for i := range buf {
			if i >= base && i < off {
				ok = ok && buf[i] == want[i-base]
			} else {
				ok = ok && buf[i] == orig[i]
			}
		}
	}
	o.prop("C15", ok, fmt.Sprintf("EncodeVarint(buf=%s, off=%d, v=%#x) gave buf=%s base=%d; want minimal varint %s ending at off, rest untouched", hx(orig), off, v, hx(buf), base, hx(want)))
	o.count(fmt.Sprintf("encv_ok_len%d", len(want)))
	o.nontrivial(fmt.Sprintf("encv/ok/%d/%d/%d", len(want), base == 0, off == buflen))
}

func rtSkip(o *out, b []byte, class string) {
	var n int
	var err error
	var panicked bool
	o.guard("C15", "skip-hang", "Skip("+hx(b)+") does not terminate", func() {
		_, panicked = catchInt(func() int { n, err = runtime.Skip(b); return 0 })
	})
	obs := ""
	switch {
	case panicked:
		obs = "panic"
	case err != nil:
		obs = "err"
	default:
		obs = "ok " + i64s(int64(n))
	}
	o.kase("SKIP", []string{hx(b)}, obs)
	o.prop("C15", !panicked, fmt.Sprintf("Skip(%s) panicked", hx(b)))
	if !panicked && err == nil {
		o.prop("C15", n >= 1, fmt.Sprintf("Skip(%s) returned n=%d without progress", hx(b), n))
	}
	// reference: protowire.ConsumeField accepts exactly the well-formed records (and checks more:
	// field number validity, matching group numbers). Whenever it accepts, Skip must agree.
	if _, _, ref := protowire.ConsumeField(b); ref >= 0 {
		o.prop("C15", !panicked && err == nil && n == ref, fmt.Sprintf("Skip(%s)=%s but the first record is well-formed with length %d", hx(b), obs, ref))
		o.count("skip_wellformed_" + class)
	} else {
		o.count("skip_" + obs[:2] + "_" + class)
	}
	k := len(b)
	if k > 12 {
		k = 12
	}
	o.nontrivial("skip/" + obs[:2] + "/" + hx(b[:k]))
}

// random well-formed record, possibly with nested groups
func genRecord(r *rng, depth int) []byte {
	num := protowire.Number(1 + r.intn(1<<uint(1+r.intn(28))))
	if num > protowire.MaxValidNumber {
		num = protowire.MaxValidNumber
	}
	var b []byte
	switch k := r.intn(6); {
	case k == 0:
		b = protowire.AppendTag(b, num, protowire.VarintType)
		if r.intn(3) == 0 { // 9- and 10-byte varints (values >= 2^56, >= 2^63)
			b = protowire.AppendVarint(b, []uint64{1 << 63, 1<<64 - 1, 1<<63 - 1, 1 << 56, 1<<63 | r.u64(), uint64(-int64(1 + r.intn(1000)))}[r.intn(6)])
		} else {
			b = protowire.AppendVarint(b, r.u64()>>uint(r.intn(64)))
		}
	case k == 1:
		b = protowire.AppendTag(b, num, protowire.Fixed64Type)
		b = protowire.AppendFixed64(b, r.u64())
	case k == 2:
		b = protowire.AppendTag(b, num, protowire.Fixed32Type)
		b = protowire.AppendFixed32(b, uint32(r.u64()))
	case k == 3 || depth <= 0:
		b = protowire.AppendTag(b, num, protowire.BytesType)
		p := make([]byte, r.intn(1+r.intn(200)))
		for i := range p {
			p[i] = byte(r.u64())
		}
		b = protowire.AppendBytes(b, p)
	default:
		b = protowire.AppendTag(b, num, protowire.StartGroupType)
		for i := r.intn(4); i > 0; i-- {
			b = append(b, genRecord(r, depth-1)...)
		}
		b = protowire.AppendTag(b, num, protowire.EndGroupType)
	}
	return b
}

func engineRT(c config, o *out) {
	r := newRng(c.seed, "rt")
	bd := boundary64()
	for _, x := range bd {
		rtSov(o, x)
		rtSoz(o, x)
		// int32 / int64 call patterns of the templates: sign-extended arguments
		rtSoz(o, uint64(int64(int32(uint32(x)))))
		rtSov(o, uint64(int64(int32(uint32(x)))))
	}
	nrand := 4000
	if c.thorough() {
		nrand = 200000
	}
	for i := 0; i < nrand; i++ {
		x := r.u64() >> uint(r.intn(64))
		rtSov(o, x)
		rtSoz(o, x)
	}
	// EncodeVarint: all offsets (including the panicking ones) in small buffers
	for _, v := range bd {
		need := protowire.SizeVarint(v)
		for _, bl := range []int{0, 1, need - 1, need, need + 1, need + 3, 12} {
			if bl < 0 {
				continue
			}
			for off := -1; off <= bl+1; off++ {
				if !c.thorough() && off > need+1 && off < bl-1 {
					continue
				}
				rtEncv(o, bl, off, v, byte(0xA0+need))
			}
		}
	}
	for i := 0; i < nrand/4; i++ {
		v := r.u64() >> uint(r.intn(64))
		bl := r.intn(24)
		rtEncv(o, bl, r.intn(bl+3)-1, v, byte(r.u64()))
	}
	// Skip: exhaustive short strings
	for a := 0; a < 256; a++ {
		rtSkip(o, []byte{byte(a)}, "ex1")
		for b := 0; b < 256; b++ {
			rtSkip(o, []byte{byte(a), byte(b)}, "ex2")
		}
	}
	rtSkip(o, nil, "empty")
	alpha := []byte{0x00, 0x01, 0x02, 0x08, 0x09, 0x0a, 0x0b, 0x0c, 0x0d, 0x0f, 0x7f, 0x80, 0xff}
	maxLen := 4
	if c.thorough() {
		maxLen = 5
	}
	var rec func(pre []byte)
	rec = func(pre []byte) {
		if len(pre) >= 3 {
			rtSkip(o, append([]byte(nil), pre...), "alpha")
		}
		if len(pre) == maxLen {
			return
		}
		for _, a := range alpha {
			rec(append(pre, a))
		}
	}
	rec(nil)
	// adversarial lengths at every group depth: the index arithmetic (iNdEx + length, checked for wrap-around after every
	// record) must behave the same inside groups as at the top level
	for depth := 0; depth <= 3; depth++ {
		var pre []byte
		for d := 0; d < depth; d++ {
			pre = protowire.AppendTag(pre, protowire.Number(1+d), protowire.StartGroupType)
		}
		for _, inner := range [][]byte{nil, {0x08, 0x01}, {0x15, 1, 2, 3, 4}} {
			for _, l := range []uint64{1<<63 - 1, 1<<63 - 2, 1<<63 - 12, 1<<63 - 64, 1 << 62, 1<<62 + 1<<61, 1 << 63, 1<<63 + 5, math.MaxUint64, math.MaxUint64 - 3, math.MaxUint64 - 20, 1 << 31, 1 << 32} {
				m := append(append([]byte(nil), pre...), inner...)
				m = protowire.AppendTag(m, 2, protowire.BytesType)
				m = protowire.AppendVarint(m, l)
				for _, tail := range [][]byte{nil, {0x00}, {0x0c}, {0x08, 0x01, 0x0c, 0x14, 0x1c}} {
					rtSkip(o, append(append([]byte(nil), m...), tail...), "advlen-in-group")
				}
			}
		}
	}
	// well-formed records followed by arbitrary rest, then mutations of them
	nrec := 3000
	if c.thorough() {
		nrec = 100000
	}
	for i := 0; i < nrec; i++ {
		b := genRecord(r, 3)
		rest := make([]byte, r.intn(6))
		for j := range rest {
			rest[j] = byte(r.u64())
		}
		full := append(append([]byte(nil), b...), rest...)
		rtSkip(o, full, "wf")
		switch r.intn(4) {
		case 0: // truncate
			rtSkip(o, full[:r.intn(len(full)+1)], "trunc")
		case 1: // flip a byte
			m := append([]byte(nil), full...)
			m[r.intn(len(m))] ^= byte(1 << uint(r.intn(8)))
			rtSkip(o, m, "flip")
		case 2: // adversarial length after a bytes tag
			m := protowire.AppendTag(nil, protowire.Number(1+r.intn(100)), protowire.BytesType)
			lens := []uint64{1 << 31, 1 << 62, 1<<63 - 1, 1 << 63, math.MaxUint64, math.MaxUint64 - uint64(r.intn(16)), uint64(len(rest)), uint64(len(rest) + 1)}
			m = protowire.AppendVarint(m, lens[r.intn(len(lens))])
			m = append(m, rest...)
			rtSkip(o, m, "advlen")
		case 3: // overlong varints
			m := []byte{byte(r.intn(8))}
			for k := r.intn(12); k > 0; k-- {
				m = append(m, 0x80|byte(r.u64()))
			}
			m = append(m, byte(r.intn(128)))
			m = append(m, rest...)
			rtSkip(o, m, "overlong")
		}
	}
}

func protowireConsumeTag(b []byte) (protowire.Number, protowire.Type, int) { return protowire.ConsumeTag(b) }
