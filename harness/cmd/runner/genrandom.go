package main

// Random valid proto3 schema sets for the gen engine: 1-3 files in 1-2 Go packages, nested declarations, every kind and
// shape, oneofs, maps, enums, cross-file references, unpopular-but-legal names. Patterns of the known findings (a oneof
// named like a protoreflect.Message method, A{B_c} next to A.B{c}, `type` next to `type_`) are not generated here: they have
// their own named adversarial schemas, so that every failure of a random schema is a new finding.

import (
	"fmt"

	"github.com/cosmos/cosmos-proto/verifh/corpus"
	"google.golang.org/protobuf/types/descriptorpb"
)

var rndFieldNames = append(append(append([]string{"a", "b", "value", "key", "id", "name", "data", "count", "items", "flag", "ratio", "amount", "owner", "addr", "height", "hash", "foo_bar", "foo_bar_baz", "f1", "f_2", "camelCase", "UPPER"},
	corpus.ReflectMethodFieldNames...), corpus.GoKeywords...), "x", "l", "n", "i", "m", "options", "input", "dAtA2", "iNdEx", "size", "marshal", "unmarshal", "err", "ok", "len", "string", "int", "nil", "true", "false", "fd", "md", "wire", "list", "keys", "sort", "fmt", "math", "runtime", "proto", "state", "size_cache", "unknown_fields", "reset", "proto_message")

type rsGen struct {
	r     *rng
	pkg   string
	enums []string // fully-qualified enum names available so far (this and earlier files of the set)
	msgs  []string // fully-qualified message names available so far
}

func (g *rsGen) kind() corpus.T {
	return corpus.ScalarKinds[g.r.intn(len(corpus.ScalarKinds))]
}

func (g *rsGen) fields(self string, n int) []corpus.F {
	var fs []corpus.F
	used := map[string]bool{}
	usedNum := map[int32]bool{}
	oneofs := []string{"choice", "sum", "kind_of", "alt"}
	var curOneof string
	oneofLeft := 0
	nOneof := 0
	for i := 0; i < n; i++ {
		name := rndFieldNames[g.r.intn(len(rndFieldNames))]
		for used[name] || used[name+"_"] {
			name = fmt.Sprintf("%s%d", name, g.r.intn(100))
		}
		used[name] = true
		var num int32
		for num == 0 || usedNum[num] || (num >= 19000 && num <= 19999) {
			switch g.r.intn(6) {
			case 0:
				num = int32(1 + g.r.intn(15))
			case 1:
				num = int32(16 + g.r.intn(2032))
			case 2:
				num = corpus.TagNums[g.r.intn(len(corpus.TagNums))]
			default:
				num = int32(1 + g.r.intn(60))
			}
		}
		usedNum[num] = true
		f := corpus.F{Name: name, Num: num, Kind: g.kind()}
		if g.r.intn(4) == 0 && len(g.msgs) > 0 {
			f.Kind = corpus.Message
			f.TypeName = g.msgs[g.r.intn(len(g.msgs))]
			if g.r.intn(3) == 0 && self != "" {
				f.TypeName = self
			}
		}
		if f.Kind == corpus.Enum {
			if len(g.enums) == 0 {
				f.Kind = corpus.Int32
			} else {
				f.TypeName = g.enums[g.r.intn(len(g.enums))]
			}
		}
		if oneofLeft > 0 {
			f.Oneof = curOneof
			oneofLeft--
		} else {
			switch g.r.intn(7) {
			case 0, 1:
				f.Rep = true
				if f.Kind != corpus.String && f.Kind != corpus.Bytes && f.Kind != corpus.Message && g.r.intn(3) == 0 {
					f.Unpacked = true
				}
			case 2:
				f.Map = true
				f.KeyKind = corpus.KeyKinds[g.r.intn(len(corpus.KeyKinds))]
			case 3:
				if nOneof < len(oneofs) && !used[oneofs[nOneof]] {
					curOneof = oneofs[nOneof]
					nOneof++
					f.Oneof = curOneof
					oneofLeft = g.r.intn(4)
				}
			}
		}
		fs = append(fs, f)
	}
	return fs
}

func (g *rsGen) enum(name string, tag string) corpus.E {
	e := corpus.E{Name: name}
	n := 1 + g.r.intn(5)
	nums := map[int32]bool{0: true}
	e.Values = append(e.Values, corpus.EV{Name: tag + "_ZERO", Num: 0})
	for i := 1; i < n; i++ {
		v := int32(g.r.intn(2000)) - 1000
		if g.r.intn(8) == 0 {
			v = []int32{2147483647, -2147483648}[g.r.intn(2)]
		}
		if nums[v] {
			e.Alias = true
		}
		nums[v] = true
		e.Values = append(e.Values, corpus.EV{Name: fmt.Sprintf("%s_V%d", tag, i), Num: v})
	}
	return e
}

func (g *rsGen) message(name, scope string, depth int, tag string) corpus.M {
	full := scope + "." + name
	m := corpus.M{Name: name}
	// nested declarations first so that fields can refer to them
	if depth < 3 {
		for i, n := 0, g.r.intn(3); i < n; i++ {
			if g.r.intn(3) == 0 {
				en := fmt.Sprintf("E%d", i)
				m.Enums = append(m.Enums, g.enum(en, fmt.Sprintf("%s_%s_E%d", tag, name, i)))
				g.enums = append(g.enums, full+"."+en)
			} else {
				nn := fmt.Sprintf("N%d", i)
				m.Nested = append(m.Nested, g.message(nn, full, depth+1, tag+"_"+name))
			}
		}
	}
	nf := g.r.intn(9)
	if g.r.intn(10) == 0 {
		nf = 0
	}
	m.Fields = g.fields(full, nf)
	g.msgs = append(g.msgs, full)
	return m
}

// randomSet builds the i-th random request of a seed
func randomSet(seed uint64, i int) corpus.Set {
	r := newRng(seed, fmt.Sprintf("gen/random/%d", i))
	name := fmt.Sprintf("rnd_s%d_%d", seed, i)
	nFiles := 1 + r.intn(3)
	g := &rsGen{r: r}
	var fds []*descriptorpb.FileDescriptorProto
	var gen []string
	samePkg := r.intn(2) == 0
	for k := 0; k < nFiles; k++ {
		pkg := fmt.Sprintf("rnd.%s.p%d", name, k)
		if samePkg {
			pkg = "rnd." + name // one proto package, one Go package: declaration names carry the file index
		}
		gopkg := fmt.Sprintf("%s%s/p%d", corpus.GenCheckBase, name, k)
		if samePkg {
			gopkg = corpus.GenCheckBase + name
		}
		f := corpus.File{Path: fmt.Sprintf("rnd/%s_%d.proto", name, k), Package: pkg, GoPackage: gopkg}
		for j := 0; j < k; j++ {
			f.Deps = append(f.Deps, fds[j].GetName())
		}
		scope := "." + pkg
		tag := fmt.Sprintf("F%d", k)
		for e, n := 0, r.intn(3); e < n; e++ {
			en := fmt.Sprintf("Enum%d_%d", k, e)
			f.Enums = append(f.Enums, g.enum(en, fmt.Sprintf("%s_ENUM%d", tag, e)))
			g.enums = append(g.enums, scope+"."+en)
		}
		for m, n := 0, 1+r.intn(5); m < n; m++ {
			f.Msgs = append(f.Msgs, g.message(fmt.Sprintf("Msg%d_%d", k, m), scope, 0, tag))
		}
		fds = append(fds, f.Build())
		gen = append(gen, f.Path)
	}
	return corpus.Set{Name: name, Files: fds, Generate: gen, Param: "features=protoc+fast"}
}
