package main

import "github.com/cosmos/cosmos-proto/verifh/corpus"

// randomSet builds the i-th random request of a seed (generator lives in corpus/random.go; the same generator produces the
// random sets that are linked into the runner for the codec / decode / reflection engines)
func randomSet(seed uint64, i int) corpus.Set {
	return corpus.RandomSet(seed, i, "rnd", corpus.GenCheckBase, false)
}
