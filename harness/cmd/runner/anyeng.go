package main

// Engine "any" (property C16): drives /repo/anyutil (New, MarshalFrom, Unpack; and the deprecated
// aliases in /repo/any) over every registered message type, a matrix of type URLs, value bytes and
// resolver configurations.  Case lines (evaluated by driver/any_eval.ml with Model/AnyUtil.v):
//
//   ANY  REG     GT|GF   "name:k name:k ..."                       = ok        (registry contents, k = m|e|s|o)
//   ANY  PACK    dst  src  marshal-outcome  info                     = result dst-after
//   ANY  NEW     src  marshal-outcome  info                          = ok url:value | err | panic
//   ANY  UNPACK  any  fr  tr  cands                                  = ok impl name hash | err | panic
//
// The codec is abstract in the model, so every case carries what the codec did on a DIRECT call
// (opts.Marshal(src); proto.Unmarshal(value, type.New()) for the candidate descriptors): the model
// must then predict what anyutil makes of it.

import (
	"bytes"
	"fmt"
	"hash/fnv"
	"reflect"
	"sort"
	"strings"

	cany "github.com/cosmos/cosmos-proto/any"
	"github.com/cosmos/cosmos-proto/anyutil"
	"google.golang.org/protobuf/proto"
	"google.golang.org/protobuf/reflect/protodesc"
	"google.golang.org/protobuf/reflect/protoreflect"
	"google.golang.org/protobuf/reflect/protoregistry"
	"google.golang.org/protobuf/types/descriptorpb"
	"google.golang.org/protobuf/types/dynamicpb"
	"google.golang.org/protobuf/types/known/anypb"
	"google.golang.org/protobuf/types/known/durationpb"
	"google.golang.org/protobuf/types/known/emptypb"
	"google.golang.org/protobuf/types/known/fieldmaskpb"
	"google.golang.org/protobuf/types/known/structpb"
	"google.golang.org/protobuf/types/known/timestamppb"
	"google.golang.org/protobuf/types/known/wrapperspb"
)

func init() { engines["any"] = engineAny }

// ---- registry contents as finite maps (independent of the look-up functions under test) -------
type decl struct {
	name string
	kind byte // m message, e enum, s service, o other (field, oneof, enum value, method, extension)
	sub  string
}

func walkMessage(md protoreflect.MessageDescriptor, add func(protoreflect.Descriptor, byte, string)) {
	add(md, 'm', "message")
	// same order as protoregistry's findDescriptorInMessage
	for i := 0; i < md.Enums().Len(); i++ {
		add(md.Enums().Get(i), 'e', "enum")
	}
	for i := md.Enums().Len() - 1; i >= 0; i-- {
		vs := md.Enums().Get(i).Values()
		for j := 0; j < vs.Len(); j++ {
			add(vs.Get(j), 'o', "enumvalue")
		}
	}
	for i := 0; i < md.Extensions().Len(); i++ {
		add(md.Extensions().Get(i), 'o', "extension")
	}
	for i := 0; i < md.Fields().Len(); i++ {
		add(md.Fields().Get(i), 'o', "field")
	}
	for i := 0; i < md.Oneofs().Len(); i++ {
		add(md.Oneofs().Get(i), 'o', "oneof")
	}
	for i := 0; i < md.Messages().Len(); i++ {
		walkMessage(md.Messages().Get(i), add)
	}
}

func listFiles(files *protoregistry.Files) (out []decl, dups int) {
	seen := map[string]bool{}
	add := func(d protoreflect.Descriptor, k byte, sub string) {
		n := string(d.FullName())
		if seen[n] {
			dups++
			return
		}
		seen[n] = true
		out = append(out, decl{n, k, sub})
	}
	var fds []protoreflect.FileDescriptor
	files.RangeFiles(func(fd protoreflect.FileDescriptor) bool { fds = append(fds, fd); return true })
	sort.Slice(fds, func(i, j int) bool { return fds[i].Path() < fds[j].Path() })
	for _, fd := range fds {
		for i := 0; i < fd.Enums().Len(); i++ {
			ed := fd.Enums().Get(i)
			add(ed, 'e', "enum")
			for j := 0; j < ed.Values().Len(); j++ {
				add(ed.Values().Get(j), 'o', "enumvalue")
			}
		}
		for i := 0; i < fd.Extensions().Len(); i++ {
			add(fd.Extensions().Get(i), 'o', "extension")
		}
		for i := 0; i < fd.Services().Len(); i++ {
			sd := fd.Services().Get(i)
			add(sd, 's', "service")
			for j := 0; j < sd.Methods().Len(); j++ {
				add(sd.Methods().Get(j), 'o', "method")
			}
		}
		for i := 0; i < fd.Messages().Len(); i++ {
			walkMessage(fd.Messages().Get(i), add)
		}
	}
	return out, dups
}

func listTypes(types *protoregistry.Types) []decl {
	var out []decl
	types.RangeMessages(func(mt protoreflect.MessageType) bool {
		out = append(out, decl{string(mt.Descriptor().FullName()), 'm', "message"})
		return true
	})
	types.RangeEnums(func(et protoreflect.EnumType) bool {
		out = append(out, decl{string(et.Descriptor().FullName()), 'e', "enum"})
		return true
	})
	types.RangeExtensions(func(xt protoreflect.ExtensionType) bool {
		out = append(out, decl{string(xt.TypeDescriptor().FullName()), 'o', "extension"})
		return true
	})
	sort.Slice(out, func(i, j int) bool { return out[i].name < out[j].name })
	return out
}

func regLine(ds []decl) string {
	var sb strings.Builder
	for i, d := range ds {
		if i > 0 {
			sb.WriteByte(' ')
		}
		sb.WriteString(d.name)
		sb.WriteByte(':')
		sb.WriteByte(d.kind)
	}
	if len(ds) == 0 {
		return "-"
	}
	return sb.String()
}

// ---- observation helpers -----------------------------------------------------------------------
func hash64(b []byte) string {
	h := fnv.New64a()
	h.Write(b)
	return fmt.Sprintf("%016x", h.Sum64())
}

// detHash: a fingerprint of a message value (deterministic encoding, partial allowed so that it is total
// on messages a decoder accepted)
func detHash(m proto.Message) string {
	r := catchMarshal(proto.MarshalOptions{Deterministic: true, AllowPartial: true}, m)
	if r.pan != nil || r.err != nil {
		return "unencodable"
	}
	return hash64(r.b)
}

func anyStr(a *anypb.Any) string {
	if a == nil {
		return "nil"
	}
	return hx([]byte(a.TypeUrl)) + ":" + hx(a.Value)
}

type anyCtx struct {
	o       *out
	cfg     config
	r       *rng
	gtKind  map[string]byte
	gfKind  map[string]byte
	gfDecls []decl
	copyF   *protoregistry.Files
	emptyF  *protoregistry.Files
	emptyT  *protoregistry.Types
	genType map[string]reflect.Type // Go type of GlobalTypes' message type
}

// directDecode: what the codec itself does with the bytes for this descriptor.
func directDecode(m proto.Message, b []byte) string {
	err, pan := catchUnmarshal(proto.UnmarshalOptions{}, b, m)
	switch {
	case pan != nil:
		return "panic"
	case err != nil:
		return "err"
	}
	return "ok:" + detHash(m)
}

// candidates: the descriptors the URL could possibly denote (text after the last '/', and the URL
// without one leading '/'), each with the direct decode outcome of both implementations.
func (c *anyCtx) cands(url string, value []byte) string {
	names := []string{url}
	if i := strings.LastIndexByte(url, '/'); i >= 0 {
		names[0] = url[i+1:]
	}
	if t := strings.TrimPrefix(url, "/"); t != names[0] {
		names = append(names, t)
	}
	var parts []string
	for _, n := range names {
		if c.gfKind[n] != 'm' {
			continue
		}
		d, err := protoregistry.GlobalFiles.FindDescriptorByName(protoreflect.FullName(n))
		if err != nil {
			continue
		}
		md := d.(protoreflect.MessageDescriptor)
		p := n
		if mt, err := protoregistry.GlobalTypes.FindMessageByName(protoreflect.FullName(n)); err == nil {
			p += "|gen=" + directDecode(mt.New().Interface(), value)
		}
		p += "|dyn=" + directDecode(dynamicpb.NewMessage(md), value)
		parts = append(parts, p)
	}
	if len(parts) == 0 {
		return "-"
	}
	return strings.Join(parts, ";")
}

type resolverCfg struct {
	fr    protodesc.Resolver
	tr    protoregistry.MessageTypeResolver
	frTok string
	trTok string
}

func (c *anyCtx) implOf(m proto.Message) string {
	if _, ok := m.(*dynamicpb.Message); ok {
		return "dyn"
	}
	n := string(m.ProtoReflect().Descriptor().FullName())
	if t, ok := c.genType[n]; ok && t == reflect.TypeOf(m) {
		return "gen"
	}
	return "other"
}

func catchUnpack(f func(*anypb.Any, protodesc.Resolver, protoregistry.MessageTypeResolver) (proto.Message, error),
	a *anypb.Any, fr protodesc.Resolver, tr protoregistry.MessageTypeResolver) (m proto.Message, err error, pan interface{}) {
	defer func() {
		if e := recover(); e != nil {
			pan = e
		}
	}()
	m, err = f(a, fr, tr)
	return
}

// unpack: one Unpack call = one case line + the property's predicates that need no further context.
func (c *anyCtx) unpack(a *anypb.Any, rc resolverCfg, class, key string) (proto.Message, string) {
	o := c.o
	var before *anypb.Any
	if a != nil {
		before = &anypb.Any{TypeUrl: a.TypeUrl, Value: append([]byte(nil), a.Value...)}
	}
	f := anyutil.Unpack
	if c.o.cases%7 == 3 {
		f = cany.Unpack // the deprecated alias package must be the same function
	}
	m, err, pan := catchUnpack(f, a, rc.fr, rc.tr)
	url, val := "", []byte(nil)
	if a != nil {
		url, val = a.TypeUrl, a.Value
	}
	obs := "err"
	switch {
	case pan != nil:
		obs = "panic"
	case err == nil && m == nil:
		obs = "nil-nil"
	case err == nil:
		obs = "ok " + c.implOf(m) + " " + string(m.ProtoReflect().Descriptor().FullName()) + " " + detHash(m)
	}
	cands := "-"
	if a != nil {
		cands = c.cands(url, val)
	}
	o.kase("ANY", []string{"UNPACK", anyStr(before), rc.frTok, rc.trTok, cands}, obs)
	cls := strings.Fields(obs)[0]
	o.count("unpack_" + class + "_" + cls)
	o.nontrivial("unpack/" + class + "/" + rc.frTok + "/" + strings.SplitN(rc.trTok, ":", 2)[0] + "/" + cls)
	what := fmt.Sprintf("Unpack(%s, files=%s, types=%s)", describeAny(a), rc.frTok, rc.trTok)
	o.withKey(key).prop("C16", pan == nil, fmt.Sprintf("%s panicked: %v", what, pan))
	o.withKey(key).prop("C16", pan != nil || (err == nil) != (m == nil), what+" returned neither a message nor an error, or both")
	if a != nil {
		o.withKey(key).prop("C16", a.TypeUrl == before.TypeUrl && bytes.Equal(a.Value, before.Value), what+" modified its argument")
	}
	if pan == nil && err == nil && m != nil {
		// a returned message is of the type the URL names, and is what the decoder makes of the value
		n := string(m.ProtoReflect().Descriptor().FullName())
		named := n == url || strings.HasSuffix(url, "/"+n)
		o.withKey(key).prop("C16", named, fmt.Sprintf("%s returned a %s, which the URL does not name", what, n))
		want := directDecode(m.ProtoReflect().New().Interface(), val)
		o.withKey(key).prop("C16", want == "ok:"+detHash(m), fmt.Sprintf("%s returned a message that differs from the decoder's result on the value (%s)", what, want))
	}
	return m, obs
}

func describeAny(a *anypb.Any) string {
	if a == nil {
		return "nil"
	}
	v := hx(a.Value)
	if len(v) > 80 {
		v = v[:80] + "..."
	}
	return fmt.Sprintf("&Any{TypeUrl:%q, Value:%s}", a.TypeUrl, v)
}

// ---- packing -----------------------------------------------------------------------------------
type dstSnap struct {
	nilDst  bool
	url     string
	full    []byte // the whole capacity of Value
	ln      int
	ptr     uintptr
	nilVal  bool
	unknown []byte
}

func snapDst(d *anypb.Any) dstSnap {
	if d == nil {
		return dstSnap{nilDst: true}
	}
	s := dstSnap{url: d.TypeUrl, ln: len(d.Value), nilVal: d.Value == nil, unknown: append([]byte(nil), d.ProtoReflect().GetUnknown()...)}
	if cap(d.Value) > 0 {
		full := d.Value[:cap(d.Value)]
		s.full = append([]byte(nil), full...)
		s.ptr = reflect.ValueOf(full).Pointer()
	}
	return s
}

func (s dstSnap) same(d *anypb.Any) bool {
	t := snapDst(d)
	return s.nilDst == t.nilDst && s.url == t.url && s.ln == t.ln && s.ptr == t.ptr && s.nilVal == t.nilVal &&
		bytes.Equal(s.full, t.full) && bytes.Equal(s.unknown, t.unknown)
}

func catchMarshalFrom(f func(*anypb.Any, proto.Message, proto.MarshalOptions) error, dst *anypb.Any, src proto.Message, opts proto.MarshalOptions) (err error, pan interface{}) {
	defer func() {
		if e := recover(); e != nil {
			pan = e
		}
	}()
	return f(dst, src, opts), nil
}

func mkDst(kind string) *anypb.Any {
	switch kind {
	case "nil":
		return nil
	case "fresh":
		return new(anypb.Any)
	case "spare":
		v := make([]byte, 64)
		for i := range v {
			v[i] = 0xA5
		}
		d := &anypb.Any{TypeUrl: "/old.Type", Value: v[:3]}
		d.ProtoReflect().SetUnknown([]byte{0x98, 0x06, 0x01}) // field 99 varint 1
		return d
	}
	panic(kind)
}

func srcName(src proto.Message) string {
	if src == nil {
		return "nil"
	}
	return string(src.ProtoReflect().Descriptor().FullName())
}

// packOne: MarshalFrom into one kind of destination. Returns the destination when the pack succeeded.
func (c *anyCtx) packOne(src proto.Message, opts proto.MarshalOptions, dstKind, class string, expectEquiv bool) *anypb.Any {
	o := c.o
	dst := mkDst(dstKind)
	snap := snapDst(dst)
	before := anyStr(dst)
	var direct mres
	if src != nil {
		direct = catchMarshal(opts, src)
	}
	f := anyutil.MarshalFrom
	if o.cases%5 == 2 {
		f = cany.MarshalFrom
	}
	err, pan := catchMarshalFrom(f, dst, src, opts)
	res := "ok"
	switch {
	case pan != nil:
		res = "panic"
	case err != nil:
		res = "err"
	}
	what := fmt.Sprintf("MarshalFrom(dst=%s, src=%s %s, deterministic=%v)", dstKind, srcName(src), class, opts.Deterministic)
	dm := "nil-src"
	if src != nil {
		dm = direct.String()
		dm = strings.Replace(dm, "ok ", "ok:", 1)
		// non-deterministic map order: two calls may order map entries differently. The case then takes the
		// run's actual choice as the encoder's output (checked below to be an equivalent encoding).
		if res == "ok" && dst != nil && direct.err == nil && direct.pan == nil && !bytes.Equal(direct.b, dst.Value) && expectEquiv && !opts.Deterministic {
			dm = "ok:" + hx(dst.Value)
			o.count("pack_maporder_differs")
		}
	}
	o.kase("ANY", []string{"PACK", before, srcName(src), dm, fmt.Sprintf("det=%v/%s/%s", opts.Deterministic, dstKind, class)}, res+" "+anyStr(dst))
	o.count("pack_" + dstKind + "_" + class + "_" + res)
	o.nontrivial("pack/" + dstKind + "/" + class + "/" + res + "/" + srcName(src))
	key := "pack/" + srcName(src)
	if dst == nil {
		return nil // a nil destination is outside the property (the model reproduces the panic)
	}
	o.withKey(key).prop("C16", pan == nil || direct.pan != nil, fmt.Sprintf("%s panicked: %v", what, pan))
	if res != "ok" {
		o.withKey(key).prop("C16", snap.same(dst), what+" failed and modified the destination Any (url/value/spare capacity/unknown fields)")
		if src != nil {
			o.withKey(key).prop("C16", direct.err != nil || direct.pan != nil, what+" failed although opts.Marshal(src) succeeds")
		}
		return nil
	}
	o.withKey(key).prop("C16", src != nil && direct.err == nil && direct.pan == nil, what+" succeeded although opts.Marshal(src) does not")
	if src == nil {
		return nil
	}
	wantURL := "/" + srcName(src)
	o.withKey(key).prop("C16", dst.TypeUrl == wantURL, fmt.Sprintf("%s: type URL %q, want %q", what, dst.TypeUrl, wantURL))
	okVal := bytes.Equal(dst.Value, direct.b)
	if !okVal && !opts.Deterministic && expectEquiv && len(dst.Value) == len(direct.b) {
		// equal up to map-entry order: both decode to equal messages
		m1, m2 := src.ProtoReflect().New().Interface(), src.ProtoReflect().New().Interface()
		e1, p1 := catchUnmarshal(proto.UnmarshalOptions{}, dst.Value, m1)
		e2, p2 := catchUnmarshal(proto.UnmarshalOptions{}, direct.b, m2)
		okVal = e1 == nil && e2 == nil && p1 == nil && p2 == nil && detHash(m1) == detHash(m2)
	}
	o.withKey(key).prop("C16", okVal, fmt.Sprintf("%s: value %s is not opts.Marshal(src) = %s", what, hx(dst.Value), hx(direct.b)))
	o.withKey(key).prop("C16", bytes.Equal(snap.unknown, dst.ProtoReflect().GetUnknown()), what+" changed the destination's unknown fields")
	return dst
}

func (c *anyCtx) newOne(src proto.Message, class string) *anypb.Any {
	o := c.o
	var direct mres
	if src != nil {
		direct = catchMarshal(proto.MarshalOptions{}, src)
	}
	f := anyutil.New
	if o.cases%3 == 1 {
		f = cany.New
	}
	var a *anypb.Any
	var err error
	var pan interface{}
	func() {
		defer func() {
			if e := recover(); e != nil {
				pan = e
			}
		}()
		a, err = f(src)
	}()
	res := "err"
	switch {
	case pan != nil:
		res = "panic"
	case err == nil && a != nil:
		res = "ok " + anyStr(a)
	case err == nil:
		res = "nil-nil"
	}
	dm := "nil-src"
	if src != nil {
		dm = strings.Replace(direct.String(), "ok ", "ok:", 1)
		if strings.HasPrefix(res, "ok") && direct.err == nil && direct.pan == nil && !bytes.Equal(direct.b, a.Value) && len(direct.b) == len(a.Value) {
			dm = "ok:" + hx(a.Value) // map order (see packOne); equivalence is checked by packOne on the same source
		}
	}
	o.kase("ANY", []string{"NEW", srcName(src), dm, class}, res)
	o.count("new_" + class + "_" + strings.Fields(res)[0])
	key := "new/" + srcName(src)
	what := fmt.Sprintf("New(%s %s)", srcName(src), class)
	o.withKey(key).prop("C16", pan == nil || direct.pan != nil, fmt.Sprintf("%s panicked: %v", what, pan))
	o.withKey(key).prop("C16", pan != nil || (err == nil) == (a != nil), what+" returned neither an Any nor an error, or both")
	if a != nil && src != nil {
		o.withKey(key).prop("C16", a.TypeUrl == "/"+srcName(src), fmt.Sprintf("%s: type URL %q", what, a.TypeUrl))
		o.withKey(key).prop("C16", direct.err == nil && len(a.Value) == len(direct.b), what+": value is not the default encoding of src")
	}
	return a
}

// ---- the corpus of messages --------------------------------------------------------------------
type anyVal struct {
	m     proto.Message
	class string
	si    *schemaInfo
	mi    *msgInfo
	v     *V
}

func safeBuild(si *schemaInfo, mi *msgInfo, v *V) (m proto.Message) {
	defer func() {
		if recover() != nil {
			m = nil
		}
	}()
	return si.toGo(mi, v).Interface().(proto.Message)
}

func handMade() []anyVal {
	inner, _ := anypb.New(wrapperspb.String("inner"))
	st, _ := structpb.NewStruct(map[string]interface{}{"a": 1.5, "b": []interface{}{"x", nil, true}, "c": map[string]interface{}{"d": "e"}})
	fdp := protodesc.ToFileDescriptorProto(anypb.File_google_protobuf_any_proto)
	np := "n"
	ext := true
	ms := []anyVal{
		{m: wrapperspb.String("hello"), class: "wkt"},
		{m: wrapperspb.String("bad\xff"), class: "badutf8"},                           // Marshal fails after emitting bytes
		{m: &descriptorpb.UninterpretedOption_NamePart{}, class: "required-missing"}, // proto2 required fields unset
		{m: &descriptorpb.UninterpretedOption_NamePart{NamePart: &np}, class: "required-missing"},
		{m: &descriptorpb.UninterpretedOption_NamePart{NamePart: &np, IsExtension: &ext}, class: "proto2"},
		{m: &descriptorpb.UninterpretedOption{Name: []*descriptorpb.UninterpretedOption_NamePart{{NamePart: &np}}}, class: "required-missing"},
		{m: wrapperspb.Bytes([]byte{0, 0xff, 0x80}), class: "wkt"},
		{m: wrapperspb.Int64(-1), class: "wkt"},
		{m: wrapperspb.Double(1.5), class: "wkt"},
		{m: &timestamppb.Timestamp{Seconds: 1700000000, Nanos: 999999999}, class: "wkt"},
		{m: &durationpb.Duration{Seconds: -5, Nanos: -1}, class: "wkt"},
		{m: &emptypb.Empty{}, class: "wkt"},
		{m: &fieldmaskpb.FieldMask{Paths: []string{"a.b", "c"}}, class: "wkt"},
		{m: st, class: "wkt"},
		{m: inner, class: "wkt"},
		{m: &anypb.Any{TypeUrl: "type.googleapis.com/google.protobuf.Any", Value: []byte{0x0a, 0x01, 0x2f}}, class: "wkt"},
		{m: fdp, class: "proto2"},
	}
	return ms
}

func (c *anyCtx) corpus() (vals []anyVal, perType map[string][]int) {
	perType = map[string][]int{}
	add := func(v anyVal) {
		n := srcName(v.m)
		perType[n] = append(perType[n], len(vals))
		vals = append(vals, v)
	}
	nRandom := 6
	if c.cfg.thorough() {
		nRandom = 160
	}
	done := map[string]bool{}
	for _, si := range loadSchemas() {
		g := &vgen{r: newRng(c.cfg.seed, "any/"+si.id), si: si, nilElems: true}
		for _, mi := range si.msgs {
			n := string(mi.md.FullName())
			if done[n] {
				continue
			}
			done[n] = true
			if m := safeBuild(si, mi, si.emptyV(mi)); m != nil {
				add(anyVal{m: m, class: "empty", si: si, mi: mi, v: si.emptyV(mi)})
			}
			// every oneof member alone, holding its zero value (explicit presence: it must survive pack/unpack), and, for
			// scalar members, a boundary value
			for i, fi := range mi.fields {
				if fi.oneofIdx < 0 || !mi.pulsar {
					continue
				}
				for b := 0; b < 2; b++ {
					v := si.emptyV(mi)
					if fi.fd.Kind() == protoreflect.MessageKind {
						if b == 1 {
							continue
						}
						v.L[i] = &V{K: 's', P: si.emptyV(si.byName[fi.fd.Message().FullName()])}
					} else {
						v.L[i] = &V{K: 's', P: g.scalarAt(fi.fd, b*3)}
					}
					if m := safeBuild(si, mi, v); m != nil {
						add(anyVal{m: m, class: "oneof-member", si: si, mi: mi, v: v})
					}
				}
			}
			for k := 0; k < nRandom; k++ {
				g.badUTF8 = mi.pulsar && k%4 == 3
				g.big = c.cfg.thorough() && k%8 == 7
				v := g.msg(mi, 3, 2+g.r.intn(7))
				if k%3 == 1 {
					v.Unk = append(v.Unk, genUnknownFor(g.r, mi)...)
				}
				if m := safeBuild(si, mi, v); m != nil {
					cl := "random"
					if !stringsValid(si, mi, v) {
						cl = "badutf8"
					}
					add(anyVal{m: m, class: cl, si: si, mi: mi, v: v})
				}
			}
		}
	}
	for _, v := range handMade() {
		done[srcName(v.m)] = true
		add(v)
	}
	// every other registered message type: the empty message
	var rest []protoreflect.MessageType
	protoregistry.GlobalTypes.RangeMessages(func(mt protoreflect.MessageType) bool {
		if !done[string(mt.Descriptor().FullName())] {
			rest = append(rest, mt)
		}
		return true
	})
	sort.Slice(rest, func(i, j int) bool { return rest[i].Descriptor().FullName() < rest[j].Descriptor().FullName() })
	for _, mt := range rest {
		add(anyVal{m: mt.New().Interface(), class: "empty"})
	}
	return vals, perType
}

// ---- the engine --------------------------------------------------------------------------------
func engineAny(cfg config, o *out) {
	c := &anyCtx{o: o, cfg: cfg, r: newRng(cfg.seed, "any"), gtKind: map[string]byte{}, gfKind: map[string]byte{}, genType: map[string]reflect.Type{}}

	// the alias package must hold the very same functions
	o.prop("C16", reflect.ValueOf(cany.New).Pointer() == reflect.ValueOf(anyutil.New).Pointer() &&
		reflect.ValueOf(cany.MarshalFrom).Pointer() == reflect.ValueOf(anyutil.MarshalFrom).Pointer() &&
		reflect.ValueOf(cany.Unpack).Pointer() == reflect.ValueOf(anyutil.Unpack).Pointer(), "package any does not alias package anyutil")

	// registries
	gf, dups := listFiles(protoregistry.GlobalFiles)
	gt := listTypes(protoregistry.GlobalTypes)
	c.gfDecls = gf
	for _, d := range gf {
		c.gfKind[d.name] = d.kind
	}
	for _, d := range gt {
		c.gtKind[d.name] = d.kind
	}
	o.hist["reg_files_decls"] = len(gf)
	o.hist["reg_types_decls"] = len(gt)
	o.hist["reg_files_duplicate_names"] = dups
	o.kase("@ANY", []string{"REG", "GF", regLine(gf)}, "ok") // context line: every model shard needs the registries
	o.kase("@ANY", []string{"REG", "GT", regLine(gt)}, "ok")
	protoregistry.GlobalTypes.RangeMessages(func(mt protoreflect.MessageType) bool {
		c.genType[string(mt.Descriptor().FullName())] = reflect.TypeOf(mt.New().Interface())
		return true
	})
	c.copyF = new(protoregistry.Files)
	protoregistry.GlobalFiles.RangeFiles(func(fd protoreflect.FileDescriptor) bool {
		if err := c.copyF.RegisterFile(fd); err != nil {
			panic(err)
		}
		return true
	})
	c.emptyF, c.emptyT = new(protoregistry.Files), new(protoregistry.Types)

	def := resolverCfg{nil, nil, "nil", "nil"}
	explicit := resolverCfg{protoregistry.GlobalFiles, protoregistry.GlobalTypes, "GF", "GT"}
	dynGlobal := resolverCfg{nil, c.emptyT, "nil", "empty"}
	dynCopy := resolverCfg{c.copyF, c.emptyT, "copy", "empty"}
	none := resolverCfg{c.emptyF, c.emptyT, "empty", "empty"}
	nilptr := resolverCfg{(*protoregistry.Files)(nil), (*protoregistry.Types)(nil), "nilptr", "nilptr"}
	typesOnly := resolverCfg{c.emptyF, nil, "empty", "nil"}
	baseCfgs := []resolverCfg{def, explicit, dynGlobal, dynCopy, none, nilptr, typesOnly}

	vals, perType := c.corpus()
	o.hist["message_types"] = len(perType)
	o.hist["message_values"] = len(vals)

	garbage := []byte{0xff, 0xff, 0xff, 0xff, 0xff, 0xff, 0xff, 0xff, 0xff, 0xff, 0xff, 0x01}
	typeNames := make([]string, 0, len(perType))
	for n := range perType {
		typeNames = append(typeNames, n)
	}
	sort.Strings(typeNames)

	for _, tn := range typeNames {
		for vi, idx := range perType[tn] {
			av := vals[idx]
			src := av.m
			md := src.ProtoReflect().Descriptor()
			mtG, errG := protoregistry.GlobalTypes.FindMessageByName(md.FullName())
			registered := errG == nil
			expectEquiv := true
			var packed *anypb.Any
			for _, det := range []bool{true, false} {
				opts := proto.MarshalOptions{Deterministic: det}
				a := c.packOne(src, opts, "fresh", av.class, expectEquiv)
				c.packOne(src, opts, "spare", av.class, expectEquiv)
				if vi == 0 && det {
					c.packOne(src, opts, "nil", av.class, expectEquiv)
				}
				if a == nil {
					continue
				}
				if packed == nil {
					packed = a
				}
				// the codec's own round trip (C01's business): the oracle for "equal to the original"
				direct := src.ProtoReflect().New().Interface()
				dErr, dPan := catchUnmarshal(proto.UnmarshalOptions{}, a.Value, direct)
				codecRT := dErr == nil && dPan == nil && proto.Equal(direct, src)
				if !codecRT {
					o.count("codec_roundtrip_not_equal(C01)")
					// a codec defect (C01's business) is also a failure of "unpack(pack m) equals m" for this m
					o.withKey("roundtrip-codec/"+tn).prop("C16", false, fmt.Sprintf("pack/unpack of %s (%s) cannot return the original: the generated codec itself does not round-trip this value (decode(encode m) != m: %v %v); value %s", tn, av.class, dErr, dPan, av.v))
				}
				// ... and the reference decoder's (dynamicpb refuses invalid UTF-8 in proto3 strings, which the
				// generated code neither writes nor reads with validation: DESIGN 9, a codec matter)
				directDyn := dynamicpb.NewMessage(md)
				yErr, yPan := catchUnmarshal(proto.UnmarshalOptions{}, a.Value, directDyn)
				codecRTdyn := yErr == nil && yPan == nil && proto.Equal(directDyn, src)
				if !codecRTdyn {
					o.count("dynamicpb_roundtrip_not_equal(" + av.class + ")")
				}
				cfgs := baseCfgs
				if registered {
					onlyT := new(protoregistry.Types)
					onlyT.RegisterMessage(mtG)
					dynT := new(protoregistry.Types)
					dynT.RegisterMessage(dynamicpb.NewMessageType(md))
					cfgs = append(append([]resolverCfg{}, baseCfgs...),
						resolverCfg{c.emptyF, onlyT, "empty", "only-gen:" + tn},
						resolverCfg{c.emptyF, dynT, "empty", "only-dyn:" + tn})
				}
				if !det && vi > 0 {
					cfgs = cfgs[:3] // the routes that matter; the full resolver matrix runs on the deterministic pack
				}
				key := "roundtrip/" + tn
				var viaTypes, viaFiles proto.Message
				for _, rc := range cfgs {
					m, obs := c.unpack(a, rc, "packed-"+av.class, key)
					what := fmt.Sprintf("Unpack(New(%s %s), files=%s, types=%s)", tn, av.class, rc.frTok, rc.trTok)
					wantImpl := ""
					switch {
					case rc.trTok == "nil" || rc.trTok == "GT" || strings.HasPrefix(rc.trTok, "only-gen"):
						if registered {
							wantImpl = "gen"
						} else if rc.frTok != "empty" && rc.frTok != "nilptr" {
							wantImpl = "dyn"
						}
					case strings.HasPrefix(rc.trTok, "only-dyn"):
						wantImpl = "dyn"
					default: // empty / nil-pointer type registry
						if rc.frTok == "nil" || rc.frTok == "GF" || rc.frTok == "copy" {
							wantImpl = "dyn"
						}
					}
					if wantImpl == "" {
						o.withKey(key).prop("C16", obs == "err", what+": no registry knows the type, want an error, got "+obs)
						continue
					}
					if (wantImpl == "gen" && !codecRT) || (wantImpl == "dyn" && !codecRTdyn) {
						continue
					}
					ok := m != nil && strings.HasPrefix(obs, "ok "+wantImpl+" ") && proto.Equal(m, src)
					if ok && wantImpl == "gen" {
						ok = reflect.TypeOf(m) == reflect.TypeOf(mtG.New().Interface())
					}
					o.withKey(key).prop("C16", ok, fmt.Sprintf("%s: want a %s message equal to the original, got %s", what, wantImpl, obs))
					if wantImpl == "gen" && viaTypes == nil {
						viaTypes = m
					}
					if wantImpl == "dyn" && viaFiles == nil {
						viaFiles = m
					}
				}
				if viaTypes != nil && viaFiles != nil {
					// proto.Equal only: a float32 signalling NaN is quieted inside dynamicpb's protoreflect.Value, so the
					// re-encodings of the two implementations may differ in a NaN payload (DESIGN 3.4)
					o.withKey(key).prop("C16", proto.Equal(viaTypes, viaFiles),
						fmt.Sprintf("Unpack of New(%s %s) through the type registry and through the file registry disagree (value %s)", tn, av.class, hx(a.Value)))
				}
			}
			if vi == 0 {
				c.newOne(src, av.class)
				// a typed nil pointer as source
				if src.ProtoReflect().IsValid() && reflect.TypeOf(src).Kind() == reflect.Ptr {
					if _, isDyn := src.(*dynamicpb.Message); !isDyn {
						nilSrc := reflect.Zero(reflect.TypeOf(src)).Interface().(proto.Message)
						if a := c.packOne(nilSrc, proto.MarshalOptions{}, "fresh", "typed-nil", true); a != nil {
							c.unpack(a, def, "packed-typed-nil", "roundtrip/"+tn)
						}
						c.packOne(nilSrc, proto.MarshalOptions{}, "spare", "typed-nil", true)
					}
				}
				// the same value held by a dynamic message
				if av.si != nil && allValidUTF8(av.v) {
					dsrc := av.si.toDyn(av.mi, av.v)
					if a := c.packOne(dsrc, proto.MarshalOptions{Deterministic: true}, "fresh", "dynamic-src", true); a != nil {
						m, obs := c.unpack(a, def, "packed-dynamic-src", "roundtrip/"+tn)
						if registered {
							o.withKey("roundtrip/"+tn).prop("C16", m != nil && proto.Equal(m, dsrc) && strings.HasPrefix(obs, "ok gen "),
								"Unpack(New(dynamic "+tn+")) is not a generated message equal to the source: "+obs)
						}
					}
				}
			} else if vi%2 == 1 {
				c.newOne(src, av.class)
			}

			// ---- URL x value matrix on the first value of each type
			if vi != 0 {
				continue
			}
			valid := []byte{}
			if packed != nil {
				valid = packed.Value
			} else if len(perType[tn]) > 1 {
				if r := catchMarshal(proto.MarshalOptions{Deterministic: true}, vals[perType[tn][1]].m); r.err == nil && r.pan == nil {
					valid = r.b
				}
			}
			// richer valid bytes when there is a later value that encodes
			for _, j := range perType[tn][1:] {
				if r := catchMarshal(proto.MarshalOptions{Deterministic: true}, vals[j].m); r.err == nil && r.pan == nil && len(r.b) > 1 {
					valid = r.b
					break
				}
			}
			type valueBytes struct {
				class string
				b     []byte
			}
			values := []valueBytes{{"valid", valid}, {"empty", []byte{}}, {"garbage", garbage}}
			if len(valid) > 0 {
				values = append(values, valueBytes{"truncated", valid[:len(valid)-1]})
			}
			urls := [][2]string{{"slash-name", "/" + tn}, {"bare-name", tn}, {"host", "type.googleapis.com/" + tn},
				{"double-slash", "//" + tn}, {"path", "a/b/" + tn}, {"trailing-slash", "/" + tn + "/"},
				{"suffix", "/" + tn + "x"}, {"prefix", "/x" + tn}, {"dot", "/." + tn}, {"space", "/ " + tn}, {"upper", "/" + strings.ToUpper(tn)},
				{"nul", "/" + tn + "\x00"}, {"host-only", "type.googleapis.com/"}, {"other-type", "/google.protobuf.Duration"}}
			for _, u := range urls {
				for _, vb := range values {
					a := &anypb.Any{TypeUrl: u[1], Value: vb.b}
					for _, rc := range []resolverCfg{def, dynGlobal, dynCopy} {
						c.unpack(a, rc, "url-"+u[0]+"-"+vb.class, "url/"+u[0])
					}
				}
			}
		}
	}

	// ---- URLs naming something that is not a message: every declaration of the file registry
	for _, d := range gf {
		if d.kind == 'm' {
			continue
		}
		key := "D10/unchecked-assertion/" + d.sub
		for _, u := range []string{"/" + d.name, d.name, "type.googleapis.com/" + d.name} {
			a := &anypb.Any{TypeUrl: u, Value: []byte{}}
			for _, rc := range []resolverCfg{def, dynGlobal, dynCopy, typesOnly} {
				_, obs := c.unpack(a, rc, "nonmessage-"+d.sub, key)
				o.withKey(key).prop("C16", obs == "err", fmt.Sprintf("Unpack(%s, files=%s, types=%s): the URL names a %s, want an error, got %s", describeAny(a), rc.frTok, rc.trTok, d.sub, obs))
			}
		}
	}
	// package names, unknown names, degenerate URLs
	degenerate := []string{"", "/", "//", "///", "/.", ".", "/..", " ", "/ ", "\x00", "/\x00", "/\xff\xfe", "google.protobuf", "/google.protobuf", "/google", "/google.protobuf.",
		"/google.protobuf.Nope", "/nope.Nope", "type.googleapis.com/", "type.googleapis.com", "http://type.googleapis.com/google.protobuf.Any", "//x", "a/b/c", "/a/b/c/",
		"/google.protobuf.Any/", "/google.protobuf.Any//", "google.protobuf.Any/google.protobuf.Duration", "/google.protobuf.Duration/google.protobuf.Any",
		strings.Repeat("/", 300), strings.Repeat("a", 5000), "/" + strings.Repeat("a.", 2000) + "b"}
	for _, u := range degenerate {
		for _, vb := range [][]byte{{}, garbage, {0x0a, 0x01, 0x2f}} {
			a := &anypb.Any{TypeUrl: u, Value: vb}
			for _, rc := range baseCfgs {
				c.unpack(a, rc, "degenerate", "url/degenerate")
			}
		}
	}
	// ---- nil arguments
	for _, rc := range baseCfgs {
		_, obs := c.unpack(nil, rc, "nil-any", "D10/nil-any")
		o.withKey("D10/nil-any").prop("C16", obs == "err", "Unpack(nil Any): want an error, got "+obs)
	}
	c.unpack(&anypb.Any{}, def, "zero-any", "url/degenerate")
	for _, dk := range []string{"fresh", "spare", "nil"} {
		c.packOne(nil, proto.MarshalOptions{}, dk, "nil-src", true)
		c.packOne(nil, proto.MarshalOptions{Deterministic: true}, dk, "nil-src", true)
	}
	c.newOne(nil, "nil-src")

	// ---- random URLs and values (mutations of real names)
	n := 1500
	if cfg.thorough() {
		n = 200000
	}
	alphabet := []string{"/", "//", ".", "type.googleapis.com/", "x", "", "/", " ", "A", "\x00"}
	for i := 0; i < n; i++ {
		d := gf[c.r.intn(len(gf))]
		u := d.name
		for k := c.r.intn(3); k >= 0; k-- {
			pos := c.r.intn(len(u) + 1)
			piece := alphabet[c.r.intn(len(alphabet))]
			switch c.r.intn(4) {
			case 0:
				u = u[:pos] + piece + u[pos:]
			case 1:
				if pos < len(u) {
					u = u[:pos] + u[pos+1:]
				}
			case 2:
				u = piece + u
			case 3:
				u = "/" + u
			}
		}
		var vb []byte
		switch c.r.intn(4) {
		case 1:
			vb = garbage[:c.r.intn(len(garbage))]
		case 2:
			vb = make([]byte, c.r.intn(12))
			for j := range vb {
				vb[j] = byte(c.r.u64())
			}
		case 3:
			vb = []byte{0x0a, 0x01, 0x2f}
		}
		a := &anypb.Any{TypeUrl: u, Value: vb}
		c.unpack(a, baseCfgs[c.r.intn(len(baseCfgs))], "random-url", "url/random")
	}
}
