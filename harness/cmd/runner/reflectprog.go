package main

// Engine "reflectprog" — translator tie for the generated fast-reflection methods (coq/Model/ReflectProg.v).
//
// On every run, for every generated message type of every loaded schema set, the Go SOURCE of the eight methods
//     func (x *fastReflection_<T>) Has / Clear / Get / Set / Mutable / NewField / WhichOneof / Range
// (checked-in *.pulsar.go under VERIF_REPO, freshly generated ones under harness/gen/<set>/) is parsed with go/parser. The frame of
// every method is checked literally (signature, the nil guard, `switch fd.FullName()`, one `case "<full name>":` per field / oneof,
// the `default:` tail with its two panics) and every case body is translated, purely syntactically, into the syntax of
// Model/ReflectProg.v: a body must be, token for token, one of the forms the templates print (the patterns below; the parts that vary
// are holes whose content is mapped to indexes: struct field / oneof field / wrapper type / payload field / list and map view type /
// message type / descriptor variable -> index, zero literal, ValueOf… constructor, conversion of `value`). Anything else makes the
// method "untranslatable". The driver compares the translated methods with the canonical ones (canon_has … canon_range of the schema)
// and runs the Coq interpreter on the TRANSLATED methods against the running code (REFLECTRUN).
//
// Case lines (evaluated by driver/reflectprog_eval.ml, which also documents the text form of the programs):
//	REFLECTPROG <set> <idx> <method> <k>     = k-th case `(case n body)` / k-th Range statement   (model: the k-th of the canonical method)
//	REFLECTPROG <set> <idx> <method> len     = number of cases | untranslatable:<file>:<line>:<col>:<why>
//	REFLECTPROG <set> <idx> <method> frame   = (frame <guard> <tail>)
//	@REFLECTDEF <set> <idx> <method> <text>  = ok      context line: the whole translated method, remembered by every driver shard
//	REFLECTPROG <set> <idx> <method> eqb     = same    (model: the translated method is the canonical one)
//	REFLECTPROG <set> <idx> all eqb          = same    (model: rprogs_eqb <the eight translated> (canon_progs sch idx))
//	REFLECTRUN  <set> <idx> <VAL> <ops>      = <out>|<root>;…   one short history on a struct built from VAL (grammar of HISTV lines):
//	                                           model: the same history with the eight methods INTERPRETED from the translated text

import (
	"fmt"
	"go/ast"
	"go/parser"
	"go/token"
	"os"
	"path/filepath"
	"reflect"
	"sort"
	"strconv"
	"strings"

	"google.golang.org/protobuf/proto"
	"google.golang.org/protobuf/reflect/protoreflect"
)

func init() { engines["reflectprog"] = engineReflectProg }

const (
	rpProtoreflectPath = "google.golang.org/protobuf/reflect/protoreflect"
)

var rpMethods = []string{"Has", "Clear", "Get", "Set", "Mutable", "NewField", "WhichOneof", "Range"}

// ---- package source -------------------------------------------------------------------------------------------------
type rpFdVar struct {
	md, name string // <var> = <md>.Fields().ByName("<name>")
	n        int    // number of assignments seen
}
type rpPkg struct {
	fset    *token.FileSet
	methods map[string]map[string][]*spMethod // Go message type name -> method name -> declarations on *fastReflection_<T>
	fdVars  map[string]*rpFdVar               // package-level descriptor variables assigned in init()
	mdChain map[string][]string               // md_X = File_….Messages().ByName("a").Messages().ByName("b") -> [a b]
	mdCount map[string]int
	err     error
}

var rpPkgs = map[string]*rpPkg{}

// identifiers the patterns rely on: a package that declares one of them itself is not translated
var rpPredeclared = []string{"len", "new", "make", "panic", "nil", "true", "false", "string", "int32", "int64", "uint32", "uint64", "float32", "float64", "bool", "byte"}

func rpPkgOf(mi *msgInfo) *rpPkg {
	pp := mi.goType.PkgPath()
	if p, ok := rpPkgs[pp]; ok {
		return p
	}
	var p *rpPkg
	if dir := spDir(pp); dir != "" {
		p = rpLoad(dir)
	} else {
		p = &rpPkg{err: fmt.Errorf("no source directory known for package %s", pp)}
	}
	rpPkgs[pp] = p
	return p
}

func rpLoad(dir string) *rpPkg {
	p := &rpPkg{fset: token.NewFileSet(), methods: map[string]map[string][]*spMethod{}, fdVars: map[string]*rpFdVar{}, mdChain: map[string][]string{}, mdCount: map[string]int{}}
	// every Go file of the package is looked at for declarations shadowing predeclared identifiers; methods and init() are taken from
	// the *.pulsar.go files
	all, _ := filepath.Glob(filepath.Join(dir, "*.go"))
	sort.Strings(all)
	found := false
	for _, path := range all {
		if strings.HasSuffix(path, "_test.go") {
			continue
		}
		src, err := os.ReadFile(path)
		if err != nil {
			p.err = err
			return p
		}
		af, err := parser.ParseFile(p.fset, path, src, 0)
		if err != nil {
			p.err = err
			return p
		}
		for _, name := range rpPredeclared {
			if af.Scope.Lookup(name) != nil {
				p.err = fmt.Errorf("%s declares %s at package level", filepath.Base(path), name)
				return p
			}
		}
		if !strings.HasSuffix(path, ".pulsar.go") {
			continue
		}
		found = true
		f := &spFile{path: path, src: src, file: af, imports: map[string]string{}}
		for _, im := range af.Imports {
			ip, _ := strconv.Unquote(im.Path.Value)
			name := filepath.Base(ip)
			if im.Name != nil {
				name = im.Name.Name
			}
			f.imports[ip] = name
		}
		for _, d := range af.Decls {
			fd, ok := d.(*ast.FuncDecl)
			if !ok {
				continue
			}
			if fd.Recv == nil && fd.Name.Name == "init" {
				p.scanInit(fd)
				continue
			}
			if fd.Recv == nil || len(fd.Recv.List) != 1 {
				continue
			}
			st, ok := fd.Recv.List[0].Type.(*ast.StarExpr)
			if !ok {
				continue
			}
			id, ok := st.X.(*ast.Ident)
			if !ok || !strings.HasPrefix(id.Name, "fastReflection_") {
				continue
			}
			t := strings.TrimPrefix(id.Name, "fastReflection_")
			if p.methods[t] == nil {
				p.methods[t] = map[string][]*spMethod{}
			}
			p.methods[t][fd.Name.Name] = append(p.methods[t][fd.Name.Name], &spMethod{f: f, decl: fd})
		}
	}
	if !found {
		p.err = fmt.Errorf("no *.pulsar.go in %s", dir)
	}
	return p
}

// init(): fd_X = md_Y.Fields().ByName("n")   and   md_Y = <File var>.Messages().ByName("a")[.Messages().ByName("b")…]
func (p *rpPkg) scanInit(fd *ast.FuncDecl) {
	for _, s := range fd.Body.List {
		as, ok := s.(*ast.AssignStmt)
		if !ok || as.Tok != token.ASSIGN || len(as.Lhs) != 1 || len(as.Rhs) != 1 {
			continue
		}
		lhs, ok := as.Lhs[0].(*ast.Ident)
		if !ok {
			continue
		}
		// peel .ByName("…") / .Fields() / .Messages()
		var names []string
		kind := ""
		e := as.Rhs[0]
		okShape := true
		for okShape {
			c, ok := e.(*ast.CallExpr)
			if !ok {
				break
			}
			se, ok := c.Fun.(*ast.SelectorExpr)
			if !ok || se.Sel.Name != "ByName" || len(c.Args) != 1 {
				okShape = false
				break
			}
			lit, ok := c.Args[0].(*ast.BasicLit)
			if !ok || lit.Kind != token.STRING {
				okShape = false
				break
			}
			n, _ := strconv.Unquote(lit.Value)
			c2, ok := se.X.(*ast.CallExpr)
			if !ok || len(c2.Args) != 0 {
				okShape = false
				break
			}
			se2, ok := c2.Fun.(*ast.SelectorExpr)
			if !ok {
				okShape = false
				break
			}
			switch se2.Sel.Name {
			case "Fields":
				if kind != "" {
					okShape = false
				}
				kind = "field"
			case "Messages":
				if kind == "" {
					kind = "msg"
				}
				if kind == "field" && len(names) != 1 {
					okShape = false
				}
			default:
				okShape = false
			}
			names = append([]string{n}, names...)
			e = se2.X
			if kind == "field" {
				break
			}
		}
		base, ok := e.(*ast.Ident)
		if !ok || !okShape || kind == "" {
			// some other assignment to the variable: remembered as a second assignment, so that the variable is not trusted
			if _, known := p.fdVars[lhs.Name]; known {
				p.fdVars[lhs.Name].n++
			}
			p.mdCount[lhs.Name]++
			continue
		}
		if kind == "field" {
			v := p.fdVars[lhs.Name]
			if v == nil {
				v = &rpFdVar{}
				p.fdVars[lhs.Name] = v
			}
			v.md, v.name = base.Name, names[0]
			v.n++
		} else {
			p.mdChain[lhs.Name] = names
			p.mdCount[lhs.Name]++
		}
	}
}

// ---- token patterns ---------------------------------------------------------------------------------------------------
// A pattern is Go text scanned by the same scanner as the source (spToks). An identifier HOLE_<name> matches exactly one token, an
// identifier HOLES_<name> a non-empty run of at most rpMaxRun tokens (shortest first, with backtracking); a hole that occurs twice
// must match the same tokens both times.
const rpMaxRun = 28

type rpBind map[string][]string

func rpMatch(pat, src []string, b rpBind) bool {
	if len(pat) == 0 {
		return len(src) == 0
	}
	p := pat[0]
	switch {
	case strings.HasPrefix(p, "HOLE_"):
		if len(src) == 0 {
			return false
		}
		if old, ok := b[p]; ok {
			return len(old) == 1 && old[0] == src[0] && rpMatch(pat[1:], src[1:], b)
		}
		b[p] = src[:1]
		if rpMatch(pat[1:], src[1:], b) {
			return true
		}
		delete(b, p)
		return false
	case strings.HasPrefix(p, "HOLES_"):
		if old, ok := b[p]; ok {
			if len(src) < len(old) {
				return false
			}
			for i := range old {
				if src[i] != old[i] {
					return false
				}
			}
			return rpMatch(pat[1:], src[len(old):], b)
		}
		for n := 1; n <= rpMaxRun && n <= len(src); n++ {
			b[p] = src[:n]
			if rpMatch(pat[1:], src[n:], b) {
				return true
			}
		}
		delete(b, p)
		return false
	}
	return len(src) > 0 && src[0] == p && rpMatch(pat[1:], src[1:], b)
}

var rpPatCache = map[string][]string{}

func rpPat(text string) []string {
	if t, ok := rpPatCache[text]; ok {
		return t
	}
	t := spToks([]byte(text))
	rpPatCache[text] = t
	return t
}

// ---- the translator of one message type ---------------------------------------------------------------------------------
type rpTr struct {
	pkg      *rpPkg
	f        *spFile
	si       *schemaInfo
	mi       *msgInfo
	tname    string
	plain    map[string]int // Go struct field name -> field index (fields outside oneofs)
	oneofs   map[string]int // Go struct field name of a oneof's interface field -> oneof index
	wrappers map[string]int // oneof wrapper type name -> field index
	payload  map[int]string // member field index -> name of the wrapper's single field
	byFull   map[string]int // full name of a field -> index
	oneFull  map[string]int // full name of a real oneof -> index
	mdVar    string         // the variable Descriptor() returns
	at       ast.Node       // where we are (for error positions)
	pr, fm   string         // local names of protoreflect, fmt
}

func (t *rpTr) fail(why string, a ...interface{}) {
	panic(spErr{t.at.Pos(), fmt.Sprintf(why, a...)})
}
func (t *rpTr) text(n ast.Node) []byte {
	return t.f.src[t.pkg.fset.Position(n.Pos()).Offset:t.pkg.fset.Position(n.End()).Offset]
}
func (t *rpTr) textRange(a, b ast.Node) []byte {
	return t.f.src[t.pkg.fset.Position(a.Pos()).Offset:t.pkg.fset.Position(b.End()).Offset]
}
func (t *rpTr) stmtsToks(l []ast.Stmt) []string {
	if len(l) == 0 {
		return nil
	}
	return spToks(t.textRange(l[0], l[len(l)-1]))
}

// substitute the local package names into a pattern text
func (t *rpTr) pat(text string) []string {
	text = strings.ReplaceAll(text, "PR.", t.pr+".")
	text = strings.ReplaceAll(text, "FMT.", t.fm+".")
	if m := t.f.imports["math"]; m != "" {
		text = strings.ReplaceAll(text, "MATH.", m+".")
	} else {
		text = strings.ReplaceAll(text, "MATH.", "no_math_import.")
	}
	return rpPat(text)
}
func (t *rpTr) match(pattern string, src []string) rpBind {
	b := rpBind{}
	if rpMatch(t.pat(pattern), src, b) {
		return b
	}
	return nil
}
func one(b rpBind, h string) string { return b[h][0] }

// -- names -> indexes
func (t *rpTr) field(name string) int {
	i, ok := t.plain[name]
	if !ok {
		t.fail("x.%s is not a plain field of the message struct", name)
	}
	return i
}
func (t *rpTr) oneof(name string) int {
	o, ok := t.oneofs[name]
	if !ok {
		t.fail("x.%s is not a oneof field of the message struct", name)
	}
	return o
}
func (t *rpTr) wrapper(name string) int {
	j, ok := t.wrappers[name]
	if !ok {
		t.fail("%s is not a oneof wrapper type of this message", name)
	}
	return j
}
func (t *rpTr) payloadOf(j int, name string) {
	if t.payload[j] != name {
		t.fail("the wrapper of field %d has the field %s, not %s", j, t.payload[j], name)
	}
}

// the view type _<T>_<N>_list / _<T>_<N>_map -> index of field number N (which must be a list / map)
func (t *rpTr) viewField(name, suffix string) int {
	pre := "_" + t.tname + "_"
	if !strings.HasPrefix(name, pre) || !strings.HasSuffix(name, "_"+suffix) {
		t.fail("%s is not a %s view type of %s", name, suffix, t.tname)
	}
	n, err := strconv.Atoi(name[len(pre) : len(name)-len(suffix)-1])
	if err != nil {
		t.fail("%s is not a %s view type of %s", name, suffix, t.tname)
	}
	for i, fi := range t.mi.fields {
		if int(fi.fd.Number()) == n {
			if (suffix == "list") != fi.fd.IsList() || (suffix == "map") != fi.fd.IsMap() {
				t.fail("%s: field %d is not a %s", name, n, suffix)
			}
			return i
		}
	}
	t.fail("%s: no field number %d", name, n)
	return -1
}
func (t *rpTr) sameField(i, j int, what string) {
	if i != j {
		t.fail("%s of field %d used with field %d", what, j, i)
	}
}

// the descriptor variable fd_<T>_<name> -> field index: its only assignment in init() must be <md var of T>.Fields().ByName("<name>")
func (t *rpTr) fdVar(name string) int {
	v := t.pkg.fdVars[name]
	if v == nil || v.n != 1 {
		t.fail("%s is not a descriptor variable assigned exactly once in init()", name)
	}
	if v.md != t.mdVar {
		t.fail("%s is a field of %s, not of %s", name, v.md, t.mdVar)
	}
	return t.protoName(v.name)
}
func (t *rpTr) protoName(n string) int {
	fd := t.mi.md.Fields().ByName(protoreflect.Name(n))
	if fd == nil {
		t.fail("the message has no field named %s", n)
	}
	return fd.Index()
}

// a type expression -> (package path, name)
func (t *rpTr) namedType(toks []string) (string, string) {
	e, err := parser.ParseExpr(strings.Join(toks, " "))
	if err != nil {
		t.fail("%s is not a type", strings.Join(toks, " "))
	}
	switch v := e.(type) {
	case *ast.Ident:
		return t.mi.goType.PkgPath(), v.Name
	case *ast.SelectorExpr:
		if id, ok := v.X.(*ast.Ident); ok {
			for path, local := range t.f.imports {
				if local == id.Name {
					return path, v.Sel.Name
				}
			}
		}
	}
	t.fail("%s is not a (qualified) type name", strings.Join(toks, " "))
	return "", ""
}
func (t *rpTr) msgType(toks []string) int {
	pp, name := t.namedType(toks)
	for _, m := range t.si.msgs {
		if m.goType.PkgPath() == pp && m.goType.Name() == name {
			return m.idx
		}
	}
	t.fail("%s is not a message type of the schema", strings.Join(toks, " "))
	return -1
}

// a type expression denotes the Go type rt
func (t *rpTr) typeIs(e ast.Expr, rt reflect.Type) bool {
	switch v := e.(type) {
	case *ast.StarExpr:
		return rt.Kind() == reflect.Ptr && t.typeIs(v.X, rt.Elem())
	case *ast.ArrayType:
		return v.Len == nil && rt.Kind() == reflect.Slice && t.typeIs(v.Elt, rt.Elem())
	case *ast.MapType:
		return rt.Kind() == reflect.Map && t.typeIs(v.Key, rt.Key()) && t.typeIs(v.Value, rt.Elem())
	case *ast.Ident:
		if rt.PkgPath() == "" {
			return rt.Name() == v.Name || (v.Name == "byte" && rt.Kind() == reflect.Uint8 && rt.Name() == "uint8")
		}
		return rt.PkgPath() == t.mi.goType.PkgPath() && rt.Name() == v.Name
	case *ast.SelectorExpr:
		id, ok := v.X.(*ast.Ident)
		return ok && rt.PkgPath() != "" && t.f.imports[rt.PkgPath()] == id.Name && rt.Name() == v.Sel.Name
	}
	return false
}
func (t *rpTr) typeToksAre(toks []string, rt reflect.Type, what string) {
	e, err := parser.ParseExpr(strings.Join(toks, " "))
	if err != nil || !t.typeIs(e, rt) {
		t.fail("%s: the type %s is not %s", what, strings.Join(toks, " "), rt)
	}
}
func (t *rpTr) fieldGoType(i int) reflect.Type {
	fi := t.mi.fields[i]
	if fi.oneofIdx >= 0 {
		return fi.wrapper.Elem().Field(0).Type
	}
	return t.mi.goType.Field(fi.sf).Type
}

var rpZeros = map[string]string{"0": "num", "false": "false", "int32 ( 0 )": "i32", "uint32 ( 0 )": "u32", "int64 ( 0 )": "i64",
	"uint64 ( 0 )": "u64", "float32 ( 0 )": "f32", "float64 ( 0 )": "f64", `""`: "str", "nil": "nil"}

func (t *rpTr) zero(toks []string) string {
	z, ok := rpZeros[strings.Join(toks, " ")]
	if !ok {
		t.fail("%s is not a zero literal the templates print", strings.Join(toks, " "))
	}
	return z
}

var rpCtors = map[string]bool{"Bool": true, "Enum": true, "Int32": true, "Uint32": true, "Int64": true, "Uint64": true, "Float32": true,
	"Float64": true, "String": true, "Bytes": true, "Message": true}

func (t *rpTr) ctor(name string) string {
	c := strings.TrimPrefix(name, "ValueOf")
	if !strings.HasPrefix(name, "ValueOf") || !rpCtors[c] {
		t.fail("protoreflect.%s is not a scalar / message Value constructor", name)
	}
	return c
}

// -- boolean expressions (Has, the guards of Range)
func (t *rpTr) bexpr(src []string) string {
	if b := t.match("len(x.HOLE_F) != 0", src); b != nil {
		return fmt.Sprintf("(len %d)", t.field(one(b, "HOLE_F")))
	}
	if b := t.match("x.HOLE_F != HOLES_Z || MATH.Signbit(float64(x.HOLE_F))", src); b != nil {
		return fmt.Sprintf("(nesign32 %d %s)", t.field(one(b, "HOLE_F")), t.zero(b["HOLES_Z"]))
	}
	if b := t.match("x.HOLE_F != HOLES_Z || MATH.Signbit(x.HOLE_F)", src); b != nil {
		return fmt.Sprintf("(nesign64 %d %s)", t.field(one(b, "HOLE_F")), t.zero(b["HOLES_Z"]))
	}
	if b := t.match("x.HOLE_F != HOLES_Z", src); b != nil {
		return fmt.Sprintf("(ne %d %s)", t.field(one(b, "HOLE_F")), t.zero(b["HOLES_Z"]))
	}
	t.fail("boolean expression `%s` is not one of the template's forms", strings.Join(src, " "))
	return ""
}

func (t *rpTr) hasBody(src []string) string {
	if b := t.match("if x.HOLE_O == nil { return false } else if _, ok := x.HOLE_O.(*HOLE_W); ok { return true } else { return false }", src); b != nil {
		return fmt.Sprintf("(oneof %d %d)", t.oneof(one(b, "HOLE_O")), t.wrapper(one(b, "HOLE_W")))
	}
	if len(src) > 1 && src[0] == "return" {
		return "(ret " + t.bexpr(src[1:]) + ")"
	}
	t.fail("Has case body is not one of the template's forms")
	return ""
}

func (t *rpTr) clearBody(src []string) string {
	if b := t.match("if _, ok := x.HOLE_O.(*HOLE_W); ok { x.HOLE_O = nil }", src); b != nil {
		return fmt.Sprintf("(oneof %d %d)", t.oneof(one(b, "HOLE_O")), t.wrapper(one(b, "HOLE_W")))
	}
	if b := t.match("x.HOLE_F = HOLES_Z", src); b != nil {
		return fmt.Sprintf("(assign %d %s)", t.field(one(b, "HOLE_F")), t.zero(b["HOLES_Z"]))
	}
	t.fail("Clear case body is not one of the template's forms")
	return ""
}

// what a branch of the oneof getter returns; j: the member whose wrapper is bound to v
func (t *rpTr) oneval(src []string, j int) string {
	if b := t.match("PR.ValueOfMessage((*HOLES_T)(nil).ProtoReflect())", src); b != nil {
		return fmt.Sprintf("(nilmsg %d)", t.msgType(b["HOLES_T"]))
	}
	if b := t.match("PR.ValueOfMessage(v.HOLE_P.ProtoReflect())", src); b != nil {
		t.payloadOf(j, one(b, "HOLE_P"))
		return "paymsg"
	}
	if b := t.match("PR.ValueOfEnum((PR.EnumNumber)(v.HOLE_P))", src); b != nil {
		t.payloadOf(j, one(b, "HOLE_P"))
		return "payenum"
	}
	if b := t.match("PR.HOLE_C(v.HOLE_P)", src); b != nil {
		t.payloadOf(j, one(b, "HOLE_P"))
		return "(pay " + t.ctor(one(b, "HOLE_C")) + ")"
	}
	if b := t.match("PR.HOLE_C(HOLES_Z)", src); b != nil {
		return "(zero " + t.ctor(one(b, "HOLE_C")) + " " + t.zero(b["HOLES_Z"]) + ")"
	}
	t.fail("`return %s` in a oneof getter is not one of the template's forms", strings.Join(src, " "))
	return ""
}

func (t *rpTr) getBody(src []string) string {
	if b := t.match("if x.HOLE_O == nil { return HOLES_A } else if v, ok := x.HOLE_O.(*HOLE_W); ok { return HOLES_B } else { return HOLES_C }", src); b != nil {
		j := t.wrapper(one(b, "HOLE_W"))
		return fmt.Sprintf("(oneof %d %d %s %s %s)", t.oneof(one(b, "HOLE_O")), j, t.oneval(b["HOLES_A"], j), t.oneval(b["HOLES_B"], j), t.oneval(b["HOLES_C"], j))
	}
	if b := t.match("if len(x.HOLE_F) == 0 { return PR.ValueOfList(&HOLE_L{}) }; listValue := &HOLE_L{list: &x.HOLE_F}; return PR.ValueOfList(listValue)", src); b != nil {
		i := t.field(one(b, "HOLE_F"))
		t.sameField(i, t.viewField(one(b, "HOLE_L"), "list"), "the list view type")
		return fmt.Sprintf("(list %d)", i)
	}
	if b := t.match("if len(x.HOLE_F) == 0 { return PR.ValueOfMap(&HOLE_L{}) }; mapValue := &HOLE_L{m: &x.HOLE_F}; return PR.ValueOfMap(mapValue)", src); b != nil {
		i := t.field(one(b, "HOLE_F"))
		t.sameField(i, t.viewField(one(b, "HOLE_L"), "map"), "the map view type")
		return fmt.Sprintf("(map %d)", i)
	}
	if b := t.match("value := x.HOLE_F; return PR.ValueOfMessage(value.ProtoReflect())", src); b != nil {
		return fmt.Sprintf("(msg %d)", t.field(one(b, "HOLE_F")))
	}
	if b := t.match("value := x.HOLE_F; return PR.ValueOfEnum((PR.EnumNumber)(value))", src); b != nil {
		return fmt.Sprintf("(enum %d)", t.field(one(b, "HOLE_F")))
	}
	if b := t.match("value := x.HOLE_F; return PR.HOLE_C(value)", src); b != nil {
		return fmt.Sprintf("(scalar %d %s)", t.field(one(b, "HOLE_F")), t.ctor(one(b, "HOLE_C")))
	}
	t.fail("Get case body is not one of the template's forms")
	return ""
}

// the conversion applied to `value`; i: the field whose Go type an enum conversion must name
func (t *rpTr) conv(src []string, i int) string {
	fixed := []struct{ pat, out string }{
		{"value.Bool()", "bool"}, {"int32(value.Int())", "int32"}, {"uint32(value.Uint())", "uint32"}, {"value.Int()", "int64"},
		{"value.Uint()", "uint64"}, {"float32(value.Float())", "float32"}, {"value.Float()", "float64"},
		{"value.Interface().(string)", "string"}, {"value.Bytes()", "bytes"},
	}
	for _, f := range fixed {
		if t.match(f.pat, src) != nil {
			return f.out
		}
	}
	if b := t.match("(HOLES_E)(value.Enum())", src); b != nil {
		t.typeToksAre(b["HOLES_E"], t.fieldGoType(i), "the enum conversion")
		return "enum"
	}
	if b := t.match("value.Message().Interface().(*HOLES_T)", src); b != nil {
		return fmt.Sprintf("(msg %d)", t.msgType(b["HOLES_T"]))
	}
	t.fail("`%s` is not one of the template's conversions of value", strings.Join(src, " "))
	return ""
}

func (t *rpTr) setBody(src []string, label string) string {
	if b := t.match("if !value.Message().IsValid() { panic(FMT.Errorf(HOLE_S)) }; x.HOLE_F = value.Message().Interface().(*HOLES_T)", src); b != nil {
		if one(b, "HOLE_S") != strconv.Quote("field "+label+": cannot set an invalid (empty, read-only) message") {
			t.fail("the panic message of the validity guard is not the template's")
		}
		return fmt.Sprintf("(msg %d %d)", t.field(one(b, "HOLE_F")), t.msgType(b["HOLES_T"]))
	}
	if b := t.match("lv := value.List(); clv := lv.(*HOLE_L); x.HOLE_F = *clv.list", src); b != nil {
		i := t.field(one(b, "HOLE_F"))
		t.sameField(i, t.viewField(one(b, "HOLE_L"), "list"), "the list view type")
		return fmt.Sprintf("(list %d)", i)
	}
	if b := t.match("mv := value.Map(); cmv := mv.(*HOLE_L); x.HOLE_F = *cmv.m", src); b != nil {
		i := t.field(one(b, "HOLE_F"))
		t.sameField(i, t.viewField(one(b, "HOLE_L"), "map"), "the map view type")
		return fmt.Sprintf("(map %d)", i)
	}
	if b := t.match("cv := HOLES_V; x.HOLE_O = &HOLE_W{HOLE_P: cv}", src); b != nil {
		j := t.wrapper(one(b, "HOLE_W"))
		t.payloadOf(j, one(b, "HOLE_P"))
		return fmt.Sprintf("(oneof %d %d %s)", t.oneof(one(b, "HOLE_O")), j, t.conv(b["HOLES_V"], j))
	}
	if b := t.match("x.HOLE_F = HOLES_V", src); b != nil {
		i := t.field(one(b, "HOLE_F"))
		return fmt.Sprintf("(assign %d %s)", i, t.conv(b["HOLES_V"], i))
	}
	t.fail("Set case body is not one of the template's forms")
	return ""
}

func (t *rpTr) mutBody(src []string, fieldName string) string {
	if b := t.match("panic(FMT.Errorf(HOLE_S))", src); b != nil {
		if one(b, "HOLE_S") != strconv.Quote("field "+fieldName+" of message "+string(t.mi.md.FullName())+" is not mutable") {
			t.fail("the panic message is not the template's")
		}
		return "panic"
	}
	if b := t.match("if x.HOLE_F == nil { x.HOLE_F = new(HOLES_T) }; return PR.ValueOfMessage(x.HOLE_F.ProtoReflect())", src); b != nil {
		return fmt.Sprintf("(msg %d %d)", t.field(one(b, "HOLE_F")), t.msgType(b["HOLES_T"]))
	}
	if b := t.match("if x.HOLE_F == nil { x.HOLE_F = make(HOLES_T) }; value := &HOLE_L{m: &x.HOLE_F}; return PR.ValueOfMap(value)", src); b != nil {
		i := t.field(one(b, "HOLE_F"))
		t.sameField(i, t.viewField(one(b, "HOLE_L"), "map"), "the map view type")
		t.typeToksAre(b["HOLES_T"], t.fieldGoType(i), "make")
		return fmt.Sprintf("(map %d)", i)
	}
	if b := t.match("if x.HOLE_F == nil { x.HOLE_F = HOLES_T{} }; value := &HOLE_L{list: &x.HOLE_F}; return PR.ValueOfList(value)", src); b != nil {
		i := t.field(one(b, "HOLE_F"))
		t.sameField(i, t.viewField(one(b, "HOLE_L"), "list"), "the list view type")
		t.typeToksAre(b["HOLES_T"], t.fieldGoType(i), "the empty slice literal")
		return fmt.Sprintf("(list %d)", i)
	}
	fresh := "value := &HOLES_T{}; oneofValue := &HOLE_W{HOLE_P: value}; x.HOLE_O = oneofValue; return PR.ValueOfMessage(value.ProtoReflect())"
	if b := t.match("if x.HOLE_O == nil { "+fresh+" }\n switch m := x.HOLE_O.(type) {\n case *HOLE_W:\n if m.HOLE_P == nil { m.HOLE_P = new(HOLES_T) }\n return PR.ValueOfMessage(m.HOLE_P.ProtoReflect())\n default:\n "+fresh+"\n }", src); b != nil {
		j := t.wrapper(one(b, "HOLE_W"))
		t.payloadOf(j, one(b, "HOLE_P"))
		return fmt.Sprintf("(oneof %d %d %d)", t.oneof(one(b, "HOLE_O")), j, t.msgType(b["HOLES_T"]))
	}
	t.fail("Mutable case body is not one of the template's forms")
	return ""
}

func (t *rpTr) newfBody(src []string) string {
	if b := t.match("m := new(HOLES_T); return PR.ValueOfMessage(m.ProtoReflect())", src); b != nil {
		return fmt.Sprintf("(msg %d)", t.msgType(b["HOLES_T"]))
	}
	if b := t.match("value := &HOLES_T{}; return PR.ValueOfMessage(value.ProtoReflect())", src); b != nil {
		return fmt.Sprintf("(oneofmsg %d)", t.msgType(b["HOLES_T"]))
	}
	if b := t.match("m := make(HOLES_T); return PR.ValueOfMap(&HOLE_L{m: &m})", src); b != nil {
		i := t.viewField(one(b, "HOLE_L"), "map")
		t.typeToksAre(b["HOLES_T"], t.fieldGoType(i), "make")
		return fmt.Sprintf("(map %d)", i)
	}
	if b := t.match("list := HOLES_T{}; return PR.ValueOfList(&HOLE_L{list: &list})", src); b != nil {
		i := t.viewField(one(b, "HOLE_L"), "list")
		t.typeToksAre(b["HOLES_T"], t.fieldGoType(i), "the empty slice literal")
		return fmt.Sprintf("(list %d)", i)
	}
	if b := t.match("return PR.HOLE_C(HOLES_Z)", src); b != nil {
		return "(scalar " + t.ctor(one(b, "HOLE_C")) + " " + t.zero(b["HOLES_Z"]) + ")"
	}
	t.fail("NewField case body is not one of the template's forms")
	return ""
}

// the oneof of a type switch guard  [<v> :=] x.<O>.(type)
func (t *rpTr) switchOneof(ts *ast.TypeSwitchStmt, bind string) int {
	t.at = ts
	want := "x.HOLE_O.(type)"
	if bind != "" {
		want = bind + " := " + want
	}
	b := t.match(want, spToks(t.text(ts.Assign)))
	if ts.Init != nil || b == nil {
		t.fail("type switch guard is not `%s`", want)
	}
	return t.oneof(one(b, "HOLE_O"))
}
func (t *rpTr) clauseWrapper(cc *ast.CaseClause) int {
	t.at = cc
	if len(cc.List) != 1 {
		t.fail("case clause with %d types (a default clause has 0)", len(cc.List))
	}
	b := t.match("*HOLE_W", spToks(t.text(cc.List[0])))
	if b == nil {
		t.fail("case type is not *<Wrapper>")
	}
	return t.wrapper(one(b, "HOLE_W"))
}

func (t *rpTr) whichBody(body []ast.Stmt) string {
	if len(body) != 2 {
		t.fail("WhichOneof case has %d statements", len(body))
	}
	b := t.match("if x.HOLE_O == nil { return nil }", spToks(t.text(body[0])))
	ts, ok := body[1].(*ast.TypeSwitchStmt)
	if b == nil || !ok {
		t.fail("WhichOneof case is not `if x.O == nil { return nil }; switch x.O.(type) {…}`")
	}
	o := t.oneof(one(b, "HOLE_O"))
	if t.switchOneof(ts, "") != o {
		t.fail("the nil test and the type switch look at different oneofs")
	}
	var sb strings.Builder
	fmt.Fprintf(&sb, "(oneof %d", o)
	for _, c := range ts.Body.List {
		cc := c.(*ast.CaseClause)
		j := t.clauseWrapper(cc)
		rb := t.match("return x.Descriptor().Fields().ByName(HOLE_S)", t.stmtsToks(cc.Body))
		if rb == nil {
			t.fail("case clause is not `return x.Descriptor().Fields().ByName(\"…\")`")
		}
		n, err := strconv.Unquote(one(rb, "HOLE_S"))
		if err != nil {
			t.fail("ByName of something other than a string literal")
		}
		fmt.Fprintf(&sb, " (%d %d)", j, t.protoName(n))
	}
	sb.WriteString(")")
	return sb.String()
}

func (t *rpTr) rangeStmt(s ast.Stmt) string {
	t.at = s
	is, ok := s.(*ast.IfStmt)
	if !ok || is.Init != nil || is.Else != nil {
		t.fail("Range statement is not an if without else")
	}
	// the oneof switch
	if len(is.Body.List) == 1 {
		if ts, ok := is.Body.List[0].(*ast.TypeSwitchStmt); ok {
			b := t.match("x.HOLE_O != nil", spToks(t.text(is.Cond)))
			if b == nil {
				t.fail("the guard of the oneof switch is not `x.O != nil`")
			}
			o := t.oneof(one(b, "HOLE_O"))
			if t.switchOneof(ts, "o") != o {
				t.fail("the nil test and the type switch look at different oneofs")
			}
			var sb strings.Builder
			fmt.Fprintf(&sb, "(oneof %d", o)
			for _, c := range ts.Body.List {
				cc := c.(*ast.CaseClause)
				j := t.clauseWrapper(cc)
				cb := t.match("v := o.HOLE_P; value := HOLES_V; if !f(HOLE_D, value) { return }", t.stmtsToks(cc.Body))
				if cb == nil {
					t.fail("case clause is not `v := o.F; value := …; if !f(fd, value) { return }`")
				}
				t.payloadOf(j, one(cb, "HOLE_P"))
				var form string
				if t.match("PR.ValueOfMessage(v.ProtoReflect())", cb["HOLES_V"]) != nil {
					form = "msg"
				} else if t.match("PR.ValueOfEnum((PR.EnumNumber)(v))", cb["HOLES_V"]) != nil {
					form = "enum"
				} else if vb := t.match("PR.HOLE_C(v)", cb["HOLES_V"]); vb != nil {
					form = "(of " + t.ctor(one(vb, "HOLE_C")) + ")"
				} else {
					t.fail("`value := %s` is not one of the template's forms", strings.Join(cb["HOLES_V"], " "))
				}
				fmt.Fprintf(&sb, " (case %d %s %d)", j, form, t.fdVar(one(cb, "HOLE_D")))
			}
			sb.WriteString(")")
			return sb.String()
		}
	}
	b := t.match("value := HOLES_V; if !f(HOLE_D, value) { return }", t.stmtsToks(is.Body.List))
	if b == nil {
		t.fail("Range statement is not `if … { value := …; if !f(fd, value) { return } }`")
	}
	g := t.bexpr(spToks(t.text(is.Cond)))
	src := b["HOLES_V"]
	var v string
	if vb := t.match("PR.ValueOfList(&HOLE_L{list: &x.HOLE_F})", src); vb != nil {
		i := t.field(one(vb, "HOLE_F"))
		t.sameField(i, t.viewField(one(vb, "HOLE_L"), "list"), "the list view type")
		v = fmt.Sprintf("(list %d)", i)
	} else if vb := t.match("PR.ValueOfMap(&HOLE_L{m: &x.HOLE_F})", src); vb != nil {
		i := t.field(one(vb, "HOLE_F"))
		t.sameField(i, t.viewField(one(vb, "HOLE_L"), "map"), "the map view type")
		v = fmt.Sprintf("(map %d)", i)
	} else if vb := t.match("PR.ValueOfMessage(x.HOLE_F.ProtoReflect())", src); vb != nil {
		v = fmt.Sprintf("(msg %d)", t.field(one(vb, "HOLE_F")))
	} else if vb := t.match("PR.ValueOfEnum((PR.EnumNumber)(x.HOLE_F))", src); vb != nil {
		v = fmt.Sprintf("(enum %d)", t.field(one(vb, "HOLE_F")))
	} else if vb := t.match("PR.HOLE_C(x.HOLE_F)", src); vb != nil {
		v = fmt.Sprintf("(of %s %d)", t.ctor(one(vb, "HOLE_C")), t.field(one(vb, "HOLE_F")))
	} else {
		t.fail("`value := %s` is not one of the template's forms", strings.Join(src, " "))
	}
	return fmt.Sprintf("(field %s %s %d)", g, v, t.fdVar(one(b, "HOLE_D")))
}

// ---- one method ---------------------------------------------------------------------------------------------------------------
type rpMeth struct {
	frame string   // (frame guard tail) / (frame guard)
	items []string // (case n body) … / Range statements
	fail  string
}

func (m *rpMeth) text(method string) string {
	g := strings.TrimSuffix(strings.TrimPrefix(m.frame, "(frame "), ")")
	head := "(meth "
	if method == "Range" {
		head = "(range "
	}
	s := head + g
	for _, it := range m.items {
		s += " " + it
	}
	return s + ")"
}

func (t *rpTr) method(name string) (res *rpMeth) {
	res = &rpMeth{}
	ms := t.pkg.methods[t.tname][name]
	if len(ms) != 1 {
		res.fail = fmt.Sprintf("untranslatable:-:%d declarations of fastReflection_%s.%s", len(ms), t.tname, name)
		return
	}
	m := ms[0]
	t.f = m.f
	t.pr, t.fm = m.f.imports[rpProtoreflectPath], m.f.imports["fmt"]
	t.at = m.decl
	defer func() {
		if e := recover(); e != nil {
			se, ok := e.(spErr)
			if !ok {
				panic(e)
			}
			p := t.pkg.fset.Position(se.pos)
			res = &rpMeth{fail: fmt.Sprintf("untranslatable:%s:%d:%d:%s", filepath.Base(p.Filename), p.Line, p.Column, se.why)}
		}
	}()
	if t.pr == "" {
		t.fail("the file does not import protoreflect")
	}
	recv := "func (x *fastReflection_" + t.tname + ") "
	sig := map[string]string{
		"Has": "Has(fd PR.FieldDescriptor) bool", "Clear": "Clear(fd PR.FieldDescriptor)", "Get": "Get(descriptor PR.FieldDescriptor) PR.Value",
		"Set": "Set(fd PR.FieldDescriptor, value PR.Value)", "Mutable": "Mutable(fd PR.FieldDescriptor) PR.Value",
		"NewField": "NewField(fd PR.FieldDescriptor) PR.Value", "WhichOneof": "WhichOneof(d PR.OneofDescriptor) PR.FieldDescriptor",
		"Range": "Range(f func(PR.FieldDescriptor, PR.Value) bool)",
	}[name]
	head := t.f.src[t.pkg.fset.Position(m.decl.Pos()).Offset:t.pkg.fset.Position(m.decl.Body.Lbrace).Offset]
	if t.match(recv+sig, spToks(head)) == nil {
		t.fail("the signature of %s is not the template's", name)
	}
	body := m.decl.Body.List
	guard := "none"
	nilAlloc := "if x == nil { x = &fastReflection_" + t.tname + "{} }"
	switch name {
	case "Has", "Get", "WhichOneof":
		if len(body) < 1 || t.match(nilAlloc, spToks(t.text(body[0]))) == nil {
			t.fail("%s does not start with `%s`", name, nilAlloc)
		}
		guard, body = "alloc", body[1:]
	case "Range":
		if len(body) < 1 || t.match("if x == nil { return }", spToks(t.text(body[0]))) == nil {
			t.fail("Range does not start with `if x == nil { return }`")
		}
		res.frame = "(frame return)"
		for _, s := range body[1:] {
			res.items = append(res.items, t.rangeStmt(s))
		}
		return
	}
	want := 1
	if name == "WhichOneof" {
		want = 2
	}
	if len(body) != want {
		t.fail("%s has %d statements after the nil guard, %d expected", name, len(body), want)
	}
	sw, ok := body[0].(*ast.SwitchStmt)
	tag := map[string]string{"Get": "descriptor.FullName()", "WhichOneof": "d.FullName()"}[name]
	if tag == "" {
		tag = "fd.FullName()"
	}
	if !ok || sw.Init != nil || sw.Tag == nil || t.match(tag, spToks(t.text(sw.Tag))) == nil {
		t.fail("%s is not a `switch %s`", name, tag)
	}
	full := string(t.mi.md.FullName())
	tail := "field"
	var tailPat string
	if name == "WhichOneof" {
		tail = "oneof"
		tailPat = "panic(FMT.Errorf(" + strconv.Quote("%s is not a oneof field in "+full) + ", d.FullName()))"
		if t.match(`panic("unreachable")`, spToks(t.text(body[1]))) == nil {
			t.fail("WhichOneof does not end in panic(\"unreachable\")")
		}
	} else {
		d := strings.TrimSuffix(tag, ".FullName()")
		tailPat = "if " + d + ".IsExtension() { panic(FMT.Errorf(" + strconv.Quote("proto3 declared messages do not support extensions: "+full) + ")) }\n" +
			"panic(FMT.Errorf(" + strconv.Quote("message "+full+" does not contain field %s") + ", " + d + ".FullName()))"
	}
	res.frame = "(frame " + guard + " " + tail + ")"
	sawDefault := false
	for k, c := range sw.Body.List {
		cc := c.(*ast.CaseClause)
		t.at = cc
		if cc.List == nil {
			if k != len(sw.Body.List)-1 {
				t.fail("the default clause is not the last one")
			}
			if t.fm == "" || t.match(tailPat, t.stmtsToks(cc.Body)) == nil {
				t.fail("the default clause is not the template's")
			}
			sawDefault = true
			continue
		}
		lit, ok := cc.List[0].(*ast.BasicLit)
		if len(cc.List) != 1 || !ok || lit.Kind != token.STRING {
			t.fail("case label is not one string literal")
		}
		label, _ := strconv.Unquote(lit.Value)
		var n int
		if name == "WhichOneof" {
			n, ok = t.oneFull[label]
		} else {
			n, ok = t.byFull[label]
		}
		if !ok {
			t.fail("case label %q is not the full name of a field / oneof of %s", label, full)
		}
		src := t.stmtsToks(cc.Body)
		var b string
		switch name {
		case "Has":
			b = t.hasBody(src)
		case "Clear":
			b = t.clearBody(src)
		case "Get":
			b = t.getBody(src)
		case "Set":
			b = t.setBody(src, label)
		case "Mutable":
			b = t.mutBody(src, string(t.mi.fields[n].fd.Name()))
		case "NewField":
			b = t.newfBody(src)
		case "WhichOneof":
			b = t.whichBody(cc.Body)
		}
		res.items = append(res.items, fmt.Sprintf("(case %d %s)", n, b))
	}
	if !sawDefault {
		t.at = sw
		t.fail("the switch has no default clause")
	}
	return
}

func rpTranslator(si *schemaInfo, mi *msgInfo) (*rpTr, string) {
	pkg := rpPkgOf(mi)
	if pkg.err != nil {
		return nil, "untranslatable:-:" + pkg.err.Error()
	}
	t := &rpTr{pkg: pkg, si: si, mi: mi, tname: mi.goType.Name(), plain: map[string]int{}, oneofs: map[string]int{}, wrappers: map[string]int{},
		payload: map[int]string{}, byFull: map[string]int{}, oneFull: map[string]int{}}
	for i, fi := range mi.fields {
		t.byFull[string(fi.fd.FullName())] = i
		if fi.oneofIdx >= 0 {
			t.oneofs[mi.goType.Field(fi.sf).Name] = fi.oneofIdx
			t.wrappers[fi.wrapper.Elem().Name()] = i
			t.payload[i] = fi.wrapper.Elem().Field(0).Name
		} else {
			t.plain[mi.goType.Field(fi.sf).Name] = i
		}
	}
	for k, od := range realOneofs(mi.md) {
		t.oneFull[string(od.FullName())] = k
	}
	// the variable Descriptor() returns, and the chain of names its init() assignment selects: the message's own path in its file
	ds := pkg.methods[t.tname]["Descriptor"]
	if len(ds) == 1 && len(ds[0].decl.Body.List) == 1 {
		if r, ok := ds[0].decl.Body.List[0].(*ast.ReturnStmt); ok && len(r.Results) == 1 {
			if id, ok := r.Results[0].(*ast.Ident); ok {
				t.mdVar = id.Name
			}
		}
	}
	var path []string
	for d := protoreflect.Descriptor(mi.md); d != nil; d = d.Parent() {
		if _, isFile := d.(protoreflect.FileDescriptor); isFile {
			break
		}
		path = append([]string{string(d.Name())}, path...)
	}
	if t.mdVar == "" || pkg.mdCount[t.mdVar] != 1 || strings.Join(pkg.mdChain[t.mdVar], ".") != strings.Join(path, ".") {
		return nil, fmt.Sprintf("untranslatable:-:Descriptor() of fastReflection_%s does not return a variable assigned once in init() to the message %s of its file", t.tname, strings.Join(path, "."))
	}
	return t, ""
}

// ---- differential run: short histories on structs built from values, for the interpreter on the translated methods ------
type rpRunner struct {
	o  *out
	si *schemaInfo
	g  *rgen
}

func (rr *rpRunner) run(mi *msgInfo, v *V, class string, ops []*rop) {
	s := &rsession{o: rr.o, si: rr.si, mi: mi, F: newImplF(), class: class}
	s.impls = []*rimpl{s.F}
	s.rootF = rr.si.toGo(mi, v)
	s.F.res = []interface{}{s.rootF.Interface().(proto.Message).ProtoReflect()}
	s.hs = []hinfo{{kind: hMsg, mi: mi, valid: true, live: true, root: 0}}
	var toks, raws []string
	for _, op := range ops {
		h, out := s.apply(s.F, op)
		s.F.res = append(s.F.res, h)
		toks = append(toks, op.tok())
		raws = append(raws, s.render(s.F, out, true)+"|"+rr.si.fromGo(mi, s.rootF).String())
		s.track(op, out)
		rr.o.count("runop_" + op.code + "_" + string(out.k))
	}
	rr.o.kase("REFLECTRUN", []string{rr.si.id, strconv.Itoa(mi.idx), v.String(), strings.Join(toks, ";")}, strings.Join(raws, ";"))
	rr.o.count("run_" + class)
	rr.o.nontrivial(rr.si.id + "/" + strconv.Itoa(mi.idx) + "/" + class + "/" + strings.Join(toks, ";"))
}

// the history exercising every method on field f of the root r0 (results are r1, r2, … in order)
func (rr *rpRunner) fieldOps(mi *msgInfo, f int, recv int, base int) []*rop {
	fi := mi.fields[f]
	fd := fi.fd
	op := func(code string) *rop { return &rop{code: code, r: recv, f: f, a: -1} }
	ops := []*rop{op("has"), op("get"), op("newf")} // results base+1, base+2, base+3
	newfRes := base + 3
	switch {
	case fd.IsList() || fd.IsMap():
		ops = append(ops,
			&rop{code: "set", r: recv, f: f, a: base + 2}, // the view Get returned (invalid when the field is empty: panics)
			op("has"), op("mut"), op("get"),
			&rop{code: "set", r: recv, f: f, a: newfRes}, // a fresh empty container
			op("has"), op("get"), op("mut"))
	case isMsgKind(fd):
		cm := rr.si.byName[fd.Message().FullName()]
		ops = append(ops,
			&rop{code: "set", r: recv, f: f, a: newfRes},
			op("has"), op("get"), op("mut"),
			&rop{code: "nil", r: cm.idx, a: -1},                 // base+8
			&rop{code: "set", r: recv, f: f, a: base + 8}, // the invalid message: panics (singular) / stored as a wrapper holding nil (member)
			op("has"), op("get"), op("mut"), op("get"))
	default:
		ops = append(ops,
			&rop{code: "set", r: recv, f: f, a: -1, lit: rr.g.lit(fd, -1)}, op("has"), op("get"),
			&rop{code: "set", r: recv, f: f, a: -1, lit: zeroScalarV(fd)}, op("has"), op("get"), // the zero value
			&rop{code: "set", r: recv, f: f, a: -1, lit: rr.g.nz(fd)}, op("has"), op("mut"))
	}
	ops = append(ops, &rop{code: "range", r: recv, a: -1})
	if fi.oneofIdx >= 0 {
		ops = append(ops, &rop{code: "which", r: recv, f: fi.oneofIdx, a: -1})
		// the other members: Clear of a member that is not set, Has / Get of it
		for _, j := range oneofMembers(mi, f) {
			if j != f {
				ops = append(ops, &rop{code: "clear", r: recv, f: j, a: -1}, &rop{code: "has", r: recv, f: j, a: -1}, &rop{code: "get", r: recv, f: j, a: -1})
			}
		}
		ops = append(ops, &rop{code: "which", r: recv, f: fi.oneofIdx, a: -1})
	}
	ops = append(ops, op("clear"), op("has"), op("get"), &rop{code: "range", r: recv, a: -1})
	if fi.oneofIdx >= 0 {
		ops = append(ops, &rop{code: "which", r: recv, f: fi.oneofIdx, a: -1})
	}
	return ops
}

func (rr *rpRunner) runs(cfg config, mi *msgInfo, r *rng) {
	vg := &vgen{r: r, si: rr.si, nilElems: true}
	nvals := 3
	if cfg.thorough() {
		nvals = 12
	}
	vals := []*V{rr.si.emptyV(mi)}
	for k := 0; k < nvals; k++ {
		v := vg.msg(mi, 2, 2+r.intn(7))
		fixLits(rr.si, mi, v)
		vals = append(vals, v)
	}
	for vi, v := range vals {
		class := "populated"
		if vi == 0 {
			class = "empty"
		}
		// every field on the struct itself
		for f := range mi.fields {
			if vi >= 2 && !cfg.thorough() && len(mi.fields) > 8 && r.intn(3) != 0 {
				continue
			}
			rr.run(mi, v, class, rr.fieldOps(mi, f, 0, 0))
		}
		// whole-message reads, Range stopped at every position
		ops := []*rop{{code: "range", r: 0, a: -1}}
		for k := 1; k <= len(mi.fields)+1 && k <= 12; k++ {
			ops = append(ops, &rop{code: "rstop", r: 0, a: -1, n: int64(k)})
		}
		for j := 0; j < nOneofs(mi); j++ {
			ops = append(ops, &rop{code: "which", r: 0, f: j, a: -1})
		}
		rr.run(mi, v, class+"_whole", ops)
	}
	// the nil receiver (typed nil pointer): reads see the empty message, writes panic, NewField works
	var ops []*rop
	ops = append(ops, &rop{code: "nil", r: mi.idx, a: -1}, &rop{code: "range", r: 1, a: -1})
	for j := 0; j < nOneofs(mi); j++ {
		ops = append(ops, &rop{code: "which", r: 1, f: j, a: -1})
	}
	for f, fi := range mi.fields {
		for _, code := range []string{"has", "get", "clear", "mut", "newf"} {
			ops = append(ops, &rop{code: code, r: 1, f: f, a: -1})
		}
		if !fi.fd.IsList() && !fi.fd.IsMap() && !isMsgKind(fi.fd) {
			ops = append(ops, &rop{code: "set", r: 1, f: f, a: -1, lit: rr.g.nz(fi.fd)})
		}
	}
	rr.run(mi, rr.si.emptyV(mi), "nil_receiver", ops)
}

func engineReflectProg(cfg config, o *out) {
	schemas := loadSchemasProg()
	cc := newClassCov("reflectprog")
	defer cc.emit(o)
	for _, si := range schemas {
		o.raw("SCHEMA\t" + si.id + "\t=\t" + si.sexp())
		r := newRng(cfg.seed, "reflectprog/"+si.id)
		for _, mi := range si.roots() {
			args := []string{si.id, fmt.Sprint(mi.idx)}
			t, failure := rpTranslator(si, mi)
			all := true
			for _, name := range rpMethods {
				margs := append(append([]string{}, args...), name)
				var m *rpMeth
				if failure != "" {
					m = &rpMeth{fail: failure}
				} else {
					m = t.method(name)
				}
				if m.fail != "" {
					o.kase("REFLECTPROG", append(margs, "len"), m.fail)
					o.count("untranslatable")
					o.count("untranslatable_" + name)
					all = false
					continue
				}
				for k, it := range m.items {
					o.kase("REFLECTPROG", append(margs, strconv.Itoa(k)), it)
				}
				o.kase("REFLECTPROG", append(margs, "len"), strconv.Itoa(len(m.items)))
				o.kase("REFLECTPROG", append(margs, "frame"), m.frame)
				text := m.text(name)
				o.kase("@REFLECTDEF", append(margs, text), "ok")
				o.kase("REFLECTPROG", append(margs, "eqb"), "same")
				o.count("translated")
				o.count("translated_" + name)
				o.hist["cases_"+name] += len(m.items)
				o.nontrivial("prog/" + name + "/" + text)
			}
			if all {
				o.kase("REFLECTPROG", append(append([]string{}, args...), "all", "eqb"), "same")
				o.count("types_fully_translated")
				cc.message(si, mi)
			}
		}
		// the interpreter on the translated methods against the running code
		rr := &rpRunner{o: o, si: si, g: &rgen{r: r, vg: &vgen{r: r, si: si}}}
		for _, mi := range si.roots() {
			rr.runs(cfg, mi, r)
		}
	}
}
