package main

// reflect engine, part 3: history generators (exhaustive, scripted, random) and the engine entry point.

import (
	"strconv"

	"google.golang.org/protobuf/reflect/protoreflect"
)

type rgen struct {
	r  *rng
	vg *vgen
}

func isMsgKind(fd protoreflect.FieldDescriptor) bool {
	return fd.Kind() == protoreflect.MessageKind || fd.Kind() == protoreflect.GroupKind
}

// a literal that every implementation can hold exactly: valid UTF-8, no float32 signalling NaN
// (protoreflect.Value carries a float32 as float64: the conversion quiets it)
func (g *rgen) lit(fd protoreflect.FieldDescriptor, i int) *V {
	var v *V
	if i >= 0 {
		v = g.vg.scalarAt(fd, i)
	} else {
		v = g.vg.scalar(fd)
	}
	if fd.Kind() == protoreflect.FloatKind && v.K == 'x' {
		u := uint32(v.U)
		if u&0x7f800000 == 0x7f800000 && u&0x007fffff != 0 {
			v = vBits(uint64(u | 0x00400000))
		}
	}
	return v
}

// a non-zero literal
func (g *rgen) nz(fd protoreflect.FieldDescriptor) *V {
	return g.lit(fd, 1)
}

func classOf(fi fieldInfo) string {
	fd := fi.fd
	sh := "s"
	switch {
	case fd.IsMap():
		sh = "m"
		fd = fd.MapValue()
	case fd.IsList():
		sh = "l"
	case fi.oneofIdx >= 0:
		sh = "o"
	}
	ty := "i"
	switch fd.Kind() {
	case protoreflect.MessageKind, protoreflect.GroupKind:
		ty = "M"
	case protoreflect.FloatKind, protoreflect.DoubleKind:
		ty = "x"
	case protoreflect.StringKind:
		ty = "s"
	case protoreflect.BytesKind:
		ty = "b"
	case protoreflect.BoolKind:
		ty = "t"
	case protoreflect.EnumKind:
		ty = "e"
	}
	return sh + ty
}

// selectFields picks at most max fields covering as many (shape, type class) pairs as possible
func selectFields(mi *msgInfo, max int) []int {
	if len(mi.fields) <= max {
		out := make([]int, len(mi.fields))
		for i := range out {
			out[i] = i
		}
		return out
	}
	seen := map[string]bool{}
	var out []int
	taken := map[int]bool{}
	for i, fi := range mi.fields {
		c := classOf(fi)
		if !seen[c] && len(out) < max {
			seen[c] = true
			taken[i] = true
			out = append(out, i)
		}
	}
	// a second member of some oneof, so that member-vs-member sequences exist
	for i, fi := range mi.fields {
		if len(out) >= max {
			break
		}
		if fi.oneofIdx >= 0 && !taken[i] {
			for _, j := range out {
				if mi.fields[j].oneofIdx == fi.oneofIdx {
					taken[i] = true
					out = append(out, i)
					break
				}
			}
			if taken[i] {
				break
			}
		}
	}
	for i := range mi.fields {
		if len(out) >= max {
			break
		}
		if !taken[i] {
			taken[i] = true
			out = append(out, i)
		}
	}
	return out
}

func nOneofs(mi *msgInfo) int { return len(realOneofs(mi.md)) }

var sampleUnk = []byte{0xf8, 0xff, 0x03, 0x05} // field 8191, varint 5

func unkFor(mi *msgInfo) []byte {
	if mi.md.Fields().ByNumber(8191) == nil {
		return sampleUnk
	}
	return []byte{0xf0, 0xff, 0x03, 0x05} // field 8190
}

// msgOps: the alphabet of operations with message handle k as receiver, over the given fields
func (g *rgen) msgOps(s *rsession, k int, fields []int, full bool) []*rop {
	h := s.hs[k]
	var ops []*rop
	for _, f := range fields {
		fi := h.mi.fields[f]
		fd := fi.fd
		ops = append(ops, &rop{code: "has", r: k, f: f, a: -1}, &rop{code: "get", r: k, f: f, a: -1}, &rop{code: "clear", r: k, f: f, a: -1})
		scalar := !fd.IsMap() && !fd.IsList() && !isMsgKind(fd)
		if scalar {
			ops = append(ops, &rop{code: "set", r: k, f: f, a: -1, lit: g.nz(fd)}, &rop{code: "set", r: k, f: f, a: -1, lit: g.lit(fd, 0)})
			if full {
				ops = append(ops, &rop{code: "mut", r: k, f: f, a: -1}, &rop{code: "newf", r: k, f: f, a: -1})
			}
		} else {
			ops = append(ops, &rop{code: "mut", r: k, f: f, a: -1}, &rop{code: "newf", r: k, f: f, a: -1})
		}
	}
	for j := 0; j < nOneofs(h.mi); j++ {
		if full || j == 0 {
			ops = append(ops, &rop{code: "which", r: k, f: j, a: -1})
		}
	}
	ops = append(ops, &rop{code: "range", r: k, a: -1}, &rop{code: "rstop", r: k, a: -1, n: 1}, &rop{code: "rstop", r: k, a: -1, n: 2}, &rop{code: "rstop", r: k, a: -1, n: 3}, &rop{code: "getunk", r: k, a: -1},
		&rop{code: "setunk", r: k, a: -1, unk: unkFor(h.mi)}, &rop{code: "valid", r: k, a: -1})
	if full {
		ops = append(ops, &rop{code: "setunk", r: k, a: -1, unk: nil})
	}
	return ops
}

// handleOps: operations on the handle produced by step k (a message other than the root, a list, a map)
// plus its use as an argument of Set on handle `on` (when it is a fresh allocation of a fitting type).
func (g *rgen) handleOps(s *rsession, k int, on int) []*rop {
	h := s.hs[k]
	var ops []*rop
	if h.kind == hNone || !h.live {
		return nil
	}
	switch h.kind {
	case hMsg:
		if h.mi.pulsar {
			ops = append(ops, g.msgOps(s, k, selectFields(h.mi, 3), false)...)
		}
		// as an argument: every field of the receiver type that holds this message type
		tgt := s.hs[on]
		for f, fi := range tgt.mi.fields {
			if !fi.fd.IsMap() && !fi.fd.IsList() && isMsgKind(fi.fd) && s.si.byName[fi.fd.Message().FullName()] == h.mi && (h.fresh || !h.valid) && h.root != tgt.root {
				ops = append(ops, &rop{code: "set", r: on, f: f, a: k})
				if len(ops) > 40 {
					break
				}
			}
		}
	case hList:
		fd := h.fd()
		ops = append(ops, &rop{code: "llen", r: k, a: -1}, &rop{code: "lget", r: k, n: 0, a: -1}, &rop{code: "lget", r: k, n: 1, a: -1}, &rop{code: "lget", r: k, n: -1, a: -1},
			&rop{code: "ltrunc", r: k, n: 0, a: -1}, &rop{code: "lnew", r: k, a: -1}, &rop{code: "lvalid", r: k, a: -1}, &rop{code: "lappm", r: k, a: -1})
		if !isMsgKind(fd) {
			ops = append(ops, &rop{code: "lapp", r: k, a: -1, lit: g.nz(fd)}, &rop{code: "lapp", r: k, a: -1, lit: g.lit(fd, 0)}, &rop{code: "lset", r: k, n: 0, a: -1, lit: g.nz(fd)})
		}
		if (h.fresh || !h.valid) && s.hs[on].mi == h.mi {
			ops = append(ops, &rop{code: "set", r: on, f: h.fidx, a: k})
		}
	case hMap:
		fd := h.fd()
		key := g.nz(fd.MapKey())
		ops = append(ops, &rop{code: "mlen", r: k, a: -1}, &rop{code: "mhas", r: k, key: key, a: -1}, &rop{code: "mget", r: k, key: key, a: -1},
			&rop{code: "mclear", r: k, key: key, a: -1}, &rop{code: "mmut", r: k, key: key, a: -1}, &rop{code: "mnewv", r: k, a: -1},
			&rop{code: "mrange", r: k, a: -1}, &rop{code: "mrstop", r: k, a: -1, n: 1}, &rop{code: "mrstop", r: k, a: -1, n: 2}, &rop{code: "mvalid", r: k, a: -1})
		if !isMsgKind(fd.MapValue()) {
			ops = append(ops, &rop{code: "mset", r: k, key: key, a: -1, lit: g.nz(fd.MapValue())}, &rop{code: "mset", r: k, key: g.lit(fd.MapKey(), 0), a: -1, lit: g.lit(fd.MapValue(), 0)})
		}
		if (h.fresh || !h.valid) && s.hs[on].mi == h.mi {
			ops = append(ops, &rop{code: "set", r: on, f: h.fidx, a: k})
		}
	}
	return ops
}

func cloneOp(op *rop) *rop { c := *op; return &c }

// exhaustive: every history new;op1 and new;op1;op2 (and, with depth 3, new;op1;op2;op3) where op_i ranges
// over the root alphabet and the operations on the handles produced so far
func (g *rgen) exhaustive(o *out, si *schemaInfo, mi *msgInfo, maxFields, depth int) {
	fields := selectFields(mi, maxFields)
	var rec func(prefix []*rop, d int)
	rec = func(prefix []*rop, d int) {
		s := newSession(o, si, mi, "exhaustive")
		for _, op := range prefix {
			if !s.do(cloneOp(op)) {
				s.finish()
				return
			}
		}
		if d == 0 {
			s.finish()
			return
		}
		alpha := g.msgOps(s, 0, fields, true)
		for k := 1; k < len(s.hs); k++ {
			alpha = append(alpha, g.handleOps(s, k, 0)...)
		}
		if len(prefix) > 0 {
			s.finish() // the prefix itself is a history
		}
		for _, op := range alpha {
			rec(append(append([]*rop{}, prefix...), op), d-1)
		}
	}
	rec(nil, depth)
}

// ---- scripted sequences: the patterns the task names, for every field they apply to --------------------
type script struct {
	s *rsession
	g *rgen
}

func (c *script) op(op *rop) int {
	if !c.s.do(op) {
		return -1
	}
	return len(c.s.hs) - 1
}

// run executes steps until the history ends; each step gets the script and returns false to stop
func (g *rgen) scripted(o *out, si *schemaInfo, mi *msgInfo, class string, body func(c *script)) {
	s := newSession(o, si, mi, class)
	c := &script{s: s, g: g}
	func() {
		defer func() {
			if e := recover(); e != nil {
				if e != errStop {
					panic(e)
				}
			}
		}()
		body(c)
	}()
	s.finish()
}

var errStop = &struct{ x int }{1}

func (c *script) must(k int) int {
	if k < 0 {
		panic(errStop)
	}
	return k
}
func (c *script) has(r, f int) int   { return c.must(c.op(&rop{code: "has", r: r, f: f, a: -1})) }
func (c *script) get(r, f int) int   { return c.must(c.op(&rop{code: "get", r: r, f: f, a: -1})) }
func (c *script) clear(r, f int) int { return c.must(c.op(&rop{code: "clear", r: r, f: f, a: -1})) }
func (c *script) mut(r, f int) int   { return c.must(c.op(&rop{code: "mut", r: r, f: f, a: -1})) }
func (c *script) newf(r, f int) int  { return c.must(c.op(&rop{code: "newf", r: r, f: f, a: -1})) }
func (c *script) which(r, j int) int { return c.must(c.op(&rop{code: "which", r: r, f: j, a: -1})) }
func (c *script) rng(r int) int      { return c.must(c.op(&rop{code: "range", r: r, a: -1})) }
func (c *script) valid(r int) int    { return c.must(c.op(&rop{code: "valid", r: r, a: -1})) }
func (c *script) setL(r, f int, v *V) int {
	return c.must(c.op(&rop{code: "set", r: r, f: f, a: -1, lit: v}))
}
func (c *script) setH(r, f, a int) int { return c.must(c.op(&rop{code: "set", r: r, f: f, a: a})) }
func (c *script) simple(code string, r int) int {
	return c.must(c.op(&rop{code: code, r: r, a: -1}))
}
func (c *script) lidx(code string, r int, n int64) int {
	return c.must(c.op(&rop{code: code, r: r, n: n, a: -1}))
}
func (c *script) lappL(r int, v *V) int { return c.must(c.op(&rop{code: "lapp", r: r, a: -1, lit: v})) }
func (c *script) lappH(r, a int) int    { return c.must(c.op(&rop{code: "lapp", r: r, a: a})) }
func (c *script) lsetL(r int, n int64, v *V) int {
	return c.must(c.op(&rop{code: "lset", r: r, n: n, a: -1, lit: v}))
}
func (c *script) lsetH(r int, n int64, a int) int {
	return c.must(c.op(&rop{code: "lset", r: r, n: n, a: a}))
}
func (c *script) mkey(code string, r int, k *V) int {
	return c.must(c.op(&rop{code: code, r: r, key: k, a: -1}))
}
func (c *script) msetL(r int, k, v *V) int {
	return c.must(c.op(&rop{code: "mset", r: r, key: k, a: -1, lit: v}))
}
func (c *script) msetH(r int, k *V, a int) int {
	return c.must(c.op(&rop{code: "mset", r: r, key: k, a: a}))
}
func (c *script) setunk(r int, b []byte) int {
	return c.must(c.op(&rop{code: "setunk", r: r, a: -1, unk: b}))
}

// first scalar (singular, non-oneof) field of a message type, -1 if none
func firstScalar(mi *msgInfo) int {
	for i, fi := range mi.fields {
		if !fi.fd.IsMap() && !fi.fd.IsList() && !isMsgKind(fi.fd) && fi.oneofIdx < 0 {
			return i
		}
	}
	for i, fi := range mi.fields {
		if !fi.fd.IsMap() && !fi.fd.IsList() && !isMsgKind(fi.fd) {
			return i
		}
	}
	return -1
}

// touch writes something into message handle m (when its type is pulsar and has a scalar field) and reads it
func (c *script) touch(m int) {
	h := c.s.hs[m]
	if !h.mi.pulsar {
		return
	}
	if x := firstScalar(h.mi); x >= 0 {
		c.setL(m, x, c.g.nz(h.mi.fields[x].fd))
		c.get(m, x)
		c.has(m, x)
	}
}

func (g *rgen) scriptsFor(o *out, si *schemaInfo, mi *msgInfo) {
	child := func(fd protoreflect.FieldDescriptor) *msgInfo { return si.byName[fd.Message().FullName()] }
	for f, fi := range mi.fields {
		f, fi := f, fi
		fd := fi.fd
		switch {
		case fd.IsList():
			msg := isMsgKind(fd)
			g.scripted(o, si, mi, "script_list", func(c *script) {
				e := c.get(0, f) // invalid view, stays invalid
				c.simple("llen", e)
				c.simple("lvalid", e)
				l := c.mut(0, f)
				c.has(0, f)
				if msg {
					m := c.simple("lappm", l)
					c.touch(m)
					ne := c.simple("lnew", l)
					c.touch(ne)
					c.lappH(l, ne)
				} else {
					c.lappL(l, g.nz(fd))
					c.lappL(l, g.lit(fd, 0))
					c.lappL(l, g.lit(fd, -1))
				}
				l2 := c.mut(0, f) // Mutable again: the same list
				c.simple("llen", l2)
				c.lidx("lget", l2, 0)
				c.lidx("lget", l2, 1)
				v := c.get(0, f)
				c.simple("lvalid", v)
				c.simple("llen", v)
				c.has(0, f)
				c.rng(0)
				c.simple("llen", e) // the view taken before stays invalid and empty
				c.simple("lvalid", e)
				if msg {
					m0 := c.lidx("lget", l2, 0)
					c.touch(m0)
					ne := c.simple("lnew", l2)
					c.lsetH(l2, 0, ne)
					c.lidx("lget", v, 0)
				} else {
					c.lsetL(l2, 1, g.lit(fd, 2))
					c.lidx("lget", v, 1)
				}
				c.lidx("ltrunc", l2, 1)
				c.simple("llen", v)
				c.rng(0)
				if msg {
					c.simple("lappm", l)
				} else {
					c.lappL(l, g.lit(fd, 3))
				}
				c.simple("llen", l2)
				c.clear(0, f)
				c.has(0, f)
				g2 := c.get(0, f)
				c.simple("lvalid", g2)
				c.rng(0)
			})
			g.scripted(o, si, mi, "script_list_panics", func(c *script) {
				l := c.mut(0, f)
				c.lidx("lget", l, 0) // empty: out of range
				if !msg {
					c.lappL(l, g.nz(fd))
				} else {
					c.simple("lappm", l)
				}
				c.lidx("lget", l, 1)
				c.lidx("lget", l, -1)
				if !msg {
					c.lsetL(l, 5, g.nz(fd))
					c.lsetL(l, -1, g.nz(fd))
					c.simple("lappm", l) // not a message list
				} else {
					ne := c.simple("lnew", l)
					c.lsetH(l, 3, ne)
				}
				c.simple("llen", l)
				c.rng(0)
			})
			g.scripted(o, si, mi, "script_list_invalid_writes", func(c *script) {
				e := c.get(0, f)
				for _, w := range []func(){
					func() {
						if msg {
							c.simple("lappm", e)
						} else {
							c.lappL(e, g.nz(fd))
						}
					},
					func() { c.lidx("ltrunc", e, 0) },
					func() { c.lidx("lget", e, 0) },
					func() {
						if !msg {
							c.lsetL(e, 0, g.nz(fd))
						}
					},
					func() { c.simple("lnew", e) },
					func() { c.setH(0, f, e) }, // Set with an invalid list
				} {
					w()
					c.has(0, f)
				}
				c.rng(0)
			})
			g.scripted(o, si, mi, "script_list_newfield", func(c *script) {
				v := c.newf(0, f)
				c.has(0, f)
				if msg {
					m := c.simple("lappm", v)
					c.touch(m)
				} else {
					c.lappL(v, g.nz(fd))
					c.lappL(v, g.lit(fd, 0))
				}
				c.simple("llen", v)
				c.has(0, f)
				c.setH(0, f, v)
				c.has(0, f)
				r := c.get(0, f)
				c.simple("llen", r)
				c.lidx("lget", r, 0)
				c.rng(0)
				// an empty fresh list: Set then Has
				v2 := c.newf(0, f)
				c.setH(0, f, v2)
				c.has(0, f)
				c.rng(0)
				// self assignment through Mutable
				l := c.mut(0, f)
				if !msg {
					c.lappL(l, g.nz(fd))
				} else {
					c.simple("lappm", l)
				}
				c.setH(0, f, l)
				c.has(0, f)
				c.rng(0)
			})
		case fd.IsMap():
			vfd := fd.MapValue()
			msg := isMsgKind(vfd)
			k1, k2 := g.nz(fd.MapKey()), g.lit(fd.MapKey(), 0)
			g.scripted(o, si, mi, "script_map", func(c *script) {
				e := c.get(0, f)
				c.simple("mlen", e)
				c.simple("mvalid", e)
				c.mkey("mhas", e, k1)
				c.mkey("mget", e, k1)
				c.simple("mrange", e)
				c.mkey("mclear", e, k1)
				m := c.mut(0, f)
				c.has(0, f)
				c.simple("mvalid", m)
				if msg {
					v := c.mkey("mmut", m, k1)
					c.touch(v)
					nv := c.simple("mnewv", m)
					c.touch(nv)
					c.msetH(m, k2, nv)
					v2 := c.mkey("mmut", m, k1) // existing
					c.touch(v2)
				} else {
					c.msetL(m, k1, g.nz(vfd))
					c.msetL(m, k2, g.lit(vfd, 0))
					c.msetL(m, k1, g.lit(vfd, 2)) // overwrite
					c.mkey("mmut", m, k1)         // not a message map: panics
				}
				c.simple("mlen", m)
				c.mkey("mhas", m, k1)
				r := c.mkey("mget", m, k1)
				_ = r
				c.mkey("mget", m, g.lit(fd.MapKey(), 2))
				c.simple("mrange", m)
				c.has(0, f)
				v := c.get(0, f)
				c.simple("mvalid", v)
				c.simple("mlen", v)
				c.rng(0)
				c.simple("mlen", e)
				c.simple("mvalid", e)
				m2 := c.mut(0, f)
				c.mkey("mclear", m2, k1)
				c.mkey("mhas", v, k1)
				c.simple("mlen", m)
				c.mkey("mclear", m2, k1) // absent key
				c.mkey("mclear", m2, k2)
				c.has(0, f)
				c.rng(0)
				c.clear(0, f)
				c.has(0, f)
				g2 := c.get(0, f)
				c.simple("mvalid", g2)
			})
			g.scripted(o, si, mi, "script_map_invalid_writes", func(c *script) {
				e := c.get(0, f)
				if msg {
					c.mkey("mmut", e, k1)
					c.has(0, f)
					nv := c.simple("mnewv", e)
					c.msetH(e, k1, nv)
				} else {
					c.msetL(e, k1, g.nz(vfd))
					c.has(0, f)
					c.mkey("mmut", e, k1)
				}
				c.has(0, f)
				c.simple("mnewv", e)
				c.setH(0, f, e) // Set with an invalid map
				c.has(0, f)
				c.rng(0)
			})
			g.scripted(o, si, mi, "script_map_newfield", func(c *script) {
				v := c.newf(0, f)
				c.has(0, f)
				if msg {
					x := c.mkey("mmut", v, k1)
					c.touch(x)
				} else {
					c.msetL(v, k1, g.nz(vfd))
				}
				c.simple("mlen", v)
				c.setH(0, f, v)
				c.has(0, f)
				r := c.get(0, f)
				c.simple("mlen", r)
				c.mkey("mget", r, k1)
				c.rng(0)
				v2 := c.newf(0, f)
				c.setH(0, f, v2)
				c.has(0, f)
				m := c.mut(0, f)
				c.setH(0, f, m)
				c.has(0, f)
				c.rng(0)
			})
		case isMsgKind(fd):
			cm := child(fd)
			g.scripted(o, si, mi, "script_msg", func(c *script) {
				e := c.get(0, f) // invalid message
				c.valid(e)
				if cm.pulsar {
					if x := firstScalar(cm); x >= 0 {
						c.has(e, x)
						c.get(e, x)
					}
					c.rng(e)
					c.simple("getunk", e)
				}
				c.has(0, f)
				for _, j := range oneofIdxList(fi) {
					c.which(0, j)
				}
				m := c.mut(0, f)
				c.has(0, f)
				c.valid(m)
				c.touch(m)
				m2 := c.mut(0, f) // Mutable again: the same message
				c.touch(m2)
				r := c.get(0, f)
				c.valid(r)
				if cm.pulsar {
					if x := firstScalar(cm); x >= 0 {
						c.get(r, x)
					}
				}
				c.rng(0)
				if cm.pulsar {
					c.valid(e)
					c.rng(e)
				}
				n := c.newf(0, f)
				c.touch(n)
				c.has(0, f)
				c.setH(0, f, n)
				r2 := c.get(0, f)
				if cm.pulsar {
					if x := firstScalar(cm); x >= 0 {
						c.get(r2, x)
					}
				}
				c.clear(0, f)
				c.has(0, f)
				r3 := c.get(0, f)
				c.valid(r3)
				c.rng(0)
			})
			g.scripted(o, si, mi, "script_msg_invalid", func(c *script) {
				e := c.get(0, f)
				if cm.pulsar {
					if x := firstScalar(cm); x >= 0 {
						c.setL(e, x, g.nz(cm.fields[x].fd)) // store into a read-only message
						c.has(e, x)
						c.clear(e, x)
					}
					c.setunk(e, unkFor(cm))
					for y, yf := range cm.fields {
						if yf.fd.IsList() || yf.fd.IsMap() || isMsgKind(yf.fd) {
							c.mut(e, y)
							c.get(e, y)
							break
						}
					}
					c.rng(e)
				}
				c.has(0, f)
				c.setH(0, f, e) // Set with an invalid message
				c.has(0, f)
				c.get(0, f)
				c.rng(0)
			})
		default:
			g.scripted(o, si, mi, "script_scalar", func(c *script) {
				c.has(0, f)
				c.get(0, f)
				c.newf(0, f)
				n := g.vg.boundaryCount(fd)
				if n > 6 {
					n = 6
				}
				for i := 0; i < n; i++ {
					c.setL(0, f, g.lit(fd, i))
					c.has(0, f)
					c.get(0, f)
					if i == 1 {
						c.rng(0)
					}
				}
				c.setL(0, f, g.lit(fd, -1))
				c.get(0, f)
				c.mut(0, f) // scalars are not mutable
				c.has(0, f)
				c.clear(0, f)
				c.has(0, f)
				c.get(0, f)
				c.rng(0)
			})
		}
		// oneof sequences: this member against every other member of its oneof
		if fi.oneofIdx >= 0 {
			j := fi.oneofIdx
			for _, b := range oneofMembers(mi, f) {
				if b == f {
					continue
				}
				b := b
				g.scripted(o, si, mi, "script_oneof", func(c *script) {
					setm := func(x int) {
						xfd := mi.fields[x].fd
						if isMsgKind(xfd) {
							if c.g.r.bool() {
								m := c.mut(0, x)
								c.touch(m)
							} else {
								n := c.newf(0, x)
								c.touch(n)
								c.setH(0, x, n)
							}
						} else {
							c.setL(0, x, c.g.lit(xfd, c.g.r.intn(2))) // zero values included: Has stays true
						}
					}
					c.which(0, j)
					c.clear(0, f) // nothing set
					setm(f)
					c.which(0, j)
					c.has(0, f)
					c.has(0, b)
					c.get(0, b)
					setm(b)
					c.which(0, j)
					c.has(0, f)
					c.get(0, f)
					c.has(0, b)
					c.get(0, b)
					c.rng(0)
					c.clear(0, f) // not the member set: nothing changes
					c.which(0, j)
					c.has(0, b)
					c.get(0, b)
					c.rng(0)
					c.clear(0, b)
					c.which(0, j)
					c.has(0, b)
					c.rng(0)
					setm(f)
					if isMsgKind(mi.fields[b].fd) {
						m := c.mut(0, b) // Mutable of another member replaces
						c.touch(m)
						c.which(0, j)
						c.has(0, f)
					}
					c.rng(0)
				})
			}
		}
	}
	// states only a Go struct literal (or the unspecified Set of an invalid message) produces: a oneof wrapper
	// holding a nil message, a nil list element, a nil map value; then the mutating accessors
	for f, fi := range mi.fields {
		f, fi := f, fi
		fd := fi.fd
		switch {
		case fi.oneofIdx >= 0 && isMsgKind(fd):
			init := si.emptyV(mi)
			init.L[f] = &V{K: 's', P: vNil}
			s := newSessionV(o, si, mi, "script_wrapper_nil", init)
			c := &script{s: s, g: g}
			func() {
				defer func() {
					if e := recover(); e != nil && e != errStop {
						panic(e)
					}
				}()
				c.has(0, f)
				c.which(0, fi.oneofIdx)
				m := c.mut(0, f)
				c.valid(m)
				c.touch(m)
				c.get(0, f)
				c.rng(0)
			}()
			s.finish()
		}
	}
	// unknown fields, on the root and on a nested message
	g.scripted(o, si, mi, "script_unknown", func(c *script) {
		c.simple("getunk", 0)
		c.setunk(0, unkFor(mi))
		c.simple("getunk", 0)
		c.rng(0)
		c.setunk(0, append(append([]byte{}, unkFor(mi)...), unkFor(mi)...))
		c.simple("getunk", 0)
		c.setunk(0, nil)
		c.simple("getunk", 0)
		c.setunk(0, []byte{})
		c.simple("getunk", 0)
		for f, fi := range mi.fields {
			if !fi.fd.IsList() && !fi.fd.IsMap() && isMsgKind(fi.fd) && child(fi.fd).pulsar {
				m := c.mut(0, f)
				c.setunk(m, unkFor(child(fi.fd)))
				c.simple("getunk", m)
				r := c.get(0, f)
				c.simple("getunk", r)
				break
			}
		}
	})
}

func oneofIdxList(fi fieldInfo) []int {
	if fi.oneofIdx >= 0 {
		return []int{fi.oneofIdx}
	}
	return nil
}

// ---- random histories -----------------------------------------------------------------------------------
func (g *rgen) pickRecv(s *rsession) int {
	var live, inv []int
	for k, h := range s.hs {
		if h.kind == hNone || (h.kind == hMsg && !h.mi.pulsar) {
			continue
		}
		if !h.valid {
			inv = append(inv, k)
		} else if h.live {
			live = append(live, k)
		}
	}
	if len(inv) > 0 && g.r.intn(12) == 0 {
		return inv[g.r.intn(len(inv))]
	}
	switch g.r.intn(10) {
	case 0, 1, 2:
		return 0
	case 3, 4, 5, 6:
		// one of the most recent
		n := len(live)
		w := 3
		if w > n {
			w = n
		}
		return live[n-1-g.r.intn(w)]
	}
	return live[g.r.intn(len(live))]
}

// a live fresh message of type cm that may be attached below receiver recv
func (g *rgen) freshMsg(s *rsession, cm *msgInfo, recv int) int {
	for k := len(s.hs) - 1; k > 0; k-- {
		h := s.hs[k]
		if h.kind == hMsg && h.valid && h.live && h.fresh && h.mi == cm && h.root != s.hs[recv].root {
			return k
		}
	}
	return -1
}
func (g *rgen) invalidOf(s *rsession, kind hkind, mi *msgInfo, fidx int) int {
	for k := len(s.hs) - 1; k > 0; k-- {
		h := s.hs[k]
		if h.kind == kind && !h.valid && h.mi == mi && (kind == hMsg || h.fidx == fidx) {
			return k
		}
	}
	return -1
}

func (g *rgen) mapKey(s *rsession, k int) *V {
	h := s.hs[k]
	fd := h.fd()
	if g.r.intn(2) == 0 {
		// an existing key, as the reference sees it
		if mp, ok := s.D.res[k].(protoreflect.Map); ok && mp.Len() > 0 {
			var keys []*V
			mp.Range(func(mk protoreflect.MapKey, _ protoreflect.Value) bool {
				keys = append(keys, scalarFromPR(fd.MapKey(), mk.Value()))
				return true
			})
			sortKeys(keys)
			return keys[g.r.intn(len(keys))]
		}
	}
	return g.lit(fd.MapKey(), g.r.intn(4))
}

func sortKeys(keys []*V) {
	for i := 1; i < len(keys); i++ {
		for j := i; j > 0 && keyLess(keys[j], keys[j-1]); j-- {
			keys[j], keys[j-1] = keys[j-1], keys[j]
		}
	}
}

// populate a fresh message / list / map handle a little before it is attached
func (g *rgen) populate(s *rsession, k int, budget *int) bool {
	n := g.r.intn(3)
	for i := 0; i < n && *budget > 0; i++ {
		*budget--
		if !g.randomOpOn(s, k, budget, true) {
			return false
		}
		if !s.hs[k].live {
			break
		}
	}
	return true
}

func (g *rgen) randomOpOn(s *rsession, k int, budget *int, writesOnly bool) bool {
	h := s.hs[k]
	r := g.r
	do := func(op *rop) bool { return s.do(op) }
	switch h.kind {
	case hMsg:
		if len(h.mi.fields) == 0 {
			switch r.intn(4) {
			case 0:
				return do(&rop{code: "range", r: k, a: -1})
			case 1:
				return do(&rop{code: "getunk", r: k, a: -1})
			case 2:
				return do(&rop{code: "setunk", r: k, a: -1, unk: genUnknownFor(r, h.mi)})
			}
			return do(&rop{code: "valid", r: k, a: -1})
		}
		f := r.intn(len(h.mi.fields))
		fi := h.mi.fields[f]
		fd := fi.fd
		composite := fd.IsList() || fd.IsMap() || isMsgKind(fd)
		c := r.intn(100)
		if writesOnly {
			c = 30 + r.intn(40)
		}
		switch {
		case c < 14:
			return do(&rop{code: "has", r: k, f: f, a: -1})
		case c < 30:
			return do(&rop{code: "get", r: k, f: f, a: -1})
		case c < 55: // set
			if !composite {
				return do(&rop{code: "set", r: k, f: f, a: -1, lit: g.lit(fd, -1)})
			}
			if !h.valid {
				// a store of a fresh composite into an invalid message
				if *budget <= 0 {
					return true
				}
				*budget--
				if !do(&rop{code: "newf", r: k, f: f, a: -1}) {
					return false
				}
				return do(&rop{code: "set", r: k, f: f, a: len(s.hs) - 1})
			}
			if fd.IsList() || fd.IsMap() {
				kind := hList
				if fd.IsMap() {
					kind = hMap
				}
				switch x := r.intn(20); {
				case x == 0:
					if a := g.invalidOf(s, kind, h.mi, f); a >= 0 {
						return do(&rop{code: "set", r: k, f: f, a: a})
					}
				case x == 1:
					if *budget <= 0 {
						return true
					}
					*budget--
					if !do(&rop{code: "mut", r: k, f: f, a: -1}) {
						return false
					}
					return do(&rop{code: "set", r: k, f: f, a: len(s.hs) - 1})
				}
				if *budget <= 0 {
					return true
				}
				*budget--
				if !do(&rop{code: "newf", r: k, f: f, a: -1}) {
					return false
				}
				v := len(s.hs) - 1
				if !g.populate(s, v, budget) {
					return false
				}
				if !s.hs[v].live || !s.hs[k].live {
					return true
				}
				return do(&rop{code: "set", r: k, f: f, a: v})
			}
			cm := s.si.byName[fd.Message().FullName()]
			if r.intn(20) == 0 {
				if a := g.invalidOf(s, hMsg, cm, 0); a >= 0 {
					return do(&rop{code: "set", r: k, f: f, a: a})
				}
			}
			a := g.freshMsg(s, cm, k)
			if a < 0 || r.intn(2) == 0 {
				if *budget <= 0 {
					return true
				}
				*budget--
				if !do(&rop{code: "newf", r: k, f: f, a: -1}) {
					return false
				}
				a = len(s.hs) - 1
				if cm.pulsar && !g.populate(s, a, budget) {
					return false
				}
				if !s.hs[a].live || !s.hs[k].live {
					return true
				}
			}
			return do(&rop{code: "set", r: k, f: f, a: a})
		case c < 63:
			return do(&rop{code: "clear", r: k, f: f, a: -1})
		case c < 80: // mutable: mostly of composite fields
			if !composite && r.intn(8) != 0 {
				for tries := 0; tries < 8 && !composite; tries++ {
					f = r.intn(len(h.mi.fields))
					fd = h.mi.fields[f].fd
					composite = fd.IsList() || fd.IsMap() || isMsgKind(fd)
				}
			}
			return do(&rop{code: "mut", r: k, f: f, a: -1})
		case c < 84:
			return do(&rop{code: "newf", r: k, f: f, a: -1})
		case c < 88:
			if n := nOneofs(h.mi); n > 0 {
				return do(&rop{code: "which", r: k, f: r.intn(n), a: -1})
			}
			return do(&rop{code: "range", r: k, a: -1})
		case c < 93:
			return do(&rop{code: "range", r: k, a: -1})
		case c < 95:
			return do(&rop{code: "getunk", r: k, a: -1})
		case c < 98:
			var b []byte
			for i := r.intn(3); i > 0; i-- {
				b = append(b, genUnknownFor(r, h.mi)...)
			}
			return do(&rop{code: "setunk", r: k, a: -1, unk: b})
		default:
			return do(&rop{code: "valid", r: k, a: -1})
		}
	case hList:
		fd := h.fd()
		msg := isMsgKind(fd)
		n := 0
		if l, ok := s.D.res[k].(protoreflect.List); ok {
			n = l.Len()
		}
		idx := func() int64 {
			if n == 0 || r.intn(10) == 0 {
				return int64(r.intn(n+3)) - 1 + int64(n)*int64(r.intn(2)) // possibly out of range or negative
			}
			return int64(r.intn(n))
		}
		c := r.intn(100)
		if writesOnly {
			c = 30 + r.intn(50)
		}
		switch {
		case c < 10:
			return do(&rop{code: "llen", r: k, a: -1})
		case c < 30:
			return do(&rop{code: "lget", r: k, n: idx(), a: -1})
		case c < 60: // append
			if !msg {
				return do(&rop{code: "lapp", r: k, a: -1, lit: g.lit(fd, -1)})
			}
			if r.intn(2) == 0 {
				return do(&rop{code: "lappm", r: k, a: -1})
			}
			if *budget <= 0 {
				return true
			}
			*budget--
			if !do(&rop{code: "lnew", r: k, a: -1}) {
				return false
			}
			a := len(s.hs) - 1
			if s.hs[a].mi.pulsar && !g.populate(s, a, budget) {
				return false
			}
			if !s.hs[a].live || !s.hs[k].live {
				return true
			}
			return do(&rop{code: "lapp", r: k, a: a})
		case c < 72: // set
			i := idx()
			if !msg {
				return do(&rop{code: "lset", r: k, n: i, a: -1, lit: g.lit(fd, -1)})
			}
			if *budget <= 0 {
				return true
			}
			*budget--
			if !do(&rop{code: "lnew", r: k, a: -1}) {
				return false
			}
			return do(&rop{code: "lset", r: k, n: i, a: len(s.hs) - 1})
		case c < 82:
			if h.valid {
				return do(&rop{code: "ltrunc", r: k, n: int64(r.intn(n + 1)), a: -1})
			}
			return do(&rop{code: "ltrunc", r: k, n: 0, a: -1})
		case c < 90:
			return do(&rop{code: "lappm", r: k, a: -1}) // panics on scalar lists
		case c < 95:
			return do(&rop{code: "lnew", r: k, a: -1})
		default:
			return do(&rop{code: "lvalid", r: k, a: -1})
		}
	case hMap:
		fd := h.fd()
		msg := isMsgKind(fd.MapValue())
		c := r.intn(100)
		if writesOnly {
			c = 40 + r.intn(45)
		}
		switch {
		case c < 8:
			return do(&rop{code: "mlen", r: k, a: -1})
		case c < 20:
			return do(&rop{code: "mhas", r: k, key: g.mapKey(s, k), a: -1})
		case c < 40:
			return do(&rop{code: "mget", r: k, key: g.mapKey(s, k), a: -1})
		case c < 65: // set
			key := g.mapKey(s, k)
			if !msg {
				return do(&rop{code: "mset", r: k, key: key, a: -1, lit: g.lit(fd.MapValue(), -1)})
			}
			if r.intn(2) == 0 {
				return do(&rop{code: "mmut", r: k, key: key, a: -1})
			}
			if *budget <= 0 {
				return true
			}
			*budget--
			if !do(&rop{code: "mnewv", r: k, a: -1}) {
				return false
			}
			a := len(s.hs) - 1
			if s.hs[a].mi.pulsar && !g.populate(s, a, budget) {
				return false
			}
			if !s.hs[a].live || !s.hs[k].live {
				return true
			}
			return do(&rop{code: "mset", r: k, key: key, a: a})
		case c < 75:
			return do(&rop{code: "mclear", r: k, key: g.mapKey(s, k), a: -1})
		case c < 85:
			return do(&rop{code: "mmut", r: k, key: g.mapKey(s, k), a: -1}) // panics on scalar maps
		case c < 90:
			return do(&rop{code: "mnewv", r: k, a: -1})
		case c < 97:
			return do(&rop{code: "mrange", r: k, a: -1})
		default:
			return do(&rop{code: "mvalid", r: k, a: -1})
		}
	}
	return true
}

func (g *rgen) random(s *rsession, maxLen int) {
	budget := 1 + g.r.intn(maxLen)
	for budget > 0 {
		budget--
		k := g.pickRecv(s)
		if !g.randomOpOn(s, k, &budget, false) {
			break
		}
		if g.r.intn(6) == 0 && !s.stopped {
			if !s.do(&rop{code: "range", r: 0, a: -1}) {
				break
			}
		}
	}
	s.finish()
}

func engineReflect(cfg config, o *out) {
	schemas := loadSchemas()
	o.hist["programs"] = len(schemas)
	for _, si := range schemas {
		o.raw("SCHEMA\t" + si.id + "\t=\t" + si.sexp())
		r := newRng(cfg.seed, "reflect/"+si.id)
		g := &rgen{r: r, vg: &vgen{r: r, si: si}}
		ra := newRng(cfg.seed, "reflect-alias/"+si.id)
		for _, mi := range si.roots() {
			// exhaustive part on the small all-shapes messages
			if si.id == "vm" || (si.id == "testpb" && mi.md.Name() == "A") {
				if cfg.thorough() {
					g.exhaustive(o, si, mi, 8, 2)
					g.exhaustive(o, si, mi, 3, 3)
				} else {
					g.exhaustive(o, si, mi, 8, 2)
				}
			} else {
				g.exhaustive(o, si, mi, 4, 1)
			}
			g.scriptsFor(o, si, mi)
			n := 150
			if cfg.thorough() {
				n *= 20
			}
			for i := 0; i < n; i++ {
				g.random(newSession(o, si, mi, "random"), 40)
			}
			// histories that start from a populated value (nil containers, nil elements included)
			vg := &vgen{r: r, si: si, nilElems: true}
			for i := 0; i < n/3; i++ {
				v := vg.msg(mi, 2, 2+r.intn(6))
				fixLits(si, mi, v)
				sv := newSessionV(o, si, mi, "random_from_value", v)
				if i%2 == 0 {
					// Range stopped at every position: the callback returning false at the k-th populated field (a plain field,
					// a oneof member, a container) must end the iteration there
					for k := 1; k <= len(mi.fields)+1 && k <= 40 && !sv.stopped; k++ {
						if !sv.do(&rop{code: "rstop", r: 0, a: -1, n: int64(k)}) {
							break
						}
					}
				}
				g.random(sv, 25)
			}
			// retained handles and aliasing (reflecteng_alias.go): implementation-side only, own random stream
			ga := &rgen{r: ra, vg: &vgen{r: ra, si: si}}
			ga.aliasScripts(o, si, mi, si.id == "vm" || (si.id == "testpb" && mi.md.Name() == "A"))
			for i := 0; i < n/5; i++ {
				ga.aliasRandom(o, si, mi, 30)
			}
		}
	}
	_ = strconv.Itoa
}

// fixLits quiets float32 signalling NaNs anywhere in a value (protoreflect.Value cannot carry them)
func fixLits(si *schemaInfo, mi *msgInfo, v *V) {
	var elem func(fd protoreflect.FieldDescriptor, e *V)
	elem = func(fd protoreflect.FieldDescriptor, e *V) {
		if e == nil || e.K == 'n' {
			return
		}
		if fd.Kind() == protoreflect.FloatKind && e.K == 'x' {
			u := uint32(e.U)
			if u&0x7f800000 == 0x7f800000 && u&0x007fffff != 0 {
				e.U = uint64(u | 0x00400000)
			}
		}
		if isMsgKind(fd) && e.K == 'm' {
			fixLits(si, si.byName[fd.Message().FullName()], e)
		}
	}
	for i, fi := range mi.fields {
		sv := v.L[i]
		switch {
		case fi.fd.IsMap():
			for j := 0; j+1 < len(sv.L); j += 2 {
				elem(fi.fd.MapValue(), sv.L[j+1])
			}
		case fi.fd.IsList():
			for _, e := range sv.L {
				elem(fi.fd, e)
			}
		case sv.K == 's':
			elem(fi.fd, sv.P)
		default:
			elem(fi.fd, sv)
		}
	}
}
