package main

// Third file of the "genprog" engine (task T21): /repo/generator/generator.go (NewGenerator, Generator.GenerateFile) translated on
// every run into the language of coq/Model/GenProg2.v and compared, declaration by declaration, with canon_generator_go
// (driver/genprog2_eval.ml prints and parses the same text).
//
//	GENPROG      generator imports            = the imported packages, sorted            model: canon_generator_go_imports
//	GENPROG      generator decls              = the top-level declarations in order      model: kinds and names of canon_generator_go
//	GENPROG      generator <decl>             = the printed translation                  model: print (canonical declaration of that name)
//	@GENPROG2DEF generator <decl> <text>      = ok      context line: the driver parses and keeps the TRANSLATED declaration
//	GENPROG      generator <decl> eqb         = same    model: g2decl_eqb <translated> <canonical>
//
// and, written by the gen engine next to GENPROGRUN MAIN (same case file, after the @GENPROG2DEF lines):
//
//	GENPROG2RUN  <params> <files>             = error | the names of the files of the real plugin's response
//	   model: NewGenerator, then GenerateFile on every file to generate, interpreted on the TRANSLATED generator.go
//
// Text form:
//
//	(func (recv (x "T")...) F (params (x "T")...) (results "T"...) (body s...)) | (type T "text")
//	s ::= (:= (x...) e) | (= x e) | (var x "T") | (set-index m k v) | (if e (then s...) (else s...)) | (range k v e (body s...))
//	    | (return e...) | (expr e)
//	e ::= nil | true | false | x | (qual pkg N) | (. e F) | (call f e...) | (method e M e...) | (!= e e) | (not e) | (make "K" "V")
//	    | (lit amp|val T (k...) e...) | (index e e) | (conv "T" e)
//
// Purely syntactic (go/parser, no go/types). Checked here: nil / true / false / make / string are not redeclared at the top level of the
// file and not bound locally; a package qualifier is an import of the file and not a local; composite literals are keyed; a statement
// or expression outside the forms above makes the declaration untranslatable (reported, never guessed).

import (
	"fmt"
	"go/ast"
	"go/parser"
	"go/token"
	"path/filepath"
	"os"
	"sort"
	"strconv"
	"strings"
)

const gp2Rel = "generator/generator.go"

type gp2Tr struct {
	fset    *token.FileSet
	imports map[string]bool
	bound   map[string]bool // every name bound anywhere in the function (parameters, :=, var, range)
	top     map[string]bool
}

type gp2Fail struct{ msg string }

func (t *gp2Tr) fail(pos token.Pos, why string) {
	p := t.fset.Position(pos)
	panic(gp2Fail{fmt.Sprintf("%d:%d:%s", p.Line, p.Column, why)})
}

func (t *gp2Tr) predeclared(id *ast.Ident) bool { return !t.bound[id.Name] && !t.top[id.Name] }

func (t *gp2Tr) exprs(l []ast.Expr) []*gpN {
	var r []*gpN
	for _, e := range l {
		r = append(r, t.expr(e))
	}
	return r
}

func (t *gp2Tr) expr(e ast.Expr) *gpN {
	switch x := e.(type) {
	case *ast.ParenExpr:
		return t.expr(x.X)
	case *ast.Ident:
		switch x.Name {
		case "nil", "true", "false":
			if !t.predeclared(x) {
				t.fail(x.Pos(), x.Name+" is redeclared")
			}
			return gpA(x.Name)
		case "_":
			t.fail(x.Pos(), "blank identifier as a value")
		}
		return gpA(x.Name)
	case *ast.SelectorExpr:
		if id, ok := x.X.(*ast.Ident); ok && t.imports[id.Name] && !t.bound[id.Name] && !t.top[id.Name] {
			return gpH("qual", gpA(id.Name), gpA(x.Sel.Name))
		}
		return gpH(".", t.expr(x.X), gpA(x.Sel.Name))
	case *ast.CallExpr:
		if x.Ellipsis.IsValid() {
			t.fail(x.Pos(), "variadic call")
		}
		switch f := x.Fun.(type) {
		case *ast.Ident:
			switch {
			case f.Name == "make" && t.predeclared(f):
				if len(x.Args) == 1 {
					if mt, ok := x.Args[0].(*ast.MapType); ok {
						return gpH("make", gpQ(gpTypeText(mt.Key)), gpQ(gpTypeText(mt.Value)))
					}
				}
				t.fail(x.Pos(), "make of something else than a map without size")
			case f.Name == "string" && t.predeclared(f):
				if len(x.Args) != 1 {
					t.fail(x.Pos(), "conversion")
				}
				return gpH("conv", gpQ("string"), t.expr(x.Args[0]))
			case t.bound[f.Name] || t.top[f.Name]:
				return gpH("call", append([]*gpN{gpA(f.Name)}, t.exprs(x.Args)...)...)
			}
			t.fail(x.Pos(), "call of "+f.Name)
		case *ast.SelectorExpr:
			if id, ok := f.X.(*ast.Ident); ok && t.imports[id.Name] && !t.bound[id.Name] && !t.top[id.Name] {
				t.fail(x.Pos(), "call of a function of package "+id.Name)
			}
			return gpH("method", append([]*gpN{t.expr(f.X), gpA(f.Sel.Name)}, t.exprs(x.Args)...)...)
		}
		t.fail(x.Pos(), "call form")
	case *ast.BinaryExpr:
		if x.Op == token.NEQ {
			return gpH("!=", t.expr(x.X), t.expr(x.Y))
		}
		t.fail(x.Pos(), "operator "+x.Op.String())
	case *ast.UnaryExpr:
		switch x.Op {
		case token.NOT:
			return gpH("not", t.expr(x.X))
		case token.AND:
			if cl, ok := x.X.(*ast.CompositeLit); ok {
				return t.lit("amp", cl)
			}
		}
		t.fail(x.Pos(), "operator "+x.Op.String())
	case *ast.CompositeLit:
		return t.lit("val", x)
	case *ast.IndexExpr:
		return gpH("index", t.expr(x.X), t.expr(x.Index))
	}
	t.fail(e.Pos(), fmt.Sprintf("expression %T", e))
	return nil
}

func (t *gp2Tr) lit(amp string, cl *ast.CompositeLit) *gpN {
	id, ok := cl.Type.(*ast.Ident)
	if !ok || t.bound[id.Name] {
		t.fail(cl.Pos(), "composite literal of a type that is not a named struct type of the package")
	}
	var keys, vals []*gpN
	for _, el := range cl.Elts {
		kv, ok := el.(*ast.KeyValueExpr)
		if !ok {
			t.fail(el.Pos(), "unkeyed composite literal")
		}
		k, ok := kv.Key.(*ast.Ident)
		if !ok {
			t.fail(el.Pos(), "composite literal key")
		}
		keys = append(keys, gpA(k.Name))
		vals = append(vals, t.expr(kv.Value))
	}
	return gpH("lit", append([]*gpN{gpA(amp), gpA(id.Name), gpL(keys...)}, vals...)...)
}

func (t *gp2Tr) bind(id *ast.Ident) string {
	if id.Name != "_" {
		t.bound[id.Name] = true
	}
	return id.Name
}

func (t *gp2Tr) block(l []ast.Stmt) []*gpN {
	var r []*gpN
	for _, s := range l {
		r = append(r, t.stmt(s))
	}
	return r
}

func (t *gp2Tr) stmt(s ast.Stmt) *gpN {
	switch x := s.(type) {
	case *ast.AssignStmt:
		if len(x.Rhs) != 1 {
			t.fail(x.Pos(), "parallel assignment")
		}
		switch x.Tok {
		case token.DEFINE:
			rhs := t.expr(x.Rhs[0])
			var xs []*gpN
			for _, l := range x.Lhs {
				id, ok := l.(*ast.Ident)
				if !ok {
					t.fail(l.Pos(), "define of a non-name")
				}
				xs = append(xs, gpA(t.bind(id)))
			}
			return gpH(":=", gpL(xs...), rhs)
		case token.ASSIGN:
			if len(x.Lhs) != 1 {
				t.fail(x.Pos(), "assignment to several operands")
			}
			switch l := x.Lhs[0].(type) {
			case *ast.Ident:
				if l.Name == "_" {
					t.fail(l.Pos(), "assignment to _")
				}
				return gpH("=", gpA(l.Name), t.expr(x.Rhs[0]))
			case *ast.IndexExpr:
				return gpH("set-index", t.expr(l.X), t.expr(l.Index), t.expr(x.Rhs[0]))
			}
		}
		t.fail(x.Pos(), "assignment form")
	case *ast.DeclStmt:
		gd, ok := x.Decl.(*ast.GenDecl)
		if ok && gd.Tok == token.VAR && len(gd.Specs) == 1 {
			vs := gd.Specs[0].(*ast.ValueSpec)
			if len(vs.Names) == 1 && len(vs.Values) == 0 && vs.Type != nil {
				return gpH("var", gpA(t.bind(vs.Names[0])), gpQ(gpTypeText(vs.Type)))
			}
		}
		t.fail(x.Pos(), "declaration statement")
	case *ast.IfStmt:
		if x.Init != nil {
			t.fail(x.Pos(), "if with an init statement")
		}
		c := t.expr(x.Cond)
		a := t.block(x.Body.List)
		var b []*gpN
		switch el := x.Else.(type) {
		case nil:
		case *ast.BlockStmt:
			b = t.block(el.List)
		default:
			t.fail(x.Pos(), "else if")
		}
		return gpH("if", c, gpBody("then", a), gpBody("else", b))
	case *ast.RangeStmt:
		if x.Tok != token.DEFINE {
			t.fail(x.Pos(), "range without :=")
		}
		e := t.expr(x.X)
		k, v := "_", "_"
		if x.Key != nil {
			id, ok := x.Key.(*ast.Ident)
			if !ok {
				t.fail(x.Pos(), "range key")
			}
			k = t.bind(id)
		}
		if x.Value != nil {
			id, ok := x.Value.(*ast.Ident)
			if !ok {
				t.fail(x.Pos(), "range value")
			}
			v = t.bind(id)
		}
		return gpH("range", gpA(k), gpA(v), e, gpBody("body", t.block(x.Body.List)))
	case *ast.ReturnStmt:
		return gpH("return", t.exprs(x.Results)...)
	case *ast.ExprStmt:
		if _, ok := x.X.(*ast.CallExpr); ok {
			return gpH("expr", t.expr(x.X))
		}
	}
	t.fail(s.Pos(), fmt.Sprintf("statement %T", s))
	return nil
}

func gp2Fields(h string, fl *ast.FieldList, named bool, t *gp2Tr) *gpN {
	var items []*gpN
	if fl != nil {
		for _, f := range fl.List {
			ty := gpQ(gpTypeText(f.Type))
			if !named {
				if len(f.Names) > 0 {
					t.fail(f.Pos(), "named results")
				}
				items = append(items, ty)
				continue
			}
			if len(f.Names) == 0 {
				t.fail(f.Pos(), "unnamed parameter")
			}
			for _, n := range f.Names {
				items = append(items, gpL(gpA(t.bind(n)), ty))
			}
		}
	}
	return gpBody(h, items)
}

type gp2Decl struct{ kind, name, sx string }

func gp2Translate(path string) (imports string, decls []gp2Decl, err error) {
	fset := token.NewFileSet()
	src, err := os.ReadFile(path)
	if err != nil {
		return "", nil, err
	}
	file, err := parser.ParseFile(fset, path, src, 0)
	if err != nil {
		return "", nil, err
	}
	imp := map[string]bool{}
	var ims []string
	for _, im := range file.Imports {
		ip, _ := strconv.Unquote(im.Path.Value)
		name := filepath.Base(ip)
		if im.Name != nil {
			name = im.Name.Name
			ims = append(ims, name+"="+ip)
		} else {
			ims = append(ims, ip)
		}
		imp[name] = true
	}
	sort.Strings(ims)
	top := map[string]bool{}
	for _, d := range file.Decls {
		switch x := d.(type) {
		case *ast.FuncDecl:
			if x.Recv == nil {
				top[x.Name.Name] = true
			}
		case *ast.GenDecl:
			for _, s := range x.Specs {
				switch y := s.(type) {
				case *ast.TypeSpec:
					top[y.Name.Name] = true
				case *ast.ValueSpec:
					for _, n := range y.Names {
						top[n.Name] = true
					}
				}
			}
		}
	}
	// the functions of the other files of the package this file calls by name
	top["findFeatures"] = true
	one := func(kind, name string, pos token.Pos, f func(t *gp2Tr) *gpN) {
		t := &gp2Tr{fset: fset, imports: imp, bound: map[string]bool{}, top: top}
		sx := func() (s string) {
			defer func() {
				if r := recover(); r != nil {
					if gf, ok := r.(gp2Fail); ok {
						s = "untranslatable:" + gf.msg
						return
					}
					panic(r)
				}
			}()
			return f(t).String()
		}()
		decls = append(decls, gp2Decl{kind, name, sx})
	}
	for _, d := range file.Decls {
		switch x := d.(type) {
		case *ast.FuncDecl:
			fd := x
			one("func", fd.Name.Name, fd.Pos(), func(t *gp2Tr) *gpN {
				if fd.Type.TypeParams != nil || fd.Body == nil {
					t.fail(fd.Pos(), "generic or bodiless function")
				}
				recv := gp2Fields("recv", fd.Recv, true, t)
				params := gp2Fields("params", fd.Type.Params, true, t)
				results := gp2Fields("results", fd.Type.Results, false, t)
				return gpH("func", recv, gpA(fd.Name.Name), params, results, gpBody("body", t.block(fd.Body.List)))
			})
		case *ast.GenDecl:
			if x.Tok == token.IMPORT {
				continue
			}
			for _, s := range x.Specs {
				switch y := s.(type) {
				case *ast.TypeSpec:
					ts := y
					one("type", ts.Name.Name, ts.Pos(), func(t *gp2Tr) *gpN {
						if ts.TypeParams != nil || ts.Assign.IsValid() {
							t.fail(ts.Pos(), "type declaration")
						}
						return gpH("type", gpA(ts.Name.Name), gpQ(gpTypeText(ts.Type)))
					})
				case *ast.ValueSpec:
					vs := y
					for _, n := range vs.Names {
						one(strings.ToLower(x.Tok.String()), n.Name, vs.Pos(), func(t *gp2Tr) *gpN {
							t.fail(vs.Pos(), "package-level variable or constant")
							return nil
						})
					}
				}
			}
		}
	}
	return strings.Join(ims, " "), decls, nil
}

// gp2Emit writes the GENPROG lines of generator.go (full = true) and the @GENPROG2DEF context lines; it returns whether every
// declaration was translated
func gp2Emit(o *out, full bool) bool {
	path := filepath.Join(gfRepo(), filepath.FromSlash(gp2Rel))
	imports, decls, err := gp2Translate(path)
	if err != nil {
		if full {
			o.kase("GENPROG", []string{"generator", "decls"}, "unreadable:"+strings.NewReplacer("\t", " ", "\n", " ").Replace(err.Error()))
		}
		return false
	}
	ok := true
	if full {
		o.kase("GENPROG", []string{"generator", "imports"}, imports)
		var names []string
		for _, d := range decls {
			names = append(names, d.kind+":"+d.name)
		}
		o.kase("GENPROG", []string{"generator", "decls"}, strings.Join(names, " "))
	}
	for _, d := range decls {
		key := d.kind + ":" + d.name
		if full {
			o.kase("GENPROG", []string{"generator", key}, d.sx)
		}
		if strings.HasPrefix(d.sx, "untranslatable:") {
			if full {
				o.count("untranslatable")
			}
			ok = false
			continue
		}
		o.kase("@GENPROG2DEF", []string{"generator", key, d.sx}, "ok")
		if full {
			o.kase("GENPROG", []string{"generator", key, "eqb"}, "same")
			o.count("translated2_" + d.kind)
			o.nontrivial("decl2/" + d.sx)
			for _, form := range []string{"(:=", "(=", "(var", "(set-index", "(if", "(range", "(return", "(expr", "(qual", "(.", "(call", "(method", "(!=",
				"(not", "(make", "(lit", "(index", "(conv"} {
				o.hist["form2_"+form[1:]] += strings.Count(d.sx, form+" ") + strings.Count(d.sx, form+")")
			}
		}
	}
	return ok
}

// next to GENPROGRUN MAIN: NewGenerator + GenerateFile per file to generate, interpreted on the translated generator.go, against the
// names of the files the real plugin answered with (only when every parameter that reaches the flag set is features=…)
func gp2RunLine(o *out, ok bool, params *gpN, files *gpN, names []string, respErr bool) {
	if !ok {
		o.count("genprog2/run_skipped")
		return
	}
	for _, p := range params.list {
		if len(p.list) != 2 || p.list[0].atom != "features" {
			o.count("genprog2/run_other_flag")
			return
		}
	}
	obs := strings.Join(names, ",")
	if respErr {
		obs = "error"
	}
	o.kase("GENPROG2RUN", []string{params.String(), files.String()}, obs)
	o.count("genprog2/run")
}
