package main

// Abstract message values (the Go side of Model/Schema.v `val`), their text form (VAL), and the
// conversions Go struct <-> V (through package reflect and struct tags only, so that building and
// reading values does not depend on the fast-reflection code under test) and V <-> dynamicpb.

import (
	"fmt"
	"math"
	"reflect"
	"sort"
	"strconv"
	"strings"
	"unsafe"

	"google.golang.org/protobuf/proto"
	"google.golang.org/protobuf/reflect/protoreflect"
	"google.golang.org/protobuf/reflect/protoregistry"
	"google.golang.org/protobuf/runtime/protoimpl"
	"google.golang.org/protobuf/types/dynamicpb"
)

type V struct {
	K   byte // i int, t/f bool, x bits, b bytes, n nil, s some, m msg, l list, p map
	I   int64
	U   uint64
	Uns bool
	B   []byte
	L   []*V // list elements / message slots / map k,v,k,v...
	Unk []byte
	P   *V
}

var vNil = &V{K: 'n'}

func vInt(i int64) *V   { return &V{K: 'i', I: i} }
func vUint(u uint64) *V { return &V{K: 'i', U: u, Uns: true} }
func vBool(b bool) *V {
	if b {
		return &V{K: 't'}
	}
	return &V{K: 'f'}
}
func vBits(u uint64) *V  { return &V{K: 'x', U: u} }
func vBytes(b []byte) *V { return &V{K: 'b', B: append([]byte{}, b...)} }

func (v *V) write(sb *strings.Builder) {
	switch v.K {
	case 'i':
		sb.WriteByte('i')
		if v.Uns {
			sb.WriteString(strconv.FormatUint(v.U, 16))
		} else {
			sb.WriteString(i64s(v.I))
		}
	case 't', 'f', 'n':
		sb.WriteByte(v.K)
	case 'x':
		sb.WriteByte('x')
		sb.WriteString(strconv.FormatUint(v.U, 16))
	case 'b':
		sb.WriteByte('b')
		sb.WriteString(hx(v.B))
	case 's':
		sb.WriteString("(s ")
		v.P.write(sb)
		sb.WriteByte(')')
	case 'm':
		sb.WriteString("(m ")
		sb.WriteString(hx(v.Unk))
		for _, e := range v.L {
			sb.WriteByte(' ')
			e.write(sb)
		}
		sb.WriteByte(')')
	case 'l', 'p':
		sb.WriteByte('(')
		sb.WriteByte(v.K)
		for _, e := range v.L {
			sb.WriteByte(' ')
			e.write(sb)
		}
		sb.WriteByte(')')
	}
}
func (v *V) String() string {
	var sb strings.Builder
	v.write(&sb)
	return sb.String()
}

// keyLess orders map keys for canonical rendering (ints numerically, false<true, bytes lexicographic)
func keyLess(a, b *V) bool {
	switch a.K {
	case 'i':
		if a.Uns {
			return a.U < b.U
		}
		return a.I < b.I
	case 't', 'f':
		return a.K == 'f' && b.K == 't'
	default:
		return string(a.B) < string(b.B)
	}
}
func sortMap(v *V) {
	n := len(v.L) / 2
	idx := make([]int, n)
	for i := range idx {
		idx[i] = i
	}
	sort.SliceStable(idx, func(i, j int) bool { return keyLess(v.L[2*idx[i]], v.L[2*idx[j]]) })
	out := make([]*V, 0, len(v.L))
	for _, i := range idx {
		out = append(out, v.L[2*i], v.L[2*i+1])
	}
	v.L = out
}

// ---- schema info --------------------------------------------------------------------------
type fieldInfo struct {
	fd       protoreflect.FieldDescriptor
	sf       int          // index of the Go struct field (plain) or of the oneof interface field
	wrapper  reflect.Type // *Wrapper for oneof members
	oneofIdx int          // index among real oneofs, -1 otherwise
}
type msgInfo struct {
	md     protoreflect.MessageDescriptor
	idx    int
	goType reflect.Type // struct type
	pulsar bool
	fields []fieldInfo
	unkSF  int
}
type schemaInfo struct {
	id     string
	msgs   []*msgInfo
	byName map[protoreflect.FullName]*msgInfo
}

func tagNumber(tag string) int {
	parts := strings.Split(tag, ",")
	if len(parts) < 2 {
		return -1
	}
	n, err := strconv.Atoi(parts[1])
	if err != nil {
		return -1
	}
	return n
}

func realOneofIndex(fd protoreflect.FieldDescriptor) int {
	od := fd.ContainingOneof()
	if od == nil || od.IsSynthetic() {
		return -1
	}
	return od.Index()
}

func (si *schemaInfo) add(md protoreflect.MessageDescriptor) *msgInfo {
	if mi, ok := si.byName[md.FullName()]; ok {
		return mi
	}
	mt, err := protoregistry.GlobalTypes.FindMessageByName(md.FullName())
	if err != nil {
		panic(fmt.Sprintf("type %s not linked: %v", md.FullName(), err))
	}
	info, ok := mt.(*protoimpl.MessageInfo)
	if !ok {
		panic(fmt.Sprintf("type %s: registry holds %T", md.FullName(), mt))
	}
	mi := &msgInfo{md: md, idx: len(si.msgs), goType: info.GoReflectType.Elem(), unkSF: -1}
	si.msgs = append(si.msgs, mi)
	si.byName[md.FullName()] = mi
	mi.pulsar = strings.Contains(fmt.Sprintf("%T", reflect.New(mi.goType).Interface().(proto.Message).ProtoReflect()), "fastReflection_")
	byNum := map[int]int{}
	oneofSF := map[string]int{}
	for i := 0; i < mi.goType.NumField(); i++ {
		sf := mi.goType.Field(i)
		if t, ok := sf.Tag.Lookup("protobuf"); ok {
			byNum[tagNumber(t)] = i
		}
		if t, ok := sf.Tag.Lookup("protobuf_oneof"); ok {
			oneofSF[t] = i
		}
		if sf.Name == "unknownFields" {
			mi.unkSF = i
		}
	}
	wrap := map[int]reflect.Type{}
	for _, w := range info.OneofWrappers {
		wt := reflect.TypeOf(w)
		if t, ok := wt.Elem().Field(0).Tag.Lookup("protobuf"); ok {
			wrap[tagNumber(t)] = wt
		}
	}
	fds := md.Fields()
	for i := 0; i < fds.Len(); i++ {
		fd := fds.Get(i)
		fi := fieldInfo{fd: fd, oneofIdx: realOneofIndex(fd)}
		if fi.oneofIdx >= 0 {
			fi.sf = oneofSF[string(fd.ContainingOneof().Name())]
			fi.wrapper = wrap[int(fd.Number())]
		} else {
			fi.sf = byNum[int(fd.Number())]
		}
		mi.fields = append(mi.fields, fi)
	}
	for i := 0; i < fds.Len(); i++ {
		fd := fds.Get(i)
		if fd.IsMap() {
			if vm := fd.MapValue().Message(); vm != nil {
				si.add(vm)
			}
		} else if m := fd.Message(); m != nil {
			si.add(m)
		}
	}
	return mi
}

func newSchema(id string, roots []protoreflect.MessageDescriptor) *schemaInfo {
	si := &schemaInfo{id: id, byName: map[protoreflect.FullName]*msgInfo{}}
	for _, r := range roots {
		si.add(r)
	}
	return si
}

var kindNames = map[protoreflect.Kind]string{
	protoreflect.DoubleKind: "double", protoreflect.FloatKind: "float", protoreflect.Int32Kind: "int32", protoreflect.Int64Kind: "int64",
	protoreflect.Uint32Kind: "uint32", protoreflect.Uint64Kind: "uint64", protoreflect.Sint32Kind: "sint32", protoreflect.Sint64Kind: "sint64",
	protoreflect.Fixed32Kind: "fixed32", protoreflect.Fixed64Kind: "fixed64", protoreflect.Sfixed32Kind: "sfixed32", protoreflect.Sfixed64Kind: "sfixed64",
	protoreflect.BoolKind: "bool", protoreflect.StringKind: "string", protoreflect.BytesKind: "bytes", protoreflect.EnumKind: "enum",
}

func (si *schemaInfo) typeTok(fd protoreflect.FieldDescriptor) string {
	if fd.Kind() == protoreflect.MessageKind || fd.Kind() == protoreflect.GroupKind {
		return "@" + strconv.Itoa(si.byName[fd.Message().FullName()].idx)
	}
	return kindNames[fd.Kind()]
}

// sexp renders the schema for the model: (M p|g <noneofs> (F num type shape)...)...
func (si *schemaInfo) sexp() string {
	var sb strings.Builder
	for _, mi := range si.msgs {
		impl := "g"
		if mi.pulsar {
			impl = "p"
		}
		nOne := 0
		for i := 0; i < mi.md.Oneofs().Len(); i++ {
			if !mi.md.Oneofs().Get(i).IsSynthetic() {
				nOne++
			}
		}
		fmt.Fprintf(&sb, "(M %s %d", impl, nOne)
		for _, fi := range mi.fields {
			fd := fi.fd
			var ty, shape string
			switch {
			case fd.IsMap():
				ty = si.typeTok(fd.MapValue())
				shape = "m" + kindNames[fd.MapKey().Kind()]
			case fd.IsList():
				ty = si.typeTok(fd)
				if fd.IsPacked() {
					shape = "rp"
				} else {
					shape = "ru"
				}
			case fi.oneofIdx >= 0:
				ty = si.typeTok(fd)
				shape = "o" + strconv.Itoa(fi.oneofIdx)
			default:
				ty = si.typeTok(fd)
				shape = "s"
			}
			fmt.Fprintf(&sb, " (F %d %s %s)", fd.Number(), ty, shape)
		}
		sb.WriteString(") ")
	}
	return sb.String()
}

// ---- V <-> Go struct through reflect ---------------------------------------------------------
func scalarToGo(fd protoreflect.FieldDescriptor, v *V, t reflect.Type) reflect.Value {
	r := reflect.New(t).Elem()
	switch fd.Kind() {
	case protoreflect.BoolKind:
		r.SetBool(v.K == 't')
	case protoreflect.Int32Kind, protoreflect.Sint32Kind, protoreflect.Sfixed32Kind, protoreflect.Int64Kind, protoreflect.Sint64Kind, protoreflect.Sfixed64Kind, protoreflect.EnumKind:
		r.SetInt(v.I)
	case protoreflect.Uint32Kind, protoreflect.Fixed32Kind, protoreflect.Uint64Kind, protoreflect.Fixed64Kind:
		r.SetUint(v.U)
	case protoreflect.FloatKind:
		r.SetFloat(float64(math.Float32frombits(uint32(v.U))))
		// SetFloat goes through float64; restore exact bits (signalling NaNs)
		*(*uint32)(unsafe.Pointer(r.UnsafeAddr())) = uint32(v.U)
	case protoreflect.DoubleKind:
		*(*uint64)(unsafe.Pointer(r.UnsafeAddr())) = v.U
	case protoreflect.StringKind:
		r.SetString(string(v.B))
	case protoreflect.BytesKind:
		if v.K == 'n' {
			// nil slice
		} else {
			r.SetBytes(append([]byte{}, v.B...))
		}
	}
	return r
}

func scalarFromGo(fd protoreflect.FieldDescriptor, r reflect.Value) *V {
	switch fd.Kind() {
	case protoreflect.BoolKind:
		return vBool(r.Bool())
	case protoreflect.Int32Kind, protoreflect.Sint32Kind, protoreflect.Sfixed32Kind, protoreflect.Int64Kind, protoreflect.Sint64Kind, protoreflect.Sfixed64Kind, protoreflect.EnumKind:
		return vInt(r.Int())
	case protoreflect.Uint32Kind, protoreflect.Fixed32Kind, protoreflect.Uint64Kind, protoreflect.Fixed64Kind:
		return vUint(r.Uint())
	case protoreflect.FloatKind:
		return vBits(uint64(math.Float32bits(float32(r.Float()))) | 0) // see floatBits below
	case protoreflect.DoubleKind:
		return vBits(math.Float64bits(r.Float()))
	case protoreflect.StringKind:
		return vBytes([]byte(r.String()))
	case protoreflect.BytesKind:
		if r.IsNil() {
			return vNil
		}
		return vBytes(r.Bytes())
	}
	panic("kind")
}

// exact float32 bits of a reflect float32 value (reflect.Float() widens and may quiet an sNaN)
func float32Bits(r reflect.Value) uint64 {
	if r.CanAddr() {
		return uint64(*(*uint32)(unsafe.Pointer(r.UnsafeAddr())))
	}
	c := reflect.New(r.Type()).Elem()
	c.Set(r)
	return uint64(*(*uint32)(unsafe.Pointer(c.UnsafeAddr())))
}

func (si *schemaInfo) elemToGo(fd protoreflect.FieldDescriptor, v *V, t reflect.Type) reflect.Value {
	if fd.Kind() == protoreflect.MessageKind {
		if v.K == 'n' {
			return reflect.Zero(t)
		}
		return si.toGo(si.byName[fd.Message().FullName()], v)
	}
	return scalarToGo(fd, v, t)
}
func (si *schemaInfo) elemFromGo(fd protoreflect.FieldDescriptor, r reflect.Value) *V {
	if fd.Kind() == protoreflect.MessageKind {
		if r.IsNil() {
			return vNil
		}
		return si.fromGo(si.byName[fd.Message().FullName()], r)
	}
	if fd.Kind() == protoreflect.FloatKind {
		return vBits(float32Bits(r))
	}
	return scalarFromGo(fd, r)
}

// presScalar: a singular scalar with explicit presence outside a oneof (proto2 optional / required; Go field *T, or []byte
// where nil = unset): the value 'n' stands for "unset", any other for "set to" (zero values included).
func presScalar(fd protoreflect.FieldDescriptor) bool {
	return fd.Message() == nil && !fd.IsList() && !fd.IsMap() && fd.HasPresence() && realOneofIndex(fd) < 0
}

// toGo builds *T from a message value.
func (si *schemaInfo) toGo(mi *msgInfo, v *V) reflect.Value {
	p := reflect.New(mi.goType)
	s := p.Elem()
	for i, fi := range mi.fields {
		sv := v.L[i]
		fd := fi.fd
		f := s.Field(fi.sf)
		switch {
		case fd.IsMap():
			if sv.K == 'n' {
				continue
			}
			m := reflect.MakeMap(f.Type())
			for j := 0; j+1 < len(sv.L); j += 2 {
				k := scalarToGo(fd.MapKey(), sv.L[j], f.Type().Key())
				m.SetMapIndex(k, si.elemToGo(fd.MapValue(), sv.L[j+1], f.Type().Elem()))
			}
			f.Set(m)
		case fd.IsList():
			if sv.K == 'n' {
				continue
			}
			sl := reflect.MakeSlice(f.Type(), 0, len(sv.L))
			for _, e := range sv.L {
				sl = reflect.Append(sl, si.elemToGo(fd, e, f.Type().Elem()))
			}
			f.Set(sl)
		case fi.oneofIdx >= 0:
			if sv.K != 's' {
				continue
			}
			w := reflect.New(fi.wrapper.Elem())
			w.Elem().Field(0).Set(si.elemToGo(fd, sv.P, w.Elem().Field(0).Type()))
			f.Set(w)
		case f.Kind() == reflect.Ptr && fd.Message() == nil:
			// explicit-presence scalar (*T): nil = unset
			if sv.K != 'n' {
				pv := reflect.New(f.Type().Elem())
				pv.Elem().Set(scalarToGo(fd, sv, f.Type().Elem()))
				f.Set(pv)
			}
		default:
			f.Set(si.elemToGo(fd, sv, f.Type()))
		}
	}
	if len(v.Unk) > 0 && mi.unkSF >= 0 {
		uf := s.Field(mi.unkSF)
		reflect.NewAt(uf.Type(), unsafe.Pointer(uf.UnsafeAddr())).Elem().SetBytes(append([]byte{}, v.Unk...))
	}
	return p
}

// fromGo reads *T back into a message value (map entries sorted by key).
func (si *schemaInfo) fromGo(mi *msgInfo, p reflect.Value) *V {
	s := p.Elem()
	out := &V{K: 'm'}
	for _, fi := range mi.fields {
		fd := fi.fd
		f := s.Field(fi.sf)
		switch {
		case fd.IsMap():
			if f.IsNil() {
				out.L = append(out.L, vNil)
				continue
			}
			mv := &V{K: 'p'}
			it := f.MapRange()
			for it.Next() {
				mv.L = append(mv.L, scalarFromGo(fd.MapKey(), it.Key()), si.elemFromGo(fd.MapValue(), it.Value()))
			}
			sortMap(mv)
			out.L = append(out.L, mv)
		case fd.IsList():
			if f.IsNil() {
				out.L = append(out.L, vNil)
				continue
			}
			lv := &V{K: 'l'}
			for j := 0; j < f.Len(); j++ {
				lv.L = append(lv.L, si.elemFromGo(fd, f.Index(j)))
			}
			out.L = append(out.L, lv)
		case fi.oneofIdx >= 0:
			if f.IsNil() || f.Elem().Type() != fi.wrapper {
				out.L = append(out.L, vNil)
				continue
			}
			if f.Elem().IsNil() { // typed nil wrapper: treated as unset
				out.L = append(out.L, vNil)
				continue
			}
			out.L = append(out.L, &V{K: 's', P: si.elemFromGo(fd, f.Elem().Elem().Field(0))})
		case f.Kind() == reflect.Ptr && fd.Message() == nil:
			if f.IsNil() {
				out.L = append(out.L, vNil)
			} else {
				out.L = append(out.L, si.elemFromGo(fd, f.Elem()))
			}
		default:
			out.L = append(out.L, si.elemFromGo(fd, f))
		}
	}
	if mi.unkSF >= 0 {
		uf := s.Field(mi.unkSF)
		out.Unk = append([]byte{}, uf.Bytes()...)
	} else {
		out.Unk = append([]byte{}, p.Interface().(proto.Message).ProtoReflect().GetUnknown()...)
	}
	return out
}

// foreignNorm: decoded values only. Inside a message of a type protobuf-go decodes itself (well-known types), nil vs
// empty for a singular implicit-presence bytes field is protobuf-go's representation (its table decoder stores nil for an
// empty payload), not the generated code's: rendered nil on both sides (driver: foreign_norm). In place; returns v.
func (si *schemaInfo) foreignNorm(mi *msgInfo, v *V) *V {
	if v == nil || v.K != 'm' {
		return v
	}
	for i, fi := range mi.fields {
		if i >= len(v.L) {
			break
		}
		fd := fi.fd
		e := v.L[i]
		if fd.IsMap() && fd.MapValue().Kind() != protoreflect.MessageKind {
			continue
		}
		if fd.Kind() == protoreflect.MessageKind {
			var cmi *msgInfo
			if fd.IsMap() {
				cmi = si.byName[fd.MapValue().Message().FullName()]
			} else {
				cmi = si.byName[fd.Message().FullName()]
			}
			if cmi == nil {
				continue
			}
			switch e.K {
			case 'm':
				si.foreignNorm(cmi, e)
			case 's':
				si.foreignNorm(cmi, e.P)
			case 'l':
				for _, x := range e.L {
					si.foreignNorm(cmi, x)
				}
			case 'p':
				for j := 1; j < len(e.L); j += 2 {
					si.foreignNorm(cmi, e.L[j])
				}
			}
			continue
		}
		if !mi.pulsar && fd.Kind() == protoreflect.BytesKind && !fd.IsList() && !fd.IsMap() && fi.oneofIdx < 0 && !fd.HasPresence() && e.K == 'b' && len(e.B) == 0 {
			v.L[i] = vNil
		}
	}
	return v
}

// ---- V <-> dynamicpb (the reference implementation holding "the same value") ----------------
func scalarToPR(fd protoreflect.FieldDescriptor, v *V) protoreflect.Value {
	switch fd.Kind() {
	case protoreflect.BoolKind:
		return protoreflect.ValueOfBool(v.K == 't')
	case protoreflect.Int32Kind, protoreflect.Sint32Kind, protoreflect.Sfixed32Kind:
		return protoreflect.ValueOfInt32(int32(v.I))
	case protoreflect.Int64Kind, protoreflect.Sint64Kind, protoreflect.Sfixed64Kind:
		return protoreflect.ValueOfInt64(v.I)
	case protoreflect.Uint32Kind, protoreflect.Fixed32Kind:
		return protoreflect.ValueOfUint32(uint32(v.U))
	case protoreflect.Uint64Kind, protoreflect.Fixed64Kind:
		return protoreflect.ValueOfUint64(v.U)
	case protoreflect.EnumKind:
		return protoreflect.ValueOfEnum(protoreflect.EnumNumber(v.I))
	case protoreflect.FloatKind:
		return protoreflect.ValueOfFloat32(math.Float32frombits(uint32(v.U)))
	case protoreflect.DoubleKind:
		return protoreflect.ValueOfFloat64(math.Float64frombits(v.U))
	case protoreflect.StringKind:
		return protoreflect.ValueOfString(string(v.B))
	case protoreflect.BytesKind:
		return protoreflect.ValueOfBytes(append([]byte{}, v.B...))
	}
	panic("kind")
}
func scalarFromPR(fd protoreflect.FieldDescriptor, pv protoreflect.Value) *V {
	switch fd.Kind() {
	case protoreflect.BoolKind:
		return vBool(pv.Bool())
	case protoreflect.Int32Kind, protoreflect.Sint32Kind, protoreflect.Sfixed32Kind, protoreflect.Int64Kind, protoreflect.Sint64Kind, protoreflect.Sfixed64Kind:
		return vInt(pv.Int())
	case protoreflect.Uint32Kind, protoreflect.Fixed32Kind, protoreflect.Uint64Kind, protoreflect.Fixed64Kind:
		return vUint(pv.Uint())
	case protoreflect.EnumKind:
		return vInt(int64(pv.Enum()))
	case protoreflect.FloatKind:
		return vBits(uint64(math.Float32bits(float32(pv.Float()))))
	case protoreflect.DoubleKind:
		return vBits(math.Float64bits(pv.Float()))
	case protoreflect.StringKind:
		return vBytes([]byte(pv.String()))
	case protoreflect.BytesKind:
		return vBytes(pv.Bytes())
	}
	panic("kind")
}

// toDyn builds a dynamicpb message holding the value (nil containers and nil payloads become
// empty: that is all a reference message can hold).
func (si *schemaInfo) toDyn(mi *msgInfo, v *V) *dynamicpb.Message {
	m := dynamicpb.NewMessage(mi.md)
	for i, fi := range mi.fields {
		sv := v.L[i]
		fd := fi.fd
		elem := func(efd protoreflect.FieldDescriptor, e *V) protoreflect.Value {
			if efd.Kind() == protoreflect.MessageKind {
				cmi := si.byName[efd.Message().FullName()]
				if e.K == 'n' {
					return protoreflect.ValueOfMessage(dynamicpb.NewMessage(cmi.md))
				}
				return protoreflect.ValueOfMessage(si.toDyn(cmi, e))
			}
			return scalarToPR(efd, e)
		}
		switch {
		case fd.IsMap():
			if sv.K == 'n' {
				continue
			}
			mp := m.Mutable(fd).Map()
			for j := 0; j+1 < len(sv.L); j += 2 {
				mp.Set(scalarToPR(fd.MapKey(), sv.L[j]).MapKey(), elem(fd.MapValue(), sv.L[j+1]))
			}
		case fd.IsList():
			if sv.K == 'n' {
				continue
			}
			l := m.Mutable(fd).List()
			for _, e := range sv.L {
				l.Append(elem(fd, e))
			}
		case fi.oneofIdx >= 0:
			if sv.K == 's' {
				m.Set(fd, elem(fd, sv.P))
			}
		case fd.Kind() == protoreflect.MessageKind:
			if sv.K != 'n' {
				m.Set(fd, elem(fd, sv))
			}
		default:
			// proto3 singular scalar: setting the zero value leaves it unpopulated in dynamicpb
			if sv.K == 'n' {
				continue
			}
			m.Set(fd, scalarToPR(fd, sv))
		}
	}
	if len(v.Unk) > 0 {
		m.SetUnknown(append([]byte{}, v.Unk...))
	}
	return m
}

// fromPR reads any protoreflect.Message into a *normalised* value (see normV).
func (si *schemaInfo) fromPR(mi *msgInfo, m protoreflect.Message) *V {
	out := &V{K: 'm'}
	elem := func(efd protoreflect.FieldDescriptor, pv protoreflect.Value) *V {
		if efd.Kind() == protoreflect.MessageKind {
			return si.fromPR(si.byName[efd.Message().FullName()], pv.Message())
		}
		return scalarFromPR(efd, pv)
	}
	for _, fi := range mi.fields {
		fd := fi.fd
		switch {
		case fd.IsMap():
			mv := &V{K: 'p'}
			m.Get(fd).Map().Range(func(k protoreflect.MapKey, v protoreflect.Value) bool {
				mv.L = append(mv.L, scalarFromPR(fd.MapKey(), k.Value()), elem(fd.MapValue(), v))
				return true
			})
			sortMap(mv)
			out.L = append(out.L, mv)
		case fd.IsList():
			lv := &V{K: 'l'}
			l := m.Get(fd).List()
			for j := 0; j < l.Len(); j++ {
				lv.L = append(lv.L, elem(fd, l.Get(j)))
			}
			out.L = append(out.L, lv)
		case fi.oneofIdx >= 0:
			if m.Has(fd) {
				out.L = append(out.L, &V{K: 's', P: elem(fd, m.Get(fd))})
			} else {
				out.L = append(out.L, vNil)
			}
		case fd.Kind() == protoreflect.MessageKind:
			if m.Has(fd) {
				out.L = append(out.L, elem(fd, m.Get(fd)))
			} else {
				out.L = append(out.L, vNil)
			}
		case presScalar(fd) && !m.Has(fd):
			out.L = append(out.L, vNil)
		default:
			out.L = append(out.L, scalarFromPR(fd, m.Get(fd)))
		}
	}
	out.Unk = append([]byte{}, m.GetUnknown()...)
	return out
}

// normV identifies what the wire and proto.Equal identify: nil and empty containers, nil and empty
// bytes, nil payloads (list elements, map values, oneof wrappers) and empty messages.
func (si *schemaInfo) normV(mi *msgInfo, v *V) *V {
	out := &V{K: 'm', Unk: v.Unk}
	elem := func(efd protoreflect.FieldDescriptor, e *V) *V {
		if efd.Kind() == protoreflect.MessageKind {
			cmi := si.byName[efd.Message().FullName()]
			if e.K == 'n' {
				return si.normV(cmi, si.emptyV(cmi))
			}
			return si.normV(cmi, e)
		}
		if e.K == 'n' {
			return vBytes(nil)
		}
		if efd.Kind() == protoreflect.FloatKind && e.K == 'x' && uint32(e.U)&0x7f800000 == 0x7f800000 && uint32(e.U)&0x007fffff != 0 {
			// protoreflect.Value holds a float32 as float64: the conversion quiets signalling NaNs, so
			// the reference cannot represent them; compared as "the same NaN up to the quiet bit"
			return vBits(e.U | 0x00400000)
		}
		return e
	}
	for i, fi := range mi.fields {
		sv := v.L[i]
		fd := fi.fd
		switch {
		case fd.IsMap():
			mv := &V{K: 'p'}
			if sv.K == 'p' {
				for j := 0; j+1 < len(sv.L); j += 2 {
					mv.L = append(mv.L, sv.L[j], elem(fd.MapValue(), sv.L[j+1]))
				}
				sortMap(mv)
			}
			out.L = append(out.L, mv)
		case fd.IsList():
			lv := &V{K: 'l'}
			if sv.K == 'l' {
				for _, e := range sv.L {
					lv.L = append(lv.L, elem(fd, e))
				}
			}
			out.L = append(out.L, lv)
		case fi.oneofIdx >= 0:
			if sv.K == 's' {
				out.L = append(out.L, &V{K: 's', P: elem(fd, sv.P)})
			} else {
				out.L = append(out.L, vNil)
			}
		case fd.Kind() == protoreflect.MessageKind:
			if sv.K == 'n' {
				out.L = append(out.L, vNil)
			} else {
				out.L = append(out.L, elem(fd, sv))
			}
		case presScalar(fd) && sv.K == 'n':
			out.L = append(out.L, vNil) // unset is not the empty string
		default:
			out.L = append(out.L, elem(fd, sv))
		}
	}
	return out
}

func zeroScalarV(fd protoreflect.FieldDescriptor) *V {
	switch fd.Kind() {
	case protoreflect.BoolKind:
		return vBool(false)
	case protoreflect.FloatKind, protoreflect.DoubleKind:
		return vBits(0)
	case protoreflect.StringKind:
		return vBytes(nil)
	case protoreflect.BytesKind:
		return vNil
	case protoreflect.Uint32Kind, protoreflect.Fixed32Kind, protoreflect.Uint64Kind, protoreflect.Fixed64Kind:
		return vUint(0)
	}
	return vInt(0)
}

func (si *schemaInfo) emptyV(mi *msgInfo) *V {
	out := &V{K: 'm'}
	for _, fi := range mi.fields {
		fd := fi.fd
		if fd.IsMap() || fd.IsList() || fi.oneofIdx >= 0 || fd.Kind() == protoreflect.MessageKind || presScalar(fd) {
			out.L = append(out.L, vNil)
		} else {
			out.L = append(out.L, zeroScalarV(fd))
		}
	}
	return out
}
