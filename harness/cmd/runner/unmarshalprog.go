package main

// Engine "unmarshalprog" — translator tie for the generated Unmarshal closures (coq/Model/UnmarshalProg.v), built like "sizeprog"
// and "marshalprog".
//
// On every run, for every message type of every loaded schema set, the Go SOURCE of the
//     unmarshal := func(input protoiface.UnmarshalInput) (protoiface.UnmarshalOutput, error) { … }
// closure in  func (x *fastReflection_<Msg>) ProtoMethods()  (checked-in *.pulsar.go under VERIF_REPO, freshly generated ones
// under harness/gen/<set>/) is parsed with go/parser and turned, statement by statement and purely syntactically, into a program
// of the language of Model/UnmarshalProg.v. The driver compares it with canon_unmarshal of the schema (UNMARSHALPROG lines), and
// runs it with the Coq interpreter on sample inputs against proto.UnmarshalOptions{…}.Unmarshal of the linked code (UNMARSHALRUN).
//
// Case lines (evaluated by driver/unmarshalprog_eval.ml, which also documents the text form of programs):
//	UNMARSHALPROG  <set> <msg idx> len | t<k> | n | l<k> | cases | c<N> | default   = the parts of the translated program
//	               (top-level statements; the statements of the outer loop; the clauses of `switch fieldNum`), or, for `len`,
//	               untranslatable:<file>:<line>:<col>:<why>
//	@UNMARSHALDEF  <set> <msg idx> <prog>  = ok       context line: the whole translated program, remembered by every driver shard
//	UNMARSHALPROG  <set> <msg idx> eqb     = same     (model: uprog_eqb <translated> (canon_unmarshal sch idx))
//	UNMARSHALRUN   <set> <msg idx> <flags> <limit> <hex input> <init VAL | -> = ok VAL | err | panic
//
// The translator knows a fixed list of statement and expression shapes (one per form the template prints); anything else makes the
// message "untranslatable". Matched literally, token by token, against the template's text: the varint block (eleven lines, with
// the target and the Go type taken from its `|=` line), `return protoiface.UnmarshalOutput{NoUnkeyedLiterals: input.NoUnkeyedLiterals}, <e>`
// with the seven forms of <e> (the fmt.Errorf formats carry the Go name of the message / of the field: checked), the nil check of x,
// the five lines from `options := …` to `iNdEx := 0`, `skippy, err := runtime.Skip(dAtA[…:])` with its error return, the
// `if err := options.Unmarshal(dAtA[…:…], …); err != nil {…}` statement, the oneof re-use `if o, ok := x.<O>.(*<W>); ok && o.<F> != nil { v = o.<F> }`,
// the element-count `for _, integer := range dAtA[…:…] { if integer < 128 { count++ } }`, the two zig-zag expressions, and the type
// arguments of make / &T{} / wrapper literals (against the Go struct through package reflect). iNdEx, l, dAtA, options, input and x
// must be the closure's own (go/parser's identifier resolution); the template's locals are passed on by name — the interpreter
// scopes them as Go does.

import (
	"fmt"
	"go/ast"
	"go/token"
	"path/filepath"
	"reflect"
	"strconv"
	"strings"

	"google.golang.org/protobuf/encoding/protowire"
	"google.golang.org/protobuf/proto"
	"google.golang.org/protobuf/reflect/protoreflect"
)

func init() { engines["unmarshalprog"] = engineUnmarshalProg }

// ---- s-expressions -----------------------------------------------------------------------------------------------------------
type ux struct {
	a string
	l []*ux
}

func ua(s string) *ux { return &ux{a: s} }
func ul(head string, xs ...*ux) *ux {
	return &ux{l: append([]*ux{ua(head)}, xs...)}
}
func (x *ux) write(sb *strings.Builder) {
	if x.l == nil {
		sb.WriteString(x.a)
		return
	}
	sb.WriteByte('(')
	for i, e := range x.l {
		if i > 0 {
			sb.WriteByte(' ')
		}
		e.write(sb)
	}
	sb.WriteByte(')')
}
func (x *ux) String() string {
	var sb strings.Builder
	x.write(&sb)
	return sb.String()
}
func (x *ux) head() string {
	if x.l != nil && len(x.l) > 0 && x.l[0].l == nil {
		return x.l[0].a
	}
	return ""
}
func uxJoin(xs []*ux) string {
	ss := make([]string, len(xs))
	for i, x := range xs {
		ss[i] = x.String()
	}
	return strings.Join(ss, " ")
}

// ---- the translator ----------------------------------------------------------------------------------------------------------
var upLocals = map[string]bool{}

func init() {
	for _, n := range []string{"wire", "fieldNum", "wireType", "preIndex", "v", "v2", "b", "msglen", "stringLen", "intStringLen", "postIndex",
		"byteLen", "packedLen", "elementCount", "count", "entryPreIndex", "mapmsglen", "postmsgIndex", "mapbyteLen", "intMapbyteLen",
		"postbytesIndex", "skippy"} {
		upLocals[n] = true
	}
	for _, kv := range []string{"mapkey", "mapvalue"} {
		for _, n := range []string{kv, kv + "temp", "stringLen" + kv, "intStringLen" + kv, "postStringIndex" + kv} {
			upLocals[n] = true
		}
	}
}

var upBuiltinTypes = map[string]string{"uint64": "u64", "uint32": "u32", "int64": "i64", "int32": "i32", "int": "int", "bool": "bool",
	"float64": "f64", "float32": "f32", "string": "string"}

type upTr struct {
	*spTr
	si       *schemaInfo
	mi       *msgInfo
	tname    string
	pi, rt   string
	body     *ast.BlockStmt // the closure's body
	objInput *ast.Object
	objX     *ast.Object
	objOpt   *ast.Object
	objD     *ast.Object
	objL     *ast.Object
	objIdx   *ast.Object
	names    map[string]int // Go name of a field (struct field / wrapper payload field) -> field index
	goName   map[int]string
	enumTy   map[string]bool // source text of the enum Go types of this message's fields
	msgTy    map[string]int  // source text of the message Go types of this message's fields -> message index
}

func (t *upTr) isObj(e ast.Expr, name string, obj *ast.Object) bool {
	id, ok := mpUnparen(e).(*ast.Ident)
	return ok && id.Name == name && id.Obj == obj && obj != nil
}
func (t *upTr) isIdx(e ast.Expr) bool  { return t.isObj(e, "iNdEx", t.objIdx) }
func (t *upTr) isData(e ast.Expr) bool { return t.isObj(e, "dAtA", t.objD) }
func (t *upTr) isX(e ast.Expr) bool    { return t.isObj(e, "x", t.objX) }

// a local of the template, declared inside the closure
func (t *upTr) local(e ast.Expr) (string, bool) {
	id, ok := e.(*ast.Ident)
	if !ok || !upLocals[id.Name] {
		return "", false
	}
	return id.Name, true
}
func (t *upTr) useLocal(id *ast.Ident) string {
	if !upLocals[id.Name] {
		t.fail(id, "identifier %s is not one of the template's locals", id.Name)
	}
	if id.Obj == nil || id.Obj.Pos() < t.body.Pos() || id.Obj.Pos() > t.body.End() {
		t.fail(id, "%s is not declared inside the closure", id.Name)
	}
	return id.Name
}

// source text of a Go type as this file writes it
func (t *upTr) typeText(rt reflect.Type) string {
	switch rt.Kind() {
	case reflect.Ptr:
		return "*" + t.typeText(rt.Elem())
	case reflect.Slice:
		if rt.Elem().Kind() == reflect.Uint8 && rt.Elem().PkgPath() == "" {
			return "[]byte"
		}
		return "[]" + t.typeText(rt.Elem())
	case reflect.Map:
		return "map[" + t.typeText(rt.Key()) + "]" + t.typeText(rt.Elem())
	}
	if rt.PkgPath() == "" {
		return rt.Name()
	}
	if rt.PkgPath() == t.mi.goType.PkgPath() {
		return rt.Name()
	}
	if n := t.f.imports[rt.PkgPath()]; n != "" {
		return n + "." + rt.Name()
	}
	return "?" + rt.String()
}

// the Go type of field i as the struct (or the oneof wrapper) declares it
func (t *upTr) fieldType(i int) reflect.Type {
	fi := t.mi.fields[i]
	if fi.oneofIdx >= 0 {
		return fi.wrapper.Elem().Field(0).Type
	}
	return t.mi.goType.Field(fi.sf).Type
}

// x.<F> with F a field outside oneofs
func (t *upTr) plainField(e ast.Expr) (int, bool) {
	se, ok := mpUnparen(e).(*ast.SelectorExpr)
	if !ok || !t.isX(se.X) {
		return 0, false
	}
	i, ok := t.plain[se.Sel.Name]
	return i, ok
}
func (t *upTr) fref(i int) *ux { return ua("f" + strconv.Itoa(i)) }

// dAtA[lo:hi] / dAtA[lo:]
func (t *upTr) sliceOf(e ast.Expr, open bool) (lo, hi *ux) {
	se, ok := e.(*ast.SliceExpr)
	if !ok || !t.isData(se.X) || se.Slice3 || se.Max != nil || se.Low == nil || (se.High == nil) != open {
		if open {
			t.fail(e, "expected dAtA[<lo>:]")
		}
		t.fail(e, "expected dAtA[<lo>:<hi>]")
	}
	lo = t.expr(se.Low)
	if !open {
		hi = t.expr(se.High)
	}
	return
}

func (t *upTr) intLit(e ast.Expr) (string, bool) {
	l, ok := e.(*ast.BasicLit)
	if !ok || l.Kind != token.INT {
		return "", false
	}
	u, err := strconv.ParseUint(l.Value, 0, 62)
	if err != nil {
		return "", false
	}
	return strconv.FormatUint(u, 10), true
}

// the identifiers named name inside n all are the local in scope
func (t *upTr) checkUses(n ast.Node, name string) {
	ast.Inspect(n, func(m ast.Node) bool {
		if id, ok := m.(*ast.Ident); ok && id.Name == name {
			t.useLocal(id)
		}
		return true
	})
}

func (t *upTr) expr(e ast.Expr) *ux {
	switch v := e.(type) {
	case *ast.ParenExpr:
		return t.expr(v.X)
	case *ast.BasicLit:
		if s, ok := t.intLit(e); ok {
			return ua(s)
		}
		t.fail(e, "literal %s", v.Value)
	case *ast.Ident:
		switch {
		case t.isIdx(v):
			return ua("iNdEx")
		case t.isObj(v, "l", t.objL):
			return ua("l")
		}
		return ua(t.useLocal(v))
	case *ast.BinaryExpr:
		switch v.Op {
		case token.ADD:
			return ul("+", t.expr(v.X), t.expr(v.Y))
		case token.SUB:
			return ul("-", t.expr(v.X), t.expr(v.Y))
		case token.QUO, token.SHR, token.AND:
			n, ok := t.intLit(v.Y)
			if !ok {
				t.fail(e, "right operand of %s is not an integer literal", v.Op)
			}
			return ul(map[token.Token]string{token.QUO: "/", token.SHR: ">>", token.AND: "&"}[v.Op], t.expr(v.X), ua(n))
		case token.NEQ:
			if spZero(v.Y) {
				return ul("ne0", t.expr(v.X))
			}
			t.fail(e, "!= with something other than 0 in an expression")
		case token.XOR:
			// (X >> 1) ^ uint64((int64(X&1)<<63)>>63)
			toks := spToks(t.text(e))
			if len(toks) > 1 && upLocals[toks[1]] {
				X := toks[1]
				if spSame(t.text(e), "("+X+" >> 1) ^ uint64((int64("+X+"&1)<<63)>>63)") {
					t.checkUses(e, X)
					return ul("unzig64", ua(X))
				}
			}
			t.fail(e, "^ expression is not the template's 64-bit zig-zag decoding")
		}
		t.fail(e, "operator %s", v.Op)
	case *ast.SliceExpr:
		lo, hi := t.sliceOf(e, false)
		return ul("slice", lo, hi)
	case *ast.UnaryExpr:
		// &T{}
		if cl, ok := v.X.(*ast.CompositeLit); ok && v.Op == token.AND && len(cl.Elts) == 0 && cl.Type != nil {
			if m, ok := t.msgTy[string(t.text(cl.Type))]; ok {
				return ul("newmsg", ua(strconv.Itoa(m)))
			}
			t.fail(e, "&%s{}: not the Go type of a message field of this message", t.text(cl.Type))
		}
		t.fail(e, "unary %s expression", v.Op)
	case *ast.CompositeLit:
		if spSame(t.text(e), "[]byte{}") {
			return ua("emptybytes")
		}
		t.fail(e, "composite literal %s", t.text(e))
	case *ast.CallExpr:
		if v.Ellipsis.IsValid() {
			t.fail(e, "call with ...")
		}
		if id, ok := v.Fun.(*ast.Ident); ok && id.Obj == nil {
			switch {
			case id.Name == "int32" && len(v.Args) == 1:
				// int32((uint32(X) >> 1) ^ uint32(((X&1)<<31)>>31))
				if be, ok := mpUnparen(v.Args[0]).(*ast.BinaryExpr); ok && be.Op == token.XOR {
					toks := spToks(t.text(e))
					if len(toks) > 5 && upLocals[toks[5]] {
						X := toks[5]
						if spSame(t.text(e), "int32((uint32("+X+") >> 1) ^ uint32((("+X+"&1)<<31)>>31))") {
							t.checkUses(e, X)
							return ul("unzig32", ua(X))
						}
					}
					t.fail(e, "^ expression is not the template's 32-bit zig-zag decoding")
				}
			case id.Name == "len" && len(v.Args) == 1:
				i, ok := t.plainField(v.Args[0])
				if !ok {
					t.fail(e, "len of something other than x.<Field>")
				}
				return ul("len", t.fref(i))
			case id.Name == "make":
				if len(v.Args) == 2 && spSame(t.text(v.Args[0]), "[]byte") {
					return ul("makebytes", t.expr(v.Args[1]))
				}
				t.fail(e, "make(%s…) in an expression", t.text(v.Args[0]))
			}
			if g, ok := upBuiltinTypes[id.Name]; ok && len(v.Args) == 1 {
				return ul("conv", ua(g), t.expr(v.Args[0]))
			}
			t.fail(e, "call of %s", id.Name)
		}
		if len(v.Args) == 1 {
			switch {
			case t.pkgSel(v.Fun, "math", "Float64frombits"):
				return ul("f64bits", t.expr(v.Args[0]))
			case t.pkgSel(v.Fun, "math", "Float32frombits"):
				return ul("f32bits", t.expr(v.Args[0]))
			}
			if se, ok := v.Fun.(*ast.SelectorExpr); ok && t.pkgSel(se.X, "encoding/binary", "LittleEndian") {
				lo, _ := t.sliceOf(v.Args[0], true)
				switch se.Sel.Name {
				case "Uint64":
					return ul("le64", lo)
				case "Uint32":
					return ul("le32", lo)
				}
			}
		}
		t.fail(e, "call of %s", t.text(v.Fun))
	}
	t.fail(e, "expression of shape %T", e)
	return nil
}

func (t *upTr) cond(e ast.Expr) *ux {
	switch v := e.(type) {
	case *ast.ParenExpr:
		return t.cond(v.X)
	case *ast.UnaryExpr:
		if v.Op == token.NOT {
			if se, ok := v.X.(*ast.SelectorExpr); ok && se.Sel.Name == "DiscardUnknown" && t.isObj(se.X, "options", t.objOpt) {
				return ua("notdiscard")
			}
		}
		t.fail(e, "condition !… other than !options.DiscardUnknown")
	case *ast.BinaryExpr:
		switch v.Op {
		case token.LOR:
			return ul("or", t.cond(v.X), t.cond(v.Y))
		case token.LAND:
			return ul("and", t.cond(v.X), t.cond(v.Y))
		case token.LSS, token.LEQ, token.GTR, token.GEQ, token.EQL, token.NEQ:
			if mpBuiltin(v.Y, "nil") && v.Op == token.EQL {
				if i, ok := t.plainField(v.X); ok {
					return ul("nil", t.fref(i))
				}
				t.fail(e, "== nil on something other than x.<Field>")
			}
			if se, ok := v.X.(*ast.SelectorExpr); ok && se.Sel.Name == "Depth" && t.isObj(se.X, "input", t.objInput) {
				if v.Op == token.LEQ && spZero(v.Y) {
					return ua("depth<=0")
				}
				t.fail(e, "comparison of input.Depth other than <= 0")
			}
			return ul(v.Op.String(), t.expr(v.X), t.expr(v.Y))
		}
		t.fail(e, "condition with operator %s", v.Op)
	}
	t.fail(e, "condition of shape %T", e)
	return nil
}

// the second result of a return statement
func (t *upTr) retErr(e ast.Expr) *ux {
	switch {
	case mpBuiltin(e, "nil"):
		return ua("nil")
	case t.pkgSel(e, spRuntimePath, "ErrRecursionDepth"):
		return ua("recursion")
	case t.pkgSel(e, spRuntimePath, "ErrInvalidLength"):
		return ua("invalidlength")
	case t.pkgSel(e, "io", "ErrUnexpectedEOF"):
		return ua("eof")
	}
	if c, ok := e.(*ast.CallExpr); ok && t.pkgSel(c.Fun, "fmt", "Errorf") && len(c.Args) >= 1 {
		fm := t.f.imports["fmt"]
		txt := t.text(e)
		if spSame(txt, fm+`.Errorf("proto: `+t.tname+`: wiretype end group for non-group")`) {
			return ua("endgroup")
		}
		if spSame(txt, fm+`.Errorf("proto: `+t.tname+`: illegal tag %d (wire type %d)", fieldNum, wire)`) {
			t.checkUses(e, "fieldNum")
			t.checkUses(e, "wire")
			return ua("illegaltag")
		}
		if l, ok := c.Args[0].(*ast.BasicLit); ok && l.Kind == token.STRING {
			s, _ := strconv.Unquote(l.Value)
			const pre = "proto: wrong wireType = %d for field "
			if strings.HasPrefix(s, pre) {
				i, ok := t.names[strings.TrimPrefix(s, pre)]
				if ok && spSame(txt, fm+`.Errorf(`+strconv.Quote(s)+`, wireType)`) {
					t.checkUses(e, "wireType")
					return ul("wrongwire", ua(strconv.Itoa(i)))
				}
			}
		}
	}
	t.fail(e, "returned error %s is not one of the template's", t.text(e))
	return nil
}

func (t *upTr) outLit() string {
	return t.pi + ".UnmarshalOutput{NoUnkeyedLiterals: input.NoUnkeyedLiterals}"
}

// `input` inside n is the closure's parameter
func (t *upTr) checkInput(n ast.Node) {
	ast.Inspect(n, func(m ast.Node) bool {
		if id, ok := m.(*ast.Ident); ok && id.Name == "input" && id.Obj != t.objInput {
			t.fail(id, "input is not the closure's parameter")
		}
		return true
	})
}

// return protoiface.UnmarshalOutput{NoUnkeyedLiterals: input.NoUnkeyedLiterals}, <e>
func (t *upTr) ret(s *ast.ReturnStmt) *ux {
	if len(s.Results) != 2 || !spSame(t.text(s.Results[0]), t.outLit()) {
		t.fail(s, "return statement is not `return protoiface.UnmarshalOutput{NoUnkeyedLiterals: input.NoUnkeyedLiterals}, <error>`")
	}
	t.checkInput(s.Results[0])
	return ul("ret", t.retErr(s.Results[1]))
}

// the Go type written in the `|=` line of a varint block
func (t *upTr) gtyOf(e ast.Expr) *ux {
	if id, ok := e.(*ast.Ident); ok && id.Obj == nil {
		if g, ok := upBuiltinTypes[id.Name]; ok && strings.Contains("u64 u32 i64 i32 int", g) {
			return ua(g)
		}
	}
	if t.enumTy[string(t.text(e))] {
		return ua("enum")
	}
	t.fail(e, "%s is neither an integer type nor the enum type of a field of this message", t.text(e))
	return nil
}

// var x T
func (t *upTr) declType(e ast.Expr) *ux {
	if id, ok := e.(*ast.Ident); ok && id.Obj == nil {
		if g, ok := upBuiltinTypes[id.Name]; ok {
			return ua(g)
		}
	}
	if spSame(t.text(e), "[]byte") {
		return ua("bytes")
	}
	if t.enumTy[string(t.text(e))] {
		return ua("enum")
	}
	t.fail(e, "variable of type %s", t.text(e))
	return nil
}

// the decodeVarint block
func (t *upTr) varint(v *ast.ForStmt) *ux {
	bad := func() { t.fail(v, "for statement is neither `for <cond> {…}` nor the template's varint block") }
	if len(v.Body.List) != 6 {
		bad()
	}
	as, ok := v.Body.List[4].(*ast.AssignStmt)
	if !ok || as.Tok != token.OR_ASSIGN || len(as.Lhs) != 1 || len(as.Rhs) != 1 {
		bad()
	}
	be, ok := as.Rhs[0].(*ast.BinaryExpr)
	if !ok || be.Op != token.SHL {
		bad()
	}
	c, _ := t.call1(be.X)
	if c == nil {
		bad()
	}
	tg, ty := string(t.text(as.Lhs[0])), string(t.text(c.Fun))
	want := "for shift := uint(0); ; shift += 7 {\n" +
		"if shift >= 64 {\nreturn " + t.outLit() + ", " + t.rt + ".ErrIntOverflow\n}\n" +
		"if iNdEx >= l {\nreturn " + t.outLit() + ", " + t.f.imports["io"] + ".ErrUnexpectedEOF\n}\n" +
		"b := dAtA[iNdEx]\niNdEx++\n" + tg + " |= " + ty + "(b&0x7F) << shift\n" +
		"if b < 0x80 {\nbreak\n}\n}"
	if t.f.imports["io"] == "" || !spSame(t.text(v), want) {
		bad()
	}
	// the names in the block are the closure's
	t.checkInput(v)
	ast.Inspect(v, func(m ast.Node) bool {
		if id, ok := m.(*ast.Ident); ok {
			switch id.Name {
			case "iNdEx":
				if id.Obj != t.objIdx {
					t.fail(id, "iNdEx is not the closure's")
				}
			case "l":
				if id.Obj != t.objL {
					t.fail(id, "l is not the closure's")
				}
			case "dAtA":
				if id.Obj != t.objD {
					t.fail(id, "dAtA is not the closure's")
				}
			case "uint":
				if id.Obj != nil {
					t.fail(id, "uint is not the builtin type")
				}
			}
		}
		return true
	})
	if !t.pkgSel(v.Body.List[0].(*ast.IfStmt).Body.List[0].(*ast.ReturnStmt).Results[1], spRuntimePath, "ErrIntOverflow") ||
		!t.pkgSel(v.Body.List[1].(*ast.IfStmt).Body.List[0].(*ast.ReturnStmt).Results[1], "io", "ErrUnexpectedEOF") {
		bad()
	}
	var target *ux
	if id, ok := as.Lhs[0].(*ast.Ident); ok {
		target = ua(t.useLocal(id))
	} else if i, ok := t.plainField(as.Lhs[0]); ok {
		target = t.fref(i)
	} else {
		t.fail(as, "varint target %s is neither a local nor x.<Field>", tg)
	}
	return ul("varint", target, t.gtyOf(c.Fun))
}

// x.<F>[len(x.<F>)-1]
func (t *upTr) lastOf(e ast.Expr) (int, bool) {
	ie, ok := e.(*ast.IndexExpr)
	if !ok {
		return 0, false
	}
	i, ok := t.plainField(ie.X)
	if !ok {
		return 0, false
	}
	f := string(t.text(ie.X))
	if !spSame(t.text(ie.Index), "len("+f+") - 1") {
		return 0, false
	}
	if c, ok := ie.Index.(*ast.BinaryExpr); ok {
		if cc, arg := t.call1(c.X); cc != nil && mpBuiltin(cc.Fun, "len") {
			if j, ok := t.plainField(arg); ok && j == i {
				return i, true
			}
		}
	}
	return 0, false
}
func (t *upTr) mtarget(e ast.Expr) *ux {
	if id, ok := e.(*ast.Ident); ok {
		return ua(t.useLocal(id))
	}
	if i, ok := t.lastOf(e); ok {
		return ul("last", t.fref(i))
	}
	if i, ok := t.plainField(e); ok {
		return t.fref(i)
	}
	t.fail(e, "%s is neither a local, x.<Field> nor x.<Field>[len(x.<Field>)-1]", t.text(e))
	return nil
}

func (t *upTr) block(list []ast.Stmt) []*ux {
	var out []*ux
	for i := 0; i < len(list); {
		s, used := t.stmtAt(list, i)
		out = append(out, s)
		i += used
	}
	return out
}

func (t *upTr) ifStmt(v *ast.IfStmt) *ux {
	if v.Init != nil {
		as, ok := v.Init.(*ast.AssignStmt)
		if !ok || as.Tok != token.DEFINE || len(as.Rhs) != 1 {
			t.fail(v, "if with an init statement that is not a := declaration")
		}
		// if err := options.Unmarshal(dAtA[lo:hi], TG); err != nil { return …, err }
		if c, ok := as.Rhs[0].(*ast.CallExpr); ok && len(as.Lhs) == 1 && spIdent(as.Lhs[0], "err") && len(c.Args) == 2 && !c.Ellipsis.IsValid() {
			if se, ok := c.Fun.(*ast.SelectorExpr); ok && se.Sel.Name == "Unmarshal" && t.isObj(se.X, "options", t.objOpt) {
				lo, hi := t.sliceOf(c.Args[0], false)
				tg := t.mtarget(c.Args[1])
				want := "if err := options.Unmarshal(" + string(t.text(c.Args[0])) + ", " + string(t.text(c.Args[1])) + "); err != nil {\nreturn " + t.outLit() + ", err\n}"
				if v.Else != nil || !spSame(t.text(v), want) {
					t.fail(v, "options.Unmarshal(…) is not wrapped in the template's `if err := …; err != nil { return …, err }`")
				}
				t.checkInput(v)
				return ul("unmarshal", lo, hi, tg)
			}
		}
		// if o, ok := x.<O>.(*<W>); ok && o.<F> != nil { V = o.<F> }
		if ta, ok := as.Rhs[0].(*ast.TypeAssertExpr); ok && len(as.Lhs) == 2 && ta.Type != nil {
			se, ok1 := ta.X.(*ast.SelectorExpr)
			st, ok2 := ta.Type.(*ast.StarExpr)
			if ok1 && ok2 && t.isX(se.X) {
				o, okO := t.oneofs[se.Sel.Name]
				wid, _ := st.X.(*ast.Ident)
				if okO && wid != nil {
					if j, ok := t.wrappers[wid.Name]; ok && t.mi.fields[j].oneofIdx == o && len(v.Body.List) == 1 {
						if b, ok := v.Body.List[0].(*ast.AssignStmt); ok && len(b.Lhs) == 1 {
							if V, ok := b.Lhs[0].(*ast.Ident); ok {
								F := t.payload[j]
								want := "if o, ok := x." + se.Sel.Name + ".(*" + wid.Name + "); ok && o." + F + " != nil {\n" + V.Name + " = o." + F + "\n}"
								if v.Else == nil && spSame(t.text(v), want) {
									return ul("oreuse", t.fref(j), ua(t.useLocal(V)))
								}
							}
						}
					}
				}
			}
		}
		t.fail(v, "if with an init statement that is neither options.Unmarshal nor the oneof re-use")
	}
	c := t.cond(v.Cond)
	body := t.block(v.Body.List)
	if v.Else == nil {
		return ul("if", append([]*ux{c}, body...)...)
	}
	var els []*ux
	switch e := v.Else.(type) {
	case *ast.BlockStmt:
		els = t.block(e.List)
	case *ast.IfStmt:
		els = []*ux{t.ifStmt(e)}
	default:
		t.fail(v, "else branch of shape %T", v.Else)
	}
	return ul("ifelse", c, ul("then", body...), ul("else", els...))
}

// the statement(s) starting at list[i]: its translation and how many Go statements it covers
func (t *upTr) stmtAt(list []ast.Stmt, i int) (*ux, int) {
	s := list[i]
	switch v := s.(type) {
	case *ast.DeclStmt:
		gd, ok := v.Decl.(*ast.GenDecl)
		if ok && gd.Tok == token.VAR && len(gd.Specs) == 1 {
			if vs, ok := gd.Specs[0].(*ast.ValueSpec); ok && len(vs.Names) == 1 && len(vs.Values) == 0 && vs.Type != nil {
				return ul("var", ua(t.useLocal(vs.Names[0])), t.declType(vs.Type)), 1
			}
		}
		t.fail(s, "declaration other than `var <local> <type>`")
	case *ast.ReturnStmt:
		return t.ret(v), 1
	case *ast.IfStmt:
		return t.ifStmt(v), 1
	case *ast.IncDecStmt:
		if id, ok := v.X.(*ast.Ident); ok && v.Tok == token.INC && !t.isIdx(id) {
			return ul("++", ua(t.useLocal(id))), 1
		}
		t.fail(s, "increment/decrement other than <local>++")
	case *ast.ForStmt:
		if v.Init == nil && v.Post == nil && v.Cond != nil {
			c := t.cond(v.Cond)
			return ul("for", append([]*ux{c}, t.block(v.Body.List)...)...), 1
		}
		return t.varint(v), 1
	case *ast.RangeStmt:
		// for _, integer := range dAtA[lo:hi] { if integer < 128 { X++ } }
		lo, hi := t.sliceOf(v.X, false)
		X := ""
		if len(v.Body.List) == 1 {
			if is, ok := v.Body.List[0].(*ast.IfStmt); ok && len(is.Body.List) == 1 {
				if inc, ok := is.Body.List[0].(*ast.IncDecStmt); ok {
					if id, ok := inc.X.(*ast.Ident); ok {
						X = t.useLocal(id)
					}
				}
			}
		}
		if X == "" || !spSame(t.text(v), "for _, integer := range "+string(t.text(v.X))+" {\nif integer < 128 {\n"+X+"++\n}\n}") {
			t.fail(s, "range statement is not the template's element count")
		}
		return ul("rangecount", ua(X), lo, hi), 1
	case *ast.SwitchStmt:
		id, ok := v.Tag.(*ast.Ident)
		if v.Init != nil || !ok {
			t.fail(s, "switch is not `switch <local> {…}`")
		}
		out := []*ux{ua(t.useLocal(id))}
		n := len(v.Body.List)
		for k, c := range v.Body.List {
			cc := c.(*ast.CaseClause)
			if k == n-1 {
				if cc.List != nil {
					t.fail(cc, "the last clause of the switch is not `default:`")
				}
				out = append(out, ul("default", t.block(cc.Body)...))
				continue
			}
			if len(cc.List) != 1 {
				t.fail(cc, "case clause with %d values (default must come last)", len(cc.List))
			}
			num, ok := t.intLit(cc.List[0])
			if !ok {
				t.fail(cc, "case value is not an integer literal")
			}
			out = append(out, ul("case", append([]*ux{ua(num)}, t.block(cc.Body)...)...))
		}
		if n == 0 {
			t.fail(s, "switch without clauses")
		}
		return ul("switch", out...), 1
	case *ast.ExprStmt:
		// copy(DST, dAtA[lo:hi])
		c, ok := v.X.(*ast.CallExpr)
		if ok && mpBuiltin(c.Fun, "copy") && len(c.Args) == 2 && !c.Ellipsis.IsValid() {
			lo, hi := t.sliceOf(c.Args[1], false)
			return ul("copy", t.mtarget(c.Args[0]), lo, hi), 1
		}
		t.fail(s, "expression statement other than copy(…, dAtA[…:…])")
	case *ast.AssignStmt:
		return t.assign(list, i, v)
	}
	t.fail(s, "statement of shape %T", s)
	return nil, 1
}

func (t *upTr) assign(list []ast.Stmt, i int, v *ast.AssignStmt) (*ux, int) {
	// x := input.Message.Interface().(*T); if x == nil { return …, nil }
	if v.Tok == token.DEFINE && len(v.Lhs) == 1 && spIdent(v.Lhs[0], "x") {
		want := "x := input.Message.Interface().(*" + t.tname + ")\nif x == nil {\nreturn " + t.pi + ".UnmarshalOutput{\nNoUnkeyedLiterals: input.NoUnkeyedLiterals,\n}, nil\n}"
		if t.objX != nil || i+1 >= len(list) || !spSame(t.textRange(list[i], list[i+1]), want) {
			t.fail(v, "declaration of x is not the template's (with its nil check)")
		}
		t.checkInput(&ast.BlockStmt{List: list[i : i+2]})
		t.objX = v.Lhs[0].(*ast.Ident).Obj
		if xid, ok := list[i+1].(*ast.IfStmt).Cond.(*ast.BinaryExpr).X.(*ast.Ident); !ok || xid.Obj != t.objX || t.objX == nil {
			t.fail(v, "the nil check does not look at x")
		}
		return ua("nilcheck"), 2
	}
	// options := runtime.UnmarshalInputToOptions(input); _ = options; dAtA := input.Buf; l := len(dAtA); iNdEx := 0
	if v.Tok == token.DEFINE && len(v.Lhs) == 1 && spIdent(v.Lhs[0], "options") {
		want := "options := " + t.rt + ".UnmarshalInputToOptions(input)\n_ = options\ndAtA := input.Buf\nl := len(dAtA)\niNdEx := 0"
		if t.objOpt != nil || i+4 >= len(list) || &list[0] != &t.body.List[0] || !spSame(t.textRange(list[i], list[i+4]), want) {
			t.fail(v, "declaration of options is not followed by the template's `_ = options; dAtA := input.Buf; l := len(dAtA); iNdEx := 0` at the top level of the closure")
		}
		t.checkInput(&ast.BlockStmt{List: list[i : i+5]})
		if !t.pkgSel(v.Rhs[0].(*ast.CallExpr).Fun, spRuntimePath, "UnmarshalInputToOptions") {
			t.fail(v, "options is not runtime.UnmarshalInputToOptions(input)")
		}
		t.objOpt = v.Lhs[0].(*ast.Ident).Obj
		t.objD = list[i+2].(*ast.AssignStmt).Lhs[0].(*ast.Ident).Obj
		t.objL = list[i+3].(*ast.AssignStmt).Lhs[0].(*ast.Ident).Obj
		t.objIdx = list[i+4].(*ast.AssignStmt).Lhs[0].(*ast.Ident).Obj
		lenCall := list[i+3].(*ast.AssignStmt).Rhs[0].(*ast.CallExpr)
		if t.objOpt == nil || t.objD == nil || t.objL == nil || t.objIdx == nil || !mpBuiltin(lenCall.Fun, "len") || !t.isData(lenCall.Args[0]) ||
			!t.isObj(list[i+1].(*ast.AssignStmt).Rhs[0], "options", t.objOpt) {
			t.fail(v, "options / dAtA / l / iNdEx are not resolved")
		}
		return ua("begin"), 5
	}
	// skippy, err := runtime.Skip(dAtA[lo:]); if err != nil { return …, err }
	if v.Tok == token.DEFINE && len(v.Lhs) == 2 && len(v.Rhs) == 1 && spIdent(v.Lhs[0], "skippy") && spIdent(v.Lhs[1], "err") {
		c, arg := t.call1(v.Rhs[0])
		if c == nil || !t.pkgSel(c.Fun, spRuntimePath, "Skip") {
			t.fail(v, "skippy, err := something other than runtime.Skip(…)")
		}
		lo, _ := t.sliceOf(arg, true)
		if i+1 >= len(list) || !spSame(t.text(list[i+1]), "if err != nil {\nreturn "+t.outLit()+", err\n}") {
			t.fail(v, "runtime.Skip(…) is not followed by the template's error return")
		}
		t.checkInput(list[i+1])
		errObj := v.Lhs[1].(*ast.Ident).Obj
		ast.Inspect(list[i+1], func(m ast.Node) bool {
			if id, ok := m.(*ast.Ident); ok && id.Name == "err" && id.Obj != errObj {
				t.fail(id, "err is not the result of runtime.Skip")
			}
			return true
		})
		t.useLocal(v.Lhs[0].(*ast.Ident))
		return ul("skip", lo), 2
	}
	if len(v.Lhs) != 1 || len(v.Rhs) != 1 {
		t.fail(v, "assignment with %d left and %d right sides", len(v.Lhs), len(v.Rhs))
	}
	lhs, rhs := v.Lhs[0], v.Rhs[0]
	// iNdEx = e, iNdEx += e
	if t.isIdx(lhs) {
		switch v.Tok {
		case token.ASSIGN:
			return ul("idx=", t.expr(rhs)), 1
		case token.ADD_ASSIGN:
			return ul("idx+=", t.expr(rhs)), 1
		}
		t.fail(v, "iNdEx %s …", v.Tok)
	}
	// a local
	if id, ok := lhs.(*ast.Ident); ok {
		switch v.Tok {
		case token.DEFINE:
			e := t.expr(rhs) // the right side is read before the name is declared
			return ul(":=", ua(t.useLocal(id)), e), 1
		case token.ASSIGN:
			// X = o.F occurs only inside the oneof re-use (matched as a whole)
			return ul("=", ua(t.useLocal(id)), t.expr(rhs)), 1
		}
		t.fail(v, "assignment %s %s …", id.Name, v.Tok)
	}
	if v.Tok != token.ASSIGN {
		t.fail(v, "assignment operator %s on %s", v.Tok, t.text(lhs))
	}
	// x.F[K] = V
	if ie, ok := lhs.(*ast.IndexExpr); ok {
		i, ok := t.plainField(ie.X)
		k, ok2 := ie.Index.(*ast.Ident)
		val, ok3 := rhs.(*ast.Ident)
		if !ok || !ok2 || !ok3 {
			t.fail(v, "indexed assignment is not x.<Field>[<local>] = <local>")
		}
		return ul("mapstore", t.fref(i), ua(t.useLocal(k)), ua(t.useLocal(val))), 1
	}
	se, ok := lhs.(*ast.SelectorExpr)
	if !ok || !t.isX(se.X) {
		t.fail(v, "assignment to %s", t.text(lhs))
	}
	L := string(t.text(lhs))
	// x.unknownFields = append(x.unknownFields, dAtA[lo:hi]...)
	if se.Sel.Name == "unknownFields" {
		c, ok := rhs.(*ast.CallExpr)
		if !ok || !mpBuiltin(c.Fun, "append") || len(c.Args) != 2 || !c.Ellipsis.IsValid() || !spSame(t.text(c.Args[0]), L) {
			t.fail(v, "x.unknownFields = something other than append(x.unknownFields, dAtA[…:…]...)")
		}
		if a0, ok := c.Args[0].(*ast.SelectorExpr); !ok || !t.isX(a0.X) {
			t.fail(v, "append to something other than x.unknownFields")
		}
		lo, hi := t.sliceOf(c.Args[1], false)
		return ul("unkappend", lo, hi), 1
	}
	// x.<Oneof> = &<Wrapper>{e}
	if o, ok := t.oneofs[se.Sel.Name]; ok {
		ue, ok := rhs.(*ast.UnaryExpr)
		if ok && ue.Op == token.AND {
			if cl, ok := ue.X.(*ast.CompositeLit); ok && len(cl.Elts) == 1 {
				if wid, ok := cl.Type.(*ast.Ident); ok {
					if j, ok := t.wrappers[wid.Name]; ok && t.mi.fields[j].oneofIdx == o {
						if _, keyed := cl.Elts[0].(*ast.KeyValueExpr); !keyed {
							return ul("oset", t.fref(j), t.expr(cl.Elts[0])), 1
						}
					}
				}
			}
		}
		t.fail(v, "x.%s = something other than &<wrapper of a member of this oneof>{…}", se.Sel.Name)
	}
	i, ok2 := t.plain[se.Sel.Name]
	if !ok2 {
		t.fail(v, "x.%s is not a field of the message struct", se.Sel.Name)
	}
	ft := t.fieldType(i)
	if c, ok := rhs.(*ast.CallExpr); ok {
		switch {
		case mpBuiltin(c.Fun, "append") && len(c.Args) == 2:
			if c.Ellipsis.IsValid() {
				// x.F = append(x.F[:0], dAtA[lo:hi]...)
				if !spSame(t.text(c.Args[0]), L+"[:0]") {
					t.fail(v, "append(… ...) is not append(%s[:0], dAtA[…:…]...)", L)
				}
				if s0, ok := c.Args[0].(*ast.SliceExpr); !ok || func() bool { j, ok := t.plainField(s0.X); return !ok || j != i }() {
					t.fail(v, "append(… ...) re-slices something other than %s", L)
				}
				lo, hi := t.sliceOf(c.Args[1], false)
				return ul("bytesset", t.fref(i), lo, hi), 1
			}
			if j, ok := t.plainField(c.Args[0]); !ok || j != i {
				t.fail(v, "%s = append(something other than %s, …)", L, L)
			}
			// make([]byte, n) as the appended element
			return ul("fappend", t.fref(i), t.expr(c.Args[1])), 1
		case mpBuiltin(c.Fun, "make") && !c.Ellipsis.IsValid():
			if len(c.Args) == 3 && ft.Kind() == reflect.Slice && spSame(t.text(c.Args[0]), t.typeText(ft)) && spZero(c.Args[1]) {
				return ul("fset", t.fref(i), ul("makelist", t.expr(c.Args[2]))), 1
			}
			if len(c.Args) == 1 && ft.Kind() == reflect.Map && spSame(t.text(c.Args[0]), t.typeText(ft)) {
				return ul("fset", t.fref(i), ua("makemap")), 1
			}
			t.fail(v, "%s = make(…) with a type other than the field's (%s)", L, t.typeText(ft))
		}
	}
	return ul("fset", t.fref(i), t.expr(rhs)), 1
}

// translate the unmarshal closure of one message type
func upTranslate(pkg *spPkg, si *schemaInfo, mi *msgInfo) (prog []*ux, failure string) {
	if pkg.err != nil {
		return nil, "untranslatable:-:" + pkg.err.Error()
	}
	tname := mi.goType.Name()
	ms := pkg.methods[tname]
	if len(ms) != 1 {
		return nil, fmt.Sprintf("untranslatable:-:%d declarations of fastReflection_%s.ProtoMethods", len(ms), tname)
	}
	m := ms[0]
	st := &spTr{pkg: pkg, f: m.f, plain: map[string]int{}, oneofs: map[string]int{}, wrappers: map[string]int{}, payload: map[int]string{}, caseOf: -1, bound: map[string]bool{}}
	t := &upTr{spTr: st, si: si, mi: mi, tname: tname, names: map[string]int{}, goName: map[int]string{}, enumTy: map[string]bool{}, msgTy: map[string]int{}}
	dup := map[string]bool{}
	for i, fi := range mi.fields {
		name := ""
		if fi.oneofIdx >= 0 {
			t.oneofs[mi.goType.Field(fi.sf).Name] = fi.oneofIdx
			t.wrappers[fi.wrapper.Elem().Name()] = i
			t.payload[i] = fi.wrapper.Elem().Field(0).Name
			name = t.payload[i]
		} else {
			name = mi.goType.Field(fi.sf).Name
			t.plain[name] = i
		}
		if _, seen := t.names[name]; seen {
			dup[name] = true
		}
		t.names[name] = i
		t.goName[i] = name
		// enum and message Go types of the field, as the source writes them
		ft := t.fieldType(i)
		var cands []reflect.Type
		switch ft.Kind() {
		case reflect.Slice:
			cands = []reflect.Type{ft.Elem()}
		case reflect.Map:
			cands = []reflect.Type{ft.Elem()}
		default:
			cands = []reflect.Type{ft}
		}
		for _, c := range cands {
			fd := fi.fd
			if fd.IsMap() {
				fd = fd.MapValue()
			}
			switch {
			case c.Kind() == reflect.Int32 && c.PkgPath() != "" && fd.Kind() == protoreflect.EnumKind:
				t.enumTy[t.typeText(c)] = true
			case c.Kind() == reflect.Ptr && c.Elem().Kind() == reflect.Struct && fd.Message() != nil:
				if cm := si.byName[fd.Message().FullName()]; cm != nil {
					t.msgTy[t.typeText(c.Elem())] = cm.idx
				}
			}
		}
	}
	for n := range dup {
		delete(t.names, n)
	}
	defer func() {
		if e := recover(); e != nil {
			se, ok := e.(spErr)
			if !ok {
				panic(e)
			}
			p := pkg.fset.Position(se.pos)
			prog, failure = nil, fmt.Sprintf("untranslatable:%s:%d:%d:%s", filepath.Base(p.Filename), p.Line, p.Column, se.why)
		}
	}()
	t.pi = m.f.imports[spProtoifacePath]
	t.rt = m.f.imports[spRuntimePath]
	body := m.decl.Body.List
	// the closure: `unmarshal := func…` among the statements of ProtoMethods; the name is used once more, as the Unmarshal member
	// of the returned Methods
	var as *ast.AssignStmt
	for _, s := range body {
		if a, ok := s.(*ast.AssignStmt); ok && a.Tok == token.DEFINE && len(a.Lhs) == 1 && len(a.Rhs) == 1 && spIdent(a.Lhs[0], "unmarshal") {
			if as != nil {
				t.fail(a, "a second unmarshal := in ProtoMethods")
			}
			as = a
		}
	}
	if as == nil || len(body) < 2 {
		t.fail(m.decl, "no unmarshal := func… in ProtoMethods")
	}
	fl, ok := as.Rhs[0].(*ast.FuncLit)
	if !ok || t.pi == "" || t.rt == "" || !spSame(t.text(fl.Type), "func(input "+t.pi+".UnmarshalInput) ("+t.pi+".UnmarshalOutput, error)") {
		t.fail(as, "unmarshal is not a func(input protoiface.UnmarshalInput) (protoiface.UnmarshalOutput, error)")
	}
	uObj := as.Lhs[0].(*ast.Ident).Obj
	ret, ok := body[len(body)-1].(*ast.ReturnStmt)
	if !ok || len(ret.Results) != 1 {
		t.fail(body[len(body)-1], "ProtoMethods does not end in a return")
	}
	found := false
	if ue, ok := ret.Results[0].(*ast.UnaryExpr); ok && ue.Op == token.AND {
		if cl, ok := ue.X.(*ast.CompositeLit); ok && t.pkgSel(cl.Type, spProtoifacePath, "Methods") {
			for _, el := range cl.Elts {
				if kv, ok := el.(*ast.KeyValueExpr); ok && spIdent(kv.Key, "Unmarshal") {
					if id, ok := kv.Value.(*ast.Ident); ok && id.Obj == uObj && uObj != nil {
						found = true
					}
				}
			}
		}
	}
	if !found {
		t.fail(ret, "ProtoMethods does not return &protoiface.Methods{… Unmarshal: unmarshal …}")
	}
	// the Methods literal, literally: the flags decide whether proto.UnmarshalOptions calls the closure at all under DiscardUnknown
	if !spSame(t.text(ret), "return &"+t.pi+".Methods{\nNoUnkeyedLiterals: struct{}{},\nFlags: "+t.pi+".SupportMarshalDeterministic | "+t.pi+".SupportUnmarshalDiscardUnknown,\n"+
		"Size: size,\nMarshal: marshal,\nUnmarshal: unmarshal,\nMerge: nil,\nCheckInitialized: nil,\n}") {
		t.fail(ret, "ProtoMethods does not return the template's Methods literal (flags, Size, Marshal, Unmarshal, Merge: nil, CheckInitialized: nil)")
	}
	uses := 0
	ast.Inspect(m.decl.Body, func(n ast.Node) bool {
		if id, ok := n.(*ast.Ident); ok && id.Obj == uObj {
			uses++
		}
		return true
	})
	if uses != 2 {
		t.fail(m.decl, "the variable unmarshal is mentioned %d times in ProtoMethods (declaration and Unmarshal: unmarshal expected)", uses)
	}
	t.body = fl.Body
	if len(fl.Type.Params.List) != 1 || len(fl.Type.Params.List[0].Names) != 1 {
		t.fail(fl, "the closure does not take one parameter")
	}
	t.objInput = fl.Type.Params.List[0].Names[0].Obj
	if len(fl.Body.List) == 0 {
		t.fail(fl, "empty closure")
	}
	return t.block(fl.Body.List), ""
}

// ---- the parts of a program shown by the UNMARSHALPROG lines (driver/unmarshalprog_eval.ml: part) ---------------------------------
func upFind(list []*ux, head string) *ux {
	for _, s := range list {
		if s.head() == head {
			return s
		}
	}
	return nil
}

// ---- inputs --------------------------------------------------------------------------------------------------------------------
type upCtx struct {
	o       *out
	si      *schemaInfo
	mi      *msgInfo
	modelOK bool
	ok      bool // a translated program exists (otherwise the RUN lines would all read "no-translated-program")
}

func (c *upCtx) run(b []byte, discard bool, limit int, init *V, class string) {
	si, mi, o := c.si, c.mi, c.o
	if !c.ok {
		return
	}
	var q proto.Message
	if init != nil {
		q = si.toGo(mi, init).Interface().(proto.Message)
	} else {
		q = reflect.New(mi.goType).Interface().(proto.Message)
	}
	opts := proto.UnmarshalOptions{Merge: init != nil, DiscardUnknown: discard}
	lim := "-"
	if limit > 0 {
		opts.RecursionLimit = limit
		lim = strconv.Itoa(limit)
	}
	var err error
	var pan interface{}
	o.guard("C06", "hang/"+si.id, fmt.Sprintf("Unmarshal of %s into %s.%s does not return", hx(b), si.id, mi.md.Name()), func() {
		err, pan = catchUnmarshal(opts, append([]byte{}, b...), q)
	})
	res := "err"
	switch {
	case pan != nil:
		res = "panic"
	case err == nil:
		res = "ok " + si.foreignNorm(mi, si.fromGo(mi, reflect.ValueOf(q))).String()
	}
	flags := "-"
	if discard {
		flags = "d"
	}
	iv := "-"
	if init != nil {
		iv = init.String()
	}
	o.kase("UNMARSHALRUN", []string{si.id, fmt.Sprint(mi.idx), flags, lim, hx(b), iv}, res)
	o.count("run_" + class + "_" + strings.Fields(res)[0])
	k := len(b)
	if k > 10 {
		k = 10
	}
	o.nontrivial(si.id + "/" + fmt.Sprint(mi.idx) + "/" + class + "/" + strings.Fields(res)[0] + "/" + hx(b[:k]))
}

func upWireType(fd protoreflect.FieldDescriptor) protowire.Type {
	if fd.IsMap() || fd.Kind() == protoreflect.MessageKind {
		return protowire.BytesType
	}
	return scalarWireType(fd.Kind())
}

func engineUnmarshalProg(cfg config, o *out) {
	schemas := loadSchemasProg()
	cc := newClassCov("unmarshalprog")
	defer cc.emit(o)
	ops := map[string]int{}
	for _, si := range schemas {
		o.raw("SCHEMA\t" + si.id + "\t=\t" + si.sexp())
		r := newRng(cfg.seed, "unmarshalprog/"+si.id)
		g := &vgen{r: r, si: si}
		mut := &dmut{r: r, rw: newRng(cfg.seed, "unmarshalprog-widen/"+si.id), si: si, ops: ops}
		for _, mi := range si.roots() {
			args := []string{si.id, fmt.Sprint(mi.idx)}
			stmts, failure := upTranslate(spPkgOf(mi), si, mi)
			c := &upCtx{o: o, si: si, mi: mi, modelOK: !reachesNonPulsar(si, mi, map[*msgInfo]bool{}), ok: failure == ""}
			if failure != "" {
				o.kase("UNMARSHALPROG", append(args, "len"), failure)
				o.count("untranslatable")
				continue
			}
			// the parts of the program (a difference is reported with the two parts side by side), and the whole program as a
			// context line for the UNMARSHALRUN lines below
			o.kase("UNMARSHALPROG", append(args, "len"), strconv.Itoa(len(stmts)))
			var loop []*ux
			for k, s := range stmts {
				txt := s.String()
				if s.head() == "for" && loop == nil {
					loop = s.l[2:]
					txt = "(for " + s.l[1].String() + " #" + strconv.Itoa(len(loop)) + ")"
				}
				o.kase("UNMARSHALPROG", append(args, "t"+strconv.Itoa(k)), txt)
			}
			if loop != nil {
				o.kase("UNMARSHALPROG", append(args, "n"), strconv.Itoa(len(loop)))
				var sw *ux
				for k, s := range loop {
					txt := s.String()
					if s.head() == "switch" && sw == nil {
						sw = s
						txt = "(switch " + s.l[1].String() + " #" + strconv.Itoa(len(s.l)-3) + ")"
					}
					o.kase("UNMARSHALPROG", append(args, "l"+strconv.Itoa(k)), txt)
				}
				if sw != nil {
					var nums []string
					for _, cl := range sw.l[2 : len(sw.l)-1] {
						nums = append(nums, cl.l[1].a)
						o.kase("UNMARSHALPROG", append(args, "c"+cl.l[1].a), uxJoin(cl.l[2:]))
					}
					o.kase("UNMARSHALPROG", append(args, "cases"), strings.Join(nums, " "))
					o.kase("UNMARSHALPROG", append(args, "default"), uxJoin(sw.l[len(sw.l)-1].l[1:]))
				}
			}
			prog := "(prog " + uxJoin(stmts) + ")"
			o.kase("@UNMARSHALDEF", append(args, prog), "ok")
			o.kase("UNMARSHALPROG", append(args, "eqb"), "same")
			o.count("translated")
			cc.message(si, mi)
			o.nontrivial("prog/" + prog)
			for _, form := range []string{"(var", "(:=", "(=", "(idx=", "(idx+=", "(varint", "(ret", "(if", "(ifelse", "(for", "(switch", "(case", "(rangecount",
				"(fset", "(fappend", "(oset", "(oreuse", "(unmarshal", "(bytesset", "(copy", "(mapstore", "(skip", "(unkappend"} {
				o.hist["stmt_"+form[1:]] += strings.Count(prog, form+" ")
			}
			upInputs(cfg, c, r, g, mut)
		}
	}
}

// upInputs: the interpreter on the translated program against the running code
func upInputs(cfg config, c *upCtx, r *rng, g *vgen, mut *dmut) {
	si, mi := c.si, c.mi
	c.run(nil, false, 0, nil, "empty")
	n := 4
	if cfg.thorough() {
		n = 40
	}
	if len(mi.fields) == 0 {
		n = 1
	}
	var encs [][]byte
	for k := 0; k < n; k++ {
		v := g.msg(mi, 3, 3+r.intn(6))
		enc, err := proto.MarshalOptions{Deterministic: true}.Marshal(si.toDyn(mi, v))
		if err != nil {
			continue
		}
		encs = append(encs, enc)
		c.run(enc, false, 0, nil, "canonical")
		// well-typed mutations: reordered / duplicated / split records, packed <-> unpacked, map entries with missing, duplicated,
		// reordered and unknown subfields, interleaved unknown records, non-minimal tags, varints wider than the field
		m1 := mut.mutate(mi, enc, 3)
		c.run(m1, k%2 == 1, 0, nil, "mutated")
		if k%2 == 0 {
			c.run(m1, false, 0, g.msg(mi, 2, 4), "merge-into")
		}
		if k == 0 {
			for _, L := range []int{1, 2, 3, 4} { // explicit recursion limits around the value's own nesting depth
				c.run(enc, false, L, nil, "limit")
			}
		}
	}
	// unknown fields, kept and discarded
	unk := genUnknownFor(r, mi)
	c.run(unk, false, 0, nil, "unknown")
	c.run(unk, true, 0, nil, "unknown")
	if len(encs) > 0 {
		c.run(append(append([]byte{}, unk...), encs[0]...), false, 0, nil, "unknown")
	}
	if !c.modelOK {
		return // malformed input reaches the decoders of protobuf-go's own types, which the model does not describe
	}
	// truncations at every offset
	for k, enc := range encs {
		if k >= 2 && !cfg.thorough() || k >= 8 {
			break
		}
		step := 1
		if len(enc) > 48 && (!cfg.thorough() || len(enc) > 1500) { // (the models, like the decoder, cost O(length) per record)
			step = len(enc) / 48
		} else if len(enc) > 200 {
			step = len(enc) / 200
		}
		for cut := 1; cut < len(enc); cut += step {
			c.run(enc[:cut], false, 0, nil, "trunc")
		}
	}
	for _, fi := range mi.fields {
		fd := fi.fd
		num := fd.Number()
		wt := upWireType(fd)
		tag := func(w protowire.Type) []byte { return protowire.AppendTag(nil, num, w) }
		// every wire type on this field number (wrong ones, and the packed / unpacked alternative), each with a payload that is a
		// complete record of that wire type, and with the same payload cut short
		for w := protowire.Type(0); w < 8; w++ {
			var p []byte
			switch w {
			case protowire.VarintType:
				p = []byte{0x96, 0x01}
			case protowire.Fixed64Type:
				p = []byte{1, 2, 3, 4, 5, 6, 7, 0x40}
			case protowire.BytesType:
				p = []byte{0x02, 0x08, 0x01}
			case protowire.StartGroupType:
				p = append([]byte{0x08, 0x01}, tag(protowire.EndGroupType)...)
			case protowire.Fixed32Type:
				p = []byte{1, 2, 3, 0x40}
			default:
				p = []byte{0x00}
			}
			c.run(append(tag(w), p...), false, 0, nil, "wiretype")
			c.run(append(tag(w), p[:len(p)-1]...), false, 0, nil, "wiretype")
		}
		c.run(tag(wt), false, 0, nil, "wiretype") // the tag alone
		switch wt {
		case protowire.VarintType:
			// overlong varints: ten bytes with garbage above the field's width, a redundant tenth byte, eleven bytes
			c.run(append(tag(wt), 0xff, 0xff, 0xff, 0xff, 0xff, 0xff, 0xff, 0xff, 0xff, 0x01), false, 0, nil, "varint")
			c.run(append(tag(wt), 0x81, 0x80, 0x80, 0x80, 0x90, 0x80, 0x80, 0x80, 0x80, 0x7f), false, 0, nil, "varint")
			c.run(append(tag(wt), 0x80, 0x80, 0x80, 0x80, 0x80, 0x80, 0x80, 0x80, 0x80, 0x80, 0x01), false, 0, nil, "varint")
			c.run(append(tag(wt), 0x96, 0x81, 0x80, 0x80, 0x80, 0x80, 0x00), false, 0, nil, "varint")
		case protowire.BytesType:
			// negative and huge lengths; a length one past the end
			for _, l := range []uint64{1 << 31, 1<<63 - 1, 1 << 63, 1<<64 - 1, 1<<64 - 3, 4} {
				c.run(append(protowire.AppendVarint(tag(wt), l), 0x08, 0x01, 0x00), false, 0, nil, "length")
			}
		}
		if fd.IsList() && wt != protowire.BytesType {
			// packed runs: empty, elements cut by the end of the run, a run followed by an unpacked element
			for _, p := range [][]byte{{}, {0x01}, {0x96, 0x01, 0x02}, {0x80}, {0x01, 0x02, 0x03, 0x04, 0x05, 0x06, 0x07, 0x08, 0x09}, {0xff, 0xff, 0xff, 0xff, 0xff, 0xff, 0xff, 0xff, 0xff, 0x01, 0x00}} {
				b := protowire.AppendBytes(tag(protowire.BytesType), p)
				c.run(b, false, 0, nil, "packed")
				c.run(append(b, append(tag(wt), 0x05, 0x00, 0x00, 0x00, 0x00, 0x00, 0x00, 0x00)...), false, 0, nil, "packed")
			}
		}
		if fd.IsMap() {
			kw, vw := scalarWireType(fd.MapKey().Kind()), upWireType(fd.MapValue())
			key := append(protowire.AppendTag(nil, 1, kw), sampleScalar(fd.MapKey().Kind(), 1)...)
			key2 := append(protowire.AppendTag(nil, 1, kw), sampleScalar(fd.MapKey().Kind(), 2)...)
			var val []byte
			if fd.MapValue().Kind() == protoreflect.MessageKind {
				val = protowire.AppendBytes(protowire.AppendTag(nil, 2, vw), nil)
			} else {
				val = append(protowire.AppendTag(nil, 2, vw), sampleScalar(fd.MapValue().Kind(), 1)...)
			}
			unk1 := []byte{0x18, 0x07}                  // subfield 3, varint
			unk2 := []byte{0x22, 0x02, 0x08, 0x01}      // subfield 4, bytes
			unk3 := []byte{0x2b, 0x08, 0x01, 0x2c}      // subfield 5, group
			cat := func(ps ...[]byte) []byte { return protowire.AppendBytes(tag(protowire.BytesType), bytesJoin(ps...)) }
			for _, e := range [][]byte{cat(), cat(key), cat(val), cat(val, key), cat(key, val, key2), cat(key, val, val), cat(unk1, key, unk2, val, unk3),
				cat(key, unk1), cat(unk2), cat(key, val[:len(val)-1]), cat(key[:len(key)-1]), cat(key, []byte{0x2b}), cat(key, []byte{0x12, 0x7f}),
				cat(protowire.AppendTag(nil, 1, vw), val[1:]), cat(protowire.AppendTag(nil, 2, kw), key[1:]), bytesJoin(cat(key, val), cat(key)), bytesJoin(cat(key, val), cat(key2, val))} {
				c.run(e, false, 0, nil, "mapentry")
			}
			c.run(bytesJoin(cat(key, val), cat(key)), false, 0, g.msg(mi, 2, 4), "mapentry")
		}
	}
	// field number 0, negative field numbers (after truncation to int32), end-group, numbers at and above 2^29
	for _, w := range []uint64{0, 4, 3<<3 | 4, uint64(1<<31) << 3, (uint64(1)<<32 + 1) << 3, uint64(1<<29) << 3, (1<<61 - 1) << 3} {
		c.run(append(protowire.AppendVarint(nil, w), 0x01, 0x00), false, 0, nil, "tag")
	}
	c.run([]byte{0xff, 0xff, 0xff, 0xff, 0xff, 0xff, 0xff, 0xff, 0xff, 0x7f, 0x00}, false, 0, nil, "tag")
	c.run([]byte{0x80, 0x80, 0x80, 0x80, 0x80, 0x80, 0x80, 0x80, 0x80, 0x80, 0x01}, false, 0, nil, "tag")
	// deep nesting at the limit, through a self-referential message field
	for _, fi := range mi.fields {
		fd := fi.fd
		if fd.Kind() != protoreflect.MessageKind || fd.IsMap() || fd.Message().FullName() != mi.md.FullName() {
			continue
		}
		for _, d := range []int{0, 1, 4} {
			b := nest(fd.Number(), d, nil)
			for _, L := range []int{d, d + 1, d + 2} {
				if L > 0 {
					c.run(b, false, L, nil, "deep")
				}
			}
		}
		c.run(nest(fd.Number(), 40, nil), false, 0, nil, "deep")
		break
	}
}

func bytesJoin(ps ...[]byte) []byte {
	var out []byte
	for _, p := range ps {
		out = append(out, p...)
	}
	return out
}
