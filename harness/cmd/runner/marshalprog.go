package main

// Engine "marshalprog" — translator tie for the generated Marshal closures (coq/Model/MarshalProg.v), built like "sizeprog".
//
// On every run, for every message type of every loaded schema set, the Go SOURCE of the
//     marshal := func(input protoiface.MarshalInput) (protoiface.MarshalOutput, error) { … }
// closure in  func (x *fastReflection_<Msg>) ProtoMethods()  (checked-in *.pulsar.go under VERIF_REPO, freshly generated ones
// under harness/gen/<set>/) is parsed with go/parser and turned, statement by statement and purely syntactically, into a program
// of the language of Model/MarshalProg.v. The driver compares it with canon_marshal of the schema (MARSHALPROG lines), and runs it
// with the Coq interpreter on sample values against proto.MarshalOptions{Deterministic: det}.Marshal of the linked code
// (MARSHALRUN lines).
//
// Case lines (evaluated by driver/marshalprog_eval.ml, which also documents the text form of programs):
//	MARSHALPROG  <set> <msg idx> <k>      = k-th top-level statement of the translated program (model: the k-th statement of canon_marshal)
//	MARSHALPROG  <set> <msg idx> len      = number of top-level statements | untranslatable:<file>:<line>:<col>:<why>
//	@MARSHALDEF  <set> <msg idx> <prog>   = ok        context line: the whole translated program, remembered by every driver shard
//	MARSHALPROG  <set> <msg idx> eqb      = same      (model: mprog_eqb <translated> (canon_marshal sch idx))
//	MARSHALRUN   <set> <msg idx> <det> <VAL> = ok <hex> | err | panic   (model: run_marshal_closure sch det idx <translated> VAL)
//
// The translator knows a fixed list of statement and expression shapes (one per form the template prints); anything else makes the
// message "untranslatable" (reported as the observed value of its MARSHALPROG line, hence a mismatch). Matched literally, token by
// token: the prologue (x := input.Message.Interface().(*T); if x == nil {return Buf: input.Buf}; options; size := options.Size(x);
// dAtA := make([]byte, size); i := len(dAtA); var l int), the epilogue (append to / replace input.Buf; return), the error-return
// block after `encoded, err := options.Marshal(…)`, the three lines that write one varint forward at dAtA[j…], the header of
// `for iNdEx := len(x.F) - 1; iNdEx >= 0; iNdEx--`, the signature and final return of a MaRsHaLmAp closure and the
// Deterministic/else iteration boilerplate after it. A statement that lowers i (`i--`, `i -= …`) must be directly followed by the
// statement that fills exactly that reservation (dAtA[i] = …, copy(dAtA[i:], the same operand), PutUint32/64 after 4/8, j := i
// after pksize); any other arrangement is refused. The numbered locals f<N>, x<N>, j<N>, pksize<N> and num, num1, k, v, encoded,
// baseI, iNdEx are slots: every use must resolve (go/parser's identifier resolution) to the latest declaration of its slot in scope.

import (
	"fmt"
	"go/ast"
	"go/token"
	"path/filepath"
	"regexp"
	"strconv"
	"strings"

	"google.golang.org/protobuf/proto"
	"google.golang.org/protobuf/reflect/protoreflect"
)

func init() { engines["marshalprog"] = engineMarshalProg }

type mpTr struct {
	*spTr
	slots    map[string]*ast.Object // slot -> its declaration in scope
	idxField int                    // inside `for iNdEx …` over that field (x.F[iNdEx] allowed), else -1
	objI     *ast.Object            // i := len(dAtA)
	objD     *ast.Object            // dAtA := make([]byte, size)
	objOpt   *ast.Object            // options := runtime.MarshalInputToOptions(input)
	pi       string                 // local name of the protoiface import
}

var mpNumbered = regexp.MustCompile(`^(f|x|j|pksize)[0-9]+$`)

// slot of a local variable name ("" if the name is none of the template's locals)
func mpSlot(name string) string {
	switch name {
	case "num", "num1", "k", "v":
		return name
	case "encoded":
		return "enc"
	case "baseI":
		return "base"
	case "iNdEx":
		return "idx"
	}
	if m := mpNumbered.FindStringSubmatch(name); m != nil {
		if m[1] == "pksize" {
			return "pk"
		}
		return m[1]
	}
	return ""
}

func (t *mpTr) scoped(f func()) {
	saved := map[string]*ast.Object{}
	for k, v := range t.slots {
		saved[k] = v
	}
	idx, caseOf := t.idxField, t.caseOf
	f()
	t.slots, t.idxField, t.caseOf = saved, idx, caseOf
}
func (t *mpTr) decl(id *ast.Ident, slot string) {
	if id.Obj == nil {
		t.fail(id, "declaration of %s is not resolved", id.Name)
	}
	t.slots[slot] = id.Obj
}
func (t *mpTr) use(id *ast.Ident, slot string) {
	if id.Obj == nil || t.slots[slot] != id.Obj {
		t.fail(id, "%s does not refer to the declaration of its kind that is in scope here", id.Name)
	}
}
func (t *mpTr) isObj(e ast.Expr, name string, obj *ast.Object) bool {
	id, ok := e.(*ast.Ident)
	return ok && id.Name == name && id.Obj == obj && obj != nil
}
func (t *mpTr) isI(e ast.Expr) bool { return t.isObj(e, "i", t.objI) }

// dAtA[i]
func (t *mpTr) isAtI(e ast.Expr) bool {
	ie, ok := e.(*ast.IndexExpr)
	return ok && t.isObj(ie.X, "dAtA", t.objD) && t.isI(ie.Index)
}

// dAtA[i:]
func (t *mpTr) isFromI(e ast.Expr) bool {
	se, ok := e.(*ast.SliceExpr)
	return ok && t.isObj(se.X, "dAtA", t.objD) && se.Low != nil && t.isI(se.Low) && se.High == nil && se.Max == nil && !se.Slice3
}
func mpBuiltin(e ast.Expr, name string) bool {
	id, ok := e.(*ast.Ident)
	return ok && id.Name == name && id.Obj == nil
}
func mpUnparen(e ast.Expr) ast.Expr {
	for {
		p, ok := e.(*ast.ParenExpr)
		if !ok {
			return e
		}
		e = p.X
	}
}

// ---- references -------------------------------------------------------------------------------------------------------------
func (t *mpTr) isRef(e ast.Expr) bool {
	switch v := e.(type) {
	case *ast.Ident:
		switch v.Name {
		case "num", "num1", "k", "v", "encoded":
			return true
		}
	case *ast.SelectorExpr:
		return spIdent(v.X, "x")
	case *ast.IndexExpr:
		if se, ok := v.X.(*ast.SelectorExpr); ok {
			return spIdent(se.X, "x")
		}
	}
	return false
}
func (t *mpTr) field(se *ast.SelectorExpr) int {
	if t.caseOf >= 0 {
		if t.payload[t.caseOf] != se.Sel.Name {
			t.fail(se, "x.%s inside the case clause of field %d (its wrapper has the field %s)", se.Sel.Name, t.caseOf, t.payload[t.caseOf])
		}
		return t.caseOf
	}
	i, ok := t.plain[se.Sel.Name]
	if !ok {
		t.fail(se, "x.%s is not a plain field of the message struct", se.Sel.Name)
	}
	return i
}
func (t *mpTr) ref(e ast.Expr) string {
	switch v := e.(type) {
	case *ast.Ident:
		switch v.Name {
		case "num", "num1", "k", "v":
			t.use(v, v.Name)
			return v.Name
		case "encoded":
			t.use(v, "enc")
			return "enc"
		}
		t.fail(e, "identifier %s is not a variable holding a value of the message", v.Name)
	case *ast.SelectorExpr:
		if !spIdent(v.X, "x") {
			t.fail(e, "selector on something other than x")
		}
		if v.Sel.Name == "unknownFields" {
			if t.caseOf >= 0 {
				t.fail(e, "x.unknownFields inside a case clause")
			}
			return "unkf"
		}
		return "f" + strconv.Itoa(t.field(v))
	case *ast.IndexExpr:
		se, ok := v.X.(*ast.SelectorExpr)
		id, ok2 := v.Index.(*ast.Ident)
		if !ok || !ok2 || !spIdent(se.X, "x") || id.Name != "iNdEx" {
			t.fail(e, "index expression is not x.<Field>[iNdEx]")
		}
		t.use(id, "idx")
		i := t.field(se)
		if t.caseOf >= 0 || t.idxField != i {
			t.fail(e, "x.%s[iNdEx] outside the `for iNdEx` loop over x.%s", se.Sel.Name, se.Sel.Name)
		}
		return "i" + strconv.Itoa(i)
	}
	t.fail(e, "reference of shape %T", e)
	return ""
}

// ---- expressions ------------------------------------------------------------------------------------------------------------
// conv: e is <uint64|uint32>(A); a scalar reference A keeps the conversion ((u64 r) / (u32 r)); around anything else (an
// expression that already is a non-negative int or an unsigned word) the conversion is the identity and is dropped
func (t *mpTr) conv(e ast.Expr, to string) string {
	c, a := t.call1(e)
	if c == nil || !mpBuiltin(c.Fun, to) {
		t.fail(e, "expected %s(…)", to)
	}
	a = mpUnparen(a)
	if t.isRef(a) {
		return "(u" + to[4:] + " " + t.ref(a) + ")"
	}
	return t.word(a)
}
func (t *mpTr) intLit(e ast.Expr) (uint64, bool) {
	l, ok := e.(*ast.BasicLit)
	if !ok || l.Kind != token.INT {
		return 0, false
	}
	u, err := strconv.ParseUint(l.Value, 0, 62)
	return u, err == nil
}
func (t *mpTr) word(e ast.Expr) string {
	e = mpUnparen(e)
	switch v := e.(type) {
	case *ast.BasicLit:
		if u, ok := t.intLit(e); ok {
			return strconv.FormatUint(u, 10)
		}
		t.fail(e, "literal %s", v.Value)
	case *ast.Ident:
		switch s := mpSlot(v.Name); s {
		case "pk":
			t.use(v, s)
			return "pk"
		case "f", "x":
			t.use(v, s)
			return "(loc " + s + ")"
		}
		t.fail(e, "identifier %s in a word expression", v.Name)
	case *ast.BinaryExpr:
		switch v.Op {
		case token.MUL:
			return "(* " + t.word(v.X) + " " + t.word(v.Y) + ")"
		case token.SUB:
			if id, ok := v.X.(*ast.Ident); ok && id.Name == "baseI" && t.isI(v.Y) {
				t.use(id, "base")
				return "base"
			}
			t.fail(e, "subtraction other than baseI - i")
		case token.XOR:
			return t.zigzag(v)
		}
		t.fail(e, "operator %s", v.Op)
	case *ast.CallExpr:
		c, arg := t.call1(e)
		if c == nil {
			t.fail(e, "call with %d arguments", len(v.Args))
		}
		switch {
		case mpBuiltin(c.Fun, "len"):
			return "(len " + t.ref(arg) + ")"
		case mpBuiltin(c.Fun, "uint64"), mpBuiltin(c.Fun, "uint32"):
			if !t.isRef(mpUnparen(arg)) {
				t.fail(e, "conversion of something other than a scalar reference")
			}
			return "(u" + c.Fun.(*ast.Ident).Name[4:] + " " + t.ref(mpUnparen(arg)) + ")"
		case t.pkgSel(c.Fun, "math", "Float64bits"), t.pkgSel(c.Fun, "math", "Float32bits"):
			w := c.Fun.(*ast.SelectorExpr).Sel.Name[5:7] // 64 | 32
			cc, inner := t.call1(arg)
			if cc == nil || !mpBuiltin(cc.Fun, "float"+w) {
				t.fail(arg, "argument of math.Float%sbits is not float%s(…)", w, w)
			}
			return "(bits" + w + " " + t.ref(inner) + ")"
		case t.pkgSel(c.Fun, spRuntimePath, "Sov"):
			return "(sov " + t.conv(arg, "uint64") + ")"
		case t.pkgSel(c.Fun, spRuntimePath, "Soz"):
			return "(soz " + t.conv(arg, "uint64") + ")"
		}
		t.fail(e, "call of %s", t.text(c.Fun))
	}
	t.fail(e, "expression of shape %T", e)
	return ""
}

// (uintW(R) << 1) ^ uintW((R >> sh))
func (t *mpTr) zigzag(v *ast.BinaryExpr) string {
	l, ok := mpUnparen(v.X).(*ast.BinaryExpr)
	if _, paren := v.X.(*ast.ParenExpr); !ok || !paren || l.Op != token.SHL {
		t.fail(v, "left side of ^ is not (uintW(R) << 1)")
	}
	if one, ok := t.intLit(l.Y); !ok || one != 1 {
		t.fail(v, "left side of ^ does not shift by 1")
	}
	lc, lr := t.call1(l.X)
	rc, ra := t.call1(v.Y)
	if lc == nil || rc == nil {
		t.fail(v, "zig-zag expression without the two conversions")
	}
	w := ""
	for _, cand := range []string{"32", "64"} {
		if mpBuiltin(lc.Fun, "uint"+cand) && mpBuiltin(rc.Fun, "uint"+cand) {
			w = cand
		}
	}
	if w == "" {
		t.fail(v, "the two conversions of the zig-zag expression are not both uint32 or both uint64")
	}
	sr, ok := mpUnparen(ra).(*ast.BinaryExpr)
	if !ok || sr.Op != token.SHR {
		t.fail(v, "right side of ^ is not uintW((R >> n))")
	}
	sh, ok := t.intLit(sr.Y)
	if !ok {
		t.fail(v, "shift count is not a literal")
	}
	r := t.ref(lr)
	if t.ref(sr.X) != r || string(t.text(sr.X)) != string(t.text(lr)) {
		t.fail(v, "the two sides of ^ look at different things")
	}
	return "(zig" + w + " " + r + " " + strconv.FormatUint(sh, 10) + ")"
}

func (t *mpTr) cond(e ast.Expr) string {
	switch v := e.(type) {
	case *ast.BinaryExpr:
		switch v.Op {
		case token.GTR:
			if c, arg := t.call1(v.X); c != nil && mpBuiltin(c.Fun, "len") && spZero(v.Y) {
				return "(len> " + t.ref(arg) + ")"
			}
			t.fail(e, "comparison other than len(…) > 0")
		case token.NEQ:
			if mpBuiltin(v.Y, "nil") {
				if r := t.ref(v.X); r != "unkf" {
					return "(notnil " + r + ")"
				}
				return "unk"
			}
			if spZero(v.Y) {
				return "(nz " + t.ref(v.X) + ")"
			}
			t.fail(e, "right side of !=")
		case token.LOR:
			l, ok := v.X.(*ast.BinaryExpr)
			if !ok || l.Op != token.NEQ || !spZero(l.Y) {
				t.fail(e, "left side of ||")
			}
			c, arg := t.call1(v.Y)
			if c == nil || !t.pkgSel(c.Fun, "math", "Signbit") {
				t.fail(e, "right side of || is not math.Signbit(…)")
			}
			if cc, inner := t.call1(arg); cc != nil && mpBuiltin(cc.Fun, "float64") {
				arg = inner
			}
			r := t.ref(l.X)
			if t.ref(arg) != r || string(t.text(arg)) != string(t.text(l.X)) {
				t.fail(e, "the two sides of || look at different things")
			}
			return "(nzs " + r + ")"
		}
		t.fail(e, "condition with operator %s", v.Op)
	case *ast.SelectorExpr, *ast.Ident, *ast.IndexExpr:
		return "(true " + t.ref(e) + ")"
	}
	t.fail(e, "condition of shape %T", e)
	return ""
}

// ---- statements -------------------------------------------------------------------------------------------------------------
func mpJoin(ss []string) string {
	var sb strings.Builder
	for _, s := range ss {
		sb.WriteString(" " + s)
	}
	return sb.String()
}
func mpIsReserve(s string) bool { return s == "dec" || strings.HasPrefix(s, "(sub ") }
func mpIsFill(s string) bool {
	return s == "declj" || strings.HasPrefix(s, "(byte ") || strings.HasPrefix(s, "(copy ") || strings.HasPrefix(s, "(put32 ") || strings.HasPrefix(s, "(put64 ")
}

// a block. closure: the body of a MaRsHaLmAp closure (ends in the literal return). pending: the branch of an if/else that follows
// `i--`: exactly one `dAtA[i] = <byte>`.
func (t *mpTr) block(at ast.Node, list []ast.Stmt, closure, pending bool) []string {
	var out []string
	var pos []ast.Node
	t.scoped(func() {
		n := len(list)
		if closure {
			if n == 0 || !spSame(t.text(list[n-1]), "return "+t.pi+".MarshalOutput{}, nil") {
				t.fail(at, "the MaRsHaLmAp closure does not end in `return protoiface.MarshalOutput{}, nil`")
			}
			n--
		}
		for i := 0; i < n; {
			prev := ""
			if len(out) > 0 {
				prev = out[len(out)-1]
			}
			s, used := t.stmtAt(list[:n], i, prev)
			out = append(out, s)
			pos = append(pos, list[i])
			i += used
		}
	})
	if pending {
		if len(out) != 1 || !strings.HasPrefix(out[0], "(byte ") {
			t.fail(at, "a branch of the if/else after `i--` is not a single `dAtA[i] = <byte>`")
		}
		return out
	}
	// every reservation is filled by the next statement, every fill follows its reservation
	for k, s := range out {
		if mpIsReserve(s) {
			nx := ""
			if k+1 < len(out) {
				nx = out[k+1]
			}
			ok := false
			switch {
			case s == "dec":
				ok = strings.HasPrefix(nx, "(byte ") || strings.HasPrefix(nx, "(ifelse ")
			case s == "(sub 8)":
				ok = strings.HasPrefix(nx, "(put64 ")
			case s == "(sub 4)":
				ok = strings.HasPrefix(nx, "(put32 ")
			case s == "(sub pk)":
				ok = nx == "declj"
			case strings.HasPrefix(s, "(sub (len ") && strings.HasSuffix(s, "))"):
				ok = nx == "(copy "+s[len("(sub (len "):len(s)-2]+")"
			}
			if !ok {
				t.fail(pos[k], "`%s` is not directly followed by the statement that fills this reservation (next: %s)", s, nx)
			}
		}
		if mpIsFill(s) && (k == 0 || !mpIsReserve(out[k-1])) {
			t.fail(pos[k], "`%s` does not directly follow the statement that reserves its bytes", s)
		}
	}
	return out
}

// the statement(s) starting at list[i]: its text and how many Go statements it covers
func (t *mpTr) stmtAt(list []ast.Stmt, i int, prev string) (string, int) {
	s := list[i]
	switch v := s.(type) {
	case *ast.IncDecStmt:
		if v.Tok == token.DEC && t.isI(v.X) {
			return "dec", 1
		}
		t.fail(s, "increment/decrement other than i--")
	case *ast.DeclStmt:
		// var pksize<N> int
		gd, ok := v.Decl.(*ast.GenDecl)
		if ok && gd.Tok == token.VAR && len(gd.Specs) == 1 {
			if vs, ok := gd.Specs[0].(*ast.ValueSpec); ok && len(vs.Names) == 1 && len(vs.Values) == 0 && mpBuiltin(vs.Type, "int") && mpSlot(vs.Names[0].Name) == "pk" {
				t.decl(vs.Names[0], "pk")
				return "varpk", 1
			}
		}
		t.fail(s, "declaration other than var pksize<N> int")
	case *ast.ExprStmt:
		c, ok := v.X.(*ast.CallExpr)
		if !ok || c.Ellipsis.IsValid() || len(c.Args) != 2 || !t.isFromI(c.Args[0]) {
			t.fail(s, "expression statement is not a call f(dAtA[i:], …)")
		}
		if mpBuiltin(c.Fun, "copy") {
			return "(copy " + t.ref(c.Args[1]) + ")", 1
		}
		if se, ok := c.Fun.(*ast.SelectorExpr); ok && t.pkgSel(se.X, "encoding/binary", "LittleEndian") {
			switch se.Sel.Name {
			case "PutUint64":
				return "(put64 " + t.conv(c.Args[1], "uint64") + ")", 1
			case "PutUint32":
				return "(put32 " + t.conv(c.Args[1], "uint32") + ")", 1
			}
		}
		t.fail(s, "call of %s", t.text(c.Fun))
	case *ast.AssignStmt:
		return t.assign(list, i, v)
	case *ast.IfStmt:
		if v.Init != nil {
			t.fail(s, "if with init statement")
		}
		c := t.cond(v.Cond)
		if v.Else == nil {
			return "(if " + c + mpJoin(t.block(v, v.Body.List, false, false)) + ")", 1
		}
		eb, ok := v.Else.(*ast.BlockStmt)
		if !ok {
			t.fail(s, "else branch is not a block")
		}
		pending := prev == "dec"
		return "(ifelse " + c + " (then" + mpJoin(t.block(v.Body, v.Body.List, false, pending)) + ") (else" + mpJoin(t.block(eb, eb.List, false, pending)) + "))", 1
	case *ast.ForStmt:
		if v.Init == nil && v.Post == nil {
			return t.putVarintJ(list, i, v)
		}
		return t.forRev(v), 1
	case *ast.RangeStmt:
		val, ok := v.Value.(*ast.Ident)
		if v.Tok != token.DEFINE || !spIdent(v.Key, "_") || !ok || (val.Name != "num" && val.Name != "num1") {
			t.fail(s, "range statement is not `for _, <num|num1> := range …`")
		}
		r := t.ref(v.X)
		var body []string
		t.scoped(func() {
			t.decl(val, val.Name)
			body = t.block(v, v.Body.List, false, false)
		})
		return "(for " + val.Name + " " + r + mpJoin(body) + ")", 1
	case *ast.TypeSwitchStmt:
		return t.typeSwitch(v), 1
	}
	t.fail(s, "statement of shape %T", s)
	return "", 1
}

func (t *mpTr) assign(list []ast.Stmt, i int, v *ast.AssignStmt) (string, int) {
	// encoded, err := options.Marshal(R)  +  the error-return block
	if len(v.Lhs) == 2 && len(v.Rhs) == 1 && v.Tok == token.DEFINE && spIdent(v.Lhs[0], "encoded") && spIdent(v.Lhs[1], "err") {
		c, arg := t.call1(v.Rhs[0])
		if c != nil {
			if se, ok := c.Fun.(*ast.SelectorExpr); ok && se.Sel.Name == "Marshal" && t.isObj(se.X, "options", t.objOpt) {
				r := t.ref(arg)
				want := "if err != nil {\nreturn " + t.pi + ".MarshalOutput{\nNoUnkeyedLiterals: input.NoUnkeyedLiterals,\nBuf: input.Buf,\n}, err\n}"
				if i+1 >= len(list) || !spSame(t.text(list[i+1]), want) {
					t.fail(v, "options.Marshal(…) is not followed by the template's error-return block")
				}
				t.decl(v.Lhs[0].(*ast.Ident), "enc")
				return "(marshal " + r + ")", 2
			}
		}
		t.fail(v, "encoded, err := something other than options.Marshal(…)")
	}
	if len(v.Lhs) != 1 || len(v.Rhs) != 1 {
		t.fail(v, "assignment with %d left and %d right sides", len(v.Lhs), len(v.Rhs))
	}
	rhs := v.Rhs[0]
	if t.isAtI(v.Lhs[0]) && v.Tok == token.ASSIGN {
		if u, ok := t.intLit(rhs); ok && u < 256 {
			return "(byte " + strconv.FormatUint(u, 10) + ")", 1
		}
		t.fail(v, "dAtA[i] = something other than a byte literal")
	}
	id, ok := v.Lhs[0].(*ast.Ident)
	if !ok {
		t.fail(v, "assignment to %s", t.text(v.Lhs[0]))
	}
	slot := mpSlot(id.Name)
	switch {
	case t.isI(id) && v.Tok == token.SUB_ASSIGN:
		return "(sub " + t.word(rhs) + ")", 1
	case t.isI(id) && v.Tok == token.ASSIGN:
		// i = runtime.EncodeVarint(dAtA, i, uint64(E))
		c, ok := rhs.(*ast.CallExpr)
		if !ok || c.Ellipsis.IsValid() || len(c.Args) != 3 || !t.pkgSel(c.Fun, spRuntimePath, "EncodeVarint") || !t.isObj(c.Args[0], "dAtA", t.objD) || !t.isI(c.Args[1]) {
			t.fail(v, "i = something other than runtime.EncodeVarint(dAtA, i, …)")
		}
		return "(varint " + t.conv(c.Args[2], "uint64") + ")", 1
	case id.Name == "MaRsHaLmAp" && v.Tok == token.DEFINE:
		if i+1 >= len(list) {
			t.fail(v, "MaRsHaLmAp closure without the iteration that calls it")
		}
		return t.mapBlock(v, list[i+1]), 2
	case slot == "base" && v.Tok == token.DEFINE && t.isI(rhs):
		t.decl(id, "base")
		return "basei", 1
	case slot == "j" && v.Tok == token.DEFINE && t.isI(rhs):
		t.decl(id, "j")
		return "declj", 1
	case (slot == "f" || slot == "x" || slot == "num") && v.Tok == token.DEFINE:
		e := t.word(rhs) // the right side is read before the name is declared
		t.decl(id, slot)
		return "(:= " + slot + " " + e + ")", 1
	case slot == "pk" && v.Tok == token.ADD_ASSIGN:
		t.use(id, "pk")
		return "(pk+= " + t.word(rhs) + ")", 1
	}
	t.fail(v, "assignment %s %s …", id.Name, v.Tok)
	return "", 1
}

// for X >= 1<<7 { dAtA[J] = uint8(uint64(X)&0x7f | 0x80); X >>= 7; J++ }; dAtA[J] = uint8(X); J++     (or J++ before X >>= 7)
func (t *mpTr) putVarintJ(list []ast.Stmt, i int, v *ast.ForStmt) (string, int) {
	c, ok := v.Cond.(*ast.BinaryExpr)
	if !ok || i+2 >= len(list) || len(v.Body.List) != 3 {
		t.fail(v, "for statement is neither `for iNdEx := …` nor the varint loop")
	}
	x, ok := c.X.(*ast.Ident)
	if !ok {
		t.fail(v, "the varint loop does not test a variable")
	}
	var j *ast.Ident
	if as, ok := v.Body.List[0].(*ast.AssignStmt); ok && len(as.Lhs) == 1 {
		if ie, ok := as.Lhs[0].(*ast.IndexExpr); ok && t.isObj(ie.X, "dAtA", t.objD) {
			j, _ = ie.Index.(*ast.Ident)
		}
	}
	if j == nil || mpSlot(j.Name) != "j" {
		t.fail(v, "the varint loop does not write at dAtA[j<N>]")
	}
	xs := mpSlot(x.Name)
	if xs != "num" && xs != "x" {
		t.fail(v, "the varint loop runs on %s", x.Name)
	}
	X, J := x.Name, j.Name
	head := "for " + X + " >= 1<<7 {\ndAtA[" + J + "] = uint8(uint64(" + X + ")&0x7f|0x80)\n"
	tail := "}\ndAtA[" + J + "] = uint8(" + X + ")\n" + J + "++"
	got := t.textRange(list[i], list[i+2])
	order := ""
	switch {
	case spSame(got, head+X+" >>= 7\n"+J+"++\n"+tail):
		order = "shift"
	case spSame(got, head+J+"++\n"+X+" >>= 7\n"+tail):
		order = "inc"
	default:
		t.fail(v, "these three statements are not the template's varint loop on %s at dAtA[%s]", X, J)
	}
	// every occurrence of X and J in the three statements is the variable in scope
	ast.Inspect(&ast.BlockStmt{List: list[i : i+3]}, func(n ast.Node) bool {
		if id, ok := n.(*ast.Ident); ok {
			switch id.Name {
			case X:
				t.use(id, xs)
			case J:
				t.use(id, "j")
			}
		}
		return true
	})
	return "(putvarintj " + xs + " " + order + ")", 3
}

// for iNdEx := len(x.F) - 1; iNdEx >= 0; iNdEx-- { body }
func (t *mpTr) forRev(v *ast.ForStmt) string {
	as, ok := v.Init.(*ast.AssignStmt)
	if !ok || v.Cond == nil || v.Post == nil || len(as.Lhs) != 1 || len(as.Rhs) != 1 || !spIdent(as.Lhs[0], "iNdEx") {
		t.fail(v, "for statement is not `for iNdEx := len(x.F) - 1; iNdEx >= 0; iNdEx--`")
	}
	var se *ast.SelectorExpr
	if be, ok := as.Rhs[0].(*ast.BinaryExpr); ok {
		if c, arg := t.call1(be.X); c != nil {
			se, _ = arg.(*ast.SelectorExpr)
		}
	}
	if se == nil || !spIdent(se.X, "x") || t.caseOf >= 0 || t.idxField >= 0 {
		t.fail(v, "for statement is not `for iNdEx := len(x.F) - 1; iNdEx >= 0; iNdEx--` at the top level of a field block")
	}
	i := t.field(se)
	if !spSame(t.text(as), "iNdEx := len(x."+se.Sel.Name+") - 1") || !spSame(t.text(v.Cond), "iNdEx >= 0") || !spSame(t.text(v.Post), "iNdEx--") {
		t.fail(v, "for statement is not `for iNdEx := len(x.F) - 1; iNdEx >= 0; iNdEx--`")
	}
	var body []string
	t.scoped(func() {
		t.decl(as.Lhs[0].(*ast.Ident), "idx")
		t.idxField = i
		body = t.block(v, v.Body.List, false, false)
	})
	return "(forrev " + strconv.Itoa(i) + mpJoin(body) + ")"
}

// switch x := x.<Oneof>.(type) { case *<Wrapper>: body … }
func (t *mpTr) typeSwitch(v *ast.TypeSwitchStmt) string {
	if t.caseOf >= 0 || t.idxField >= 0 {
		t.fail(v, "type switch inside a case clause or loop")
	}
	as, ok := v.Assign.(*ast.AssignStmt)
	if v.Init != nil || !ok || as.Tok != token.DEFINE || len(as.Lhs) != 1 || len(as.Rhs) != 1 || !spIdent(as.Lhs[0], "x") {
		t.fail(v, "type switch does not bind x")
	}
	ta, ok := as.Rhs[0].(*ast.TypeAssertExpr)
	if !ok || ta.Type != nil {
		t.fail(v, "type switch guard is not x.<Oneof>.(type)")
	}
	se, ok := ta.X.(*ast.SelectorExpr)
	if !ok || !spIdent(se.X, "x") {
		t.fail(v, "type switch guard is not x.<Oneof>.(type)")
	}
	o, ok := t.oneofs[se.Sel.Name]
	if !ok {
		t.fail(v, "x.%s is not a oneof field of the message struct", se.Sel.Name)
	}
	var sb strings.Builder
	fmt.Fprintf(&sb, "(switch %d", o)
	for _, c := range v.Body.List {
		cc := c.(*ast.CaseClause)
		if len(cc.List) != 1 {
			t.fail(cc, "case clause with %d types (a default clause has 0)", len(cc.List))
		}
		st, ok := cc.List[0].(*ast.StarExpr)
		if !ok {
			t.fail(cc, "case type is not *<Wrapper>")
		}
		id, ok := st.X.(*ast.Ident)
		if !ok {
			t.fail(cc, "case type is not *<Wrapper>")
		}
		j, ok := t.wrappers[id.Name]
		if !ok {
			t.fail(cc, "%s is not a oneof wrapper of this message", id.Name)
		}
		var body []string
		t.scoped(func() {
			t.caseOf = j
			body = t.block(cc, cc.Body, false, false)
		})
		fmt.Fprintf(&sb, " (case %d%s)", j, mpJoin(body))
	}
	sb.WriteString(")")
	return sb.String()
}

// MaRsHaLmAp := func(k K, v V) (protoiface.MarshalOutput, error) { baseI := i; …; return protoiface.MarshalOutput{}, nil }
// followed by the iteration boilerplate, matched as a whole: under Deterministic the keys are collected, sorted ascending with the
// comparator and visited from the last to the first; otherwise `range` visits them; the closure is called exactly once per key k
// with (k, x.F[k]) and its error is returned.
func (t *mpTr) mapBlock(as *ast.AssignStmt, next ast.Stmt) string {
	if t.caseOf >= 0 || t.idxField >= 0 {
		t.fail(as, "map block inside a case clause or loop")
	}
	fl, ok := as.Rhs[0].(*ast.FuncLit)
	if !ok || len(as.Rhs) != 1 {
		t.fail(as, "MaRsHaLmAp is not a closure")
	}
	var names []*ast.Ident
	var types []ast.Expr
	for _, p := range fl.Type.Params.List {
		for _, n := range p.Names {
			names = append(names, n)
			types = append(types, p.Type)
		}
	}
	if len(names) != 2 || names[0].Name != "k" || names[1].Name != "v" {
		t.fail(as, "MaRsHaLmAp's parameters are not (k, v)")
	}
	K, V := string(t.text(types[0])), string(t.text(types[1]))
	if !spSame(t.text(fl.Type), "func(k "+K+", v "+V+") ("+t.pi+".MarshalOutput, error)") {
		t.fail(as, "MaRsHaLmAp is not a func(k K, v V) (protoiface.MarshalOutput, error)")
	}
	ifs, ok := next.(*ast.IfStmt)
	if !ok {
		t.fail(next, "the statement after the MaRsHaLmAp closure is not `if options.Deterministic`")
	}
	if !t.isObjSel(ifs.Cond) {
		t.fail(next, "the statement after the MaRsHaLmAp closure is not `if options.Deterministic`")
	}
	field := ""
	if eb, ok := ifs.Else.(*ast.BlockStmt); ok && len(eb.List) == 1 {
		if rs, ok := eb.List[0].(*ast.RangeStmt); ok {
			if se, ok := rs.X.(*ast.SelectorExpr); ok && spIdent(se.X, "x") {
				field = se.Sel.Name
			}
		}
	}
	i, ok := t.plain[field]
	if !ok {
		t.fail(next, "cannot find the map field the iteration ranges over")
	}
	srt := t.f.imports["sort"]
	keys := "keysFor" + field
	cmp := ""
	for _, alt := range [][2]string{
		{"lt", "return " + keys + "[i] < " + keys + "[j]"},
		{"bool", "return !" + keys + "[i] && " + keys + "[j]"},
	} {
		want := "if options.Deterministic {\n" +
			keys + " := make([]" + K + ", 0, len(x." + field + "))\n" +
			"for k := range x." + field + " {\n" + keys + " = append(" + keys + ", " + K + "(k))\n}\n" +
			srt + ".Slice(" + keys + ", func(i, j int) bool {\n" + alt[1] + "\n})\n" +
			"for iNdEx := len(" + keys + ") - 1; iNdEx >= 0; iNdEx-- {\n" +
			"v := x." + field + "[" + K + "(" + keys + "[iNdEx])]\n" +
			"out, err := MaRsHaLmAp(" + keys + "[iNdEx], v)\nif err != nil {\nreturn out, err\n}\n}\n" +
			"} else {\n" +
			"for k := range x." + field + " {\nv := x." + field + "[k]\nout, err := MaRsHaLmAp(k, v)\nif err != nil {\nreturn out, err\n}\n}\n}"
		if srt != "" && spSame(t.text(next), want) {
			cmp = alt[0]
		}
	}
	if cmp == "" {
		t.fail(next, "the iteration after the MaRsHaLmAp closure is not the template's boilerplate")
	}
	var body []string
	t.scoped(func() {
		t.decl(names[0], "k")
		t.decl(names[1], "v")
		body = t.block(fl, fl.Body.List, true, false)
	})
	return "(map " + strconv.Itoa(i) + " " + cmp + mpJoin(body) + ")"
}

// options.Deterministic
func (t *mpTr) isObjSel(e ast.Expr) bool {
	se, ok := e.(*ast.SelectorExpr)
	return ok && se.Sel.Name == "Deterministic" && t.isObj(se.X, "options", t.objOpt)
}

// translate the marshal closure of one message type
func mpTranslate(pkg *spPkg, mi *msgInfo) (prog []string, failure string) {
	if pkg.err != nil {
		return nil, "untranslatable:-:" + pkg.err.Error()
	}
	tname := mi.goType.Name()
	ms := pkg.methods[tname]
	if len(ms) != 1 {
		return nil, fmt.Sprintf("untranslatable:-:%d declarations of fastReflection_%s.ProtoMethods", len(ms), tname)
	}
	m := ms[0]
	st := &spTr{pkg: pkg, f: m.f, plain: map[string]int{}, oneofs: map[string]int{}, wrappers: map[string]int{}, payload: map[int]string{}, caseOf: -1, bound: map[string]bool{}}
	t := &mpTr{spTr: st, slots: map[string]*ast.Object{}, idxField: -1}
	for i, fi := range mi.fields {
		if fi.oneofIdx >= 0 {
			t.oneofs[mi.goType.Field(fi.sf).Name] = fi.oneofIdx
			t.wrappers[fi.wrapper.Elem().Name()] = i
			t.payload[i] = fi.wrapper.Elem().Field(0).Name
		} else {
			t.plain[mi.goType.Field(fi.sf).Name] = i
		}
	}
	defer func() {
		if e := recover(); e != nil {
			se, ok := e.(spErr)
			if !ok {
				panic(e)
			}
			p := pkg.fset.Position(se.pos)
			prog, failure = nil, fmt.Sprintf("untranslatable:%s:%d:%d:%s", filepath.Base(p.Filename), p.Line, p.Column, se.why)
		}
	}()
	pi := m.f.imports[spProtoifacePath]
	rt := m.f.imports[spRuntimePath]
	t.pi = pi
	body := m.decl.Body.List
	// the closure: `marshal := func…` among the statements of ProtoMethods; the name is used once more, as the Marshal member of
	// the returned Methods
	var as *ast.AssignStmt
	for _, s := range body {
		if a, ok := s.(*ast.AssignStmt); ok && a.Tok == token.DEFINE && len(a.Lhs) == 1 && len(a.Rhs) == 1 && spIdent(a.Lhs[0], "marshal") {
			if as != nil {
				t.fail(a, "a second marshal := in ProtoMethods")
			}
			as = a
		}
	}
	if as == nil || len(body) < 2 {
		t.fail(m.decl, "no marshal := func… in ProtoMethods")
	}
	fl, ok := as.Rhs[0].(*ast.FuncLit)
	if !ok || pi == "" || rt == "" || !spSame(t.text(fl.Type), "func(input "+pi+".MarshalInput) ("+pi+".MarshalOutput, error)") {
		t.fail(as, "marshal is not a func(input protoiface.MarshalInput) (protoiface.MarshalOutput, error)")
	}
	mObj := as.Lhs[0].(*ast.Ident).Obj
	ret, ok := body[len(body)-1].(*ast.ReturnStmt)
	if !ok || len(ret.Results) != 1 {
		t.fail(body[len(body)-1], "ProtoMethods does not end in a return")
	}
	found := false
	if ue, ok := ret.Results[0].(*ast.UnaryExpr); ok && ue.Op == token.AND {
		if cl, ok := ue.X.(*ast.CompositeLit); ok && t.pkgSel(cl.Type, spProtoifacePath, "Methods") {
			for _, el := range cl.Elts {
				if kv, ok := el.(*ast.KeyValueExpr); ok && spIdent(kv.Key, "Marshal") {
					if id, ok := kv.Value.(*ast.Ident); ok && id.Obj == mObj && mObj != nil {
						found = true
					}
				}
			}
		}
	}
	if !found {
		t.fail(ret, "ProtoMethods does not return &protoiface.Methods{… Marshal: marshal …}")
	}
	uses := 0
	ast.Inspect(m.decl.Body, func(n ast.Node) bool {
		if id, ok := n.(*ast.Ident); ok && id.Obj == mObj {
			uses++
		}
		return true
	})
	if uses != 2 {
		t.fail(m.decl, "the variable marshal is mentioned %d times in ProtoMethods (declaration and Marshal: marshal expected)", uses)
	}
	// prologue and epilogue, literally
	cl := fl.Body.List
	if len(cl) < 12 {
		t.fail(fl, "marshal closure has %d statements", len(cl))
	}
	out := pi + ".MarshalOutput{\nNoUnkeyedLiterals: input.NoUnkeyedLiterals,\nBuf: input.Buf,\n}"
	prologue := "x := input.Message.Interface().(*" + tname + ")\n" +
		"if x == nil {\nreturn " + out + ", nil\n}\n" +
		"options := " + rt + ".MarshalInputToOptions(input)\n_ = options\n" +
		"size := options.Size(x)\ndAtA := make([]byte, size)\ni := len(dAtA)\n_ = i\nvar l int\n_ = l"
	if !spSame(t.textRange(cl[0], cl[9]), prologue) {
		t.fail(cl[0], "the prologue of the marshal closure is not the template's")
	}
	epilogue := "if input.Buf != nil {\ninput.Buf = append(input.Buf, dAtA...)\n} else {\ninput.Buf = dAtA\n}\nreturn " + out + ", nil"
	if !spSame(t.textRange(cl[len(cl)-2], cl[len(cl)-1]), epilogue) {
		t.fail(cl[len(cl)-2], "the epilogue of the marshal closure is not the template's")
	}
	t.objOpt = cl[2].(*ast.AssignStmt).Lhs[0].(*ast.Ident).Obj
	t.objD = cl[5].(*ast.AssignStmt).Lhs[0].(*ast.Ident).Obj
	t.objI = cl[6].(*ast.AssignStmt).Lhs[0].(*ast.Ident).Obj
	if t.objOpt == nil || t.objD == nil || t.objI == nil {
		t.fail(cl[0], "options / dAtA / i are not resolved")
	}
	return t.block(fl, cl[10:len(cl)-2], false, false), ""
}

func engineMarshalProg(cfg config, o *out) {
	schemas := loadSchemasProg()
	cc := newClassCov("marshalprog")
	defer cc.emit(o)
	for _, si := range schemas {
		o.raw("SCHEMA\t" + si.id + "\t=\t" + si.sexp())
		r := newRng(cfg.seed, "marshalprog/"+si.id)
		g := &vgen{r: r, si: si, nilElems: true}
		for _, mi := range si.roots() {
			args := []string{si.id, fmt.Sprint(mi.idx)}
			stmts, failure := mpTranslate(spPkgOf(mi), mi)
			if failure != "" {
				o.kase("MARSHALPROG", append(args, "len"), failure)
				o.count("untranslatable")
				continue
			}
			for k, s := range stmts {
				o.kase("MARSHALPROG", append(args, strconv.Itoa(k)), s)
			}
			o.kase("MARSHALPROG", append(args, "len"), strconv.Itoa(len(stmts)))
			prog := "(prog" + mpJoin(stmts) + ")"
			o.kase("@MARSHALDEF", append(args, prog), "ok")
			o.kase("MARSHALPROG", append(args, "eqb"), "same")
			o.count("translated")
			cc.message(si, mi)
			o.nontrivial("prog/" + prog)
			for _, form := range []string{"dec", "basei", "varpk", "declj"} {
				o.hist["stmt_"+form] += strings.Count(prog, " "+form+" ") + strings.Count(prog, " "+form+")")
			}
			for _, form := range []string{"(sub", "(byte", "(copy", "(put32", "(put64", "(varint", "(:=", "(marshal", "(pk+=", "(putvarintj", "(if", "(ifelse", "(forrev", "(for", "(map", "(switch", "(case"} {
				o.hist["stmt_"+form[1:]] += strings.Count(prog, form+" ")
			}
			// the interpreter on the translated program against the running code: deterministic mode for values with a map of two
			// or more entries (the plain mode visits them in an order of Go's choosing), plain mode for the others
			run := func(v *V, class string) {
				p := si.toGo(mi, v).Interface().(proto.Message)
				det := maxMapLen(v) >= 2
				res := catchMarshal(proto.MarshalOptions{Deterministic: det}, p)
				d := "n"
				if det {
					d = "d"
				}
				o.kase("MARSHALRUN", []string{si.id, fmt.Sprint(mi.idx), d, v.String()}, res.String())
				o.count("run_" + class + "_" + d)
				o.nontrivial(si.id + "/" + fmt.Sprint(mi.idx) + "/" + class + "/" + shapeKey(v))
			}
			run(si.emptyV(mi), "empty")
			uv := si.emptyV(mi)
			uv.Unk = genUnknownFor(r, mi)
			run(uv, "unknown-only")
			for i, fi := range mi.fields {
				fd := fi.fd
				nb := 2
				if cfg.thorough() {
					nb = 4
					if !fd.IsMap() && !fd.IsList() && fd.Kind() != protoreflect.MessageKind {
						nb = g.boundaryCount(fd)
					}
				}
				for b := 0; b < nb; b++ {
					v := si.emptyV(mi)
					switch {
					case fi.oneofIdx >= 0:
						if fd.Kind() == protoreflect.MessageKind {
							v.L[i] = &V{K: 's', P: g.elem(fd, 2)}
						} else {
							v.L[i] = &V{K: 's', P: g.scalar(fd)}
						}
					case fd.IsMap() || fd.IsList() || fd.Kind() == protoreflect.MessageKind:
						v.L[i] = g.field(fi, 2)
					case cfg.thorough():
						v.L[i] = g.scalarAt(fd, b)
					default:
						v.L[i] = g.scalar(fd)
					}
					run(v, "onehot")
				}
			}
			n := 10
			if cfg.thorough() {
				n = 200
			}
			for k := 0; k < n; k++ {
				g.badUTF8 = k%5 == 4 // the marshal closure does not look at the bytes of a string
				g.unkDeep = k%4 == 1
				v := g.msg(mi, 3, 2+r.intn(7))
				g.unkDeep = false
				g.badUTF8 = false
				if k%3 == 0 {
					v.Unk = append(v.Unk, genUnknownFor(r, mi)...)
				}
				run(v, "random")
			}
		}
	}
}
