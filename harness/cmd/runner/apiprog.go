package main

// Engine "apiprog" — translator tie for the plain Go API of generated messages (coq/Model/ApiProg.v): the protoc-gen-go part of
// every generated file (features/protoc/main.go: genMessage, genMessageFields, genMessageOneofWrapperTypes,
// genMessageGetterMethods, genMessageBaseMethods).
//
// On every run, for every generated message type T of every loaded schema set, the Go SOURCE of
//     type T struct {…}      type isT_O interface { isT_O() }      type T_F struct { F K `…` }      func (*T_F) isT_O() {}
//     func (x *T) Get…() K   func (x *T) Reset()
// (checked-in *.pulsar.go under VERIF_REPO, freshly generated ones under harness/gen/<set>/) is parsed with go/parser and translated,
// purely syntactically, into the syntax of Model/ApiProg.v: struct fields with their Go type expression and the contents of their
// struct tags (parsed word by word, in TagMarshal's order), wrapper types, and the method bodies, which must be, token for token, one
// of the forms the generator prints (patterns below). Anything else is "untranslatable". The driver compares the translation with
// canon_prog (computed from the schema and the NAMING CONTEXT of the message) and runs the Coq interpreter on the TRANSLATED getters
// and Reset against the running code (APIRUN).
//
// The naming context (@APINAMES) carries what the schema does not: proto / JSON names and the first enum value (descriptor), the Go
// names of struct fields, wrapper types and interface types (package reflect on the linked struct: the very names through which
// values.go and the other translators map names to field indexes), the Go type registered for each enum (protoregistry), the
// legacy enum name (protoimpl.X.LegacyEnumName), the file's message tree (for the index in file_…_msgTypes[N]).
//
// Case lines (evaluated by driver/apiprog_eval.ml, which also documents the text form):
//	@APINAMES <set> <idx> <names>            = ok     context line: the naming context, remembered by every driver shard
//	APINAMES  <set> <idx> check              = ok     model: api_names_okb; here: the names agree with those the reflectprog translator resolved
//	APIPROG   <set> <idx> structname         = T
//	APIPROG   <set> <idx> field <k>          = k-th Go field of the struct        (model: the k-th of canon_api_struct)
//	APIPROG   <set> <idx> fields len         = their number | untranslatable:<file>:<line>:<col>:<why>
//	APIPROG   <set> <idx> oneofdecl <o>      = interface + wrapper types of oneof o | untranslatable:…
//	APIPROG   <set> <idx> getter <i>         = the getter of field i | untranslatable:…
//	APIPROG   <set> <idx> ogetter <o>        = the getter of oneof o | untranslatable:…
//	APIPROG   <set> <idx> reset              = Reset | untranslatable:…
//	@APIDEF   <set> <idx> <prog>             = ok     context line: the whole translation (only when every part was translated)
//	APIPROG   <set> <idx> all eqb            = same   (model: aprog_eqb <translated> (canon_prog sch idx names); + the layout law)
//	APIRUN    <set> <idx> <VAL|nil>          = g0;g1;…|o0;o1;…|<VAL after Reset>   every getter and Reset called on the struct built
//	                                           from VAL (nil: on the nil pointer); model: the interpreter on the TRANSLATED methods

import (
	"fmt"
	"go/ast"
	"go/parser"
	"go/token"
	"os"
	"path/filepath"
	"reflect"
	"sort"
	"strconv"
	"strings"
	"unicode"

	"google.golang.org/protobuf/proto"
	"google.golang.org/protobuf/reflect/protoreflect"
	"google.golang.org/protobuf/reflect/protoregistry"
	"google.golang.org/protobuf/runtime/protoimpl"
)

func init() { engines["apiprog"] = engineApiProg }

const apProtoimplPath = "google.golang.org/protobuf/runtime/protoimpl"

// ---- package source -------------------------------------------------------------------------------------------------------
type apDecl struct {
	f    *spFile
	spec *ast.TypeSpec
}
type apConst struct {
	f   *spFile
	typ ast.Expr
	val ast.Expr
}
type apPkg struct {
	fset    *token.FileSet
	types   map[string][]apDecl
	methods map[string]map[string][]*spMethod // receiver type name (pointer or value receiver) -> method name -> declarations
	consts  map[string][]apConst
	err     error
}

var apPkgs = map[string]*apPkg{}

func apPkgOf(mi *msgInfo) *apPkg {
	pp := mi.goType.PkgPath()
	if p, ok := apPkgs[pp]; ok {
		return p
	}
	var p *apPkg
	if dir := spDir(pp); dir != "" {
		p = apLoad(dir)
	} else {
		p = &apPkg{err: fmt.Errorf("no source directory known for package %s", pp)}
	}
	apPkgs[pp] = p
	return p
}

func apLoad(dir string) *apPkg {
	p := &apPkg{fset: token.NewFileSet(), types: map[string][]apDecl{}, methods: map[string]map[string][]*spMethod{}, consts: map[string][]apConst{}}
	all, _ := filepath.Glob(filepath.Join(dir, "*.go"))
	sort.Strings(all)
	found := false
	for _, path := range all {
		if strings.HasSuffix(path, "_test.go") {
			continue
		}
		src, err := os.ReadFile(path)
		if err != nil {
			p.err = err
			return p
		}
		af, err := parser.ParseFile(p.fset, path, src, 0)
		if err != nil {
			p.err = err
			return p
		}
		for _, name := range rpPredeclared {
			if af.Scope.Lookup(name) != nil {
				p.err = fmt.Errorf("%s declares %s at package level", filepath.Base(path), name)
				return p
			}
		}
		if strings.HasSuffix(path, ".pulsar.go") {
			found = true
		}
		f := &spFile{path: path, src: src, file: af, imports: map[string]string{}}
		for _, im := range af.Imports {
			ip, _ := strconv.Unquote(im.Path.Value)
			name := filepath.Base(ip)
			if im.Name != nil {
				name = im.Name.Name
			}
			f.imports[ip] = name
		}
		for _, d := range af.Decls {
			switch d := d.(type) {
			case *ast.GenDecl:
				for _, s := range d.Specs {
					switch s := s.(type) {
					case *ast.TypeSpec:
						p.types[s.Name.Name] = append(p.types[s.Name.Name], apDecl{f, s})
					case *ast.ValueSpec:
						if d.Tok != token.CONST {
							continue
						}
						for i, n := range s.Names {
							c := apConst{f: f, typ: s.Type}
							if i < len(s.Values) {
								c.val = s.Values[i]
							}
							p.consts[n.Name] = append(p.consts[n.Name], c)
						}
					}
				}
			case *ast.FuncDecl:
				if d.Recv == nil || len(d.Recv.List) != 1 {
					continue
				}
				var rt ast.Expr = d.Recv.List[0].Type
				if st, ok := rt.(*ast.StarExpr); ok {
					rt = st.X
				}
				id, ok := rt.(*ast.Ident)
				if !ok {
					continue
				}
				if p.methods[id.Name] == nil {
					p.methods[id.Name] = map[string][]*spMethod{}
				}
				p.methods[id.Name][d.Name.Name] = append(p.methods[id.Name][d.Name.Name], &spMethod{f: f, decl: d})
			}
		}
	}
	if !found {
		p.err = fmt.Errorf("no *.pulsar.go in %s", dir)
	}
	return p
}

// ---- naming context ---------------------------------------------------------------------------------------------------------
type apFNames struct {
	proto, json, goName, wrap, enum, enumTag string
	local                                    bool
	first                                    int64
}
type apONames struct{ proto, goName, iface string }
type apNames struct {
	goName, varName string
	tree            string
	path            []string
	fields          []apFNames
	oneofs          []apONames
}

func apTok(s string) string {
	if s == "" {
		return "~"
	}
	return s
}
func apTokOK(s string) bool {
	if s == "~" {
		return false
	}
	for _, c := range s {
		if c <= ' ' || c == '(' || c == ')' || c == ';' || c == '|' || c == '\t' || c == 0x7f {
			return false
		}
	}
	return true
}

// strs.GoSanitized, as far as file paths need it
func apGoSanitized(s string) string {
	out := strings.Map(func(r rune) rune {
		if unicode.IsLetter(r) || unicode.IsDigit(r) {
			return r
		}
		return '_'
	}, s)
	if out == "" || unicode.IsDigit(rune(out[0])) || token.Lookup(out).IsKeyword() {
		return "_" + out
	}
	return out
}

func apEnumOf(fd protoreflect.FieldDescriptor) protoreflect.EnumDescriptor {
	if fd.IsMap() {
		return fd.MapValue().Enum()
	}
	return fd.Enum()
}

func apNamesOf(mi *msgInfo) (*apNames, error) {
	n := &apNames{goName: mi.goType.Name()}
	fd := mi.md.ParentFile()
	n.varName = "file_" + apGoSanitized(fd.Path()) + "_msgTypes"
	var tree func(ms protoreflect.MessageDescriptors) string
	tree = func(ms protoreflect.MessageDescriptors) string {
		var sb strings.Builder
		for i := 0; i < ms.Len(); i++ {
			m := ms.Get(i)
			if i > 0 {
				sb.WriteString(" ")
			}
			sb.WriteString("(" + string(m.Name()))
			if m.Messages().Len() > 0 {
				sb.WriteString(" " + tree(m.Messages()))
			}
			sb.WriteString(")")
		}
		return sb.String()
	}
	n.tree = tree(fd.Messages())
	for d := protoreflect.Descriptor(mi.md); d != nil; d = d.Parent() {
		if _, isFile := d.(protoreflect.FileDescriptor); isFile {
			break
		}
		n.path = append([]string{string(d.Name())}, n.path...)
	}
	for _, fi := range mi.fields {
		f := apFNames{proto: string(fi.fd.Name()), json: fi.fd.JSONName()}
		if fi.oneofIdx >= 0 {
			if fi.wrapper == nil {
				return nil, fmt.Errorf("no wrapper type registered for member %s", fi.fd.FullName())
			}
			f.goName = fi.wrapper.Elem().Field(0).Name
			f.wrap = fi.wrapper.Elem().Name()
		} else {
			f.goName = mi.goType.Field(fi.sf).Name
		}
		if ed := apEnumOf(fi.fd); ed != nil {
			et, err := protoregistry.GlobalTypes.FindEnumByName(ed.FullName())
			if err != nil {
				return nil, fmt.Errorf("enum %s not registered: %v", ed.FullName(), err)
			}
			gt := reflect.TypeOf(et.New(0))
			f.enum = gt.PkgPath() + "." + gt.Name()
			f.enumTag = protoimpl.X.LegacyEnumName(ed)
			f.local = gt.PkgPath() == mi.goType.PkgPath()
			f.first = int64(ed.Values().Get(0).Number())
		}
		n.fields = append(n.fields, f)
	}
	for k, od := range realOneofs(mi.md) {
		sf := -1
		for _, fi := range mi.fields {
			if fi.oneofIdx == k {
				sf = fi.sf
				break
			}
		}
		if sf < 0 {
			return nil, fmt.Errorf("oneof %s has no member", od.FullName())
		}
		n.oneofs = append(n.oneofs, apONames{proto: string(od.Name()), goName: mi.goType.Field(sf).Name, iface: mi.goType.Field(sf).Type.Name()})
	}
	return n, nil
}

func (n *apNames) text() (string, error) {
	var sb strings.Builder
	toks := []string{n.goName, n.varName}
	fmt.Fprintf(&sb, "(names %s %s (path", apTok(n.goName), apTok(n.varName))
	for _, p := range n.path {
		sb.WriteString(" " + p)
		toks = append(toks, p)
	}
	sb.WriteString(") (tree")
	if n.tree != "" {
		sb.WriteString(" " + n.tree)
	}
	sb.WriteString(") (fields")
	for _, f := range n.fields {
		l := "foreign"
		if f.local {
			l = "local"
		}
		fmt.Fprintf(&sb, " (fn %s %s %s %s %s %s %s %d)", apTok(f.proto), apTok(f.json), apTok(f.goName), apTok(f.wrap), apTok(f.enum), apTok(f.enumTag), l, f.first)
		toks = append(toks, f.proto, f.json, f.goName, f.wrap, f.enum, f.enumTag)
	}
	sb.WriteString(") (oneofs")
	for _, o := range n.oneofs {
		fmt.Fprintf(&sb, " (on %s %s %s)", apTok(o.proto), apTok(o.goName), apTok(o.iface))
		toks = append(toks, o.proto, o.goName, o.iface)
	}
	sb.WriteString("))")
	for _, t := range toks {
		if t != "" && !apTokOK(t) {
			return "", fmt.Errorf("the name %q cannot be written as a token", t)
		}
	}
	return sb.String(), nil
}

// ---- the translator of one message type --------------------------------------------------------------------------------------
type apTr struct {
	pkg      *apPkg
	si       *schemaInfo
	mi       *msgInfo
	names    *apNames
	f        *spFile
	at       ast.Node
	plain    map[string]int // Go struct field name -> field index (fields outside oneofs)
	oneofs   map[string]int // Go struct field name of a oneof -> oneof index
	wrappers map[string]int // wrapper type name -> member field index
}

func (t *apTr) fail(why string, a ...interface{}) {
	panic(spErr{t.at.Pos(), fmt.Sprintf(why, a...)})
}
func (t *apTr) text(n ast.Node) []byte {
	return t.f.src[t.pkg.fset.Position(n.Pos()).Offset:t.pkg.fset.Position(n.End()).Offset]
}
func (t *apTr) name(s string) string {
	if !apTokOK(s) {
		t.fail("the name %q cannot be written as a token", s)
	}
	return s
}

// catch turns a translation failure into "untranslatable:<file>:<line>:<col>:<why>"
func (t *apTr) catch(f func() string) (res string, ok bool) {
	defer func() {
		if e := recover(); e != nil {
			se, isErr := e.(spErr)
			if !isErr {
				panic(e)
			}
			p := t.pkg.fset.Position(se.pos)
			res, ok = fmt.Sprintf("untranslatable:%s:%d:%d:%s", filepath.Base(p.Filename), p.Line, p.Column, se.why), false
		}
	}()
	return f(), true
}

// a (qualified) identifier -> (package path, name)
func (t *apTr) resolve(e ast.Expr) (string, string) {
	switch v := e.(type) {
	case *ast.Ident:
		return t.mi.goType.PkgPath(), v.Name
	case *ast.SelectorExpr:
		if id, ok := v.X.(*ast.Ident); ok {
			for path, local := range t.f.imports {
				if local == id.Name {
					return path, v.Sel.Name
				}
			}
		}
	}
	t.fail("not a (qualified) type name")
	return "", ""
}

var apBasic = map[string]string{"bool": "bool", "int32": "int32", "uint32": "uint32", "int64": "int64", "uint64": "uint64",
	"float32": "float32", "float64": "float64", "string": "string"}

// a Go type expression, as fieldGoType prints it (names are read from the AST; imports from the file t.f)
func (t *apTr) goType(e ast.Expr) string {
	switch v := e.(type) {
	case *ast.Ident:
		if b, ok := apBasic[v.Name]; ok {
			return b
		}
		if ds := t.pkg.types[v.Name]; len(ds) == 1 {
			if _, isIface := ds[0].spec.Type.(*ast.InterfaceType); isIface {
				return "(iface " + t.name(v.Name) + ")"
			}
		}
		pp, n := t.resolve(v)
		return "(enum " + t.name(pp+"."+n) + ")"
	case *ast.SelectorExpr:
		pp, n := t.resolve(v)
		if pp == apProtoimplPath {
			switch n {
			case "MessageState":
				return "state"
			case "SizeCache":
				return "sizecache"
			case "UnknownFields":
				return "unknown"
			}
		}
		return "(enum " + t.name(pp+"."+n) + ")"
	case *ast.StarExpr:
		pp, n := t.resolve(v.X)
		for _, m := range t.si.msgs {
			if m.goType.PkgPath() == pp && m.goType.Name() == n {
				return fmt.Sprintf("(msg %d)", m.idx)
			}
		}
		t.fail("*%s.%s is not a message type of the schema", pp, n)
	case *ast.ArrayType:
		if v.Len != nil {
			t.fail("array type")
		}
		if id, ok := v.Elt.(*ast.Ident); ok && id.Name == "byte" {
			return "bytes"
		}
		return "(slice " + t.goType(v.Elt) + ")"
	case *ast.MapType:
		return "(map " + t.goType(v.Key) + " " + t.goType(v.Value) + ")"
	}
	t.fail("not a type fieldGoType prints")
	return ""
}
func (t *apTr) goTypeToks(toks []string) string {
	e, err := parser.ParseExpr(strings.Join(toks, " "))
	if err != nil {
		t.fail("%s is not a type", strings.Join(toks, " "))
	}
	return t.goType(e)
}

// -- struct tags
var apWires = map[string]bool{"varint": true, "zigzag32": true, "zigzag64": true, "fixed32": true, "fixed64": true, "bytes": true}

// the value of a protobuf:"…" tag, word by word in TagMarshal's order
func (t *apTr) ptag(s string) string {
	parts := strings.Split(s, ",")
	if len(parts) < 4 {
		t.fail("protobuf tag %q has fewer than four words", s)
	}
	if !apWires[parts[0]] {
		t.fail("protobuf tag %q: unknown wire word %q", s, parts[0])
	}
	if _, err := strconv.ParseUint(parts[1], 10, 32); err != nil || (len(parts[1]) > 1 && parts[1][0] == '0') {
		t.fail("protobuf tag %q: %q is not a field number", s, parts[1])
	}
	if parts[2] != "opt" && parts[2] != "rep" && parts[2] != "req" {
		t.fail("protobuf tag %q: %q is not a label", s, parts[2])
	}
	rest := parts[3:]
	var items []string
	if len(rest) > 0 && rest[0] == "packed" {
		items = append(items, "packed")
		rest = rest[1:]
	}
	if len(rest) == 0 || !strings.HasPrefix(rest[0], "name=") {
		t.fail("protobuf tag %q: name= expected after the label", s)
	}
	name := t.name(strings.TrimPrefix(rest[0], "name="))
	rest = rest[1:]
	if len(rest) > 0 && strings.HasPrefix(rest[0], "json=") {
		items = append(items, "(json "+t.name(strings.TrimPrefix(rest[0], "json="))+")")
		rest = rest[1:]
	}
	if len(rest) > 0 && rest[0] == "proto3" {
		items = append(items, "proto3")
		rest = rest[1:]
	}
	if len(rest) > 0 && strings.HasPrefix(rest[0], "enum=") {
		items = append(items, "(enum "+t.name(strings.TrimPrefix(rest[0], "enum="))+")")
		rest = rest[1:]
	}
	if len(rest) > 0 && rest[0] == "oneof" {
		items = append(items, "oneof")
		rest = rest[1:]
	}
	if len(rest) != 0 {
		t.fail("protobuf tag %q: unexpected word %q", s, rest[0])
	}
	out := fmt.Sprintf("(pt %s %s %s %s", parts[0], parts[1], parts[2], name)
	for _, it := range items {
		out += " " + it
	}
	return out + ")"
}

// `key:"value" key:"value"` exactly as structTags.String prints it
func (t *apTr) splitTag(lit string) (keys, vals []string) {
	if len(lit) < 2 || lit[0] != '`' || lit[len(lit)-1] != '`' {
		t.fail("the struct tag is not a raw string literal")
	}
	s := lit[1 : len(lit)-1]
	for s != "" {
		i := strings.Index(s, ":\"")
		if i <= 0 {
			t.fail("struct tag: key:\"value\" expected at %q", s)
		}
		key := s[:i]
		// the quoted value
		j := i + 2
		for j < len(s) && s[j] != '"' {
			if s[j] == '\\' {
				j++
			}
			j++
		}
		if j >= len(s) {
			t.fail("struct tag: unterminated value")
		}
		v, err := strconv.Unquote(s[i+1 : j+1])
		if err != nil {
			t.fail("struct tag: %v", err)
		}
		keys, vals = append(keys, key), append(vals, v)
		s = s[j+1:]
		if s != "" {
			if s[0] != ' ' || len(s) == 1 {
				t.fail("struct tag: one blank expected between pairs")
			}
			s = s[1:]
		}
	}
	return
}

func (t *apTr) tags(f *ast.Field) string {
	if f.Tag == nil {
		return "notag"
	}
	keys, vals := t.splitTag(f.Tag.Value)
	jsonName := func(v string) string {
		if !strings.HasSuffix(v, ",omitempty") {
			t.fail("json tag %q does not end in ,omitempty", v)
		}
		return t.name(strings.TrimSuffix(v, ",omitempty"))
	}
	switch strings.Join(keys, " ") {
	case "protobuf json":
		return "(field " + t.ptag(vals[0]) + " " + jsonName(vals[1]) + ")"
	case "protobuf json protobuf_key protobuf_val":
		return "(mapfield " + t.ptag(vals[0]) + " " + jsonName(vals[1]) + " " + t.ptag(vals[2]) + " " + t.ptag(vals[3]) + ")"
	case "protobuf_oneof":
		return "(oneof " + t.name(vals[0]) + ")"
	case "protobuf":
		return "(wrapper " + t.ptag(vals[0]) + ")"
	}
	t.fail("struct tag with the keys [%s] is not one the generator prints", strings.Join(keys, " "))
	return ""
}

func (t *apTr) goField(f *ast.Field) string {
	t.at = f
	if len(f.Names) != 1 {
		t.fail("a struct field declaration with %d names", len(f.Names))
	}
	return "(f " + t.name(f.Names[0].Name) + " " + t.goType(f.Type) + " " + t.tags(f) + ")"
}

// type <name> struct {…}: exactly one declaration
func (t *apTr) structDecl(name string) *ast.StructType {
	ds := t.pkg.types[name]
	if len(ds) != 1 {
		panic(spErr{token.NoPos, fmt.Sprintf("%d declarations of type %s", len(ds), name)})
	}
	t.f = ds[0].f
	t.at = ds[0].spec
	if ds[0].spec.Assign != token.NoPos || ds[0].spec.TypeParams != nil {
		t.fail("type %s is an alias or generic", name)
	}
	st, ok := ds[0].spec.Type.(*ast.StructType)
	if !ok {
		t.fail("type %s is not a struct", name)
	}
	return st
}

func (t *apTr) structFields() []string {
	st := t.structDecl(t.names.goName)
	var out []string
	for _, f := range st.Fields.List {
		out = append(out, t.goField(f))
	}
	return out
}

// interface + wrapper types + marker methods of oneof o
func (t *apTr) oneofDecl(o int) string {
	iface := t.names.oneofs[o].iface
	ds := t.pkg.types[iface]
	if len(ds) != 1 {
		panic(spErr{token.NoPos, fmt.Sprintf("%d declarations of type %s", len(ds), iface)})
	}
	t.f, t.at = ds[0].f, ds[0].spec
	if !spSameToks(spToks(t.text(ds[0].spec)), spToks([]byte(iface+" interface { "+iface+"() }"))) {
		t.fail("type %s is not `interface { %s() }`", iface, iface)
	}
	var ws, impls []string
	for i, fi := range t.mi.fields {
		if fi.oneofIdx != o {
			continue
		}
		w := t.names.fields[i].wrap
		st := t.structDecl(w)
		if len(st.Fields.List) != 1 {
			t.fail("wrapper type %s has %d field declarations", w, len(st.Fields.List))
		}
		ws = append(ws, "(w "+t.name(w)+" "+t.goField(st.Fields.List[0])+")")
	}
	// the types with the marker method  func (*W) isT_O() {}  — in the order of the members
	for i, fi := range t.mi.fields {
		if fi.oneofIdx != o {
			continue
		}
		w := t.names.fields[i].wrap
		ms := t.pkg.methods[w][iface]
		if len(ms) == 0 {
			continue
		}
		if len(ms) != 1 {
			panic(spErr{token.NoPos, fmt.Sprintf("%d declarations of %s.%s", len(ms), w, iface)})
		}
		t.f, t.at = ms[0].f, ms[0].decl
		if !spSameToks(spToks(t.text(ms[0].decl)), spToks([]byte("func (*"+w+") "+iface+"() {}"))) {
			t.fail("the marker method of %s is not `func (*%s) %s() {}`", w, w, iface)
		}
		impls = append(impls, w)
	}
	// no other type of the package may implement the interface through a marker method of that name
	for tn, ms := range t.pkg.methods {
		if len(ms[iface]) > 0 {
			j, isWrapper := t.wrappers[tn]
			if !isWrapper || t.mi.fields[j].oneofIdx != o {
				t.f, t.at = ms[iface][0].f, ms[iface][0].decl
				t.fail("type %s, not a wrapper of this oneof, has a method %s", tn, iface)
			}
		}
	}
	return "(oneofdecl " + t.name(iface) + " (wrappers" + apJoin(ws) + ") (impls" + apJoin(impls) + "))"
}

func apJoin(l []string) string {
	s := ""
	for _, x := range l {
		s += " " + x
	}
	return s
}
func spSameToks(x, y []string) bool {
	if len(x) != len(y) {
		return false
	}
	for i := range x {
		if x[i] != y[i] {
			return false
		}
	}
	return true
}

// -- methods
func (t *apTr) method(name string) *spMethod {
	ms := t.pkg.methods[t.names.goName][name]
	if len(ms) != 1 {
		panic(spErr{token.NoPos, fmt.Sprintf("%d declarations of the method %s.%s", len(ms), t.names.goName, name)})
	}
	t.f, t.at = ms[0].f, ms[0].decl
	return ms[0]
}
func (t *apTr) match(pattern string, src []string) rpBind {
	pi := t.f.imports[apProtoimplPath]
	if pi == "" {
		pi = "no_protoimpl_import"
	}
	pattern = strings.ReplaceAll(pattern, "PI.", pi+".")
	b := rpBind{}
	if rpMatch(rpPat(pattern), src, b) {
		return b
	}
	return nil
}

func apInt(toks []string) (int64, bool) {
	s := strings.Join(toks, "")
	if len(toks) == 0 || len(toks) > 2 || (len(toks) == 2 && toks[0] != "-") {
		return 0, false
	}
	n, err := strconv.ParseInt(s, 10, 64)
	if err != nil || (strings.TrimPrefix(s, "-") != "0" && strings.HasPrefix(strings.TrimPrefix(s, "-"), "0")) {
		return 0, false
	}
	return n, true
}

// what follows the last `return` of a getter
func (t *apTr) zero(toks []string) string {
	switch strings.Join(toks, " ") {
	case "false":
		return "false"
	case "0":
		return "num"
	case `""`:
		return "str"
	case "nil":
		return "nil"
	}
	if b := (rpBind{}); rpMatch(rpPat("HOLES_E(HOLES_N)"), toks, b) {
		if n, ok := apInt(b["HOLES_N"]); ok {
			e, err := parser.ParseExpr(strings.Join(b["HOLES_E"], " "))
			if err != nil {
				t.fail("%s is not a type", strings.Join(b["HOLES_E"], " "))
			}
			pp, name := t.resolve(e)
			return fmt.Sprintf("(conv %s %d)", t.name(pp+"."+name), n)
		}
	}
	if len(toks) == 1 && token.IsIdentifier(toks[0]) {
		cs := t.pkg.consts[toks[0]]
		if len(cs) != 1 || cs[0].typ == nil || cs[0].val == nil {
			t.fail("%s is not declared exactly once as a typed constant with a value", toks[0])
		}
		save := t.f
		t.f = cs[0].f
		pp, name := t.resolve(cs[0].typ)
		n, ok := apInt(spToks(t.text(cs[0].val)))
		t.f = save
		if !ok {
			t.fail("the constant %s is not declared with an integer literal", toks[0])
		}
		return fmt.Sprintf("(const %s %d)", t.name(pp+"."+name), n)
	}
	t.fail("`return %s` is not a default value fieldDefaultValue prints", strings.Join(toks, " "))
	return ""
}

func (t *apTr) getter(i int) string {
	gn := "Get" + t.names.fields[i].goName
	m := t.method(gn)
	src := spToks(t.text(m.decl))
	T := t.names.goName
	if b := t.match("func (x *"+T+") "+gn+"() HOLES_TY { if x != nil { return x.HOLE_F }; return HOLES_Z }", src); b != nil {
		f, ok := t.plain[one(b, "HOLE_F")]
		if !ok {
			t.fail("x.%s is not a plain field of the message struct", one(b, "HOLE_F"))
		}
		return fmt.Sprintf("(get %d %s %s)", f, t.goTypeToks(b["HOLES_TY"]), t.zero(b["HOLES_Z"]))
	}
	if b := t.match("func (x *"+T+") "+gn+"() HOLES_TY { if x, ok := x.HOLE_G().(*HOLE_W); ok { return x.HOLE_F }; return HOLES_Z }", src); b != nil {
		g := one(b, "HOLE_G")
		o, ok := t.oneofs[strings.TrimPrefix(g, "Get")]
		if !ok || !strings.HasPrefix(g, "Get") {
			t.fail("x.%s() is not the getter of a oneof of the message", g)
		}
		j, ok := t.wrappers[one(b, "HOLE_W")]
		if !ok {
			t.fail("%s is not a oneof wrapper type of this message", one(b, "HOLE_W"))
		}
		if t.names.fields[j].goName != one(b, "HOLE_F") {
			t.fail("the wrapper of field %d has the field %s, not %s", j, t.names.fields[j].goName, one(b, "HOLE_F"))
		}
		return fmt.Sprintf("(mget %d %d %s %s)", o, j, t.goTypeToks(b["HOLES_TY"]), t.zero(b["HOLES_Z"]))
	}
	t.fail("%s is not one of the getter forms the generator prints", gn)
	return ""
}

func (t *apTr) ogetter(o int) string {
	gn := "Get" + t.names.oneofs[o].goName
	m := t.method(gn)
	src := spToks(t.text(m.decl))
	b := t.match("func (x *"+t.names.goName+") "+gn+"() HOLE_I { if x != nil { return x.HOLE_O }; return nil }", src)
	if b == nil {
		t.fail("%s is not the oneof getter the generator prints", gn)
	}
	oo, ok := t.oneofs[one(b, "HOLE_O")]
	if !ok {
		t.fail("x.%s is not a oneof field of the message struct", one(b, "HOLE_O"))
	}
	return fmt.Sprintf("(oget %d %s)", oo, t.name(one(b, "HOLE_I")))
}

func (t *apTr) reset() string {
	m := t.method("Reset")
	src := spToks(t.text(m.decl))
	b := t.match("func (x *"+t.names.goName+") Reset() { *x = HOLES_T{}; if PI.UnsafeEnabled { mi := &HOLE_V[HOLE_N]; ms := PI.X.MessageStateOf(PI.Pointer(x)); ms.StoreMessageInfo(mi) } }", src)
	if b == nil {
		t.fail("Reset is not the method the generator prints")
	}
	e, err := parser.ParseExpr(strings.Join(b["HOLES_T"], " "))
	if err != nil {
		t.fail("%s is not a type", strings.Join(b["HOLES_T"], " "))
	}
	pp, name := t.resolve(e)
	mIdx := -1
	for _, mm := range t.si.msgs {
		if mm.goType.PkgPath() == pp && mm.goType.Name() == name {
			mIdx = mm.idx
		}
	}
	if mIdx < 0 {
		t.fail("%s.%s is not a message type of the schema", pp, name)
	}
	n, ok := apInt(b["HOLE_N"])
	if !ok || n < 0 {
		t.fail("the index %s is not a decimal literal", one(b, "HOLE_N"))
	}
	return fmt.Sprintf("(reset %d %s %d)", mIdx, t.name(one(b, "HOLE_V")), n)
}

func apTranslator(si *schemaInfo, mi *msgInfo) (*apTr, string, string) {
	names, err := apNamesOf(mi)
	if err != nil {
		return nil, "", "untranslatable:-:" + err.Error()
	}
	ntext, err := names.text()
	if err != nil {
		return nil, "", "untranslatable:-:" + err.Error()
	}
	pkg := apPkgOf(mi)
	if pkg.err != nil {
		return nil, ntext, "untranslatable:-:" + pkg.err.Error()
	}
	t := &apTr{pkg: pkg, si: si, mi: mi, names: names, plain: map[string]int{}, oneofs: map[string]int{}, wrappers: map[string]int{}}
	for i, fi := range mi.fields {
		if fi.oneofIdx >= 0 {
			t.oneofs[names.oneofs[fi.oneofIdx].goName] = fi.oneofIdx
			t.wrappers[names.fields[i].wrap] = i
		} else {
			t.plain[names.fields[i].goName] = i
		}
	}
	return t, ntext, ""
}

// the names agree with those the reflectprog translator resolves field indexes with
func (t *apTr) namesAgree() string {
	rt, failure := rpTranslator(t.si, t.mi)
	if failure != "" {
		return "ok" // reported by the reflectprog engine
	}
	same := func(a, b map[string]int) bool {
		if len(a) != len(b) {
			return false
		}
		for k, v := range a {
			if w, ok := b[k]; !ok || w != v {
				return false
			}
		}
		return true
	}
	switch {
	case !same(t.plain, rt.plain):
		return "differs:plain fields"
	case !same(t.oneofs, rt.oneofs):
		return "differs:oneof fields"
	case !same(t.wrappers, rt.wrappers):
		return "differs:wrapper types"
	}
	for j, p := range rt.payload {
		if t.names.fields[j].goName != p {
			return "differs:payload field of member " + strconv.Itoa(j)
		}
	}
	return "ok"
}

// ---- differential run ----------------------------------------------------------------------------------------------------------
func apCall(p reflect.Value, name string) (r reflect.Value, res string) {
	defer func() {
		if e := recover(); e != nil {
			res = "panic"
		}
	}()
	m := p.MethodByName(name)
	if !m.IsValid() {
		return reflect.Value{}, "no-method"
	}
	out := m.Call(nil)
	if len(out) == 1 {
		return out[0], ""
	}
	return reflect.Value{}, ""
}

func (t *apTr) run(o *out, v *V) {
	si, mi := t.si, t.mi
	build := func() reflect.Value {
		if v == nil {
			return reflect.Zero(reflect.PtrTo(mi.goType))
		}
		return si.toGo(mi, v)
	}
	p := build()
	var gs, os []string
	for i, fi := range mi.fields {
		fd := fi.fd
		r, res := apCall(p, "Get"+t.names.fields[i].goName)
		if res == "" {
			switch {
			case fd.IsMap():
				if r.IsNil() {
					res = "n"
				} else {
					mv := &V{K: 'p'}
					it := r.MapRange()
					for it.Next() {
						mv.L = append(mv.L, scalarFromGo(fd.MapKey(), it.Key()), si.elemFromGo(fd.MapValue(), it.Value()))
					}
					sortMap(mv)
					res = mv.String()
				}
			case fd.IsList():
				if r.IsNil() {
					res = "n"
				} else {
					lv := &V{K: 'l'}
					for j := 0; j < r.Len(); j++ {
						lv.L = append(lv.L, si.elemFromGo(fd, r.Index(j)))
					}
					res = lv.String()
				}
			default:
				res = si.elemFromGo(fd, r).String()
			}
		}
		gs = append(gs, res)
		o.count("run_getter_" + apKindName(fd))
	}
	for k := range t.names.oneofs {
		r, res := apCall(p, "Get"+t.names.oneofs[k].goName)
		if res == "" {
			if r.IsNil() {
				res = "nil"
			} else {
				res = "unknown-wrapper"
				for j, fi := range mi.fields {
					if fi.oneofIdx == k && r.Elem().Type() == fi.wrapper {
						if r.Elem().IsNil() {
							res = "typed-nil-wrapper"
						} else {
							res = fmt.Sprintf("(w %d %s)", j, si.elemFromGo(fi.fd, r.Elem().Elem().Field(0)))
						}
					}
				}
			}
		}
		os = append(os, res)
		o.count("run_ogetter")
	}
	p2 := build()
	_, res := apCall(p2, "Reset")
	if res == "" {
		res = si.fromGo(mi, p2).String()
		// what Reset leaves is also what reflection sees as empty
		n := 0
		p2.Interface().(proto.Message).ProtoReflect().Range(func(protoreflect.FieldDescriptor, protoreflect.Value) bool { n++; return true })
		if n != 0 {
			res += "+range-not-empty"
		}
	}
	arg := "nil"
	if v != nil {
		arg = v.String()
	}
	o.kase("APIRUN", []string{si.id, strconv.Itoa(mi.idx), arg}, strings.Join(gs, ";")+"|"+strings.Join(os, ";")+"|"+res)
	o.count("run")
}

func engineApiProg(cfg config, o *out) {
	schemas := loadSchemasProg()
	cc := newClassCov("apiprog")
	defer cc.emit(o)
	for _, si := range schemas {
		o.raw("SCHEMA\t" + si.id + "\t=\t" + si.sexp())
		r := newRng(cfg.seed, "apiprog/"+si.id)
		for _, mi := range si.roots() {
			args := []string{si.id, fmt.Sprint(mi.idx)}
			arg := func(more ...string) []string { return append(append([]string{}, args...), more...) }
			t, ntext, failure := apTranslator(si, mi)
			if ntext != "" {
				o.kase("@APINAMES", arg(ntext), "ok")
			}
			if failure != "" {
				o.kase("APIPROG", arg("fields", "len"), failure)
				o.count("untranslatable")
				continue
			}
			o.kase("APINAMES", arg("check"), t.namesAgree())
			all := true
			part := func(what string, f func() string, line ...string) string {
				s, ok := t.catch(f)
				o.kase("APIPROG", arg(line...), s)
				if ok {
					o.count("translated_" + what)
					o.nontrivial("prog/" + what + "/" + s)
				} else {
					o.count("untranslatable")
					o.count("untranslatable_" + what)
					all = false
				}
				return s
			}
			o.kase("APIPROG", arg("structname"), t.names.goName)
			// the struct declaration, field by field
			var fields []string
			if s, ok := t.catch(func() string { fields = t.structFields(); return "" }); !ok {
				o.kase("APIPROG", arg("fields", "len"), s)
				o.count("untranslatable")
				o.count("untranslatable_struct")
				all = false
			} else {
				for k, f := range fields {
					o.kase("APIPROG", arg("field", strconv.Itoa(k)), f)
					o.nontrivial("prog/field/" + f)
				}
				o.kase("APIPROG", arg("fields", "len"), strconv.Itoa(len(fields)))
				o.count("translated_struct")
				o.hist["go_fields"] += len(fields)
			}
			var ods, gs, ogs []string
			for k := range t.names.oneofs {
				k := k
				ods = append(ods, part("oneofdecl", func() string { return t.oneofDecl(k) }, "oneofdecl", strconv.Itoa(k)))
			}
			for i := range mi.fields {
				i := i
				gs = append(gs, part("getter", func() string { return t.getter(i) }, "getter", strconv.Itoa(i)))
			}
			for k := range t.names.oneofs {
				k := k
				ogs = append(ogs, part("ogetter", func() string { return t.ogetter(k) }, "ogetter", strconv.Itoa(k)))
			}
			rs := part("reset", func() string { return t.reset() }, "reset")
			if !all {
				continue
			}
			prog := "(prog (struct " + t.names.goName + " (fields" + apJoin(fields) + ") (oneofs" + apJoin(ods) + ")) (getters" + apJoin(gs) + ") (ogetters" + apJoin(ogs) + ") " + rs + ")"
			o.kase("@APIDEF", arg(prog), "ok")
			o.kase("APIPROG", arg("all", "eqb"), "same")
			o.count("types_fully_translated")
			cc.message(si, mi)

			// the interpreter on the translated methods against the running code: the states of the reflection engines
			// (empty, populated incl. nil list elements / map values / wrappers holding nil, unknown fields) and the nil receiver
			vg := &vgen{r: r, si: si, nilElems: true}
			nvals := 6
			if cfg.thorough() {
				nvals = 40
			}
			t.run(o, nil)
			t.run(o, si.emptyV(mi))
			for k := 0; k < nvals; k++ {
				vg.nilElems = k%3 != 2
				v := vg.msg(mi, 2, 2+r.intn(7))
				fixLits(si, mi, v)
				if k%3 == 0 {
					v.Unk = append(v.Unk, genUnknownFor(r, mi)...)
				}
				t.run(o, v)
				o.nontrivial("run/" + si.id + "/" + fmt.Sprint(mi.idx) + "/" + shapeKey(v))
			}
			// one-hot: every field alone (every member of every oneof is seen set)
			g := &vgen{r: r, si: si, nilElems: false}
			for i, fi := range mi.fields {
				v := si.emptyV(mi)
				if fi.oneofIdx >= 0 {
					v.L[i] = &V{K: 's', P: g.elem(fi.fd, 2)}
				} else {
					v.L[i] = g.field(fi, 2)
				}
				fixLits(si, mi, v)
				t.run(o, v)
			}
		}
	}
}

func apKindName(fd protoreflect.FieldDescriptor) string {
	switch {
	case fd.IsMap():
		return "map"
	case fd.IsList():
		return "list"
	case fd.Message() != nil:
		return "message"
	}
	return kindNames[fd.Kind()]
}
