package main

import (
	"fmt"
	"math"
	"math/big"
	"time"

	"github.com/cosmos/cosmos-proto/support/timepb"
	durpb "google.golang.org/protobuf/types/known/durationpb"
	tspb "google.golang.org/protobuf/types/known/timestamppb"
)

func init() { engines["time"] = engineTime }

const (
	minTS = -62135596800
	maxTS = 253402300799
	maxD  = 315576000000
)

func tsStr(t *tspb.Timestamp) string { return i64s(t.Seconds) + " " + i64s(int64(t.Nanos)) }

func catchTS(f func() *tspb.Timestamp) (r *tspb.Timestamp, panicked bool) {
	defer func() {
		if e := recover(); e != nil {
			panicked = true
		}
	}()
	return f(), false
}

func inst(s int64, n int32) *big.Int {
	x := new(big.Int).Mul(big.NewInt(s), big.NewInt(1e9))
	return x.Add(x, big.NewInt(int64(n)))
}

func validDur(s int64, n int32) bool {
	return (&durpb.Duration{Seconds: s, Nanos: n}).CheckValid() == nil
}
func validTS(s int64, n int32) bool {
	return (&tspb.Timestamp{Seconds: s, Nanos: n}).CheckValid() == nil
}

func timeAdd(o *out, s int64, n int32, ds int64, dn int32) {
	t := &tspb.Timestamp{Seconds: s, Nanos: n}
	d := &durpb.Duration{Seconds: ds, Nanos: dn}
	r, p := catchTS(func() *tspb.Timestamp { return timepb.Add(t, d) })
	obs := "panic"
	if !p {
		obs = "ok " + tsStr(r)
	}
	o.kase("TADD", []string{i64s(s), i64s(int64(n)), i64s(ds), i64s(int64(dn))}, obs)
	key := fmt.Sprintf("add(%d,%d)+(%d,%d)", s, n, ds, dn)
	o.prop("C17", t.Seconds == s && t.Nanos == n && d.Seconds == ds && d.Nanos == dn && (p || r != t), "Add mutated its arguments or returned its argument: "+key)
	vt, vd := validTS(s, n), validDur(ds, dn)
	class := "other"
	if vt && vd {
		class = "valid"
		want := new(big.Int).Add(inst(s, n), inst(ds, dn))
		ok := !p && inst(r.Seconds, r.Nanos).Cmp(want) == 0 && r.Nanos >= 0 && r.Nanos < 1e9
		got := "panic"
		if !p {
			got = tsStr(r)
			// representable => valid
			if r.Seconds >= minTS && r.Seconds <= maxTS {
				ok = ok && r.CheckValid() == nil
			}
		}
		o.prop("C17", ok, fmt.Sprintf("%s = (%s): want the normalised instant %s ns", key, got, want))
		// agreement with AddStd when d is expressible as time.Duration
		if dd := new(big.Int).Set(inst(ds, dn)); dd.IsInt64() {
			r2, p2 := catchTS(func() *tspb.Timestamp { return timepb.AddStd(t, time.Duration(dd.Int64())) })
			same := p == p2 && (p || (r.Seconds == r2.Seconds && r.Nanos == r2.Nanos))
			o.prop("C17", same, fmt.Sprintf("%s: Add gives (%s) but AddStd gives (%v, panic=%v)", key, got, r2, p2))
		}
	} else if n >= 0 && n < 1e9 && dn > -1e9 && dn < 1e9 && !(ds > 0 && dn < 0) && !(ds < 0 && dn > 0) {
		// overflow clause: arbitrary int64 seconds
		sum := new(big.Int).Add(big.NewInt(s), big.NewInt(ds))
		nn := int64(n) + int64(dn)
		if nn >= 1e9 {
			sum.Add(sum, big.NewInt(1))
		} else if nn < 0 {
			sum.Sub(sum, big.NewInt(1))
		}
		if !sum.IsInt64() {
			class = "overflow"
			o.prop("C17", p, fmt.Sprintf("%s returned (%v) although the seconds sum %s does not fit in 64 bits", key, r, sum))
		} else if !(ds == 0 && dn == 0) {
			class = "extreme-fits"
			want := new(big.Int).Add(inst(s, n), inst(ds, dn))
			o.prop("C17", !p && inst(r.Seconds, r.Nanos).Cmp(want) == 0 && r.Nanos >= 0 && r.Nanos < 1e9, fmt.Sprintf("%s = (%v, panic=%v): want %s ns normalised", key, r, p, want))
		}
	}
	o.count("add_" + class + "_" + obs[:2])
	o.nontrivial(fmt.Sprintf("add/%s/%s/%d/%d/%d", class, obs[:2], sign(int64(n)+int64(dn)-1e9), sign(int64(n)+int64(dn)), sign(ds)))
}

func sign(x int64) int {
	if x < 0 {
		return -1
	}
	if x > 0 {
		return 1
	}
	return 0
}

func timeAddStd(o *out, s int64, n int32, d int64) {
	t := &tspb.Timestamp{Seconds: s, Nanos: n}
	r, p := catchTS(func() *tspb.Timestamp { return timepb.AddStd(t, time.Duration(d)) })
	obs := "panic"
	if !p {
		obs = "ok " + tsStr(r)
	}
	o.kase("TADDSTD", []string{i64s(s), i64s(int64(n)), i64s(d)}, obs)
	o.count("addstd_" + obs[:2])
}

func timeCmp(o *out, s1 int64, n1 int32, s2 int64, n2 int32) {
	c := timepb.Compare(&tspb.Timestamp{Seconds: s1, Nanos: n1}, &tspb.Timestamp{Seconds: s2, Nanos: n2})
	o.kase("TCMP", []string{i64s(s1), i64s(int64(n1)), i64s(s2), i64s(int64(n2))}, i64s(int64(c)))
	if n1 >= 0 && n1 < 1e9 && n2 >= 0 && n2 < 1e9 {
		want := inst(s1, n1).Cmp(inst(s2, n2))
		o.prop("C17", c == want, fmt.Sprintf("Compare((%d,%d),(%d,%d))=%d, instants compare %d", s1, n1, s2, n2, c, want))
		c2 := timepb.Compare(&tspb.Timestamp{Seconds: s2, Nanos: n2}, &tspb.Timestamp{Seconds: s1, Nanos: n1})
		o.prop("C17", c == -c2, fmt.Sprintf("Compare not antisymmetric on (%d,%d),(%d,%d)", s1, n1, s2, n2))
	}
	o.count(fmt.Sprintf("cmp_%d", c))
	o.nontrivial(fmt.Sprintf("cmp/%d/%d/%d", c, sign(s1-s2), sign(int64(n1)-int64(n2))))
}

func engineTime(c config, o *out) {
	r := newRng(c.seed, "time")
	secsT := []int64{minTS, minTS + 1, -1, 0, 1, 10, 1700000000, maxTS - 1, maxTS}
	nanosT := []int32{0, 1, 5, 499999999, 500000000, 999999994, 999999995, 999999998, 999999999}
	secsD := []int64{-maxD, -maxD + 1, -2, -1, 0, 1, 2, maxD - 1, maxD}
	nanosD := []int32{0, 1, 2, 5, 6, 499999999, 500000000, 500000001, 999999998, 999999999}
	for _, s := range secsT {
		for _, n := range nanosT {
			for _, ds := range secsD {
				for _, dn0 := range nanosD {
					for _, sg := range []int32{1, -1} {
						dn := dn0 * sg
						if (ds > 0 && dn < 0) || (ds < 0 && dn > 0) {
							continue
						}
						timeAdd(o, s, n, ds, dn)
					}
				}
			}
		}
	}
	// extremes of int64: overflow must panic
	ext := []int64{math.MaxInt64, math.MaxInt64 - 1, math.MaxInt64 - 2, math.MinInt64, math.MinInt64 + 1, math.MinInt64 + 2, 0, 1, -1, 1 << 62, -(1 << 62)}
	for _, s := range ext {
		for _, ds := range ext {
			for _, n := range []int32{0, 1000, 999999999} {
				for _, dn0 := range []int32{0, 1, 999999000, 999999999} {
					for _, sg := range []int32{1, -1} {
						dn := dn0 * sg
						if (ds > 0 && dn < 0) || (ds < 0 && dn > 0) {
							continue
						}
						timeAdd(o, s, n, ds, dn)
					}
				}
			}
		}
	}
	nrand := 20000
	if c.thorough() {
		nrand = 1000000
	}
	for i := 0; i < nrand; i++ {
		s := minTS + int64(r.u64()%uint64(maxTS-minTS+1))
		n := int32(r.u64() % 1e9)
		var ds int64
		var dn int32
		switch r.intn(4) {
		case 0:
			ds, dn = 0, int32(r.u64()%1e9)
		case 1:
			ds, dn = int64(r.u64()%uint64(maxD+1)), int32(r.u64()%1e9)
		case 2: // near-boundary nanos so carries/borrows are common
			ds, dn = int64(r.u64()%100), int32(1e9-1-int64(n)+int64(r.intn(5))-2)
			if dn >= 1e9 || dn < 0 {
				dn = 999999999
			}
		default:
			ds, dn = int64(r.u64()%1000), int32(int64(n)+int64(r.intn(5))-2)
			if dn >= 1e9 || dn < 0 {
				dn = 0
			}
		}
		if r.bool() {
			ds, dn = -ds, -dn
		}
		timeAdd(o, s, n, ds, dn)
		if i%4 == 0 {
			d := int64(r.u64()) >> uint(r.intn(64))
			timeAddStd(o, s, n, d)
			s2 := s + int64(r.intn(3)) - 1
			n2 := n
			if r.bool() {
				n2 = int32(r.u64() % 1e9)
			}
			timeCmp(o, s, n, s2, n2)
		}
	}
	for _, s1 := range ext {
		for _, s2 := range ext {
			for _, n1 := range []int32{0, 1, 999999999} {
				for _, n2 := range []int32{0, 1, 999999999} {
					timeCmp(o, s1, n1, s2, n2)
				}
			}
		}
	}
}
