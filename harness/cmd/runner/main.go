// Command runner drives the implementation under /repo and writes case files for the
// Coq-extracted model (see /verif/DESIGN.md §3). One sub-command ("engine") per family.
package main

import (
	"bufio"
	"fmt"
	"os"
	"sort"
	"strconv"
	"strings"
	"sync/atomic"
	"time"
)

// ---- watchdog: a call into the implementation that does not return within the limit is
// reported as a failing input of the property ("never hangs") and ends the run.
var (
	wdDesc  atomic.Value
	wdStart atomic.Int64
	wdLimit = 20 * time.Second
)

func (o *out) guard(prop, key, desc string, f func()) {
	wdDesc.Store([3]string{prop, key, desc})
	wdStart.Store(time.Now().UnixNano())
	defer wdStart.Store(0)
	f()
}

func startWatchdog(o *out) {
	go func() {
		for {
			time.Sleep(200 * time.Millisecond)
			s := wdStart.Load()
			if s != 0 && time.Now().UnixNano()-s > int64(wdLimit) {
				d := wdDesc.Load().([3]string)
				o.w.WriteString("#PROPFAIL\t" + d[0] + "\t" + d[1] + "\t" + d[2] + " (no return within " + wdLimit.String() + ")\n")
				o.propFail++
				o.close()
				os.Exit(3)
			}
		}
	}()
}

// ---- deterministic PRNG (splitmix64); every random choice derives from VERIF_SEED ----
type rng struct{ s uint64 }

func (r *rng) u64() uint64 {
	r.s += 0x9e3779b97f4a7c15
	z := r.s
	z = (z ^ (z >> 30)) * 0xbf58476d1ce4e5b9
	z = (z ^ (z >> 27)) * 0x94d049bb133111eb
	return z ^ (z >> 31)
}
func (r *rng) intn(n int) int {
	if n <= 0 {
		return 0
	}
	return int(r.u64() % uint64(n))
}
func (r *rng) bool() bool { return r.u64()&1 == 1 }
func newRng(seed uint64, stream string) *rng {
	h := seed*0x9e3779b97f4a7c15 + 0x1234567
	for _, c := range []byte(stream) {
		h = (h ^ uint64(c)) * 0x100000001b3
	}
	return &rng{s: h}
}

// ---- output: case lines (for the model) and PROP lines (implementation-side oracle) ----
type out struct {
	w        *bufio.Writer
	cases    int
	propOK   int
	propFail int
	hist     map[string]int // input distribution
	distinct map[string]struct{}
	samples  []string
	key      string
}

func newOut(path string) *out {
	f, err := os.Create(path)
	if err != nil {
		fmt.Fprintln(os.Stderr, err)
		os.Exit(2)
	}
	return &out{w: bufio.NewWriterSize(f, 1<<20), hist: map[string]int{}, distinct: map[string]struct{}{}}
}

// kase writes: ENGINE \t fn \t args... \t = \t observed
func (o *out) kase(fn string, args []string, observed string) {
	o.cases++
	o.w.WriteString(fn)
	for _, a := range args {
		o.w.WriteByte('\t')
		o.w.WriteString(a)
	}
	o.w.WriteString("\t=\t")
	o.w.WriteString(observed)
	o.w.WriteByte('\n')
	if len(o.samples) < 3 || (o.cases%997 == 0 && len(o.samples) < 8) {
		s := fn + " " + strings.Join(args, " ") + " = " + observed
		if len(s) > 300 {
			s = s[:300] + "..."
		}
		o.samples = append(o.samples, s)
	}
}

// raw writes a non-case line (SCHEMA definitions etc.)
func (o *out) raw(line string) { o.w.WriteString(line); o.w.WriteByte('\n') }

// prop records the verdict of the property's own predicate on the implementation.
func (o *out) prop(id string, ok bool, what string) {
	if ok {
		o.propOK++
		return
	}
	o.propFail++
	what = strings.NewReplacer("\t", " ", "\n", " | ", "\r", " ").Replace(what) // one line, tab-separated record
	o.w.WriteString("#PROPFAIL\t" + id + "\t" + o.key + "\t" + what + "\n")
}

// withKey sets the known-findings key attached to the PROPFAIL lines that follow
func (o *out) withKey(k string) *out { o.key = k; return o }
func (o *out) count(class string) { o.hist[class]++ }
func (o *out) nontrivial(key string) { o.distinct[key] = struct{}{} }
func (o *out) close() {
	keys := make([]string, 0, len(o.hist))
	for k := range o.hist {
		keys = append(keys, k)
	}
	sort.Strings(keys)
	var sb strings.Builder
	for _, k := range keys {
		fmt.Fprintf(&sb, "%s=%d;", k, o.hist[k])
	}
	fmt.Fprintf(o.w, "#STATS\tcases=%d\tprop_ok=%d\tprop_fail=%d\tdistinct=%d\thist=%s\n",
		o.cases, o.propOK, o.propFail, len(o.distinct), sb.String())
	for _, s := range o.samples {
		o.w.WriteString("#SAMPLE\t" + s + "\n")
	}
	o.w.Flush()
}

func hx(b []byte) string {
	if len(b) == 0 {
		return "-"
	}
	const d = "0123456789abcdef"
	s := make([]byte, 2*len(b))
	for i, c := range b {
		s[2*i] = d[c>>4]
		s[2*i+1] = d[c&15]
	}
	return string(s)
}
func unhx(s string) []byte {
	if s == "-" {
		return []byte{}
	}
	b := make([]byte, len(s)/2)
	for i := range b {
		v, _ := strconv.ParseUint(s[2*i:2*i+2], 16, 8)
		b[i] = byte(v)
	}
	return b
}
func u64s(x uint64) string { return strconv.FormatUint(x, 16) }
func i64s(x int64) string {
	if x < 0 {
		return "-" + strconv.FormatUint(uint64(-x), 16) // -MinInt64 wraps to itself as uint64: correct magnitude
	}
	return strconv.FormatUint(uint64(x), 16)
}

type config struct {
	seed  uint64
	tier  string
	out   string
	extra []string
}

func (c config) thorough() bool { return c.tier == "thorough" }

var engines = map[string]func(c config, o *out){}

func main() {
	if len(os.Args) < 3 {
		fmt.Fprintln(os.Stderr, "usage: runner <engine> <outfile> [seed] [tier] [extra...]")
		os.Exit(2)
	}
	c := config{seed: 1, tier: "quick", out: os.Args[2]}
	if len(os.Args) > 3 {
		s, _ := strconv.ParseUint(os.Args[3], 10, 64)
		c.seed = s
	}
	if len(os.Args) > 4 {
		c.tier = os.Args[4]
	}
	if len(os.Args) > 5 {
		c.extra = os.Args[5:]
	}
	e, ok := engines[os.Args[1]]
	if !ok {
		fmt.Fprintln(os.Stderr, "unknown engine", os.Args[1])
		os.Exit(2)
	}
	o := newOut(c.out)
	startWatchdog(o)
	e(c, o)
	o.close()
}
