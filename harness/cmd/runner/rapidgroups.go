package main

// proto2 messages with group fields (singular, repeated, nested) under the rapidproto generator: rapidproto has explicit
// GroupKind code paths, and "every message type" includes them. The Coq range model describes proto3 schemas only, so these
// draws are checked on the implementation side (no model lines): generation succeeds, the reference marshaller accepts the
// message, it round-trips, repeated groups are populated, NoEmptyLists is honoured.

import (
	"fmt"

	"github.com/cosmos/cosmos-proto/rapidproto"
	"google.golang.org/protobuf/encoding/prototext"
	"google.golang.org/protobuf/proto"
	"google.golang.org/protobuf/reflect/protodesc"
	"google.golang.org/protobuf/reflect/protoreflect"
	"google.golang.org/protobuf/reflect/protoregistry"
	"google.golang.org/protobuf/types/descriptorpb"
	"google.golang.org/protobuf/types/dynamicpb"
)

const groupSchema = `
name: "zgroups/zgroups.proto" package: "zgroups" syntax: "proto2"
message_type {
  name: "G"
  field { name: "one" number: 1 label: LABEL_OPTIONAL type: TYPE_GROUP type_name: ".zgroups.G.One" }
  field { name: "many" number: 2 label: LABEL_REPEATED type: TYPE_GROUP type_name: ".zgroups.G.Many" }
  field { name: "msgs" number: 3 label: LABEL_REPEATED type: TYPE_MESSAGE type_name: ".zgroups.Leaf" }
  field { name: "n" number: 4 label: LABEL_OPTIONAL type: TYPE_INT32 }
  nested_type { name: "One" field { name: "a" number: 1 label: LABEL_OPTIONAL type: TYPE_STRING } field { name: "inner" number: 2 label: LABEL_REPEATED type: TYPE_GROUP type_name: ".zgroups.G.One.Inner" }
                nested_type { name: "Inner" field { name: "x" number: 1 label: LABEL_OPTIONAL type: TYPE_SINT64 } } }
  nested_type { name: "Many" field { name: "b" number: 1 label: LABEL_OPTIONAL type: TYPE_BYTES } field { name: "leaf" number: 2 label: LABEL_OPTIONAL type: TYPE_MESSAGE type_name: ".zgroups.Leaf" } }
}
message_type { name: "Leaf" field { name: "s" number: 1 label: LABEL_OPTIONAL type: TYPE_STRING } field { name: "r" number: 2 label: LABEL_REPEATED type: TYPE_UINT32 } }
`

func rapidGroups(cfg config, o *out) {
	fdp := &descriptorpb.FileDescriptorProto{}
	if err := prototext.Unmarshal([]byte(groupSchema), fdp); err != nil {
		panic(err)
	}
	fd, err := protodesc.NewFile(fdp, protoregistry.GlobalFiles)
	if err != nil {
		panic(err)
	}
	md := fd.Messages().ByName("G")
	many := md.Fields().ByName("many")
	seeds := 40
	if cfg.thorough() {
		seeds = 400
	}
	for _, nel := range []bool{false, true} {
		for _, dn := range []bool{false, true} {
			populated := 0
			for seed := 0; seed < seeds; seed++ {
				where := fmt.Sprintf("replay: proto2 schema zgroups.G (groups) NoEmptyLists=%v DisallowNilMessages=%v rapid-seed=%d", nel, dn, seed)
				g := rapidproto.MessageGenerator[proto.Message](dynamicpb.NewMessage(md), rapidproto.GeneratorOptions{NoEmptyLists: nel, DisallowNilMessages: dn})
				var m proto.Message
				var pan interface{}
				o.guard("C18", "hang/zgroups.G", "MessageGenerator does not return ["+where+"]", func() { m, pan = exampleOf(g, seed) })
				o.count("groups_draws")
				if pan != nil {
					s := fmt.Sprint(pan)
					if len(s) > 300 {
						s = s[:300]
					}
					o.withKey("proto2-group/generate").prop("C18", false, "MessageGenerator fails on a message with group fields: "+s+" ["+where+"]")
					continue
				}
				b, err := proto.Marshal(m)
				back := dynamicpb.NewMessage(md)
				ok := err == nil && proto.Unmarshal(b, back) == nil && proto.Equal(m, back)
				o.withKey("proto2-group/roundtrip").prop("C18", ok, fmt.Sprintf("a generated message with group fields does not marshal / round-trip (%v) [%s]", err, where))
				l := m.ProtoReflect().Get(many).List()
				if l.Len() > 0 {
					populated++
				}
				if nel {
					o.withKey("proto2-group/no-empty-lists").prop("C18", !m.ProtoReflect().Has(many) || l.Len() > 0, "NoEmptyLists: empty repeated group ["+where+"]")
					m.ProtoReflect().Range(func(f protoreflect.FieldDescriptor, v protoreflect.Value) bool { return true })
				}
			}
			o.withKey("proto2-group/populated").prop("C18", populated > 0, fmt.Sprintf("no draw of %d populated the repeated group field (NoEmptyLists=%v DisallowNilMessages=%v)", seeds, nel, dn))
		}
	}
}
