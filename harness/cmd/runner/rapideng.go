package main

// Engine "rapid" (C18): messages drawn from rapidproto.MessageGenerator for every message type of every
// loaded schema (generated types and dynamicpb types of the same descriptors) plus a dynamic-only schema
// with recursion through maps/lists, accepts_interface Any fields and google.protobuf.Struct, under every
// option combination and many rapid seeds.
//  (i)  RAPID case lines: the value, for Model/RapidGen.v's range predicate (one-sided: impl within model);
//  (ii) the property's own predicate on the implementation: reference Marshal/Unmarshal/Equal round trip,
//       utf8, CheckValid, resolver look-ups and unpacking of Any, FieldMask paths, enum membership,
//       NoEmptyLists / DisallowNilMessages / FieldMapper honoured, nothing populated beyond the nesting
//       limit, termination (watchdog). Replay = (schema, message, impl, options, rapid seed).

import (
	"fmt"
	"os"
	"reflect"
	"regexp"
	"runtime"
	"runtime/debug"
	"sort"
	"strconv"
	"strings"
	"time"
	"unicode/utf8"

	cosmos_proto "github.com/cosmos/cosmos-proto"
	"github.com/cosmos/cosmos-proto/rapidproto"
	"github.com/cosmos/cosmos-proto/verifh/corpus"
	"google.golang.org/protobuf/proto"
	"google.golang.org/protobuf/reflect/protodesc"
	"google.golang.org/protobuf/reflect/protoreflect"
	"google.golang.org/protobuf/reflect/protoregistry"
	"google.golang.org/protobuf/types/descriptorpb"
	"google.golang.org/protobuf/types/dynamicpb"
	"google.golang.org/protobuf/types/known/durationpb"
	_ "google.golang.org/protobuf/types/known/structpb"
	"google.golang.org/protobuf/types/known/timestamppb"
	"pgregory.net/rapid"
)

func init() { engines["rapid"] = engineRapid }

const rapidDepthLimit = 10

type rschema struct {
	si       *schemaInfo
	dynOnly  bool
	resolver protoregistry.MessageTypeResolver
	ifaces   []string // accepts_interface names, by index
}

func wktTag(md protoreflect.MessageDescriptor) string {
	switch md.FullName() {
	case "google.protobuf.Timestamp":
		return "ts"
	case "google.protobuf.Duration":
		return "dur"
	case "google.protobuf.Any":
		return "any"
	case "google.protobuf.FieldMask":
		return "fm"
	}
	return "-"
}

func acceptsInterface(fd protoreflect.FieldDescriptor) (string, bool) {
	fo, ok := fd.Options().(*descriptorpb.FieldOptions)
	if !ok || fo == nil || !proto.HasExtension(fo, cosmos_proto.E_AcceptsInterface) {
		return "", false
	}
	return proto.GetExtension(fo, cosmos_proto.E_AcceptsInterface).(string), true
}

func (rs *rschema) ifaceIdx(name string) int {
	for i, n := range rs.ifaces {
		if n == name {
			return i
		}
	}
	rs.ifaces = append(rs.ifaces, name)
	return len(rs.ifaces) - 1
}

func fieldEnum(fd protoreflect.FieldDescriptor) protoreflect.EnumDescriptor {
	if fd.IsMap() {
		return fd.MapValue().Enum()
	}
	return fd.Enum()
}

// rsexp: per message (R <wkt> <full name, hex> (A <interface index|-> <declared enum numbers>...)...)
func (rs *rschema) rsexp() string {
	var sb strings.Builder
	for _, mi := range rs.si.msgs {
		fmt.Fprintf(&sb, "(R %s %s", wktTag(mi.md), hx([]byte(mi.md.FullName())))
		for _, fi := range mi.fields {
			ai := "-"
			if n, ok := acceptsInterface(fi.fd); ok {
				ai = strconv.Itoa(rs.ifaceIdx(n))
			}
			sb.WriteString(" (A " + ai)
			if ed := fieldEnum(fi.fd); ed != nil {
				for i := 0; i < ed.Values().Len(); i++ {
					fmt.Fprintf(&sb, " %d", ed.Values().Get(i).Number())
				}
			}
			sb.WriteString(")")
		}
		sb.WriteString(") ")
	}
	return sb.String()
}

// ---- a dynamic-only schema: recursion through map values and lists, a chain, sparse/negative enum,
// Any with and without accepts_interface in every position, Timestamp/Duration/FieldMask, Struct ----
func newDynSchemaInfo(id string, roots []protoreflect.MessageDescriptor) *schemaInfo {
	si := &schemaInfo{id: id, byName: map[protoreflect.FullName]*msgInfo{}}
	var add func(md protoreflect.MessageDescriptor)
	add = func(md protoreflect.MessageDescriptor) {
		if _, ok := si.byName[md.FullName()]; ok {
			return
		}
		mi := &msgInfo{md: md, idx: len(si.msgs), unkSF: -1}
		si.msgs = append(si.msgs, mi)
		si.byName[md.FullName()] = mi
		for i := 0; i < md.Fields().Len(); i++ {
			fd := md.Fields().Get(i)
			mi.fields = append(mi.fields, fieldInfo{fd: fd, oneofIdx: realOneofIndex(fd)})
		}
		for i := 0; i < md.Fields().Len(); i++ {
			fd := md.Fields().Get(i)
			if fd.IsMap() {
				if vm := fd.MapValue().Message(); vm != nil {
					add(vm)
				}
			} else if m := fd.Message(); m != nil {
				add(m)
			}
		}
	}
	for _, r := range roots {
		add(r)
	}
	return si
}

func buildDynSchema() *rschema {
	const pkg = "zdyn"
	en := corpus.E{Name: "Sparse", Values: []corpus.EV{{Name: "SP_ZERO", Num: 0}, {Name: "SP_FIVE", Num: 5}, {Name: "SP_NEG", Num: -3}, {Name: "SP_BIG", Num: 70000}}}
	anyT, tsT, durT, fmT, stT := ".google.protobuf.Any", ".google.protobuf.Timestamp", ".google.protobuf.Duration", ".google.protobuf.FieldMask", ".google.protobuf.Struct"
	msgs := []corpus.M{
		{Name: "Tree", Fields: []corpus.F{
			{Name: "kids", Num: 1, Kind: corpus.Message, TypeName: ".zdyn.Tree", Map: true, KeyKind: corpus.String},
			{Name: "v", Num: 2, Kind: corpus.Int32}}},
		{Name: "BTree", Fields: []corpus.F{ // bool keys: the same entry is revisited and merged into
			{Name: "kids", Num: 1, Kind: corpus.Message, TypeName: ".zdyn.BTree", Map: true, KeyKind: corpus.Bool},
			{Name: "xs", Num: 2, Kind: corpus.Uint32, Rep: true},
			{Name: "leaf", Num: 3, Kind: corpus.Message, TypeName: ".zdyn.Chain"},
			{Name: "tags", Num: 4, Kind: corpus.String, Map: true, KeyKind: corpus.Bool}}},
		{Name: "BMaps", Fields: []corpus.F{ // not recursive, so never skipped for cost: values under colliding (bool) keys —
			// an entry that is visited twice must end up holding ONE generated value
			{Name: "masks", Num: 1, Kind: corpus.Message, TypeName: fmT, Map: true, KeyKind: corpus.Bool},
			{Name: "whens", Num: 2, Kind: corpus.Message, TypeName: tsT, Map: true, KeyKind: corpus.Bool},
			{Name: "spans", Num: 3, Kind: corpus.Message, TypeName: durT, Map: true, KeyKind: corpus.Bool},
			{Name: "chains", Num: 4, Kind: corpus.Message, TypeName: ".zdyn.Chain", Map: true, KeyKind: corpus.Bool},
			{Name: "names", Num: 5, Kind: corpus.String, Map: true, KeyKind: corpus.Bool},
			{Name: "mask_list", Num: 6, Kind: corpus.Message, TypeName: fmT, Rep: true}}},
		{Name: "LTree", Fields: []corpus.F{
			{Name: "kids", Num: 1, Kind: corpus.Message, TypeName: ".zdyn.LTree", Rep: true},
			{Name: "s", Num: 2, Kind: corpus.String}}},
		{Name: "Chain", Fields: []corpus.F{
			{Name: "next", Num: 1, Kind: corpus.Message, TypeName: ".zdyn.Chain"},
			{Name: "n", Num: 2, Kind: corpus.Uint32},
			{Name: "e", Num: 3, Kind: corpus.Enum, TypeName: ".zdyn.Sparse"},
			{Name: "es", Num: 4, Kind: corpus.Enum, TypeName: ".zdyn.Sparse", Rep: true},
			{Name: "em", Num: 5, Kind: corpus.Enum, TypeName: ".zdyn.Sparse", Map: true, KeyKind: corpus.Sint64},
			{Name: "bs", Num: 6, Kind: corpus.Bytes, Rep: true},
			{Name: "f", Num: 7, Kind: corpus.Float},
			{Name: "d", Num: 8, Kind: corpus.Double, Rep: true}}},
		{Name: "AChain", Fields: []corpus.F{ // a chain whose links carry Any fields: Any at every depth incl. the limit
			{Name: "next", Num: 1, Kind: corpus.Message, TypeName: ".zdyn.AChain"},
			{Name: "a", Num: 2, Kind: corpus.Message, TypeName: anyT},
			{Name: "as", Num: 3, Kind: corpus.Message, TypeName: anyT, Rep: true},
			{Name: "ts", Num: 4, Kind: corpus.Message, TypeName: tsT}}},
		{Name: "Holder", Fields: []corpus.F{
			{Name: "acc", Num: 1, Kind: corpus.Message, TypeName: anyT},
			{Name: "accs", Num: 2, Kind: corpus.Message, TypeName: anyT, Rep: true},
			{Name: "m", Num: 3, Kind: corpus.Message, TypeName: anyT, Map: true, KeyKind: corpus.String},
			{Name: "plain", Num: 4, Kind: corpus.Message, TypeName: anyT},
			{Name: "ts", Num: 5, Kind: corpus.Message, TypeName: tsT},
			{Name: "d", Num: 6, Kind: corpus.Message, TypeName: durT},
			{Name: "fm", Num: 7, Kind: corpus.Message, TypeName: fmT},
			{Name: "fms", Num: 8, Kind: corpus.Message, TypeName: fmT, Rep: true},
			{Name: "st", Num: 9, Kind: corpus.Message, TypeName: stT},
			{Name: "oa", Num: 10, Kind: corpus.Message, TypeName: anyT, Oneof: "w"},
			{Name: "ot", Num: 11, Kind: corpus.Message, TypeName: tsT, Oneof: "w"},
			{Name: "os", Num: 12, Kind: corpus.String, Oneof: "w"},
			{Name: "od", Num: 13, Kind: corpus.Message, TypeName: durT, Oneof: "w"},
			{Name: "tsm", Num: 14, Kind: corpus.Message, TypeName: tsT, Map: true, KeyKind: corpus.Uint32},
			{Name: "last_msg", Num: 15, Kind: corpus.Message, TypeName: ".zdyn.Chain", Oneof: "z"},
			{Name: "last_any", Num: 16, Kind: corpus.Message, TypeName: anyT, Oneof: "z"}}},
		{Name: "Empty"},
	}
	f := corpus.File{Path: "zdyn/zdyn.proto", Package: pkg, GoPackage: corpus.GenBase + "zdyn", Msgs: msgs, Enums: []corpus.E{en},
		Deps: []string{"google/protobuf/any.proto", "google/protobuf/timestamp.proto", "google/protobuf/duration.proto",
			"google/protobuf/field_mask.proto", "google/protobuf/struct.proto", cosmos_proto.File_cosmos_proto_cosmos_proto.Path()}}
	fdp := f.Build()
	// (cosmos_proto.accepts_interface) on Holder.acc and Holder.accs
	for _, m := range fdp.MessageType {
		if m.GetName() != "Holder" {
			continue
		}
		for _, fd := range m.Field {
			if fd.GetName() == "acc" || fd.GetName() == "accs" {
				if fd.Options == nil {
					fd.Options = &descriptorpb.FieldOptions{}
				}
				proto.SetExtension(fd.Options, cosmos_proto.E_AcceptsInterface, "zdyn.Animal")
			}
		}
	}
	fd, err := protodesc.NewFile(fdp, protoregistry.GlobalFiles)
	if err != nil {
		panic(err)
	}
	files := new(protoregistry.Files)
	if err := files.RegisterFile(fd); err != nil {
		panic(err)
	}
	return &rschema{si: newDynSchemaInfo("zdyn", allMessages(fd)), dynOnly: true, resolver: dynResolver{dynamicpb.NewTypes(files)}}
}

// messages of the dynamic file through dynamicpb, everything else (well-known types) from the global registry
type dynResolver struct{ d *dynamicpb.Types }

func (r dynResolver) FindMessageByName(n protoreflect.FullName) (protoreflect.MessageType, error) {
	if mt, err := r.d.FindMessageByName(n); err == nil {
		return mt, nil
	}
	return protoregistry.GlobalTypes.FindMessageByName(n)
}
func (r dynResolver) FindMessageByURL(u string) (protoreflect.MessageType, error) {
	if i := strings.LastIndexByte(u, '/'); i >= 0 {
		u = u[i+1:]
	}
	return r.FindMessageByName(protoreflect.FullName(u))
}

// ---- options -----------------------------------------------------------------------------------
type ropts struct {
	nel, dn bool
	any     []int       // message indexes offered as AnyTypeURLs
	hints   map[int]int // interface index -> message index
	fm      int         // field mapper id
}

func (ro ropts) token() string {
	b := func(x bool) int {
		if x {
			return 1
		}
		return 0
	}
	a := "-"
	if len(ro.any) > 0 {
		var p []string
		for _, m := range ro.any {
			p = append(p, strconv.Itoa(m))
		}
		a = strings.Join(p, ":")
	}
	h := "-"
	if len(ro.hints) > 0 {
		var ks []int
		for k := range ro.hints {
			ks = append(ks, k)
		}
		sort.Ints(ks)
		var p []string
		for _, k := range ks {
			p = append(p, fmt.Sprintf("%d>%d", k, ro.hints[k]))
		}
		h = strings.Join(p, ":")
	}
	return fmt.Sprintf("nel=%d,dn=%d,any=%s,hints=%s,fm=%d", b(ro.nel), b(ro.dn), a, h, ro.fm)
}

var mappedStrings = []string{"mapped-a", "mapped-b", "mapped-é"}

// field mappers (mirrored by RapidGen.fmap_of_id)
func fieldMapper(id int) []rapidproto.FieldMapper {
	switch id {
	case 1: // every string comes from a fixed set
		return []rapidproto.FieldMapper{func(t *rapid.T, fd protoreflect.FieldDescriptor, name string) (protoreflect.Value, bool) {
			if fd.Kind() != protoreflect.StringKind {
				return protoreflect.Value{}, false
			}
			return protoreflect.ValueOfString(rapid.SampledFrom(mappedStrings).Draw(t, name)), true
		}}
	case 2: // 32-bit signed kinds in 1..5; enums by declared number; uint64 sometimes 42 (mapper declines otherwise)
		return []rapidproto.FieldMapper{func(t *rapid.T, fd protoreflect.FieldDescriptor, name string) (protoreflect.Value, bool) {
			switch fd.Kind() {
			case protoreflect.Int32Kind, protoreflect.Sint32Kind, protoreflect.Sfixed32Kind:
				return protoreflect.ValueOfInt32(rapid.Int32Range(1, 5).Draw(t, name)), true
			case protoreflect.EnumKind:
				vals := fd.Enum().Values()
				i := rapid.IntRange(0, vals.Len()-1).Draw(t, name)
				return protoreflect.ValueOfEnum(vals.Get(i).Number()), true
			case protoreflect.Uint64Kind:
				if rapid.Bool().Draw(t, name+"-map") {
					return protoreflect.ValueOfUint64(42), true
				}
			}
			return protoreflect.Value{}, false
		}}
	}
	return nil
}

func (rs *rschema) goOpts(ro ropts) rapidproto.GeneratorOptions {
	g := rapidproto.GeneratorOptions{NoEmptyLists: ro.nel, DisallowNilMessages: ro.dn, Resolver: rs.resolver, FieldMaps: fieldMapper(ro.fm)}
	for _, m := range ro.any {
		g.AnyTypeURLs = append(g.AnyTypeURLs, "/"+string(rs.si.msgs[m].md.FullName()))
	}
	if len(ro.hints) > 0 {
		g.InterfaceHints = map[string]string{}
		for k, m := range ro.hints {
			g.InterfaceHints[rs.ifaces[k]] = string(rs.si.msgs[m].md.FullName())
		}
	}
	return g
}

// ---- expected amount of work of one draw (fields visited), to keep DisallowNilMessages on branching
// recursive types (tens of seconds and >100 MB per draw) out of the run ----
func (rs *rschema) estimate(mi *msgInfo, ro ropts) float64 {
	type key struct{ idx, d int }
	memo := map[key]float64{}
	const meanN = 5.0
	const cap = 1e12
	var E func(mi *msgInfo, d int) float64
	child := func(fd protoreflect.FieldDescriptor, d int) float64 { // a message-typed child generated at depth d
		cmi := rs.si.byName[fd.Message().FullName()]
		if wktTag(cmi.md) == "any" {
			if len(ro.any) == 0 {
				return 1
			}
			s := 1.0
			for _, m := range ro.any {
				s += E(rs.si.msgs[m], d+1) / float64(len(ro.any))
			}
			return s
		}
		return E(cmi, d)
	}
	E = func(mi *msgInfo, d int) float64 {
		if d > rapidDepthLimit {
			return 0
		}
		k := key{mi.idx, d}
		if v, ok := memo[k]; ok {
			return v
		}
		memo[k] = cap // cycles at the same depth cannot happen (depth grows), placeholder only
		c := 1.0
		if wktTag(mi.md) == "-" {
			for _, fi := range mi.fields {
				fd := fi.fd
				c += 1
				p := 1.0
				if fd.Kind() == protoreflect.MessageKind && !ro.dn {
					p = 0.5
				}
				switch {
				case fd.IsMap():
					if fd.MapValue().Message() != nil {
						c += p * meanN * child(fd.MapValue(), d+1)
					} else {
						c += p * meanN
					}
				case fd.IsList():
					if fd.Message() != nil {
						c += p * meanN * child(fd, d+1)
					} else {
						c += meanN
					}
				case fd.Message() != nil:
					c += p * child(fd, d+1)
				}
				if c > cap {
					c = cap
				}
			}
		} else if wktTag(mi.md) == "any" && len(ro.any) > 0 {
			for _, m := range ro.any {
				c += E(rs.si.msgs[m], d+1) / float64(len(ro.any))
			}
		}
		memo[k] = c
		return c
	}
	return E(mi, 0)
}

// ---- the property's own predicate on a drawn message ---------------------------------------------
var fmPathRe = regexp.MustCompile(`^[a-z]+([.][a-z]+){0,2}$`)

type rchk struct {
	rs       *rschema
	ro       ropts
	o        *out
	exact    bool // the value was read from Go structs (nil and empty containers distinguishable)
	where    string
	maxDepth int
	nMsgs    int
}

func (c *rchk) fail(key, what string) { c.o.withKey(key).prop("C18", false, what+" ["+c.where+"]") }
func (c *rchk) ok()                   { c.o.prop("C18", true, "") }

func isDefaultV(v *V) bool {
	if v == nil {
		return true
	}
	switch v.K {
	case 'n', 'f':
		return true
	case 'i':
		return v.I == 0 && v.U == 0
	case 'x':
		return v.U == 0
	case 'b':
		return len(v.B) == 0
	case 'l', 'p':
		return len(v.L) == 0
	case 'm':
		if len(v.Unk) > 0 {
			return false
		}
		for _, e := range v.L {
			if !isDefaultV(e) {
				return false
			}
		}
		return true
	}
	return false
}

func (c *rchk) scalar(path string, fd protoreflect.FieldDescriptor, e *V) {
	switch fd.Kind() {
	case protoreflect.StringKind:
		if !utf8.Valid(e.B) {
			c.fail("utf8", path+": string "+hx(e.B)+" is not valid UTF-8")
		} else {
			c.ok()
		}
		if c.ro.fm == 1 {
			found := false
			for _, s := range mappedStrings {
				found = found || s == string(e.B)
			}
			if !found {
				c.fail("field-mapper", path+": string "+hx(e.B)+" does not come from the FieldMapper")
			} else {
				c.ok()
			}
		}
	case protoreflect.EnumKind:
		declared := fd.Enum().Values().ByNumber(protoreflect.EnumNumber(e.I)) != nil
		if !declared {
			c.fail("enum-index-as-number/"+string(fd.Enum().FullName()), fmt.Sprintf("%s: enum %s holds the undeclared number %d", path, fd.Enum().FullName(), e.I))
		} else {
			c.ok()
		}
	case protoreflect.Int32Kind, protoreflect.Sint32Kind, protoreflect.Sfixed32Kind:
		if c.ro.fm == 2 {
			if e.I < 1 || e.I > 5 {
				c.fail("field-mapper", fmt.Sprintf("%s: %d does not come from the FieldMapper (1..5)", path, e.I))
			} else {
				c.ok()
			}
		}
	}
}

func (c *rchk) elem(path string, fd protoreflect.FieldDescriptor, e *V, depth int) {
	if fd.Kind() == protoreflect.MessageKind || fd.Kind() == protoreflect.GroupKind {
		if e.K == 'n' {
			c.fail("nil-element", path+": nil message inside a list, map or oneof")
			return
		}
		c.msg(path, c.rs.si.byName[fd.Message().FullName()], e, depth)
		return
	}
	c.scalar(path, fd, e)
}

func (c *rchk) msg(path string, mi *msgInfo, v *V, depth int) {
	c.nMsgs++
	tag := wktTag(mi.md)
	if depth > rapidDepthLimit && isDefaultV(v) {
		// not generated: an Any payload beyond the limit (empty value decoded), or an element that
		// list.Truncate(i) (loop index) failed to remove at the limit. Harmless unless it is an Any:
		// an Any element without type URL, although AnyTypeURLs is set
		if tag == "any" && len(c.ro.any) > 0 {
			c.fail("any-empty-leftover-at-limit", path+": Any without type URL at depth "+strconv.Itoa(depth)+" (list element left behind by list.Truncate(i) at the nesting limit)")
		}
		return
	}
	if depth > c.maxDepth {
		c.maxDepth = depth
	}
	if depth > rapidDepthLimit && tag != "any" {
		c.fail("depth", fmt.Sprintf("%s: populated message at nesting depth %d > %d: %s", path, depth, rapidDepthLimit, v.String()))
	}
	if len(v.Unk) > 0 {
		c.fail("unknown", path+": unknown fields "+hx(v.Unk))
	}
	switch tag {
	case "ts":
		if depth > rapidDepthLimit {
			return
		}
		if err := (&timestamppb.Timestamp{Seconds: v.L[0].I, Nanos: int32(v.L[1].I)}).CheckValid(); err != nil {
			c.fail("timestamp", fmt.Sprintf("%s: invalid Timestamp (%d,%d): %v", path, v.L[0].I, v.L[1].I, err))
		} else {
			c.ok()
		}
		return
	case "dur":
		if depth > rapidDepthLimit {
			return
		}
		if err := (&durationpb.Duration{Seconds: v.L[0].I, Nanos: int32(v.L[1].I)}).CheckValid(); err != nil {
			c.fail("duration", fmt.Sprintf("%s: invalid Duration (%d,%d): %v", path, v.L[0].I, v.L[1].I, err))
		} else {
			c.ok()
		}
		return
	case "fm":
		if depth > rapidDepthLimit {
			return
		}
		paths := v.L[0].L
		good := len(paths) >= 1 && len(paths) <= 5
		for _, p := range paths {
			good = good && fmPathRe.Match(p.B)
		}
		if !good {
			c.fail("fieldmask-paths-dropped", fmt.Sprintf("%s: FieldMask carries %d paths (1..5 paths matching [a-z]+([.][a-z]+){0,2} are drawn for it): %s", path, len(paths), v.String()))
		} else {
			c.ok()
		}
		return
	case "any":
		url, val := string(v.L[0].B), v.L[1].B
		if url == "" && len(c.ro.any) == 0 {
			if depth == 0 {
				// the root message is an Any and there is no type to choose from: the empty Any. The
				// property speaks of Any FIELDS; nothing to resolve here.
				c.ok()
				return
			}
			c.fail("any-empty-in-container", path+": Any field without type URL (AnyTypeURLs is empty: a singular Any field is left nil, this one is a list element or map value)")
			return
		}
		mt, err := c.rs.resolver.FindMessageByURL(url)
		if err != nil {
			c.fail("any-unresolvable", fmt.Sprintf("%s: type URL %q does not resolve: %v", path, url, err))
			return
		}
		pmi := c.rs.si.byName[mt.Descriptor().FullName()]
		allowed := false
		for _, m := range c.ro.any {
			allowed = allowed || (pmi != nil && pmi.idx == m)
		}
		for _, m := range c.ro.hints {
			allowed = allowed || (pmi != nil && pmi.idx == m)
		}
		if !allowed {
			c.fail("any-url", fmt.Sprintf("%s: type URL %q is neither in AnyTypeURLs nor an interface hint", path, url))
			return
		}
		if depth+1 > rapidDepthLimit {
			// the payload would lie beyond the nesting limit: nothing is generated for it
			if len(val) != 0 {
				c.fail("depth", fmt.Sprintf("%s: the payload of an Any at depth %d is populated: %s", path, depth, hx(val)))
			} else {
				c.ok()
			}
			return
		}
		pm := mt.New()
		if err := proto.Unmarshal(val, pm.Interface()); err != nil {
			c.fail("any-value", fmt.Sprintf("%s: value %s does not decode as %s: %v", path, hx(val), url, err))
			return
		}
		c.ok()
		sub := *c
		sub.exact = false
		sub.msg(path+".(any)", pmi, c.rs.si.fromPR(pmi, pm), depth+1)
		c.nMsgs, c.maxDepth = sub.nMsgs, sub.maxDepth
		return
	}
	childOK := depth+1 <= rapidDepthLimit
	for i, fi := range mi.fields {
		fd := fi.fd
		sv := v.L[i]
		p := path + "." + string(fd.Name())
		isAny := fd.Message() != nil && !fd.IsMap() && wktTag(fd.Message()) == "any"
		switch {
		case fd.IsMap():
			if sv.K != 'p' {
				continue
			}
			for j := 0; j+1 < len(sv.L); j += 2 {
				c.scalar(p+"[key]", fd.MapKey(), sv.L[j])
				c.elem(p+"[value]", fd.MapValue(), sv.L[j+1], depth+1)
			}
		case fd.IsList():
			isMsg := fd.Message() != nil
			n := 0
			if sv.K == 'l' {
				n = len(sv.L)
			}
			within := !isMsg || childOK
			if c.ro.nel && c.exact && sv.K == 'l' && n == 0 {
				// at any depth (9f5602c: a field none of whose requested elements survived is cleared)
				c.fail("no-empty-lists", p+": empty non-nil list although NoEmptyLists is set")
			} else if c.ro.nel && within && depth <= rapidDepthLimit {
				if n == 0 && (!isMsg || (c.ro.dn && (!isAny2(fd) || len(c.ro.any) > 0))) {
					c.fail("no-empty-lists", p+": the list is always generated here and NoEmptyLists is set, yet it is empty")
				} else {
					c.ok()
				}
			}
			if sv.K == 'l' {
				for k, e := range sv.L {
					c.elem(fmt.Sprintf("%s[%d]", p, k), fd, e, depth+1)
				}
			}
		case fi.oneofIdx >= 0:
			if sv.K == 's' {
				c.elem(p, fd, sv.P, depth+1)
			}
		case fd.Message() != nil:
			if sv.K == 'n' {
				if c.ro.dn && depth <= rapidDepthLimit && ((isAny && len(c.ro.any) > 0) || (!isAny && childOK)) {
					c.fail("disallow-nil", p+": nil message although DisallowNilMessages is set (depth "+strconv.Itoa(depth+1)+")")
				} else if c.ro.dn {
					c.ok()
				}
				continue
			}
			c.elem(p, fd, sv, depth+1)
		default:
			c.scalar(p, fd, sv)
		}
	}
}

// nilEmpty renders empty lists and maps as nil, at every depth: "(l)" is reserved for an empty NON-NIL
// list observed in a Go struct
func nilEmpty(v *V) *V {
	if v == nil {
		return v
	}
	if (v.K == 'l' || v.K == 'p') && len(v.L) == 0 {
		return vNil
	}
	for i, e := range v.L {
		v.L[i] = nilEmpty(e)
	}
	if v.P != nil {
		v.P = nilEmpty(v.P)
	}
	return v
}

func isAny2(fd protoreflect.FieldDescriptor) bool {
	return fd.Message() != nil && wktTag(fd.Message()) == "any"
}

// ---- one draw ------------------------------------------------------------------------------------
type rapidCtx struct {
	cfg   config
	o     *out
	rs    *rschema
	spent map[string]time.Duration
}

func exampleOf(g *rapid.Generator[proto.Message], seed int) (m proto.Message, pan interface{}) {
	defer func() {
		if e := recover(); e != nil {
			pan = e
		}
	}()
	return g.Example(seed), nil
}

func (rc *rapidCtx) draw(mi *msgInfo, dyn bool, ro ropts, seed int) {
	rs, o := rc.rs, rc.o
	si := rs.si
	impl := "gen"
	if dyn {
		impl = "dyn"
	}
	tok := ro.token()
	where := fmt.Sprintf("replay: schema=%s message=%d(%s) impl=%s options=%s rapid-seed=%d", si.id, mi.idx, mi.md.FullName(), impl, tok, seed)
	var x proto.Message
	if dyn {
		x = dynamicpb.NewMessage(mi.md)
	} else {
		x = reflect.New(mi.goType).Interface().(proto.Message)
	}
	g := rapidproto.MessageGenerator[proto.Message](x, rs.goOpts(ro))
	var m proto.Message
	var pan interface{}
	o.guard("C18", "hang/"+si.id+"."+string(mi.md.Name()), "MessageGenerator does not return ["+where+"]", func() {
		m, pan = exampleOf(g, seed)
	})
	o.count("impl_" + impl)
	o.count("opts_" + fmt.Sprintf("nel%v_dn%v_any%v_fm%d", ro.nel, ro.dn, len(ro.any) > 0, ro.fm))
	if pan != nil {
		s := fmt.Sprint(pan)
		if len(s) > 400 {
			s = s[:400]
		}
		key := "panic/" + string(mi.md.FullName())
		switch {
		case strings.Contains(s, "did not use any data"):
			key = "no-draw/" + string(mi.md.FullName()) // nothing to draw: rapid.Custom refuses
		case strings.Contains(s, "nil pointer") && wktTag(mi.md) == "any":
			key = "any-nil-field-panic"
		}
		o.count("outcome_" + strings.SplitN(key, "/", 2)[0])
		o.withKey(key).prop("C18", false, "MessageGenerator fails: "+s+" ["+where+"]")
		return
	}
	o.count("outcome_value")
	var v *V
	if dyn {
		v = nilEmpty(si.fromPR(mi, m.ProtoReflect())) // protoreflect cannot tell nil from empty: rendered as nil
	} else {
		v = si.fromGo(mi, reflect.ValueOf(m))
	}
	val := v.String()
	o.kase("RAPID", []string{si.id, strconv.Itoa(mi.idx), tok + ";impl=" + impl + ";seed=" + strconv.Itoa(seed), val}, "ok")
	o.nontrivial(si.id + "/" + strconv.Itoa(mi.idx) + "/" + impl + "/" + tok + "/" + shapeKey(v))

	// reference marshaller accepts it and it round-trips through the wire
	b, err := proto.Marshal(m)
	if err != nil {
		o.withKey("marshal").prop("C18", false, fmt.Sprintf("proto.Marshal rejects the generated message: %v [%s]", err, where))
	} else {
		back := m.ProtoReflect().New().Interface()
		if err := proto.Unmarshal(b, back); err != nil {
			o.withKey("roundtrip").prop("C18", false, fmt.Sprintf("the generated message does not decode from its own encoding: %v [%s]", err, where))
		} else {
			o.withKey("roundtrip").prop("C18", proto.Equal(m, back), "the generated message does not round-trip (proto.Equal) ["+where+"]")
		}
		// and the reference implementation reads the same bytes into an equal message
		ref := dynamicpb.NewMessage(mi.md)
		if err := proto.Unmarshal(b, ref); err != nil {
			o.withKey("roundtrip-ref").prop("C18", false, fmt.Sprintf("dynamicpb rejects the encoding of the generated message: %v [%s]", err, where))
		} else {
			o.prop("C18", true, "")
		}
		sz := len(b)
		switch {
		case sz == 0:
			o.count("size_0")
		case sz < 100:
			o.count("size_<100")
		case sz < 10000:
			o.count("size_<10k")
		case sz < 1000000:
			o.count("size_<1M")
		default:
			o.count("size_>=1M")
		}
	}
	c := &rchk{rs: rs, ro: ro, o: o, exact: !dyn, where: where}
	c.msg(string(mi.md.Name()), mi, v, 0)
	o.count(fmt.Sprintf("depth_%02d", c.maxDepth))
	if c.maxDepth > rapidDepthLimit+1 {
		o.withKey("depth").prop("C18", false, fmt.Sprintf("nesting depth %d [%s]", c.maxDepth, where))
	} else {
		o.prop("C18", true, "")
	}
}

// option combinations for one message type
func (rs *rschema) combos(anyTypes []int, hints map[int]int) []ropts {
	var out []ropts
	for _, nel := range []bool{false, true} {
		for _, dn := range []bool{false, true} {
			for _, withAny := range []bool{false, true} {
				for fm := 0; fm <= 2; fm++ {
					ro := ropts{nel: nel, dn: dn, fm: fm}
					if withAny {
						ro.any = anyTypes
						ro.hints = hints
					}
					out = append(out, ro)
				}
			}
		}
	}
	return out
}

func reachesAny(si *schemaInfo, mi *msgInfo, seen map[int]bool) bool {
	if seen[mi.idx] {
		return false
	}
	seen[mi.idx] = true
	if wktTag(mi.md) == "any" {
		return true
	}
	for _, fi := range mi.fields {
		fd := fi.fd
		var md protoreflect.MessageDescriptor
		if fd.IsMap() {
			md = fd.MapValue().Message()
		} else {
			md = fd.Message()
		}
		if md != nil && reachesAny(si, si.byName[md.FullName()], seen) {
			return true
		}
	}
	return false
}

// a generator whose recursion is no longer bounded (nesting limit not applied on some path) grows
// without end: stop at a heap or stack size no bounded draw comes near, and report the draw
func startGrowthWatch(o *out) {
	debug.SetMaxStack(512 << 20)
	go func() {
		for {
			time.Sleep(250 * time.Millisecond)
			var ms runtime.MemStats
			runtime.ReadMemStats(&ms)
			if ms.HeapAlloc > 6<<30 {
				d, _ := wdDesc.Load().([3]string)
				o.w.WriteString("#PROPFAIL\tC18\tgrowth/" + d[1] + "\tgeneration holds more than 6 GiB: " + d[2] + "\n")
				o.propFail++
				o.close()
				os.Exit(3)
			}
		}
	}()
}

func engineRapid(cfg config, o *out) {
	startGrowthWatch(o)
	rapidGroups(cfg, o)
	var all []*rschema
	for _, si := range loadSchemas() {
		all = append(all, &rschema{si: si, resolver: protoregistry.GlobalTypes})
	}
	all = append(all, buildDynSchema())
	o.hist["programs"] = len(all)
	budget := 6e4
	seeds := 6
	if cfg.thorough() {
		budget, seeds = 1.5e5, 28
	}
	r := newRng(cfg.seed, "rapid")
	for _, rs := range all {
		o.raw("SCHEMA\t" + rs.si.id + "\t=\t" + rs.si.sexp())
		o.kase("@RSCHEMA", []string{rs.si.id, rs.rsexp()}, "ok") // context line: every driver shard reads it
	}
	// regression draws: the inputs on which the defects repaired by /repo's fix: commits were first seen
	// (fixed rapid seeds, whatever VERIF_SEED is)
	regress := []struct {
		sid, msg string
		dyn      bool
		ro       ropts
		withAny  bool
		seeds    []int
	}{
		{"vw", "google.protobuf.FieldMask", false, ropts{}, false, []int{0, 1, 2, 3}},                              // fcde2e4 paths dropped
		{"test3", "goproto.proto.test3.TestAllTypes", false, ropts{}, false, []int{0, 1, 2}},                       // 1730a5e enum index; 0c6fe98 leftovers at depth 11
		{"vw", "google.protobuf.Any", false, ropts{}, true, []int{1, 2, 3}},                                        // 3227b11 nil field
		{"vw", "vw.Wk", false, ropts{}, false, []int{0, 1, 2, 3}},                                                  // a592b3e empty Any elements
		{"vw", "vw.Wk", false, ropts{dn: true}, true, []int{160008637, 401733545}},                                 // 0c6fe98 Any leftovers at the limit
		{"vw", "vw.Wk", false, ropts{nel: true}, false, []int{528897537, 992588847, 1068907953, 364940035, 3729025}}, // 9f5602c empty non-nil list
		{"testpb", "CounterQueryRequest", false, ropts{}, false, []int{0, 1}},                                     // 402bd9f nothing to draw
		{"vw", "google.protobuf.Any", true, ropts{}, false, []int{0, 1}},                                           // 402bd9f
	}
	for _, rg := range regress {
		for _, rs := range all {
			if rs.si.id != rg.sid {
				continue
			}
			mi := rs.si.byName[protoreflect.FullName(rg.msg)]
			if mi == nil {
				panic("regression case: no message " + rg.msg + " in " + rg.sid)
			}
			ro := rg.ro
			if rg.withAny {
				// the well-known leaf types and the type that holds Any fields, as in the sweep
				for _, m := range rs.si.msgs {
					if t := wktTag(m.md); t == "ts" || t == "dur" || t == "fm" || m.md.FullName() == "vw.Wk" {
						ro.any = append(ro.any, m.idx)
					}
				}
			}
			for _, sd := range rg.seeds {
				o.count("regression_draws")
				(&rapidCtx{cfg: cfg, o: o, rs: rs}).draw(mi, rg.dyn, ro, sd)
			}
		}
	}
	for _, rs := range all {
		si := rs.si
		// Any payload types: the cheapest few message types of the schema, Any itself, and one type that
		// holds Any fields
		type cand struct {
			idx  int
			cost float64
		}
		var cs []cand
		for _, mi := range si.msgs {
			if wktTag(mi.md) == "any" || reachesAny(si, mi, map[int]bool{}) || len(mi.fields) == 0 {
				continue
			}
			cs = append(cs, cand{mi.idx, rs.estimate(mi, ropts{})})
		}
		sort.SliceStable(cs, func(i, j int) bool { return cs[i].cost < cs[j].cost })
		var anyTypes []int
		for i := 0; i < len(cs) && len(anyTypes) < 3; i++ {
			anyTypes = append(anyTypes, cs[i].idx)
		}
		// Any inside Any (genAny is handed a nil field for the payload), when the schema has Any
		for _, mi := range si.msgs {
			if wktTag(mi.md) == "any" && len(anyTypes) > 0 {
				anyTypes = append(anyTypes, mi.idx)
			}
		}
		// one more: a type that itself holds Any fields (payload inside payload), if cheap enough
		for _, mi := range si.msgs {
			if wktTag(mi.md) != "any" && reachesAny(si, mi, map[int]bool{}) && len(anyTypes) > 0 && rs.estimate(mi, ropts{any: anyTypes}) < 2000 {
				anyTypes = append(anyTypes, mi.idx)
				break
			}
		}
		hints := map[int]int{}
		for i := range rs.ifaces {
			if len(anyTypes) > 0 {
				hints[i] = anyTypes[i%len(anyTypes)]
			}
		}
		for _, mi := range si.msgs {
			impls := []bool{true}
			if !rs.dynOnly {
				impls = []bool{false, true}
			}
			for _, dyn := range impls {
				for _, ro := range rs.combos(anyTypes, hints) {
					if len(ro.any) > 0 && len(anyTypes) == 0 {
						continue
					}
					if len(ro.any) > 0 && !reachesAny(si, mi, map[int]bool{}) && r.intn(4) != 0 {
						o.count("skipped_any_irrelevant") // AnyTypeURLs cannot matter for this type: sampled 1 in 4
						continue
					}
					if est := rs.estimate(mi, ro); est > budget {
						o.count("skipped_blowup") // e.g. DisallowNilMessages on a branching recursive type
						o.count("skipped_blowup_" + si.id + "." + string(mi.md.Name()))
						continue
					}
					for k := 0; k < seeds; k++ {
						(&rapidCtx{cfg: cfg, o: o, rs: rs}).draw(mi, dyn, ro, int(r.u64()>>34))
					}
				}
			}
		}
	}
}
