package main

// Engine "conc" (C11): N goroutines run the read-only operation set on ONE shared generated
// message; every result must equal the result of a sequential run, and the Go struct (all fields,
// unexported ones included, except protobuf-go's `state`) must be bit-for-bit what it was before.
// The binary is built with -race; ./check turns the race detector's reports into failures.

import (
	"bytes"
	"compress/gzip"
	"crypto/sha256"
	"fmt"
	"google.golang.org/protobuf/types/descriptorpb"
	"io"
	"os"
	"reflect"
	"runtime"
	"sort"
	"strconv"
	"strings"
	"sync"
	"sync/atomic"
	"time"
	"unsafe"

	"github.com/cosmos/cosmos-proto/anyutil"
	"google.golang.org/protobuf/encoding/protojson"
	"google.golang.org/protobuf/encoding/prototext"
	"google.golang.org/protobuf/proto"
	"google.golang.org/protobuf/reflect/protoreflect"
	"google.golang.org/protobuf/runtime/protoiface"
	"google.golang.org/protobuf/types/dynamicpb"
	"google.golang.org/protobuf/types/known/anypb"
)

func init() { engines["conc"] = engineConc }

const concGoroutines = 8

type concOp struct {
	name string
	f    func(m, priv proto.Message) string
}

type concCtx struct {
	o      *out
	si     *schemaInfo
	lib    *libCtx
	pulsar map[reflect.Type]bool
}

// ---- deep snapshot of a struct: every field (unexported too) except `state`; sizeCache only for
// pulsar-generated structs (protobuf-go's own types update theirs atomically in proto.Size, which
// is protobuf-go's business). Pointers, slice headers (data pointer, len, cap) and map identities
// are part of the snapshot: a read-only call must not even reallocate. -------------------------
func (c *concCtx) snap(sb *strings.Builder, v reflect.Value) {
	switch v.Kind() {
	case reflect.Ptr:
		if v.IsNil() {
			sb.WriteString("nil")
			return
		}
		fmt.Fprintf(sb, "&%x", v.Pointer())
		if v.Elem().Kind() == reflect.Struct {
			c.snapStruct(sb, v.Elem())
		}
	case reflect.Struct:
		c.snapStruct(sb, v)
	case reflect.Interface:
		if v.IsNil() {
			sb.WriteString("nil")
			return
		}
		sb.WriteString(v.Elem().Type().String())
		sb.WriteByte(':')
		c.snap(sb, v.Elem())
	case reflect.Slice:
		if v.IsNil() {
			sb.WriteString("nil")
			return
		}
		fmt.Fprintf(sb, "[%d/%d@%x:", v.Len(), v.Cap(), v.Pointer())
		if v.Type().Elem().Kind() == reflect.Uint8 {
			for i := 0; i < v.Len(); i++ {
				fmt.Fprintf(sb, "%02x", v.Index(i).Uint())
			}
		} else {
			for i := 0; i < v.Len(); i++ {
				c.snap(sb, v.Index(i))
				sb.WriteByte(',')
			}
		}
		sb.WriteByte(']')
	case reflect.Map:
		if v.IsNil() {
			sb.WriteString("nil")
			return
		}
		fmt.Fprintf(sb, "{%d@%x:", v.Len(), v.Pointer())
		var ents []string
		it := v.MapRange()
		for it.Next() {
			var e strings.Builder
			c.snap(&e, it.Key())
			e.WriteString("=>")
			c.snap(&e, it.Value())
			ents = append(ents, e.String())
		}
		sort.Strings(ents)
		sb.WriteString(strings.Join(ents, ";"))
		sb.WriteByte('}')
	case reflect.String:
		s := v.String()
		fmt.Fprintf(sb, "%d@%x:%q", len(s), (*reflect.StringHeader)(unsafe.Pointer(&s)).Data, s)
	case reflect.Bool:
		sb.WriteString(strconv.FormatBool(v.Bool()))
	case reflect.Int, reflect.Int8, reflect.Int16, reflect.Int32, reflect.Int64:
		sb.WriteString(strconv.FormatInt(v.Int(), 10))
	case reflect.Uint, reflect.Uint8, reflect.Uint16, reflect.Uint32, reflect.Uint64, reflect.Uintptr:
		sb.WriteString(strconv.FormatUint(v.Uint(), 10))
	case reflect.Float32:
		fmt.Fprintf(sb, "f%x", float32Bits(v))
	case reflect.Float64:
		cp := reflect.New(v.Type()).Elem()
		cp.Set(v)
		fmt.Fprintf(sb, "d%x", *(*uint64)(unsafe.Pointer(cp.UnsafeAddr())))
	default:
		fmt.Fprintf(sb, "?%s", v.Kind())
	}
}

func (c *concCtx) snapStruct(sb *strings.Builder, s reflect.Value) {
	isPulsar := c.pulsar[s.Type()]
	sb.WriteString(s.Type().String())
	sb.WriteByte('{')
	for i := 0; i < s.NumField(); i++ {
		sf := s.Type().Field(i)
		if sf.Name == "state" || (sf.Name == "sizeCache" && !isPulsar) {
			continue
		}
		f := s.Field(i)
		if sf.PkgPath != "" { // unexported: read through its address
			if !f.CanAddr() {
				continue
			}
			f = reflect.NewAt(f.Type(), unsafe.Pointer(f.UnsafeAddr())).Elem()
		}
		sb.WriteString(sf.Name)
		sb.WriteByte('=')
		c.snap(sb, f)
		sb.WriteByte(' ')
	}
	sb.WriteByte('}')
}

func (c *concCtx) snapshot(m proto.Message) string {
	var sb strings.Builder
	c.snap(&sb, reflect.ValueOf(m))
	return sb.String()
}

func snapDiff(a, b string) string {
	i := 0
	for i < len(a) && i < len(b) && a[i] == b[i] {
		i++
	}
	lo := i - 60
	if lo < 0 {
		lo = 0
	}
	cut := func(s string) string {
		hi := i + 60
		if hi > len(s) {
			hi = len(s)
		}
		if lo > len(s) {
			return ""
		}
		return s[lo:hi]
	}
	return fmt.Sprintf("...%s... -> ...%s...", cut(a), cut(b))
}

// ---- the read-only operation set --------------------------------------------------------------------
func detBytes(m proto.Message) string {
	b, err := proto.MarshalOptions{Deterministic: true}.Marshal(m)
	if err != nil {
		return "err"
	}
	return hx(b)
}

// concViolated marks the result of an operation that found, by itself, that what it was handed did not stay intact: a failure
// in the sequential run already (a reader that marshals twice is its own "other reader")
const concViolated = "VIOLATED: "

// concSentinel: a fresh 8-byte pattern for every reader that appends to a buffer it was handed (harness state, atomic)
var concSentinel uint64

func sentinelBytes() []byte {
	n := atomic.AddUint64(&concSentinel, 1)
	b := make([]byte, 40)
	for i := range b {
		b[i] = byte(n>>(8*uint(i%8))) ^ byte(0xA5+i/8)
	}
	return b
}

func (c *concCtx) ops(mi *msgInfo, v *V) []concOp {
	si := c.si
	// a second message of the same type with other (never empty) content, shared by all readers and only ever marshalled:
	// what a reader was handed by a marshal call must still be there after it, or anybody else, has marshalled something else
	noiseV := c.lib.g.msg(mi, 2, 6)
	noiseV.Unk = append(noiseV.Unk, genUnknownFor(c.lib.r, mi)...)
	noise := c.lib.G(mi, noiseV)
	noiseDet := func() string {
		b, err := proto.MarshalOptions{Deterministic: true}.Marshal(noise)
		if err != nil {
			return "err"
		}
		return hx(b)
	}
	// kept: what `held` (a buffer a marshal call returned, possibly extended by the reader) reads after other marshal calls
	// (by this reader and, after yielding, by the others) against the copy taken when the call returned
	kept := func(what string, held, first []byte) string {
		n1 := noiseDet()
		if nb, err := (proto.MarshalOptions{}).MarshalAppend(nil, noise); err != nil || len(nb) == 0 {
			return concViolated + what + ": marshalling the other message fails"
		}
		runtime.Gosched()
		n2 := noiseDet()
		runtime.Gosched()
		if !bytes.Equal(held, first) {
			return fmt.Sprintf(concViolated+"%s: the buffer the call returned read %s when it returned and reads %s after other Marshal calls", what, hx(first), hx(held))
		}
		if n1 != n2 {
			return fmt.Sprintf(concViolated+"%s: the other message marshals to %s, then to %s", what, n1, n2)
		}
		return "noise=" + n1
	}
	uniqueNondet := maxMapLen(v) <= 1
	fields := mi.md.Fields()
	oneofs := mi.md.Oneofs()
	// bytes of a non-deterministic Marshal: the order of map entries is free, so (unless every map
	// has at most one entry) the decoded content is compared, not the bytes
	canonBytes := func(b []byte) string {
		if uniqueNondet {
			return hx(b)
		}
		d := dynamicpb.NewMessage(mi.md)
		if proto.Unmarshal(b, d) != nil {
			return "undecodable " + hx(b)
		}
		return fmt.Sprint(len(b)) + " " + detBytes(d)
	}
	return []concOp{
		{"has", func(m, _ proto.Message) string {
			// Has of every field, WhichOneof of every oneof (also the model tie: CONCHAS)
			r := m.ProtoReflect()
			var sb strings.Builder
			for i := 0; i < fields.Len(); i++ {
				sb.WriteString(tf(r.Has(fields.Get(i))))
			}
			for i := 0; i < oneofs.Len(); i++ {
				if oneofs.Get(i).IsSynthetic() {
					continue
				}
				sb.WriteByte('|')
				if fd := r.WhichOneof(oneofs.Get(i)); fd != nil {
					sb.WriteString(fmt.Sprint(fd.Number()))
				} else {
					sb.WriteByte('-')
				}
			}
			return sb.String()
		}},
		{"size", func(m, _ proto.Message) string { return fmt.Sprint(proto.Size(m)) }},
		{"marshal-deterministic", func(m, _ proto.Message) string { return detBytes(m) }},
		{"marshal", func(m, _ proto.Message) string {
			b, err := proto.Marshal(m)
			if err != nil {
				return "err"
			}
			return canonBytes(b)
		}},
		{"methods-marshal-nilbuf", func(m, _ proto.Message) string {
			// the generated Marshal called directly with no destination buffer: the result belongs to the caller
			r := m.ProtoReflect()
			meth := r.ProtoMethods()
			if meth == nil || meth.Marshal == nil {
				return "no-methods"
			}
			out, err := meth.Marshal(protoiface.MarshalInput{Message: r})
			if err != nil {
				return "err"
			}
			first := append([]byte{}, out.Buf...)
			return canonBytes(first) + " " + kept("ProtoMethods().Marshal(Buf: nil)", out.Buf, first)
		}},
		{"methods-marshal-sparebuf", func(m, _ proto.Message) string {
			// ... and with an empty destination buffer that has room: result = the encoding, wherever it lives
			r := m.ProtoReflect()
			meth := r.ProtoMethods()
			if meth == nil || meth.Marshal == nil {
				return "no-methods"
			}
			buf := make([]byte, 0, proto.Size(m)+24)
			out, err := meth.Marshal(protoiface.MarshalInput{Message: r, Buf: buf})
			if err != nil {
				return "err"
			}
			first := append([]byte{}, out.Buf...)
			return canonBytes(first) + " " + kept("ProtoMethods().Marshal(Buf: empty with spare capacity)", out.Buf, first)
		}},
		{"marshalappend-nil-append", func(m, _ proto.Message) string {
			// MarshalAppend(nil, m): the returned slice is the caller's, spare capacity included: appending to it must not
			// touch anything anybody else uses, and nobody else may touch what was appended
			b, err := proto.MarshalOptions{}.MarshalAppend(nil, m)
			if err != nil {
				return "err"
			}
			enc := append([]byte{}, b...)
			b = append(b, sentinelBytes()...)
			first := append([]byte{}, b...)
			return canonBytes(enc) + " " + kept("MarshalAppend(nil, m) + append", b, first)
		}},
		{"legacy-descriptor", func(m, _ proto.Message) string {
			// the deprecated raw-descriptor accessor and the descriptor / type reads every client makes first: read-only too
			// (the gzip of the raw descriptor is made lazily on the first call: a reader must never see it half-made)
			var sb strings.Builder
			if ld, ok := m.(interface{ Descriptor() ([]byte, []int) }); ok {
				gz, path := ld.Descriptor()
				sum := sha256.Sum256(gz)
				zr, err := gzip.NewReader(bytes.NewReader(gz))
				n := -1
				if err == nil {
					if raw, err := io.ReadAll(zr); err == nil {
						fdp := &descriptorpb.FileDescriptorProto{}
						if proto.Unmarshal(raw, fdp) == nil && fdp.GetName() == m.ProtoReflect().Descriptor().ParentFile().Path() {
							n = len(raw)
						}
					}
				}
				fmt.Fprintf(&sb, "gz=%x raw=%d path=%v ", sum[:8], n, path)
			}
			r := m.ProtoReflect()
			fmt.Fprintf(&sb, "name=%s type=%s new=%T", r.Descriptor().FullName(), r.Type().Descriptor().FullName(), r.Type().New().Interface())
			return sb.String()
		}},
		{"equal", func(m, priv proto.Message) string { return tf(proto.Equal(m, priv)) + tf(proto.Equal(priv, m)) }},
		{"clone", func(m, _ proto.Message) string { return detBytes(proto.Clone(m)) }},
		{"merge-from", func(m, _ proto.Message) string {
			dst := reflect.New(mi.goType).Interface().(proto.Message)
			proto.Merge(dst, m)
			return detBytes(dst)
		}},
		{"get-walk", func(m, _ proto.Message) string { return si.fromPR(mi, m.ProtoReflect()).String() }},
		{"get-all", func(m, _ proto.Message) string {
			// Get of every field, populated or not (invalid views of empty containers and unset messages)
			r := m.ProtoReflect()
			var sb strings.Builder
			for i := 0; i < fields.Len(); i++ {
				fd := fields.Get(i)
				val := r.Get(fd)
				switch {
				case fd.IsMap():
					fmt.Fprintf(&sb, "m%d%v,", val.Map().Len(), val.Map().IsValid())
				case fd.IsList():
					fmt.Fprintf(&sb, "l%d%v,", val.List().Len(), val.List().IsValid())
				case fd.Message() != nil:
					n := 0
					val.Message().Range(func(protoreflect.FieldDescriptor, protoreflect.Value) bool { n++; return true })
					fmt.Fprintf(&sb, "M%v%d,", val.Message().IsValid(), n)
				default:
					sb.WriteString(val.String())
					sb.WriteByte(',')
				}
			}
			return sb.String()
		}},
		{"range", func(m, _ proto.Message) string {
			var nums []int
			m.ProtoReflect().Range(func(fd protoreflect.FieldDescriptor, _ protoreflect.Value) bool {
				nums = append(nums, int(fd.Number()))
				return true
			})
			sort.Ints(nums)
			return fmt.Sprint(nums) + " unknown=" + hx(m.ProtoReflect().GetUnknown())
		}},
		{"meta", func(m, _ proto.Message) string {
			r := m.ProtoReflect()
			return string(r.Descriptor().FullName()) + " " + string(r.Type().Descriptor().FullName()) + " " + tf(r.IsValid()) + tf(r.ProtoMethods() != nil) + tf(r.Interface() == m) + tf(r.New().IsValid()) + tf(proto.CheckInitialized(m) == nil)
		}},
		{"protojson", func(m, _ proto.Message) string {
			b, err := protojson.Marshal(m)
			if err != nil {
				return "err"
			}
			return string(b)
		}},
		{"prototext", func(m, _ proto.Message) string {
			b, err := prototext.Marshal(m)
			if err != nil {
				return "err"
			}
			return string(b)
		}},
		{"anypb.New", func(m, _ proto.Message) string {
			a, err := anypb.New(m)
			if err != nil {
				return "err"
			}
			return a.TypeUrl + " " + canonBytes(a.Value)
		}},
		{"anyutil.New", func(m, _ proto.Message) string {
			a, err := anyutil.New(m)
			if err != nil {
				return "err"
			}
			return a.TypeUrl + " " + canonBytes(a.Value)
		}},
	}
}

func runOp(op concOp, m, priv proto.Message) (r string) {
	defer func() {
		if e := recover(); e != nil {
			r = fmt.Sprintf("panic: %v", e)
		}
	}()
	return op.f(m, priv)
}

// coldStart: the FIRST use of a type's generated methods in this process happens concurrently: all goroutines are released
// together on one fresh shared message before anything has sized, marshalled or ranged a message of that type (lazily
// initialised package state on the read path — method tables, caches — is then written and read without ordering, which
// the race detector reports). Results are compared with a sequential run made afterwards.
func (c *concCtx) coldStart(mi *msgInfo, v *V) {
	o := c.o
	id := c.lib.id(mi)
	sharedMsg := c.lib.G(mi, v) // built through package reflect only
	ops := c.ops(mi, v)
	privs := make([]proto.Message, concGoroutines)
	for g := range privs {
		privs[g] = c.lib.G(mi, v)
	}
	got := make([][]string, concGoroutines)
	start := make(chan struct{})
	var wg sync.WaitGroup
	for g := 0; g < concGoroutines; g++ {
		wg.Add(1)
		go func(g int) {
			defer wg.Done()
			<-start
			for k := range ops {
				j := (k + g*2) % len(ops)
				got[g] = append(got[g], ops[j].name+"\x00"+runOp(ops[j], sharedMsg, privs[g]))
			}
		}(g)
	}
	close(start)
	wg.Wait()
	priv0 := c.lib.G(mi, v)
	seq := map[string]string{}
	for _, op := range ops {
		seq[op.name] = runOp(op, sharedMsg, priv0)
	}
	for _, op := range ops {
		if k := strings.Index(seq[op.name], concViolated); k >= 0 {
			o.withKey("conc/"+id+"/"+op.name+"/result-clobbered").prop("C11", false, fmt.Sprintf("a single reader of %s: %.600s; value %s", id, seq[op.name][k+len(concViolated):], v))
		}
	}
	for g := range got {
		for _, r := range got[g] {
			nm, val, _ := strings.Cut(r, "\x00")
			if val != seq[nm] {
				o.withKey("conc/"+id+"/coldstart").prop("C11", false, fmt.Sprintf("cold start: goroutine %d's first %s on a shared %s gave %.200q, a sequential reader gets %.200q; first difference (sequential -> concurrent): %s", g, nm, id, val, seq[nm], snapDiff(seq[nm], val)))
			} else {
				o.propOK++
			}
		}
	}
	o.count("cold_starts")
	o.hist["concurrent_ops"] += concGoroutines * len(ops)
}

// one shared message: sequential run, then the concurrent run
func (c *concCtx) shared(mi *msgInfo, v *V, iters int, deadline time.Time) {
	o, si := c.o, c.si
	id := c.lib.id(mi)
	sharedMsg := c.lib.G(mi, v)
	ops := c.ops(mi, v)
	rawBefore := c.lib.rawG(mi, sharedMsg)
	snapBefore := c.snapshot(sharedMsg)
	seq := make([]string, len(ops))
	priv0 := c.lib.G(mi, v)
	prev := snapBefore
	for i, op := range ops {
		seq[i] = runOp(op, sharedMsg, priv0)
		after := c.snapshot(sharedMsg)
		o.withKey("conc/"+id+"/"+op.name+"/writes").prop("C11", after == prev,
			fmt.Sprintf("read-only operation %s writes to the message struct of %s (sequential run): %s; value %s", op.name, id, snapDiff(prev, after), v))
		prev = after
		o.withKey("conc/"+id+"/"+op.name+"/panic").prop("C11", !strings.HasPrefix(seq[i], "panic: "), fmt.Sprintf("read-only operation %s on %s panics: %s; value %s", op.name, id, seq[i], v))
		if k := strings.Index(seq[i], concViolated); k >= 0 {
			o.withKey("conc/"+id+"/"+op.name+"/result-clobbered").prop("C11", false, fmt.Sprintf("a single reader of %s: %.600s; value %s", id, seq[i][k+len(concViolated):], v))
		}
		again := runOp(op, sharedMsg, priv0)
		o.withKey("conc/"+id+"/"+op.name+"/unstable").prop("C11", again == seq[i], fmt.Sprintf("read-only operation %s on %s gives two answers in a sequential run: %.300q then %.300q; value %s", op.name, id, seq[i], again, v))
	}
	o.kase("CONCHAS", []string{si.id, fmt.Sprint(mi.idx), v.String()}, seq[0])

	type gres struct {
		n   int
		bad []string
	}
	res := make([]gres, concGoroutines)
	privs := make([]proto.Message, concGoroutines)
	for g := range privs {
		privs[g] = c.lib.G(mi, v)
	}
	start := make(chan struct{})
	var wg sync.WaitGroup
	for g := 0; g < concGoroutines; g++ {
		wg.Add(1)
		go func(g int) {
			defer wg.Done()
			<-start
			for it := 0; it < iters || iters < 0; it++ {
				for k := range ops {
					j := (k + g*2 + it) % len(ops) // staggered: different operations overlap
					r := runOp(ops[j], sharedMsg, privs[g])
					res[g].n++
					if k := strings.Index(r, concViolated); k >= 0 && len(res[g].bad) < 3 {
						res[g].bad = append(res[g].bad, fmt.Sprintf("%s: %.600s", ops[j].name, r[k+len(concViolated):]))
					} else if r != seq[j] && len(res[g].bad) < 3 {
						res[g].bad = append(res[g].bad, fmt.Sprintf("%s: %.200q, sequential run %.200q; first difference (sequential -> concurrent): %s", ops[j].name, r, seq[j], snapDiff(seq[j], r)))
					}
				}
				if iters < 0 && time.Now().After(deadline) {
					return
				}
			}
		}(g)
	}
	close(start)
	wg.Wait()
	total := 0
	for g := range res {
		total += res[g].n
		o.withKey("conc/"+id+"/results").prop("C11", len(res[g].bad) == 0, fmt.Sprintf("goroutine %d of %d concurrent readers of one %s observed results that differ from the sequential reader's: %s; value %s", g, concGoroutines, id, strings.Join(res[g].bad, " ;; "), v))
	}
	o.hist["concurrent_ops"] += total
	snapAfter := c.snapshot(sharedMsg)
	o.withKey("conc/"+id+"/writes").prop("C11", snapAfter == snapBefore && c.lib.rawG(mi, sharedMsg) == rawBefore,
		fmt.Sprintf("the message struct of %s changed during %d concurrent read-only operations: %s; value %s", id, total, snapDiff(snapBefore, snapAfter), v))
	o.count("shared_messages")
	o.nontrivial(si.id + "/" + fmt.Sprint(mi.idx) + "/" + shapeKey(v))
}

func engineConc(cfg config, o *out) {
	schemas := loadSchemas()
	o.hist["programs"] = len(schemas)
	o.hist["goroutines"] = concGoroutines
	begin := time.Now()
	budget := 9 * time.Minute
	if s := os.Getenv("VERIF_CONC_SOAK_S"); s != "" {
		if n, err := strconv.Atoi(s); err == nil {
			budget = time.Duration(n) * time.Second
		}
	}
	type job struct {
		c  *concCtx
		mi *msgInfo
		wk bool
	}
	var jobs []job
	for _, si := range schemas {
		o.raw("SCHEMA\t" + si.id + "\t=\t" + si.sexp())
		lib := &libCtx{o: o, si: si, r: newRng(cfg.seed, "conc/"+si.id), cfg: cfg}
		lib.g = &vgen{r: lib.r, si: si, nilElems: true}
		c := &concCtx{o: o, si: si, lib: lib, pulsar: map[reflect.Type]bool{}}
		for _, m := range si.msgs {
			c.pulsar[m.goType] = m.pulsar
		}
		for _, mi := range si.roots() {
			jobs = append(jobs, job{c, mi, lib.hasWKT(mi, map[*msgInfo]bool{})})
		}
	}
	gen := func(j job, k int) *V {
		lib := j.c.lib
		if k%4 == 2 {
			// the empty message (size 0: the library hands the generated Marshal no buffer at all); every other time with
			// nothing but an unknown record
			v := j.c.si.emptyV(j.mi)
			if k%8 == 6 {
				v.Unk = append(v.Unk, genUnknownFor(lib.r, j.mi)...)
			}
			return v
		}
		v := lib.g.msg(j.mi, 2, 3+lib.r.intn(5))
		if k%2 == 1 {
			v.Unk = append(v.Unk, genUnknownFor(lib.r, j.mi)...)
		}
		if j.wk && k%4 != 3 {
			lib.fixWKT(j.mi, v, 2)
		}
		return v
	}
	// cold start first: nothing has used these types' generated methods yet in this process
	for _, j := range jobs {
		j.c.coldStart(j.mi, gen(j, 1))
	}
	if !cfg.thorough() {
		// quick: 2 shared messages per type, ~1k operations per goroutine on each
		for _, j := range jobs {
			for k := 0; k < 3; k++ {
				iters := 68
				if k == 2 {
					iters = 40 // the empty message
				}
				j.c.shared(j.mi, gen(j, k), iters, time.Time{})
			}
		}
		return
	}
	// thorough: soak until the budget is used; each round gives every type a new shared message
	for round := 0; time.Since(begin) < budget; round++ {
		for _, j := range jobs {
			if time.Since(begin) >= budget {
				break
			}
			slice := time.Now().Add(budget / time.Duration(8*len(jobs)))
			j.c.shared(j.mi, gen(j, round), -1, slice)
		}
		o.hist["soak_rounds"] = round + 1
	}
}
