package main

// Engine "anyprog" (task T13): translator tie for the hand-written /repo/anyutil/any.go (New, MarshalFrom, Unpack; property C16).
//
// On every run the file (under VERIF_REPO, default /repo) is parsed with go/parser and every top-level function is translated,
// purely syntactically, into the statement language of coq/Model/AnyProg.v; anything that is not one of the literal forms of that
// language makes the function `untranslatable:<pos>:<why>`. Case lines (evaluated by driver/anyprog_eval.ml):
//
//	ANYPROG     imports                          = the imported packages, sorted          model: canon_anyprog_imports
//	ANYPROG     decls                            = the top-level declarations in order    model: names of canon_anyprog
//	ANYPROG     <func>                           = the printed translation                model: print (canonical function of that name)
//	@ANYPROGDEF <func> <text>                    = ok     context line: the driver parses and keeps the TRANSLATED function
//	ANYPROG     <func> eqb                       = same   model: apfun_eqb <translated> <canonical>
//	@ANY        REG GT|GF ...                    = ok     the registries (context lines of engine "any", handed on)
//	ANYPROGRUN  PACK|NEW|UNPACK <args of the ANY line>   = <what the running code did>
//	             model: the interpreter of AnyProg.v on the TRANSLATED functions, oracles answered from the case (engine "any")
//
// Text form of a function (driver/anyprog_eval.ml prints and parses the same):
//
//	(func F (params (x T)...) (results T...) (body s...))
//	s ::= (:= (x...) e) | (= (x...) e) | (set x TypeUrl|Value e) | (if (init s...) e (then s...) (else s...)) | (return e...)
//	e ::= nil | x | (str "...") | (+ e e) | (. e TypeUrl|Value) | (== e e) | (!= e e) | (not e) | (new-any) | (no-opts)
//	    | (global-types) | (global-files) | (not-found) | (trim-prefix e "p") | (full-name-of e) | (to-full-name e)
//	    | (new-error "m") | (errorf "f" e...) | (marshal e e) | (call f e...) | (find-message-by-url e e)
//	    | (find-descriptor-by-name e e) | (is-message-desc e) | (assert-message-desc e) | (new-message-type e) | (typ-new e)
//	    | (unmarshal-to e e)
//
// What the translator checks itself (no go/types): every package qualifier is an import of the expected path and is not shadowed;
// `nil`, `new`, `string` are the predeclared ones; the receiver of a method call / field access has the right KIND, inferred from
// the declared parameter types and from the forms that define locals (a small kind checker: any msg opts tres fres err str bytes
// typ desc mdesc bool nil); the number of values on both sides of := / = / return.

import (
	"fmt"
	"go/ast"
	"go/parser"
	"go/token"
	"go/types"
	"os"
	"path/filepath"
	"sort"
	"strconv"
	"strings"
)

func init() { engines["anyprog"] = engineAnyProg }

const anypRel = "anyutil/any.go"

// the packages the forms of the language mention, by the name used in the source
var anypWantImport = map[string]string{
	"fmt":           "fmt",
	"strings":       "strings",
	"proto":         "google.golang.org/protobuf/proto",
	"protodesc":     "google.golang.org/protobuf/reflect/protodesc",
	"protoreflect":  "google.golang.org/protobuf/reflect/protoreflect",
	"protoregistry": "google.golang.org/protobuf/reflect/protoregistry",
	"protoimpl":     "google.golang.org/protobuf/runtime/protoimpl",
	"dynamicpb":     "google.golang.org/protobuf/types/dynamicpb",
	"anypb":         "google.golang.org/protobuf/types/known/anypb",
}

var anypTypeKind = map[string]string{
	"*anypb.Any":                        "any",
	"proto.Message":                     "msg",
	"proto.MarshalOptions":              "opts",
	"protoregistry.MessageTypeResolver": "tres",
	"protodesc.Resolver":                "fres",
	"error":                             "err",
	"string":                            "str",
	"[]byte":                            "bytes",
	"bool":                              "bool",
	"protoreflect.MessageType":          "typ",
	"protoreflect.Descriptor":           "desc",
	"protoreflect.MessageDescriptor":    "mdesc",
}

var anypNilable = map[string]bool{"any": true, "msg": true, "tres": true, "fres": true, "err": true, "typ": true, "desc": true, "mdesc": true}

type anypFail struct{ msg string }

type anypSig struct {
	params  []string // kinds
	results []string
}

type anypTr struct {
	fset    *token.FileSet
	imports map[string]string // name -> path
	funcs   map[string]anypSig  // the functions of the file
	top     map[string]bool   // every top-level name
	scopes  []map[string]string
	results []string
}

func (t *anypTr) fail(pos token.Pos, why string) {
	p := t.fset.Position(pos)
	panic(anypFail{fmt.Sprintf("untranslatable:%d:%d:%s", p.Line, p.Column, why)})
}

func anypQuote(s string) string {
	var b strings.Builder
	b.WriteByte('"')
	for _, c := range []byte(s) {
		switch {
		case c == '"' || c == '\\':
			b.WriteByte('\\')
			b.WriteByte(c)
		case c < 0x20 || c > 0x7e:
			fmt.Fprintf(&b, "\\x%02x", c)
		default:
			b.WriteByte(c)
		}
	}
	b.WriteByte('"')
	return b.String()
}

func (t *anypTr) push() { t.scopes = append(t.scopes, map[string]string{}) }
func (t *anypTr) pop()  { t.scopes = t.scopes[:len(t.scopes)-1] }
func (t *anypTr) lookup(x string) (string, bool) {
	for i := len(t.scopes) - 1; i >= 0; i-- {
		if k, ok := t.scopes[i][x]; ok {
			return k, true
		}
	}
	return "", false
}

// a name that must denote what it denotes in the universe / the import block: not declared by the file
func (t *anypTr) free(id *ast.Ident) bool {
	_, local := t.lookup(id.Name)
	return !local && !t.top[id.Name] && id.Obj == nil
}

func (t *anypTr) ident(pos token.Pos, s string) string {
	if s == "" || strings.ContainsAny(s, " \t()\"\\") {
		t.fail(pos, "identifier "+strconv.Quote(s))
	}
	return s
}

// pkg: is e the qualifier of the package imported as `name` from the expected path?
func (t *anypTr) pkg(e ast.Expr, name string) bool {
	id, ok := e.(*ast.Ident)
	return ok && id.Name == name && t.free(id) && t.imports[name] == anypWantImport[name] && anypWantImport[name] != ""
}

// qual: e is pkg.Name
func (t *anypTr) qual(e ast.Expr, pkg, name string) bool {
	s, ok := e.(*ast.SelectorExpr)
	return ok && s.Sel.Name == name && t.pkg(s.X, pkg)
}

func (t *anypTr) strLit(e ast.Expr) (string, bool) {
	b, ok := e.(*ast.BasicLit)
	if !ok || b.Kind != token.STRING {
		return "", false
	}
	s, err := strconv.Unquote(b.Value)
	if err != nil {
		return "", false
	}
	return s, true
}

// compatible: may a value of kind k be stored in / compared with / returned as kind want?
func anypCompat(k, want string) bool { return k == want || (k == "nil" && anypNilable[want]) }

// one: a single-valued expression
func (t *anypTr) one(e ast.Expr) (string, string) {
	sx, ks := t.expr(e, false)
	if len(ks) != 1 {
		t.fail(e.Pos(), "a single value is needed")
	}
	return sx, ks[0]
}

func (t *anypTr) oneOf(e ast.Expr, kind string, what string) string {
	sx, k := t.one(e)
	if k != kind {
		t.fail(e.Pos(), what+": operand of kind "+k+", want "+kind)
	}
	return sx
}

// expr: the text and the kinds of the values. commaOk: the expression is the right-hand side of `v, ok := …`.
func (t *anypTr) expr(e ast.Expr, commaOk bool) (string, []string) {
	switch x := e.(type) {
	case *ast.Ident:
		if x.Name == "nil" {
			if !t.free(x) {
				t.fail(x.Pos(), "nil is redeclared")
			}
			return "nil", []string{"nil"}
		}
		k, ok := t.lookup(x.Name)
		if !ok {
			t.fail(x.Pos(), "identifier "+x.Name+" is not a parameter or local")
		}
		if k == "?" {
			t.fail(x.Pos(), "identifier "+x.Name+" has a type outside the language")
		}
		return t.ident(x.Pos(), x.Name), []string{k}
	case *ast.BasicLit:
		if s, ok := t.strLit(x); ok {
			return "(str " + anypQuote(s) + ")", []string{"str"}
		}
		t.fail(x.Pos(), "literal "+x.Value)
	case *ast.BinaryExpr:
		a, ka := t.one(x.X)
		b, kb := t.one(x.Y)
		switch x.Op {
		case token.ADD:
			if ka != "str" || kb != "str" {
				t.fail(x.Pos(), "+ on "+ka+" and "+kb)
			}
			return "(+ " + a + " " + b + ")", []string{"str"}
		case token.EQL, token.NEQ:
			ok := (ka == "nil" && anypNilable[kb]) || (kb == "nil" && anypNilable[ka]) || (ka == kb && (ka == "err" || ka == "bool" || ka == "str"))
			if !ok {
				t.fail(x.Pos(), "comparison of "+ka+" and "+kb)
			}
			return "(" + x.Op.String() + " " + a + " " + b + ")", []string{"bool"}
		}
		t.fail(x.Pos(), "operator "+x.Op.String())
	case *ast.UnaryExpr:
		if x.Op == token.NOT {
			return "(not " + t.oneOf(x.X, "bool", "!") + ")", []string{"bool"}
		}
		t.fail(x.Pos(), "operator "+x.Op.String())
	case *ast.SelectorExpr:
		switch {
		case t.qual(x, "protoregistry", "GlobalTypes"):
			return "(global-types)", []string{"tres"}
		case t.qual(x, "protoregistry", "GlobalFiles"):
			return "(global-files)", []string{"fres"}
		case t.qual(x, "protoregistry", "NotFound"):
			return "(not-found)", []string{"err"}
		case x.Sel.Name == "TypeUrl":
			return "(. " + t.oneOf(x.X, "any", ".TypeUrl") + " TypeUrl)", []string{"str"}
		case x.Sel.Name == "Value":
			return "(. " + t.oneOf(x.X, "any", ".Value") + " Value)", []string{"bytes"}
		}
		t.fail(x.Pos(), "selector ."+x.Sel.Name)
	case *ast.CompositeLit:
		if x.Type != nil && t.qual(x.Type, "proto", "MarshalOptions") && len(x.Elts) == 0 {
			return "(no-opts)", []string{"opts"}
		}
		t.fail(x.Pos(), "composite literal other than proto.MarshalOptions{}")
	case *ast.TypeAssertExpr:
		if x.Type == nil || !t.qual(x.Type, "protoreflect", "MessageDescriptor") {
			t.fail(x.Pos(), "type assertion to something else than protoreflect.MessageDescriptor")
		}
		a := t.oneOf(x.X, "desc", "type assertion")
		if commaOk {
			return "(is-message-desc " + a + ")", []string{"mdesc", "bool"}
		}
		return "(assert-message-desc " + a + ")", []string{"mdesc"}
	case *ast.CallExpr:
		return t.call(x)
	}
	t.fail(e.Pos(), fmt.Sprintf("expression form %T", e))
	return "", nil
}

func (t *anypTr) call(x *ast.CallExpr) (string, []string) {
	if x.Ellipsis != token.NoPos {
		t.fail(x.Pos(), "call with ...")
	}
	nargs := func(n int, what string) {
		if len(x.Args) != n {
			t.fail(x.Pos(), fmt.Sprintf("%s with %d arguments", what, len(x.Args)))
		}
	}
	switch f := x.Fun.(type) {
	case *ast.Ident:
		switch {
		case f.Name == "new" && t.free(f):
			nargs(1, "new")
			if !t.qual(x.Args[0], "anypb", "Any") {
				t.fail(x.Pos(), "new of something else than anypb.Any")
			}
			return "(new-any)", []string{"any"}
		case f.Name == "string" && t.free(f):
			// string(e.ProtoReflect().Descriptor().FullName())
			nargs(1, "string(…)")
			recv := x.Args[0]
			for _, m := range []string{"FullName", "Descriptor", "ProtoReflect"} {
				c, ok := recv.(*ast.CallExpr)
				if !ok || len(c.Args) != 0 || c.Ellipsis != token.NoPos {
					t.fail(x.Pos(), "string(…) of something else than e.ProtoReflect().Descriptor().FullName()")
				}
				s, ok := c.Fun.(*ast.SelectorExpr)
				if !ok || s.Sel.Name != m {
					t.fail(x.Pos(), "string(…) of something else than e.ProtoReflect().Descriptor().FullName()")
				}
				recv = s.X
			}
			return "(full-name-of " + t.oneOf(recv, "msg", "ProtoReflect") + ")", []string{"str"}
		}
		if _, local := t.lookup(f.Name); local {
			t.fail(x.Pos(), "call of a local")
		}
		sig, ok := t.funcs[f.Name]
		if !ok {
			t.fail(x.Pos(), "call of "+f.Name+", not a function of this file")
		}
		nargs(len(sig.params), "call of "+f.Name)
		sx := "(call " + t.ident(f.Pos(), f.Name)
		for i, a := range x.Args {
			s, k := t.one(a)
			if !anypCompat(k, sig.params[i]) {
				t.fail(a.Pos(), "argument of kind "+k+" for a parameter of kind "+sig.params[i])
			}
			sx += " " + s
		}
		return sx + ")", sig.results
	case *ast.SelectorExpr:
		switch {
		case t.qual(f, "strings", "TrimPrefix"):
			nargs(2, "strings.TrimPrefix")
			p, ok := t.strLit(x.Args[1])
			if !ok {
				t.fail(x.Pos(), "strings.TrimPrefix with a prefix that is not a literal")
			}
			return "(trim-prefix " + t.oneOf(x.Args[0], "str", "strings.TrimPrefix") + " " + anypQuote(p) + ")", []string{"str"}
		case t.qual(f, "protoreflect", "FullName"):
			nargs(1, "protoreflect.FullName")
			return "(to-full-name " + t.oneOf(x.Args[0], "str", "protoreflect.FullName") + ")", []string{"str"}
		case t.qual(f, "fmt", "Errorf"):
			if len(x.Args) < 1 {
				t.fail(x.Pos(), "fmt.Errorf without a format")
			}
			fm, ok := t.strLit(x.Args[0])
			if !ok {
				t.fail(x.Pos(), "fmt.Errorf with a format that is not a literal")
			}
			sx := "(errorf " + anypQuote(fm)
			for _, a := range x.Args[1:] {
				s, _ := t.one(a)
				sx += " " + s
			}
			return sx + ")", []string{"err"}
		case t.qual(f, "dynamicpb", "NewMessageType"):
			nargs(1, "dynamicpb.NewMessageType")
			return "(new-message-type " + t.oneOf(x.Args[0], "mdesc", "dynamicpb.NewMessageType") + ")", []string{"typ"}
		case f.Sel.Name == "NewError" && t.qual(f.X, "protoimpl", "X"):
			nargs(1, "protoimpl.X.NewError")
			m, ok := t.strLit(x.Args[0])
			if !ok {
				t.fail(x.Pos(), "protoimpl.X.NewError with a message that is not a literal")
			}
			return "(new-error " + anypQuote(m) + ")", []string{"err"}
		}
		if id, ok := f.X.(*ast.Ident); ok {
			if _, isPkg := t.imports[id.Name]; isPkg && t.free(id) {
				t.fail(x.Pos(), "call of "+id.Name+"."+f.Sel.Name)
			}
		}
		switch f.Sel.Name {
		case "Marshal":
			nargs(1, ".Marshal")
			return "(marshal " + t.oneOf(f.X, "opts", ".Marshal") + " " + t.oneOf(x.Args[0], "msg", ".Marshal") + ")", []string{"bytes", "err"}
		case "FindMessageByURL":
			nargs(1, ".FindMessageByURL")
			return "(find-message-by-url " + t.oneOf(f.X, "tres", ".FindMessageByURL") + " " + t.oneOf(x.Args[0], "str", ".FindMessageByURL") + ")", []string{"typ", "err"}
		case "FindDescriptorByName":
			nargs(1, ".FindDescriptorByName")
			return "(find-descriptor-by-name " + t.oneOf(f.X, "fres", ".FindDescriptorByName") + " " + t.oneOf(x.Args[0], "str", ".FindDescriptorByName") + ")", []string{"desc", "err"}
		case "UnmarshalTo":
			nargs(1, ".UnmarshalTo")
			return "(unmarshal-to " + t.oneOf(f.X, "any", ".UnmarshalTo") + " " + t.oneOf(x.Args[0], "msg", ".UnmarshalTo") + ")", []string{"err"}
		case "Interface":
			// e.New().Interface()
			nargs(0, ".Interface")
			if c, ok := f.X.(*ast.CallExpr); ok && len(c.Args) == 0 && c.Ellipsis == token.NoPos {
				if s, ok := c.Fun.(*ast.SelectorExpr); ok && s.Sel.Name == "New" {
					return "(typ-new " + t.oneOf(s.X, "typ", ".New().Interface()") + ")", []string{"msg"}
				}
			}
		}
		t.fail(x.Pos(), "method call ."+f.Sel.Name)
	}
	t.fail(x.Pos(), "call form")
	return "", nil
}

func (t *anypTr) block(l []ast.Stmt) string {
	var sb strings.Builder
	for _, s := range l {
		sb.WriteByte(' ')
		sb.WriteString(t.stmt(s))
	}
	return sb.String()
}

func (t *anypTr) names(l []ast.Expr) ([]string, bool) {
	var out []string
	for _, e := range l {
		id, ok := e.(*ast.Ident)
		if !ok {
			return nil, false
		}
		out = append(out, t.ident(id.Pos(), id.Name))
	}
	return out, true
}

func (t *anypTr) stmt(s ast.Stmt) string {
	switch x := s.(type) {
	case *ast.AssignStmt:
		if len(x.Rhs) != 1 {
			t.fail(x.Pos(), "assignment with several right-hand sides")
		}
		if x.Tok != token.DEFINE && x.Tok != token.ASSIGN {
			t.fail(x.Pos(), "assignment operator "+x.Tok.String())
		}
		if sel, ok := x.Lhs[0].(*ast.SelectorExpr); ok && len(x.Lhs) == 1 && x.Tok == token.ASSIGN {
			id, ok := sel.X.(*ast.Ident)
			want := map[string]string{"TypeUrl": "str", "Value": "bytes"}[sel.Sel.Name]
			if !ok || want == "" {
				t.fail(x.Pos(), "assignment to a field other than x.TypeUrl / x.Value")
			}
			if k, _ := t.lookup(id.Name); k != "any" {
				t.fail(x.Pos(), "field assignment through something that is no *anypb.Any")
			}
			return "(set " + t.ident(id.Pos(), id.Name) + " " + sel.Sel.Name + " " + t.oneOf(x.Rhs[0], want, "field assignment") + ")"
		}
		xs, ok := t.names(x.Lhs)
		if !ok {
			t.fail(x.Pos(), "assignment target")
		}
		_, isAssert := x.Rhs[0].(*ast.TypeAssertExpr)
		e, ks := t.expr(x.Rhs[0], isAssert && len(xs) == 2)
		if len(ks) != len(xs) {
			t.fail(x.Pos(), fmt.Sprintf("%d variables for %d values", len(xs), len(ks)))
		}
		if x.Tok == token.DEFINE {
			for i, v := range xs {
				if v == "_" {
					continue
				}
				if ks[i] == "nil" {
					t.fail(x.Pos(), "x := nil")
				}
				if old, ok := t.scopes[len(t.scopes)-1][v]; ok && old != ks[i] {
					t.fail(x.Pos(), "redeclaration of "+v+" with another type")
				}
				t.scopes[len(t.scopes)-1][v] = ks[i]
			}
			return "(:= (" + strings.Join(xs, " ") + ") " + e + ")"
		}
		for i, v := range xs {
			if v == "_" {
				continue
			}
			k, ok := t.lookup(v)
			if !ok || !anypCompat(ks[i], k) {
				t.fail(x.Pos(), "assignment of a "+ks[i]+" to "+v)
			}
		}
		return "(= (" + strings.Join(xs, " ") + ") " + e + ")"
	case *ast.IfStmt:
		t.push()
		defer t.pop()
		init := ""
		if x.Init != nil {
			if _, ok := x.Init.(*ast.AssignStmt); !ok {
				t.fail(x.Init.Pos(), "if with an init statement that is no assignment")
			}
			init = " " + t.stmt(x.Init)
		}
		c := t.oneOf(x.Cond, "bool", "if")
		t.push()
		a := t.block(x.Body.List)
		t.pop()
		b := ""
		switch el := x.Else.(type) {
		case nil:
		case *ast.BlockStmt:
			t.push()
			b = t.block(el.List)
			t.pop()
		case *ast.IfStmt:
			t.push()
			b = " " + t.stmt(el)
			t.pop()
		default:
			t.fail(x.Else.Pos(), "else form")
		}
		return "(if (init" + init + ") " + c + " (then" + a + ") (else" + b + "))"
	case *ast.ReturnStmt:
		sx := "(return"
		var kinds []string
		if len(x.Results) == 1 {
			e, ks := t.expr(x.Results[0], false)
			sx += " " + e
			kinds = ks
		} else {
			for _, r := range x.Results {
				e, k := t.one(r)
				sx += " " + e
				kinds = append(kinds, k)
			}
		}
		if len(kinds) != len(t.results) {
			t.fail(x.Pos(), fmt.Sprintf("return of %d values from a function with %d results", len(kinds), len(t.results)))
		}
		for i, k := range kinds {
			if !anypCompat(k, t.results[i]) {
				t.fail(x.Pos(), "return of a "+k+" as "+t.results[i])
			}
		}
		return sx + ")"
	}
	t.fail(s.Pos(), fmt.Sprintf("statement form %T", s))
	return ""
}

func anypKindOf(texpr ast.Expr) (string, string) {
	txt := types.ExprString(texpr)
	if k, ok := anypTypeKind[txt]; ok {
		return txt, k
	}
	return txt, "?"
}

func (t *anypTr) sig(fd *ast.FuncDecl) (anypSig, []string, []string, []string) {
	var sg anypSig
	var pnames, ptexts, rtexts []string
	for _, f := range fd.Type.Params.List {
		txt, k := anypKindOf(f.Type)
		if len(f.Names) == 0 {
			pnames, ptexts, sg.params = append(pnames, "_"), append(ptexts, txt), append(sg.params, k)
		}
		for _, n := range f.Names {
			pnames, ptexts, sg.params = append(pnames, n.Name), append(ptexts, txt), append(sg.params, k)
		}
	}
	if fd.Type.Results != nil {
		for _, f := range fd.Type.Results.List {
			txt, k := anypKindOf(f.Type)
			n := len(f.Names)
			if n == 0 {
				n = 1
			} else {
				txt = "named:" + txt
			}
			for i := 0; i < n; i++ {
				rtexts, sg.results = append(rtexts, txt), append(sg.results, k)
			}
		}
	}
	return sg, pnames, ptexts, rtexts
}

func (t *anypTr) function(fd *ast.FuncDecl) (sx string) {
	defer func() {
		if r := recover(); r != nil {
			if f, ok := r.(anypFail); ok {
				sx = f.msg
				return
			}
			panic(r)
		}
	}()
	if fd.Type.TypeParams != nil {
		t.fail(fd.Pos(), "type parameters")
	}
	if fd.Body == nil {
		t.fail(fd.Pos(), "function without a body")
	}
	sg, pn, pt, rt := t.sig(fd)
	t.scopes = []map[string]string{{}}
	t.results = sg.results
	var sb strings.Builder
	sb.WriteString("(func " + t.ident(fd.Pos(), fd.Name.Name) + " (params")
	for i := range pn {
		if strings.ContainsAny(pt[i], " \t()\"") {
			t.fail(fd.Pos(), "parameter type "+pt[i])
		}
		if pn[i] != "_" {
			t.scopes[0][pn[i]] = sg.params[i]
		}
		sb.WriteString(" (" + t.ident(fd.Pos(), pn[i]) + " " + pt[i] + ")")
	}
	sb.WriteString(") (results")
	for _, r := range rt {
		if strings.HasPrefix(r, "named:") {
			t.fail(fd.Pos(), "named results")
		}
		if strings.ContainsAny(r, " \t()\"") {
			t.fail(fd.Pos(), "result type "+r)
		}
		sb.WriteString(" " + r)
	}
	sb.WriteString(") (body" + t.block(fd.Body.List) + "))")
	return sb.String()
}

type anypDecl struct {
	name string
	fd   *ast.FuncDecl
}

// anypTranslate: the imports line, the declarations in source order (non-functions by a tag) and the translation of each function
func anypTranslate(path string) (imports string, decls []anypDecl, tr *anypTr, err error) {
	fset := token.NewFileSet()
	src, err := os.ReadFile(path)
	if err != nil {
		return "", nil, nil, err
	}
	file, err := parser.ParseFile(fset, path, src, 0)
	if err != nil {
		return "", nil, nil, err
	}
	tr = &anypTr{fset: fset, imports: map[string]string{}, funcs: map[string]anypSig{}, top: map[string]bool{}}
	var ims []string
	for _, im := range file.Imports {
		ip, _ := strconv.Unquote(im.Path.Value)
		name := filepath.Base(ip)
		if im.Name != nil {
			name = im.Name.Name
			ims = append(ims, name+"="+ip)
		} else {
			ims = append(ims, ip)
		}
		if _, dup := tr.imports[name]; dup {
			tr.imports[name] = "" // ambiguous: never the expected path
		} else {
			tr.imports[name] = ip
		}
	}
	sort.Strings(ims)
	for _, d := range file.Decls {
		switch x := d.(type) {
		case *ast.FuncDecl:
			if x.Recv != nil {
				decls = append(decls, anypDecl{name: "method:" + x.Name.Name})
				continue
			}
			tr.top[x.Name.Name] = true
			sg, _, _, _ := tr.sig(x)
			tr.funcs[x.Name.Name] = sg
			decls = append(decls, anypDecl{name: x.Name.Name, fd: x})
		case *ast.GenDecl:
			if x.Tok == token.IMPORT {
				continue
			}
			for _, sp := range x.Specs {
				switch s := sp.(type) {
				case *ast.ValueSpec:
					for _, n := range s.Names {
						tr.top[n.Name] = true
						decls = append(decls, anypDecl{name: strings.ToLower(x.Tok.String()) + ":" + n.Name})
					}
				case *ast.TypeSpec:
					tr.top[s.Name.Name] = true
					decls = append(decls, anypDecl{name: "type:" + s.Name.Name})
				}
			}
		}
	}
	return strings.Join(ims, " "), decls, tr, nil
}

// anypCapture: the lines a scratch run of another engine wrote
func engineAnyProg(c config, o *out) {
	path := filepath.Join(gfRepo(), filepath.FromSlash(anypRel))
	imports, decls, tr, err := anypTranslate(path)
	if err != nil {
		o.kase("ANYPROG", []string{"decls"}, "unreadable:"+strings.NewReplacer("\t", " ", "\n", " ").Replace(err.Error()))
		return
	}
	o.kase("ANYPROG", []string{"imports"}, imports)
	var names []string
	for _, d := range decls {
		names = append(names, d.name)
	}
	o.kase("ANYPROG", []string{"decls"}, strings.Join(names, " "))
	translated := map[string]bool{}
	for _, d := range decls {
		if d.fd == nil {
			o.count("not_a_function")
			continue
		}
		sx := tr.function(d.fd)
		o.kase("ANYPROG", []string{d.name}, sx)
		if strings.HasPrefix(sx, "untranslatable:") {
			o.count("untranslatable")
			continue
		}
		translated[d.name] = true
		o.kase("@ANYPROGDEF", []string{d.name, sx}, "ok")
		o.kase("ANYPROG", []string{d.name, "eqb"}, "same")
		o.count("translated")
		o.nontrivial("decl/" + sx)
		for _, form := range []string{"(:=", "(=", "(set", "(if", "(return", "(call", "(marshal", "(find-message-by-url", "(find-descriptor-by-name",
			"(is-message-desc", "(new-message-type", "(typ-new", "(unmarshal-to", "(errorf", "(new-error", "(trim-prefix", "(full-name-of"} {
			o.hist["form_"+form[1:]] += strings.Count(sx, form+" ")
		}
	}
	if len(c.extra) > 0 && c.extra[0] == "translate-only" {
		return
	}

	// ---- differential runs: the interpreter on the TRANSLATED functions against the running code, on the cases of engine "any"
	// (the lines of a scratch run: what the code did is already in them, with the oracle answers the model needs)
	for _, t := range gfCapture(engineAny, c) {
		if len(t) < 4 || t[len(t)-2] != "=" {
			continue
		}
		args, obs := t[1:len(t)-2], t[len(t)-1]
		switch {
		case t[0] == "@ANY":
			o.kase("@ANY", args, obs)
		case t[0] == "ANY" && len(args) > 0:
			need := map[string][]string{"PACK": {"MarshalFrom"}, "NEW": {"New", "MarshalFrom"}, "UNPACK": {"Unpack"}}[args[0]]
			ok := need != nil
			for _, f := range need {
				ok = ok && translated[f]
			}
			if !ok {
				o.count("run_skipped_" + args[0])
				continue
			}
			o.kase("ANYPROGRUN", args, obs)
			cl := obs
			if i := strings.IndexByte(cl, ' '); i > 0 {
				cl = cl[:i]
			}
			o.count("run_" + args[0] + "_" + cl)
			k := strings.Join(args, " ")
			if len(k) > 60 {
				k = k[:60]
			}
			o.nontrivial("run/" + args[0] + "/" + cl + "/" + k)
		}
	}
}
