package main

// reflect engine, part 4 (C08): observations through RETAINED handles, and histories that alias.
//
// (1) The sweep. After every step of every C08 history that writes or hands out a handle, and once more when the
//     history is complete (a read must not change what an earlier handle shows), every handle produced so far — live or
//     dead for the generator: a list / map / message obtained from Get, Mutable, NewField, NewElement, NewValue,
//     AppendMutable, List.Get, Map.Get, `new` — is read again (IsValid, Len, every element / entry, every field
//     of a message) on the generated code, on dynamicpb and on the struct-based reflection. Where the two
//     references give the same reading the generated code must give it too. A handle on which the references
//     have disagreed once (a list view after its field was cleared: dynamicpb keeps the detached list, the
//     struct-based reflection reads the now empty field; a list passed to Set and then appended to through the
//     field: dynamicpb shares the list object, the struct-based reflection copied the slice header; ...) is
//     unspecified from then on and never compared again (counted unspecified_view_*).
//     The sweep adds no operation to the history: the HIST / HISTV / HISTREF lines the model is run on are the same.
//
// (2) Aliasing histories (class alias_*, implementation-side only: no line for the model, which does not model
//     sharing after Set of a composite). The liveness rules of the generator are dropped: a composite argument may be
//     any fitting handle (a live view of this or of ANOTHER top-level message: dst.Set(fd, src.Get(fd)); a handle that
//     was already stored once; a dead one), receivers may be dead handles, several top-level messages of the
//     root type live side by side (`new`), and two library calls are operations: `reset r` (proto.Reset) and
//     `merge dst src` (proto.Merge); their references: dynamicpb through the library calls themselves; the struct of S
//     is of the generated type, so its Reset method and its ProtoReflect are the code under test: `*x = T{}` through
//     package reflect (what protoc-gen-go's Reset is) and proto.Merge's algorithm re-written against protoreflect with
//     every nested message re-wrapped (mergeVia). Every step is compared as before (result, root state; a step on which the
//     references disagree ends the history, counted unspecified_*), and the sweep reads every handle, the other
//     top-level messages included. A Set / Append that makes a message reachable from itself ends the history (such a
//     value is not a message any more); a Merge between a message and its own descendant is skipped (it need not terminate).
//     What drops out as unspecified in practice (counted unspecified_<op> / unspecified_view_*): writes and reads through a
//     list / map view that Clear / Set / Reset detached from its field; Append / Truncate / Merge on a list after the list
//     was passed to Set (shared vs copied); Set of a read-only message into a oneof member / list / map.

import (
	"fmt"
	"os"
	"reflect"
	"strconv"

	"google.golang.org/protobuf/proto"
	"google.golang.org/protobuf/reflect/protoreflect"
)

// ---- (1) the sweep ---------------------------------------------------------------------------------------
func (s *rsession) viewOf(x *rimpl, k int) string {
	switch h := x.res[k].(type) {
	case protoreflect.Message:
		return s.render(x, &outv{k: 'M', m: h}, false)
	case protoreflect.List:
		return s.render(x, &outv{k: 'L', fd: s.hs[k].fd(), l: h}, false)
	case protoreflect.Map:
		return s.render(x, &outv{k: 'P', fd: s.hs[k].fd(), mp: h}, false)
	}
	return ""
}

func viewKind(k hkind) string {
	switch k {
	case hMsg:
		return "message"
	case hList:
		return "list"
	case hMap:
		return "map"
	}
	return "none"
}

// sweepViews reads every handle produced up to step idx on the three implementations. It returns false when
// the generated code differs from the common reading of the references (reported under pid).
func (s *rsession) sweepViews(idx int, pid string) bool {
	s.swept = true
	for len(s.viewDiv) < len(s.hs) {
		s.viewDiv = append(s.viewDiv, false)
	}
	for k := 1; k < len(s.hs) && k < len(s.D.res); k++ {
		h := &s.hs[k]
		if h.kind == hNone || s.viewDiv[k] || s.F.res[k] == nil || s.D.res[k] == nil || s.S.res[k] == nil {
			continue
		}
		d, sl := s.viewOf(s.D, k), s.viewOf(s.S, k)
		if d != sl {
			s.viewDiv[k] = true
			st := "dead"
			if h.live {
				st = "live"
			}
			s.o.count("unspecified_view_" + viewKind(h.kind) + "_" + st)
			if os.Getenv("REFLECT_DEBUG") != "" {
				fmt.Fprintf(os.Stderr, "UNSPEC-VIEW r%d %s\n   D=%s\n   S=%s\n", k, s.replay(idx), d, sl)
			}
			continue
		}
		f := s.viewOf(s.F, k)
		s.o.count("view_" + viewKind(h.kind))
		key := "reflect/" + s.si.id + "." + string(s.mi.md.Name()) + "/view-" + viewKind(h.kind)
		ok := f == d
		if !ok {
			from := "the initial value"
			if off := len(s.hs) - len(s.ops); k-off >= 0 {
				from = "result of " + s.ops[k-off]
			}
			s.o.withKey(key).prop(pid, false, fmt.Sprintf("%s; after step %d the %s r%d (%s) reads %s through the generated code ; through both references it reads %s",
				s.replay(idx), idx, viewKind(h.kind), k, from, f, d))
		} else {
			s.o.withKey(key).prop(pid, true, "")
		}
		if !ok {
			return false
		}
	}
	return true
}

// ---- (2) library calls as operations ------------------------------------------------------------------------
// mergeVia: proto.Merge's algorithm (protobuf-go proto/merge.go) written against protoreflect only, every nested
// message re-wrapped into the struct-based reflection (the library's own entry points would go through the
// generated ProtoReflect / ProtoMethods of the struct behind S, i.e. the code under test)
func mergeVia(dst, src protoreflect.Message) {
	if !dst.IsValid() {
		panic("cannot merge into invalid destination message")
	}
	cloneBytes := func(v protoreflect.Value) protoreflect.Value {
		return protoreflect.ValueOfBytes(append([]byte{}, v.Bytes()...))
	}
	src.Range(func(fd protoreflect.FieldDescriptor, v protoreflect.Value) bool {
		switch {
		case fd.IsList():
			dl, sl := dst.Mutable(fd).List(), v.List()
			for i, n := 0, sl.Len(); i < n; i++ {
				switch e := sl.Get(i); {
				case fd.Message() != nil:
					dv := dl.NewElement()
					mergeVia(slowOf(dv.Message()), slowOf(e.Message()))
					dl.Append(dv)
				case fd.Kind() == protoreflect.BytesKind:
					dl.Append(cloneBytes(e))
				default:
					dl.Append(e)
				}
			}
		case fd.IsMap():
			dm, vfd := dst.Mutable(fd).Map(), fd.MapValue()
			v.Map().Range(func(k protoreflect.MapKey, e protoreflect.Value) bool {
				switch {
				case vfd.Message() != nil:
					dv := dm.NewValue()
					mergeVia(slowOf(dv.Message()), slowOf(e.Message()))
					dm.Set(k, dv)
				case vfd.Kind() == protoreflect.BytesKind:
					dm.Set(k, cloneBytes(e))
				default:
					dm.Set(k, e)
				}
				return true
			})
		case fd.Message() != nil:
			mergeVia(slowOf(dst.Mutable(fd).Message()), slowOf(v.Message()))
		case fd.Kind() == protoreflect.BytesKind:
			dst.Set(fd, cloneBytes(v))
		default:
			dst.Set(fd, v)
		}
		return true
	})
	if len(src.GetUnknown()) > 0 {
		dst.SetUnknown(append(dst.GetUnknown(), src.GetUnknown()...))
	}
}

func (s *rsession) applyLib(x *rimpl, op *rop) *outv {
	m := x.res[op.r].(protoreflect.Message)
	switch op.code {
	case "reset":
		if x == s.S {
			// the struct behind S is of the generated type: its Reset method is the code under test. The reference
			// (protoc-gen-go) Reset is `*x = T{}`: done here through package reflect.
			rv := reflect.ValueOf(m.Interface()).Elem()
			rv.Set(reflect.Zero(rv.Type()))
		} else {
			proto.Reset(m.Interface())
		}
	case "merge":
		src := x.res[op.a].(protoreflect.Message)
		if x == s.S {
			if m.Descriptor() != src.Descriptor() {
				panic("descriptor mismatch")
			}
			mergeVia(m, src)
		} else {
			proto.Merge(m.Interface(), src.Interface())
		}
	}
	return outUnit
}

// ---- (2) cycles ----------------------------------------------------------------------------------------------
// walkMsgs visits the messages reachable from handle h of implementation x; it returns true when a message is
// reachable from itself.
func (s *rsession) walkMsgs(x *rimpl, h interface{}, onPath, done map[interface{}]bool) bool {
	var walk func(m protoreflect.Message) bool
	elems := func(fd protoreflect.FieldDescriptor, v protoreflect.Value) bool {
		switch {
		case fd.IsList():
			if fd.Message() == nil {
				return false
			}
			for l, i := v.List(), 0; i < l.Len(); i++ {
				if walk(x.wrap(l.Get(i).Message())) {
					return true
				}
			}
		case fd.IsMap():
			if fd.MapValue().Message() == nil {
				return false
			}
			cyc := false
			v.Map().Range(func(_ protoreflect.MapKey, e protoreflect.Value) bool {
				cyc = walk(x.wrap(e.Message()))
				return !cyc
			})
			return cyc
		case fd.Message() != nil:
			return walk(x.wrap(v.Message()))
		}
		return false
	}
	walk = func(m protoreflect.Message) bool {
		if !m.IsValid() {
			return false
		}
		id := interface{}(m.Interface())
		if onPath[id] {
			return true
		}
		if done[id] {
			return false
		}
		onPath[id] = true
		cyc := false
		m.Range(func(fd protoreflect.FieldDescriptor, v protoreflect.Value) bool {
			cyc = elems(fd, v)
			return !cyc
		})
		delete(onPath, id)
		done[id] = true
		return cyc
	}
	switch v := h.(type) {
	case protoreflect.Message:
		return walk(v)
	case protoreflect.List:
		return false // the elements are reached through the owning message or are handles themselves
	}
	return false
}

func (s *rsession) anyCycle() (cyc bool) {
	defer func() {
		if e := recover(); e != nil {
			cyc = true
		}
	}()
	for _, x := range s.impls {
		onPath, done := map[interface{}]bool{}, map[interface{}]bool{}
		for k, h := range x.res {
			if k < len(s.hs) && s.hs[k].kind == hMsg && h != nil {
				if s.walkMsgs(x, h, onPath, done) {
					return true
				}
			}
		}
	}
	return false
}

// mergeUnsafe: proto.Merge of a message into one of its own descendants (or ancestors) need not terminate
func (s *rsession) mergeUnsafe(op *rop) (bad bool) {
	defer func() {
		if e := recover(); e != nil {
			bad = true
		}
	}()
	for _, x := range s.impls {
		dst, ok1 := x.res[op.r].(protoreflect.Message)
		src, ok2 := x.res[op.a].(protoreflect.Message)
		if !ok1 || !ok2 {
			return true
		}
		if !dst.IsValid() || !src.IsValid() {
			continue
		}
		for _, p := range [][2]protoreflect.Message{{dst, src}, {src, dst}} {
			done := map[interface{}]bool{}
			s.walkMsgs(x, p[0], map[interface{}]bool{}, done)
			if done[interface{}(p[1].Interface())] {
				return true
			}
		}
	}
	return false
}

// ---- (2) the generator -------------------------------------------------------------------------------------
// handles of a given kind (and type) that exist on every implementation, dead ones included
func (g *rgen) anyHandle(s *rsession, want func(h *hinfo) bool) int {
	var c []int
	for k := range s.hs {
		h := &s.hs[k]
		if h.kind != hNone && s.D.res[k] != nil && want(h) {
			c = append(c, k)
		}
	}
	if len(c) == 0 {
		return -1
	}
	// the recent ones more often
	if n := len(c); n > 3 && g.r.intn(2) == 0 {
		return c[n-1-g.r.intn(3)]
	}
	return c[g.r.intn(len(c))]
}

func (g *rgen) aliasRecv(s *rsession) int {
	k := g.anyHandle(s, func(h *hinfo) bool { return h.kind != hMsg || h.mi.pulsar })
	if k < 0 || g.r.intn(4) == 0 {
		return 0
	}
	return k
}

// one aliasing step; false: the history ended
func (g *rgen) aliasOp(s *rsession, budget *int) bool {
	r := g.r
	k := g.aliasRecv(s)
	h := s.hs[k]
	sameMsg := func(mi *msgInfo) func(*hinfo) bool {
		return func(x *hinfo) bool { return x.kind == hMsg && x.mi == mi }
	}
	sameField := func(kind hkind, mi *msgInfo, f int) func(*hinfo) bool {
		return func(x *hinfo) bool { return x.kind == kind && x.mi == mi && x.fidx == f }
	}
	if r.intn(3) != 0 {
		return g.randomOpOn(s, k, budget, r.intn(3) == 0)
	}
	switch h.kind {
	case hMsg:
		switch c := r.intn(10); {
		case c == 0:
			return s.do(&rop{code: "new", r: h.mi.idx, a: -1})
		case c == 1 && h.valid:
			return s.do(&rop{code: "reset", r: k, a: -1})
		case c == 2 && h.valid:
			if a := g.anyHandle(s, sameMsg(h.mi)); a >= 0 && a != k {
				return s.do(&rop{code: "merge", r: k, a: a})
			}
			return true
		}
		// Set of a composite field with some existing handle of the fitting type
		var comp []int
		for f, fi := range h.mi.fields {
			if fi.fd.IsList() || fi.fd.IsMap() || isMsgKind(fi.fd) {
				comp = append(comp, f)
			}
		}
		if len(comp) == 0 {
			return true
		}
		f := comp[r.intn(len(comp))]
		fd := h.mi.fields[f].fd
		a := -1
		switch {
		case fd.IsList():
			a = g.anyHandle(s, sameField(hList, h.mi, f))
		case fd.IsMap():
			a = g.anyHandle(s, sameField(hMap, h.mi, f))
		default:
			a = g.anyHandle(s, sameMsg(s.si.byName[fd.Message().FullName()]))
		}
		if a < 0 {
			return s.do(&rop{code: []string{"get", "mut", "newf"}[r.intn(3)], r: k, f: f, a: -1})
		}
		return s.do(&rop{code: "set", r: k, f: f, a: a})
	case hList:
		if !isMsgKind(h.fd()) {
			return g.randomOpOn(s, k, budget, true)
		}
		a := g.anyHandle(s, sameMsg(s.si.byName[h.fd().Message().FullName()]))
		if a < 0 {
			return s.do(&rop{code: "lappm", r: k, a: -1})
		}
		if n := s.D.res[k].(protoreflect.List).Len(); n > 0 && r.bool() {
			return s.do(&rop{code: "lset", r: k, n: int64(r.intn(n)), a: a})
		}
		return s.do(&rop{code: "lapp", r: k, a: a})
	case hMap:
		if !isMsgKind(h.fd().MapValue()) {
			return g.randomOpOn(s, k, budget, true)
		}
		key := g.mapKey(s, k)
		a := g.anyHandle(s, sameMsg(s.si.byName[h.fd().MapValue().Message().FullName()]))
		if a < 0 {
			return s.do(&rop{code: "mmut", r: k, key: key, a: -1})
		}
		return s.do(&rop{code: "mset", r: k, key: key, a: a})
	}
	return true
}

func newAliasSession(o *out, si *schemaInfo, mi *msgInfo, class string) *rsession {
	s := &rsession{o: o, si: si, mi: mi, class: class, F: newImplF(), D: newImplD(), S: newImplS(), noModel: true}
	s.impls = []*rimpl{s.F, s.D, s.S}
	s.do(&rop{code: "new", r: mi.idx, a: -1})
	return s
}

func (g *rgen) aliasRandom(o *out, si *schemaInfo, mi *msgInfo, maxLen int) {
	s := newAliasSession(o, si, mi, "alias_random")
	budget := 1 + g.r.intn(maxLen)
	for budget > 0 && !s.stopped {
		budget--
		if !g.aliasOp(s, &budget) {
			break
		}
	}
	s.finish()
}

// scripted aliasing per composite field: every way a handle can come to share memory with a field, then the
// field is cleared / re-set / the message reset / merged, and (by the sweep) every handle is read again.
func (g *rgen) aliasScripts(o *out, si *schemaInfo, mi *msgInfo, all bool) {
	run := func(class string, body func(c *script)) {
		s := newAliasSession(o, si, mi, class)
		c := &script{s: s, g: g}
		func() {
			defer func() {
				if e := recover(); e != nil && e != errStop {
					panic(e)
				}
			}()
			body(c)
		}()
		s.finish()
	}
	newRoot := func(c *script) int { return c.must(c.op(&rop{code: "new", r: mi.idx, a: -1})) }
	// the small all-shapes messages: every composite field, both directions of the two-message histories; elsewhere one
	// field per (shape, element type class) once the message has more than 6 composite fields, one direction at random
	seenClass := map[string]bool{}
	nComp := 0
	for _, fi := range mi.fields {
		if fi.fd.IsList() || fi.fd.IsMap() || isMsgKind(fi.fd) {
			nComp++
		}
	}
	for f, fi := range mi.fields {
		f, fi := f, fi
		fd := fi.fd
		if !(fd.IsList() || fd.IsMap() || isMsgKind(fd)) {
			continue
		}
		if !all && nComp > 6 {
			if seenClass[classOf(fi)] {
				continue
			}
			seenClass[classOf(fi)] = true
		}
		// put something into container / message handle v
		fill := func(c *script, v int, i int) {
			switch {
			case fd.IsMap():
				key := g.lit(fd.MapKey(), 1+i)
				if isMsgKind(fd.MapValue()) {
					c.touch(c.mkey("mmut", v, key))
				} else {
					c.msetL(v, key, g.lit(fd.MapValue(), 1+i))
				}
			case fd.IsList():
				if isMsgKind(fd) {
					c.touch(c.simple("lappm", v))
				} else {
					c.lappL(v, g.lit(fd, 1+i))
				}
			default:
				if hm := c.s.hs[v].mi; hm.pulsar {
					if x := firstScalar(hm); x >= 0 {
						c.setL(v, x, g.lit(hm.fields[x].fd, 1+i))
					}
				}
			}
		}
		// the ways a handle comes to share with field f of message m: returns the handle
		type origin struct {
			name string
			get  func(c *script, m int) int
		}
		origins := []origin{
			{"newfield_set", func(c *script, m int) int {
				v := c.newf(m, f)
				fill(c, v, 0)
				c.setH(m, f, v)
				return v
			}},
			{"mutable", func(c *script, m int) int {
				v := c.mut(m, f)
				fill(c, v, 0)
				return v
			}},
			{"get", func(c *script, m int) int {
				fill(c, c.mut(m, f), 0)
				return c.get(m, f)
			}},
		}
		// what then happens to the field
		type after struct {
			name string
			do   func(c *script, m int)
		}
		afters := []after{
			{"clear", func(c *script, m int) { c.clear(m, f) }},
			{"clear_mutable_fill", func(c *script, m int) {
				c.clear(m, f)
				fill(c, c.mut(m, f), 1)
			}},
			{"set_fresh", func(c *script, m int) {
				v := c.newf(m, f)
				fill(c, v, 1)
				c.setH(m, f, v)
			}},
			{"reset", func(c *script, m int) { c.must(c.op(&rop{code: "reset", r: m, a: -1})) }},
			{"merge_into", func(c *script, m int) {
				src := newRoot(c)
				fill(c, c.mut(src, f), 2)
				c.must(c.op(&rop{code: "merge", r: m, a: src}))
			}},
		}
		for _, af := range afters {
			two := g.r.intn(len(origins)) // elsewhere: the two-message history for one origin per `after`
			for oi, og := range origins {
				og, af := og, af
				// one message
				run("alias_"+og.name+"_"+af.name, func(c *script) {
					og.get(c, 0)
					af.do(c, 0)
					c.has(0, f)
					c.get(0, f)
				})
				// two messages: the handle obtained from src is stored into dst, then src changes (and the other way round)
				dirs := []bool{true, false}
				if !all {
					if oi != two {
						continue
					}
					dirs = []bool{g.r.bool()}
				}
				for _, srcChanges := range dirs {
					srcChanges := srcChanges
					run("alias2_"+og.name+"_"+af.name, func(c *script) {
						dst := newRoot(c)
						v := og.get(c, 0)
						c.setH(dst, f, v)
						c.has(dst, f)
						if srcChanges {
							af.do(c, 0)
						} else {
							af.do(c, dst)
						}
						c.has(dst, f)
						c.get(dst, f)
						c.get(0, f)
					})
				}
			}
		}
		// merge from a message, then the source changes: the destination must not share with the source
		run("alias_merge_then_source_changes", func(c *script) {
			src := newRoot(c)
			v := c.mut(src, f)
			fill(c, v, 0)
			c.must(c.op(&rop{code: "merge", r: 0, a: src}))
			fill(c, v, 1)
			c.clear(src, f)
			c.get(0, f)
			c.rng(0)
		})
	}
	_ = strconv.Itoa
}
