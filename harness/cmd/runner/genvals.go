package main

import (
	"bytes"
	"fmt"
	"math"
	"strings"

	"google.golang.org/protobuf/encoding/protowire"
	"google.golang.org/protobuf/reflect/protoreflect"
)

// value generator: boundary-heavy, structured, every choice from the PRNG
type vgen struct {
	r        *rng
	si       *schemaInfo
	badUTF8  bool // allow invalid UTF-8 in strings of pulsar messages
	nilElems bool // allow nil list elements / map values / oneof payloads
	big      bool // allow the rare 16k strings
	unkDeep  bool // attach unknown records to nested messages too (field-less ones included)
}

var i64b = []int64{0, 1, -1, 2, 127, 128, -128, -129, 16383, 16384, 1<<21 - 1, 1 << 21, 1<<28 - 1, 1 << 28, math.MaxInt32, math.MinInt32, 1 << 31, 1<<35 - 1, 1 << 35, 1 << 42, 1 << 49, 1<<56 - 1, 1 << 56, 1 << 62, math.MaxInt64, math.MinInt64, math.MinInt64 + 1, -(1 << 31) - 1}
var i32b = []int64{0, 1, -1, 2, 63, 64, -64, -65, 127, 128, -128, 8191, 8192, 16383, 16384, 1<<21 - 1, 1 << 21, 1<<28 - 1, 1 << 28, math.MaxInt32, math.MaxInt32 - 1, math.MinInt32, math.MinInt32 + 1}
var u64b = []uint64{0, 1, 2, 127, 128, 16383, 16384, 1<<21 - 1, 1 << 21, 1<<28 - 1, 1 << 28, math.MaxUint32, 1 << 32, 1<<35 - 1, 1 << 35, 1 << 42, 1 << 49, 1<<56 - 1, 1 << 56, 1<<63 - 1, 1 << 63, math.MaxUint64, math.MaxUint64 - 1}
var u32b = []uint64{0, 1, 2, 127, 128, 16383, 16384, 1<<21 - 1, 1 << 21, 1<<28 - 1, 1 << 28, math.MaxUint32, math.MaxUint32 - 1, 1 << 31}
var f32b = []uint64{0, 0x80000000, 0x3f800000, 0xbf800000, 0x7f800000, 0xff800000, 0x7fc00000, 0xffc00000, 0x7fa00000, 0x7f800001, 0xffffffff, 1, 0x00800000, 0x7f7fffff}
var f64b = []uint64{0, 0x8000000000000000, 0x3ff0000000000000, 0xbff0000000000000, 0x7ff0000000000000, 0xfff0000000000000, 0x7ff8000000000000, 0xfff8000000000000, 0x7ff4000000000000, 0x7ff0000000000001, 0xffffffffffffffff, 1, 0x0010000000000000, 0x7fefffffffffffff}
var strb = []string{"", "a", "ab", "\x00", "héllo", "日本語", "\U0001F600", " ", "key", strings.Repeat("x", 126), strings.Repeat("y", 127), strings.Repeat("z", 128), strings.Repeat("é", 64)}
var badStr = []string{"\xff", "a\xc0\xafb", "\xed\xa0\x80", "\xf8\x88\x80\x80\x80", "ok\x80"}

func (g *vgen) boundaryCount(fd protoreflect.FieldDescriptor) int {
	switch fd.Kind() {
	case protoreflect.BoolKind:
		return 2
	case protoreflect.Int32Kind, protoreflect.Sint32Kind, protoreflect.Sfixed32Kind:
		return len(i32b)
	case protoreflect.Int64Kind, protoreflect.Sint64Kind, protoreflect.Sfixed64Kind:
		return len(i64b)
	case protoreflect.Uint32Kind, protoreflect.Fixed32Kind:
		return len(u32b)
	case protoreflect.Uint64Kind, protoreflect.Fixed64Kind:
		return len(u64b)
	case protoreflect.FloatKind:
		return len(f32b)
	case protoreflect.DoubleKind:
		return len(f64b)
	case protoreflect.StringKind:
		return len(strb)
	case protoreflect.BytesKind:
		return len(strb) + 1
	case protoreflect.EnumKind:
		return 7
	}
	return 1
}

// boundary value number i (i beyond the table: random)
func (g *vgen) scalarAt(fd protoreflect.FieldDescriptor, i int) *V {
	r := g.r
	pick64 := func(tab []int64) int64 {
		if i >= 0 && i < len(tab) {
			return tab[i]
		}
		return int64(r.u64()) >> uint(r.intn(64))
	}
	pickU := func(tab []uint64, bits uint) uint64 {
		if i >= 0 && i < len(tab) {
			return tab[i]
		}
		return (r.u64() >> (64 - bits)) >> uint(r.intn(int(bits)))
	}
	switch fd.Kind() {
	case protoreflect.BoolKind:
		if i >= 0 && i < 2 {
			return vBool(i == 1)
		}
		return vBool(r.bool())
	case protoreflect.Int32Kind, protoreflect.Sint32Kind, protoreflect.Sfixed32Kind:
		return vInt(int64(int32(pick64(i32b))))
	case protoreflect.Int64Kind, protoreflect.Sint64Kind, protoreflect.Sfixed64Kind:
		return vInt(pick64(i64b))
	case protoreflect.Uint32Kind, protoreflect.Fixed32Kind:
		return vUint(pickU(u32b, 32))
	case protoreflect.Uint64Kind, protoreflect.Fixed64Kind:
		return vUint(pickU(u64b, 64))
	case protoreflect.FloatKind:
		if i >= 0 && i < len(f32b) {
			return vBits(f32b[i])
		}
		return vBits(r.u64() & 0xffffffff)
	case protoreflect.DoubleKind:
		if i >= 0 && i < len(f64b) {
			return vBits(f64b[i])
		}
		return vBits(r.u64())
	case protoreflect.EnumKind:
		tab := []int64{0, 1, -1, 5, math.MaxInt32, math.MinInt32, 1000}
		if i >= 0 && i < len(tab) {
			return vInt(tab[i])
		}
		return vInt(int64(int32(r.u64())) >> uint(r.intn(32)))
	case protoreflect.StringKind:
		if g.badUTF8 && r.intn(6) == 0 {
			return vBytes([]byte(badStr[r.intn(len(badStr))]))
		}
		if i >= 0 && i < len(strb) {
			return vBytes([]byte(strb[i]))
		}
		if g.big && r.intn(40) == 0 {
			return vBytes([]byte(strings.Repeat("q", 16383+r.intn(2))))
		}
		return vBytes([]byte(strb[r.intn(len(strb))]))
	case protoreflect.BytesKind:
		if i == len(strb) {
			return vNil
		}
		if i >= 0 && i < len(strb) {
			return vBytes([]byte(strb[i]))
		}
		n := r.intn(1 + r.intn(40))
		b := make([]byte, n)
		for j := range b {
			b[j] = byte(r.u64())
		}
		if n == 0 && r.bool() {
			return vNil
		}
		return vBytes(b)
	}
	panic("kind")
}

func (g *vgen) scalar(fd protoreflect.FieldDescriptor) *V {
	n := g.boundaryCount(fd)
	if g.r.intn(4) == 0 {
		return g.scalarAt(fd, -1)
	}
	return g.scalarAt(fd, g.r.intn(n))
}

func (g *vgen) key(fd protoreflect.FieldDescriptor) *V { return g.scalar(fd) }

func (g *vgen) elem(fd protoreflect.FieldDescriptor, depth int) *V {
	if fd.Kind() == protoreflect.MessageKind {
		if g.nilElems && g.r.intn(8) == 0 {
			return vNil
		}
		return g.msg(g.si.byName[fd.Message().FullName()], depth-1, 3)
	}
	v := g.scalar(fd)
	if v.K == 'n' && fd.Kind() == protoreflect.BytesKind && g.r.bool() {
		return vBytes(nil)
	}
	return v
}

// msg generates a message; density = out of 10, chance that a field is populated
func (g *vgen) msg(mi *msgInfo, depth int, density int) *V {
	sub := *g
	if !mi.pulsar {
		sub.badUTF8 = false // protobuf-go types refuse invalid UTF-8: kept out of this stream
	}
	gg := &sub
	out := g.si.emptyV(mi)
	chosen := map[int]int{} // oneof -> field index chosen
	for i, fi := range mi.fields {
		if fi.oneofIdx >= 0 {
			if _, ok := chosen[fi.oneofIdx]; !ok {
				chosen[fi.oneofIdx] = -1
				if g.r.intn(10) < density+2 {
					// choose among the members
					var members []int
					for j, fj := range mi.fields {
						if fj.oneofIdx == fi.oneofIdx {
							members = append(members, j)
						}
					}
					chosen[fi.oneofIdx] = members[g.r.intn(len(members))]
				}
			}
			if chosen[fi.oneofIdx] == i {
				if fi.fd.Kind() == protoreflect.MessageKind && depth <= 0 {
					if g.nilElems {
						out.L[i] = &V{K: 's', P: vNil}
					} else {
						out.L[i] = &V{K: 's', P: g.si.emptyV(g.si.byName[fi.fd.Message().FullName()])}
					}
				} else {
					out.L[i] = &V{K: 's', P: gg.elem(fi.fd, depth)}
				}
			}
			continue
		}
		if g.r.intn(10) >= density && fi.fd.Cardinality() != protoreflect.Required {
			continue
		}
		out.L[i] = gg.field(fi, depth)
	}
	if g.unkDeep && mi.pulsar && (g.r.intn(3) == 0 || len(mi.fields) == 0) {
		for j := g.r.intn(2); j >= 0; j-- {
			out.Unk = append(out.Unk, genUnknownFor(g.r, mi)...)
		}
	}
	return out
}

func (g *vgen) field(fi fieldInfo, depth int) *V {
	fd := fi.fd
	r := g.r
	switch {
	case fd.IsMap():
		if r.intn(6) == 0 {
			return &V{K: 'p'} // empty non-nil map
		}
		mv := &V{K: 'p'}
		n := 1 + r.intn(1+r.intn(6))
		if fd.MapValue().Kind() == protoreflect.MessageKind && depth <= 0 {
			n = 1
		}
		seen := map[string]bool{}
		for j := 0; j < n; j++ {
			k := g.key(fd.MapKey())
			if seen[k.String()] {
				continue
			}
			seen[k.String()] = true
			var v *V
			if fd.MapValue().Kind() == protoreflect.MessageKind && depth <= 0 {
				v = g.si.emptyV(g.si.byName[fd.MapValue().Message().FullName()])
			} else {
				v = g.elem(fd.MapValue(), depth)
			}
			mv.L = append(mv.L, k, v)
		}
		sortMap(mv)
		return mv
	case fd.IsList():
		if r.intn(8) == 0 {
			return &V{K: 'l'} // empty non-nil slice
		}
		lv := &V{K: 'l'}
		n := 1 + r.intn(1+r.intn(5))
		if fd.Kind() == protoreflect.MessageKind && depth <= 0 {
			n = 1
		}
		for j := 0; j < n; j++ {
			if fd.Kind() == protoreflect.MessageKind && depth <= 0 {
				lv.L = append(lv.L, g.si.emptyV(g.si.byName[fd.Message().FullName()]))
			} else {
				lv.L = append(lv.L, g.elem(fd, depth))
			}
		}
		return lv
	case fd.Kind() == protoreflect.MessageKind:
		if depth <= 0 {
			return vNil
		}
		return g.msg(g.si.byName[fd.Message().FullName()], depth-1, 3)
	default:
		if presScalar(fd) {
			// explicit presence (proto2 types below a generated message): unset is a value of its own; a required field is
			// left unset less often, so that initialised and uninitialised messages both occur at every size
			if (fd.Cardinality() == protoreflect.Required && r.intn(6) == 0) || (fd.Cardinality() != protoreflect.Required && r.intn(3) == 0) {
				return vNil
			}
			if v := g.scalar(fd); v.K != 'n' {
				return v
			}
			return vBytes(nil) // bytes: set to empty
		}
		return g.scalar(fd)
	}
}

// maxMapLen returns the largest map (at any depth) in a value: with <= 1 the non-deterministic
// encoding is unique
func maxMapLen(v *V) int {
	m := 0
	if v == nil {
		return 0
	}
	if v.K == 'p' {
		m = len(v.L) / 2
	}
	for _, e := range v.L {
		if k := maxMapLen(e); k > m {
			m = k
		}
	}
	if v.P != nil {
		if k := maxMapLen(v.P); k > m {
			m = k
		}
	}
	return m
}

// ---- width-boundary values: deterministic builders (no PRNG), used by the codec engine's sweep -------------
// Every length prefix on the wire (packed run, string/bytes payload, nested message, map entry) is a varint whose own
// width changes at 128 and 16384 payload bytes. The builders below produce values whose payloads sit exactly on, one
// below and one above those boundaries, for every element width a kind can have.

// scalarWireLen: payload bytes of one scalar on the wire (varint / fixed width; string and bytes: the raw length)
func scalarWireLen(fd protoreflect.FieldDescriptor, v *V) int {
	switch fd.Kind() {
	case protoreflect.BoolKind:
		return 1
	case protoreflect.Int32Kind, protoreflect.Int64Kind, protoreflect.EnumKind:
		return protowire.SizeVarint(uint64(v.I))
	case protoreflect.Uint32Kind, protoreflect.Uint64Kind:
		return protowire.SizeVarint(v.U)
	case protoreflect.Sint32Kind, protoreflect.Sint64Kind:
		return protowire.SizeVarint(protowire.EncodeZigZag(v.I))
	case protoreflect.Fixed32Kind, protoreflect.Sfixed32Kind, protoreflect.FloatKind:
		return 4
	case protoreflect.Fixed64Kind, protoreflect.Sfixed64Kind, protoreflect.DoubleKind:
		return 8
	case protoreflect.StringKind, protoreflect.BytesKind:
		return len(v.B)
	}
	panic("kind")
}

// fixedWidth: 4 or 8 for the fixed-width kinds, 0 otherwise
func fixedWidth(fd protoreflect.FieldDescriptor) int {
	switch fd.Kind() {
	case protoreflect.Fixed32Kind, protoreflect.Sfixed32Kind, protoreflect.FloatKind:
		return 4
	case protoreflect.Fixed64Kind, protoreflect.Sfixed64Kind, protoreflect.DoubleKind:
		return 8
	}
	return 0
}

// elemWidths: the element widths a packed run of this kind can be made of, narrowest first
func elemWidths(fd protoreflect.FieldDescriptor) []int {
	switch fd.Kind() {
	case protoreflect.BoolKind:
		return []int{1}
	case protoreflect.Int32Kind, protoreflect.Int64Kind, protoreflect.EnumKind, protoreflect.Uint64Kind, protoreflect.Sint64Kind:
		return []int{1, 2, 3, 10}
	case protoreflect.Uint32Kind, protoreflect.Sint32Kind:
		return []int{1, 2, 3, 5}
	}
	if w := fixedWidth(fd); w > 0 {
		return []int{w}
	}
	return nil
}

// elemOfWidth: the j-th element of the given wire width (different j: different values, zero and the extremes included)
func elemOfWidth(fd protoreflect.FieldDescriptor, w, j int) *V {
	switch fd.Kind() {
	case protoreflect.BoolKind:
		return vBool(j%2 == 0)
	case protoreflect.Int32Kind, protoreflect.Int64Kind, protoreflect.EnumKind:
		switch w {
		case 1:
			return vInt([]int64{1, 0, 127, 2, 64}[j%5])
		case 2:
			return vInt([]int64{128, 16383, 300, 8192}[j%4])
		case 3:
			return vInt([]int64{16384, 1<<21 - 1, 70000}[j%3])
		case 10:
			if fd.Kind() == protoreflect.Int64Kind {
				return vInt([]int64{-1, math.MinInt64, -128, math.MinInt32}[j%4])
			}
			return vInt([]int64{-1, math.MinInt32, -128, -2}[j%4])
		}
	case protoreflect.Uint32Kind, protoreflect.Uint64Kind:
		switch w {
		case 1:
			return vUint([]uint64{1, 0, 127, 2, 64}[j%5])
		case 2:
			return vUint([]uint64{128, 16383, 300, 8192}[j%4])
		case 3:
			return vUint([]uint64{16384, 1<<21 - 1, 70000}[j%3])
		case 5:
			return vUint([]uint64{math.MaxUint32, 1 << 28, 1 << 31}[j%3])
		case 10:
			return vUint([]uint64{math.MaxUint64, 1 << 63, math.MaxUint64 - 1}[j%3])
		}
	case protoreflect.Sint32Kind, protoreflect.Sint64Kind:
		switch w {
		case 1:
			return vInt([]int64{1, 0, -1, 63, -64}[j%5])
		case 2:
			return vInt([]int64{64, -65, 8191, -8192}[j%4])
		case 3:
			return vInt([]int64{8192, -8193, 1<<20 - 1, -(1 << 20)}[j%4])
		case 5:
			return vInt([]int64{math.MinInt32, math.MaxInt32, 1 << 27, -(1 << 27) - 1}[j%4])
		case 10:
			return vInt([]int64{math.MinInt64, math.MaxInt64, 1 << 62, -(1 << 62) - 1}[j%4])
		}
	case protoreflect.Fixed32Kind:
		return vUint(u32b[j%len(u32b)])
	case protoreflect.Fixed64Kind:
		return vUint(u64b[j%len(u64b)])
	case protoreflect.Sfixed32Kind:
		return vInt(i32b[j%len(i32b)])
	case protoreflect.Sfixed64Kind:
		return vInt(i64b[j%len(i64b)])
	case protoreflect.FloatKind:
		return vBits(f32b[j%len(f32b)])
	case protoreflect.DoubleKind:
		return vBits(f64b[j%len(f64b)])
	}
	panic(fmt.Sprintf("no %d-byte element of kind %s", w, fd.Kind()))
}

// listOfCount: n elements of width w
func listOfCount(fd protoreflect.FieldDescriptor, w, n int) *V {
	lv := &V{K: 'l', L: make([]*V, 0, n)}
	for j := 0; j < n; j++ {
		lv.L = append(lv.L, elemOfWidth(fd, w, j))
	}
	return lv
}

// listOfPayload: a list whose packed payload is exactly total bytes: as many w-byte elements as fit, the rest 1-byte
// elements (nil when the kind cannot hit the length: fixed kinds and total not a multiple of the width)
func listOfPayload(fd protoreflect.FieldDescriptor, w, total int) *V {
	ws := elemWidths(fd)
	if len(ws) == 0 || total <= 0 {
		return nil
	}
	k, rem := total/w, total%w
	if rem != 0 && ws[0] != 1 {
		return nil
	}
	lv := &V{K: 'l', L: make([]*V, 0, k+rem)}
	for j, fill := 0, 0; j < k || fill < rem; j++ {
		// the 1-byte fillers are spread between the wide elements
		if j < k {
			lv.L = append(lv.L, elemOfWidth(fd, w, j))
		}
		if fill < rem {
			lv.L = append(lv.L, elemOfWidth(fd, 1, fill))
			fill++
		}
	}
	return lv
}

func padBytes(fd protoreflect.FieldDescriptor, n int) *V {
	if fd.Kind() == protoreflect.StringKind {
		return vBytes(bytes.Repeat([]byte("w"), n))
	}
	b := make([]byte, n)
	for i := range b {
		b[i] = byte(i * 7)
	}
	return vBytes(b)
}

// payloadFor: the payload length L with tagSize + SizeVarint(L) + L == target (-1: no such L)
func payloadFor(target, tagSize int) int {
	for lp := 1; lp <= 4; lp++ {
		if L := target - tagSize - lp; L >= 0 && protowire.SizeVarint(uint64(L)) == lp {
			return L
		}
	}
	return -1
}

// msgOfSize: a value of type cmi whose encoding is exactly target bytes long: one singular string/bytes field padded to
// fit, or (types generated by this repository without such a field) one unknown length-delimited record. nil: not possible.
func (g *vgen) msgOfSize(cmi *msgInfo, target int) *V {
	out := g.si.emptyV(cmi)
	if target == 0 {
		return out
	}
	for i, fi := range cmi.fields {
		fd := fi.fd
		if fd.IsList() || fd.IsMap() || fi.oneofIdx >= 0 || fd.HasPresence() || (fd.Kind() != protoreflect.StringKind && fd.Kind() != protoreflect.BytesKind) {
			continue
		}
		if L := payloadFor(target, protowire.SizeTag(fd.Number())); L > 0 {
			out.L[i] = padBytes(fd, L)
			return out
		}
	}
	if !cmi.pulsar {
		return nil
	}
	num := protowire.Number(1)
	for cmi.md.Fields().ByNumber(num) != nil || cmi.md.ReservedRanges().Has(num) {
		num++
	}
	L := payloadFor(target, protowire.SizeTag(num))
	if L < 0 {
		return nil
	}
	out.Unk = protowire.AppendBytes(protowire.AppendTag(nil, num, protowire.BytesType), bytes.Repeat([]byte{0xA5}, L))
	return out
}

// smallKey: the j-th of up to 1000 distinct small map keys (signed kinds: negative ones included, which take ten bytes
// and sort before the positive ones)
func smallKey(fd protoreflect.FieldDescriptor, j int) *V {
	n := (j * 37) % 1000
	switch fd.Kind() {
	case protoreflect.BoolKind:
		return vBool(j%2 == 1)
	case protoreflect.StringKind:
		return vBytes([]byte(fmt.Sprintf("k%03d", n)))
	case protoreflect.Uint32Kind, protoreflect.Uint64Kind, protoreflect.Fixed32Kind, protoreflect.Fixed64Kind:
		return vUint(uint64(n))
	}
	return vInt(int64(n - 300))
}

// smallValue: an unremarkable value for a map entry / list element of any kind (message kinds: the empty message)
func (g *vgen) smallValue(fd protoreflect.FieldDescriptor, j int) *V {
	switch fd.Kind() {
	case protoreflect.MessageKind:
		return g.si.emptyV(g.si.byName[fd.Message().FullName()])
	case protoreflect.StringKind, protoreflect.BytesKind:
		return vBytes([]byte(fmt.Sprintf("v%d", j%10)))
	case protoreflect.BoolKind:
		return vBool(j%2 == 0)
	case protoreflect.EnumKind:
		return vInt(int64(j % 3))
	}
	if ws := elemWidths(fd); len(ws) > 0 {
		return elemOfWidth(fd, ws[0], j)
	}
	panic("kind")
}

// keyRecLen: bytes of the key record of a map entry (tag of field 1 + payload, length prefix for string keys)
func keyRecLen(fd protoreflect.FieldDescriptor, k *V) int {
	n := scalarWireLen(fd, k)
	if fd.Kind() == protoreflect.StringKind {
		return 1 + protowire.SizeVarint(uint64(n)) + n
	}
	return 1 + n
}
