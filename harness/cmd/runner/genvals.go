package main

import (
	"math"
	"strings"

	"google.golang.org/protobuf/reflect/protoreflect"
)

// value generator: boundary-heavy, structured, every choice from the PRNG
type vgen struct {
	r        *rng
	si       *schemaInfo
	badUTF8  bool // allow invalid UTF-8 in strings of pulsar messages
	nilElems bool // allow nil list elements / map values / oneof payloads
	big      bool // allow the rare 16k strings
	unkDeep  bool // attach unknown records to nested messages too (field-less ones included)
}

var i64b = []int64{0, 1, -1, 2, 127, 128, -128, -129, 16383, 16384, 1<<21 - 1, 1 << 21, 1<<28 - 1, 1 << 28, math.MaxInt32, math.MinInt32, 1 << 31, 1<<35 - 1, 1 << 35, 1 << 42, 1 << 49, 1<<56 - 1, 1 << 56, 1 << 62, math.MaxInt64, math.MinInt64, math.MinInt64 + 1, -(1 << 31) - 1}
var i32b = []int64{0, 1, -1, 2, 63, 64, -64, -65, 127, 128, -128, 8191, 8192, 16383, 16384, 1<<21 - 1, 1 << 21, 1<<28 - 1, 1 << 28, math.MaxInt32, math.MaxInt32 - 1, math.MinInt32, math.MinInt32 + 1}
var u64b = []uint64{0, 1, 2, 127, 128, 16383, 16384, 1<<21 - 1, 1 << 21, 1<<28 - 1, 1 << 28, math.MaxUint32, 1 << 32, 1<<35 - 1, 1 << 35, 1 << 42, 1 << 49, 1<<56 - 1, 1 << 56, 1<<63 - 1, 1 << 63, math.MaxUint64, math.MaxUint64 - 1}
var u32b = []uint64{0, 1, 2, 127, 128, 16383, 16384, 1<<21 - 1, 1 << 21, 1<<28 - 1, 1 << 28, math.MaxUint32, math.MaxUint32 - 1, 1 << 31}
var f32b = []uint64{0, 0x80000000, 0x3f800000, 0xbf800000, 0x7f800000, 0xff800000, 0x7fc00000, 0xffc00000, 0x7fa00000, 0x7f800001, 0xffffffff, 1, 0x00800000, 0x7f7fffff}
var f64b = []uint64{0, 0x8000000000000000, 0x3ff0000000000000, 0xbff0000000000000, 0x7ff0000000000000, 0xfff0000000000000, 0x7ff8000000000000, 0xfff8000000000000, 0x7ff4000000000000, 0x7ff0000000000001, 0xffffffffffffffff, 1, 0x0010000000000000, 0x7fefffffffffffff}
var strb = []string{"", "a", "ab", "\x00", "héllo", "日本語", "\U0001F600", " ", "key", strings.Repeat("x", 126), strings.Repeat("y", 127), strings.Repeat("z", 128), strings.Repeat("é", 64)}
var badStr = []string{"\xff", "a\xc0\xafb", "\xed\xa0\x80", "\xf8\x88\x80\x80\x80", "ok\x80"}

func (g *vgen) boundaryCount(fd protoreflect.FieldDescriptor) int {
	switch fd.Kind() {
	case protoreflect.BoolKind:
		return 2
	case protoreflect.Int32Kind, protoreflect.Sint32Kind, protoreflect.Sfixed32Kind:
		return len(i32b)
	case protoreflect.Int64Kind, protoreflect.Sint64Kind, protoreflect.Sfixed64Kind:
		return len(i64b)
	case protoreflect.Uint32Kind, protoreflect.Fixed32Kind:
		return len(u32b)
	case protoreflect.Uint64Kind, protoreflect.Fixed64Kind:
		return len(u64b)
	case protoreflect.FloatKind:
		return len(f32b)
	case protoreflect.DoubleKind:
		return len(f64b)
	case protoreflect.StringKind:
		return len(strb)
	case protoreflect.BytesKind:
		return len(strb) + 1
	case protoreflect.EnumKind:
		return 7
	}
	return 1
}

// boundary value number i (i beyond the table: random)
func (g *vgen) scalarAt(fd protoreflect.FieldDescriptor, i int) *V {
	r := g.r
	pick64 := func(tab []int64) int64 {
		if i >= 0 && i < len(tab) {
			return tab[i]
		}
		return int64(r.u64()) >> uint(r.intn(64))
	}
	pickU := func(tab []uint64, bits uint) uint64 {
		if i >= 0 && i < len(tab) {
			return tab[i]
		}
		return (r.u64() >> (64 - bits)) >> uint(r.intn(int(bits)))
	}
	switch fd.Kind() {
	case protoreflect.BoolKind:
		if i >= 0 && i < 2 {
			return vBool(i == 1)
		}
		return vBool(r.bool())
	case protoreflect.Int32Kind, protoreflect.Sint32Kind, protoreflect.Sfixed32Kind:
		return vInt(int64(int32(pick64(i32b))))
	case protoreflect.Int64Kind, protoreflect.Sint64Kind, protoreflect.Sfixed64Kind:
		return vInt(pick64(i64b))
	case protoreflect.Uint32Kind, protoreflect.Fixed32Kind:
		return vUint(pickU(u32b, 32))
	case protoreflect.Uint64Kind, protoreflect.Fixed64Kind:
		return vUint(pickU(u64b, 64))
	case protoreflect.FloatKind:
		if i >= 0 && i < len(f32b) {
			return vBits(f32b[i])
		}
		return vBits(r.u64() & 0xffffffff)
	case protoreflect.DoubleKind:
		if i >= 0 && i < len(f64b) {
			return vBits(f64b[i])
		}
		return vBits(r.u64())
	case protoreflect.EnumKind:
		tab := []int64{0, 1, -1, 5, math.MaxInt32, math.MinInt32, 1000}
		if i >= 0 && i < len(tab) {
			return vInt(tab[i])
		}
		return vInt(int64(int32(r.u64())) >> uint(r.intn(32)))
	case protoreflect.StringKind:
		if g.badUTF8 && r.intn(6) == 0 {
			return vBytes([]byte(badStr[r.intn(len(badStr))]))
		}
		if i >= 0 && i < len(strb) {
			return vBytes([]byte(strb[i]))
		}
		if g.big && r.intn(40) == 0 {
			return vBytes([]byte(strings.Repeat("q", 16383+r.intn(2))))
		}
		return vBytes([]byte(strb[r.intn(len(strb))]))
	case protoreflect.BytesKind:
		if i == len(strb) {
			return vNil
		}
		if i >= 0 && i < len(strb) {
			return vBytes([]byte(strb[i]))
		}
		n := r.intn(1 + r.intn(40))
		b := make([]byte, n)
		for j := range b {
			b[j] = byte(r.u64())
		}
		if n == 0 && r.bool() {
			return vNil
		}
		return vBytes(b)
	}
	panic("kind")
}

func (g *vgen) scalar(fd protoreflect.FieldDescriptor) *V {
	n := g.boundaryCount(fd)
	if g.r.intn(4) == 0 {
		return g.scalarAt(fd, -1)
	}
	return g.scalarAt(fd, g.r.intn(n))
}

func (g *vgen) key(fd protoreflect.FieldDescriptor) *V { return g.scalar(fd) }

func (g *vgen) elem(fd protoreflect.FieldDescriptor, depth int) *V {
	if fd.Kind() == protoreflect.MessageKind {
		if g.nilElems && g.r.intn(8) == 0 {
			return vNil
		}
		return g.msg(g.si.byName[fd.Message().FullName()], depth-1, 3)
	}
	v := g.scalar(fd)
	if v.K == 'n' && fd.Kind() == protoreflect.BytesKind && g.r.bool() {
		return vBytes(nil)
	}
	return v
}

// msg generates a message; density = out of 10, chance that a field is populated
func (g *vgen) msg(mi *msgInfo, depth int, density int) *V {
	sub := *g
	if !mi.pulsar {
		sub.badUTF8 = false // protobuf-go types refuse invalid UTF-8: kept out of this stream
	}
	gg := &sub
	out := g.si.emptyV(mi)
	chosen := map[int]int{} // oneof -> field index chosen
	for i, fi := range mi.fields {
		if fi.oneofIdx >= 0 {
			if _, ok := chosen[fi.oneofIdx]; !ok {
				chosen[fi.oneofIdx] = -1
				if g.r.intn(10) < density+2 {
					// choose among the members
					var members []int
					for j, fj := range mi.fields {
						if fj.oneofIdx == fi.oneofIdx {
							members = append(members, j)
						}
					}
					chosen[fi.oneofIdx] = members[g.r.intn(len(members))]
				}
			}
			if chosen[fi.oneofIdx] == i {
				if fi.fd.Kind() == protoreflect.MessageKind && depth <= 0 {
					if g.nilElems {
						out.L[i] = &V{K: 's', P: vNil}
					} else {
						out.L[i] = &V{K: 's', P: g.si.emptyV(g.si.byName[fi.fd.Message().FullName()])}
					}
				} else {
					out.L[i] = &V{K: 's', P: gg.elem(fi.fd, depth)}
				}
			}
			continue
		}
		if g.r.intn(10) >= density && fi.fd.Cardinality() != protoreflect.Required {
			continue
		}
		out.L[i] = gg.field(fi, depth)
	}
	if g.unkDeep && mi.pulsar && (g.r.intn(3) == 0 || len(mi.fields) == 0) {
		for j := g.r.intn(2); j >= 0; j-- {
			out.Unk = append(out.Unk, genUnknownFor(g.r, mi)...)
		}
	}
	return out
}

func (g *vgen) field(fi fieldInfo, depth int) *V {
	fd := fi.fd
	r := g.r
	switch {
	case fd.IsMap():
		if r.intn(6) == 0 {
			return &V{K: 'p'} // empty non-nil map
		}
		mv := &V{K: 'p'}
		n := 1 + r.intn(1+r.intn(6))
		if fd.MapValue().Kind() == protoreflect.MessageKind && depth <= 0 {
			n = 1
		}
		seen := map[string]bool{}
		for j := 0; j < n; j++ {
			k := g.key(fd.MapKey())
			if seen[k.String()] {
				continue
			}
			seen[k.String()] = true
			var v *V
			if fd.MapValue().Kind() == protoreflect.MessageKind && depth <= 0 {
				v = g.si.emptyV(g.si.byName[fd.MapValue().Message().FullName()])
			} else {
				v = g.elem(fd.MapValue(), depth)
			}
			mv.L = append(mv.L, k, v)
		}
		sortMap(mv)
		return mv
	case fd.IsList():
		if r.intn(8) == 0 {
			return &V{K: 'l'} // empty non-nil slice
		}
		lv := &V{K: 'l'}
		n := 1 + r.intn(1+r.intn(5))
		if fd.Kind() == protoreflect.MessageKind && depth <= 0 {
			n = 1
		}
		for j := 0; j < n; j++ {
			if fd.Kind() == protoreflect.MessageKind && depth <= 0 {
				lv.L = append(lv.L, g.si.emptyV(g.si.byName[fd.Message().FullName()]))
			} else {
				lv.L = append(lv.L, g.elem(fd, depth))
			}
		}
		return lv
	case fd.Kind() == protoreflect.MessageKind:
		if depth <= 0 {
			return vNil
		}
		return g.msg(g.si.byName[fd.Message().FullName()], depth-1, 3)
	default:
		if presScalar(fd) {
			// explicit presence (proto2 types below a generated message): unset is a value of its own; a required field is
			// left unset less often, so that initialised and uninitialised messages both occur at every size
			if (fd.Cardinality() == protoreflect.Required && r.intn(6) == 0) || (fd.Cardinality() != protoreflect.Required && r.intn(3) == 0) {
				return vNil
			}
			if v := g.scalar(fd); v.K != 'n' {
				return v
			}
			return vBytes(nil) // bytes: set to empty
		}
		return g.scalar(fd)
	}
}

// maxMapLen returns the largest map (at any depth) in a value: with <= 1 the non-deterministic
// encoding is unique
func maxMapLen(v *V) int {
	m := 0
	if v == nil {
		return 0
	}
	if v.K == 'p' {
		m = len(v.L) / 2
	}
	for _, e := range v.L {
		if k := maxMapLen(e); k > m {
			m = k
		}
	}
	if v.P != nil {
		if k := maxMapLen(v.P); k > m {
			m = k
		}
	}
	return m
}
