package main

// Engine "gofun", part "generator" (task T15) — /repo/generator/helpers.go as the third translated file (coq/Model/GoFunGen.v).
//
// KeySize is in the language of Model/GoFun.v. For ProtoWireType the language gets ONE more declaration form, translated here:
//
//	var m = map[K]V{pkg.A: pkg.B, …}       (mapvar m K V ((q pkg A) (q pkg B))…)
//
// K and V named types, every key and every value a qualified identifier of an imported package (anything else: untranslatable).
// `func ProtoWireType(k K) V { return m[k] }` is ordinary GoFun syntax ((return (index m k))); its meaning — Go's map index
// expression on the package-level constant map, zero value for an absent key — is given by GoFunGen.gen_run.
//
// Case lines (driver/gofungen_eval.ml):
//
//	GOFUN      generator/helpers.go …                as for the other two files (canonical declarations: GoFunGen.canon_generator)
//	GOFUNCONST <pkg> <name>        = <type> <value>  the REAL constant, through package reflect (model: GoFunGen.gen_const_table)
//	GOFUNCONST all                 = <n>             how many constants were held against the table (model: its length)
//	GOFUNTYPE  <pkg.T>             = <kind>          reflect.Kind of the real named type (model: GoFunGen.gen_type_table)
//	GOFUNTYPE  all                 = <n>
//	GOFUNRUN   generator/helpers.go KeySize int32:<n> int8:<wt>   = ok (int:<size>) ()       generator.KeySize on every field-number boundary x wire type
//	GOFUNRUN   generator/helpers.go ProtoWireType int8:<k>        = ok (int8:<wt>) ()        generator.ProtoWireType on every int8
//
// Trusted in addition to gofun.go: the list gfGenConsts below names the real constants the table is checked against (a name
// missing here is reported by the `all` count); reflect.Kind of a named type is its underlying type.

import (
	"go/ast"
	"math"
	"reflect"
	"strconv"
	"strings"

	"github.com/cosmos/cosmos-proto/generator"
	"google.golang.org/protobuf/encoding/protowire"
	"google.golang.org/protobuf/reflect/protoreflect"
)

func gfIsMapLit(e ast.Expr) bool {
	cl, ok := e.(*ast.CompositeLit)
	if !ok {
		return false
	}
	_, ok = cl.Type.(*ast.MapType)
	return ok
}

// var <n> = map[K]V{ pkg.A: pkg.B, … }
func (f *gfFile) mapDecl(n *ast.Ident, cl *ast.CompositeLit) gfn {
	mt := cl.Type.(*ast.MapType)
	named := func(e ast.Expr) gfn {
		t := f.typ(e)
		if !strings.HasPrefix(t.coq, "GoNamed ") {
			gfFail(e.Pos(), "map key / value type that is not a named type")
		}
		return t
	}
	kt, vt := named(mt.Key), named(mt.Value)
	qual := func(e ast.Expr) gfn {
		if s, ok := e.(*ast.SelectorExpr); ok {
			if _, isPkg := f.isPkg(s.X); isPkg {
				return f.expr(s)
			}
		}
		gfFail(e.Pos(), "map literal element that is not a qualified identifier pkg.Name")
		return gfn{}
	}
	nm := gfIdent(n.Pos(), n.Name)
	var sx, coq []string
	for _, el := range cl.Elts {
		kv, ok := el.(*ast.KeyValueExpr)
		if !ok {
			gfFail(el.Pos(), "map literal element without a key")
		}
		k, v := qual(kv.Key), qual(kv.Value)
		sx = append(sx, " ("+k.sx+" "+v.sx+")")
		coq = append(coq, "("+k.coq+", "+v.coq+")")
	}
	return gfn{"(mapvar " + nm + " " + kt.sx + " " + vt.sx + strings.Join(sx, "") + ")",
		"{| gm_name := " + gfCoqStr(nm) + "; gm_key := " + kt.coq + "; gm_val := " + vt.coq + ";\n     gm_entries := [" + strings.Join(coq, ";\n       ") + "] |}"}
}

// the real constants GoFunGen.gen_const_table is held against
var gfGenConsts = []struct {
	pkg, name string
	v         any
}{
	{"protoreflect", "BoolKind", protoreflect.BoolKind}, {"protoreflect", "EnumKind", protoreflect.EnumKind},
	{"protoreflect", "Int32Kind", protoreflect.Int32Kind}, {"protoreflect", "Sint32Kind", protoreflect.Sint32Kind},
	{"protoreflect", "Uint32Kind", protoreflect.Uint32Kind}, {"protoreflect", "Int64Kind", protoreflect.Int64Kind},
	{"protoreflect", "Sint64Kind", protoreflect.Sint64Kind}, {"protoreflect", "Uint64Kind", protoreflect.Uint64Kind},
	{"protoreflect", "Sfixed32Kind", protoreflect.Sfixed32Kind}, {"protoreflect", "Fixed32Kind", protoreflect.Fixed32Kind},
	{"protoreflect", "FloatKind", protoreflect.FloatKind}, {"protoreflect", "Sfixed64Kind", protoreflect.Sfixed64Kind},
	{"protoreflect", "Fixed64Kind", protoreflect.Fixed64Kind}, {"protoreflect", "DoubleKind", protoreflect.DoubleKind},
	{"protoreflect", "StringKind", protoreflect.StringKind}, {"protoreflect", "BytesKind", protoreflect.BytesKind},
	{"protoreflect", "MessageKind", protoreflect.MessageKind}, {"protoreflect", "GroupKind", protoreflect.GroupKind},
	{"protowire", "VarintType", protowire.VarintType}, {"protowire", "Fixed64Type", protowire.Fixed64Type},
	{"protowire", "BytesType", protowire.BytesType}, {"protowire", "StartGroupType", protowire.StartGroupType},
	{"protowire", "EndGroupType", protowire.EndGroupType}, {"protowire", "Fixed32Type", protowire.Fixed32Type},
}

// … and the real named types GoFunGen.gen_type_table is held against (protoreflect.FieldNumber is an alias of protowire.Number)
var gfGenTypes = []struct {
	name string
	zero any
}{
	{"protoreflect.Kind", protoreflect.Kind(0)}, {"protowire.Type", protowire.Type(0)},
	{"protoreflect.FieldNumber", protoreflect.FieldNumber(0)}, {"protowire.Number", protowire.Number(0)},
}

func gfRunGenerator(g *gfRunner, c config) {
	o := g.o
	for _, k := range gfGenConsts {
		rv := reflect.ValueOf(k.v)
		o.kase("GOFUNCONST", []string{k.pkg, k.name}, rv.Type().String()+" "+strconv.FormatInt(rv.Int(), 10))
		o.count("const_checked")
	}
	o.kase("GOFUNCONST", []string{"all"}, strconv.Itoa(len(gfGenConsts)))
	for _, t := range gfGenTypes {
		o.kase("GOFUNTYPE", []string{t.name}, reflect.TypeOf(t.zero).Kind().String())
		o.count("type_checked")
	}
	o.kase("GOFUNTYPE", []string{"all"}, strconv.Itoa(len(gfGenTypes)))

	// ---- KeySize: every field-number boundary x wire type
	keySize := func(n int32, wt int8) {
		g.run(gfGen, "KeySize", []string{gfI("int32", int64(n)), gfI("int8", int64(wt))}, func() string {
			return "ok (" + gfI("int", int64(generator.KeySize(protoreflect.FieldNumber(n), protowire.Type(wt)))) + ") ()"
		})
	}
	var nums []int32
	seen := map[int32]bool{}
	add := func(n int64) {
		if n < math.MinInt32 || n > math.MaxInt32 || seen[int32(n)] {
			return
		}
		seen[int32(n)] = true
		nums = append(nums, int32(n))
	}
	for _, n := range []int64{math.MinInt32, math.MinInt32 + 1, -536870912, -16, -1, 0, 1, 2, 3} {
		add(n)
	}
	// the tag n<<3|wt reaches a new 7-bit group at n = 2^(7j-3): 16, 2048, 262144, 33554432; every power of two besides
	for b := 1; b <= 31; b++ {
		for d := int64(-2); d <= 2; d++ {
			add(int64(1)<<uint(b) + d)
		}
	}
	wts := []int8{math.MinInt8, -8, -1, 0, 1, 2, 3, 4, 5, 6, 7, 8, 0x7f}
	for _, n := range nums {
		for _, wt := range wts {
			keySize(n, wt)
		}
	}
	// random field numbers of every bit length (legal ones twice as often) x random int8 wire types
	r := newRng(c.seed, "gofun-generator")
	nrand := 400
	if c.thorough() {
		nrand = 20000
	}
	for i := 0; i < nrand; i++ {
		bits := 1 + r.intn(32)
		if r.intn(3) > 0 {
			bits = 1 + r.intn(29)
		}
		n := int32(uint32(r.u64()) >> uint(32-bits))
		wt := int8(r.intn(6))
		if r.intn(4) == 0 {
			wt = int8(r.u64())
		}
		o.count("keysize_bits_" + strconv.Itoa(bits))
		keySize(n, wt)
	}

	// ---- ProtoWireType: every value of protoreflect.Kind (an int8): the 18 kinds and the 238 absent keys
	for k := math.MinInt8; k <= math.MaxInt8; k++ {
		k := int8(k)
		g.run(gfGen, "ProtoWireType", []string{gfI("int8", int64(k))}, func() string {
			return "ok (" + gfI("int8", int64(generator.ProtoWireType(protoreflect.Kind(k)))) + ") ()"
		})
	}
}
