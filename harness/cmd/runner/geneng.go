package main

// Engine "gen": the generator itself as the program under test (properties C12 and C13).
//   runner gen <casefile> <seed> <tier> c12     totality / parse / gofmt / compile / init / smoke test + identifier model lines
//   runner gen <casefile> <seed> <tier> c13     repeated runs in fresh processes under perturbed environments, permutations, subsets
// The plugin binary is _build/bin/protoc-gen-go-pulsar (next to this executable), rebuilt from /repo's working tree by ./check.

import (
	"bytes"
	"context"
	_ "embed"
	"fmt"
	"go/format"
	"go/parser"
	"go/token"
	"os"
	"os/exec"
	"path/filepath"
	"regexp"
	"sort"
	"strings"
	"sync"
	"time"

	"github.com/cosmos/cosmos-proto/verifh/corpus"
	"google.golang.org/protobuf/compiler/protogen"
	"google.golang.org/protobuf/proto"
	"google.golang.org/protobuf/reflect/protoreflect"
	"google.golang.org/protobuf/types/descriptorpb"
	"google.golang.org/protobuf/types/pluginpb"
)

func init() { engines["gen"] = engineGen }

//go:embed gensmoke.go.txt
var smokeMainSrc string

type genReq struct {
	name     string // stable schema name: known-findings key "gen/<name>"
	class    string // corpus | adv | random
	files    []*descriptorpb.FileDescriptorProto
	generate []string
	param    string
	expect   string
}

func (r *genReq) key() string { return "gen/" + r.name }

func (r *genReq) request(param string, generate []string) []byte {
	req := &pluginpb.CodeGeneratorRequest{FileToGenerate: generate, Parameter: proto.String(param), ProtoFile: r.files,
		CompilerVersion: &pluginpb.Version{Major: proto.Int32(3), Minor: proto.Int32(21), Patch: proto.Int32(12)}}
	if param == "" {
		req.Parameter = nil
	}
	b, err := proto.Marshal(req)
	if err != nil {
		panic(err)
	}
	return b
}

// number of proto3 files among the requested ones (what the generator is expected to emit for)
func (r *genReq) proto3Requested(generate []string) int {
	n := 0
	for _, g := range generate {
		for _, f := range r.files {
			if f.GetName() == g && f.GetSyntax() == "proto3" {
				n++
			}
		}
	}
	return n
}

type runRes struct {
	stdout   []byte
	stderr   string
	exit     int // -1: could not start / killed
	timedOut bool
	resp     *pluginpb.CodeGeneratorResponse
	parseErr error
}

// crashed: anything but a normal exit with a parsable response (panics, signals, timeouts, garbage on stdout)
func (r *runRes) crashed() (bool, string) {
	switch {
	case r.timedOut:
		return true, "timeout"
	case strings.Contains(r.stderr, "panic:") || strings.Contains(r.stderr, "goroutine "):
		return true, "panic: " + firstLines(r.stderr, 3)
	case r.exit != 0:
		return true, fmt.Sprintf("exit status %d: %s", r.exit, firstLines(r.stderr, 2))
	case r.parseErr != nil:
		return true, "unparsable response: " + r.parseErr.Error()
	}
	return false, ""
}

func firstLines(s string, n int) string {
	ls := strings.Split(strings.TrimSpace(s), "\n")
	if len(ls) > n {
		ls = ls[:n]
	}
	return strings.Join(ls, " | ")
}

func runPlugin(plugin string, in []byte, env []string, dir string) *runRes {
	ctx, cancel := context.WithTimeout(context.Background(), 60*time.Second)
	defer cancel()
	cmd := exec.CommandContext(ctx, plugin)
	cmd.Stdin = bytes.NewReader(in)
	var out, errb bytes.Buffer
	cmd.Stdout, cmd.Stderr = &out, &errb
	if env != nil {
		cmd.Env = env
	}
	if dir != "" {
		cmd.Dir = dir
	}
	err := cmd.Run()
	r := &runRes{stdout: out.Bytes(), stderr: errb.String()}
	if ctx.Err() != nil {
		r.timedOut = true
	}
	if err != nil {
		r.exit = -1
		if ee, ok := err.(*exec.ExitError); ok {
			r.exit = ee.ExitCode()
		}
		return r
	}
	r.resp = &pluginpb.CodeGeneratorResponse{}
	if e := proto.Unmarshal(r.stdout, r.resp); e != nil {
		r.parseErr = e
		r.resp = nil
	}
	return r
}

type genCtx struct {
	cfg     config
	o       *out
	mu      sync.Mutex // o is not concurrency-safe
	plugin  string
	refPlug string
	build   string // _build
	harness string
	repo    string
	goEnv   []string
	gp      *gpHook // translator tie of the plugin's decision logic (genprog.go): context lines + GENPROGRUN lines
}

func newGenCtx(cfg config, o *out) *genCtx {
	exe, err := os.Executable()
	if err != nil {
		panic(err)
	}
	exe, _ = filepath.EvalSymlinks(exe)
	bin := filepath.Dir(exe)
	g := &genCtx{cfg: cfg, o: o, plugin: filepath.Join(bin, "protoc-gen-go-pulsar"), refPlug: filepath.Join(bin, "protoc-gen-go-ref"), build: filepath.Dir(bin)}
	g.harness = filepath.Join(filepath.Dir(g.build), "harness")
	g.repo = os.Getenv("VERIF_REPO")
	if g.repo == "" {
		g.repo = "/repo"
	}
	if p := os.Getenv("VERIF_PLUGIN"); p != "" {
		g.plugin = p
	}
	g.goEnv = append(os.Environ(), "GOFLAGS=-mod=mod", "GOPROXY=off", "GOSUMDB=off", "GOTOOLCHAIN=local")
	return g
}

// the upstream protoc-gen-go of the protobuf-go version /repo is built against: the judge of whether a schema that fails
// is inside the "supported subset" at all (a schema whose upstream output does not compile either is not held against pulsar)
func (g *genCtx) ensureRefPlugin() bool {
	if _, err := os.Stat(g.refPlug); err == nil {
		return true
	}
	cmd := exec.Command("go", "build", "-o", g.refPlug, "google.golang.org/protobuf/cmd/protoc-gen-go")
	cmd.Dir, cmd.Env = g.harness, g.goEnv
	outb, err := cmd.CombinedOutput()
	if err != nil {
		fmt.Fprintln(os.Stderr, "reference protoc-gen-go does not build:", string(outb))
		return false
	}
	return true
}

// ---- request lists ---------------------------------------------------------------------------------------------
func (g *genCtx) requests() []*genReq {
	var reqs []*genReq
	for _, s := range corpus.Linked() {
		reqs = append(reqs, &genReq{name: "corpus_" + s.Name, class: "corpus", files: s.Files, generate: s.Generate, param: s.Param, expect: corpus.ExpFiles})
	}
	for _, a := range corpus.Adversarial() {
		reqs = append(reqs, &genReq{name: a.Name, class: "adv", files: a.Files, generate: a.Generate, param: a.Param, expect: a.Expect})
	}
	n := 20
	if g.cfg.thorough() {
		n = 300
	}
	for i := 0; i < n; i++ {
		s := randomSet(g.cfg.seed, i)
		reqs = append(reqs, &genReq{name: s.Name, class: "random", files: s.Files, generate: s.Generate, param: s.Param, expect: corpus.ExpFiles})
	}
	return reqs
}

func validate(r *genReq) error {
	return corpus.Set{Name: r.name, Files: r.files}.Validate()
}

func parallel(n, workers int, f func(i int)) {
	var wg sync.WaitGroup
	ch := make(chan int)
	for w := 0; w < workers; w++ {
		wg.Add(1)
		go func() {
			defer wg.Done()
			for i := range ch {
				f(i)
			}
		}()
	}
	for i := 0; i < n; i++ {
		ch <- i
	}
	close(ch)
	wg.Wait()
}

func engineGen(cfg config, o *out) {
	wdLimit = 30 * time.Minute // this engine runs external processes with their own timeouts
	g := newGenCtx(cfg, o)
	if _, err := os.Stat(g.plugin); err != nil {
		o.withKey("build").prop("C12", false, "plugin binary missing: "+g.plugin)
		o.prop("C13", false, "plugin binary missing: "+g.plugin)
		return
	}
	mode := "c12"
	if len(cfg.extra) > 0 {
		mode = cfg.extra[0]
	}
	all := g.requests()
	var reqs []*genReq
	for _, r := range all {
		if err := validate(r); err != nil {
			// protodesc (standing in for protoc) rejects the schema: it is not an input of the property
			o.count("invalid-schema-skipped")
			fmt.Fprintf(os.Stderr, "skipped invalid schema %s: %v\n", r.name, err)
			continue
		}
		o.count("class/" + r.class)
		reqs = append(reqs, r)
	}
	o.hist["programs"] = len(reqs)
	g.gp = newGpHook(o)
	switch mode {
	case "c12":
		g.runC12(reqs)
	case "c13":
		g.runC13(reqs)
	default:
		fmt.Fprintln(os.Stderr, "unknown gen mode", mode)
		os.Exit(2)
	}
}

// ---- parameter strings -----------------------------------------------------------------------------------------
// featureStrings: values of features= whose outcome the model (GenOrder.gen_outcome) predicts
var featureStrings = []string{"protoc+fast", "fast+protoc", "all", "fast", "protoc", "nope", "fast+nope", "nope+fast", "all+nope", "nope+all", "fast+all", "protoc+all+fast",
	"fast+fast", "protoc+fast+protoc+fast", "", "+", "fast+", "Fast", "fast+protoc+all"}

// observedFeatures classifies a response for the GENFEAT case line
func observedFeatures(r *runRes) string {
	if bad, _ := r.crashed(); bad {
		return "crash"
	}
	if r.resp.Error != nil {
		if strings.Contains(r.resp.GetError(), "unknown feature") {
			return "unknown-feature"
		}
		return "error"
	}
	if len(r.resp.File) == 0 {
		return "0:"
	}
	// which features ran, in which order: position of each feature's first output in the first file
	c := r.resp.File[0].GetContent()
	type pos struct {
		n string
		p int
	}
	var ps []pos
	if p := strings.Index(c, "fastReflection_"); p >= 0 {
		ps = append(ps, pos{"fast", p})
	} else if p := strings.Index(c, "protoreflect.Message = "); p >= 0 {
		ps = append(ps, pos{"fast", p})
	}
	if p := strings.Index(c, "protoimpl.EnforceVersion"); p >= 0 {
		ps = append(ps, pos{"protoc", p})
	}
	sort.Slice(ps, func(i, j int) bool { return ps[i].p < ps[j].p })
	var names []string
	for _, p := range ps {
		names = append(names, p.n)
	}
	return fmt.Sprintf("%d:%s", len(r.resp.File), strings.Join(names, ","))
}

// the fast feature leaves no trace in a file without messages: such requests are compared on the number of files only
func hasMsgFlag(r *genReq) string {
	for _, name := range requestedProto3(r) {
		for _, f := range r.files {
			if f.GetName() == name && len(f.MessageType) == 0 {
				return "nomsg"
			}
		}
	}
	return "msg"
}
func featObs(obs string, r *genReq) string {
	if hasMsgFlag(r) == "nomsg" {
		if i := strings.Index(obs, ":"); i >= 0 {
			return obs[:i+1]
		}
	}
	return obs
}

func replaceFeatures(param, feats string) string {
	var parts []string
	for _, p := range strings.Split(param, ",") {
		if p == "" || strings.HasPrefix(p, "features=") {
			continue
		}
		parts = append(parts, p)
	}
	return strings.Join(append([]string{"features=" + feats}, parts...), ",")
}

func dropFeatures(param string) string {
	var parts []string
	for _, p := range strings.Split(param, ",") {
		if p == "" || strings.HasPrefix(p, "features=") {
			continue
		}
		parts = append(parts, p)
	}
	return strings.Join(parts, ",")
}

// ---- C12 ---------------------------------------------------------------------------------------------------------
type c12State struct {
	req     *genReq
	res     *runRes
	files   map[string]string // module-relative path -> content
	pkgs    []string          // import paths of the emitted packages
	failed  bool              // a failure has been reported (no further stages)
	genOK   bool
	skipped string
	genErr  string // an error answer to a request expected to generate: reported after upstream protoc-gen-go has been asked too
}

var importRe = regexp.MustCompile(`^package (\S+)`)

func (g *genCtx) fail(prop string, r *genReq, what string) {
	g.mu.Lock()
	defer g.mu.Unlock()
	g.o.withKey(r.key()).prop(prop, false, r.name+": "+what)
	g.o.count("fail/" + r.class)
}
func (g *genCtx) pass(prop string) {
	g.mu.Lock()
	g.o.prop(prop, true, "")
	g.mu.Unlock()
}

func (g *genCtx) runC12(reqs []*genReq) {
	o := g.o
	states := make([]*c12State, len(reqs))
	// stage 1: canonical parameter string: outcome, parse, gofmt
	parallel(len(reqs), 8, func(i int) {
		r := reqs[i]
		st := &c12State{req: r, files: map[string]string{}}
		states[i] = st
		st.res = runPlugin(g.plugin, r.request(r.param, r.generate), nil, "")
		g.stage1(st)
	})
	// a request answered with an error: held against the plugin only if upstream protoc-gen-go serves the same request
	{
		refused := map[*c12State]string{}
		for _, st := range states {
			if st.genErr != "" {
				refused[st] = st.genErr
			}
		}
		if len(refused) > 0 {
			g.judgeWithReference(refused)
		}
		for _, st := range states {
			if st.genErr == "" {
				continue
			}
			if st.skipped == "reference-fails-too" {
				continue // no further stages for it either
			}
			g.fail("C12", st.req, st.genErr)
		}
	}
	// stage 2: parameter strings (features= permutations and unknown names, paths=, unknown flags) on every request
	g.paramVariants(reqs, states)
	// stage 3: identifier / index model lines from the emitted sources
	for _, st := range states {
		if st.genOK {
			g.identLines(st)
		}
	}
	// stage 4: compile everything that was emitted for the scratch module, in one `go build`
	g.compileAndSmoke(states)
	// stage 5: the same sets generated the way the usual protoc / buf loop does it: one request per .proto file
	g.perFile(states)
	for _, st := range states {
		cls := "outcome/ok"
		if st.skipped != "" {
			cls = "outcome/" + st.skipped
		} else if st.failed {
			cls = "outcome/failed"
		}
		o.count(cls)
	}
}

func (g *genCtx) stage1(st *c12State) {
	r, res := st.req, st.res
	if bad, why := res.crashed(); bad {
		st.failed = true
		g.fail("C12", r, "plugin crashed ("+why+")")
		return
	}
	g.pass("C12")
	resp := res.resp
	if resp.Error != nil {
		if resp.GetError() == "" || len(resp.File) > 0 {
			st.failed = true
			g.fail("C12", r, "malformed error response (empty message or files next to an error)")
			return
		}
		if r.expect == corpus.ExpNoCrash {
			st.skipped = "unsupported-answered-with-error"
			return
		}
		st.failed = true
		st.genErr = "plugin answered a valid request with an error: " + firstLines(resp.GetError(), 3)
		return
	}
	want := r.proto3Requested(r.generate)
	if r.expect == corpus.ExpNoFiles {
		if len(resp.File) != 0 {
			st.failed = true
			g.fail("C12", r, fmt.Sprintf("output for a request with nothing to generate: %d files", len(resp.File)))
		} else {
			g.pass("C12")
			st.skipped = "nothing-to-generate"
		}
		return
	}
	if len(resp.File) != want {
		st.failed = true
		var names []string
		for _, f := range resp.File {
			names = append(names, f.GetName())
		}
		g.fail("C12", r, fmt.Sprintf("%d proto3 files requested, %d files emitted %v (proto2 and unrequested files must produce nothing, every proto3 file one .pulsar.go)", want, len(resp.File), names))
		return
	}
	g.pass("C12")
	for _, f := range resp.File {
		name, content := f.GetName(), f.GetContent()
		if f.InsertionPoint != nil || !strings.HasSuffix(name, ".pulsar.go") || filepath.IsAbs(name) || strings.Contains(name, "..") {
			st.failed = true
			g.fail("C12", r, "unexpected output file "+name)
			return
		}
		fset := token.NewFileSet()
		if _, err := parser.ParseFile(fset, name, content, parser.ParseComments); err != nil {
			st.failed = true
			g.fail("C12", r, "emitted file does not parse: "+firstLines(err.Error(), 2))
			return
		}
		fm, err := format.Source([]byte(content))
		if err != nil || string(fm) != content {
			st.failed = true
			g.fail("C12", r, "emitted file "+name+" is not gofmt-stable")
			return
		}
		g.pass("C12")
		rel := name
		switch {
		case strings.HasPrefix(name, corpus.GenCheckBase):
			rel = strings.TrimPrefix(name, corpus.GenCheckBase)
		case strings.HasPrefix(name, corpus.GenBase):
			rel = "" // corpus sets are compiled into the runner itself (./check rebuilds them: lib/gen.py)
		default:
			st.failed = true
			g.fail("C12", r, "output path "+name+" is not derived from the go_package / M mapping")
			return
		}
		if rel != "" && r.expect != corpus.ExpFilesNoCompile {
			st.files[rel] = content
		}
	}
	st.genOK = true
}

func (g *genCtx) paramVariants(reqs []*genReq, states []*c12State) {
	type job struct {
		i     int
		feats string
	}
	var jobs []job
	for i, r := range reqs {
		if states[i].failed || r.expect == corpus.ExpNoCrash {
			continue
		}
		fs := featureStrings
		if r.class == "random" && i%5 != 0 {
			fs = featureStrings[:6] // the full list on every fifth random schema
		}
		for _, f := range fs {
			jobs = append(jobs, job{i, f})
		}
	}
	results := make([]*runRes, len(jobs))
	parallel(len(jobs), 8, func(k int) {
		r := reqs[jobs[k].i]
		results[k] = runPlugin(g.plugin, r.request(replaceFeatures(r.param, jobs[k].feats), r.generate), nil, "")
	})
	o := g.o
	for k, j := range jobs {
		r, st, res := reqs[j.i], states[j.i], results[k]
		obs := observedFeatures(res)
		n3 := r.proto3Requested(r.generate)
		o.kase("GENFEAT", []string{"[" + j.feats + "]", fmt.Sprint(n3), hasMsgFlag(r)}, featObs(obs, r))
		g.gp.mainLine(o, r, replaceFeatures(r.param, j.feats), res)
		o.count("feat/" + obs)
		o.nontrivial("feat/" + j.feats + "/" + obs)
		if bad, why := res.crashed(); bad {
			g.fail("C12", r, "features="+j.feats+": plugin crashed ("+why+")")
			continue
		}
		// the property's own demands: unknown names are answered with an error message; a servable request with files
		known := true
		for _, n := range strings.Split(j.feats, "+") {
			if n != "fast" && n != "protoc" && n != "all" {
				known = false
			}
		}
		switch {
		case !known && strings.HasPrefix(obs, "0:") && false:
		case known && res.resp.Error != nil:
			g.fail("C12", r, "features="+j.feats+": error for a servable request: "+firstLines(res.resp.GetError(), 2))
		case res.resp.Error != nil && len(res.resp.File) > 0:
			g.fail("C12", r, "features="+j.feats+": files next to an error")
		default:
			g.pass("C12")
		}
		// same feature set => same bytes as the canonical run (the model line GENFEAT says which sets are equal)
		if st.genOK && (obs == observedFeatures(st.res)) && res.resp != nil && res.resp.Error == nil {
			same := len(res.resp.File) == len(st.res.resp.File)
			for fi := 0; same && fi < len(res.resp.File); fi++ {
				same = res.resp.File[fi].GetName() == st.res.resp.File[fi].GetName() && res.resp.File[fi].GetContent() == st.res.resp.File[fi].GetContent()
			}
			o.kase("GENSAME", []string{"[" + strings.TrimPrefix(featuresOf(r.param), "features=") + "]", "[" + j.feats + "]"}, boolS(same))
		}
	}
	// other parameters
	type pjob struct {
		i     int
		param string
		kind  string
	}
	var pj []pjob
	for i, r := range reqs {
		if !states[i].genOK || (r.class == "random" && i%4 != 0) {
			continue
		}
		pj = append(pj, pjob{i, r.param + ",paths=source_relative", "source_relative"}, pjob{i, r.param + ",paths=import", "import"}, pjob{i, dropFeatures(r.param), "default-features"},
			pjob{i, r.param + ",bogus=1", "unknown-flag"}, pjob{i, r.param + ",paths=nope", "bad-paths"}, pjob{i, r.param + ",pool=" + corpus.GenCheckBase + "x.A", "pool"}, pjob{i, r.param + ",pool=nodot", "bad-pool"},
			pjob{i, r.param + ",module=" + strings.TrimSuffix(corpus.GenCheckBase, "/"), "module"}, pjob{i, r.param + ",,", "empty-params"})
	}
	pres := make([]*runRes, len(pj))
	parallel(len(pj), 8, func(k int) {
		r := reqs[pj[k].i]
		pres[k] = runPlugin(g.plugin, r.request(pj[k].param, r.generate), nil, "")
	})
	for k, j := range pj {
		r, st, res := reqs[j.i], states[j.i], pres[k]
		o.count("param/" + j.kind)
		switch j.kind {
		case "unknown-flag", "default-features", "empty-params":
			// the flag handling of main, interpreted: an unknown flag ends the process, no features= means "all"
			g.gp.mainLine(o, r, j.param, res)
		}
		switch j.kind {
		case "unknown-flag", "bad-paths", "bad-pool":
			// protogen's convention for a bad parameter: exit status 1 and a one-line message on stderr (protoc prints it); a
			// response carrying an error is just as good. A panic, a hang or files are not.
			if res.timedOut || strings.Contains(res.stderr, "panic:") || strings.Contains(res.stderr, "goroutine ") || res.parseErr != nil {
				g.fail("C12", r, j.kind+": plugin crashed: "+firstLines(res.stderr, 3))
			} else if res.exit != 0 && strings.TrimSpace(res.stderr) == "" {
				g.fail("C12", r, j.kind+": exit status without a message")
			} else if res.exit == 0 && (res.resp.Error == nil || len(res.resp.File) > 0) {
				g.fail("C12", r, j.kind+": a parameter the plugin cannot serve was not answered with an error")
			} else {
				g.pass("C12")
			}
		default:
			if bad, why := res.crashed(); bad {
				g.fail("C12", r, j.kind+": plugin crashed ("+why+")")
				continue
			}
			if res.resp.Error != nil {
				if j.kind == "module" && r.class == "corpus" {
					g.pass("C12") // module= prefix does not match the corpus packages: an error is the right answer
					continue
				}
				g.fail("C12", r, j.kind+": error for a servable request: "+firstLines(res.resp.GetError(), 2))
				continue
			}
			// same contents as the canonical run whatever the naming scheme
			ok := len(res.resp.File) == len(st.res.resp.File)
			for fi := 0; ok && fi < len(res.resp.File); fi++ {
				ok = res.resp.File[fi].GetContent() == st.res.resp.File[fi].GetContent()
				if j.kind == "source_relative" {
					want := strings.TrimSuffix(requestedProto3(r)[fi], ".proto") + ".pulsar.go"
					ok = ok && res.resp.File[fi].GetName() == want
				}
			}
			if ok {
				g.pass("C12")
			} else {
				g.fail("C12", r, j.kind+": output differs from the run without this parameter (contents must not depend on the naming scheme)")
			}
		}
	}
}

// names of the proto3 files of the request that are requested, in proto_file order (the order protogen emits in)
func requestedProto3(r *genReq) []string {
	var out []string
	for _, f := range r.files {
		for _, gname := range r.generate {
			if f.GetName() == gname && f.GetSyntax() == "proto3" {
				out = append(out, gname)
			}
		}
	}
	return out
}

func featuresOf(param string) string {
	for _, p := range strings.Split(param, ",") {
		if strings.HasPrefix(p, "features=") {
			return p
		}
	}
	return "features=all"
}

func boolS(b bool) string {
	if b {
		return "true"
	}
	return "false"
}

// ---- compile + init + smoke ------------------------------------------------------------------------------------------
var pkgHdrRe = regexp.MustCompile(`(?m)^# (\S+)`)

func (g *genCtx) writeModule(dir string, files map[string]string) error {
	os.RemoveAll(dir)
	if err := os.MkdirAll(dir, 0o755); err != nil {
		return err
	}
	gomod := "module " + strings.TrimSuffix(corpus.GenCheckBase, "/") + "\n\ngo 1.18\n\nrequire (\n\tgithub.com/cosmos/cosmos-proto v0.0.0\n\tgoogle.golang.org/protobuf v1.34.0\n)\n\nreplace github.com/cosmos/cosmos-proto => " + g.repo + "\n"
	if err := os.WriteFile(filepath.Join(dir, "go.mod"), []byte(gomod), 0o644); err != nil {
		return err
	}
	sum, err := os.ReadFile(filepath.Join(g.repo, "go.sum"))
	if err == nil {
		os.WriteFile(filepath.Join(dir, "go.sum"), sum, 0o644)
	}
	for rel, c := range files {
		p := filepath.Join(dir, rel)
		os.MkdirAll(filepath.Dir(p), 0o755)
		if err := os.WriteFile(p, []byte(c), 0o644); err != nil {
			return err
		}
	}
	return nil
}

func (g *genCtx) goRun(dir string, timeout time.Duration, args ...string) (string, error) {
	ctx, cancel := context.WithTimeout(context.Background(), timeout)
	defer cancel()
	cmd := exec.CommandContext(ctx, args[0], args[1:]...)
	cmd.Dir, cmd.Env = dir, g.goEnv
	b, err := cmd.CombinedOutput()
	return string(b), err
}

// buildPackages compiles every package of the module and returns, per import path, the compiler's complaint ("" = built).
// Packages that only fail because a dependency failed are reported with "dep:" so the blame stays with the dependency.
func (g *genCtx) buildPackages(dir string, pkgs []string) map[string]string {
	res := map[string]string{}
	outp, err := g.goRun(dir, 20*time.Minute, "go", "build", "-trimpath", "./...")
	if err == nil {
		return res
	}
	idx := pkgHdrRe.FindAllStringSubmatchIndex(outp, -1)
	for k, m := range idx {
		end := len(outp)
		if k+1 < len(idx) {
			end = idx[k+1][0]
		}
		res[outp[m[2]:m[3]]] = strings.TrimSpace(outp[m[1]:end])
	}
	if len(idx) > 0 && (idx[0][0] == 0) {
		return res
	}
	// the build stopped before compiling (package loading errors are not attributed to a package): one build per package
	res = map[string]string{}
	var mu sync.Mutex
	parallel(len(pkgs), 8, func(i int) {
		o1, e1 := g.goRun(dir, 10*time.Minute, "go", "build", "-trimpath", pkgs[i])
		if e1 != nil {
			mu.Lock()
			res[pkgs[i]] = strings.TrimSpace(o1)
			mu.Unlock()
		}
	})
	return res
}

func (g *genCtx) compileAndSmoke(states []*c12State) { g.compileAndSmokeIn(states, "") }

// tag "": the module of the all-files requests; tag "pf": the module assembled from one-file-per-request outputs (perFile)
func (g *genCtx) compileAndSmokeIn(states []*c12State, tag string) {
	o := g.o
	dir := filepath.Join(g.build, "gencheck", fmt.Sprintf("%s-%d%s", g.cfg.tier, g.cfg.seed, tag))
	hk := func(k string) string {
		if tag == "" {
			return k
		}
		return tag + "/" + k
	}
	files := map[string]string{}
	owner := map[string]*c12State{} // package import path -> request
	for _, st := range states {
		if !st.genOK {
			continue
		}
		for rel, c := range st.files {
			if prev, dup := files[rel]; dup && prev != c {
				g.fail("C12", st.req, "two requests of the corpus emit the same file "+rel+" (harness corpus error)")
				continue
			}
			files[rel] = c
			pkg := strings.TrimSuffix(corpus.GenCheckBase, "/")
			if d := filepath.Dir(rel); d != "." {
				pkg = corpus.GenCheckBase + d
			}
			if _, ok := owner[pkg]; !ok {
				owner[pkg] = st
				st.pkgs = append(st.pkgs, pkg)
			}
		}
	}
	if len(files) == 0 {
		return
	}
	if err := g.writeModule(dir, files); err != nil {
		fmt.Fprintln(os.Stderr, "cannot write scratch module:", err)
		os.Exit(2)
	}
	var pkgs []string
	for p := range owner {
		pkgs = append(pkgs, p)
	}
	sort.Strings(pkgs)
	t0 := time.Now()
	errs := g.buildPackages(dir, pkgs)
	o.hist[hk("compile-seconds")] = int(time.Since(t0).Seconds())
	o.hist[hk("compiled-packages")] = len(pkgs)
	// blame
	broken := map[*c12State]string{}
	for p, e := range errs {
		st, ok := owner[p]
		if !ok {
			continue
		}
		if _, seen := broken[st]; !seen || !strings.Contains(e, "dep:") {
			broken[st] = p + ": " + firstLines(e, 4)
		}
	}
	var okPkgs []string
	for _, p := range pkgs {
		st := owner[p]
		if _, bad := broken[st]; !bad {
			okPkgs = append(okPkgs, p)
		}
	}
	// requests that failed to compile: is the schema inside the supported subset? ask upstream protoc-gen-go
	if len(broken) > 0 {
		g.judgeWithReference(broken)
	}
	for _, st := range states {
		if why, bad := broken[st]; bad {
			st.failed = true
			if st.skipped == "reference-fails-too" {
				st.failed = false
				continue
			}
			if st.req.expect == corpus.ExpNoCrash {
				st.failed, st.skipped = false, "unsupported-output-does-not-compile"
				continue
			}
			g.fail("C12", st.req, "emitted code does not compile: "+why)
		} else if st.genOK {
			g.pass("C12")
		}
	}
	// init + smoke: a main importing every package that built
	g.smoke(dir, okPkgs, owner, states, tag)
}

func (g *genCtx) judgeWithReference(broken map[*c12State]string) {
	if !g.ensureRefPlugin() {
		return
	}
	dir := filepath.Join(g.build, "gencheck", fmt.Sprintf("%s-%d-ref", g.cfg.tier, g.cfg.seed))
	files := map[string]string{}
	owner := map[string]*c12State{}
	for st := range broken {
		r := st.req
		res := runPlugin(g.refPlug, r.request(dropFeatures(r.param), r.generate), nil, "")
		if bad, _ := res.crashed(); bad || res.resp.Error != nil {
			st.skipped = "reference-fails-too"
			continue
		}
		for _, f := range res.resp.File {
			if !strings.HasPrefix(f.GetName(), corpus.GenCheckBase) {
				continue
			}
			rel := strings.TrimPrefix(f.GetName(), corpus.GenCheckBase)
			files[rel] = f.GetContent()
			pkg := corpus.GenCheckBase + filepath.Dir(rel)
			owner[pkg] = st
		}
	}
	if len(files) == 0 {
		return
	}
	if err := g.writeModule(dir, files); err != nil {
		return
	}
	var pkgs []string
	for p := range owner {
		pkgs = append(pkgs, p)
	}
	for p := range g.buildPackages(dir, pkgs) {
		if st, ok := owner[p]; ok {
			st.skipped = "reference-fails-too"
			g.o.count("reference-fails-too/" + st.req.name)
		}
	}
}

func (g *genCtx) smoke(dir string, pkgs []string, owner map[string]*c12State, states []*c12State, tag string) {
	if len(pkgs) == 0 {
		return
	}
	// the request descriptors, so that the smoke test can compare registered descriptors with the request (C19 on these packages)
	set := &descriptorpb.FileDescriptorSet{}
	fileOwner := map[string]*c12State{}
	okState := map[*c12State]bool{}
	for _, p := range pkgs {
		okState[owner[p]] = true
	}
	for _, st := range states {
		if !okState[st] {
			continue
		}
		for _, name := range requestedProto3(st.req) {
			for _, f := range st.req.files {
				if f.GetName() == name {
					set.File = append(set.File, f)
					fileOwner[name] = st
				}
			}
		}
	}
	setBytes, _ := proto.Marshal(set)
	run := func(ps []string) (string, error, bool) {
		var sb strings.Builder
		sb.WriteString("package main\n\nimport (\n")
		for _, p := range ps {
			fmt.Fprintf(&sb, "\t_ %q\n", p)
		}
		sb.WriteString(")\n")
		d := filepath.Join(dir, "cmd", "smoke")
		os.MkdirAll(d, 0o755)
		os.WriteFile(filepath.Join(d, "imports.go"), []byte(sb.String()), 0o644)
		os.WriteFile(filepath.Join(d, "main.go"), []byte(smokeMainSrc), 0o644)
		os.WriteFile(filepath.Join(d, "set.bin"), setBytes, 0o644)
		if outp, err := g.goRun(dir, 20*time.Minute, "go", "build", "-trimpath", "-o", filepath.Join(d, "smoke.bin"), "./cmd/smoke"); err != nil {
			return outp, err, true
		}
		outp, err := g.goRun(d, 5*time.Minute, filepath.Join(d, "smoke.bin"), filepath.Join(d, "set.bin"), fmt.Sprint(g.cfg.seed))
		return outp, err, false
	}
	// init panics kill the whole program: bisect to the package
	var good []string
	var bisect func(ps []string)
	bisect = func(ps []string) {
		outp, err, buildFail := run(ps)
		if err == nil {
			good = append(good, ps...)
			return
		}
		if len(ps) == 1 {
			st := owner[ps[0]]
			st.failed = true
			what := "package initialisation / smoke program crashed: "
			if buildFail {
				what = "program importing the package does not link: "
			}
			g.fail("C12", st.req, what+firstLines(outp, 6))
			return
		}
		bisect(ps[:len(ps)/2])
		bisect(ps[len(ps)/2:])
	}
	outp, err, _ := run(pkgs)
	if err != nil {
		bisect(pkgs)
		if len(good) == 0 {
			return
		}
		outp, err, _ = run(good)
		if err != nil {
			fmt.Fprintln(os.Stderr, "smoke program fails on packages that passed alone:", firstLines(outp, 5))
			for _, p := range good {
				g.fail("C12", owner[p].req, "smoke program crashed when linked with the other packages: "+firstLines(outp, 4))
			}
			return
		}
	}
	for _, line := range strings.Split(outp, "\n") {
		t := strings.Split(line, "\t")
		switch t[0] {
		case "FAIL": // FAIL \t prop \t file \t what
			if len(t) >= 4 {
				if st := fileOwner[t[2]]; st != nil {
					st.failed = true
					g.o.withKey(st.req.key()).prop(t[1], false, st.req.name+": "+t[3])
				}
			}
		case "OK": // OK \t prop \t n
			if len(t) >= 3 {
				var n int
				fmt.Sscan(t[2], &n)
				if t[1] == "C12" {
					g.o.propOK += n
				}
			}
		case "STAT":
			if len(t) >= 3 {
				var n int
				fmt.Sscan(t[2], &n)
				g.o.hist["smoke"+tag+"/"+t[1]] += n
			}
		case "DISTINCT":
			if len(t) >= 2 {
				g.o.nontrivial(tag + t[1])
			}
		}
	}
}

// ---- identifier model lines ------------------------------------------------------------------------------------------
var (
	reMd      = regexp.MustCompile(`(?m)^\t(md_\S+) = (File_\S+?)((?:\.Messages\(\)\.ByName\("[^"]+"\))+)$`)
	reFd      = regexp.MustCompile(`(?m)^\t(fd_\S+) = (md_\S+)\.Fields\(\)\.ByName\("([^"]+)"\)$`)
	reByName  = regexp.MustCompile(`ByName\("([^"]+)"\)`)
	reFastTy  = regexp.MustCompile(`(?m)^type (fastReflection_\S+) (\S+)$`)
	reMsgTy   = regexp.MustCompile(`(?m)^var (_fastReflection_\S+) (fastReflection_\S+_messageType)$`)
	reSlow    = regexp.MustCompile(`(?m)^func \(x \*(\S+)\) slowProtoReflect\(\) protoreflect\.Message \{\n\tmi := &(\S+)\[(\d+)\]$`)
	reCase    = regexp.MustCompile(`^\tcase "([^"]+)":$`)
	reListMap = regexp.MustCompile(`&(_[A-Za-z0-9_]+_(?:list|map))\{`)
	reGetFn   = regexp.MustCompile(`^func \(x \*fastReflection_(\S+)\) Get\(`)
	reStruct  = regexp.MustCompile(`^type (\S+) struct \{$`)
	reOneofM  = regexp.MustCompile("^\t(\\S+)\\s+\\S+\\s+`protobuf_oneof:\"([^\"]+)\"`")
	reTagged  = regexp.MustCompile("^\t(\\S+)\\s+\\S.*`protobuf:\"[a-z0-9]+,(\\d+),")
)

// protogen's view of the request (GoIdents, GoNames are inputs of the model, taken as given)
func protogenView(r *genReq) (*protogen.Plugin, error) {
	req := &pluginpb.CodeGeneratorRequest{}
	if err := proto.Unmarshal(r.request(r.param, r.generate), req); err != nil {
		return nil, err
	}
	return protogen.Options{ParamFunc: func(string, string) error { return nil }}.New(req)
}

func sx(s string) string { return "[" + s + "]" }

func (g *genCtx) identLines(st *c12State) {
	o := g.o
	pl, err := protogenView(st.req)
	if err != nil {
		return
	}
	contentOf := map[string]string{}
	for _, f := range st.res.resp.File {
		contentOf[f.GetName()] = f.GetContent()
	}
	gpObs := &gpRewriteObs{}
	defer func() { g.gp.rewriteLine(o, st.req, pl, gpObs) }()
	for _, file := range pl.Files {
		if !file.Generate || file.Desc.Syntax() != protoreflect.Proto3 {
			continue
		}
		src, ok := contentOf[file.GeneratedFilenamePrefix+".pulsar.go"]
		if !ok {
			continue
		}
		srcLines := strings.Split(src, "\n")
		// what the source declares
		mdOf := map[string]string{} // message path "A.B" -> md ident
		mdPath := map[string]string{}
		for _, m := range reMd.FindAllStringSubmatch(src, -1) {
			var path []string
			for _, b := range reByName.FindAllStringSubmatch(m[3], -1) {
				path = append(path, b[1])
			}
			mdOf[strings.Join(path, ".")] = m[1]
			mdPath[m[1]] = strings.Join(path, ".")
		}
		fdOf := map[string][]string{} // "md ident/field" -> fd idents
		for _, m := range reFd.FindAllStringSubmatch(src, -1) {
			fdOf[m[2]+"/"+m[3]] = append(fdOf[m[2]+"/"+m[3]], m[1])
		}
		fastOf := map[string]string{}
		for _, m := range reFastTy.FindAllStringSubmatch(src, -1) {
			fastOf[m[2]] = m[1]
		}
		slowIdx := map[string]string{}
		for _, m := range reSlow.FindAllStringSubmatch(src, -1) {
			slowIdx[m[1]] = m[3]
		}
		msgTyVar := map[string]string{}
		for _, m := range reMsgTy.FindAllStringSubmatch(src, -1) {
			msgTyVar[m[2]] = m[1]
		}
		contOf := map[string]string{} // field full name -> list/map type ident used in Get
		structField := map[string]string{}
		{
			inGet, curCase, curStruct := false, "", ""
			for _, line := range strings.Split(src, "\n") {
				if reGetFn.MatchString(line) {
					inGet = true
				} else if line == "}" {
					inGet, curStruct = false, ""
				}
				if inGet {
					if m := reCase.FindStringSubmatch(line); m != nil {
						curCase = m[1]
					} else if m := reListMap.FindStringSubmatch(line); m != nil && curCase != "" {
						contOf[curCase] = m[1]
					}
				}
				if m := reStruct.FindStringSubmatch(line); m != nil {
					curStruct = m[1]
				} else if curStruct != "" {
					if m := reTagged.FindStringSubmatch(line); m != nil {
						structField[curStruct+"/"+m[2]] = m[1]
					}
					if m := reOneofM.FindStringSubmatch(line); m != nil {
						structField[curStruct+"/oneof/"+m[2]] = m[1]
					}
				}
			}
		}
		// the flattened message tree of the file for the index model: (name child...)...
		var tree func(ms []*protogen.Message) string
		tree = func(ms []*protogen.Message) string {
			var sb strings.Builder
			for _, m := range ms {
				sb.WriteString("(" + string(m.Desc.Name()))
				if len(m.Messages) > 0 {
					sb.WriteString(" " + tree(m.Messages))
				}
				sb.WriteString(")")
			}
			return sb.String()
		}
		gpObs.file(file, structField)
		treeS := tree(file.Messages)
		if treeS == "" {
			treeS = "()"
		}
		var walk func(ms []*protogen.Message, path []string)
		walk = func(ms []*protogen.Message, path []string) {
			for _, m := range ms {
				if m.Desc.IsMapEntry() {
					continue
				}
				p := append(append([]string{}, path...), string(m.Desc.Name()))
				ps := strings.Join(p, ".")
				gn := m.GoIdent.GoName
				o.kase("GENID", []string{"md", sx(gn)}, orMissing(mdOf[ps]))
				o.kase("GENID", []string{"fast", sx(gn)}, orMissing(fastOf[gn]))
				o.kase("GENID", []string{"msgtype", sx(gn)}, orMissing(msgTyVar["fastReflection_"+gn+"_messageType"]))
				o.kase("GENMSGIDX", []string{treeS, sx(ps)}, orMissing(slowIdx[gn]))
				o.nontrivial(fmt.Sprintf("idx/%d/%d", len(p), len(m.Messages)))
				for _, f := range m.Fields {
					ids := fdOf[mdOf[ps]+"/"+string(f.Desc.Name())]
					sort.Strings(ids)
					o.kase("GENID", []string{"fd", sx(gn), sx(string(f.Desc.Name()))}, orMissing(strings.Join(uniq(ids), ",")))
					switch {
					case f.Desc.IsMap():
						o.kase("GENID", []string{"map", sx(gn), fmt.Sprint(f.Desc.Number())}, orMissing(contOf[string(f.Desc.FullName())]))
					case f.Desc.IsList():
						o.kase("GENID", []string{"list", sx(gn), fmt.Sprint(f.Desc.Number())}, orMissing(contOf[string(f.Desc.FullName())]))
					}
					if f.Oneof == nil || f.Oneof.Desc.IsSynthetic() {
						// the struct member the generated code uses for the field: protogen's GoName after the plugin's rewrite
						o.kase("GENFIELD", []string{sx(f.GoName)}, orMissing(structField[gn+"/"+fmt.Sprint(f.Desc.Number())]))
						o.count("ident/field")
					}
				}
				for _, oo := range m.Oneofs {
					if !oo.Desc.IsSynthetic() {
						// protogen's GoName of the oneof before the plugin's rewrite -> the struct member in the emitted code
						o.kase("GENONEOF", []string{sx(oo.GoName)}, orMissing(structField[gn+"/oneof/"+string(oo.Desc.Name())]))
					}
				}
				o.count("ident/message")
				if spec, ok := sizeSpec(m); ok {
					o.kase("GENSIZEBR", []string{sx(spec)}, orMissing(sizeOpens(src, gn)))
					for _, t := range brTemplates {
						o.kase("GENBR", []string{t, sx(spec)}, orMissing(methodOpens(srcLines, t, gn)))
					}
				}
				walk(m.Messages, p)
			}
		}
		walk(file.Messages, nil)
		// goTypes / depIdxs tables handed to protoimpl.TypeBuilder vs the model's prediction from the descriptor
		if strings.Contains(src, "protoimpl.TypeBuilder") || strings.Contains(src, ".TypeBuilder{") {
			o.kase("GENDEPIDX", []string{depSpec(file)}, orMissing(depTables(src)))
			o.count("ident/deptable")
			o.nontrivial(fmt.Sprintf("dep/%d/%d/%d", len(file.Messages), len(file.Services), len(file.Extensions)))
		}
	}
}

func orMissing(s string) string {
	if s == "" {
		return "?"
	}
	return s
}

func uniq(xs []string) []string {
	var out []string
	for i, x := range xs {
		if i == 0 || x != xs[i-1] {
			out = append(out, x)
		}
	}
	return out
}

// sizeSpec renders the fields of a message for the brace-skeleton model of the size template: kind:shape:oneof
func sizeSpec(m *protogen.Message) (string, bool) {
	var parts []string
	kindTok := func(fd protoreflect.FieldDescriptor) string {
		switch fd.Kind() {
		case protoreflect.MessageKind:
			return "msg"
		case protoreflect.GroupKind:
			return "group"
		}
		return kindNames[fd.Kind()]
	}
	for _, f := range m.Fields {
		fd := f.Desc
		if f.Oneof != nil && f.Oneof.Desc.IsSynthetic() {
			return "", false // proto3 optional: outside the supported subset
		}
		k, shape, one := kindTok(fd), "s", "-"
		switch {
		case fd.IsMap():
			k, shape = kindTok(fd.MapValue()), "m."+kindNames[fd.MapKey().Kind()]
		case fd.IsList() && fd.IsPacked():
			shape = "p"
		case fd.IsList():
			shape = "u"
		}
		if f.Oneof != nil {
			one = fmt.Sprint(f.Oneof.Desc.Index())
		}
		parts = append(parts, k+":"+shape+":"+one)
	}
	return strings.Join(parts, " "), true
}

var reSizeStart = regexp.MustCompile(`^\tsize := func\(input \S+\.SizeInput\) \S+\.SizeOutput \{$`)

// sizeOpens counts the lines ending in '{' of the size closure of fastReflection_<goName>.ProtoMethods
func sizeOpens(src, goName string) string {
	lines := strings.Split(src, "\n")
	hdr := "func (x *fastReflection_" + goName + ") ProtoMethods() "
	in, inSize, n := false, false, 0
	for _, l := range lines {
		if strings.HasPrefix(l, hdr) {
			in = true
			continue
		}
		if !in {
			continue
		}
		if !inSize {
			if reSizeStart.MatchString(l) {
				inSize, n = true, 1
			}
			continue
		}
		if strings.HasPrefix(l, "\tmarshal := func(") {
			return fmt.Sprint(n)
		}
		if strings.HasSuffix(strings.TrimRight(l, " \t"), "{") {
			n++
		}
	}
	return ""
}

// depSpec renders what genReflectFileDescriptor sees of a file: (F (E enum...) (X (x extendee type|-)...) (MS msg...) (SV (S (m in out)...)...))
// with msg = (M full (E enum...) (X ext...) (R ref|-...) (N msg...)); all names are full names
func depSpec(file *protogen.File) string {
	var sb strings.Builder
	enums := func(es []*protogen.Enum) {
		sb.WriteString("(E")
		for _, e := range es {
			sb.WriteString(" " + string(e.Desc.FullName()))
		}
		sb.WriteString(")")
	}
	exts := func(xs []*protogen.Extension) {
		sb.WriteString("(X")
		for _, x := range xs {
			t := "-"
			if x.Enum != nil {
				t = string(x.Enum.Desc.FullName())
			} else if x.Message != nil {
				t = string(x.Message.Desc.FullName())
			}
			sb.WriteString(" (x " + string(x.Extendee.Desc.FullName()) + " " + t + ")")
		}
		sb.WriteString(")")
	}
	var msgs func(ms []*protogen.Message)
	msgs = func(ms []*protogen.Message) {
		for _, m := range ms {
			sb.WriteString("(M " + string(m.Desc.FullName()) + " ")
			enums(m.Enums)
			exts(m.Extensions)
			sb.WriteString("(R")
			for _, f := range m.Fields {
				switch {
				case f.Enum != nil:
					sb.WriteString(" " + string(f.Enum.Desc.FullName()))
				case f.Message != nil:
					sb.WriteString(" " + string(f.Message.Desc.FullName()))
				default:
					sb.WriteString(" -")
				}
			}
			sb.WriteString(")(N")
			msgs(m.Messages)
			sb.WriteString("))")
		}
	}
	sb.WriteString("(F ")
	enums(file.Enums)
	exts(file.Extensions)
	sb.WriteString("(MS")
	msgs(file.Messages)
	sb.WriteString(")(SV")
	for _, sv := range file.Services {
		sb.WriteString("(S")
		for _, me := range sv.Methods {
			sb.WriteString(" (m " + string(me.Input.Desc.FullName()) + " " + string(me.Output.Desc.FullName()) + ")")
		}
		sb.WriteString(")")
	}
	sb.WriteString("))")
	return sb.String()
}

var (
	reGoTypesStart = regexp.MustCompile(`^var file_\S+_goTypes = \[\]interface\{\}\{(\})?$`)
	reDepIdxsStart = regexp.MustCompile(`^var file_\S+_depIdxs = \[\]int32\{(\})?$`)
	reGoTypeLine   = regexp.MustCompile(`// (\d+): (\S+)$`)
	reDepLine      = regexp.MustCompile(`^\t(-?\d+),`)
)

// depTables parses the emitted goTypes (full names from the line comments, in order, indexes checked) and depIdxs tables
func depTables(src string) string {
	var names, idxs []string
	mode := ""
	seenG, seenD := false, false
	for _, l := range strings.Split(src, "\n") {
		switch {
		case mode == "" && reGoTypesStart.MatchString(l):
			seenG = true
			if !strings.HasSuffix(l, "{}") {
				mode = "g"
			}
		case mode == "" && reDepIdxsStart.MatchString(l):
			seenD = true
			if !strings.HasSuffix(l, "{}") {
				mode = "d"
			}
		case mode != "" && l == "}":
			mode = ""
		case mode == "g":
			m := reGoTypeLine.FindStringSubmatch(l)
			if m == nil || m[1] != fmt.Sprint(len(names)) {
				return "unparsable-goTypes-line:" + strings.TrimSpace(l)
			}
			names = append(names, m[2])
		case mode == "d":
			m := reDepLine.FindStringSubmatch(l)
			if m == nil {
				return "unparsable-depIdxs-line:" + strings.TrimSpace(l)
			}
			idxs = append(idxs, m[1])
		}
	}
	if !seenG || !seenD {
		return ""
	}
	return strings.Join(names, ",") + "|" + strings.Join(idxs, ",")
}

// templates whose brace skeleton is modelled in Model/GenTemplates2.v
var brTemplates = []string{"has", "clear", "get", "set", "mutable", "newfield", "range", "whichoneof", "marshal", "unmarshal"}

var brMethodName = map[string]string{"has": "Has", "clear": "Clear", "get": "Get", "set": "Set", "mutable": "Mutable", "newfield": "NewField", "range": "Range", "whichoneof": "WhichOneof"}
var reMethodsRet = regexp.MustCompile(`^\treturn &\S+\.Methods\{$`)

// methodOpens counts the lines ending in '{' of one generated method of fastReflection_<goName> (for marshal / unmarshal:
// of the closure inside ProtoMethods)
func methodOpens(lines []string, tmpl, goName string) string {
	count := func(from, to int) string {
		n := 0
		for _, l := range lines[from:to] {
			if strings.HasSuffix(strings.TrimRight(l, " \t"), "{") {
				n++
			}
		}
		return fmt.Sprint(n)
	}
	if name, ok := brMethodName[tmpl]; ok {
		hdr := "func (x *fastReflection_" + goName + ") " + name + "("
		for i, l := range lines {
			if strings.HasPrefix(l, hdr) {
				for j := i + 1; j < len(lines); j++ {
					if lines[j] == "}" {
						return count(i, j)
					}
				}
			}
		}
		return ""
	}
	hdr := "func (x *fastReflection_" + goName + ") ProtoMethods() "
	for i, l := range lines {
		if !strings.HasPrefix(l, hdr) {
			continue
		}
		m, u, e := -1, -1, -1
		for j := i + 1; j < len(lines) && lines[j] != "}"; j++ {
			switch {
			case strings.HasPrefix(lines[j], "\tmarshal := func("):
				m = j
			case strings.HasPrefix(lines[j], "\tunmarshal := func("):
				u = j
			case reMethodsRet.MatchString(lines[j]):
				e = j
			}
		}
		if m < 0 || u < 0 || e < 0 {
			return ""
		}
		if tmpl == "marshal" {
			return count(m, u)
		}
		return count(u, e)
	}
	return ""
}
