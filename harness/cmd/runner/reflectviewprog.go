package main

// Engine "reflectviewprog" — translator tie for the generated list / map wrapper types of fast reflection (coq/Model/ReflectViewProg.v;
// continues reflectprog.go, whose token-pattern matcher and type helpers it reuses).
//
// On every run, for every repeated / map field of every generated message type of every loaded schema set, the Go SOURCE of the wrapper
// type the templates features/fastreflection/list.go and map.go print for it
//     _<T>_<N>_list : Len Get Set Append AppendMutable Truncate NewElement IsValid
//     _<T>_<N>_map  : Len Range Has Clear Get Set Mutable NewValue IsValid
// (checked-in *.pulsar.go under VERIF_REPO, freshly generated ones under harness/gen/<set>/) is parsed with go/parser. The frame is checked
// literally (the assertion `var _ protoreflect.List = (*_T_N_list)(nil)`, the struct with its single field `list *[]E` / `m *map[K]V` of the
// field's Go type, exactly the template's methods, each declared once with the template's signature) and every method body is translated,
// statement by statement and purely syntactically, into the syntax of Model/ReflectViewProg.v: a statement must be, token for token, one
// of the lines the templates print (the patterns below; what varies — the Value accessor, the cast, the ValueOf… constructor, the zero
// literal, the message type — is a hole whose content is mapped to the model's parameter; local variables must carry the template's names
// and be defined before they are used). Anything else makes the method "untranslatable". The driver compares the translated methods with the
// canonical ones (canon_view of the schema) and runs the Coq interpreter on the TRANSLATED methods against the running code.
//
// Case lines (evaluated by driver/reflectviewprog_eval.ml, which also documents the text form):
//	REFLECTVIEWPROG <set> <idx> <f> kind             = list|map|untranslatable:…   the frame (model: the kind of canon_view sch idx f)
//	REFLECTVIEWPROG <set> <idx> <f> <method> <k>     = k-th statement              (model: the k-th of the canonical method, "-" if none)
//	REFLECTVIEWPROG <set> <idx> <f> <method> len     = number of statements | untranslatable:<file>:<line>:<col>:<why>
//	@REFLECTVIEWDEF <set> <idx> <f> <method> <text>  = ok     context line: the translated method, remembered by every driver shard
//	REFLECTVIEWPROG <set> <idx> <f> <method> eqb     = same   (model: the translated method is the canonical one)
//	REFLECTVIEWPROG <set> <idx> <f> all eqb          = same   (model: lprogs_eqb / mprogs_eqb <the translated methods> (canon_view sch idx f))
//	REFLECTVIEWRUN  <set> <idx> <VAL> <ops>          = <out>|<root>;…   one history on a struct built from VAL (grammar of HISTV lines):
//	                                                   model: the same history with the list / map operations INTERPRETED from the
//	                                                   translated methods of the wrapper type the view was made by

import (
	"fmt"
	"go/ast"
	"go/parser"
	"go/token"
	"os"
	"path/filepath"
	"reflect"
	"sort"
	"strconv"
	"strings"

	"google.golang.org/protobuf/proto"
)

func init() { engines["reflectviewprog"] = engineReflectViewProg }

var vpListMethods = []string{"Len", "Get", "Set", "Append", "AppendMutable", "Truncate", "NewElement", "IsValid"}
var vpMapMethods = []string{"Len", "Range", "Has", "Clear", "Get", "Set", "Mutable", "NewValue", "IsValid"}

var vpSigs = map[string]map[string]string{
	"list": {"Len": "Len() int", "Get": "Get(i int) PR.Value", "Set": "Set(i int, value PR.Value)", "Append": "Append(value PR.Value)",
		"AppendMutable": "AppendMutable() PR.Value", "Truncate": "Truncate(n int)", "NewElement": "NewElement() PR.Value", "IsValid": "IsValid() bool"},
	"map": {"Len": "Len() int", "Range": "Range(f func(PR.MapKey, PR.Value) bool)", "Has": "Has(key PR.MapKey) bool", "Clear": "Clear(key PR.MapKey)",
		"Get": "Get(key PR.MapKey) PR.Value", "Set": "Set(key PR.MapKey, value PR.Value)", "Mutable": "Mutable(key PR.MapKey) PR.Value",
		"NewValue": "NewValue() PR.Value", "IsValid": "IsValid() bool"},
}

// ---- package source: the wrapper types -----------------------------------------------------------------------------------
type vpWrapper struct {
	f       *spFile
	asserts []*ast.ValueSpec // var _ <iface> = (*<name>)(nil)
	types   []*ast.TypeSpec
	methods map[string][]*ast.FuncDecl
}
type vpPkg struct {
	rp       *rpPkg // file set only
	wrappers map[string]*vpWrapper
	err      error
}

var vpPkgs = map[string]*vpPkg{}

func vpIsWrapperName(n string) bool {
	return strings.HasPrefix(n, "_") && (strings.HasSuffix(n, "_list") || strings.HasSuffix(n, "_map"))
}

func vpPkgOf(mi *msgInfo) *vpPkg {
	pp := mi.goType.PkgPath()
	if p, ok := vpPkgs[pp]; ok {
		return p
	}
	var p *vpPkg
	if dir := spDir(pp); dir != "" {
		p = vpLoad(dir)
	} else {
		p = &vpPkg{err: fmt.Errorf("no source directory known for package %s", pp)}
	}
	vpPkgs[pp] = p
	return p
}

func vpLoad(dir string) *vpPkg {
	p := &vpPkg{rp: &rpPkg{fset: token.NewFileSet()}, wrappers: map[string]*vpWrapper{}}
	get := func(name string, f *spFile) *vpWrapper {
		w := p.wrappers[name]
		if w == nil {
			w = &vpWrapper{f: f, methods: map[string][]*ast.FuncDecl{}}
			p.wrappers[name] = w
		}
		if w.f != f {
			w.f = nil // spread over several files: not the template's output
		}
		return w
	}
	all, _ := filepath.Glob(filepath.Join(dir, "*.go"))
	sort.Strings(all)
	found := false
	for _, path := range all {
		if strings.HasSuffix(path, "_test.go") {
			continue
		}
		src, err := os.ReadFile(path)
		if err != nil {
			p.err = err
			return p
		}
		af, err := parser.ParseFile(p.rp.fset, path, src, 0)
		if err != nil {
			p.err = err
			return p
		}
		// identifiers the patterns rely on: a package that declares one of them itself is not translated
		for _, name := range append(append([]string{}, rpPredeclared...), "append", "delete", "int") {
			if af.Scope.Lookup(name) != nil {
				p.err = fmt.Errorf("%s declares %s at package level", filepath.Base(path), name)
				return p
			}
		}
		pulsar := strings.HasSuffix(path, ".pulsar.go")
		found = found || pulsar
		f := &spFile{path: path, src: src, file: af, imports: map[string]string{}}
		for _, im := range af.Imports {
			ip, _ := strconv.Unquote(im.Path.Value)
			name := filepath.Base(ip)
			if im.Name != nil {
				name = im.Name.Name
			}
			f.imports[ip] = name
		}
		for _, d := range af.Decls {
			switch v := d.(type) {
			case *ast.GenDecl:
				for _, s := range v.Specs {
					switch sp := s.(type) {
					case *ast.TypeSpec:
						if vpIsWrapperName(sp.Name.Name) {
							w := get(sp.Name.Name, f)
							w.types = append(w.types, sp)
						}
					case *ast.ValueSpec:
						// var _ I = (*<name>)(nil)
						if v.Tok == token.VAR && len(sp.Names) == 1 && sp.Names[0].Name == "_" && len(sp.Values) == 1 {
							if c, ok := sp.Values[0].(*ast.CallExpr); ok {
								if pe, ok := c.Fun.(*ast.ParenExpr); ok {
									if st, ok := pe.X.(*ast.StarExpr); ok {
										if id, ok := st.X.(*ast.Ident); ok && vpIsWrapperName(id.Name) {
											w := get(id.Name, f)
											w.asserts = append(w.asserts, sp)
										}
									}
								}
							}
						}
					}
				}
			case *ast.FuncDecl:
				if v.Recv == nil || len(v.Recv.List) != 1 {
					continue
				}
				var id *ast.Ident
				switch rt := v.Recv.List[0].Type.(type) {
				case *ast.StarExpr:
					id, _ = rt.X.(*ast.Ident)
				case *ast.Ident:
					id = rt
				}
				if id == nil || !vpIsWrapperName(id.Name) {
					continue
				}
				w := get(id.Name, f)
				w.methods[v.Name.Name] = append(w.methods[v.Name.Name], v)
			}
		}
		if !pulsar {
			// a wrapper (or a method of one) declared outside the generated files is not the template's output
			for _, w := range p.wrappers {
				if w.f == f {
					w.f = nil
				}
			}
		}
	}
	if !found {
		p.err = fmt.Errorf("no *.pulsar.go in %s", dir)
	}
	return p
}

// ---- the translator of one wrapper type ------------------------------------------------------------------------------------
type vpTr struct {
	*rpTr
	w      *vpWrapper
	name   string // the wrapper type
	kind   string // list | map
	P      string // the wrapper's field: list | m
	fidx   int
	elemT  reflect.Type // element / value Go type
	keyT   reflect.Type
	method string
	roles  map[string]string // local variable -> what it holds
}

type vpMeth struct {
	items []string
	fail  string
}

func (m *vpMeth) text() string {
	return "(body" + strings.Join(append([]string{""}, m.items...), " ") + ")"
}

var vpUnwrappers = map[string]bool{"Bool": true, "Enum": true, "Int": true, "Uint": true, "Float": true, "String": true, "Bytes": true, "Message": true}

func (t *vpTr) sub(pat string) string { return strings.ReplaceAll(pat, "x.P", "x."+t.P) }
func (t *vpTr) m(pat string, src []string) rpBind {
	return t.match(t.sub(pat), src)
}
func (t *vpTr) need(v, role string) {
	if t.roles[v] != role {
		t.fail("%s is used as %s but holds %q here", v, role, t.roles[v])
	}
}
func (t *vpTr) def(v, role string) {
	if _, dup := t.roles[v]; dup {
		t.fail("%s is declared twice", v)
	}
	t.roles[v] = role
}

// <c>(<in>Unwrapped): the cast of genPrefValueToGoValue; goT: the Go type the result must have
func (t *vpTr) cast(src []string, in string, goT reflect.Type) string {
	u := in + "Unwrapped"
	if t.match(u, src) != nil {
		return "none"
	}
	for _, c := range []struct{ ty, out string }{{"int32", "i32"}, {"uint32", "u32"}, {"float32", "f32"}} {
		if t.match("("+c.ty+")("+u+")", src) != nil {
			return c.out
		}
	}
	if b := t.match(u+".Interface().(*HOLES_T)", src); b != nil {
		return fmt.Sprintf("(msg %d)", t.msgType(b["HOLES_T"]))
	}
	if b := t.match("(HOLES_E)("+u+")", src); b != nil {
		t.typeToksAre(b["HOLES_E"], goT, "the enum conversion")
		return "enum"
	}
	t.fail("`%s` is not one of the template's conversions of %s", strings.Join(src, " "), u)
	return ""
}

// <w>(<e>): how the Go value e is wrapped into a protoreflect.Value
func (t *vpTr) wrap(src []string, e string) string {
	if t.match("PR.ValueOfMessage("+e+".ProtoReflect())", src) != nil {
		return "msg"
	}
	if t.match("PR.ValueOfEnum((PR.EnumNumber)("+e+"))", src) != nil {
		return "enumnum"
	}
	if t.match("PR.ValueOfEnum("+e+".Number())", src) != nil {
		return "enummeth"
	}
	if b := t.match("PR.HOLE_C("+e+")", src); b != nil {
		return "(of " + t.ctor(one(b, "HOLE_C")) + ")"
	}
	t.fail("`%s` is not one of the template's Value constructions of %s", strings.Join(src, " "), e)
	return ""
}

func (t *vpTr) keyName() string {
	if t.method == "Has" {
		return "concreteValue"
	}
	return "concreteKey"
}

// one or two statements starting at body[k] -> (text, statements consumed)
func (t *vpTr) stmt(body []ast.Stmt, k int) (string, int) {
	t.at = body[k]
	src := spToks(t.text(body[k]))
	// the two lines of genPrefValueToGoValue
	if k+1 < len(body) {
		two := spToks(t.textRange(body[k], body[k+1]))
		if b := t.match("valueUnwrapped := value.HOLE_U(); concreteValue := HOLES_X", two); b != nil {
			if !vpUnwrappers[one(b, "HOLE_U")] {
				t.fail("value.%s() is not a Value accessor the templates use", one(b, "HOLE_U"))
			}
			t.def("valueUnwrapped", "raw")
			t.def("concreteValue", "val")
			return fmt.Sprintf("(val %s %s)", one(b, "HOLE_U"), t.cast(b["HOLES_X"], "value", t.elemT)), 2
		}
		if b := t.match("keyUnwrapped := key.HOLE_U(); "+t.keyName()+" := HOLES_X", two); b != nil && t.kind == "map" {
			if !vpUnwrappers[one(b, "HOLE_U")] {
				t.fail("key.%s() is not a MapKey accessor the templates use", one(b, "HOLE_U"))
			}
			t.def("keyUnwrapped", "raw")
			t.def(t.keyName(), "key")
			return fmt.Sprintf("(key %s %s)", one(b, "HOLE_U"), t.cast(b["HOLES_X"], "key", t.keyT)), 2
		}
	}
	fixed := []struct{ pat, out, kind string }{
		{"if x.P == nil { return 0 }", "nilret0", ""},
		{"return len(*x.P)", "retlen", ""},
		{"return x.P != nil", "retnotnil", ""},
		{"if x.P == nil { return }", "nilret", "map"},
		{"if x.P == nil { return false }", "nilretfalse", "map"},
		{"if x.P == nil { return PR.Value{} }", "nilretinvalid", "map"},
		{`if !key.IsValid() || !value.IsValid() { panic("invalid key or value provided") }`, "validguard", "map"},
		{"for i := n; i < len(*x.P); i++ { (*x.P)[i] = nil }", "zeroloop", "list"},
		{"*x.P = (*x.P)[:n]", "slice", "list"},
	}
	for _, f := range fixed {
		if (f.kind == "" || f.kind == t.kind) && t.m(f.pat, src) != nil {
			return f.out, 1
		}
	}
	// local variables
	if b := t.match("HOLE_V := new(HOLES_T)", src); b != nil {
		v := one(b, "HOLE_V")
		if v != "v" && !(v == "newValue" && t.method == "Mutable" && t.kind == "map") {
			t.fail("new(…) is assigned to %s", v)
		}
		t.def(v, "new")
		return fmt.Sprintf("(new %d)", t.msgType(b["HOLES_T"])), 1
	}
	if t.match("var v []byte", src) != nil {
		t.def("v", "zero")
		return "varbytes", 1
	}
	if b := t.match("v := HOLES_Z", src); b != nil {
		if z, ok := rpZeros[strings.Join(b["HOLES_Z"], " ")]; ok {
			t.def("v", "zero")
			return "(zero " + z + ")", 1
		}
	}
	for _, v := range []string{"v", "newValue"} {
		if t.roles[v] == "new" && t.match("return PR.ValueOfMessage("+v+".ProtoReflect())", src) != nil {
			return "retnew", 1
		}
	}
	if len(src) > 1 && src[0] == "return" && t.roles["v"] == "zero" {
		return "(retzero " + t.wrap(src[1:], "v") + ")", 1
	}
	if t.kind == "list" {
		if t.match(`panic(FMT.Errorf(HOLE_S))`, src) != nil && t.fm != "" {
			b := t.match(`panic(FMT.Errorf(HOLE_S))`, src)
			want := fmt.Sprintf("AppendMutable can not be called on message %s at list field %s as it is not of Message kind", t.mi.goType.Name(), t.mi.goType.Field(t.mi.fields[t.fidx].sf).Name)
			if one(b, "HOLE_S") != strconv.Quote(want) {
				t.fail("the panic message is not the template's")
			}
			return "panic", 1
		}
		if len(src) > 1 && src[0] == "return" && t.roles["v"] == "" {
			if rest := src[1:]; len(rest) > 0 {
				// return <w>((*x.list)[i])
				for _, e := range []string{"(*x.list)[i]"} {
					if t.match("PR.ValueOfMessage("+e+".ProtoReflect())", rest) != nil {
						return "(retidx msg)", 1
					}
					if t.match("PR.ValueOfEnum((PR.EnumNumber)("+e+"))", rest) != nil {
						return "(retidx enumnum)", 1
					}
					if b := t.match("PR.HOLE_C("+e+")", rest); b != nil {
						return "(retidx (of " + t.ctor(one(b, "HOLE_C")) + "))", 1
					}
				}
			}
		}
		if t.match("(*x.list)[i] = concreteValue", src) != nil {
			t.need("concreteValue", "val")
			return "storeidx", 1
		}
		if t.match("*x.list = append(*x.list, concreteValue)", src) != nil {
			t.need("concreteValue", "val")
			return "appendval", 1
		}
		if t.match("*x.list = append(*x.list, v)", src) != nil {
			t.need("v", "new")
			return "appendnew", 1
		}
	} else {
		key := t.keyName()
		if b := t.match(`panic(HOLE_S)`, src); b != nil {
			if one(b, "HOLE_S") != strconv.Quote("should not call Mutable on protoreflect.Map whose value is not of type protoreflect.Message") {
				t.fail("the panic message is not the template's")
			}
			return "panic", 1
		}
		if b := t.match("for k, v := range *x.m { mapKey := (PR.MapKey)(PR.HOLE_C(k)); mapValue := HOLES_V; if !f(mapKey, mapValue) { break } }", src); b != nil {
			if _, dup := t.roles["v"]; dup {
				t.fail("v is declared twice")
			}
			return "(rangeloop " + t.ctor(one(b, "HOLE_C")) + " " + t.wrap(b["HOLES_V"], "v") + ")", 1
		}
		if t.match("_, ok := (*x.m)["+key+"]", src) != nil {
			t.need(key, "key")
			t.def("ok", "ok")
			return "lookupok", 1
		}
		if t.match("v, ok := (*x.m)["+key+"]", src) != nil {
			t.need(key, "key")
			t.def("ok", "ok")
			t.def("v", "look")
			return "lookup", 1
		}
		if t.match("return ok", src) != nil {
			t.need("ok", "ok")
			return "retok", 1
		}
		if t.match("delete(*x.m, "+key+")", src) != nil {
			t.need(key, "key")
			return "delete", 1
		}
		if t.match("if !ok { return PR.Value{} }", src) != nil {
			t.need("ok", "ok")
			return "ifnotokretinvalid", 1
		}
		if t.match("if ok { return PR.ValueOfMessage(v.ProtoReflect()) }", src) != nil {
			t.need("ok", "ok")
			t.need("v", "look")
			return "ifokretmsg", 1
		}
		if t.match("(*x.m)["+key+"] = concreteValue", src) != nil {
			t.need(key, "key")
			t.need("concreteValue", "val")
			return "storekey", 1
		}
		if t.match("(*x.m)["+key+"] = newValue", src) != nil {
			t.need(key, "key")
			t.need("newValue", "new")
			return "storekeynew", 1
		}
		if len(src) > 1 && src[0] == "return" && t.roles["v"] == "look" {
			return "(retlooked " + t.wrap(src[1:], "v") + ")", 1
		}
	}
	t.fail("statement `%s` is not one of the template's forms", strings.Join(src, " "))
	return "", 0
}

func (t *vpTr) translate(name string) (res *vpMeth) {
	res = &vpMeth{}
	ds := t.w.methods[name]
	if len(ds) != 1 {
		res.fail = fmt.Sprintf("untranslatable:-:%d declarations of %s.%s", len(ds), t.name, name)
		return
	}
	d := ds[0]
	t.at = d
	t.method = name
	t.roles = map[string]string{}
	defer func() {
		if e := recover(); e != nil {
			se, ok := e.(spErr)
			if !ok {
				panic(e)
			}
			p := t.pkg.fset.Position(se.pos)
			res = &vpMeth{fail: fmt.Sprintf("untranslatable:%s:%d:%d:%s", filepath.Base(p.Filename), p.Line, p.Column, se.why)}
		}
	}()
	head := t.f.src[t.pkg.fset.Position(d.Pos()).Offset:t.pkg.fset.Position(d.Body.Lbrace).Offset]
	if t.match("func (x *"+t.name+") "+vpSigs[t.kind][name], spToks(head)) == nil {
		t.fail("the signature of %s is not the template's", name)
	}
	body := d.Body.List
	for k := 0; k < len(body); {
		s, n := t.stmt(body, k)
		res.items = append(res.items, s)
		k += n
	}
	return
}

// the frame of the wrapper type of field f: "" or why it is not the template's
func vpTranslator(si *schemaInfo, mi *msgInfo, f int) (t *vpTr, failure string) {
	pkg := vpPkgOf(mi)
	if pkg.err != nil {
		return nil, "untranslatable:-:" + pkg.err.Error()
	}
	fi := mi.fields[f]
	kind, P, iface := "list", "list", "List"
	if fi.fd.IsMap() {
		kind, P, iface = "map", "m", "Map"
	}
	name := fmt.Sprintf("_%s_%d_%s", mi.goType.Name(), fi.fd.Number(), kind)
	w := pkg.wrappers[name]
	if w == nil {
		return nil, "untranslatable:-:no declaration of " + name
	}
	if w.f == nil {
		return nil, "untranslatable:-:" + name + " is not declared in one generated file"
	}
	goT := mi.goType.Field(fi.sf).Type
	t = &vpTr{rpTr: &rpTr{pkg: pkg.rp, f: w.f, si: si, mi: mi, tname: mi.goType.Name()}, w: w, name: name, kind: kind, P: P, fidx: f, elemT: goT.Elem()}
	if kind == "map" {
		t.keyT = goT.Key()
	}
	t.pr, t.fm = w.f.imports[rpProtoreflectPath], w.f.imports["fmt"]
	defer func() {
		if e := recover(); e != nil {
			se, ok := e.(spErr)
			if !ok {
				panic(e)
			}
			p := pkg.rp.fset.Position(se.pos)
			t, failure = nil, fmt.Sprintf("untranslatable:%s:%d:%d:%s", filepath.Base(p.Filename), p.Line, p.Column, se.why)
		}
	}()
	t.at = w.f.file
	if t.pr == "" {
		t.fail("the file does not import protoreflect")
	}
	if len(w.asserts) != 1 || len(w.types) != 1 {
		t.fail("%s has %d interface assertions and %d type declarations", name, len(w.asserts), len(w.types))
	}
	t.at = w.asserts[0]
	if t.match("_ PR."+iface+" = (*"+name+")(nil)", spToks(t.text(w.asserts[0]))) == nil {
		t.fail("the assertion is not `var _ protoreflect.%s = (*%s)(nil)`", iface, name)
	}
	t.at = w.types[0]
	b := t.match(name+" struct { "+P+" *HOLES_T }", spToks(t.text(w.types[0])))
	if b == nil || w.types[0].Assign.IsValid() {
		t.fail("the type is not `struct { %s *<type> }`", P)
	}
	t.typeToksAre(b["HOLES_T"], goT, "the wrapped pointer")
	want := vpListMethods
	if kind == "map" {
		want = vpMapMethods
	}
	if len(w.methods) != len(want) {
		var have []string
		for n := range w.methods {
			have = append(have, n)
		}
		sort.Strings(have)
		t.fail("%s has the methods %s", name, strings.Join(have, " "))
	}
	return t, ""
}

// ---- differential run: histories on structs built from values, for the interpreter on the translated wrapper methods -----
type vpRunner struct {
	o  *out
	si *schemaInfo
	g  *rgen
}

func (rr *vpRunner) run(mi *msgInfo, v *V, class string, ops []*rop) {
	s := &rsession{o: rr.o, si: rr.si, mi: mi, F: newImplF(), class: class}
	s.D = s.F // (track reads the length of a list after AppendMutable through the reference implementation: there is only F here)
	s.impls = []*rimpl{s.F}
	s.rootF = rr.si.toGo(mi, v)
	s.F.res = []interface{}{s.rootF.Interface().(proto.Message).ProtoReflect()}
	s.hs = []hinfo{{kind: hMsg, mi: mi, valid: true, live: true, root: 0}}
	var toks, raws []string
	for _, op := range ops {
		h, out := s.apply(s.F, op)
		s.F.res = append(s.F.res, h)
		toks = append(toks, op.tok())
		raws = append(raws, s.render(s.F, out, true)+"|"+rr.si.fromGo(mi, s.rootF).String())
		s.track(op, out)
		rr.o.count("runop_" + op.code + "_" + string(out.k))
	}
	rr.o.kase("REFLECTVIEWRUN", []string{rr.si.id, strconv.Itoa(mi.idx), v.String(), strings.Join(toks, ";")}, strings.Join(raws, ";"))
	rr.o.count("run_" + class)
	rr.o.nontrivial(rr.si.id + "/" + strconv.Itoa(mi.idx) + "/" + class + "/" + strings.Join(toks, ";"))
}

// the histories exercising the wrapper of field f of the root r0 on value v (results are r1, r2, … in order)
func (rr *vpRunner) listOps(mi *msgInfo, f int, v *V) []*rop {
	fd := mi.fields[f].fd
	n0 := 0 // elements the field holds
	if sl := v.L[f]; sl != nil && sl.K == 'l' {
		n0 = len(sl.L)
	}
	var ops []*rop
	next := 1
	add := func(op *rop) int { ops = append(ops, op); next++; return next - 1 }
	msg := isMsgKind(fd)
	var cm *msgInfo
	if msg {
		cm = rr.si.byName[fd.Message().FullName()]
	}
	// an argument for Set / Append: a scalar literal, or (messages) a fresh element from NewElement / the invalid message
	arg := func(view int, fresh bool) *rop {
		if !msg {
			return &rop{a: -1, lit: rr.g.lit(fd, -1)}
		}
		if fresh {
			return &rop{a: add(&rop{code: "lnew", r: view, a: -1})}
		}
		return &rop{a: add(&rop{code: "nil", r: cm.idx, a: -1})}
	}
	with := func(op *rop, a *rop) *rop { op.a, op.lit = a.a, a.lit; return op }
	reads := func(view int, n int) {
		add(&rop{code: "llen", r: view, a: -1})
		add(&rop{code: "lvalid", r: view, a: -1})
		for _, i := range []int{0, n - 1, n, -1} {
			add(&rop{code: "lget", r: view, n: int64(i), a: -1})
		}
		add(&rop{code: "lnew", r: view, a: -1})
	}
	// 1. the view Get returns (the invalid view when the field is empty): reads; writes (panic on the invalid view)
	gv := add(&rop{code: "get", r: 0, f: f, a: -1})
	reads(gv, n0)
	add(with(&rop{code: "lset", r: gv, n: 0}, arg(gv, true)))
	if n0 == 0 {
		add(with(&rop{code: "lapp", r: gv}, arg(gv, true)))
		add(&rop{code: "lappm", r: gv, a: -1})
		add(&rop{code: "ltrunc", r: gv, n: 0, a: -1})
	}
	// 2. the view Mutable returns: always attached
	mv := add(&rop{code: "mut", r: 0, f: f, a: -1})
	reads(mv, n0)
	n := n0
	add(with(&rop{code: "lapp", r: mv}, arg(mv, true)))
	n++
	add(with(&rop{code: "lapp", r: mv}, arg(mv, false))) // (messages: the invalid message is stored as a nil element)
	n++
	add(&rop{code: "lappm", r: mv, a: -1}) // panics for scalars
	if msg {
		n++
	}
	add(with(&rop{code: "lset", r: mv, n: int64(n - 1)}, arg(mv, true)))
	add(with(&rop{code: "lset", r: mv, n: int64(n)}, arg(mv, true))) // out of range
	add(with(&rop{code: "lset", r: mv, n: -1}, arg(mv, true)))
	reads(mv, n)
	add(&rop{code: "ltrunc", r: mv, n: -1, a: -1})
	add(&rop{code: "ltrunc", r: mv, n: int64(n), a: -1})
	add(&rop{code: "ltrunc", r: mv, n: int64(n - 1), a: -1})
	add(&rop{code: "llen", r: mv, a: -1})
	add(&rop{code: "get", r: 0, f: f, a: -1})
	add(&rop{code: "ltrunc", r: mv, n: 0, a: -1})
	add(&rop{code: "llen", r: mv, a: -1})
	add(&rop{code: "has", r: 0, f: f, a: -1})
	// 3. after the field was cleared the view points at a nil slice: reads see an empty valid list, Append re-populates the field
	add(&rop{code: "clear", r: 0, f: f, a: -1})
	reads(mv, 0)
	add(&rop{code: "ltrunc", r: mv, n: 0, a: -1})
	add(&rop{code: "ltrunc", r: mv, n: 1, a: -1}) // beyond the capacity of a nil slice: panics
	add(with(&rop{code: "lapp", r: mv}, arg(mv, true)))
	add(&rop{code: "llen", r: mv, a: -1})
	add(&rop{code: "get", r: 0, f: f, a: -1})
	// 4. a stand-alone list from NewField: filled, then handed to Set
	nv := add(&rop{code: "newf", r: 0, f: f, a: -1})
	reads(nv, 0)
	add(&rop{code: "ltrunc", r: nv, n: 1, a: -1}) // beyond the capacity of []E{}: panics
	add(with(&rop{code: "lapp", r: nv}, arg(nv, true)))
	add(&rop{code: "lappm", r: nv, a: -1})
	add(&rop{code: "lget", r: nv, n: 0, a: -1})
	add(&rop{code: "llen", r: nv, a: -1})
	add(&rop{code: "set", r: 0, f: f, a: nv})
	add(&rop{code: "get", r: 0, f: f, a: -1})
	return ops
}

func (rr *vpRunner) mapOps(mi *msgInfo, f int, v *V) []*rop {
	fd := mi.fields[f].fd
	kd, vd := fd.MapKey(), fd.MapValue()
	var present []*V
	if sl := v.L[f]; sl != nil && sl.K == 'p' {
		for i := 0; i+1 < len(sl.L); i += 2 {
			present = append(present, sl.L[i])
		}
	}
	var ops []*rop
	next := 1
	add := func(op *rop) int { ops = append(ops, op); next++; return next - 1 }
	msg := isMsgKind(vd)
	var cm *msgInfo
	if msg {
		cm = rr.si.byName[vd.Message().FullName()]
	}
	arg := func(view int, fresh bool) *rop {
		if !msg {
			return &rop{a: -1, lit: rr.g.lit(vd, -1)}
		}
		if fresh {
			return &rop{a: add(&rop{code: "mnewv", r: view, a: -1})}
		}
		return &rop{a: add(&rop{code: "nil", r: cm.idx, a: -1})}
	}
	with := func(op *rop, a *rop) *rop { op.a, op.lit = a.a, a.lit; return op }
	// keys: one the value holds (if any), two literals (boundary values: the zero key first)
	keys := []*V{rr.g.lit(kd, 0), rr.g.lit(kd, -1)}
	if len(present) > 0 {
		keys = append(keys, present[rr.g.r.intn(len(present))])
	}
	reads := func(view int) {
		add(&rop{code: "mlen", r: view, a: -1})
		add(&rop{code: "mvalid", r: view, a: -1})
		add(&rop{code: "mrange", r: view, a: -1})
		for _, k := range []int64{1, 2} {
			add(&rop{code: "mrstop", r: view, n: k, a: -1})
		}
		for _, k := range keys {
			add(&rop{code: "mhas", r: view, key: k, a: -1})
			add(&rop{code: "mget", r: view, key: k, a: -1})
		}
		add(&rop{code: "mnewv", r: view, a: -1})
	}
	writes := func(view int) {
		add(with(&rop{code: "mset", r: view, key: keys[0]}, arg(view, true)))
		add(&rop{code: "mget", r: view, key: keys[0], a: -1})
		add(with(&rop{code: "mset", r: view, key: keys[1]}, arg(view, false))) // (messages: the invalid message is stored as a nil value)
		add(&rop{code: "mget", r: view, key: keys[1], a: -1})
		add(&rop{code: "mmut", r: view, key: keys[1], a: -1}) // present (holding nil for messages): returned as it is; scalars: panics
		add(&rop{code: "mmut", r: view, key: keys[len(keys)-1], a: -1})
		add(&rop{code: "mclear", r: view, key: keys[0], a: -1})
		add(&rop{code: "mmut", r: view, key: keys[0], a: -1}) // absent: allocated and stored
		add(&rop{code: "mclear", r: view, key: keys[len(keys)-1], a: -1})
		add(&rop{code: "mclear", r: view, key: keys[len(keys)-1], a: -1}) // absent now
	}
	// 1. the view Get returns (the invalid view when the field is empty)
	gv := add(&rop{code: "get", r: 0, f: f, a: -1})
	reads(gv)
	if len(present) == 0 {
		writes(gv) // Set / Mutable panic, Clear does nothing
	}
	// 2. the view Mutable returns
	mv := add(&rop{code: "mut", r: 0, f: f, a: -1})
	reads(mv)
	writes(mv)
	reads(mv)
	add(&rop{code: "get", r: 0, f: f, a: -1})
	// 3. after the field was cleared the view points at a nil map: reads see an empty valid map, stores panic, Clear does nothing
	add(&rop{code: "clear", r: 0, f: f, a: -1})
	reads(mv)
	writes(mv)
	add(&rop{code: "has", r: 0, f: f, a: -1})
	// 4. a stand-alone map from NewField: filled, then handed to Set
	nv := add(&rop{code: "newf", r: 0, f: f, a: -1})
	reads(nv)
	writes(nv)
	reads(nv)
	add(&rop{code: "set", r: 0, f: f, a: nv})
	add(&rop{code: "get", r: 0, f: f, a: -1})
	return ops
}

func (rr *vpRunner) runs(cfg config, mi *msgInfo, r *rng) {
	var views []int
	for f, fi := range mi.fields {
		if fi.fd.IsList() || fi.fd.IsMap() {
			views = append(views, f)
		}
	}
	if len(views) == 0 {
		return
	}
	vg := &vgen{r: r, si: rr.si, nilElems: true}
	nvals := 2
	if cfg.thorough() {
		nvals = 10
	}
	vals := []*V{rr.si.emptyV(mi)}
	for k := 0; k < nvals; k++ {
		v := vg.msg(mi, 2, 3+r.intn(6))
		fixLits(rr.si, mi, v)
		vals = append(vals, v)
	}
	for vi, v := range vals {
		class := "populated"
		if vi == 0 {
			class = "empty"
		}
		for _, f := range views {
			if vi >= 2 && !cfg.thorough() && len(views) > 6 && r.intn(3) != 0 {
				continue
			}
			if mi.fields[f].fd.IsList() {
				rr.run(mi, v, class+"_list", rr.listOps(mi, f, v))
			} else {
				rr.run(mi, v, class+"_map", rr.mapOps(mi, f, v))
			}
		}
	}
}

func engineReflectViewProg(cfg config, o *out) {
	schemas := loadSchemasProg()
	cc := newClassCov("reflectviewprog")
	defer cc.emit(o)
	for _, si := range schemas {
		o.raw("SCHEMA\t" + si.id + "\t=\t" + si.sexp())
		r := newRng(cfg.seed, "reflectviewprog/"+si.id)
		for _, mi := range si.roots() {
			for f, fi := range mi.fields {
				if !fi.fd.IsList() && !fi.fd.IsMap() {
					continue
				}
				args := []string{si.id, fmt.Sprint(mi.idx), fmt.Sprint(f)}
				t, failure := vpTranslator(si, mi, f)
				if failure != "" {
					o.kase("REFLECTVIEWPROG", append(append([]string{}, args...), "kind"), failure)
					o.count("untranslatable_frame")
					continue
				}
				o.kase("REFLECTVIEWPROG", append(append([]string{}, args...), "kind"), t.kind)
				names := vpListMethods
				if t.kind == "map" {
					names = vpMapMethods
				}
				all := true
				for _, name := range names {
					margs := append(append([]string{}, args...), name)
					m := t.translate(name)
					if m.fail != "" {
						o.kase("REFLECTVIEWPROG", append(margs, "len"), m.fail)
						o.count("untranslatable")
						o.count("untranslatable_" + t.kind + "_" + name)
						all = false
						continue
					}
					for k, it := range m.items {
						o.kase("REFLECTVIEWPROG", append(margs, strconv.Itoa(k)), it)
					}
					o.kase("REFLECTVIEWPROG", append(margs, "len"), strconv.Itoa(len(m.items)))
					text := m.text()
					o.kase("@REFLECTVIEWDEF", append(margs, text), "ok")
					o.kase("REFLECTVIEWPROG", append(margs, "eqb"), "same")
					o.count("translated")
					o.count("translated_" + t.kind + "_" + name)
					o.hist["stmts_"+t.kind+"_"+name] += len(m.items)
					o.nontrivial("prog/" + t.kind + "/" + name + "/" + text)
				}
				if all {
					o.kase("REFLECTVIEWPROG", append(append([]string{}, args...), "all", "eqb"), "same")
					o.count("wrappers_fully_translated")
					cc.view(si, mi, f)
					o.count("wrappers_fully_translated_" + t.kind)
				}
			}
		}
		// the interpreter on the translated methods against the running code
		rr := &vpRunner{o: o, si: si, g: &rgen{r: r, vg: &vgen{r: r, si: si}}}
		for _, mi := range si.roots() {
			rr.runs(cfg, mi, r)
		}
	}
}
